#!/usr/bin/env python3
"""Rewrite harness/Cargo.toml with an explicit member list: every harness/p/<x> that has a
Cargo.toml and at least one existing target source. (A glob would break every build while a crate
directory is half-created.)"""
import os, re
H = "/verif/harness"
members = ["kvh"]
for d in sorted(os.listdir(os.path.join(H, "p"))):
    root = os.path.join(H, "p", d)
    man = os.path.join(root, "Cargo.toml")
    if not os.path.isfile(man):
        continue
    txt = open(man).read()
    paths = re.findall(r'^\s*path\s*=\s*"(src/[^"]+)"', txt, re.M) or []
    cands = paths + ["src/main.rs", "src/lib.rs"]
    if any(os.path.isfile(os.path.join(root, c)) for c in cands):
        members.append("p/" + d)
text = '[workspace]\nresolver = "2"\nmembers = [%s]\n\n[profile.dev]\nopt-level = 1\ndebug = 1\n\n[profile.release]\ndebug = 0\n' % ", ".join('"%s"' % m for m in members)
p = os.path.join(H, "Cargo.toml")
if not os.path.exists(p) or open(p).read() != text:
    open(p, "w").write(text)
