#!/usr/bin/env python3
"""Record confirmed seeded changes: tools/record_seed.py <spec.json>
spec = list of {id, property, src (dir with patch.diff, demo *.rs, notes.md), patch (optional file name in src),
                change, needs_to_manifest, check_run, caught_by, status, confirmed}"""
import json, os, shutil, sys, glob
V = "/verif/seeded"
spec = json.load(open(sys.argv[1]))
rows = []
for s in spec:
    d = os.path.join(V, s["id"])
    os.makedirs(d, exist_ok=True)
    shutil.copy(os.path.join(s["src"], s.get("patch", "patch.diff")), os.path.join(d, "patch.diff"))
    for f in glob.glob(os.path.join(s["src"], "*.rs")):
        shutil.copy(f, os.path.join(d, os.path.basename(f)))
    if os.path.exists(os.path.join(s["src"], "notes.md")):
        shutil.copy(os.path.join(s["src"], "notes.md"), os.path.join(d, "notes.md"))
    meta = {k: s[k] for k in ("id", "property", "change", "needs_to_manifest")}
    meta["produced_by"] = "independent sub-agent given only the property text (plus the list of mechanisms already used in round 1) and a scratch worktree of /repo (no access to /verif)"
    meta["confirmed"] = s.get("confirmed", "tools/confirm_seed.sh in a scratch worktree at /repo HEAD: demo passes on HEAD, fails with the patch; cargo nextest --workspace with the patch: 547 passed (tests that failed only while the machine was loaded - rate_limiter::*, test_knn_latency_with_hot_tier, test_load_shedding_permits_released, test_scoped_query_cache_isolation - were re-run alone with the patch applied and passed)")
    meta["check_run"] = s["check_run"]
    meta["caught_by"] = s["caught_by"]
    meta["status"] = s["status"]
    json.dump(meta, open(os.path.join(d, "meta.json"), "w"), indent=1)
    rows.append("| %s | %s | %s | %s | %s | %s |" % (s["id"], s["property"], s["change"], s["needs_to_manifest"], s["caught_by"], s["status"]))
idx = os.path.join(V, "INDEX.md")
txt = open(idx).read().rstrip("\n").split("\n")
have = {l.split("|")[1].strip() for l in txt if l.startswith("| C")}
txt += [r for r in rows if r.split("|")[1].strip() not in have]
open(idx, "w").write("\n".join(txt) + "\n")
print("recorded", [s["id"] for s in spec])
