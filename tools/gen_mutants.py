#!/usr/bin/env python3
"""Self-test for the translator targets token_bucket / tenant_id_mapper / ordered_f64 that never touches /repo:
applies textual mutations to SCRATCH copies of rate_limiter.rs / kyrodb_server.rs / hnsw_backend.rs
(.cache/scratch/genmut/<name>/repo), runs the translator target on the copy and re-checks the regenerated
model + the equality proofs + the pinned statements in a scratch -Q directory.
Shows which stage reacts (translator fail-closed / equality proof / nothing).   usage: tools/gen_mutants.py [names]"""
import os, re, shutil, subprocess, sys

BASE = '/verif/.cache/scratch/genmut'
TR = '/verif/.cache/target/debug/translator'
SRC = {
    'token_bucket': 'engine/src/rate_limiter.rs',
    'tenant_id_mapper': 'engine/src/bin/kyrodb_server.rs',
    'ordered_f64': 'engine/src/hnsw_backend.rs',
}
COQ = {
    'token_bucket': ['Model/RateLimit.v', 'gen/Bucket_gen.v', 'Proofs/BucketGenProofs.v', 'Properties/C19gen.v'],
    'tenant_id_mapper': ['Model/Server.v', 'gen/TenantId_gen.v', 'Proofs/TenantIdGenProofs.v', 'Properties/C10gen.v'],
    'ordered_f64': ['Model/Filter.v', 'gen/OrderedF64_gen.v', 'Proofs/FilterLemmas.v', 'Proofs/OrderedF64GenProofs.v', 'Properties/C11gen.v'],
}


def rep(s, a, b):
    assert a in s, a
    return s.replace(a, b, 1)


def muts():
    rl = open('/repo/' + SRC['token_bucket']).read()
    sv = open('/repo/' + SRC['tenant_id_mapper']).read()
    hb = open('/repo/' + SRC['ordered_f64']).read()
    m = []
    # ---- token_bucket
    m.append(('tb0_identity', 'token_bucket', rl))
    m.append(('tb1_ge1_to_gt0', 'token_bucket', rep(rl, 'if self.tokens >= 1.0 {', 'if self.tokens > 0.0 {')))
    m.append(('tb2_refund_without_min', 'token_bucket', rep(rl, 'self.tokens = (self.tokens + 1.0).min(self.capacity as f64);', 'self.tokens = self.tokens + 1.0;')))
    m.append(('tb3_refill_without_min', 'token_bucket', rep(rl, 'self.tokens = new_tokens.min(self.capacity as f64);', 'self.tokens = new_tokens;')))
    m.append(('tb4_last_refill_not_updated', 'token_bucket', rep(rl, '            self.last_refill = now;\n        }\n    }\n\n    /// Get current token count', '        }\n    }\n\n    /// Get current token count')))
    m.append(('tb5_consume_two', 'token_bucket', rep(rl, 'self.tokens -= 1.0;', 'self.tokens -= 2.0;')))
    m.append(('tb6_new_half_full', 'token_bucket', rl.replace('tokens: max_qps as f64,', 'tokens: 0.0,')))
    m.append(('tb7_hook_changes_semantics', 'token_bucket', rep(rl, '''            return Self {
                capacity: max_qps,
                tokens: max_qps as f64,''', '''            return Self {
                capacity: max_qps,
                tokens: 0.0,''')))
    m.append(('tb8_try_consume_skips_refill', 'token_bucket', rep(rl, '    pub fn try_consume(&mut self) -> bool {\n        self.refill();\n', '    pub fn try_consume(&mut self) -> bool {\n')))
    m.append(('tb9_unknown_construct_loop', 'token_bucket', rep(rl, 'self.tokens -= 1.0;', 'while self.tokens > 5.0 { self.tokens -= 1.0; }')))
    m.append(('tb10_harmless_rename_local', 'token_bucket', rl.replace('new_tokens', 'fresh_tokens')))
    # ---- tenant_id_mapper
    m.append(('ti0_identity', 'tenant_id_mapper', sv))
    m.append(('ti1_shift_31', 'tenant_id_mapper', rep(sv, 'Ok(((tenant_index as u64) << 32) | local_doc_id)', 'Ok(((tenant_index as u64) << 31) | local_doc_id)')))
    m.append(('ti2_range_gt_to_ge', 'tenant_id_mapper', rep(sv, 'if local_doc_id > u32::MAX as u64 {', 'if local_doc_id >= u32::MAX as u64 {')))
    m.append(('ti3_mask_16_bits', 'tenant_id_mapper', rep(sv, 'global_doc_id & 0xFFFF_FFFF', 'global_doc_id & 0xFFFF')))
    m.append(('ti4_is_tenant_shift_31', 'tenant_id_mapper', rep(sv, '(global_doc_id >> 32) as u32 == tenant_index', '(global_doc_id >> 31) as u32 == tenant_index')))
    m.append(('ti5_range_check_dropped', 'tenant_id_mapper', rep(sv, 'if local_doc_id > u32::MAX as u64 {', 'if false {')))
    m.append(('ti6_xor_instead_of_or', 'tenant_id_mapper', rep(sv, '<< 32) | local_doc_id)', '<< 32) ^ local_doc_id)')))
    m.append(('ti7_unknown_construct_wrapping_add', 'tenant_id_mapper', rep(sv, '<< 32) | local_doc_id)', '<< 32).wrapping_add(local_doc_id))')))
    # ---- ordered_f64
    m.append(('of0_identity', 'ordered_f64', hb))
    m.append(('of1_not_dropped', 'ordered_f64', rep(hb, 'Self(!bits)', 'Self(bits)')))
    m.append(('of2_shift_62', 'ordered_f64', rep(hb, 'if (bits >> 63) == 0 {', 'if (bits >> 62) == 0 {')))
    m.append(('of3_no_zero_canonicalisation', 'ordered_f64', rep(hb, 'let value = if value == 0.0 { 0.0 } else { value };', 'let value = if value == 0.0 { value } else { value };')))
    m.append(('of4_set_bit_62', 'ordered_f64', rep(hb, 'Self(bits | (1u64 << 63))', 'Self(bits | (1u64 << 62))')))
    m.append(('of5_branches_swapped', 'ordered_f64', rep(hb, 'if (bits >> 63) == 0 {', 'if (bits >> 63) != 0 {')))
    m.append(('of6_ord_derive_removed', 'ordered_f64', rep(hb, '#[derive(Clone, Copy, Debug, PartialEq, Eq, PartialOrd, Ord)]\nstruct OrderedF64(u64);', '#[derive(Clone, Copy, Debug, PartialEq, Eq)]\nstruct OrderedF64(u64);')))
    m.append(('of7_unknown_construct_abs', 'ordered_f64', rep(hb, 'let bits = value.to_bits();', 'let bits = value.abs().to_bits();')))
    return m


def main():
    only = sys.argv[1:]
    for name, target, text in muts():
        if only and name not in only and target not in only:
            continue
        d = os.path.join(BASE, name)
        shutil.rmtree(d, ignore_errors=True)
        for sub in ('Model', 'gen', 'Proofs', 'Properties'):
            os.makedirs(os.path.join(d, 'coq', sub))
        dst = os.path.join(d, 'repo', SRC[target])
        os.makedirs(os.path.dirname(dst))
        open(dst, 'w').write(text)
        p = subprocess.run([TR, target, '--repo', d + '/repo', '--out', d + '/coq/gen', '--report-dir', d], capture_output=True, text=True)
        line = (p.stdout + p.stderr).strip().split('\n')[-1]
        line = line.replace(d + '/repo/', '')
        print('== %-36s translator rc=%d  %s' % (name, p.returncode, line[:230]))
        if p.returncode != 0:
            continue
        ok = True
        for f in COQ[target]:
            if not f.startswith('gen/'):
                shutil.copy('/verif/coq/' + f, d + '/coq/' + f)
            q = subprocess.run(['timeout', '600', 'coqc', '-noglob', '-Q', d + '/coq', 'Kyro', d + '/coq/' + f], capture_output=True, text=True)
            if q.returncode != 0:
                err = q.stdout + q.stderr
                mm = re.search(r'line (\d+)', err)
                print('   coqc FAILED in %s line %s | %s' % (f, mm.group(1) if mm else '?', ' '.join(err.strip().split('\n')[-2:])[:200]))
                ok = False
                break
        if ok:
            print('   all equality proofs pass')


if __name__ == '__main__':
    main()
