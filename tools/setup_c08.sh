#!/bin/sh
# Cold build of the lock-recording workspace (engine against harness/vendor/{parking_lot,lock_api}).
# Called from setup.sh; offline; writes only under /verif/.cache/target-locks and harness-locks/Cargo.lock.
set -u
cd /verif/harness-locks || exit 0
export CARGO_NET_OFFLINE=true
[ -f Cargo.lock ] || cp /repo/Cargo.lock Cargo.lock
cargo build --offline --workspace --bins || echo "setup_c08: driver build failed (./check C08 will report it)"
exit 0
