#!/bin/bash
# Confirm a seeded change in a scratch worktree: demo passes on HEAD, fails with the patch, and the
# whole existing suite still passes with the patch.   confirm_seed.sh <worktree> <dir with patch.diff + demo *.rs> [suite]
WT="$1"; D="$2"; SUITE="${3:-yes}"
cd "$WT" || exit 2
git checkout -q -- . ; git clean -fdq -e target
git checkout -q --detach "$(git -C /repo rev-parse HEAD)"
demo=$(ls "$D"/*.rs | head -1); name=$(basename "$demo" .rs); name="seed_${name}"
cp "$demo" "engine/tests/$name.rs"
export CARGO_TARGET_DIR="$WT/target" CARGO_NET_OFFLINE=true
echo "== $D: demo on HEAD"
cargo test --offline -p kyrodb-engine --test "$name" 2>&1 | grep -E "^test result|error\[" | head -3
git apply "$D/patch.diff" || { echo "PATCH DOES NOT APPLY"; exit 3; }
echo "== $D: demo with patch"
cargo test --offline -p kyrodb-engine --test "$name" 2>&1 | grep -E "^test result|error\[|warning: unused" | head -3
rm -f "engine/tests/$name.rs"
if [ "$SUITE" = "yes" ]; then
  echo "== $D: full suite with patch"
  cargo nextest run --workspace --no-fail-fast --offline --test-threads 8 > "$WT/suite_seed.log" 2>&1
  grep -E "Summary|^\s+FAIL" "$WT/suite_seed.log" | sort -u | head -8
  # wall-clock-sensitive tests fail while the machine is loaded: re-run every failed test alone
  failed=$(grep -E "^\s+FAIL" "$WT/suite_seed.log" | awk '{print $NF}' | sort -u)
  if [ -n "$failed" ]; then
    echo "== $D: failed tests re-run alone (one thread)"
    cargo nextest run --workspace --no-fail-fast --offline --test-threads 1 $failed 2>&1 | grep -E "Summary|^\s+FAIL" | sort -u | head -8
  fi
fi
git checkout -q -- . ; git clean -fdq -e target
