#!/usr/bin/env python3
"""C18 self-test that never touches /repo: applies textual mutations of KyroDbConfig::validate / load / main to SCRATCH copies
of config.rs and kyrodb_server.rs (.cache/scratch/c18mut/<name>/repo), runs the translator on each copy and re-checks
Model/RustStr.v, the regenerated Config_gen.v, Proofs/ConfigProofs.v and Properties/C18.v in a scratch -Q directory.
Shows which stage (translator fail-closed / structure flag / proof) reacts.  usage: tools/c18_mutants.py [mutant names]"""
import os, shutil, subprocess, sys, re
BASE='/verif/.cache/scratch/c18mut'
src=open('/repo/engine/src/config.rs').read()
srv=open('/repo/engine/src/bin/kyrodb_server.rs').read()
def rep(s, a, b, count=1):
    assert a in s, a
    return s.replace(a, b, count)
muts = {}
muts['M0_identity'] = (src, srv)
muts['M1_drop_pilot_tls_guard'] = (rep(src, '''            anyhow::ensure!(
                self.server.tls.enabled || is_loopback_host(&self.server.host),
                "Pilot mode requires TLS for non-loopback gRPC bind addresses"
            );
''', ''), srv)
muts['M2_and_to_or_pilot_auth'] = (rep(src, 'anyhow::ensure!(self.auth.enabled, "Pilot mode requires auth.enabled=true");', 'anyhow::ensure!(self.auth.enabled || self.rate_limit.enabled, "Pilot mode requires auth.enabled=true");'), srv)
muts['M3_http_host_instead_of_grpc'] = (rep(src, '            if !grpc_loopback {\n                anyhow::ensure!(\n                    self.auth.enabled,', '            if !http_loopback {\n                anyhow::ensure!(\n                    self.auth.enabled,'), srv)
muts['M3b_pilot_uses_http_host_helper'] = (rep(src, 'self.server.tls.enabled || is_loopback_host(&self.server.host),', 'self.server.tls.enabled || is_loopback_host(self.http_host()),'), srv)
muts['M4_env_case_sensitive_everywhere'] = (rep(src, '''            .environment_type
            .trim()
            .to_ascii_lowercase();''', '''            .environment_type
            .clone();'''), srv)
muts['M4b_pilot_block_compares_raw'] = (rep(src, 'if environment_type == "pilot" {', 'if self.environment.environment_type == "pilot" {'), srv)
muts['M4c_trim_only'] = (rep(src, '''            .trim()
            .to_ascii_lowercase();''', '''            .trim()
            .to_string();'''), srv)
muts['M5_early_ok'] = (rep(src, '        if environment_type == "pilot" {\n            anyhow::ensure!(self.auth.enabled', '        if self.server.tls.enabled {\n            return Ok(());\n        }\n        if environment_type == "pilot" {\n            anyhow::ensure!(self.auth.enabled'), srv)
muts['M6_harmless_new_guard_and_reorder'] = (rep(rep(src, '        // Authentication validation\n', '        anyhow::ensure!(self.slo.min_samples < 1_000_000, "min_samples too large");\n        // Authentication validation\n'),
   '''            anyhow::ensure!(self.auth.enabled, "Pilot mode requires auth.enabled=true");
            anyhow::ensure!(
                self.rate_limit.enabled,
                "Pilot mode requires rate_limit.enabled=true"
            );''', '''            anyhow::ensure!(
                self.rate_limit.enabled,
                "Pilot mode requires rate_limit.enabled=true"
            );
            anyhow::ensure!(self.auth.enabled, "Pilot mode requires auth.enabled=true");'''), srv)
muts['M7_benchmark_check_inverted'] = (rep(src, 'if environment_type != "benchmark" {', 'if environment_type == "production" {'), srv)
muts['M8_main_validate_before_override'] = (src, rep(rep(srv, '    // Validate final configuration\n    config.validate()?;\n', ''), '    // Apply CLI overrides (highest priority)\n', '    config.validate()?;\n    // Apply CLI overrides (highest priority)\n'))
muts['M9_load_skips_validate'] = (rep(src, '        config.validate()?;\n        Ok(config)', '        Ok(config)'), srv)
muts['M10_question_mark_helper'] = (rep(src, '        if environment_type == "pilot" {\n            anyhow::ensure!(self.auth.enabled', '        self.extra()?;\n        if environment_type == "pilot" {\n            anyhow::ensure!(self.auth.enabled'), srv)
muts['M11_snapshot_check_gt'] = (rep(src, 'if self.persistence.snapshot_interval_mutations == 0 {', 'if self.persistence.snapshot_interval_mutations > 1_000_000 {'), srv)
muts['M12_fsync_dropped'] = (rep(src, 'if matches!(self.persistence.fsync_policy, FsyncPolicy::None) {', 'if false {'), srv)
muts['M2b_prod_and_weakening'] = (rep(src, '            if !grpc_loopback {\n                anyhow::ensure!(\n                    self.auth.enabled,', '            if !grpc_loopback && !http_loopback {\n                anyhow::ensure!(\n                    self.auth.enabled,'), srv)
muts['M2c_tls_or_to_and'] = (rep(src, 'self.server.tls.enabled || is_loopback_host(&self.server.host),', 'self.server.tls.enabled && is_loopback_host(&self.server.host),'), srv)
muts['M2d_benchmark_or'] = (rep(src, 'if environment_type != "benchmark" {', 'if environment_type != "benchmark" && environment_type != "pilot" {'), srv)
only = sys.argv[1:] 
for name,(c,s) in muts.items():
    if only and name not in only: continue
    d=os.path.join(BASE,name)
    shutil.rmtree(d, ignore_errors=True)
    os.makedirs(d+'/repo/engine/src/bin'); os.makedirs(d+'/coq/gen'); os.makedirs(d+'/coq/Model'); os.makedirs(d+'/coq/Proofs'); os.makedirs(d+'/coq/Properties')
    open(d+'/repo/engine/src/config.rs','w').write(c); open(d+'/repo/engine/src/bin/kyrodb_server.rs','w').write(s)
    p=subprocess.run(['/verif/.cache/target/debug/translator','config','--repo',d+'/repo','--out',d+'/coq/gen','--report-dir',d],capture_output=True,text=True)
    line=(p.stdout+p.stderr).strip().split('\n')[-1]
    print('==',name,'translator rc=%d'%p.returncode, line[:260])
    if p.returncode!=0: continue
    import json
    st=json.load(open(d+'/Config_gen.json'))['structure']
    print('   structure: early_ok_free=%s load=%s main=%s'%(st['no_early_ok'], st['load_ends_with_validate']['ok'], st['main_validates_before_construction']['ok']))
    for f in ['Model/RustStr.v','Proofs/ConfigProofs.v','Properties/C18.v']:
        shutil.copy('/verif/coq/'+f, d+'/coq/'+f)
    for f in ['Model/RustStr.v','gen/Config_gen.v','Proofs/ConfigProofs.v','Properties/C18.v']:
        q=subprocess.run(['timeout','300','coqc','-noglob','-Q',d+'/coq','Kyro',d+'/coq/'+f],capture_output=True,text=True)
        if q.returncode!=0:
            err=(q.stdout+q.stderr)
            m=re.search(r'line (\d+)',err)
            print('   coqc FAILED in',f, 'line', m.group(1) if m else '?', '|', ' '.join(err.strip().split('\n')[-3:])[:300])
            break
    else:
        print('   all proofs pass')
