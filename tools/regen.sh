#!/bin/sh
# Regenerate every coq/gen/*.v model from /repo's current source (harness/p/translator, all targets).
# Exit status: 0 all targets translated; 2 some target FAILED CLOSED (message names construct and line);
# 1 the translator itself could not be built. Files are only rewritten when their content changed.
set -u
cd /verif/harness || exit 1
export CARGO_NET_OFFLINE=true
[ -x /verif/tools/sync_workspace.py ] && /verif/tools/sync_workspace.py
(
  # same lock as vlib.cargo_build
  mkdir -p /verif/.cache
  exec 9>/verif/.cache/cargo.lock
  flock 9
  cargo build --offline -p kvh-translator
) || { echo "regen: translator build failed"; exit 1; }
mkdir -p /verif/coq/gen /verif/.cache/gen
# one line per target; the exit status is the worst one (a target that fails closed does not stop the others)
rc=0
run_target() { /verif/.cache/target/debug/translator "$1" --repo "${KYRO_REPO:-/repo}" --out /verif/coq/gen --report-dir /verif/.cache/gen || { r=$?; [ "$r" -gt "$rc" ] && rc=$r; }; }
run_target config      # C18: KyroDbConfig::validate -> Config_gen.v
run_target search_k    # C06: hnsw_backend::compute_search_k -> SearchK_gen.v
run_target token_bucket      # C19: rate_limiter::TokenBucket::{new,refill,try_consume,refund_one,available_tokens} -> Bucket_gen.v
run_target tenant_id_mapper  # C10: kyrodb_server TenantIdMapper::{to_global_doc_id,is_tenant_doc_id,to_local_doc_id} -> TenantId_gen.v
run_target ordered_f64       # C11: hnsw_backend::OrderedF64::from_f64 -> OrderedF64_gen.v
( cd /verif/harness && exec 9>/verif/.cache/cargo.lock && flock 9 && cargo build --offline -q -p kvh-xl15 ) && { /verif/.cache/target/debug/xl15 --repo "${KYRO_REPO:-/repo}" --out /verif/coq/gen --report-dir /verif/.cache/gen || { r=$?; [ "$r" -gt "$rc" ] && rc=$r; }; } || { [ "$rc" -lt 1 ] && rc=1; }   # C15: api_validation validators + calculate_oversampling_factor -> Validators_gen.v (harness/p/xl15)
( cd /verif/harness && exec 9>/verif/.cache/cargo.lock && flock 9 && cargo build --offline -q -p kvh-xl17 ) && { /verif/.cache/target/debug/xl17 all --repo "${KYRO_REPO:-/repo}" --out /verif/coq/gen --report-dir /verif/.cache/gen || { r=$?; [ "$r" -gt "$rc" ] && rc=$r; }; } || { [ "$rc" -lt 1 ] && rc=1; }   # C17: simd.rs kernels -> Simd_gen.v, ann_backend.rs index formulas -> Packed_gen.v, unsafe call-site guards -> Guards_gen.v (harness/p/xl17)
exit $rc
