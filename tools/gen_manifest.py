#!/usr/bin/env python3
"""Assemble MANIFEST.json from checks/meta/*.json (one file per claimed property) and
checks/meta/_not_applicable.json. Run after editing any meta file."""
import glob, json, os, subprocess
V = "/verif"
checks = []
ready = set(json.load(open(os.path.join(V, "checks/meta/_ready.json"))))
for p in sorted(glob.glob(os.path.join(V, "checks/meta/C*.json"))):
    m = json.load(open(p))
    pid = m["property_id"]
    if pid not in ready:
        continue
    checks.append({
        "property_id": pid,
        "quick_cmd": "./check %s --tier quick" % pid,
        "thorough_cmd": "./check %s --tier thorough" % pid,
        "evidence_file": "/verif/evidence/%s.json" % pid,
        "replay_cmd_template": "./check %s --replay {path}" % pid,
        "engine": m.get("engine", "coq-kyro"),
        "level_claimed": m["level_claimed"],
        "level_note": m["level_note"],
        "technique": m["technique"],
    })
na = json.load(open(os.path.join(V, "checks/meta/_not_applicable.json")))
claimed = {c["property_id"] for c in checks}
na = [x for x in na if x["property_id"] not in claimed]
props = [json.loads(l)["id"] for l in open(os.path.join(V, "properties.jsonl"))]
for pid in props:
    if pid not in claimed and pid not in {x["property_id"] for x in na}:
        na.append({"property_id": pid, "reason": "not yet claimed: check under construction (see DESIGN.md §5 build order)"})
na.sort(key=lambda x: x["property_id"])
hooks = json.load(open(os.path.join(V, "checks/meta/_hooks.json")))
man = {
    "version": 1,
    "setup_cmd": "./setup.sh",
    "hooks": hooks,
    "engines": [
        {"name": "coq-kyro", "path": "/verif/coq", "serves_properties": sorted(claimed),
         "kind_free_text": "Coq 8.16.1 development (Model/ executable Gallina models, gen/ models regenerated from /repo by harness/translator on every run, Proofs/, Properties/ pinned theorems) + Rust correspondence harness (harness/kvh) whose observations are compared with the model inside coqc by vm_compute"}
    ],
    "checks": checks,
    "not_applicable": na,
    "notes": "Technique family: machine-checked proof in Coq 8.16.1. See DESIGN.md. known_findings.json lists recorded/fixed defects.",
}
json.dump(man, open(os.path.join(V, "MANIFEST.json"), "w"), indent=1)
print("MANIFEST.json: %d checks, %d not applicable" % (len(checks), len(na)))
