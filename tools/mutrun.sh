#!/bin/bash
# Run checks against a MUTATED copy of /repo inside a private mount namespace, so that the real
# /repo and /verif (which other work builds against) stay untouched.
#   tools/mutrun.sh <patch.diff|none> <Cxx> [Cyy ...]      (env MUT_TIER=quick|thorough)
# Persistent scratch: /var/tmp/kyroverif-mutenv (build caches survive between runs; delete when done).
set -u
PATCH="$1"; shift
ENVD=/var/tmp/kyroverif-mutenv
mkdir -p "$ENVD/repo" "$ENVD/verif"
rsync -a --delete --exclude /target /repo/ "$ENVD/repo/"
rsync -a --delete --exclude /.cache --exclude /replays --exclude '*.vo' --exclude '*.vok' --exclude '*.vos' --exclude '*.glob' --exclude '.*.aux' /verif/ "$ENVD/verif/"
if [ "$PATCH" != "none" ]; then
  (cd "$ENVD/repo" && git apply "$PATCH") || { echo "mutrun: patch does not apply"; exit 3; }
fi
PROPS="$*"
unshare --mount bash -c "
  mount --bind $ENVD/repo /repo && mount --bind $ENVD/verif /verif && cd /verif &&
  if [ ! -f .cache/.setup_done ]; then ./setup.sh > .cache_setup.log 2>&1; mkdir -p .cache; touch .cache/.setup_done; fi
  for p in $PROPS; do echo \"=== \$p\"; ./check \$p --tier ${MUT_TIER:-quick} 2>&1 | tail -${MUT_TAIL:-6}; echo \"rc=\${PIPESTATUS[0]}\"; done
"
