(* Proofs/RequestsProofs.v — C15: theorems over Model/Requests.v and the REGENERATED gen/Validators_gen.v. *)
From Coq Require Import List NArith Bool Lia.
From Kyro Require Import Model.ReqBase gen.Validators_gen Model.Requests.
Import ListNotations.
Open Scope N_scope.

(* ------------------------------------------------------------------ small library *)
Lemma len_cons {A} (x : A) l : len (x :: l) = 1 + len l.
Proof. unfold len. cbn [List.length]. lia. Qed.
Lemma len_nil {A} : len (@nil A) = 0.
Proof. reflexivity. Qed.
Lemma is_nil_true {A} (l : list A) : is_nil l = true <-> l = [].
Proof. destruct l; cbn; split; congruence. Qed.
Lemma is_nil_len {A} (l : list A) : is_nil l = false -> 1 <= len l.
Proof. destruct l; cbn [is_nil]; [congruence|]. intros _. rewrite len_cons. lia. Qed.
Lemma clampN_bounds x lo hi : lo <= hi -> lo <= clampN x lo hi <= hi.
Proof.
  intros H. unfold clampN. destruct (x <? lo) eqn:E1; [lia|].
  destruct (hi <? x) eqn:E2; [lia|]. apply N.ltb_ge in E1, E2. lia.
Qed.
Lemma list_min_bounds (l : list N) a b :
  Forall (fun x => a <= x <= b) l -> match list_min l with Some m => a <= m <= b | None => True end.
Proof.
  induction 1 as [|x r Hx Hr IH]; cbn [list_min]; [exact I|].
  destruct (list_min r); lia.
Qed.
Lemma filter_true {A} (l : list A) : filter (fun _ => true) l = l.
Proof. induction l; cbn; congruence. Qed.
Lemma existsb_negb_forallb {A} (p : A -> bool) l : existsb (fun x => negb (p x)) l = false <-> forallb p l = true.
Proof.
  induction l as [|x r IH]; cbn; [tauto|].
  rewrite orb_false_iff, andb_true_iff, negb_false_iff. tauto.
Qed.

(* induction principle for the nested inductive pfilter *)
Section PfilterInd.
  Variable P : pfilter -> Prop.
  Hypothesis HNone : P PNone.
  Hypothesis HExact : forall k v, P (PExact k v).
  Hypothesis HRange : forall k b, P (PRange k b).
  Hypothesis HIn : forall k vs, P (PIn k vs).
  Hypothesis HAnd : forall fs, Forall P fs -> P (PAnd fs).
  Hypothesis HOr : forall fs, Forall P fs -> P (POr fs).
  Hypothesis HNotN : P (PNot None).
  Hypothesis HNotS : forall f, P f -> P (PNot (Some f)).
  Fixpoint pfilter_rect' (f : pfilter) : P f :=
    match f with
    | PNone => HNone
    | PExact k v => HExact k v
    | PRange k b => HRange k b
    | PIn k vs => HIn k vs
    | PAnd fs => HAnd fs ((fix go (l : list pfilter) : Forall P l :=
                             match l with [] => Forall_nil P | x :: r => Forall_cons x (pfilter_rect' x) (go r) end) fs)
    | POr fs => HOr fs ((fix go (l : list pfilter) : Forall P l :=
                           match l with [] => Forall_nil P | x :: r => Forall_cons x (pfilter_rect' x) (go r) end) fs)
    | PNot None => HNotN
    | PNot (Some g) => HNotS g (pfilter_rect' g)
    end.
End PfilterInd.

(* ------------------------------------------------------------------ the translated oversampling function *)
Lemma sel_map_bounds (g : pfilter -> N) fs a b :
  Forall (fun f => has_type f = true -> a <= g f <= b) fs -> Forall (fun x => a <= x <= b) (sel_map g fs).
Proof.
  unfold sel_map. induction 1 as [|f r Hf Hr IH]; cbn [flat_map]; [constructor|].
  destruct (has_type f) eqn:E; cbn [app]; [constructor; auto|exact IH].
Qed.
(* every FilterType is estimated within [1, 50]: so `50 / inner_selectivity` never divides by zero, and
   `avg_selectivity * 2` and the sum stay far below 2^64 for any decodable message *)
Lemma estimate_selectivity_bounds : forall f, has_type f = true -> 1 <= estimate_selectivity f <= 50.
Proof.
  induction f using pfilter_rect'; intros HT; cbn [has_type] in HT; try discriminate;
    cbn [estimate_selectivity]; try lia.
  - (* PIn *) repeat match goal with |- context [if ?c then _ else _] => destruct c end; lia.
  - (* PAnd *) destruct (is_nil fs); [lia|].
    pose proof (list_min_bounds (sel_map (fun g => estimate_selectivity g) fs) 1 50 (sel_map_bounds _ fs 1 50 H)) as B.
    unfold opt_default. destruct (list_min _); lia.
  - (* POr *) destruct (is_nil fs); [lia|]. pose proof (clampN_bounds
      (list_sum (sel_map (fun g => estimate_selectivity g) fs) / N.max (len fs) 1 * 2) 2 20). lia.
  - (* PNot Some *) destruct (has_type f); [|lia].
    pose proof (clampN_bounds (50 / estimate_selectivity f) 10 50). lia.
Qed.
Lemma oversampling_bounds f : 1 <= calculate_oversampling_factor f <= 50.
Proof.
  unfold calculate_oversampling_factor. destruct (has_type f) eqn:E; [|lia].
  apply estimate_selectivity_bounds; exact E.
Qed.
(* the divisors that appear in the generated text *)
Lemma oversampling_divisors_nonzero :
  (forall fs : list pfilter, 1 <= N.max (len fs) 1) /\ (forall f, has_type f = true -> 1 <= estimate_selectivity f).
Proof. split; [intros; lia|]. intros f H. apply estimate_selectivity_bounds in H. lia. Qed.

(* ------------------------------------------------------------------ C15_validators_sound *)
Definition all_finite (v : list fclass) : bool := forallb fc_is_finite v.

Lemma validate_insert_sound r u :
  validate_insert_request r = VOk u ->
  MIN_DOC_ID <= ir_doc_id r /\ ir_embedding r <> [] /\ len (ir_embedding r) <= MAX_EMBEDDING_DIM
  /\ all_finite (ir_embedding r) = true.
Proof.
  unfold validate_insert_request.
  destruct (ir_doc_id r <? MIN_DOC_ID) eqn:E1; [discriminate|].
  destruct (is_nil (ir_embedding r)) eqn:E2; [discriminate|].
  destruct (MAX_EMBEDDING_DIM <? len (ir_embedding r)) eqn:E3; [discriminate|].
  destruct (existsb _ (ir_embedding r)) eqn:E4; [discriminate|]. intros _.
  apply N.ltb_ge in E1, E3. apply existsb_negb_forallb in E4.
  repeat split; auto. intros C. rewrite C in E2. discriminate.
Qed.
Lemma validate_insert_complete r :
  MIN_DOC_ID <= ir_doc_id r -> ir_embedding r <> [] -> len (ir_embedding r) <= MAX_EMBEDDING_DIM ->
  all_finite (ir_embedding r) = true -> validate_insert_request r = VOk tt.
Proof.
  intros H1 H2 H3 H4. unfold validate_insert_request.
  apply N.ltb_ge in H1, H3. rewrite H1.
  destruct (is_nil (ir_embedding r)) eqn:E2; [apply is_nil_true in E2; contradiction|].
  rewrite H3. apply existsb_negb_forallb in H4. rewrite H4. reflexivity.
Qed.

Lemma sat_mul_ge a b : 1 <= b -> a <= USIZE_MAX -> a <= sat_mul a b.
Proof. intros. unfold sat_mul. apply N.min_glb; nia. Qed.

Lemma validate_search_sound r p :
  validate_search_request r = VOk p ->
  sr_query_embedding r <> [] /\ len (sr_query_embedding r) <= MAX_EMBEDDING_DIM
  /\ all_finite (sr_query_embedding r) = true
  /\ 1 <= sr_k r <= MAX_KNN_K /\ sr_ef_search r <= 10000
  /\ sr_k r <= search_k p <= 10000
  /\ ef_search_override p = (if sr_ef_search r =? 0 then None else Some (sr_ef_search r)).
Proof.
  unfold validate_search_request.
  destruct (is_nil (sr_query_embedding r)) eqn:E1; [discriminate|].
  destruct (MAX_EMBEDDING_DIM <? len (sr_query_embedding r)) eqn:E2; [discriminate|].
  destruct (existsb _ (sr_query_embedding r)) eqn:E3; [discriminate|].
  destruct (sr_k r =? 0) eqn:E4; [discriminate|].
  destruct (MAX_KNN_K <? sr_k r) eqn:E5; [discriminate|].
  destruct (10000 <? sr_ef_search r) eqn:E6; [discriminate|].
  intros H. injection H as <-. cbn [search_k ef_search_override].
  apply N.ltb_ge in E2, E5, E6. apply N.eqb_neq in E4. apply existsb_negb_forallb in E3.
  assert (HK : MAX_KNN_K = 1000) by reflexivity.
  repeat split; auto; try lia.
  - intros C. rewrite C in E1. discriminate.
  - set (base := match sr_filter r with Some f => calculate_oversampling_factor f | None => 1 end).
    assert (HB : 1 <= base <= 50).
    { subst base. destruct (sr_filter r); [apply oversampling_bounds|lia]. }
    set (factor := if negb (is_nil (sr_namespace r)) then N.min (sat_mul base 4) 10 else base).
    assert (HF : 1 <= factor).
    { subst factor. destruct (negb _); [|lia]. apply N.min_glb; [|lia].
      unfold sat_mul. apply N.min_glb; [lia|]. unfold USIZE_MAX. lia. }
    apply N.min_glb; [|lia]. apply sat_mul_ge; [exact HF|]. unfold USIZE_MAX. lia.
Qed.

(* ------------------------------------------------------------------ the engine's acceptance *)
Definition nf (v : list fclass) : bool := existsb (fun c => negb (fc_is_finite c)) v.

Lemma normalize_len m e w : normalize m e = Some w -> List.length (e_cls w) = List.length (e_cls e).
Proof.
  unfold normalize. destruct m; [intros H; injection H as <-; reflexivity|].
  destruct (e_unit e); [intros H; injection H as <-; reflexivity|].
  destruct (nsq (e_cls e)); intros H; try discriminate; injection H as <-; cbn [e_cls];
    rewrite ?map_length; reflexivity.
Qed.
Lemma nf_map_scale v : nf v = true -> nf (map scale_by_zero v) = true.
Proof.
  unfold nf. induction v as [|c r IH]; cbn; [congruence|].
  destruct c; cbn; auto.
Qed.
Lemma nf_map_nan v : nf v = true -> nf (map (fun _ => NaN) v) = true.
Proof. unfold nf. destruct v; cbn; [congruence|reflexivity]. Qed.
Lemma normalize_keeps_nf m e w : normalize m e = Some w -> nf (e_cls e) = true -> nf (e_cls w) = true.
Proof.
  unfold normalize. destruct m; [intros H; injection H as <-; auto|].
  destruct (e_unit e); [intros H; injection H as <-; auto|].
  destruct (nsq (e_cls e)); intros H; try discriminate; injection H as <-; cbn [e_cls]; intros Hn;
    auto using nf_map_scale, nf_map_nan.
Qed.
Lemma cold_insert_refuses_nf cfg e : nf (e_cls e) = true -> cold_insert_ok cfg e = false.
Proof.
  intros H. unfold cold_insert_ok. destruct (negb _); [reflexivity|].
  destruct (normalize (c_metric cfg) e) as [w|] eqn:E; [|reflexivity].
  apply (normalize_keeps_nf _ _ _ E) in H. unfold nf in H. rewrite H. reflexivity.
Qed.
Lemma tiered_insert_refuses_nf cfg v : nf v = true -> tiered_insert_ok cfg v = false.
Proof.
  intros H. unfold tiered_insert_ok.
  destruct (normalize (c_metric cfg) (mkEvec v false)) as [w|] eqn:E; [|reflexivity].
  apply cold_insert_refuses_nf. exact (normalize_keeps_nf _ _ _ E H).
Qed.
Lemma direct_cold_insert_refuses_nf cfg v : nf v = true -> direct_cold_insert_ok cfg v = false.
Proof. intros H. apply cold_insert_refuses_nf. exact H. Qed.

Lemma len_eqb_length {A B} (a : list A) (b : list B) : List.length a = List.length b -> len a = len b.
Proof. unfold len. congruence. Qed.
Lemma cold_insert_wrong_dim cfg e : len (e_cls e) <> c_dim cfg -> cold_insert_ok cfg e = false.
Proof. intros H. unfold cold_insert_ok. apply N.eqb_neq in H. rewrite H. reflexivity. Qed.
Lemma tiered_insert_wrong_dim cfg v : len v <> c_dim cfg -> tiered_insert_ok cfg v = false.
Proof.
  intros H. unfold tiered_insert_ok.
  destruct (normalize (c_metric cfg) (mkEvec v false)) as [w|] eqn:E; [|reflexivity].
  apply cold_insert_wrong_dim. apply normalize_len in E. cbn [e_cls] in E.
  rewrite (len_eqb_length _ _ E). exact H.
Qed.
Lemma tiered_insert_zero_norm cfg v :
  c_metric cfg = Cosine -> nsq v = SqTiny -> tiered_insert_ok cfg v = false.
Proof. intros HM HZ. unfold tiered_insert_ok, normalize. rewrite HM. cbn [e_unit e_cls]. rewrite HZ. reflexivity. Qed.
Lemma direct_cold_insert_zero_norm cfg v :
  c_metric cfg = Cosine -> nsq v = SqTiny -> direct_cold_insert_ok cfg v = false.
Proof.
  intros HM HZ. unfold direct_cold_insert_ok, cold_insert_ok, normalize. rewrite HM. cbn [e_unit e_cls]. rewrite HZ.
  destruct (negb _); reflexivity.
Qed.
(* a finite vector whose squares overflow: scaled to zeros by the first normalisation, refused by the second *)
Lemma has_cls_zeros c (v : list fclass) : c <> Zero -> has_cls c (map (fun _ => Zero) v) = false.
Proof. intros H. unfold has_cls. induction v; cbn; [reflexivity|]. rewrite IHv. destruct c; cbn; congruence. Qed.
Lemma scale_finite (v : list fclass) : nf v = false -> map scale_by_zero v = map (fun _ => Zero) v.
Proof.
  unfold nf. induction v as [|c r IH]; cbn; [reflexivity|]. intros H. apply orb_false_iff in H as [H1 H2].
  rewrite (IH H2). destruct c; cbn in *; congruence.
Qed.
Lemma tiered_insert_overflow cfg v :
  c_metric cfg = Cosine -> nsq v = SqInf -> nf v = false -> tiered_insert_ok cfg v = false.
Proof.
  intros HM HI HF. unfold tiered_insert_ok, normalize. rewrite HM. cbn [e_unit e_cls]. rewrite HI.
  unfold cold_insert_ok, normalize. rewrite HM. cbn [e_unit e_cls]. destruct (negb _); [reflexivity|].
  rewrite (scale_finite v HF). unfold nsq. rewrite !has_cls_zeros by congruence. reflexivity.
Qed.

(* ------------------------------------------------------------------ C15_total *)
Lemma engine_search_err_no_crash cfg b r c : engine_search_err cfg b r = Some c -> is_crash c = false.
Proof.
  unfold engine_search_err. destruct (negb _); [intros H; injection H as <-; reflexivity|].
  destruct (c_metric cfg); [discriminate|]. destruct (nsq _); try discriminate;
    intros H; injection H as <-; reflexivity.
Qed.
Lemma group_err_no_crash cfg r bad c : group_err cfg r bad = Some c -> is_crash c = false.
Proof.
  induction bad as [|x rest IH]; cbn [group_err]; [discriminate|].
  destruct (same_group r x); [apply engine_search_err_no_crash|exact IH].
Qed.
Lemma search_item_no_crash cfg bad r : sitem_no_crash (search_item cfg bad r) = true.
Proof.
  unfold search_item.
  destruct (validate_search_request _); [|reflexivity].
  destruct (group_err cfg r bad) eqn:E; [|reflexivity].
  cbn. rewrite (group_err_no_crash _ _ _ _ E). reflexivity.
Qed.
Theorem handle_total cfg ds r : no_crash (snd (handle cfg ds r)) = true.
Proof.
  destruct r; cbn [handle].
  - unfold h_insert. destruct (validate_insert_request _); [|reflexivity].
    destruct (map_doc_id _); [|reflexivity]. destruct (tiered_insert_ok _ _); reflexivity.
  - reflexivity.
  - unfold h_bulk_load. destruct (bl_refused _); [reflexivity|].
    destruct (match bl_pending _ with [] => _ | _ => _ end) as [d [l f]]. reflexivity.
  - unfold h_query. destruct (id =? 0); [reflexivity|]. destruct (map_doc_id id); reflexivity.
  - unfold h_bulk_query. destruct (_ <? _); [reflexivity|]. destruct (map_ids ids); reflexivity.
  - unfold h_search. destruct (negb _); [reflexivity|]. destruct (validate_search_request _); [|reflexivity].
    destruct (engine_search_err cfg false s) eqn:E; [|reflexivity].
    cbn. rewrite (engine_search_err_no_crash _ _ _ _ E). reflexivity.
  - unfold h_bulk_search. cbn [snd no_crash]. apply andb_true_iff. split.
    + apply forallb_forall. intros x Hx. apply in_map_iff in Hx as [y [<- _]]. apply search_item_no_crash.
    + destruct (negb _); [reflexivity|]. destruct (_ <? _); reflexivity.
  - unfold h_update. destruct (id =? 0); [reflexivity|]. destruct (map_doc_id id); [|reflexivity].
    destruct (dget ds n); reflexivity.
  - unfold h_delete. destruct (id <? MIN_DOC_ID); [reflexivity|]. destruct (map_doc_id id); reflexivity.
  - unfold h_batch_delete_ids. destruct (_ <? _); [reflexivity|]. destruct (map_ids ids); reflexivity.
  - unfold h_batch_delete_filter. destruct (negb _); reflexivity.
  - reflexivity.
  - reflexivity.
Qed.

(* ------------------------------------------------------------------ boundary classes: Insert *)
Definition ireq (it : item) : insert_req := mkInsertReq (i_id it) (v_cls (i_vec it)).
Lemma h_insert_validator_refuses cfg ds it s :
  validate_insert_request (ireq it) = VErr s -> h_insert cfg ds it = (ds, Refused InvalidArgument).
Proof. intros H. unfold h_insert. fold (ireq it). rewrite H. reflexivity. Qed.
Ltac verr :=
  repeat (cbv iota;
          match goal with
          | |- context [if ?c then _ else _] =>
              lazymatch c with true => fail | false => fail | _ => destruct c eqn:? end
          end);
  cbv iota; try (eexists; reflexivity).
Lemma insert_id0 cfg ds it : i_id it = 0 -> h_insert cfg ds it = (ds, Refused InvalidArgument).
Proof.
  intros H. assert (exists s, validate_insert_request (ireq it) = VErr s) as [s Hs].
  { unfold validate_insert_request, ireq. cbn [ir_doc_id]. rewrite H. cbn. eexists; reflexivity. }
  eapply h_insert_validator_refuses; eauto.
Qed.
Lemma insert_empty_vector cfg ds it : v_cls (i_vec it) = [] -> h_insert cfg ds it = (ds, Refused InvalidArgument).
Proof.
  intros H. assert (exists s, validate_insert_request (ireq it) = VErr s) as [s Hs].
  { unfold validate_insert_request, ireq. cbn [ir_doc_id ir_embedding]. rewrite H. cbn [is_nil]. verr. }
  eapply h_insert_validator_refuses; eauto.
Qed.
Lemma insert_oversized_vector cfg ds it :
  MAX_EMBEDDING_DIM < len (v_cls (i_vec it)) -> h_insert cfg ds it = (ds, Refused InvalidArgument).
Proof.
  intros H. assert (exists s, validate_insert_request (ireq it) = VErr s) as [s Hs].
  { apply N.ltb_lt in H. unfold validate_insert_request, ireq. cbn [ir_doc_id ir_embedding]. rewrite H. verr. }
  eapply h_insert_validator_refuses; eauto.
Qed.
Lemma insert_nonfinite cfg ds it :
  nf (v_cls (i_vec it)) = true -> h_insert cfg ds it = (ds, Refused InvalidArgument).
Proof.
  intros H. assert (exists s, validate_insert_request (ireq it) = VErr s) as [s Hs].
  { unfold nf in H. unfold validate_insert_request, ireq. cbn [ir_doc_id ir_embedding]. rewrite H. verr. }
  eapply h_insert_validator_refuses; eauto.
Qed.
Lemma insert_id_beyond_range cfg ds it :
  U32_MAX < i_id it -> h_insert cfg ds it = (ds, Refused InvalidArgument).
Proof.
  intros H. unfold h_insert. destruct (validate_insert_request _); [|reflexivity].
  unfold map_doc_id. apply N.ltb_lt in H. rewrite H. reflexivity.
Qed.
(* a request that passes the validator and the id mapping but is refused by the engine: INTERNAL, no effect *)
Lemma insert_engine_refusal cfg ds it u :
  validate_insert_request (ireq it) = VOk u -> i_id it <= U32_MAX -> tiered_insert_ok cfg (v_cls (i_vec it)) = false ->
  h_insert cfg ds it = (ds, Refused Internal).
Proof.
  intros HV HI HE. unfold h_insert. fold (ireq it). rewrite HV. unfold map_doc_id.
  apply N.ltb_ge in HI. rewrite HI, HE. reflexivity.
Qed.
Lemma insert_wrong_dimension cfg ds it u :
  validate_insert_request (ireq it) = VOk u -> i_id it <= U32_MAX -> len (v_cls (i_vec it)) <> c_dim cfg ->
  h_insert cfg ds it = (ds, Refused Internal).
Proof. intros. eapply insert_engine_refusal; eauto using tiered_insert_wrong_dim. Qed.
Lemma insert_zero_vector_cosine cfg ds it u :
  validate_insert_request (ireq it) = VOk u -> i_id it <= U32_MAX -> c_metric cfg = Cosine ->
  nsq (v_cls (i_vec it)) = SqTiny -> h_insert cfg ds it = (ds, Refused Internal).
Proof. intros. eapply insert_engine_refusal; eauto using tiered_insert_zero_norm. Qed.
Lemma insert_overflowing_vector_cosine cfg ds it u :
  validate_insert_request (ireq it) = VOk u -> i_id it <= U32_MAX -> c_metric cfg = Cosine ->
  nsq (v_cls (i_vec it)) = SqInf -> h_insert cfg ds it = (ds, Refused Internal).
Proof.
  intros HV HI HM HS. eapply insert_engine_refusal; eauto. apply tiered_insert_overflow; auto.
  apply validate_insert_sound in HV as (_ & _ & _ & HF). cbn [ireq ir_embedding] in HF.
  unfold nf. apply existsb_negb_forallb. exact HF.
Qed.

(* ------------------------------------------------------------------ boundary classes: Search *)
Lemma h_search_validator_refuses cfg ds r s :
  decodable cfg (q_filter r) = true -> validate_search_request (sview r) = VErr s ->
  h_search cfg ds r = (ds, Refused InvalidArgument).
Proof. intros HD H. unfold h_search. rewrite HD, H. reflexivity. Qed.
Ltac vsr_err :=
  unfold validate_search_request, sview;
  cbn [sr_query_embedding sr_k sr_ef_search sr_namespace sr_filter];
  repeat match goal with
         | H : ?c = true |- context [if ?c then _ else _] => rewrite H
         end; verr.
Lemma search_k_zero cfg ds r :
  decodable cfg (q_filter r) = true -> q_k r = 0 -> h_search cfg ds r = (ds, Refused InvalidArgument).
Proof.
  intros HD H. assert (exists s, validate_search_request (sview r) = VErr s) as [s Hs].
  { assert (E : (q_k r =? 0) = true) by (rewrite H; reflexivity). vsr_err. }
  eapply h_search_validator_refuses; eauto.
Qed.
Lemma search_k_above_max cfg ds r :
  decodable cfg (q_filter r) = true -> MAX_KNN_K < q_k r -> h_search cfg ds r = (ds, Refused InvalidArgument).
Proof.
  intros HD H. assert (exists s, validate_search_request (sview r) = VErr s) as [s Hs].
  { apply N.ltb_lt in H. vsr_err. }
  eapply h_search_validator_refuses; eauto.
Qed.
Lemma search_ef_out_of_range cfg ds r :
  decodable cfg (q_filter r) = true -> 10000 < q_ef r -> h_search cfg ds r = (ds, Refused InvalidArgument).
Proof.
  intros HD H. assert (exists s, validate_search_request (sview r) = VErr s) as [s Hs].
  { apply N.ltb_lt in H. vsr_err. }
  eapply h_search_validator_refuses; eauto.
Qed.
Lemma search_empty_vector cfg ds r :
  decodable cfg (q_filter r) = true -> q_vec r = [] -> h_search cfg ds r = (ds, Refused InvalidArgument).
Proof.
  intros HD H. assert (exists s, validate_search_request (sview r) = VErr s) as [s Hs].
  { unfold validate_search_request, sview. cbn [sr_query_embedding]. rewrite H. cbn [is_nil]. verr. }
  eapply h_search_validator_refuses; eauto.
Qed.
Lemma search_oversized_vector cfg ds r :
  decodable cfg (q_filter r) = true -> MAX_EMBEDDING_DIM < len (q_vec r) -> h_search cfg ds r = (ds, Refused InvalidArgument).
Proof.
  intros HD H. assert (exists s, validate_search_request (sview r) = VErr s) as [s Hs].
  { apply N.ltb_lt in H. vsr_err. }
  eapply h_search_validator_refuses; eauto.
Qed.
Lemma search_nonfinite cfg ds r :
  decodable cfg (q_filter r) = true -> nf (q_vec r) = true -> h_search cfg ds r = (ds, Refused InvalidArgument).
Proof.
  intros HD H. assert (exists s, validate_search_request (sview r) = VErr s) as [s Hs].
  { unfold nf in H. vsr_err. }
  eapply h_search_validator_refuses; eauto.
Qed.
Lemma search_wrong_dimension cfg ds r p :
  decodable cfg (q_filter r) = true -> validate_search_request (sview r) = VOk p -> len (q_vec r) <> c_dim cfg ->
  h_search cfg ds r = (ds, Refused InvalidArgument).
Proof.
  intros HD HV H. unfold h_search. rewrite HD, HV. unfold engine_search_err.
  apply N.eqb_neq in H. rewrite H. reflexivity.
Qed.
Lemma search_zero_vector_cosine cfg ds r p :
  decodable cfg (q_filter r) = true -> validate_search_request (sview r) = VOk p -> len (q_vec r) = c_dim cfg ->
  c_metric cfg = Cosine -> nsq (q_vec r) = SqTiny -> h_search cfg ds r = (ds, Refused Internal).
Proof.
  intros HD HV HL HM HZ. unfold h_search. rewrite HD, HV. unfold engine_search_err.
  rewrite HL, N.eqb_refl, HM, HZ. reflexivity.
Qed.
Lemma search_filter_too_deep cfg ds r f :
  q_filter r = Some f -> c_decode_depth cfg < pdepth f -> h_search cfg ds r = (ds, Refused Internal).
Proof.
  intros HF H. unfold h_search, decodable. rewrite HF. apply N.leb_gt in H. rewrite H. reflexivity.
Qed.
Lemma batch_delete_filter_too_deep cfg ds f :
  c_decode_depth cfg < pdepth f -> h_batch_delete_filter cfg ds f = (ds, Refused Internal).
Proof. intros H. unfold h_batch_delete_filter, decodable. apply N.leb_gt in H. rewrite H. reflexivity. Qed.
Lemma pdepth_not_chain f : pdepth (PNot (Some f)) = 2 + pdepth f.
Proof. reflexivity. Qed.

(* ------------------------------------------------------------------ boundary classes: ids and batches *)
Lemma map_doc_id_beyond id : U32_MAX < id -> map_doc_id id = None.
Proof. intros H. unfold map_doc_id. apply N.ltb_lt in H. rewrite H. reflexivity. Qed.
Lemma map_ids_beyond ids id : In id ids -> U32_MAX < id -> map_ids ids = None.
Proof.
  induction ids as [|x r IH]; cbn [In map_ids]; [tauto|]. intros [->|H] HB.
  - rewrite (map_doc_id_beyond _ HB). reflexivity.
  - rewrite (IH H HB). destruct (map_doc_id x); reflexivity.
Qed.
Lemma query_id0 ds : h_query ds 0 = (ds, Refused InvalidArgument).
Proof. reflexivity. Qed.
Lemma query_id_beyond_range ds id : U32_MAX < id -> h_query ds id = (ds, Refused InvalidArgument).
Proof.
  intros H. unfold h_query. destruct (id =? 0); [reflexivity|]. rewrite (map_doc_id_beyond _ H). reflexivity.
Qed.
Lemma update_id0 ds m b : h_update ds 0 m b = (ds, Refused InvalidArgument).
Proof. reflexivity. Qed.
Lemma update_id_beyond_range ds id m b : U32_MAX < id -> h_update ds id m b = (ds, Refused InvalidArgument).
Proof.
  intros H. unfold h_update. destruct (id =? 0); [reflexivity|]. rewrite (map_doc_id_beyond _ H). reflexivity.
Qed.
Lemma delete_id0 ds : h_delete ds 0 = (ds, Refused InvalidArgument).
Proof. reflexivity. Qed.
Lemma delete_id_beyond_range ds id : U32_MAX < id -> h_delete ds id = (ds, Refused InvalidArgument).
Proof.
  intros H. unfold h_delete. destruct (id <? MIN_DOC_ID); [reflexivity|]. rewrite (map_doc_id_beyond _ H). reflexivity.
Qed.
Lemma bulk_query_oversized cfg ds ids : c_max_batch cfg < len ids -> h_bulk_query cfg ds ids = (ds, Refused InvalidArgument).
Proof. intros H. unfold h_bulk_query. apply N.ltb_lt in H. rewrite H. reflexivity. Qed.
Lemma bulk_query_id_beyond_range cfg ds ids id :
  In id ids -> U32_MAX < id -> h_bulk_query cfg ds ids = (ds, Refused InvalidArgument).
Proof.
  intros HI HB. unfold h_bulk_query. destruct (_ <? _); [reflexivity|]. rewrite (map_ids_beyond _ _ HI HB). reflexivity.
Qed.
Lemma bulk_query_empty cfg ds : h_bulk_query cfg ds [] = (ds, OkBulkQuery []).
Proof. unfold h_bulk_query. rewrite len_nil. destruct (c_max_batch cfg); reflexivity. Qed.
Lemma batch_delete_ids_oversized cfg ds ids :
  c_max_batch cfg < len ids -> h_batch_delete_ids cfg ds ids = (ds, Refused InvalidArgument).
Proof. intros H. unfold h_batch_delete_ids. apply N.ltb_lt in H. rewrite H. reflexivity. Qed.
Lemma batch_delete_ids_id_beyond_range cfg ds ids id :
  In id ids -> U32_MAX < id -> h_batch_delete_ids cfg ds ids = (ds, Refused InvalidArgument).
Proof.
  intros HI HB. unfold h_batch_delete_ids. destruct (_ <? _); [reflexivity|]. rewrite (map_ids_beyond _ _ HI HB). reflexivity.
Qed.
Lemma batch_delete_ids_empty cfg ds : h_batch_delete_ids cfg ds [] = (ds, OkBatchDelete 0).
Proof.
  unfold h_batch_delete_ids. rewrite len_nil. replace (c_max_batch cfg <? 0) with false by (destruct (c_max_batch cfg); reflexivity).
  cbn. unfold delete_all. cbn. f_equal. induction ds as [|x r IH]; cbn; congruence.
Qed.
Lemma batch_delete_none cfg ds : handle cfg ds RBatchDeleteNone = (ds, Refused InvalidArgument).
Proof. reflexivity. Qed.
Lemma bulk_insert_empty cfg ds : h_bulk_insert cfg ds [] = (ds, OkInsert true 0 0).
Proof. reflexivity. Qed.
Lemma bulk_load_empty cfg ds : h_bulk_load cfg ds [] = (ds, OkBulkLoad true 0 0).
Proof. reflexivity. Qed.
Lemma bulk_search_empty cfg ds : h_bulk_search cfg ds [] = (ds, OkBulkSearch [] None).
Proof.
  unfold h_bulk_search, take. rewrite len_nil. replace (c_max_batch cfg <? 0) with false by (destruct (c_max_batch cfg); reflexivity).
  destruct (N.to_nat _); reflexivity.
Qed.
(* BulkInsert beyond the batch limit: the item is a per-item failure and nothing after it is looked at *)
Lemma bulk_insert_item_beyond_limit cfg a it :
  bi_stopped a = false -> c_max_batch cfg < bi_count a + 1 ->
  bi_step cfg a it = mkBi (bi_ds a) (bi_ins a) (bi_failed a + 1) (bi_count a + 1) true.
Proof.
  intros HS H. unfold bi_step, bi_item_outcome. rewrite HS. apply N.ltb_lt in H. rewrite H. reflexivity.
Qed.
Lemma bulk_insert_after_break cfg a it : bi_stopped a = true -> bi_step cfg a it = a.
Proof. intros H. unfold bi_step. rewrite H. reflexivity. Qed.

(* ------------------------------------------------------------------ C15_refused_no_effect *)
(* per item, BulkInsert *)
Lemma bi_item_not_stored_no_effect cfg a it o ds' :
  bi_item_outcome cfg a it = (o, ds') -> o <> ItemStored -> ds' = bi_ds a.
Proof.
  unfold bi_item_outcome.
  repeat match goal with
         | |- context [if ?c then _ else _] => destruct c
         | |- context [match map_doc_id ?x with _ => _ end] => destruct (map_doc_id x)
         end; intros H; injection H as <- <-; congruence.
Qed.
Lemma bi_step_ds cfg a it : bi_ds (bi_step cfg a it) = snd (bi_item_outcome cfg a it).
Proof.
  unfold bi_step. destruct (bi_stopped a) eqn:E.
  - unfold bi_item_outcome. rewrite E. reflexivity.
  - destruct (bi_item_outcome cfg a it) as [o d]. destruct o; reflexivity.
Qed.
Lemma bi_step_failed_no_effect cfg a it :
  fst (bi_item_outcome cfg a it) <> ItemStored -> bi_ds (bi_step cfg a it) = bi_ds a.
Proof.
  intros H. rewrite bi_step_ds. destruct (bi_item_outcome cfg a it) as [o d] eqn:E.
  cbn [fst snd] in *. eapply bi_item_not_stored_no_effect; eauto.
Qed.
Lemma bi_item_nonfinite cfg a it : nf (v_cls (i_vec it)) = true -> fst (bi_item_outcome cfg a it) <> ItemStored.
Proof.
  intros H. unfold bi_item_outcome. rewrite (tiered_insert_refuses_nf cfg _ H).
  repeat match goal with
         | |- context [if ?c then _ else _] => destruct c
         | |- context [match map_doc_id ?x with _ => _ end] => destruct (map_doc_id x)
         end; cbn [fst]; congruence.
Qed.
(* per item, BulkLoadHnsw *)
Lemma bl_step_invalid_no_effect cfg a it : bl_valid it = None -> bl_ds (bl_step cfg a it) = bl_ds a.
Proof.
  intros H. unfold bl_step. destruct (bl_refused a); [reflexivity|]. destruct (_ <? _); [reflexivity|].
  rewrite H. reflexivity.
Qed.
Lemma cold_load_refused_no_effect cfg ds c p :
  direct_cold_insert_ok cfg (v_cls (i_vec (snd p))) = false -> fst (cold_load_one cfg (ds, c) p) = ds.
Proof. intros H. unfold cold_load_one. destruct c. rewrite H. reflexivity. Qed.
Lemma cold_load_nonfinite_no_effect cfg ds c p :
  nf (v_cls (i_vec (snd p))) = true -> fst (cold_load_one cfg (ds, c) p) = ds.
Proof. intros H. apply cold_load_refused_no_effect. apply direct_cold_insert_refuses_nf. exact H. Qed.

(* BulkLoadHnsw is refused as a whole only beyond the total-document cap *)
Lemma bl_step_received cfg a it : bl_refused a = false -> bl_received (bl_step cfg a it) = bl_received a + 1.
Proof.
  intros H. unfold bl_step. rewrite H. destruct (_ <? _); [reflexivity|].
  destruct (bl_valid it); [|reflexivity]. destruct (_ <=? _); [|reflexivity].
  destruct (ingest _ _ _) as [d [l f]]. reflexivity.
Qed.
Lemma bl_step_refused cfg a it :
  bl_refused a = false -> bl_refused (bl_step cfg a it) = true -> c_max_total_load cfg < bl_received a + 1.
Proof.
  intros H. unfold bl_step. rewrite H. destruct (_ <? _) eqn:E; [intros _; apply N.ltb_lt; exact E|].
  destruct (bl_valid it); [|discriminate]. destruct (_ <=? _); [|discriminate].
  destruct (ingest _ _ _) as [d [l f]]. discriminate.
Qed.
Lemma bl_fold_refused cfg its : forall a,
  bl_refused a = false -> bl_refused (fold_left (bl_step cfg) its a) = true ->
  c_max_total_load cfg < bl_received a + len its.
Proof.
  induction its as [|it r IH]; intros a HA; cbn [fold_left]; [congruence|]. intros HR.
  rewrite len_cons. destruct (bl_refused (bl_step cfg a it)) eqn:E.
  - pose proof (bl_step_refused _ _ _ HA E). lia.
  - pose proof (IH _ E HR) as H. rewrite (bl_step_received _ _ _ HA) in H. lia.
Qed.
Lemma bulk_load_refused_only_beyond_cap cfg ds its ds' c :
  h_bulk_load cfg ds its = (ds', Refused c) -> c_max_total_load cfg < len its.
Proof.
  unfold h_bulk_load. destruct (bl_refused _) eqn:E.
  - intros _. pose proof (bl_fold_refused cfg its (mkBl ds [] 0 0 0 0 false) eq_refl E) as H. cbn [bl_received] in H. lia.
  - destruct (match bl_pending _ with [] => _ | _ => _ end) as [d [l f]]. discriminate.
Qed.

(* a call that is refused as a whole leaves the collection unchanged (BulkLoadHnsw: below its document cap) *)
Theorem refused_no_effect cfg ds r ds' c :
  handle cfg ds r = (ds', Refused c) ->
  (forall its, r = RBulkLoad its -> len its <= c_max_total_load cfg) ->
  ds' = ds.
Proof.
  intros H HL. destruct r; cbn [handle] in H.
  - unfold h_insert in H. destruct (validate_insert_request _); [|congruence].
    destruct (map_doc_id _); [|congruence]. destruct (tiered_insert_ok _ _); congruence.
  - unfold h_bulk_insert in H. discriminate.
  - apply bulk_load_refused_only_beyond_cap in H. specialize (HL its eq_refl). lia.
  - unfold h_query in H. destruct (id =? 0); [congruence|]. destruct (map_doc_id id); congruence.
  - unfold h_bulk_query in H. destruct (_ <? _); [congruence|]. destruct (map_ids ids); congruence.
  - unfold h_search in H. destruct (negb _); [congruence|]. destruct (validate_search_request _); [|congruence].
    destruct (engine_search_err _ _ _); congruence.
  - unfold h_bulk_search in H. discriminate.
  - unfold h_update in H. destruct (id =? 0); [congruence|]. destruct (map_doc_id id); [|congruence].
    destruct (dget ds n); discriminate.
  - unfold h_delete in H. destruct (id <? MIN_DOC_ID); [congruence|]. destruct (map_doc_id id); [discriminate|congruence].
  - unfold h_batch_delete_ids in H. destruct (_ <? _); [congruence|]. destruct (map_ids ids); [discriminate|congruence].
  - unfold h_batch_delete_filter in H. destruct (negb _); [congruence|discriminate].
  - congruence.
  - discriminate.
Qed.
(* reads never change the collection, whatever they answer *)
Theorem reads_no_effect cfg ds r :
  match r with RQuery _ | RBulkQuery _ | RSearch _ | RBulkSearch _ | RFlush _ | RBatchDeleteNone => True | _ => False end ->
  fst (handle cfg ds r) = ds.
Proof.
  destruct r; cbn [handle]; intros HT; try (exfalso; exact HT); try reflexivity.
  - unfold h_query. destruct (id =? 0); [reflexivity|]. destruct (map_doc_id id); reflexivity.
  - unfold h_bulk_query. destruct (_ <? _); [reflexivity|]. destruct (map_ids ids); reflexivity.
  - unfold h_search. destruct (negb _); [reflexivity|]. destruct (validate_search_request _); [|reflexivity].
    destruct (engine_search_err _ _ _); reflexivity.
Qed.
(* the cap itself: refused with earlier chunks already ingested — witness with small constants (the real
   constants need a 10,000,001-item stream; not reproduced on the binary) *)
Definition cap_cfg : config := mkCfg 2 Euclid 2 3 100.
Definition cap_item (id : N) : item := mkItem id (mkVec id [FinNZ; FinNZ]) [].
Lemma bulk_load_cap_partial_effect_refuted :
  exists cfg ds its ds' c, handle cfg ds (RBulkLoad its) = (ds', Refused c) /\ ds' <> ds.
Proof.
  exists cap_cfg, [], [cap_item 1; cap_item 2; cap_item 3; cap_item 4].
  eexists. eexists. split; [vm_compute; reflexivity|]. discriminate.
Qed.

(* ------------------------------------------------------------------ C15_nonfinite_refused_everywhere *)
Theorem nonfinite_refused_everywhere cfg (it : item) :
  nf (v_cls (i_vec it)) = true ->
  (forall ds, h_insert cfg ds it = (ds, Refused InvalidArgument))
  /\ (forall a, bi_ds (bi_step cfg a it) = bi_ds a /\ bi_ins (bi_step cfg a it) = bi_ins a)
  /\ (forall ds c id, cold_load_one cfg (ds, c) (id, it) = (ds, (fst c, snd c + 1)))
  /\ tiered_insert_ok cfg (v_cls (i_vec it)) = false /\ direct_cold_insert_ok cfg (v_cls (i_vec it)) = false.
Proof.
  intros H. repeat split.
  - intros ds. apply insert_nonfinite; exact H.
  - apply bi_step_failed_no_effect, bi_item_nonfinite; exact H.
  - pose proof (bi_item_nonfinite cfg a it H) as Hn. unfold bi_step.
    destruct (bi_stopped a); [reflexivity|]. destruct (bi_item_outcome cfg a it) as [o d].
    cbn [fst] in Hn. destruct o; try reflexivity. congruence.
  - intros ds [l f] id. unfold cold_load_one. cbn [snd fst]. rewrite (direct_cold_insert_refuses_nf cfg _ H). reflexivity.
  - apply tiered_insert_refuses_nf; exact H.
  - apply direct_cold_insert_refuses_nf; exact H.
Qed.
(* the only way a vector enters the collection is `store`, guarded by the engine's acceptance; acceptance
   implies all-finite and the configured dimension *)
Lemma tiered_insert_ok_spec cfg v :
  tiered_insert_ok cfg v = true -> nf v = false /\ len v = c_dim cfg.
Proof.
  intros H. split.
  - destruct (nf v) eqn:E; [|reflexivity]. rewrite (tiered_insert_refuses_nf cfg v E) in H. discriminate.
  - destruct (N.eq_dec (len v) (c_dim cfg)) as [E|E]; [exact E|].
    rewrite (tiered_insert_wrong_dim cfg v E) in H. discriminate.
Qed.
Lemma direct_cold_insert_ok_spec cfg v :
  direct_cold_insert_ok cfg v = true -> nf v = false /\ len v = c_dim cfg.
Proof.
  intros H. split.
  - destruct (nf v) eqn:E; [|reflexivity]. rewrite (direct_cold_insert_refuses_nf cfg v E) in H. discriminate.
  - destruct (N.eq_dec (len v) (c_dim cfg)) as [E|E]; [exact E|].
    unfold direct_cold_insert_ok in H. rewrite (cold_insert_wrong_dim cfg (mkEvec v false) E) in H. discriminate.
Qed.

(* ------------------------------------------------------------------ BulkSearch: who gets an answer *)
Lemma decodable_prefix_all cfg rs : all_decodable cfg rs = true -> decodable_prefix cfg rs = rs.
Proof.
  unfold all_decodable. induction rs as [|r rest IH]; cbn [forallb decodable_prefix]; [reflexivity|].
  intros H. apply andb_true_iff in H as [H1 H2]. rewrite H1, (IH H2). reflexivity.
Qed.
Lemma take_all {A} n (l : list A) : len l <= n -> take n l = l.
Proof. intros H. unfold take. apply firstn_all2. unfold len in H. lia. Qed.
(* Every request of a stream within the batch limit whose messages all decode gets exactly one answer, in
   order: the stream ends normally and carries one item per request; the item of a request refused by the
   validator or by the engine is a per-item failure (SErr), never the end of the stream. *)
Theorem bulk_search_answered cfg ds rs :
  len rs <= c_max_batch cfg -> all_decodable cfg rs = true ->
  exists items,
    handle cfg ds (RBulkSearch rs) = (ds, OkBulkSearch items None)
    /\ List.length items = List.length rs
    /\ (forall i r, nth_error rs i = Some r ->
          nth_error items i = Some (search_item cfg (filter (engine_bad cfg) rs) r))
    /\ (forall r bad s, validate_search_request (sview r) = VErr s -> search_item cfg bad r = SErr InvalidArgument)
    /\ (forall r bad p, validate_search_request (sview r) = VOk p -> group_err cfg r bad = None -> search_item cfg bad r = SOk).
Proof.
  intros HL HD. exists (map (search_item cfg (filter (engine_bad cfg) rs)) rs).
  split; [|split; [|split; [|split]]].
  - cbn [handle]. unfold h_bulk_search. rewrite (take_all _ _ HL), HD, (decodable_prefix_all _ _ HD).
    apply N.ltb_ge in HL. rewrite HL. reflexivity.
  - apply map_length.
  - intros i r H. apply map_nth_error. exact H.
  - intros r bad s H. unfold search_item. rewrite H. reflexivity.
  - intros r bad p H HG. unfold search_item. rewrite H, HG. reflexivity.
Qed.
(* a stream the server ends itself: past the batch limit every accepted request is answered first; a message
   that does not decode ends the stream with INTERNAL *)
Theorem bulk_search_terminated cfg ds rs :
  (c_max_batch cfg < len rs -> all_decodable cfg (take (c_max_batch cfg) rs) = true ->
     exists items, handle cfg ds (RBulkSearch rs) = (ds, OkBulkSearch items (Some ResourceExhausted))
                   /\ len items = c_max_batch cfg)
  /\ (all_decodable cfg (take (c_max_batch cfg) rs) = false ->
     exists items, handle cfg ds (RBulkSearch rs) = (ds, OkBulkSearch items (Some Internal))).
Proof.
  split.
  - intros HL HD. eexists. split.
    + cbn [handle]. unfold h_bulk_search. rewrite HD. apply N.ltb_lt in HL. rewrite HL. reflexivity.
    + rewrite (decodable_prefix_all _ _ HD). unfold len, take. rewrite map_length, firstn_length_le.
      * apply N2Nat.id.
      * unfold len in HL. lia.
  - intros HD. eexists. cbn [handle]. unfold h_bulk_search. rewrite HD. reflexivity.
Qed.
(* The behaviour BEFORE /repo b58b923, kept as a labelled example: the per-request results were forwarded as
   stream items, and a gRPC response stream ends at its first Err item. *)
Fixpoint delivered_before_b58b923 (l : list sitem) : list sitem :=
  match l with
  | [] => []
  | SOk :: r => SOk :: delivered_before_b58b923 r
  | SErr c :: _ => [SErr c]
  end.
Definition w_cfg : config := mkCfg 2 Euclid 10000 10000000 100.
Definition w_ok : sreq := mkSreq [FinNZ; Zero] 1 0 [] None.
Definition w_k0 : sreq := mkSreq [FinNZ; Zero] 0 0 [] None.
Example bulk_search_abort_before_b58b923 :
  snd (handle w_cfg [] (RBulkSearch [w_ok; w_k0; w_ok])) = OkBulkSearch [SOk; SErr InvalidArgument; SOk] None
  /\ delivered_before_b58b923 [SOk; SErr InvalidArgument; SOk] = [SOk; SErr InvalidArgument].
Proof. split; vm_compute; reflexivity. Qed.

(* ------------------------------------------------------------------ non-vacuity *)
Example accepted_insert_has_effect :
  handle w_cfg [] (RInsert (mkItem 1 (mkVec 1 [FinNZ; Zero]) [])) = ([(1, mkDoc 1 [])], OkInsert true 1 0).
Proof. vm_compute. reflexivity. Qed.
Example accepted_search : snd (handle w_cfg [] (RSearch w_ok)) = OkSearch.
Proof. vm_compute. reflexivity. Qed.
Example constants_pinned : MAX_EMBEDDING_DIM = 4096 /\ MAX_KNN_K = 1000 /\ MIN_DOC_ID = 1.
Proof. repeat split; reflexivity. Qed.

(* ------------------------------------------------------------------ the boundary classes, collected *)
Definition insert_passes (it : item) : Prop := exists u, validate_insert_request (ireq it) = VOk u.
Definition search_passes (r : sreq) : Prop := exists p, validate_search_request (sview r) = VOk p.

Theorem boundary_insert cfg ds it :
  let refused_with c := h_insert cfg ds it = (ds, Refused c) in
  (i_id it = 0 -> refused_with InvalidArgument)
  /\ (U32_MAX < i_id it -> refused_with InvalidArgument)
  /\ (v_cls (i_vec it) = [] -> refused_with InvalidArgument)
  /\ (MAX_EMBEDDING_DIM < len (v_cls (i_vec it)) -> refused_with InvalidArgument)
  /\ (nf (v_cls (i_vec it)) = true -> refused_with InvalidArgument)
  /\ (insert_passes it -> i_id it <= U32_MAX -> len (v_cls (i_vec it)) <> c_dim cfg -> refused_with Internal)
  /\ (insert_passes it -> i_id it <= U32_MAX -> c_metric cfg = Cosine -> nsq (v_cls (i_vec it)) = SqTiny -> refused_with Internal)
  /\ (insert_passes it -> i_id it <= U32_MAX -> c_metric cfg = Cosine -> nsq (v_cls (i_vec it)) = SqInf -> refused_with Internal).
Proof.
  cbv zeta. repeat split.
  - apply insert_id0.
  - apply insert_id_beyond_range.
  - apply insert_empty_vector.
  - apply insert_oversized_vector.
  - apply insert_nonfinite.
  - intros [u Hu]. eapply insert_wrong_dimension; eauto.
  - intros [u Hu]. eapply insert_zero_vector_cosine; eauto.
  - intros [u Hu]. eapply insert_overflowing_vector_cosine; eauto.
Qed.

Theorem boundary_search cfg ds r :
  let refused_with c := h_search cfg ds r = (ds, Refused c) in
  decodable cfg (q_filter r) = true ->
  (q_vec r = [] -> refused_with InvalidArgument)
  /\ (MAX_EMBEDDING_DIM < len (q_vec r) -> refused_with InvalidArgument)
  /\ (nf (q_vec r) = true -> refused_with InvalidArgument)
  /\ (q_k r = 0 -> refused_with InvalidArgument)
  /\ (MAX_KNN_K < q_k r -> refused_with InvalidArgument)
  /\ (10000 < q_ef r -> refused_with InvalidArgument)
  /\ (search_passes r -> len (q_vec r) <> c_dim cfg -> refused_with InvalidArgument)
  /\ (search_passes r -> len (q_vec r) = c_dim cfg -> c_metric cfg = Cosine -> nsq (q_vec r) = SqTiny -> refused_with Internal).
Proof.
  cbv zeta. intros HD. repeat split.
  - apply search_empty_vector; exact HD.
  - apply search_oversized_vector; exact HD.
  - apply search_nonfinite; exact HD.
  - apply search_k_zero; exact HD.
  - apply search_k_above_max; exact HD.
  - apply search_ef_out_of_range; exact HD.
  - intros [p Hp]. eapply search_wrong_dimension; eauto.
  - intros [p Hp]. eapply search_zero_vector_cosine; eauto.
Qed.

Theorem boundary_filter_depth cfg ds :
  (forall r f, q_filter r = Some f -> c_decode_depth cfg < pdepth f -> h_search cfg ds r = (ds, Refused Internal))
  /\ (forall f, c_decode_depth cfg < pdepth f -> h_batch_delete_filter cfg ds f = (ds, Refused Internal))
  /\ (forall f, pdepth (PNot (Some f)) = 2 + pdepth f).
Proof.
  repeat split.
  - intros; eapply search_filter_too_deep; eauto.
  - apply batch_delete_filter_too_deep.
Qed.

Theorem boundary_ids cfg ds :
  h_query ds 0 = (ds, Refused InvalidArgument)
  /\ (forall id, U32_MAX < id -> h_query ds id = (ds, Refused InvalidArgument))
  /\ (forall m b, h_update ds 0 m b = (ds, Refused InvalidArgument))
  /\ (forall id m b, U32_MAX < id -> h_update ds id m b = (ds, Refused InvalidArgument))
  /\ h_delete ds 0 = (ds, Refused InvalidArgument)
  /\ (forall id, U32_MAX < id -> h_delete ds id = (ds, Refused InvalidArgument))
  /\ (forall ids id, In id ids -> U32_MAX < id -> h_bulk_query cfg ds ids = (ds, Refused InvalidArgument))
  /\ (forall ids id, In id ids -> U32_MAX < id -> h_batch_delete_ids cfg ds ids = (ds, Refused InvalidArgument)).
Proof.
  repeat split; intros.
  - apply query_id_beyond_range; assumption.
  - apply update_id_beyond_range; assumption.
  - apply delete_id_beyond_range; assumption.
  - eapply bulk_query_id_beyond_range; eauto.
  - eapply batch_delete_ids_id_beyond_range; eauto.
Qed.

Theorem boundary_batches cfg ds :
  h_bulk_insert cfg ds [] = (ds, OkInsert true 0 0)
  /\ h_bulk_load cfg ds [] = (ds, OkBulkLoad true 0 0)
  /\ h_bulk_search cfg ds [] = (ds, OkBulkSearch [] None)
  /\ h_bulk_query cfg ds [] = (ds, OkBulkQuery [])
  /\ h_batch_delete_ids cfg ds [] = (ds, OkBatchDelete 0)
  /\ handle cfg ds RBatchDeleteNone = (ds, Refused InvalidArgument)
  /\ (forall ids, c_max_batch cfg < len ids -> h_bulk_query cfg ds ids = (ds, Refused InvalidArgument))
  /\ (forall ids, c_max_batch cfg < len ids -> h_batch_delete_ids cfg ds ids = (ds, Refused InvalidArgument))
  /\ (forall a it, bi_stopped a = false -> c_max_batch cfg < bi_count a + 1 ->
        bi_step cfg a it = mkBi (bi_ds a) (bi_ins a) (bi_failed a + 1) (bi_count a + 1) true)
  /\ (forall a it, bi_stopped a = true -> bi_step cfg a it = a)
  /\ (forall its ds' c, h_bulk_load cfg ds its = (ds', Refused c) -> c_max_total_load cfg < len its).
Proof.
  repeat split; intros.
  - apply bulk_search_empty.
  - apply bulk_query_empty.
  - apply batch_delete_ids_empty.
  - apply bulk_query_oversized; assumption.
  - apply batch_delete_ids_oversized; assumption.
  - apply bulk_insert_item_beyond_limit; assumption.
  - apply bulk_insert_after_break; assumption.
  - eapply bulk_load_refused_only_beyond_cap; eauto.
Qed.

(* per-item refusals of the streaming write paths leave the collection unchanged *)
Theorem refused_item_no_effect cfg :
  (forall a it, fst (bi_item_outcome cfg a it) <> ItemStored -> bi_ds (bi_step cfg a it) = bi_ds a)
  /\ (forall a it, bl_valid it = None -> bl_ds (bl_step cfg a it) = bl_ds a)
  /\ (forall ds c p, direct_cold_insert_ok cfg (v_cls (i_vec (snd p))) = false -> fst (cold_load_one cfg (ds, c) p) = ds).
Proof.
  repeat split; intros.
  - apply bi_step_failed_no_effect; assumption.
  - apply bl_step_invalid_no_effect; assumption.
  - apply cold_load_refused_no_effect; assumption.
Qed.

Theorem validators_sound :
  (forall r u, validate_insert_request r = VOk u ->
     MIN_DOC_ID <= ir_doc_id r /\ ir_embedding r <> [] /\ len (ir_embedding r) <= MAX_EMBEDDING_DIM
     /\ all_finite (ir_embedding r) = true)
  /\ (forall r p, validate_search_request r = VOk p ->
     sr_query_embedding r <> [] /\ len (sr_query_embedding r) <= MAX_EMBEDDING_DIM
     /\ all_finite (sr_query_embedding r) = true
     /\ 1 <= sr_k r <= MAX_KNN_K /\ sr_ef_search r <= 10000
     /\ sr_k r <= search_k p <= 10000
     /\ ef_search_override p = (if sr_ef_search r =? 0 then None else Some (sr_ef_search r)))
  /\ (forall f, 1 <= calculate_oversampling_factor f <= 50)
  /\ (forall f, has_type f = true -> 1 <= estimate_selectivity f <= 50)
  /\ MAX_EMBEDDING_DIM = 4096 /\ MAX_KNN_K = 1000 /\ MIN_DOC_ID = 1.
Proof.
  repeat split; try reflexivity;
    try (eapply validate_insert_sound; eassumption); try (eapply validate_search_sound; eassumption);
    try (apply oversampling_bounds); try (apply estimate_selectivity_bounds; assumption).
Qed.
