(* Proofs about the byte-level WAL / snapshot reader model (Model/WalBytes.v). Used by C13, C01. *)
From Coq Require Import List NArith Bool Arith Lia.
From Kyro Require Import Model.WalBytes.
Import ListNotations.
Open Scope N_scope.

Arguments N.mul : simpl never.
Arguments N.add : simpl never.
Arguments N.div : simpl never.
Arguments N.modulo : simpl never.

(* ---------- little-endian encoding ---------- *)

Lemma to_le_length n v : length (to_le n v) = n.
Proof. revert v; induction n as [|n IH]; intro v; cbn [to_le length]; [reflexivity|now rewrite IH]. Qed.

Lemma le_n_to_le n v : v < 256 ^ N.of_nat n -> le_n (to_le n v) = v.
Proof.
  revert v; induction n as [|n IH]; intros v Hv.
  - cbn. change (256 ^ N.of_nat 0) with 1 in Hv. lia.
  - cbn [to_le]. unfold le_n in *. cbn [fold_right].
    rewrite IH.
    + pose proof (N.div_mod v 256 ltac:(lia)). lia.
    + rewrite Nat2N.inj_succ, N.pow_succ_r' in Hv.
      apply N.div_lt_upper_bound; lia.
Qed.

(* ---------- take ---------- *)

Lemma take_app a b : take (N.of_nat (length a)) (a ++ b) = Some (a, b).
Proof.
  unfold take. rewrite app_length, Nat2N.inj_add.
  destruct (N.ltb_spec (N.of_nat (length a) + N.of_nat (length b)) (N.of_nat (length a))) as [H|H]; [lia|].
  rewrite Nat2N.id, firstn_app, Nat.sub_diag, firstn_all, skipn_app, Nat.sub_diag, skipn_all.
  cbn. now rewrite app_nil_r.
Qed.

Lemma take_short n bs : N.of_nat (length bs) < n -> take n bs = None.
Proof. intro H. unfold take. destruct (N.ltb_spec (N.of_nat (length bs)) n); [reflexivity|lia]. Qed.

Lemma take_some n bs a r : take n bs = Some (a, r) -> bs = a ++ r /\ N.of_nat (length a) = n.
Proof.
  unfold take. destruct (N.ltb_spec (N.of_nat (length bs)) n) as [H|H]; [discriminate|].
  intro E. inversion E; subst. split; [symmetry; apply firstn_skipn|].
  rewrite firstn_length. lia.
Qed.

Lemma bytes_eqb_refl a : bytes_eqb a a = true.
Proof. induction a as [|x r IH]; cbn; [reflexivity|]. now rewrite N.eqb_refl, IH. Qed.

Lemma bytes_eqb_eq a b : bytes_eqb a b = true -> a = b.
Proof.
  revert b; induction a as [|x r IH]; intros [|y s]; cbn; try discriminate; [reflexivity|].
  intro H. apply andb_prop in H as [H1 H2]. apply N.eqb_eq in H1. subst. f_equal. auto.
Qed.

Section ReaderProofs.
  Variable crc : bytes -> N.
  Variable deser_ok : bytes -> bool.
  Hypothesis crc_lt : forall p, crc p < 4294967296.

  Notation frame := (frame crc).
  Notation segment := (segment crc).
  Notation read_frames := (read_frames crc deser_ok).
  Notation read_all := (read_all crc deser_ok).
  Notation read_all_strict := (read_all_strict crc deser_ok).

  (* a payload the writer can produce: non-empty, at most MAX_WAL_ENTRY_BYTES *)
  Definition valid_payload (p : bytes) : Prop :=
    0 < N.of_nat (length p) /\ N.of_nat (length p) <= max_wal_entry.

  Lemma read_frames_S f bs :
    read_frames (S f) bs =
      match take 4 bs with
      | None => ([], 0)
      | Some (szb, r1) =>
          let size := le_n szb in
          if (size =? 0) || (max_wal_entry <? size) then ([], 1)
          else match take size r1 with
               | None => ([], 0)
               | Some (payload, r2) =>
                   match take 4 r2 with
                   | None => ([], 0)
                   | Some (ckb, r3) =>
                       let '(es, c) := read_frames f r3 in
                       if le_n ckb =? crc payload
                       then if deser_ok payload then (payload :: es, c) else (es, c + 1)
                       else (es, c + 1)
                   end
               end
      end.
  Proof. reflexivity. Qed.

  Lemma size_ok p : valid_payload p ->
    (N.of_nat (length p) =? 0) || (max_wal_entry <? N.of_nat (length p)) = false.
  Proof.
    intros [H1 H2]. apply orb_false_iff. split; [apply N.eqb_neq; lia|apply N.ltb_ge; exact H2].
  Qed.

  Lemma len_lt_2_32 p : valid_payload p -> N.of_nat (length p) < 256 ^ N.of_nat 4.
  Proof. intros [_ H]. unfold max_wal_entry in H. change (256 ^ N.of_nat 4) with 4294967296. lia. Qed.

  (* one well-formed frame is consumed exactly *)
  Lemma read_frames_frame f p rest : valid_payload p ->
    read_frames (S f) (frame p ++ rest) =
      let '(es, c) := read_frames f rest in
      if deser_ok p then (p :: es, c) else (es, c + 1).
  Proof.
    intro Hv. rewrite read_frames_S. unfold WalBytes.frame. rewrite <- !app_assoc.
    pose proof (to_le_length 4 (N.of_nat (length p))) as Hl.
    replace 4 with (N.of_nat (length (to_le 4 (N.of_nat (length p))))) at 1 by (rewrite Hl; reflexivity).
    rewrite take_app. cbv zeta.
    rewrite (le_n_to_le 4 _ (len_lt_2_32 p Hv)), (size_ok p Hv), take_app.
    replace 4 with (N.of_nat (length (to_le 4 (crc p)))) at 1 by (rewrite to_le_length; reflexivity).
    rewrite take_app.
    rewrite (le_n_to_le 4 (crc p)) by (change (256 ^ N.of_nat 4) with 4294967296; apply crc_lt).
    rewrite N.eqb_refl. reflexivity.
  Qed.

  Lemma frame_length p : length (frame p) = (8 + length p)%nat.
  Proof. unfold WalBytes.frame. rewrite !app_length, !to_le_length. lia. Qed.

  (* ---------- T1: round trip of every well-formed segment ---------- *)
  Lemma read_frames_concat ps : forall f,
    Forall valid_payload ps -> (forall p, In p ps -> deser_ok p = true) ->
    (length ps <= f)%nat ->
    read_frames f (concat (map frame ps)) = (ps, 0).
  Proof.
    induction ps as [|p ps IH]; intros f Hv Hd Hf.
    - cbn [map concat]. destruct f; [reflexivity|]. rewrite read_frames_S.
      rewrite take_short by (cbn; lia). reflexivity.
    - cbn [map concat length] in *. destruct f as [|f]; [lia|].
      inversion Hv as [|? ? Hp Hps]; subst.
      rewrite (read_frames_frame f p _ Hp), (IH f Hps) by (auto with datatypes; lia).
      rewrite (Hd p (or_introl eq_refl)). reflexivity.
  Qed.

  Lemma concat_frames_length ps : (length ps <= length (concat (map frame ps)))%nat.
  Proof.
    induction ps as [|p ps IH]; cbn [map concat length]; [lia|].
    rewrite app_length, frame_length. lia.
  Qed.

  Theorem roundtrip ps :
    Forall valid_payload ps -> (forall p, In p ps -> deser_ok p = true) ->
    read_all_strict (segment ps) = RdOk ps.
  Proof.
    intros Hv Hd. unfold WalBytes.read_all_strict, WalBytes.read_all, WalBytes.segment.
    change 4 with (N.of_nat (length wal_magic)). rewrite take_app, bytes_eqb_refl.
    rewrite (read_frames_concat ps _ Hv Hd).
    - reflexivity.
    - pose proof (concat_frames_length ps). lia.
  Qed.

  (* ---------- T2: every truncation of a well-formed segment reads, without error, a PREFIX of
     its entries (torn tails are tolerated; crash in the middle of an append loses at most the
     entry being appended) ---------- *)

  (* a proper prefix of one frame makes the reader stop cleanly *)
  Lemma read_frames_partial_frame f p n : valid_payload p ->
    (n < length (frame p))%nat ->
    read_frames f (firstn n (frame p)) = ([], 0).
  Proof.
    intros Hv Hn. destruct f as [|f]; [reflexivity|]. rewrite read_frames_S.
    rewrite frame_length in Hn.
    destruct (Nat.lt_ge_cases n 4) as [H4|H4].
    - rewrite take_short; [reflexivity|]. rewrite firstn_length, frame_length. lia.
    - (* the size field is complete *)
      unfold WalBytes.frame.
      pose proof (to_le_length 4 (N.of_nat (length p))) as Hl.
      rewrite firstn_app, Hl.
      rewrite (firstn_all2 (to_le 4 (N.of_nat (length p)))) by lia.
      replace 4 with (N.of_nat (length (to_le 4 (N.of_nat (length p))))) at 1 by (rewrite Hl; reflexivity).
      rewrite take_app. cbv zeta.
      rewrite (le_n_to_le 4 _ (len_lt_2_32 p Hv)), (size_ok p Hv).
      destruct (Nat.lt_ge_cases (n - 4) (length p)) as [Hp|Hp].
      + rewrite take_short; [reflexivity|].
        rewrite firstn_length, app_length, to_le_length. lia.
      + rewrite firstn_app, (firstn_all2 p) by lia.
        rewrite take_app.
        rewrite take_short; [reflexivity|].
        rewrite firstn_length, to_le_length. lia.
  Qed.

  Lemma read_frames_prefix ps : forall f n,
    Forall valid_payload ps -> (forall p, In p ps -> deser_ok p = true) ->
    (length (firstn n (concat (map frame ps))) <= f)%nat ->
    exists j, read_frames f (firstn n (concat (map frame ps))) = (firstn j ps, 0).
  Proof.
    induction ps as [|p ps IH]; intros f n Hv Hd Hf.
    - exists 0%nat. cbn [map concat]. rewrite firstn_nil.
      destruct f; [reflexivity|]. rewrite read_frames_S, take_short by (cbn; lia). reflexivity.
    - cbn [map concat length] in *. inversion Hv as [|? ? Hp Hps]; subst.
      rewrite firstn_app in *.
      destruct (Nat.lt_ge_cases n (length (frame p))) as [Hn|Hn].
      + exists 0%nat. replace (n - length (frame p))%nat with 0%nat by lia.
        cbn [firstn]. rewrite app_nil_r.
        apply read_frames_partial_frame; assumption.
      + rewrite (firstn_all2 (frame p)) in * by lia.
        rewrite app_length in Hf. pose proof (frame_length p) as Hfl.
        destruct f as [|f]; [lia|].
        destruct (IH f (n - length (frame p))%nat Hps) as [j Hj]; [auto with datatypes|lia|].
        exists (S j). rewrite (read_frames_frame f p _ Hp), Hj, (Hd p (or_introl eq_refl)).
        reflexivity.
  Qed.

  Theorem torn_prefix ps n :
    Forall valid_payload ps -> (forall p, In p ps -> deser_ok p = true) ->
    (4 <= n)%nat ->
    exists j, read_all_strict (firstn n (segment ps)) = RdOk (firstn j ps).
  Proof.
    intros Hv Hd Hn. unfold WalBytes.read_all_strict, WalBytes.read_all, WalBytes.segment.
    rewrite firstn_app. change (length wal_magic) with 4%nat.
    rewrite (firstn_all2 wal_magic) by (cbn; lia).
    change 4 with (N.of_nat (length wal_magic)). rewrite take_app, bytes_eqb_refl.
    destruct (read_frames_prefix ps (S (length (firstn (n - 4) (concat (map frame ps))))) (n - 4)%nat Hv Hd)
      as [j Hj]; [lia|].
    exists j. rewrite Hj. reflexivity.
  Qed.

  (* a file shorter than the magic, or with a wrong magic, is refused at open *)
  Theorem short_file_refused file : (length file < 4)%nat -> read_all_strict file = RdErrMagic.
  Proof.
    intro H. unfold WalBytes.read_all_strict, WalBytes.read_all. rewrite take_short; [reflexivity|lia].
  Qed.

  (* ---------- T3: damage to the bytes the checksum covers is never silent ---------- *)

  (* a frame whose stored checksum does not match its payload *)
  Definition bad_frame (p : bytes) (ck : N) : bytes :=
    to_le 4 (N.of_nat (length p)) ++ p ++ to_le 4 ck.

  Lemma read_frames_bad_frame f p ck rest : valid_payload p -> ck < 4294967296 -> ck <> crc p ->
    read_frames (S f) (bad_frame p ck ++ rest) =
      let '(es, c) := read_frames f rest in (es, c + 1).
  Proof.
    intros Hv Hck Hne. rewrite read_frames_S. unfold bad_frame. rewrite <- !app_assoc.
    pose proof (to_le_length 4 (N.of_nat (length p))) as Hl.
    replace 4 with (N.of_nat (length (to_le 4 (N.of_nat (length p))))) at 1 by (rewrite Hl; reflexivity).
    rewrite take_app. cbv zeta.
    rewrite (le_n_to_le 4 _ (len_lt_2_32 p Hv)), (size_ok p Hv), take_app.
    replace 4 with (N.of_nat (length (to_le 4 ck))) at 1 by (rewrite to_le_length; reflexivity).
    rewrite take_app.
    rewrite (le_n_to_le 4 ck) by (change (256 ^ N.of_nat 4) with 4294967296; exact Hck).
    destruct (N.eqb_spec ck (crc p)) as [E|E]; [contradiction|]. reflexivity.
  Qed.

  Lemma read_frames_corrupted_pos f bs es c : read_frames f bs = (es, c) -> 0 <= c.
  Proof. intros _. lia. Qed.

  (* Segment = good frames ps1, then ONE frame whose payload or checksum bytes were altered in
     place (same length; the stored checksum no longer matches), then anything at all. *)
  Theorem checksum_damage_detected ps1 p ck rest :
    Forall valid_payload ps1 -> valid_payload p -> ck < 4294967296 -> ck <> crc p ->
    exists c, read_all_strict (wal_magic ++ concat (map frame ps1) ++ bad_frame p ck ++ rest)
              = RdErrCorrupt c.
  Proof.
    intros Hv1 Hp Hck Hne.
    unfold WalBytes.read_all_strict, WalBytes.read_all.
    change 4 with (N.of_nat (length wal_magic)). rewrite take_app, bytes_eqb_refl.
    set (tail := bad_frame p ck ++ rest).
    assert (Hgen : forall f, (length (concat (map frame ps1) ++ tail) <= f)%nat ->
              exists es c, read_frames f (concat (map frame ps1) ++ tail) = (es, c) /\ 1 <= c).
    { induction ps1 as [|q qs IH]; intros f Hf.
      - cbn [map concat app] in *. unfold tail in *.
        destruct f as [|f].
        { exfalso. rewrite app_length in Hf. unfold bad_frame in Hf.
          rewrite !app_length, to_le_length in Hf. lia. }
        rewrite (read_frames_bad_frame f p ck rest Hp Hck Hne).
        destruct (read_frames f rest) as [es c]. exists es, (c + 1). split; [reflexivity|lia].
      - cbn [map concat] in *. rewrite <- app_assoc in *.
        inversion Hv1 as [|? ? Hq Hqs]; subst.
        destruct f as [|f].
        { exfalso. rewrite app_length, frame_length in Hf. lia. }
        rewrite (read_frames_frame f q _ Hq).
        rewrite app_length, frame_length in Hf.
        destruct (IH Hqs f) as (es & c & E & Hc); [lia|].
        rewrite E. destruct (deser_ok q); [exists (q :: es), c|exists es, (c + 1)]; split; try reflexivity; lia. }
    destruct (Hgen (S (length (concat (map frame ps1) ++ tail)))) as (es & c & E & Hc); [lia|].
    rewrite E. destruct (N.eqb_spec c 0) as [Z|Z]; [lia|]. exists c. reflexivity.
  Qed.
End ReaderProofs.

(* ---------- the executable CRC-32 stays below 2^32 ---------- *)
Lemma crc_bit_lt n c : c < 4294967296 -> crc_bit n c < 4294967296.
Proof.
  revert c; induction n as [|n IH]; intros c Hc; cbn [crc_bit]; [exact Hc|]. apply IH.
  assert (Hs : N.shiftr c 1 < 2147483648).
  { rewrite N.shiftr_div_pow2. change (2 ^ 1) with 2. apply N.div_lt_upper_bound; lia. }
  destruct (N.testbit c 0); [|lia].
  change 4294967296 with (2 ^ 32).
  destruct (N.eq_dec (N.lxor (N.shiftr c 1) 3988292384) 0) as [Z|Z]; [rewrite Z; reflexivity|].
  apply N.log2_lt_pow2; [lia|].
  eapply N.le_lt_trans; [apply N.log2_lxor|].
  apply N.max_lub_lt.
  - destruct (N.eq_dec (N.shiftr c 1) 0) as [Z'|Z']; [rewrite Z'; cbn; lia|].
    apply N.log2_lt_pow2; [lia|]. change (2 ^ 32) with 4294967296. lia.
  - reflexivity.
Qed.

Lemma lxor_lt_2_32 a b : a < 4294967296 -> b < 4294967296 -> N.lxor a b < 4294967296.
Proof.
  intros Ha Hb. change 4294967296 with (2 ^ 32) in *.
  destruct (N.eq_dec (N.lxor a b) 0) as [Z|Z]; [rewrite Z; reflexivity|].
  apply N.log2_lt_pow2; [lia|].
  eapply N.le_lt_trans; [apply N.log2_lxor|].
  apply N.max_lub_lt.
  - destruct (N.eq_dec a 0) as [Z'|Z']; [subst; cbn; lia|]. apply N.log2_lt_pow2; lia.
  - destruct (N.eq_dec b 0) as [Z'|Z']; [subst; cbn; lia|]. apply N.log2_lt_pow2; lia.
Qed.

Definition byte_list (bs : bytes) : Prop := Forall (fun b => b < 256) bs.

Lemma crc32_lt bs : byte_list bs -> crc32 bs < 4294967296.
Proof.
  intro Hb. unfold crc32. apply lxor_lt_2_32; [|reflexivity].
  assert (H : forall c, c < 4294967296 ->
            fold_left (fun c b => crc_bit 8 (N.lxor c b)) bs c < 4294967296).
  { induction Hb as [|b bs Hb1 Hb2 IH]; intros c Hc; cbn [fold_left]; [exact Hc|].
    apply IH. apply crc_bit_lt. apply lxor_lt_2_32; [exact Hc|lia]. }
  apply H. reflexivity.
Qed.

(* ---------- snapshot envelope ---------- *)
Section SnapshotProofs.
  Variable crc : bytes -> N.
  Hypothesis crc_lt : forall p, crc p < 4294967296.

  Theorem snapshot_roundtrip data :
    N.of_nat (length data) < 256 ^ N.of_nat 8 ->
    snapshot_load crc (snapshot_file crc data) = Some data.
  Proof.
    intro Hl. unfold snapshot_load, snapshot_file.
    change 4 with (N.of_nat (length snap_magic)) at 1. rewrite take_app, bytes_eqb_refl. cbn [negb].
    replace 8 with (N.of_nat (length (to_le 8 (N.of_nat (length data))))) at 1 by (rewrite to_le_length; reflexivity).
    rewrite take_app, (le_n_to_le 8 _ Hl), take_app.
    replace 4 with (N.of_nat (length (to_le 4 (crc data)))) at 1 by (rewrite to_le_length; reflexivity).
    rewrite <- (app_nil_r (to_le 4 (crc data))), take_app.
    rewrite (le_n_to_le 4 (crc data)) by (change (256 ^ N.of_nat 4) with 4294967296; apply crc_lt).
    rewrite N.eqb_refl. reflexivity.
  Qed.

  (* data or checksum bytes altered in place (same length): the load fails *)
  Theorem snapshot_damage_detected data ck rest :
    N.of_nat (length data) < 256 ^ N.of_nat 8 -> ck < 4294967296 -> ck <> crc data ->
    snapshot_load crc (snap_magic ++ to_le 8 (N.of_nat (length data)) ++ data ++ to_le 4 ck ++ rest) = None.
  Proof.
    intros Hl Hck Hne. unfold snapshot_load.
    change 4 with (N.of_nat (length snap_magic)) at 1. rewrite take_app, bytes_eqb_refl. cbn [negb].
    replace 8 with (N.of_nat (length (to_le 8 (N.of_nat (length data))))) at 1 by (rewrite to_le_length; reflexivity).
    rewrite take_app, (le_n_to_le 8 _ Hl), take_app.
    replace 4 with (N.of_nat (length (to_le 4 ck))) at 1 by (rewrite to_le_length; reflexivity).
    rewrite take_app.
    rewrite (le_n_to_le 4 ck) by (change (256 ^ N.of_nat 4) with 4294967296; exact Hck).
    destruct (N.eqb_spec ck (crc data)); [contradiction|reflexivity].
  Qed.

  (* any truncation of a snapshot file fails to load *)
  Theorem snapshot_truncated_refused data n :
    N.of_nat (length data) < 256 ^ N.of_nat 8 ->
    (n < length (snapshot_file crc data))%nat ->
    snapshot_load crc (firstn n (snapshot_file crc data)) = None.
  Proof.
    intros Hl Hn. unfold snapshot_file in *. rewrite !app_length, to_le_length, to_le_length in Hn.
    change (length snap_magic) with 4%nat in Hn.
    unfold snapshot_load.
    destruct (Nat.lt_ge_cases n 4) as [H4|H4].
    { rewrite take_short; [reflexivity|]. rewrite firstn_length. lia. }
    rewrite firstn_app. change (length snap_magic) with 4%nat.
    rewrite (firstn_all2 snap_magic) by (cbn; lia).
    change 4 with (N.of_nat (length snap_magic)) at 1. rewrite take_app, bytes_eqb_refl. cbn [negb].
    destruct (Nat.lt_ge_cases (n - 4) 8) as [H8|H8].
    { rewrite take_short; [reflexivity|]. rewrite firstn_length. lia. }
    rewrite firstn_app, to_le_length.
    rewrite (firstn_all2 (to_le 8 _)) by (rewrite to_le_length; lia).
    replace 8 with (N.of_nat (length (to_le 8 (N.of_nat (length data))))) at 1 by (rewrite to_le_length; reflexivity).
    rewrite take_app, (le_n_to_le 8 _ Hl).
    destruct (Nat.lt_ge_cases (n - 4 - 8) (length data)) as [Hd|Hd].
    { rewrite take_short; [reflexivity|]. rewrite firstn_length, app_length, to_le_length. lia. }
    rewrite firstn_app, (firstn_all2 data) by lia. rewrite take_app.
    rewrite take_short; [reflexivity|]. rewrite firstn_length, to_le_length. lia.
  Qed.
End SnapshotProofs.

(* ---------- instantiation with the executable CRC-32 ---------- *)
Definition crc32m (p : bytes) : N := crc32 p mod 4294967296.

Lemma crc32m_lt p : crc32m p < 4294967296.
Proof. unfold crc32m. apply N.mod_lt. lia. Qed.

Lemma crc32m_eq bs : byte_list bs -> crc32m bs = crc32 bs.
Proof. intro H. unfold crc32m. apply N.mod_small. apply crc32_lt. exact H. Qed.

(* ---------- the length field is NOT covered by the checksum: damage there can be silent ---------- *)
(* two entries; one bit of the first frame's length field flipped (3 -> 131): the frame now runs
   past end of file, the reader takes it for a torn tail and strict reading succeeds with NOTHING. *)
Definition lenflip_file : bytes := segment crc32m [[1; 2; 3]; [4]].
Definition lenflip_damaged : bytes :=
  firstn 4 lenflip_file ++ [131] ++ skipn 5 lenflip_file.

Lemma length_damage_silent :
  read_all_strict crc32m (fun _ => true) lenflip_file = RdOk [[1; 2; 3]; [4]] /\
  read_all_strict crc32m (fun _ => true) lenflip_damaged = RdOk [].
Proof. split; vm_compute; reflexivity. Qed.
