(* Proofs for C11 over Model/Filter.v: the inverted index agrees with the store after every history,
   the compiled filter selects exactly the documents the reference semantics selects, a filtered batch
   delete removes exactly that set. *)
From Coq Require Import List NArith ZArith Bool Arith Lia Permutation Btauto.
From Kyro Require Import Model.Filter Proofs.FilterLemmas.
Import ListNotations.

Section WithParse.
Variable parse : str -> option Z.

(* ------------------------------------------------------------------ index lookups as boolean queries *)
Inductive query :=
| QAlive
| QKV (k v : str)
| QLex (k v : str)
| QNum (k : str) (z : Z)
| QNd (k : str).

Definition qmem (ix : index) (q : query) (j : nat) : bool :=
  match q with
  | QAlive => bm_mem j (alive ix)
  | QKV k v => bm_mem j (get2 str_eqb str_eqb k v (by_kv ix))
  | QLex k v => bm_mem j (get2 str_eqb str_eqb k v (by_lex ix))
  | QNum k z => bm_mem j (get2 str_eqb Z.eqb k z (by_num ix))
  | QNd k => bm_mem j (get1 str_eqb k (numdocs ix))
  end.

Definition numkey (v : str) : option Z :=
  match parse_num parse v with
  | Some n => if f64_is_nan n then None else Some (okey n)
  | None => None
  end.
Definition is_num (v : str) : bool := match parse_num parse v with Some _ => true | None => false end.
Definition numkey_is (z : Z) (v : str) : bool :=
  match numkey v with Some z' => Z.eqb z' z | None => false end.

(* what a (key, value) pair of a document contributes to a query *)
Definition qval (q : query) (x : str) : bool :=
  match q with
  | QAlive => false
  | QKV _ v | QLex _ v => str_eqb x v
  | QNum _ z => numkey_is z x
  | QNd _ => is_num x
  end.
Definition qkey (q : query) (x : str) : bool :=
  match q with
  | QAlive => false
  | QKV k _ | QLex k _ | QNum k _ | QNd k => str_eqb x k
  end.
Definition qpair (q : query) (kv : str * str) : bool := qkey q (fst kv) && qval q (snd kv).
Definition qdoc (q : query) (m : meta) : bool :=
  match q with QAlive => true | _ => existsb (qpair q) m end.

Lemma qmem_insert_pair : forall i ix kv q j,
  qmem (insert_pair parse i ix kv) q j = qmem ix q j || (qpair q kv && (i =? j)).
Proof.
  intros i ix [k v] q j. unfold insert_pair, qpair. cbn [fst snd].
  destruct q as [|k' v'|k' v'|k' z|k']; cbn [qkey qval]; unfold numkey_is, numkey, is_num;
    destruct (parse_num parse v) as [n|] eqn:Ep; try destruct (f64_is_nan n) eqn:En;
    cbn [qmem alive by_kv by_lex by_num numdocs];
    rewrite ?(mem_get2_add2 str_eqb str_eqb str_eqb_spec str_eqb_spec),
            ?(mem_get2_add2 str_eqb Z.eqb str_eqb_spec Z.eqb_spec),
            ?(mem_get1_add1 str_eqb str_eqb_spec);
    cbn [andb]; rewrite ?andb_false_r, ?orb_false_r, ?andb_true_r; reflexivity.
Qed.

Lemma qmem_remove_pair : forall i ix kv q j,
  qmem (remove_pair parse i ix kv) q j = qmem ix q j && negb (qpair q kv && (i =? j)).
Proof.
  intros i ix [k v] q j. unfold remove_pair, qpair. cbn [fst snd].
  destruct q as [|k' v'|k' v'|k' z|k']; cbn [qkey qval]; unfold numkey_is, numkey, is_num;
    destruct (parse_num parse v) as [n|] eqn:Ep; try destruct (f64_is_nan n) eqn:En;
    cbn [qmem alive by_kv by_lex by_num numdocs];
    rewrite ?(mem_get2_rem2 str_eqb str_eqb str_eqb_spec str_eqb_spec),
            ?(mem_get2_rem2 str_eqb Z.eqb str_eqb_spec Z.eqb_spec),
            ?(mem_get1_rem1 str_eqb str_eqb_spec);
    cbn [andb negb]; rewrite ?andb_false_r; cbn [negb]; rewrite ?andb_true_r; reflexivity.
Qed.

Lemma qmem_fold_insert : forall i m ix q j,
  qmem (fold_left (insert_pair parse i) m ix) q j = qmem ix q j || (existsb (qpair q) m && (i =? j)).
Proof.
  intros i m. induction m as [|kv m IH]; intros ix q j; cbn [fold_left existsb].
  - cbn [andb]. rewrite orb_false_r. reflexivity.
  - rewrite IH, qmem_insert_pair. btauto.
Qed.

Lemma qmem_fold_remove : forall i m ix q j,
  qmem (fold_left (remove_pair parse i) m ix) q j = qmem ix q j && negb (existsb (qpair q) m && (i =? j)).
Proof.
  intros i m. induction m as [|kv m IH]; intros ix q j; cbn [fold_left existsb].
  - cbn [andb negb]. rewrite andb_true_r. reflexivity.
  - rewrite IH, qmem_remove_pair. btauto.
Qed.

Lemma existsb_qpair_alive : forall m, existsb (qpair QAlive) m = false.
Proof. induction m as [|kv m IH]; [reflexivity|]. cbn [existsb]. rewrite IH. reflexivity. Qed.

Lemma qmem_insert_doc : forall ix i m q j, bm_mem i (alive ix) = false ->
  qmem (insert_doc parse ix i m) q j = qmem ix q j || ((i =? j) && qdoc q m).
Proof.
  intros ix i m q j H. unfold insert_doc. rewrite H. rewrite qmem_fold_insert.
  destruct q; cbn [qmem alive by_kv by_lex by_num numdocs qdoc];
    rewrite ?bm_mem_insert, ?existsb_qpair_alive; btauto.
Qed.

Lemma qmem_remove_doc : forall ix i m q j,
  qmem (remove_doc parse ix i m) q j = qmem ix q j && negb ((i =? j) && qdoc q m).
Proof.
  intros ix i m q j. unfold remove_doc. rewrite qmem_fold_remove.
  destruct q; cbn [qmem alive by_kv by_lex by_num numdocs qdoc];
    rewrite ?bm_mem_remove, ?existsb_qpair_alive; btauto.
Qed.

(* ------------------------------------------------------------------ the store seen through the queries *)
Definition live_at (j : nat) (sl : list slot) : bool := is_live_slot (slot_at j sl).
Definition Sem (sl : list slot) (q : query) (j : nat) : bool := live_at j sl && qdoc q (meta_at j sl).
(* every lookup of the index agrees with the store *)
Definition Inv (sl : list slot) (ix : index) : Prop := forall q j, qmem ix q j = Sem sl q j.

Lemma slot_at_app_l : forall j sl x, j < length sl -> slot_at j (sl ++ x) = slot_at j sl.
Proof. intros. unfold slot_at. apply app_nth1. assumption. Qed.
Lemma slot_at_app_last : forall sl x, slot_at (length sl) (sl ++ [x]) = x.
Proof. intros. unfold slot_at. apply nth_middle. Qed.
Lemma slot_at_beyond : forall j sl, length sl <= j -> slot_at j sl = (None, []).
Proof. intros. unfold slot_at. apply nth_overflow. assumption. Qed.

Lemma length_set_nth : forall i x sl, length (set_nth i x sl) = length sl.
Proof.
  intros i x sl. revert i. induction sl as [|s r IH]; intros [|i]; cbn [set_nth length]; try reflexivity.
  rewrite IH. reflexivity.
Qed.

Lemma slot_at_set_nth : forall j i x sl,
  slot_at j (set_nth i x sl) = if (i =? j) && (i <? length sl) then x else slot_at j sl.
Proof.
  intros j i x sl. revert i j. induction sl as [|s r IH]; intros i j.
  - cbn [set_nth length]. destruct i; cbn; rewrite ?andb_false_r; reflexivity.
  - destruct i as [|i]; cbn [set_nth].
    + destruct j as [|j]; cbn; reflexivity.
    + destruct j as [|j]; [cbn; reflexivity|].
      unfold slot_at in *. cbn [nth length]. rewrite IH.
      change (S i =? S j) with (i =? j). change (S i <? S (length r)) with (i <? length r). reflexivity.
Qed.

Lemma live_at_beyond : forall j sl, length sl <= j -> live_at j sl = false.
Proof. intros. unfold live_at. rewrite slot_at_beyond by assumption. reflexivity. Qed.

Lemma ext_at_lt : forall i sl d, ext_at i sl = Some d -> i < length sl.
Proof.
  intros i sl d H. destruct (Nat.ltb_spec i (length sl)) as [Hlt|Hge]; [exact Hlt|].
  unfold ext_at in H. rewrite slot_at_beyond in H by assumption. discriminate.
Qed.

Lemma live_at_ext : forall j sl, live_at j sl = true <-> exists d, ext_at j sl = Some d.
Proof.
  intros. unfold live_at, ext_at, is_live_slot. destruct (fst (slot_at j sl)) as [d|].
  - split; [intros _; exists d; reflexivity|reflexivity].
  - split; [discriminate|intros [d H]; discriminate].
Qed.

Lemma Sem_app_live : forall sl d m q j,
  Sem (sl ++ [(Some d, m)]) q j = Sem sl q j || ((length sl =? j) && qdoc q m).
Proof.
  intros. unfold Sem, live_at, meta_at. destruct (lt_eq_lt_dec j (length sl)) as [[Hlt|Heq]|Hgt].
  - rewrite slot_at_app_l by assumption. destruct (Nat.eqb_spec (length sl) j); [lia|].
    cbn [andb]. rewrite orb_false_r. reflexivity.
  - subst j. rewrite slot_at_app_last. rewrite (slot_at_beyond (length sl) sl) by apply le_n.
    rewrite Nat.eqb_refl. cbn. reflexivity.
  - assert (H1 : length (sl ++ [(Some d, m)]) <= j) by (rewrite app_length; cbn [length]; lia).
    assert (H2 : length sl <= j) by lia.
    rewrite (slot_at_beyond j _ H1), (slot_at_beyond j sl H2).
    destruct (Nat.eqb_spec (length sl) j); [lia|]. reflexivity.
Qed.

Lemma Sem_app_dead : forall sl m q j, Sem (sl ++ [(None, m)]) q j = Sem sl q j.
Proof.
  intros. unfold Sem, live_at, meta_at. destruct (lt_eq_lt_dec j (length sl)) as [[Hlt|Heq]|Hgt].
  - rewrite slot_at_app_l by assumption. reflexivity.
  - subst j. rewrite slot_at_app_last. rewrite (slot_at_beyond (length sl) sl) by apply le_n. reflexivity.
  - assert (H1 : length (sl ++ [(None, m)]) <= j) by (rewrite app_length; cbn [length]; lia).
    assert (H2 : length sl <= j) by lia.
    rewrite (slot_at_beyond j _ H1), (slot_at_beyond j sl H2). reflexivity.
Qed.

Lemma Sem_tombstone : forall o sl q j, Sem (tombstone o sl) q j = Sem sl q j && negb (o =? j).
Proof.
  intros. unfold Sem, live_at, meta_at, tombstone. rewrite slot_at_set_nth.
  destruct (Nat.eqb_spec o j) as [->|Hn]; cbn [andb negb].
  - destruct (Nat.ltb_spec j (length sl)) as [Hlt|Hge].
    + cbn. rewrite andb_false_r. reflexivity.
    + rewrite slot_at_beyond by assumption. reflexivity.
  - rewrite andb_true_r. reflexivity.
Qed.

Lemma Sem_set : forall i sl d m' q j, ext_at i sl = Some d ->
  Sem (set_nth i (Some d, m') sl) q j = if i =? j then qdoc q m' else Sem sl q j.
Proof.
  intros i sl d m' q j H. unfold Sem, live_at, meta_at. rewrite slot_at_set_nth.
  pose proof (ext_at_lt _ _ _ H) as Hlt. destruct (Nat.ltb_spec i (length sl)); [|lia].
  rewrite andb_true_r. destruct (i =? j); reflexivity.
Qed.

(* ------------------------------------------------------------------ index maintenance keeps Inv *)
Lemma Inv_not_alive_end : forall sl ix, Inv sl ix -> bm_mem (length sl) (alive ix) = false.
Proof.
  intros sl ix H. specialize (H QAlive (length sl)). cbn [qmem] in H. rewrite H.
  unfold Sem. rewrite live_at_beyond by lia. reflexivity.
Qed.

Lemma Inv_insert_new : forall sl ix d m,
  Inv sl ix -> Inv (sl ++ [(Some d, m)]) (insert_doc parse ix (length sl) m).
Proof.
  intros sl ix d m H q j. rewrite qmem_insert_doc by (apply Inv_not_alive_end, H).
  rewrite Sem_app_live, H. reflexivity.
Qed.

Lemma Inv_remove : forall sl ix o,
  Inv sl ix -> Inv (tombstone o sl) (remove_doc parse ix o (meta_at o sl)).
Proof.
  intros sl ix o H q j. rewrite qmem_remove_doc, Sem_tombstone, H.
  destruct (Nat.eqb_spec o j) as [->|Hn]; cbn [andb negb]; [|reflexivity].
  unfold Sem. rewrite andb_false_r. destruct (live_at j sl), (qdoc q (meta_at j sl)); reflexivity.
Qed.

Lemma Inv_replace : forall sl ix i d m',
  ext_at i sl = Some d -> Inv sl ix ->
  Inv (set_nth i (Some d, m') sl) (replace_doc parse ix i (meta_at i sl) m').
Proof.
  intros sl ix i d m' He H q j. unfold replace_doc.
  rewrite qmem_insert_doc.
  - rewrite qmem_remove_doc, (Sem_set _ _ _ _ _ _ He), H.
    destruct (Nat.eqb_spec i j) as [->|Hn]; cbn [andb negb orb].
    + unfold Sem. destruct (live_at j sl), (qdoc q (meta_at j sl)), (qdoc q m'); reflexivity.
    + rewrite andb_true_r, orb_false_r. reflexivity.
  - pose proof (qmem_remove_doc ix i (meta_at i sl) QAlive i) as Hq. cbn [qmem qdoc] in Hq.
    rewrite Hq, Nat.eqb_refl. cbn. apply andb_false_r.
Qed.

Lemma combine_app_eq : forall {A B} (a a' : list A) (b b' : list B), length a = length b ->
  combine (a ++ a') (b ++ b') = combine a b ++ combine a' b'.
Proof.
  intros A B a. induction a as [|x a IH]; intros a' [|y b] b' H; cbn in *; try discriminate.
  - reflexivity.
  - rewrite IH by lia. reflexivity.
Qed.

Lemma indexed_app : forall sl x, indexed (sl ++ [x]) = indexed sl ++ [(length sl, x)].
Proof.
  intros. unfold indexed. rewrite app_length. cbn [length]. rewrite Nat.add_1_r, seq_S.
  rewrite combine_app_eq by apply seq_length. reflexivity.
Qed.

Lemma Inv_empty : Inv [] empty_index.
Proof.
  intros q j. unfold Sem. rewrite live_at_beyond by (cbn; lia).
  destruct q; cbn [qmem empty_index alive by_kv by_lex by_num numdocs]; reflexivity.
Qed.

Lemma Inv_rebuild : forall sl, Inv sl (rebuild_from parse sl).
Proof.
  induction sl as [|x sl IH] using rev_ind.
  - exact Inv_empty.
  - unfold rebuild_from. rewrite indexed_app, fold_left_app. cbn [fold_left].
    fold (rebuild_from parse sl). unfold rebuild_step. cbn [fst snd].
    destruct x as [[d|] m].
    + apply Inv_insert_new, IH.
    + intros q j. rewrite Sem_app_dead. apply IH.
Qed.

(* ------------------------------------------------------------------ well-formed metadata, unique live ids *)
Definition wf_meta (m : meta) : Prop := NoDup (map fst m).
Definition WF (sl : list slot) : Prop := forall j, wf_meta (meta_at j sl).
Definition UL (sl : list slot) : Prop :=
  forall i j d, ext_at i sl = Some d -> ext_at j sl = Some d -> i = j.
Definition Good (s : state) : Prop := Inv (slots s) (idx s) /\ WF (slots s) /\ UL (slots s).

Lemma keys_aset : forall k v (m : meta) x, In x (map fst (aset str_eqb k v m)) -> x = k \/ In x (map fst m).
Proof.
  intros k v m x. induction m as [|[k0 v0] r IH]; cbn [aset map fst In].
  - intuition.
  - destruct (str_eqb_spec k k0) as [->|Hn]; cbn [map fst In]; intuition.
Qed.

Lemma wf_mset : forall k v m, wf_meta m -> wf_meta (mset k v m).
Proof.
  intros k v m. unfold wf_meta, mset. induction m as [|[k0 v0] r IH]; cbn [aset map fst]; intro H.
  - constructor; [intros []|constructor].
  - inversion H as [|? ? Hnin Hr]; subst. destruct (str_eqb_spec k k0) as [->|Hn]; cbn [map fst].
    + constructor; assumption.
    + constructor; [|apply IH, Hr]. intro Hin. apply keys_aset in Hin. destruct Hin; [congruence|contradiction].
Qed.

Lemma wf_mextend : forall l m, wf_meta m -> wf_meta (mextend m l).
Proof.
  induction l as [|kv l IH]; intros m H; cbn [mextend fold_left]; [exact H|].
  apply IH, wf_mset, H.
Qed.

Lemma wf_nil : wf_meta []. Proof. constructor. Qed.

Lemma WF_app : forall sl d m, WF sl -> wf_meta m -> WF (sl ++ [(d, m)]).
Proof.
  intros sl d m H Hm j. unfold meta_at. destruct (lt_eq_lt_dec j (length sl)) as [[Hlt|Heq]|Hgt].
  - rewrite slot_at_app_l by assumption. apply H.
  - subst j. rewrite slot_at_app_last. exact Hm.
  - rewrite slot_at_beyond by (rewrite app_length; cbn [length]; lia). apply wf_nil.
Qed.

Lemma WF_set : forall sl i d m, WF sl -> wf_meta m -> WF (set_nth i (d, m) sl).
Proof.
  intros sl i d m H Hm j. unfold meta_at. rewrite slot_at_set_nth.
  destruct ((i =? j) && (i <? length sl)); [exact Hm|apply H].
Qed.

Lemma WF_of_Forall : forall sl, Forall (fun s => wf_meta (snd s)) sl -> WF sl.
Proof.
  intros sl H j. unfold meta_at, slot_at. destruct (Nat.ltb_spec j (length sl)) as [Hlt|Hge].
  - rewrite Forall_forall in H. apply H. apply nth_In. exact Hlt.
  - rewrite nth_overflow by assumption. apply wf_nil.
Qed.

Lemma Forall_of_WF : forall sl, WF sl -> Forall (fun s => wf_meta (snd s)) sl.
Proof.
  intros sl H. apply Forall_forall. intros x Hx. destruct (In_nth sl x ((None, []) : slot) Hx) as [j [Hj E]].
  specialize (H j). unfold meta_at, slot_at in H. rewrite E in H. exact H.
Qed.

(* find_live *)
Lemma find_live_some : forall d sl i, find_live d sl = Some i -> ext_at i sl = Some d.
Proof.
  intros d sl. induction sl as [|s r IH]; intros i H; cbn [find_live] in H; [discriminate|].
  destruct (ext_is d s) eqn:E.
  - injection H as <-. unfold ext_at, slot_at. cbn [nth]. unfold ext_is in E.
    destruct (fst s) as [e|]; [|discriminate]. apply N.eqb_eq in E. congruence.
  - destruct (find_live d r) as [i'|] eqn:F; [|discriminate]. injection H as <-.
    unfold ext_at, slot_at in *. cbn [nth]. apply IH. reflexivity.
Qed.

Lemma find_live_none : forall d sl, find_live d sl = None -> forall i, ext_at i sl <> Some d.
Proof.
  intros d sl. induction sl as [|s r IH]; intros H i.
  - unfold ext_at. rewrite slot_at_beyond by (cbn; lia). discriminate.
  - cbn [find_live] in H. destruct (ext_is d s) eqn:E; [discriminate|].
    destruct (find_live d r) eqn:F; [discriminate|]. destruct i as [|i].
    + unfold ext_at, slot_at. cbn [nth]. unfold ext_is in E. destruct (fst s) as [e|]; [|discriminate].
      intro Hc. injection Hc as ->. rewrite N.eqb_refl in E. discriminate.
    + unfold ext_at, slot_at in *. cbn [nth]. apply IH. reflexivity.
Qed.

Lemma find_live_iff : forall d sl i, UL sl -> (find_live d sl = Some i <-> ext_at i sl = Some d).
Proof.
  intros d sl i U. split; [apply find_live_some|]. intro H.
  destruct (find_live d sl) as [o|] eqn:F.
  - f_equal. apply (U o i d); [apply find_live_some, F|exact H].
  - exfalso. exact (find_live_none _ _ F i H).
Qed.


(* ------------------------------------------------------------------ unique live ids: positional and list views *)
Definition live_ids (sl : list slot) : list N :=
  flat_map (fun s : slot => match fst s with Some d => [d] | None => [] end) sl.

Lemma ext_at_cons_S : forall s r j, ext_at (S j) (s :: r) = ext_at j r.
Proof. reflexivity. Qed.
Lemma ext_at_cons_0 : forall s r, ext_at 0 (s :: r) = fst s.
Proof. reflexivity. Qed.

Lemma In_live_ids : forall d sl, In d (live_ids sl) <-> exists j, ext_at j sl = Some d.
Proof.
  intros d sl. induction sl as [|s r IH]; cbn [live_ids flat_map].
  - split; [intros []|]. intros [j H]. unfold ext_at in H. rewrite slot_at_beyond in H by (cbn; lia).
    discriminate.
  - fold (live_ids r). rewrite in_app_iff, IH. split.
    + intros [H|[j H]].
      * exists 0. rewrite ext_at_cons_0. destruct (fst s) as [e|]; [|destruct H].
        destruct H as [->|[]]. reflexivity.
      * exists (S j). rewrite ext_at_cons_S. exact H.
    + intros [[|j] H].
      * left. rewrite ext_at_cons_0 in H. rewrite H. left. reflexivity.
      * right. exists j. exact H.
Qed.

Lemma UL_iff : forall sl, UL sl <-> NoDup (live_ids sl).
Proof.
  induction sl as [|s r IH]; cbn [live_ids flat_map].
  - split; [intros _; constructor|]. intros _ i j d H. unfold ext_at in H.
    rewrite slot_at_beyond in H by (cbn; lia). discriminate.
  - fold (live_ids r). split.
    + intro U. assert (Ur : UL r).
      { intros i j d Hi Hj. specialize (U (S i) (S j) d Hi Hj). lia. }
      apply IH in Ur. destruct (fst s) as [e|] eqn:E; cbn [app]; [|exact Ur].
      constructor; [|exact Ur]. intro Hin. apply In_live_ids in Hin. destruct Hin as [j Hj].
      specialize (U 0 (S j) e). rewrite ext_at_cons_0, ext_at_cons_S in U. specialize (U E Hj). lia.
    + intros ND i j d Hi Hj.
      assert (NDr : NoDup (live_ids r)).
      { destruct (fst s); cbn [app] in ND; [inversion ND; assumption|exact ND]. }
      assert (Hhead : forall x, fst s = Some d -> ext_at x r = Some d -> False).
      { intros x E Hx. rewrite E in ND. cbn [app] in ND. inversion ND as [|? ? Hnin _]; subst.
        apply Hnin. apply In_live_ids. exists x. exact Hx. }
      destruct i as [|i], j as [|j]; rewrite ?ext_at_cons_0, ?ext_at_cons_S in *.
      * reflexivity.
      * exfalso. eapply Hhead; eassumption.
      * exfalso. eapply Hhead; eassumption.
      * f_equal. apply (proj2 IH NDr i j d); assumption.
Qed.

Lemma live_ids_filter : forall sl, live_ids (filter is_live_slot sl) = live_ids sl.
Proof.
  induction sl as [|s r IH]; [reflexivity|]. cbn [filter]. unfold is_live_slot at 1.
  destruct (fst s) as [d|] eqn:E; cbn [live_ids flat_map]; fold (live_ids r);
    fold (live_ids (filter is_live_slot r)); rewrite ?E, IH; reflexivity.
Qed.

Lemma ext_at_tombstone : forall o sl j,
  ext_at j (tombstone o sl) = if (o =? j) && (o <? length sl) then None else ext_at j sl.
Proof.
  intros. unfold ext_at, tombstone. rewrite slot_at_set_nth.
  destruct ((o =? j) && (o <? length sl)); reflexivity.
Qed.

Lemma ext_at_tombstone_some : forall o sl j e,
  ext_at j (tombstone o sl) = Some e -> j <> o /\ ext_at j sl = Some e.
Proof.
  intros o sl j e H. rewrite ext_at_tombstone in H.
  destruct (Nat.eqb_spec o j) as [->|Hn].
  - destruct (Nat.ltb_spec j (length sl)) as [Hlt|Hge]; cbn [andb] in H; [discriminate|].
    unfold ext_at in H. rewrite slot_at_beyond in H by assumption. discriminate.
  - cbn [andb] in H. split; [congruence|exact H].
Qed.

Lemma UL_tombstone : forall o sl, UL sl -> UL (tombstone o sl).
Proof.
  intros o sl U i j d Hi Hj. apply ext_at_tombstone_some in Hi, Hj.
  exact (U _ _ _ (proj2 Hi) (proj2 Hj)).
Qed.

Lemma WF_tombstone : forall o sl, WF sl -> WF (tombstone o sl).
Proof. intros. unfold tombstone. apply WF_set; [assumption|apply wf_nil]. Qed.

Lemma ext_at_app_cases : forall sl d m x e,
  ext_at x (sl ++ [(Some d, m)]) = Some e ->
  (x < length sl /\ ext_at x sl = Some e) \/ (x = length sl /\ e = d).
Proof.
  intros sl d m x e H. unfold ext_at in *. destruct (lt_eq_lt_dec x (length sl)) as [[Hlt|Heq]|Hgt].
  - rewrite slot_at_app_l in H by assumption. left. split; assumption.
  - subst x. rewrite slot_at_app_last in H. cbn [fst] in H. right. split; congruence.
  - rewrite slot_at_beyond in H; [discriminate|]. rewrite app_length. cbn [length]. lia.
Qed.

Lemma UL_app_fresh : forall sl d m, UL sl -> (forall i, ext_at i sl <> Some d) -> UL (sl ++ [(Some d, m)]).
Proof.
  intros sl d m U Hfresh i j e Hi Hj.
  apply ext_at_app_cases in Hi, Hj.
  destruct Hi as [[Hil Hi]|[-> ->]], Hj as [[Hjl Hj]|[Hj1 Hj2]]; subst.
  - exact (U _ _ _ Hi Hj).
  - exfalso. exact (Hfresh i Hi).
  - exfalso. exact (Hfresh j Hj).
  - reflexivity.
Qed.

Lemma ext_at_set_same : forall i sl d m' x, ext_at i sl = Some d ->
  ext_at x (set_nth i (Some d, m') sl) = ext_at x sl.
Proof.
  intros i sl d m' x H. unfold ext_at. rewrite slot_at_set_nth.
  destruct (Nat.eqb_spec i x) as [->|Hn]; cbn [andb]; [|reflexivity].
  destruct (x <? length sl); [|reflexivity]. cbn [fst]. symmetry. exact H.
Qed.

Lemma UL_set_same : forall i sl d m', ext_at i sl = Some d -> UL sl -> UL (set_nth i (Some d, m') sl).
Proof.
  intros i sl d m' H U a b e Ha Hb. rewrite (ext_at_set_same _ _ _ m' a H) in Ha. rewrite (ext_at_set_same _ _ _ m' b H) in Hb.
  eapply U; eassumption.
Qed.

(* ------------------------------------------------------------------ every operation keeps Good *)
Lemma Good_mk : forall sl ix c, Inv sl ix -> WF sl -> UL sl -> Good (mkState sl ix c).
Proof. intros. repeat split; assumption. Qed.

Lemma WF_filter_live : forall sl, WF sl -> WF (filter is_live_slot sl).
Proof.
  intros sl H. apply WF_of_Forall. apply Forall_of_WF in H. rewrite Forall_forall in *.
  intros x Hx. apply filter_In in Hx. apply H, Hx.
Qed.

Lemma Good_compact : forall s, Good s -> Good (compact parse s).
Proof.
  intros s [HI [HW HU]]. unfold compact. destruct (forallb is_live_slot (slots s)).
  - repeat split; assumption.
  - apply Good_mk; [apply Inv_rebuild|apply WF_filter_live, HW|].
    apply UL_iff. rewrite live_ids_filter. apply UL_iff, HU.
Qed.

Lemma slot_insert_perm : forall x l, Permutation (slot_insert x l) (x :: l).
Proof.
  intros x l. induction l as [|y r IH]; cbn [slot_insert]; [apply Permutation_refl|].
  destruct (N.leb (slot_key x) (slot_key y)); [apply Permutation_refl|].
  eapply Permutation_trans; [apply perm_skip, IH|apply perm_swap].
Qed.

Lemma sort_slots_perm : forall l, Permutation (sort_slots l) l.
Proof.
  induction l as [|x l IH]; cbn [sort_slots fold_right]; [apply Permutation_refl|].
  eapply Permutation_trans; [apply slot_insert_perm|apply perm_skip, IH].
Qed.

Lemma Good_recover : forall s, Good s -> Good (recover parse s).
Proof.
  intros s [HI [HW HU]]. unfold recover. apply Good_mk; [apply Inv_rebuild| |].
  - apply WF_of_Forall. pose proof (Forall_of_WF _ (WF_filter_live _ HW)) as HF.
    rewrite Forall_forall in *. intros x Hx. apply HF.
    eapply Permutation_in; [apply sort_slots_perm|exact Hx].
  - apply UL_iff. eapply Permutation_NoDup.
    + apply Permutation_sym. unfold live_ids. apply Permutation_flat_map. apply sort_slots_perm.
    + fold (live_ids (filter is_live_slot (slots s))). rewrite live_ids_filter. apply UL_iff, HU.
Qed.

Lemma wf_meta_of_list : forall raw, wf_meta (meta_of_list raw).
Proof. intro raw. unfold meta_of_list. apply wf_mextend, wf_nil. Qed.

Lemma meta_at_app_l : forall o sl x, o < length sl -> meta_at o (sl ++ x) = meta_at o sl.
Proof. intros. unfold meta_at. rewrite slot_at_app_l by assumption. reflexivity. Qed.

Lemma Good_insert : forall s d raw, Good s -> Good (fst (do_insert parse s d raw)).
Proof.
  intros s d raw G. unfold do_insert.
  set (s1 := if cap s <=? length (slots s) then compact parse s else s).
  assert (G1 : Good s1) by (unfold s1; destruct (cap s <=? length (slots s)); [apply Good_compact|]; exact G).
  clearbody s1. destruct (cap s1 <=? length (slots s1)); cbn [fst]; [exact G1|].
  destruct G1 as [HI [HW HU]].
  pose proof (Inv_insert_new _ _ d (meta_of_list raw) HI) as HI2.
  pose proof (WF_app _ (Some d) _ HW (wf_meta_of_list raw)) as HW2.
  destruct (find_live d (slots s1)) as [o|] eqn:F.
  - pose proof (find_live_some _ _ _ F) as Ho. pose proof (ext_at_lt _ _ _ Ho) as Hlt.
    apply Good_mk.
    + rewrite <- (meta_at_app_l o (slots s1) [(Some d, meta_of_list raw)] Hlt). apply Inv_remove, HI2.
    + apply WF_tombstone, HW2.
    + intros i j e Hi Hj.
      apply ext_at_tombstone_some in Hi, Hj. destruct Hi as [Hio Hi], Hj as [Hjo Hj].
      apply ext_at_app_cases in Hi, Hj.
      assert (Hd : forall x, x <> o -> ext_at x (slots s1) = Some d -> False).
      { intros x Hx Hex. apply Hx. exact (HU _ _ _ Hex Ho). }
      destruct Hi as [[Hil Hi]|[-> ->]], Hj as [[Hjl Hj]|[Hj1 Hj2]]; subst.
      * exact (HU _ _ _ Hi Hj).
      * exfalso. exact (Hd i Hio Hi).
      * exfalso. exact (Hd j Hjo Hj).
      * reflexivity.
  - apply Good_mk; [exact HI2|exact HW2|]. apply UL_app_fresh; [exact HU|apply find_live_none, F].
Qed.

Lemma Good_update : forall s d raw mg, Good s -> Good (fst (do_update parse s d raw mg)).
Proof.
  intros s d raw mg [HI [HW HU]]. unfold do_update.
  destruct (find_live d (slots s)) as [i|] eqn:F; cbn [fst]; [|repeat split; assumption].
  pose proof (find_live_some _ _ _ F) as Hi. rewrite Hi. apply Good_mk.
  - apply Inv_replace; assumption.
  - apply WF_set; [exact HW|]. destruct mg; [apply wf_mextend, HW|apply wf_meta_of_list].
  - apply UL_set_same; assumption.
Qed.

Lemma Good_delete : forall s d, Good s -> Good (fst (do_delete parse s d)).
Proof.
  intros s d [HI [HW HU]]. unfold do_delete.
  destruct (find_live d (slots s)) as [i|] eqn:F; cbn [fst]; [|repeat split; assumption].
  destruct (ext_at i (slots s)); cbn [fst]; [|repeat split; assumption].
  apply Good_mk; [apply Inv_remove, HI|apply WF_tombstone, HW|apply UL_tombstone, HU].
Qed.

(* batch_delete: the store pass and the posting pass commute into one interleaved pass *)
Definition rm (ix : index) (e : nat * meta) : index := remove_doc parse ix (fst e) (snd e).
Definition bd_both (acc : list slot * index) (e : N * nat * meta) : list slot * index :=
  match e with
  | (d, i, old) =>
      match ext_at i (fst acc) with
      | Some d' => if N.eqb d' d then (tombstone i (fst acc), remove_doc parse (snd acc) i old) else acc
      | None => acc
      end
  end.

Lemma bd_split : forall deletes sl rem ix,
  fold_left bd_both deletes (sl, fold_left rm rem ix)
  = (fst (fold_left bd_store_step deletes (sl, rem)),
     fold_left rm (snd (fold_left bd_store_step deletes (sl, rem))) ix).
Proof.
  induction deletes as [|[[d i] old] deletes IH]; intros sl rem ix; cbn [fold_left]; [reflexivity|].
  unfold bd_both at 2, bd_store_step at 2 4. cbn [fst snd].
  destruct (ext_at i sl) as [d'|]; [|apply IH]. destruct (N.eqb d' d); [|apply IH].
  rewrite <- IH. rewrite fold_left_app. reflexivity.
Qed.

Definition pend_ok (cur : list slot) (e : N * nat * meta) : Prop :=
  match e with
  | (d, i, old) => (ext_at i cur = Some d /\ meta_at i cur = old) \/ slot_at i cur = (None, [])
  end.

Lemma pend_ok_tombstone : forall cur o e, pend_ok cur e -> pend_ok (tombstone o cur) e.
Proof.
  intros cur o [[d i] old] H. unfold pend_ok, ext_at, meta_at, tombstone in *.
  rewrite slot_at_set_nth. destruct ((o =? i) && (o <? length cur)); [right; reflexivity|exact H].
Qed.

Lemma bd_both_good : forall deletes sl ix,
  Inv sl ix -> WF sl -> UL sl -> Forall (pend_ok sl) deletes ->
  Inv (fst (fold_left bd_both deletes (sl, ix))) (snd (fold_left bd_both deletes (sl, ix)))
  /\ WF (fst (fold_left bd_both deletes (sl, ix))) /\ UL (fst (fold_left bd_both deletes (sl, ix))).
Proof.
  induction deletes as [|[[d i] old] deletes IH]; intros sl ix HI HW HU HP; cbn [fold_left].
  - cbn [fst snd]. repeat split; assumption.
  - inversion HP as [|? ? Hp HP']; subst. unfold bd_both at 2 4 6 8. cbn [fst snd].
    destruct (ext_at i sl) as [d'|] eqn:E; [|apply IH; assumption].
    destruct (N.eqb_spec d' d) as [->|Hn]; [|apply IH; assumption].
    apply IH.
    + destruct Hp as [[_ Hm]|Hs].
      * rewrite <- Hm. apply Inv_remove, HI.
      * unfold ext_at in E. rewrite Hs in E. discriminate.
    + apply WF_tombstone, HW.
    + apply UL_tombstone, HU.
    + eapply Forall_impl; [|exact HP']. intros e He. apply pend_ok_tombstone, He.
Qed.

Lemma bd_collect_pend : forall sl ids, Forall (pend_ok sl) (bd_collect sl ids).
Proof.
  intros sl ids. apply Forall_forall. intros e He. unfold bd_collect in He.
  apply in_flat_map in He. destruct He as [d [_ He]].
  destruct (find_live d sl) as [i|] eqn:F; [|destruct He].
  destruct (ext_at i sl) eqn:E; [|destruct He]. destruct He as [<-|[]].
  left. split; [apply find_live_some, F|reflexivity].
Qed.

Lemma batch_delete_as_both : forall s ids,
  fst (do_batch_delete parse s ids)
  = mkState (fst (fold_left bd_both (bd_collect (slots s) ids) (slots s, idx s)))
            (snd (fold_left bd_both (bd_collect (slots s) ids) (slots s, idx s))) (cap s).
Proof.
  intros s ids. unfold do_batch_delete. cbn [fst].
  pose proof (bd_split (bd_collect (slots s) ids) (slots s) [] (idx s)) as H. cbn [fold_left] in H.
  rewrite H. cbn [fst snd]. reflexivity.
Qed.

Lemma Good_batch_delete : forall s ids, Good s -> Good (fst (do_batch_delete parse s ids)).
Proof.
  intros s ids [HI [HW HU]]. rewrite batch_delete_as_both.
  destruct (bd_both_good (bd_collect (slots s) ids) (slots s) (idx s) HI HW HU (bd_collect_pend _ _))
    as [A [B C]].
  apply Good_mk; assumption.
Qed.

Theorem step_good : forall s o, Good s -> Good (fst (step parse s o)).
Proof.
  intros s o G. destruct o; cbn [step fst].
  - apply Good_insert, G.
  - apply Good_update, G.
  - apply Good_delete, G.
  - apply Good_batch_delete, G.
  - unfold do_batch_delete_filter. apply Good_batch_delete, G.
  - apply Good_compact, G.
  - apply Good_recover, G.
Qed.

Lemma init_good : forall c, Good (init c).
Proof.
  intro c. unfold init. apply Good_mk.
  - exact Inv_empty.
  - intro j. unfold meta_at. rewrite slot_at_beyond by (cbn; lia). apply wf_nil.
  - intros i j d H. unfold ext_at in H. rewrite slot_at_beyond in H by (cbn; lia). discriminate.
Qed.

Lemma run_state_good : forall ops s, Good s -> Good (run_state parse s ops).
Proof.
  induction ops as [|o ops IH]; intros s G; cbn [run_state fold_left]; [exact G|].
  apply IH, step_good, G.
Qed.

Lemma run_fst : forall ops s acc, fst (fold_left (fun a o => let r := step parse (fst a) o in (fst r, snd a ++ [snd r])) ops (s, acc))
  = run_state parse s ops.
Proof.
  induction ops as [|o ops IH]; intros s acc; cbn [fold_left run_state]; [reflexivity|].
  cbn [fst snd]. apply IH.
Qed.

(* states reachable by any history from an empty backend of any capacity *)
Definition reachable (s : state) : Prop := exists c ops, s = run_state parse (init c) ops.

Lemma reachable_good : forall s, reachable s -> Good s.
Proof. intros s [c [ops ->]]. apply run_state_good, init_good. Qed.


(* ------------------------------------------------------------------ structural induction on filter trees *)
Section FilterInd.
  Variable P : mfilter -> Prop.
  Hypothesis HNone : P FNone.
  Hypothesis HExact : forall k v, P (FExact k v).
  Hypothesis HRange : forall k b, P (FRange k b).
  Hypothesis HIn : forall k vs, P (FIn k vs).
  Hypothesis HAnd : forall fs, Forall P fs -> P (FAnd fs).
  Hypothesis HOr : forall fs, Forall P fs -> P (FOr fs).
  Hypothesis HNot0 : P (FNot None).
  Hypothesis HNot1 : forall g, P g -> P (FNot (Some g)).
  Fixpoint mfilter_ind' (f : mfilter) : P f :=
    match f with
    | FNone => HNone
    | FExact k v => HExact k v
    | FRange k b => HRange k b
    | FIn k vs => HIn k vs
    | FAnd fs => HAnd fs ((fix go (l : list mfilter) : Forall P l :=
                             match l with
                             | [] => Forall_nil P
                             | x :: r => Forall_cons x (mfilter_ind' x) (go r)
                             end) fs)
    | FOr fs => HOr fs ((fix go (l : list mfilter) : Forall P l :=
                           match l with
                           | [] => Forall_nil P
                           | x :: r => Forall_cons x (mfilter_ind' x) (go r)
                           end) fs)
    | FNot None => HNot0
    | FNot (Some g) => HNot1 g (mfilter_ind' g)
    end.
End FilterInd.

(* ------------------------------------------------------------------ lookups of a live document *)
Lemma existsb_key_absent : forall k (g : str -> bool) (m : meta), ~ In k (map fst m) ->
  existsb (fun kv => str_eqb (fst kv) k && g (snd kv)) m = false.
Proof.
  intros k g m. induction m as [|[k0 v0] r IH]; intro H; [reflexivity|].
  cbn [existsb fst snd map] in *. destruct (str_eqb_spec k0 k) as [->|Hn].
  - exfalso. apply H. left. reflexivity.
  - cbn [andb orb]. apply IH. intro Hin. apply H. right. exact Hin.
Qed.

Lemma wf_existsb_mget : forall k (g : str -> bool) (m : meta), wf_meta m ->
  existsb (fun kv => str_eqb (fst kv) k && g (snd kv)) m
  = match mget k m with Some v => g v | None => false end.
Proof.
  intros k g m. unfold wf_meta, mget. induction m as [|[k0 v0] r IH]; intro H; [reflexivity|].
  cbn [existsb fst snd map aget] in *. inversion H as [|? ? Hnin Hr]; subst.
  rewrite (str_eqb_sym k k0). destruct (str_eqb_spec k0 k) as [->|Hn]; cbn [andb orb].
  - rewrite existsb_key_absent by assumption. apply orb_false_r.
  - apply IH, Hr.
Qed.

Lemma existsb_ext' : forall {A} (F G : A -> bool) l, (forall x, F x = G x) -> existsb F l = existsb G l.
Proof. intros A F G l H. induction l as [|x l IH]; [reflexivity|]. cbn [existsb]. rewrite H, IH. reflexivity. Qed.

Lemma existsb_const_false : forall {A} (l : list A), existsb (fun _ => false) l = false.
Proof. induction l as [|x l IH]; [reflexivity|exact IH]. Qed.

Section Live.
  Variables (sl : list slot) (ix : index) (j : nat).
  Hypothesis HI : Inv sl ix.
  Hypothesis HW : WF sl.
  Hypothesis HL : live_at j sl = true.

  Lemma look_alive : bm_mem j (alive ix) = true.
  Proof. pose proof (HI QAlive j) as H. cbn [qmem] in H. rewrite H. unfold Sem. rewrite HL. reflexivity. Qed.

  Lemma look_kv : forall k v, bm_mem j (get2 str_eqb str_eqb k v (by_kv ix))
    = match mget k (meta_at j sl) with Some x => str_eqb x v | None => false end.
  Proof.
    intros k v. pose proof (HI (QKV k v) j) as H. cbn [qmem] in H. rewrite H. unfold Sem. rewrite HL.
    cbn [andb qdoc]. exact (wf_existsb_mget k (qval (QKV k v)) _ (HW j)).
  Qed.

  Lemma look_lex : forall k v, bm_mem j (get2 str_eqb str_eqb k v (by_lex ix))
    = match mget k (meta_at j sl) with Some x => str_eqb x v | None => false end.
  Proof.
    intros k v. pose proof (HI (QLex k v) j) as H. cbn [qmem] in H. rewrite H. unfold Sem. rewrite HL.
    cbn [andb qdoc]. exact (wf_existsb_mget k (qval (QLex k v)) _ (HW j)).
  Qed.

  Lemma look_num : forall k z, bm_mem j (get2 str_eqb Z.eqb k z (by_num ix))
    = match mget k (meta_at j sl) with Some x => numkey_is z x | None => false end.
  Proof.
    intros k z. pose proof (HI (QNum k z) j) as H. cbn [qmem] in H. rewrite H. unfold Sem. rewrite HL.
    cbn [andb qdoc]. exact (wf_existsb_mget k (qval (QNum k z)) _ (HW j)).
  Qed.

  Lemma look_nd : forall k, bm_mem j (get1 str_eqb k (numdocs ix))
    = match mget k (meta_at j sl) with Some x => is_num x | None => false end.
  Proof.
    intros k. pose proof (HI (QNd k) j) as H. cbn [qmem] in H. rewrite H. unfold Sem. rewrite HL.
    cbn [andb qdoc]. exact (wf_existsb_mget k (qval (QNd k)) _ (HW j)).
  Qed.

  Lemma lex_union : forall k (p : str -> bool),
    bm_mem j (union_where str_eqb p (getm str_eqb k (by_lex ix)))
    = match mget k (meta_at j sl) with Some x => p x | None => false end.
  Proof.
    intros k p. apply eq_iff_eq_true. rewrite (mem_union_where str_eqb str_eqb_spec). split.
    - intros [v [Hp Hm]]. change (get1 str_eqb v (getm str_eqb k (by_lex ix)))
        with (get2 str_eqb str_eqb k v (by_lex ix)) in Hm. rewrite look_lex in Hm.
      destruct (mget k (meta_at j sl)) as [x|]; [|discriminate].
      destruct (str_eqb_spec x v) as [Hxv|Hxv]; [subst; exact Hp|discriminate].
    - intro H. destruct (mget k (meta_at j sl)) as [x|] eqn:E; [|discriminate].
      exists x. split; [exact H|].
      change (get1 str_eqb x (getm str_eqb k (by_lex ix))) with (get2 str_eqb str_eqb k x (by_lex ix)).
      rewrite look_lex, E. apply str_eqb_refl.
  Qed.

  Lemma kv_union_all : forall k,
    bm_mem j (union_where str_eqb (fun _ => true) (getm str_eqb k (by_kv ix)))
    = match mget k (meta_at j sl) with Some _ => true | None => false end.
  Proof.
    intros k. apply eq_iff_eq_true. rewrite (mem_union_where str_eqb str_eqb_spec). split.
    - intros [v [_ Hm]]. change (get1 str_eqb v (getm str_eqb k (by_kv ix)))
        with (get2 str_eqb str_eqb k v (by_kv ix)) in Hm. rewrite look_kv in Hm.
      destruct (mget k (meta_at j sl)); [reflexivity|discriminate].
    - intro H. destruct (mget k (meta_at j sl)) as [x|] eqn:E; [|discriminate].
      exists x. split; [reflexivity|].
      change (get1 str_eqb x (getm str_eqb k (by_kv ix))) with (get2 str_eqb str_eqb k x (by_kv ix)).
      rewrite look_kv, E. apply str_eqb_refl.
  Qed.

  Lemma num_union : forall k (p : Z -> bool),
    bm_mem j (union_where Z.eqb p (getm str_eqb k (by_num ix)))
    = match mget k (meta_at j sl) with
      | Some x => match numkey x with Some z => p z | None => false end
      | None => false
      end.
  Proof.
    intros k p. apply eq_iff_eq_true. rewrite (mem_union_where Z.eqb Z.eqb_spec). split.
    - intros [z [Hp Hm]]. change (get1 Z.eqb z (getm str_eqb k (by_num ix)))
        with (get2 str_eqb Z.eqb k z (by_num ix)) in Hm. rewrite look_num in Hm.
      destruct (mget k (meta_at j sl)) as [x|]; [|discriminate]. unfold numkey_is in Hm.
      destruct (numkey x) as [z'|]; [|discriminate]. apply Z.eqb_eq in Hm. subst. exact Hp.
    - intro H. destruct (mget k (meta_at j sl)) as [x|] eqn:E; [|discriminate].
      destruct (numkey x) as [z|] eqn:En; [|discriminate]. exists z. split; [exact H|].
      change (get1 Z.eqb z (getm str_eqb k (by_num ix))) with (get2 str_eqb Z.eqb k z (by_num ix)).
      rewrite look_num, E. unfold numkey_is. rewrite En. apply Z.eqb_refl.
  Qed.
End Live.

Lemma parse_num_range : forall x n, parse_num parse x = Some n -> (0 <= n < two64)%Z.
Proof.
  intros x n H. unfold parse_num in H. destruct (parse x); [|discriminate]. injection H as <-.
  apply f64_norm_range.
Qed.

Definition cmp_lex (bd : bound) (x : str) : bool :=
  match bd with
  | Gte v => str_leb v x
  | Lte v => str_leb x v
  | Gt v => str_ltb v x
  | Lt v => str_ltb x v
  end.

Lemma range_lex_mem : forall sl ix j, Inv sl ix -> WF sl -> live_at j sl = true -> forall k bd,
  bm_mem j (bitmap_for_range_lex ix k bd)
  = match mget k (meta_at j sl) with Some x => cmp_lex bd x | None => false end.
Proof.
  intros sl ix j HI HW HL k bd. unfold bitmap_for_range_lex.
  destruct bd; rewrite (lex_union sl ix j HI HW HL); reflexivity.
Qed.

Lemma range_num_mem : forall sl ix j, Inv sl ix -> WF sl -> live_at j sl = true -> forall k bd bn x xn,
  mget k (meta_at j sl) = Some x -> parse_num parse x = Some xn -> (0 <= bn < two64)%Z ->
  bm_mem j (bitmap_for_range_numeric ix k bd bn)
  = match bd with
    | Gte _ => f64_ge xn bn
    | Lte _ => f64_le xn bn
    | Gt _ => f64_gt xn bn
    | Lt _ => f64_lt xn bn
    end.
Proof.
  intros sl ix j HI HW HL k bd bn x xn Hx Hp Hbn. unfold bitmap_for_range_numeric.
  pose proof (parse_num_range _ _ Hp) as Hxn.
  destruct (f64_is_nan bn) eqn:Nb.
  - rewrite bm_mem_nil. destruct (f64_cmp_nan_r xn bn Nb) as [A [B [C D]]].
    destruct bd; symmetry; assumption.
  - destruct (f64_is_nan xn) eqn:Nx.
    + destruct (f64_cmp_nan_l xn bn Nx) as [A [B [C D]]].
      destruct bd; rewrite (num_union sl ix j HI HW HL), Hx; unfold numkey; rewrite Hp, Nx;
        symmetry; assumption.
    + destruct bd; rewrite (num_union sl ix j HI HW HL), Hx; unfold numkey; rewrite Hp, Nx.
      * unfold f64_ge. apply okey_le; assumption.
      * apply okey_le; assumption.
      * unfold f64_gt. apply okey_lt; assumption.
      * apply okey_lt; assumption.
Qed.

Lemma range_num_mem_nonnum : forall sl ix j, Inv sl ix -> WF sl -> live_at j sl = true -> forall k bd bn,
  match mget k (meta_at j sl) with Some x => parse_num parse x = None | None => True end ->
  bm_mem j (bitmap_for_range_numeric ix k bd bn) = false.
Proof.
  intros sl ix j HI HW HL k bd bn H. unfold bitmap_for_range_numeric.
  destruct (f64_is_nan bn); [reflexivity|].
  destruct bd; rewrite (num_union sl ix j HI HW HL); destruct (mget k (meta_at j sl)) as [x|];
    try reflexivity; unfold numkey; rewrite H; reflexivity.
Qed.

(* ------------------------------------------------------------------ the compiled bitmap is exact on live docs *)
Definition sound_at (sl : list slot) (ix : index) (f : mfilter) : Prop :=
  forall b, compile parse ix f = Some b ->
  forall j, live_at j sl = true -> bm_mem j b = matches parse f (meta_at j sl).

Lemma fold_none_and : forall c rest, fold_left (and_step c) rest None = None.
Proof. intros c rest. induction rest as [|g r IH]; [reflexivity|exact IH]. Qed.
Lemma fold_none_or : forall c rest, fold_left (or_step c) rest None = None.
Proof. intros c rest. induction rest as [|g r IH]; [reflexivity|exact IH]. Qed.

Lemma fold_and_sound : forall sl ix rest, Forall (sound_at sl ix) rest -> forall a b,
  fold_left (and_step (compile parse ix)) rest (Some a) = Some b ->
  forall j, live_at j sl = true ->
  bm_mem j b = bm_mem j a && forallb (fun g => matches parse g (meta_at j sl)) rest.
Proof.
  intros sl ix rest HF. induction HF as [|g r Hg HF IH]; intros a b H j HL; cbn [fold_left forallb] in *.
  - injection H as <-. rewrite andb_true_r. reflexivity.
  - unfold and_step at 2 in H. destruct (compile parse ix g) as [bg|] eqn:E.
    + rewrite (IH _ _ H j HL), bm_mem_and, (Hg bg E j HL). symmetry. apply andb_assoc.
    + rewrite fold_none_and in H. discriminate.
Qed.

Lemma fold_or_sound : forall sl ix rest, Forall (sound_at sl ix) rest -> forall a b,
  fold_left (or_step (compile parse ix)) rest (Some a) = Some b ->
  forall j, live_at j sl = true ->
  bm_mem j b = bm_mem j a || existsb (fun g => matches parse g (meta_at j sl)) rest.
Proof.
  intros sl ix rest HF. induction HF as [|g r Hg HF IH]; intros a b H j HL; cbn [fold_left existsb] in *.
  - injection H as <-. rewrite orb_false_r. reflexivity.
  - unfold or_step at 2 in H. destruct (compile parse ix g) as [bg|] eqn:E.
    + rewrite (IH _ _ H j HL), bm_mem_or, (Hg bg E j HL). rewrite orb_assoc. reflexivity.
    + rewrite fold_none_or in H. discriminate.
Qed.

Lemma fold_in_mem : forall ix k vs acc j,
  bm_mem j (fold_left (fun acc v => bm_or acc (bitmap_for_exact ix k v)) vs acc)
  = bm_mem j acc || existsb (fun v => bm_mem j (bitmap_for_exact ix k v)) vs.
Proof.
  intros ix k vs. induction vs as [|v vs IH]; intros acc j; cbn [fold_left existsb].
  - rewrite orb_false_r. reflexivity.
  - rewrite IH, bm_mem_or. rewrite orb_assoc. reflexivity.
Qed.

Lemma diff_numdocs_mem : forall ix k out j,
  bm_mem j (match aget str_eqb k (numdocs ix) with Some nd => bm_diff out nd | None => out end)
  = bm_mem j out && negb (bm_mem j (get1 str_eqb k (numdocs ix))).
Proof.
  intros. unfold get1. destruct (aget str_eqb k (numdocs ix)).
  - apply bm_mem_diff.
  - rewrite bm_mem_nil. cbn [negb]. rewrite andb_true_r. reflexivity.
Qed.

Lemma range_sound : forall sl ix, Inv sl ix -> WF sl -> forall k ob, sound_at sl ix (FRange k ob).
Proof.
  intros sl ix HI HW k ob b H j HL. cbn [compile] in H. unfold compile_range in H.
  change (matches parse (FRange k ob) (meta_at j sl)) with (matches_range parse k ob (meta_at j sl)).
  unfold matches_range. destruct ob as [bd|].
  - destruct (parse_num parse (bound_value (Some bd))) as [bn|] eqn:Pb; injection H as <-.
    + rewrite bm_mem_or, diff_numdocs_mem, (range_lex_mem sl ix j HI HW HL),
        (look_nd sl ix j HI HW HL).
      pose proof (parse_num_range _ _ Pb) as Hbn.
      destruct (mget k (meta_at j sl)) as [x|] eqn:Ex.
      * unfold is_num. destruct (parse_num parse x) as [xn|] eqn:Px.
        -- cbn [negb]. rewrite andb_false_r. cbn [orb].
           rewrite (range_num_mem sl ix j HI HW HL k bd bn x xn Ex Px Hbn). destruct bd; reflexivity.
        -- cbn [negb]. rewrite andb_true_r.
           rewrite (range_num_mem_nonnum sl ix j HI HW HL) by (rewrite Ex; exact Px).
           rewrite orb_false_r. destruct bd; reflexivity.
      * cbn [andb orb]. apply (range_num_mem_nonnum sl ix j HI HW HL). rewrite Ex. exact I.
    + rewrite (range_lex_mem sl ix j HI HW HL).
      destruct (mget k (meta_at j sl)) as [x|]; [|reflexivity].
      destruct (parse_num parse x); destruct bd; reflexivity.
  - injection H as <-. unfold bitmap_for_key_presence. rewrite (kv_union_all sl ix j HI HW HL).
    destruct (mget k (meta_at j sl)) as [x|]; [|reflexivity].
    destruct (parse_num parse x), (parse_num parse (bound_value None)); reflexivity.
Qed.

Theorem compile_sound : forall sl ix, Inv sl ix -> WF sl -> forall f, sound_at sl ix f.
Proof.
  intros sl ix HI HW f. induction f as [|k v|k ob|k vs|fs IH|fs IH| |g IH] using mfilter_ind'.
  - intros b H j HL. injection H as <-. cbn [matches]. apply (look_alive sl ix j HI HL).
  - intros b H j HL. injection H as <-. unfold bitmap_for_exact. rewrite (look_kv sl ix j HI HW HL).
    reflexivity.
  - apply range_sound; assumption.
  - intros b H j HL. cbn [compile] in H. injection H as <-. rewrite fold_in_mem, bm_mem_nil. cbn [orb].
    change (matches parse (FIn k vs) (meta_at j sl))
      with (match mget k (meta_at j sl) with
            | Some x => existsb (fun v => str_eqb v x) vs
            | None => false
            end).
    destruct (mget k (meta_at j sl)) as [x|] eqn:E.
    + apply existsb_ext'. intro v. unfold bitmap_for_exact. rewrite (look_kv sl ix j HI HW HL), E.
      apply str_eqb_sym.
    + rewrite <- (existsb_const_false vs). apply existsb_ext'. intro v. unfold bitmap_for_exact.
      rewrite (look_kv sl ix j HI HW HL), E. reflexivity.
  - intros b H j HL.
    change (matches parse (FAnd fs) (meta_at j sl))
      with (forallb (fun g => matches parse g (meta_at j sl)) fs).
    destruct fs as [|first rest].
    + injection H as <-. apply (look_alive sl ix j HI HL).
    + cbn [compile] in H. inversion IH as [|? ? Hfirst Hrest]; subst.
      destruct (compile parse ix first) as [a|] eqn:E.
      * rewrite (fold_and_sound sl ix rest Hrest a b H j HL), (Hfirst a E j HL). reflexivity.
      * rewrite fold_none_and in H. discriminate.
  - intros b H j HL. destruct fs as [|first rest].
    + injection H as <-. reflexivity.
    + change (matches parse (FOr (first :: rest)) (meta_at j sl))
        with (existsb (fun g => matches parse g (meta_at j sl)) (first :: rest)).
      cbn [compile] in H. rewrite (fold_or_sound sl ix (first :: rest) IH [] b H j HL), bm_mem_nil.
      reflexivity.
  - intros b H. discriminate.
  - intros b H j HL. cbn [compile] in H. destruct (compile parse ix g) as [bg|] eqn:E; [|discriminate].
    injection H as <-. rewrite bm_mem_diff, (look_alive sl ix j HI HL), (IH bg E j HL). reflexivity.
Qed.

(* ------------------------------------------------------------------ ids_for_filter vs scan *)
Lemma In_scan : forall sl p d,
  In d (scan sl p) <-> exists j, ext_at j sl = Some d /\ p (meta_at j sl) = true.
Proof.
  intros sl p d. unfold scan. rewrite in_flat_map. split.
  - intros [s [Hs Hd]]. destruct (In_nth sl s ((None, []) : slot) Hs) as [j [Hj E]].
    exists j. unfold ext_at, meta_at, slot_at. rewrite E.
    destruct (fst s) as [e|]; [|destruct Hd]. destruct (p (snd s)); [|destruct Hd].
    destruct Hd as [->|[]]. split; reflexivity.
  - intros [j [He Hp]]. exists (slot_at j sl). split.
    + unfold slot_at. apply nth_In. eapply ext_at_lt. exact He.
    + unfold ext_at in He. unfold meta_at in Hp. rewrite He, Hp. left. reflexivity.
Qed.

Lemma In_ids_of_bitmap : forall sl b d,
  In d (ids_of_bitmap sl b) <-> exists j, bm_mem j b = true /\ ext_at j sl = Some d.
Proof.
  intros sl b d. unfold ids_of_bitmap. rewrite in_flat_map. split.
  - intros [j [Hj Hd]]. apply bm_iter_In in Hj. exists j. split; [exact Hj|].
    destruct (ext_at j sl) as [e|]; [|destruct Hd]. destruct Hd as [->|[]]. reflexivity.
  - intros [j [Hj He]]. exists j. split; [apply bm_iter_In, Hj|]. rewrite He. left. reflexivity.
Qed.

Theorem ids_for_filter_exact : forall s f, Good s ->
  forall d, In d (ids_for_filter parse s f) <-> In d (scan (slots s) (matches parse f)).
Proof.
  intros s f [HI [HW HU]] d. unfold ids_for_filter.
  destruct (compile parse (idx s) f) as [b|] eqn:E; [|reflexivity].
  rewrite In_ids_of_bitmap, In_scan. split.
  - intros [j [Hm He]]. exists j. split; [exact He|].
    assert (HL : live_at j (slots s) = true) by (apply live_at_ext; exists d; exact He).
    rewrite bm_mem_and in Hm. apply andb_true_iff in Hm. destruct Hm as [Hm _].
    rewrite <- (compile_sound _ _ HI HW f b E j HL). exact Hm.
  - intros [j [He Hp]]. exists j. split; [|exact He].
    assert (HL : live_at j (slots s) = true) by (apply live_at_ext; exists d; exact He).
    rewrite bm_mem_and, (compile_sound _ _ HI HW f b E j HL), Hp. cbn [andb].
    apply (look_alive _ _ j HI HL).
Qed.

Lemma scan_live_docs : forall sl p,
  scan sl p = map fst (filter (fun dm => p (snd dm)) (live_docs sl)).
Proof.
  intros sl p. induction sl as [|s r IH]; [reflexivity|].
  cbn [scan live_docs flat_map]. fold (scan r p). fold (live_docs r).
  rewrite filter_app, map_app, <- IH. f_equal.
  destruct (fst s) as [d|]; [|reflexivity]. cbn [filter snd]. destruct (p (snd s)); reflexivity.
Qed.


(* ------------------------------------------------------------------ index = rebuild_from store (extensionally) *)
(* two indexes answer every lookup the compiler can make identically *)
Definition lookups_agree (a b : index) : Prop :=
  forall j : nat,
    bm_mem j (alive a) = bm_mem j (alive b)
    /\ (forall k v, bm_mem j (get2 str_eqb str_eqb k v (by_kv a)) = bm_mem j (get2 str_eqb str_eqb k v (by_kv b)))
    /\ (forall k v, bm_mem j (get2 str_eqb str_eqb k v (by_lex a)) = bm_mem j (get2 str_eqb str_eqb k v (by_lex b)))
    /\ (forall k z, bm_mem j (get2 str_eqb Z.eqb k z (by_num a)) = bm_mem j (get2 str_eqb Z.eqb k z (by_num b)))
    /\ (forall k, bm_mem j (get1 str_eqb k (numdocs a)) = bm_mem j (get1 str_eqb k (numdocs b))).

Theorem index_consistent : forall s, reachable s -> lookups_agree (idx s) (rebuild_from parse (slots s)).
Proof.
  intros s R. destruct (reachable_good s R) as [HI _].
  assert (E : forall q j, qmem (idx s) q j = qmem (rebuild_from parse (slots s)) q j).
  { intros q j. rewrite (HI q j). symmetry. apply Inv_rebuild. }
  intro j. repeat split.
  - exact (E QAlive j).
  - intros k v. exact (E (QKV k v) j).
  - intros k v. exact (E (QLex k v) j).
  - intros k z. exact (E (QNum k z) j).
  - intros k. exact (E (QNd k) j).
Qed.

(* the postings are exactly what the store says (the invariant itself, in store terms) *)
Theorem index_postings : forall s, reachable s -> forall j,
  (bm_mem j (alive (idx s)) = live_at j (slots s))
  /\ (forall k v, bm_mem j (bitmap_for_exact (idx s) k v) = true <->
                  live_at j (slots s) = true /\ mget k (meta_at j (slots s)) = Some v).
Proof.
  intros s R j. destruct (reachable_good s R) as [HI [HW _]]. split.
  - pose proof (HI QAlive j) as H. cbn [qmem] in H. rewrite H. unfold Sem. cbn [qdoc]. apply andb_true_r.
  - intros k v. unfold bitmap_for_exact. pose proof (HI (QKV k v) j) as H. cbn [qmem] in H. rewrite H.
    unfold Sem. cbn [qdoc].
    assert (Hx : existsb (qpair (QKV k v)) (meta_at j (slots s))
                 = match mget k (meta_at j (slots s)) with Some x => str_eqb x v | None => false end)
      by exact (wf_existsb_mget k (qval (QKV k v)) _ (HW j)).
    rewrite Hx.
    rewrite andb_true_iff. split; intros [A B]; (split; [exact A|]).
    + destruct (mget k (meta_at j (slots s))) as [x|]; [|discriminate].
      destruct (str_eqb_spec x v); [congruence|discriminate].
    + rewrite B. apply str_eqb_refl.
Qed.

(* ------------------------------------------------------------------ filtered batch delete is exact *)
Lemma nsorted_insert_In : forall x y l, In y (nsorted_insert x l) <-> y = x \/ In y l.
Proof.
  intros x y l. induction l as [|z l IH]; cbn [nsorted_insert].
  - cbn. intuition.
  - destruct (N.ltb x z); [cbn; intuition|]. destruct (N.eqb_spec x z) as [->|Hn]; cbn [In].
    + intuition.
    + rewrite IH. intuition.
Qed.

Lemma sort_dedup_In : forall y l, In y (sort_dedup l) <-> In y l.
Proof.
  intros y l. unfold sort_dedup. induction l as [|x l IH]; cbn [fold_right]; [reflexivity|].
  rewrite nsorted_insert_In, IH. cbn. intuition.
Qed.

Lemma In_live_docs : forall sl d m, In (d, m) (live_docs sl) <-> exists j, slot_at j sl = (Some d, m).
Proof.
  intros sl d m. unfold live_docs. rewrite in_flat_map. split.
  - intros [s [Hs Hd]]. destruct (In_nth sl s ((None, []) : slot) Hs) as [j [Hj E]].
    exists j. unfold slot_at. rewrite E. destruct s as [[e|] m']; cbn [fst snd] in Hd; [|destruct Hd].
    destruct Hd as [Hd|[]]. congruence.
  - intros [j H]. exists (slot_at j sl). split.
    + unfold slot_at. apply nth_In. apply (ext_at_lt j sl d). unfold ext_at. rewrite H. reflexivity.
    + rewrite H. cbn [fst snd]. left. reflexivity.
Qed.

Definition hit (deletes : list (N * nat * meta)) (j : nat) : bool :=
  existsb (fun e => snd (fst e) =? j) deletes.

Lemma bd_both_fst : forall acc d i old,
  fst (bd_both acc (d, i, old))
  = match ext_at i (fst acc) with
    | Some d' => if N.eqb d' d then tombstone i (fst acc) else fst acc
    | None => fst acc
    end.
Proof.
  intros. unfold bd_both. destruct (ext_at i (fst acc)) as [d'|]; [|reflexivity].
  destruct (N.eqb d' d); reflexivity.
Qed.

Lemma bd_both_slots : forall deletes acc, Forall (pend_ok (fst acc)) deletes ->
  forall j, slot_at j (fst (fold_left bd_both deletes acc))
            = if hit deletes j then (None, []) else slot_at j (fst acc).
Proof.
  induction deletes as [|[[d i] old] deletes IH]; intros acc HP j; cbn [fold_left hit existsb]; [reflexivity|].
  inversion HP as [|? ? Hp HP']; subst. cbn [fst snd].
  assert (Hstep : forall x, slot_at x (fst (bd_both acc (d, i, old)))
                            = if i =? x then (None, []) else slot_at x (fst acc)).
  { intro x. rewrite bd_both_fst. destruct (ext_at i (fst acc)) as [d'|] eqn:E.
    - destruct (N.eqb_spec d' d) as [->|Hn].
      + unfold tombstone. rewrite slot_at_set_nth. destruct (Nat.eqb_spec i x) as [->|Hx]; cbn [andb]; [|reflexivity].
        destruct (Nat.ltb_spec x (length (fst acc))); [reflexivity|].
        apply slot_at_beyond. assumption.
      + destruct Hp as [[He _]|Hs]; [congruence|]. unfold ext_at in E. rewrite Hs in E. discriminate.
    - destruct (Nat.eqb_spec i x) as [->|Hx]; [|reflexivity].
      destruct Hp as [[He _]|Hs]; [congruence|exact Hs]. }
  rewrite IH.
  - fold (hit deletes j). rewrite Hstep. destruct (i =? j), (hit deletes j); reflexivity.
  - rewrite bd_both_fst. destruct (ext_at i (fst acc)) as [d'|]; [|exact HP'].
    destruct (N.eqb d' d); [|exact HP'].
    eapply Forall_impl; [|exact HP']. intros e He. apply pend_ok_tombstone, He.
Qed.

Lemma hit_collect : forall sl ids j, UL sl ->
  (hit (bd_collect sl ids) j = true <-> exists d, In d ids /\ ext_at j sl = Some d).
Proof.
  intros sl ids j U. unfold hit. rewrite existsb_exists. split.
  - intros [e [He Hj]]. unfold bd_collect in He. apply in_flat_map in He. destruct He as [d [Hd He]].
    destruct (find_live d sl) as [i|] eqn:F; [|destruct He].
    destruct (ext_at i sl) eqn:E; [|destruct He]. destruct He as [<-|[]]. cbn [fst snd] in Hj.
    apply Nat.eqb_eq in Hj. subst i. exists d. split; [exact Hd|apply find_live_some, F].
  - intros [d [Hd He]]. exists (d, j, meta_at j sl). split.
    + unfold bd_collect. apply in_flat_map. exists d. split; [exact Hd|].
      rewrite (proj2 (find_live_iff d sl j U) He), He. left. reflexivity.
    + cbn [fst snd]. apply Nat.eqb_refl.
Qed.

Theorem batch_delete_exact : forall s ids, Good s ->
  forall d m, In (d, m) (live_docs (slots (fst (do_batch_delete parse s ids))))
              <-> In (d, m) (live_docs (slots s)) /\ ~ In d ids.
Proof.
  intros s ids [HI [HW HU]] d m. rewrite batch_delete_as_both. cbn [slots].
  rewrite !In_live_docs.
  pose proof (bd_both_slots (bd_collect (slots s) ids) (slots s, idx s) (bd_collect_pend _ _)) as HS.
  cbn [fst] in HS. split.
  - intros [j Hj]. rewrite HS in Hj. destruct (hit (bd_collect (slots s) ids) j) eqn:Eh; [discriminate|].
    split; [exists j; exact Hj|]. intro Hin.
    assert (hit (bd_collect (slots s) ids) j = true); [|congruence].
    apply hit_collect; [exact HU|]. exists d. split; [exact Hin|]. unfold ext_at. rewrite Hj. reflexivity.
  - intros [[j Hj] Hnin]. exists j. rewrite HS.
    destruct (hit (bd_collect (slots s) ids) j) eqn:Eh; [|exact Hj]. exfalso.
    apply hit_collect in Eh; [|exact HU]. destruct Eh as [d' [Hd' He]].
    unfold ext_at in He. rewrite Hj in He. cbn [fst] in He. congruence.
Qed.

Theorem batch_delete_filter_exact : forall s f, Good s ->
  forall d m, In (d, m) (live_docs (slots (fst (do_batch_delete_filter parse s f))))
              <-> In (d, m) (live_docs (slots s)) /\ matches parse f m = false.
Proof.
  intros s f G d m. unfold do_batch_delete_filter. rewrite (batch_delete_exact s _ G).
  rewrite sort_dedup_In, (ids_for_filter_exact s f G), In_scan.
  destruct G as [HI [HW HU]]. rewrite In_live_docs. split.
  - intros [[j Hj] Hn]. split; [exists j; exact Hj|].
    destruct (matches parse f m) eqn:Em; [|reflexivity]. exfalso. apply Hn. exists j.
    unfold ext_at, meta_at. rewrite Hj. split; [reflexivity|exact Em].
  - intros [[j Hj] Hm]. split; [exists j; exact Hj|]. intros [j' [He Hp]].
    assert (j' = j).
    { apply (HU j' j d He). unfold ext_at. rewrite Hj. reflexivity. }
    subst j'. unfold meta_at in Hp. rewrite Hj in Hp. cbn [snd] in Hp. congruence.
Qed.

(* the ids come out without repetition *)
Lemma NoDup_flat_map_opt : forall (g : nat -> option N) l, NoDup l ->
  (forall a b d, In a l -> In b l -> g a = Some d -> g b = Some d -> a = b) ->
  NoDup (flat_map (fun i => match g i with Some d => [d] | None => [] end) l).
Proof.
  intros g l ND. induction ND as [|x l Hx ND IH]; intro Hinj; cbn [flat_map]; [constructor|].
  assert (IH' := IH (fun a b d Ha Hb => Hinj a b d (or_intror Ha) (or_intror Hb))).
  destruct (g x) as [d|] eqn:E; cbn [app]; [|exact IH'].
  constructor; [|exact IH']. intro Hin. apply in_flat_map in Hin. destruct Hin as [y [Hy Hd]].
  destruct (g y) as [d'|] eqn:Ey; [|destruct Hd]. destruct Hd as [->|[]].
  assert (x = y) by (apply (Hinj x y d); [left; reflexivity|right; exact Hy|exact E|exact Ey]).
  subst y. contradiction.
Qed.

Lemma scan_NoDup : forall sl p, UL sl -> NoDup (scan sl p).
Proof.
  intros sl p U. apply UL_iff in U. induction sl as [|s r IH]; [constructor|].
  cbn [scan flat_map live_ids] in *. fold (scan r p). fold (live_ids r) in U.
  destruct (fst s) as [d|] eqn:E; cbn [app] in *.
  - inversion U as [|? ? Hnin Ur]; subst. destruct (p (snd s)); cbn [app]; [|apply IH, Ur].
    constructor; [|apply IH, Ur]. intro Hin. apply Hnin. apply In_live_ids.
    apply In_scan in Hin. destruct Hin as [j [He _]]. exists j. exact He.
  - apply IH, U.
Qed.

Theorem ids_for_filter_NoDup : forall s f, Good s -> NoDup (ids_for_filter parse s f).
Proof.
  intros s f [HI [HW HU]]. unfold ids_for_filter. destruct (compile parse (idx s) f) as [b|].
  - unfold ids_of_bitmap. apply NoDup_flat_map_opt.
    + apply ascending_NoDup, bm_iter_asc.
    + intros a c d _ _ Ha Hc. exact (HU _ _ _ Ha Hc).
  - apply scan_NoDup, HU.
Qed.


(* ------------------------------------------------------------------ same list, same order *)
Lemma ascending_seq : forall n a, ascending (seq a n).
Proof.
  induction n as [|n IH]; intro a; cbn [seq ascending]; [exact I|]. split; [|apply IH].
  intros y Hy. apply in_seq in Hy. lia.
Qed.

Lemma ascending_filter : forall (P : nat -> bool) l, ascending l -> ascending (filter P l).
Proof.
  intros P l. induction l as [|x l IH]; intro H; [exact I|]. destruct H as [Hx Hl]. cbn [filter].
  destruct (P x); [|apply IH, Hl]. split; [|apply IH, Hl].
  intros y Hy. apply filter_In in Hy. apply Hx, Hy.
Qed.

Lemma flat_map_filter : forall {A B} (g : A -> list B) (P : A -> bool) l,
  flat_map g (filter P l) = flat_map (fun i => if P i then g i else []) l.
Proof.
  intros A B g P l. induction l as [|x l IH]; [reflexivity|]. cbn [filter flat_map].
  destruct (P x); cbn [flat_map app]; rewrite IH; reflexivity.
Qed.

Lemma flat_map_ext_in : forall {A B} (g h : A -> list B) l,
  (forall x, In x l -> g x = h x) -> flat_map g l = flat_map h l.
Proof.
  intros A B g h l H. induction l as [|x l IH]; [reflexivity|]. cbn [flat_map].
  rewrite (H x (or_introl eq_refl)), IH; [reflexivity|]. intros y Hy. apply H. right. exact Hy.
Qed.

Lemma scan_seq : forall sl p,
  scan sl p = flat_map (fun i => match ext_at i sl with
                                 | Some d => if p (meta_at i sl) then [d] else []
                                 | None => []
                                 end) (seq 0 (length sl)).
Proof.
  intros sl p. induction sl as [|x sl IH] using rev_ind; [reflexivity|].
  assert (Happ : scan (sl ++ [x]) p = scan sl p ++ scan [x] p) by apply flat_map_app.
  rewrite Happ, IH.
  rewrite app_length. cbn [length]. rewrite Nat.add_1_r, seq_S, flat_map_app. cbn [plus]. f_equal.
  - apply flat_map_ext_in. intros i Hi. apply in_seq in Hi. unfold ext_at, meta_at.
    rewrite slot_at_app_l by lia. reflexivity.
  - cbn [flat_map scan]. unfold ext_at, meta_at. rewrite slot_at_app_last. reflexivity.
Qed.

Theorem ids_for_filter_eq_scan : forall s f, Good s ->
  ids_for_filter parse s f = scan (slots s) (matches parse f).
Proof.
  intros s f [HI [HW HU]]. unfold ids_for_filter.
  destruct (compile parse (idx s) f) as [b|] eqn:E; [|reflexivity].
  set (b' := bm_and b (alive (idx s))).
  assert (Hlive : forall i, bm_mem i b' = true -> live_at i (slots s) = true).
  { intros i Hi. unfold b' in Hi. rewrite bm_mem_and in Hi. apply andb_true_iff in Hi.
    destruct Hi as [_ Ha]. pose proof (HI QAlive i) as Hq. cbn [qmem] in Hq. rewrite Hq in Ha.
    unfold Sem in Ha. apply andb_true_iff in Ha. apply Ha. }
  assert (Hiter : bm_iter b' = filter (fun i => bm_mem i b') (seq 0 (length (slots s)))).
  { apply ascending_ext; [apply bm_iter_asc|apply ascending_filter, ascending_seq|].
    intro x. rewrite bm_iter_In, filter_In, in_seq. split; [|tauto].
    intro Hx. split; [|exact Hx]. split; [lia|]. cbn [plus].
    apply Hlive, live_at_ext in Hx. destruct Hx as [d Hd]. eapply ext_at_lt. exact Hd. }
  unfold ids_of_bitmap. fold b'. rewrite Hiter, flat_map_filter, scan_seq.
  apply flat_map_ext_in. intros i _.
  destruct (ext_at i (slots s)) as [d|] eqn:Ee.
  - assert (HL : live_at i (slots s) = true) by (apply live_at_ext; exists d; exact Ee).
    unfold b'. rewrite bm_mem_and, (compile_sound _ _ HI HW f b E i HL), (look_alive _ _ i HI HL).
    rewrite andb_true_r. reflexivity.
  - destruct (bm_mem i b'); reflexivity.
Qed.

(* ------------------------------------------------------------------ statements used by Properties/C11.v *)
Theorem filter_exact : forall s f, reachable s ->
  (forall d, In d (ids_for_filter parse s f)
             <-> In d (map fst (filter (fun dm => matches parse f (snd dm)) (live_docs (slots s)))))
  /\ NoDup (ids_for_filter parse s f).
Proof.
  intros s f R. pose proof (reachable_good s R) as G. split.
  - intro d. rewrite <- scan_live_docs. apply ids_for_filter_exact, G.
  - apply ids_for_filter_NoDup, G.
Qed.

(* the scan fallback and the index path can be exchanged freely *)
Theorem filter_exact_scan : forall s f, reachable s ->
  forall d, In d (ids_for_filter parse s f) <-> In d (scan (slots s) (matches parse f)).
Proof. intros s f R. apply ids_for_filter_exact, reachable_good, R. Qed.

Theorem filter_exact_ordered : forall s f, reachable s ->
  ids_for_filter parse s f = map fst (filter (fun dm => matches parse f (snd dm)) (live_docs (slots s))).
Proof. intros s f R. rewrite <- scan_live_docs. apply ids_for_filter_eq_scan, reachable_good, R. Qed.

Theorem batch_delete_filter_step_exact : forall s f, reachable s ->
  forall d m, In (d, m) (live_docs (slots (fst (step parse s (OBatchDeleteFilter f)))))
              <-> In (d, m) (live_docs (slots s)) /\ matches parse f m = false.
Proof. intros s f R. cbn [step fst]. apply batch_delete_filter_exact, reachable_good, R. Qed.

Theorem batch_delete_ids_step_exact : forall s ids, reachable s ->
  forall d m, In (d, m) (live_docs (slots (fst (step parse s (OBatchDelete ids)))))
              <-> In (d, m) (live_docs (slots s)) /\ ~ In d ids.
Proof. intros s ids R. cbn [step fst]. apply batch_delete_exact, reachable_good, R. Qed.

Theorem reachable_step : forall s o, reachable s -> reachable (fst (step parse s o)).
Proof.
  intros s o [c [ops ->]]. exists c, (ops ++ [o]). unfold run_state. rewrite fold_left_app. reflexivity.
Qed.

End WithParse.

(* OrderedF64::from_f64 is order-isomorphic to the IEEE comparison on non-NaN values (after -0 canonicalisation) *)
Theorem okey_order : forall a b, (0 <= a < two64)%Z -> (0 <= b < two64)%Z ->
  f64_is_nan a = false -> f64_is_nan b = false ->
  (okey a <=? okey b)%Z = f64_le a b /\ (okey a <? okey b)%Z = f64_lt a b
  /\ ((okey a =? okey b)%Z = f64_eq a b).
Proof.
  intros a b Ha Hb Na Nb. split; [apply okey_le; assumption|]. split; [apply okey_lt; assumption|].
  unfold f64_eq, f64_ord. rewrite Na, Nb. cbn [negb andb].
  rewrite (okey_sval a Ha Na), (okey_sval b Hb Nb).
  destruct (Z.ltb_spec (f64_sval a) 0), (Z.ltb_spec (f64_sval b) 0),
           (Z.eqb_spec (f64_sval a) (f64_sval b));
    first [apply Z.eqb_eq | apply Z.eqb_neq]; unfold two63; lia.
Qed.
