(* C17 — proofs over the models REGENERATED from /repo on every run (gen/Simd_gen.v, gen/Packed_gen.v,
   gen/Guards_gen.v) and over the hand model of the search loops (Model/Packed.v). *)
From Coq Require Import NArith List Lia ZArith String Bool.
From Kyro Require Import Model.Strided Model.PackedBase Proofs.StridedProofs gen.Simd_gen gen.Packed_gen.
Import ListNotations.
Open Scope N_scope.

(* ------------------------------------------------------------------------------------------ *)
(* 1. SIMD kernels: every access of every generated kernel lies inside [0, len), for every len *)
(* ------------------------------------------------------------------------------------------ *)

Ltac solve_kernel :=
  unfold accesses; cbn [snd];
  match goal with |- Forall _ (?f _) => unfold f end;
  solve [solve_accesses].

Theorem simd_in_bounds : forall k len, In k Simd_gen.kernels -> Forall (in_bounds len) (accesses k len).
Proof.
  intros k len Hin. unfold Simd_gen.kernels in Hin. cbn [In] in Hin.
  repeat (destruct Hin as [<- | Hin]; [solve_kernel |]).
  contradiction.
Qed.

(* the statement in the shape of DESIGN.md *)
Theorem simd_in_bounds' : forall kernel len, In kernel Simd_gen.kernels ->
  Forall (fun '(o, w) => o + w <= len) (accesses kernel len).
Proof.
  intros k len Hin. pose proof (simd_in_bounds k len Hin) as H.
  eapply Forall_impl; [|exact H]. intros [o w]. unfold in_bounds. auto.
Qed.

(* vector stores into the fixed-size local arrays ([0.0f32; W]) stay inside them *)
Theorem simd_local_stores_ok : forall name f len, In (name, f) Simd_gen.local_stores ->
  forallb local_ok (f len) = true.
Proof.
  intros name f len Hin. unfold Simd_gen.local_stores in Hin. cbn [In] in Hin.
  repeat (destruct Hin as [Heq | Hin];
          [injection Heq as _ <-;
           match goal with |- forallb _ (?g _) = true => unfold g end; cbv zeta; reflexivity |]).
  contradiction.
Qed.

Theorem simd_dispatch_ok : Simd_gen.dispatch_features_ok = true.
Proof. reflexivity. Qed.
