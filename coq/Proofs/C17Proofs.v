(* C17 — proofs over the models REGENERATED from /repo on every run (gen/Simd_gen.v, gen/Packed_gen.v,
   gen/Guards_gen.v) and over the hand model of the search loops (Model/Packed.v). *)
From Coq Require Import NArith List Lia ZArith String Bool.
From Kyro Require Import Model.Strided Model.PackedBase Proofs.StridedProofs gen.Simd_gen gen.Packed_gen gen.Guards_gen Model.Packed.
Import ListNotations.
Open Scope N_scope.

(* ------------------------------------------------------------------------------------------ *)
(* 1. SIMD kernels: every access of every generated kernel lies inside [0, len), for every len *)
(* ------------------------------------------------------------------------------------------ *)

Ltac solve_kernel :=
  unfold accesses; cbn [snd];
  match goal with |- Forall _ (?f _) => unfold f end;
  solve [solve_accesses].

Theorem simd_in_bounds : forall k len, In k Simd_gen.kernels -> Forall (in_bounds len) (accesses k len).
Proof.
  intros k len Hin. unfold Simd_gen.kernels in Hin. cbn [In] in Hin.
  repeat (destruct Hin as [<- | Hin]; [solve_kernel |]).
  contradiction.
Qed.

(* the statement in the shape of DESIGN.md *)
Theorem simd_in_bounds' : forall kernel len, In kernel Simd_gen.kernels ->
  Forall (fun '(o, w) => o + w <= len) (accesses kernel len).
Proof.
  intros k len Hin. pose proof (simd_in_bounds k len Hin) as H.
  eapply Forall_impl; [|exact H]. intros [o w]. unfold in_bounds. auto.
Qed.

(* vector stores into the fixed-size local arrays ([0.0f32; W]) stay inside them *)
Theorem simd_local_stores_ok : forall name f len, In (name, f) Simd_gen.local_stores ->
  forallb local_ok (f len) = true.
Proof.
  intros name f len Hin. unfold Simd_gen.local_stores in Hin. cbn [In] in Hin.
  repeat (destruct Hin as [Heq | Hin];
          [injection Heq as _ <-;
           match goal with |- forallb _ (?g _) = true => unfold g end; cbv zeta; reflexivity |]).
  contradiction.
Qed.

Theorem simd_dispatch_ok : Simd_gen.dispatch_features_ok = true.
Proof. reflexivity. Qed.

(* ------------------------------------------------------------------------------------------ *)
(* 2. PackedLevel0 / FlatSearchScratch index formulas (over gen/Packed_gen.v)                  *)
(* ------------------------------------------------------------------------------------------ *)

(* representation invariant of PackedLevel0 with n records *)
Definition pl0_wf (s : PackedLevel0) (n : N) : Prop :=
  PackedLevel0_data_len s = n * PackedLevel0_record_words s /\
  PackedLevel0_vector_offset_words s = 1 + PackedLevel0_cap s /\
  PackedLevel0_vector_offset_words s + PackedLevel0_dimension s <= PackedLevel0_record_words s.

Lemma rec_le d n rw : d < n -> d * rw + rw <= n * rw.
Proof. intros H. nia. Qed.

Lemma div_ceil_mul_ge a b : 0 < b -> a <= div_ceil a b * b.
Proof.
  intros Hb. unfold div_ceil. pose proof (N.div_mod a b ltac:(lia)) as Hd.
  pose proof (N.mod_lt a b ltac:(lia)) as Hm.
  destruct (a mod b =? 0) eqn:E.
  - apply N.eqb_eq in E. nia.
  - nia.
Qed.

Lemma pl0_new_wf cap dim : pl0_wf (PackedLevel0_new cap dim) 0.
Proof.
  unfold pl0_wf, PackedLevel0_new. cbn.
  repeat split; try lia.
  apply div_ceil_mul_ge. lia.
Qed.

Lemma pl0_rw_pos s n : pl0_wf s n -> 0 < PackedLevel0_record_words s.
Proof. intros (_ & H1 & H2). lia. Qed.

Lemma pl0_len_val s n rd nd : pl0_wf s n -> PackedLevel0_len s rd nd = ([], s, Some n).
Proof.
  intros H. pose proof (pl0_rw_pos s n H) as Hp. destruct H as (H0 & _).
  unfold PackedLevel0_len. rewrite H0. rewrite N.div_mul by lia. reflexivity.
Qed.

Ltac pacc_goal :=
  repeat match goal with
  | |- Forall _ (_ ++ _) => apply Forall_app; split
  | |- Forall _ (_ :: _) => constructor
  | |- Forall _ [] => constructor
  end.

Lemma pl0_count_unchecked_ok s n rd nd d : pl0_wf s n -> d < n ->
  Forall (fun a => pacc_ok a = true) (m_accs (PackedLevel0_count_unchecked s rd nd d)) /\
  exists c, m_val (PackedLevel0_count_unchecked s rd nd d) = Some c /\ c <= PackedLevel0_cap s.
Proof.
  intros H Hd. pose proof (rec_le d n (PackedLevel0_record_words s) Hd) as Hr.
  destruct H as (H0 & H1 & H2).
  unfold PackedLevel0_count_unchecked, m_pre, m_accs, m_val. cbn. split.
  - pacc_goal. unfold pacc_ok. cbn. apply N.leb_le. lia.
  - eexists. split; [reflexivity | lia].
Qed.

Lemma pl0_neighbor_unchecked_ok s n rd nd d idx : pl0_wf s n -> d < n -> idx < PackedLevel0_cap s ->
  Forall (fun a => pacc_ok a = true) (m_accs (PackedLevel0_neighbor_unchecked s rd nd d idx)).
Proof.
  intros H Hd Hi. pose proof (rec_le d n (PackedLevel0_record_words s) Hd) as Hr.
  destruct H as (H0 & H1 & H2).
  unfold PackedLevel0_neighbor_unchecked, m_pre, m_accs. cbn.
  pacc_goal. unfold pacc_ok. cbn. apply N.leb_le. lia.
Qed.

Lemma pl0_vector_at_unchecked_ok s n rd nd d : pl0_wf s n -> d < n ->
  Forall (fun a => pacc_ok a = true) (m_accs (PackedLevel0_vector_at_unchecked s rd nd d)) /\
  In (mk_pacc true arr_PackedLevel0_data
        (d * PackedLevel0_record_words s + PackedLevel0_vector_offset_words s) (PackedLevel0_dimension s) (PackedLevel0_data_len s))
     (m_accs (PackedLevel0_vector_at_unchecked s rd nd d)).
Proof.
  intros H Hd. pose proof (rec_le d n (PackedLevel0_record_words s) Hd) as Hr.
  destruct H as (H0 & H1 & H2).
  unfold PackedLevel0_vector_at_unchecked, m_pre, m_accs. cbn. split.
  - pacc_goal; unfold pacc_ok; cbn; apply N.leb_le; lia.
  - cbn. auto.
Qed.

Lemma pl0_record_ptr_ok s n rd nd d : pl0_wf s n -> d < n ->
  Forall (fun a => pacc_ok a = true) (m_accs (PackedLevel0_record_ptr s rd nd d)).
Proof.
  intros H Hd. pose proof (rec_le d n (PackedLevel0_record_words s) Hd) as Hr.
  destruct H as (H0 & H1 & H2).
  unfold PackedLevel0_record_ptr, m_pre, m_accs. cbn.
  pacc_goal; unfold pacc_ok; cbn; apply N.leb_le; lia.
Qed.

(* append: the invariant is preserved, every (checked) write of push_node is in bounds, so it does not panic,
   and the new node gets id n *)
Lemma pl0_push_node_ok s n rd nd e : pl0_wf s n ->
  let r := PackedLevel0_push_node s rd nd e in
  pl0_wf (m_state r) (n + 1) /\ Forall (fun a => pacc_ok a = true) (m_accs r) /\ m_val r = Some (as_u32 n).
Proof.
  intros H. pose proof (pl0_rw_pos s n H) as Hp. pose proof H as (H0 & H1 & H2).
  unfold PackedLevel0_push_node. rewrite (pl0_len_val s n rd nd H).
  cbv zeta. unfold m_pre at 1. cbn [app opt_or].
  set (s' := set_PackedLevel0_data_len s _).
  assert (Hl : PackedLevel0_data_len s' = (n + 1) * PackedLevel0_record_words s) by (subst s'; cbn; lia).
  assert (Hc : PackedLevel0_cap s' = PackedLevel0_cap s) by reflexivity.
  assert (Hv : PackedLevel0_vector_offset_words s' = PackedLevel0_vector_offset_words s) by reflexivity.
  assert (Hdm : PackedLevel0_dimension s' = PackedLevel0_dimension s) by reflexivity.
  assert (Hrw : PackedLevel0_record_words s' = PackedLevel0_record_words s) by reflexivity.
  rewrite !Hl, !Hc, !Hv, !Hdm.
  assert (E1 : (PackedLevel0_data_len s <? (n + 1) * PackedLevel0_record_words s) = true) by (apply N.ltb_lt; lia).
  rewrite E1.
  assert (E2 : ((PackedLevel0_data_len s + 1 <=? PackedLevel0_data_len s + 1 + PackedLevel0_cap s) &&
                (PackedLevel0_data_len s + 1 + PackedLevel0_cap s <=? (n + 1) * PackedLevel0_record_words s)) = true).
  { apply andb_true_intro. split; apply N.leb_le; lia. }
  rewrite E2.
  assert (E3 : ((PackedLevel0_data_len s + PackedLevel0_vector_offset_words s <=? PackedLevel0_data_len s + PackedLevel0_vector_offset_words s + PackedLevel0_dimension s) &&
                (PackedLevel0_data_len s + PackedLevel0_vector_offset_words s + PackedLevel0_dimension s <=? (n + 1) * PackedLevel0_record_words s)) = true).
  { apply andb_true_intro. split; apply N.leb_le; lia. }
  rewrite E3.
  unfold m_pre, m_state, m_accs, m_val. cbn [fst snd app].
  split; [|split].
  - unfold pl0_wf. rewrite Hl, Hc, Hv, Hdm, Hrw. repeat split; lia.
  - pacc_goal; unfold pacc_ok; cbn [pa_off pa_width pa_alen]; apply N.leb_le; lia.
  - reflexivity.
Qed.

(* checked twin of vector_at_unchecked: bounds-checked slice, then an UNCHECKED from_raw_parts of
   `dimension` words — safe under the invariant for EVERY dense_id (out of range => None, no access) *)
Lemma pl0_vector_at_safe s n rd nd d : pl0_wf s n ->
  Forall (fun a => pacc_safe a = true) (m_accs (PackedLevel0_vector_at s rd nd d)).
Proof.
  intros H. pose proof (pl0_rw_pos s n H) as Hp. pose proof H as (H0 & H1 & H2).
  unfold PackedLevel0_vector_at, PackedLevel0_node_start. rewrite (pl0_len_val s n rd nd H).
  cbv zeta. unfold m_pre at 2. cbn [app opt_or].
  destruct (n <=? d) eqn:E.
  - cbn. constructor.
  - apply N.leb_gt in E. pose proof (rec_le d n (PackedLevel0_record_words s) E) as Hr.
    unfold sat_mul.
    set (st := N.min _ _).
    assert (Hst : st <= d * PackedLevel0_record_words s) by (subst st; lia).
    unfold m_pre at 1. cbn [app].
    destruct ((st + PackedLevel0_vector_offset_words s <=? PackedLevel0_data_len s) && (PackedLevel0_data_len s <=? PackedLevel0_data_len s)) eqn:E2.
    + unfold m_pre, m_accs. cbn [fst snd app].
      pacc_goal; unfold pacc_safe, pacc_ok; cbn [pa_unchecked pa_off pa_width pa_alen negb orb]; try reflexivity.
      apply N.leb_le. lia.
    + unfold m_pre, m_accs. cbn [fst snd app]. pacc_goal. reflexivity.
Qed.

(* ---- visited bitset ---- *)
Lemma shiftr6 x : N.shiftr x 6 = x / 64.
Proof. rewrite N.shiftr_div_pow2. reflexivity. Qed.

Lemma prepare_len s rd nd nc t :
  (sat_add nc 63) / 64 <= FlatSearchScratch_visited_bits_len (m_state (FlatSearchScratch_prepare s rd nd nc t)).
Proof.
  unfold FlatSearchScratch_prepare. cbv zeta.
  destruct (FlatSearchScratch_visited_bits_len s <? sat_add nc 63 / 64) eqn:E; unfold m_state; cbn [fst snd].
  - cbn. lia.
  - apply N.ltb_ge in E. exact E.
Qed.

Lemma words_lt M nc d L : 4294967359 <= M -> (N.min (nc + 63) M) / 64 <= L -> d < nc -> d < 4294967296 -> d / 64 < L.
Proof. intros HM Hl Hd Hu. lia. Qed.
Lemma usize_big : 4294967359 <= usize_max.
Proof. apply N.leb_le. vm_compute. reflexivity. Qed.

Lemma mark_unchecked_ok s rd nd nc d :
  (sat_add nc 63) / 64 <= FlatSearchScratch_visited_bits_len s -> d < nc -> d < 4294967296 ->
  Forall (fun a => pacc_ok a = true) (m_accs (FlatSearchScratch_mark_if_unvisited_unchecked s rd nd d)) /\
  m_state (FlatSearchScratch_mark_if_unvisited_unchecked s rd nd d) = s.
Proof.
  intros Hl Hd Hu.
  pose proof (words_lt usize_max nc d _ usize_big Hl Hd Hu) as Hw.
  unfold FlatSearchScratch_mark_if_unvisited_unchecked. cbv zeta.
  rewrite shiftr6.
  destruct (negb _); unfold m_pre, m_accs, m_state; cbn [fst snd app]; split; try reflexivity;
    pacc_goal; unfold pacc_ok; cbn [pa_off pa_width pa_alen]; apply N.leb_le; lia.
Qed.

(* the checked mark never touches memory out of range, whatever the id *)
Lemma mark_visited_safe s rd nd d :
  Forall (fun a => pacc_safe a = true) (m_accs (FlatSearchScratch_mark_visited s rd nd d)) /\
  m_state (FlatSearchScratch_mark_visited s rd nd d) = s.
Proof.
  unfold FlatSearchScratch_mark_visited. cbv zeta.
  repeat match goal with |- context [if ?c then _ else _] => destruct c end;
    unfold m_pre, m_accs, m_state; cbn [fst snd app]; split; try reflexivity;
    pacc_goal; reflexivity.
Qed.

(* ------------------------------------------------------------------------------------------ *)
(* 3. the search loops over an arbitrary array: only guarded ids reach an unchecked accessor    *)
(* ------------------------------------------------------------------------------------------ *)
Definition okl (w : world) (l : list N) : Prop := Forall (fun x => x < w_nc w) l.
Definition evs_ok (w : world) (l : list ev) : Prop := Forall (fun e => ev_okb w e = true) l.

Lemma evs_app w a b : evs_ok w a -> evs_ok w b -> evs_ok w (a ++ b).
Proof. intros. apply Forall_app. auto. Qed.
Lemma evs_cons w e l : ev_okb w e = true -> evs_ok w l -> evs_ok w (e :: l).
Proof. intros. constructor; auto. Qed.
Lemma evs_nil w : evs_ok w []. Proof. constructor. Qed.
#[local] Hint Resolve evs_app evs_cons evs_nil : ev.

(* the count read through the generated accessor is clamped by its `.min(self.cap)` *)
Lemma count_val_le w id : count_val w id <= PackedLevel0_cap (w_l0 w).
Proof. unfold count_val, PackedLevel0_count_unchecked, m_pre, m_val. cbn. lia. Qed.

Lemma prefetch_dense_ok w id : evs_ok w (prefetch_dense w id).
Proof.
  unfold prefetch_dense. destruct (w_nc w <=? id) eqn:E; [constructor|].
  apply N.leb_gt in E. repeat constructor. cbn. apply N.ltb_lt. exact E.
Qed.

Lemma nb_ok w cand idx : cand < w_nc w -> idx < PackedLevel0_cap (w_l0 w) -> ev_okb w (ENeighbor cand idx) = true.
Proof. intros. cbn. apply andb_true_intro. split; apply N.ltb_lt; assumption. Qed.

Lemma prefetch_level0_ok w o t cand count idx :
  cand < w_nc w -> count <= PackedLevel0_cap (w_l0 w) -> evs_ok w (prefetch_level0 w o t cand count idx).
Proof.
  intros Hc Hn. unfold prefetch_level0. apply evs_app.
  - destruct (idx + 1 <? count) eqn:E; [|constructor]. apply N.ltb_lt in E.
    apply evs_cons; [apply nb_ok; lia | apply prefetch_dense_ok].
  - destruct (o_hop2 o t idx && (idx + 2 <? count)) eqn:E; [|constructor].
    apply andb_prop in E. destruct E as [_ E]. apply N.ltb_lt in E.
    apply evs_cons; [apply nb_ok; lia | apply prefetch_dense_ok].
Qed.

Lemma prefetch_list_ok w o t nbrs idx : evs_ok w (prefetch_list w o t nbrs idx).
Proof.
  unfold prefetch_list. apply evs_app.
  - destruct (nth_error nbrs (idx + 1)); [apply prefetch_dense_ok | constructor].
  - destruct (o_hop2 o t (N.of_nat idx)); [|constructor].
    destruct (nth_error nbrs (idx + 2)); [apply prefetch_dense_ok | constructor].
Qed.

Lemma visit_ok w o t nbr visited cands pushed :
  okl w cands -> okl w pushed ->
  let '(e, v, c, p) := visit w o t nbr visited cands pushed in
  evs_ok w e /\ okl w c /\ okl w p.
Proof.
  intros Hc Hp. unfold visit.
  destruct (w_nc w <=? nbr) eqn:E; [repeat split; auto; constructor|].
  apply N.leb_gt in E.
  assert (Hm : ev_okb w (EMark nbr) = true) by (cbn; apply N.ltb_lt; exact E).
  assert (Hv : ev_okb w (EVector nbr) = true) by (cbn; apply N.ltb_lt; exact E).
  destruct (memN nbr visited); [repeat split; auto; repeat constructor; auto|].
  destruct (o_push o t nbr); repeat split; auto; try (repeat constructor; auto; fail);
    constructor; auto.
Qed.

Lemma l0_nbrs_ok w o t cand count : cand < w_nc w -> count <= PackedLevel0_cap (w_l0 w) ->
  forall idxs visited cands pushed, Forall (fun i => i < count) idxs -> okl w cands -> okl w pushed ->
  let '(e, v, c, p) := l0_nbrs w o t cand count idxs visited cands pushed in
  evs_ok w e /\ okl w c /\ okl w p.
Proof.
  intros Hcand Hcount. induction idxs as [|idx rest IH]; intros visited cands pushed Hi Hc Hp; cbn [l0_nbrs].
  - repeat split; auto. constructor.
  - inversion Hi as [|? ? Hidx Hrest]; subst.
    destruct (o_istop o t idx); [repeat split; auto; constructor|].
    pose proof (visit_ok w o t (neighbor_val w cand idx) visited cands pushed Hc Hp) as Hv.
    destruct (visit w o t (neighbor_val w cand idx) visited cands pushed) as [[[e1 v1] c1] p1].
    destruct Hv as (He1 & Hc1 & Hp1).
    specialize (IH v1 c1 p1 Hrest Hc1 Hp1).
    destruct (l0_nbrs w o t cand count rest v1 c1 p1) as [[[e2 v2] c2] p2].
    destruct IH as (He2 & Hc2 & Hp2). repeat split; auto.
    apply evs_app; [apply prefetch_level0_ok; auto|].
    apply evs_cons; [apply nb_ok; lia|]. apply evs_app; auto.
Qed.

Lemma range_lt n : Forall (fun i => i < n) (range n).
Proof.
  unfold range. apply Forall_forall. intros x Hx. apply in_map_iff in Hx.
  destruct Hx as (k & <- & Hk). apply in_seq in Hk. lia.
Qed.

Lemma pick_in k l : l <> [] -> In (pick k l) l.
Proof.
  intros Hl. unfold pick. destruct (Nat.lt_ge_cases k (List.length l)) as [H|H].
  - apply nth_In. exact H.
  - rewrite nth_overflow by exact H. destruct l; [congruence | left; reflexivity].
Qed.

Lemma pick_ok w k l : 0 < w_nc w -> okl w l -> pick k l < w_nc w.
Proof.
  intros H0 Hl. destruct l as [|a l'].
  - unfold pick. cbn. destruct k; exact H0.
  - unfold okl in Hl. rewrite Forall_forall in Hl. apply Hl. apply pick_in. discriminate.
Qed.

Lemma remove_nth_ok w k : forall l, okl w l -> okl w (remove_nth k l).
Proof.
  induction k as [|k IH]; intros l Hl; destruct l as [|a l']; cbn; auto.
  - inversion Hl; auto.
  - inversion Hl; subst. constructor; auto. apply IH. auto.
Qed.

Lemma l0_loop_ok w o : 0 < w_nc w -> forall fuel visited cands pushed, okl w cands -> okl w pushed ->
  let '(e, p) := l0_loop w o fuel visited cands pushed in evs_ok w e /\ okl w p.
Proof.
  intros H0. induction fuel as [|f IH]; intros visited cands pushed Hc Hp; cbn [l0_loop].
  - split; auto. constructor.
  - destruct cands as [|c0 cs]; [split; auto; constructor|].
    set (cands := c0 :: cs) in *.
    destruct (o_stop o (S f)); [split; auto; constructor|].
    assert (Hcand : pick (o_pick o (S f) cands) cands < w_nc w) by (apply pick_ok; auto).
    pose proof (l0_nbrs_ok w o (S f) _ _ Hcand (count_val_le w _) (range (count_val w (pick (o_pick o (S f) cands) cands)))
                  visited (remove_nth (o_pick o (S f) cands) cands) pushed (range_lt _) (remove_nth_ok w _ _ Hc) Hp) as H1.
    destruct (l0_nbrs w o (S f) _ _ _ visited (remove_nth (o_pick o (S f) cands) cands) pushed) as [[[e1 v1] c1] p1].
    destruct H1 as (He1 & Hc1 & Hp1).
    specialize (IH v1 c1 p1 Hc1 Hp1). destruct (l0_loop w o f v1 c1 p1) as [e2 p2].
    destruct IH as (He2 & Hp2). split; auto.
    apply evs_cons; [cbn; apply N.ltb_lt; exact Hcand | apply evs_app; auto].
Qed.

Lemma search_layer0_ok w o fuel entry : 0 < w_nc w -> entry < w_nc w ->
  evs_ok w (fst (search_layer0 w o fuel entry)) /\ okl w (snd (search_layer0 w o fuel entry)).
Proof.
  intros H0 He. unfold search_layer0.
  assert (Hl : okl w [entry]) by (constructor; auto).
  pose proof (l0_loop_ok w o H0 fuel [entry] [entry] [entry] Hl Hl) as H.
  destruct (l0_loop w o fuel [entry] [entry] [entry]). exact H.
Qed.

Lemma up_nbrs_ok w o t all : forall nbrs idx visited cands pushed, okl w cands -> okl w pushed ->
  let '(e, v, c, p) := up_nbrs w o t all idx nbrs visited cands pushed in
  evs_ok w e /\ okl w c /\ okl w p.
Proof.
  induction nbrs as [|nbr rest IH]; intros idx visited cands pushed Hc Hp; cbn [up_nbrs].
  - repeat split; auto. constructor.
  - pose proof (visit_ok w o t nbr visited cands pushed Hc Hp) as Hv.
    destruct (visit w o t nbr visited cands pushed) as [[[e1 v1] c1] p1]. destruct Hv as (He1 & Hc1 & Hp1).
    specialize (IH (S idx) v1 c1 p1 Hc1 Hp1).
    destruct (up_nbrs w o t all (S idx) rest v1 c1 p1) as [[[e2 v2] c2] p2]. destruct IH as (He2 & Hc2 & Hp2).
    repeat split; auto. apply evs_app; [apply prefetch_list_ok|]. apply evs_app; auto.
Qed.

Lemma up_loop_ok w o : 0 < w_nc w -> forall fuel visited cands pushed, okl w cands -> okl w pushed ->
  let '(e, p) := up_loop w o fuel visited cands pushed in evs_ok w e /\ okl w p.
Proof.
  intros H0. induction fuel as [|f IH]; intros visited cands pushed Hc Hp; cbn [up_loop].
  - split; auto. constructor.
  - destruct cands as [|c0 cs]; [split; auto; constructor|].
    set (cands := c0 :: cs) in *.
    destruct (o_stop o (S f)); [split; auto; constructor|].
    pose proof (up_nbrs_ok w o (S f) (o_nbrs o (S f) (pick (o_pick o (S f) cands) cands)) (o_nbrs o (S f) (pick (o_pick o (S f) cands) cands)) 0%nat
                  visited (remove_nth (o_pick o (S f) cands) cands) pushed (remove_nth_ok w _ _ Hc) Hp) as H1.
    destruct (up_nbrs w o (S f) _ 0%nat _ visited (remove_nth (o_pick o (S f) cands) cands) pushed) as [[[e1 v1] c1] p1].
    destruct H1 as (He1 & Hc1 & Hp1).
    specialize (IH v1 c1 p1 Hc1 Hp1). destruct (up_loop w o f v1 c1 p1) as [e2 p2].
    destruct IH as (He2 & Hp2). split; auto. apply evs_app; auto.
Qed.

Lemma search_at_layer_ok w o fuel entry is0 : 0 < w_nc w -> entry < w_nc w ->
  evs_ok w (fst (search_at_layer w o fuel entry is0)) /\ okl w (snd (search_at_layer w o fuel entry is0)).
Proof.
  intros H0 He. unfold search_at_layer. destruct is0; [apply search_layer0_ok; auto|].
  assert (Hl : okl w [entry]) by (constructor; auto).
  pose proof (up_loop_ok w o H0 fuel [entry] [entry] [entry] Hl Hl) as H.
  destruct (up_loop w o fuel [entry] [entry] [entry]). exact H.
Qed.

Lemma greedy_nbrs_ok w o t all : forall nbrs idx current, current < w_nc w ->
  let '(e, c) := greedy_nbrs w o t all idx nbrs current in evs_ok w e /\ c < w_nc w.
Proof.
  induction nbrs as [|nbr rest IH]; intros idx current Hc; cbn [greedy_nbrs].
  - split; auto. constructor.
  - destruct (o_istop o t (N.of_nat idx)); [split; auto; constructor|].
    destruct (w_nc w <=? nbr) eqn:E.
    + specialize (IH (S idx) current Hc). destruct (greedy_nbrs w o t all (S idx) rest current) as [e c].
      destruct IH. split; auto. apply evs_app; [apply prefetch_list_ok | auto].
    + apply N.leb_gt in E.
      assert (Hc' : (if o_better o t nbr then nbr else current) < w_nc w) by (destruct (o_better o t nbr); auto).
      specialize (IH (S idx) _ Hc'). destruct (greedy_nbrs w o t all (S idx) rest _) as [e c].
      destruct IH. split; auto. apply evs_app; [apply prefetch_list_ok|].
      apply evs_cons; auto. cbn. apply N.ltb_lt. exact E.
Qed.

Lemma greedy_ok w o : forall fuel current, current < w_nc w ->
  let '(e, c) := greedy w o fuel current in evs_ok w e /\ c < w_nc w.
Proof.
  induction fuel as [|f IH]; intros current Hc; cbn [greedy].
  - split; auto. constructor.
  - destruct (o_stop o (S f)); [split; auto; constructor|].
    pose proof (greedy_nbrs_ok w o (S f) (o_nbrs o (S f) current) (o_nbrs o (S f) current) 0%nat current Hc) as H1.
    destruct (greedy_nbrs w o (S f) _ 0%nat _ current) as [e1 c1]. destruct H1 as (He1 & Hc1).
    specialize (IH c1 Hc1). destruct (greedy w o f c1) as [e2 c2]. destruct IH. split; auto. apply evs_app; auto.
Qed.

Lemma clamp_ok w e0 : 0 < w_nc w -> clamp_entry w e0 < w_nc w.
Proof. intros H0. unfold clamp_entry. destruct (w_nc w <=? e0) eqn:E; [exact H0 | apply N.leb_gt in E; exact E]. Qed.

Lemma descend_ok w o fuel : forall layers entry, entry < w_nc w ->
  let '(e, c) := descend w o fuel layers entry in evs_ok w e /\ c < w_nc w.
Proof.
  induction layers as [|l IH]; intros entry He; cbn [descend].
  - split; auto. constructor.
  - pose proof (greedy_ok w o fuel entry He) as H1. destruct (greedy w o fuel entry) as [e1 c1]. destruct H1 as (He1 & Hc1).
    specialize (IH c1 Hc1). destruct (descend w o fuel l c1) as [e2 c2]. destruct IH. split; auto. apply evs_app; auto.
Qed.

Theorem search_fp32_guarded w o fuel layers e0 : 0 < w_nc w -> evs_ok w (search_fp32 w o fuel layers e0).
Proof.
  intros H0. unfold search_fp32.
  pose proof (descend_ok w o fuel layers _ (clamp_ok w e0 H0)) as H1.
  destruct (descend w o fuel layers (clamp_entry w e0)) as [e1 c1]. destruct H1 as (He1 & Hc1).
  apply evs_app; auto. apply search_layer0_ok; auto.
Qed.

Lemma insert_layers_ok w o fuel : 0 < w_nc w -> forall layers entry, entry < w_nc w -> evs_ok w (insert_layers w o fuel layers entry).
Proof.
  intros H0. induction layers as [|is0 rest IH]; intros entry He; cbn [insert_layers].
  - constructor.
  - pose proof (search_at_layer_ok w o fuel entry is0 H0 He) as H1.
    destruct (search_at_layer w o fuel entry is0) as [e1 pushed]. cbn [fst snd] in H1. destruct H1 as (He1 & Hp).
    apply evs_app; auto. apply IH. apply pick_ok; auto.
Qed.

Theorem insert_search_guarded w o fuel upper layers e0 : 0 < w_nc w -> evs_ok w (insert_search w o fuel upper layers e0).
Proof.
  intros H0. unfold insert_search.
  pose proof (descend_ok w o fuel upper _ (clamp_ok w e0 H0)) as H1.
  destruct (descend w o fuel upper (clamp_entry w e0)) as [e1 c1]. destruct H1 as (He1 & Hc1).
  apply evs_app; auto. apply insert_layers_ok; auto.
Qed.

Lemma sd_inner_ok w o t cand : cand < w_nc w -> forall sel, okl w sel -> evs_ok w (sd_inner o t cand sel).
Proof.
  intros Hc. induction sel as [|ch rest IH]; intros Hs; cbn [sd_inner]; [constructor|].
  inversion Hs; subst.
  apply evs_cons; [cbn; apply N.ltb_lt; auto|]. apply evs_cons; [cbn; apply N.ltb_lt; auto|].
  destruct (o_istop o t ch); [constructor | auto].
Qed.

Lemma sd_loop_ok w o t : forall cands sel, okl w sel ->
  let '(e, s) := sd_loop w o t cands sel in evs_ok w e /\ okl w s.
Proof.
  induction cands as [|cand rest IH]; intros sel Hs; cbn [sd_loop].
  - split; auto. constructor.
  - destruct (w_nc w <=? cand) eqn:E; [apply IH; auto|]. apply N.leb_gt in E.
    destruct (memN cand sel); [apply IH; auto|].
    assert (Hs' : okl w (if o_push o t cand then sel ++ [cand] else sel)).
    { destruct (o_push o t cand); auto. apply Forall_app. split; auto. }
    specialize (IH _ Hs'). destruct (sd_loop w o t rest _) as [e2 s2]. destruct IH. split; auto.
    apply evs_app; auto. apply sd_inner_ok; auto.
Qed.

Theorem select_diverse_guarded w o t cands : evs_ok w (fst (select_diverse w o t cands)).
Proof.
  unfold select_diverse. pose proof (sd_loop_ok w o t cands [] (Forall_nil _)) as H.
  destruct (sd_loop w o t cands []). apply H.
Qed.

Lemma mp_score_ok w target : target < w_nc w -> forall current,
  let '(e, kept) := mp_score w target current in evs_ok w e /\ okl w kept.
Proof.
  intros Ht. induction current as [|nbr rest IH]; cbn [mp_score].
  - split; constructor.
  - destruct (mp_score w target rest) as [e kept]. destruct IH as (He & Hk).
    destruct ((nbr =? target) || (w_nc w <=? nbr)) eqn:E; [split; auto|].
    apply orb_false_elim in E. destruct E as [_ E]. apply N.leb_gt in E.
    split; [|constructor; auto].
    apply evs_cons; [cbn; apply N.ltb_lt; auto|]. apply evs_cons; [cbn; apply N.ltb_lt; auto|]. auto.
Qed.

Theorem merge_prune_guarded w o t target incoming current : evs_ok w (merge_prune w o t target incoming current).
Proof.
  unfold merge_prune.
  destruct ((w_nc w <=? target) || (w_nc w <=? incoming) || (target =? incoming)) eqn:E; [constructor|].
  apply orb_false_elim in E. destruct E as [E _]. apply orb_false_elim in E. destruct E as [E1 E2].
  apply N.leb_gt in E1. apply N.leb_gt in E2.
  destruct (o_stop o t); [constructor|].
  pose proof (mp_score_ok w target E1 current) as H. destruct (mp_score w target current) as [e1 scored]. destruct H as (He1 & Hs).
  apply evs_app; auto. apply evs_app.
  - destruct (o_push o t incoming); [|constructor].
    apply evs_cons; [cbn; apply N.ltb_lt; auto|]. apply evs_cons; [cbn; apply N.ltb_lt; auto|]. constructor.
  - apply select_diverse_guarded.
Qed.

(* ---- from guarded events to in-bounds accesses of the regenerated accessors ---- *)
Lemma ev_accs_ok w sc n e :
  pl0_wf (w_l0 w) n -> w_nc w <= n -> w_nc w <= 4294967296 ->
  (sat_add (w_nc w) 63) / 64 <= FlatSearchScratch_visited_bits_len sc ->
  ev_okb w e = true -> Forall (fun a => pacc_ok a = true) (ev_accs w sc e).
Proof.
  intros Hwf Hn Hu Hsc He. destruct e as [id | id idx | id | id | id]; cbn [ev_okb] in He; cbn [ev_accs].
  - apply N.ltb_lt in He. apply (pl0_count_unchecked_ok _ n); auto. lia.
  - apply andb_prop in He. destruct He as [H1 H2]. apply N.ltb_lt in H1. apply N.ltb_lt in H2.
    apply (pl0_neighbor_unchecked_ok _ n); auto. lia.
  - apply N.ltb_lt in He. apply (pl0_vector_at_unchecked_ok _ n); auto. lia.
  - apply N.ltb_lt in He. apply (mark_unchecked_ok sc _ _ (w_nc w)); auto. lia.
  - apply N.ltb_lt in He. apply (pl0_record_ptr_ok _ n); auto. lia.
Qed.

Theorem guarded_trace_in_bounds w sc n evs :
  pl0_wf (w_l0 w) n -> w_nc w <= n -> w_nc w <= 4294967296 ->
  (sat_add (w_nc w) 63) / 64 <= FlatSearchScratch_visited_bits_len sc ->
  evs_ok w evs -> Forall (fun a => pacc_ok a = true) (flat_map (ev_accs w sc) evs).
Proof.
  intros Hwf Hn Hu Hsc He. induction evs as [|e rest IH]; cbn [flat_map]; [constructor|].
  inversion He; subst. apply Forall_app. split; [apply (ev_accs_ok w sc n); auto | apply IH; auto].
Qed.

(* the tie of the hand model to the source: every unsafe call site found in ann_backend.rs has a guard of a
   recognised kind, the sites are exactly the ones the model covers, and the two structural facts hold *)
Theorem guards_complete :
  Guards_gen.all_sites_guarded = true /\
  covers Guards_gen.site_pairs model_sites = true /\ covers model_sites Guards_gen.site_pairs = true /\
  Guards_gen.len_invariant_structure_ok = true /\ Guards_gen.dimension_guards_ok = true.
Proof. repeat split; vm_compute; reflexivity. Qed.
