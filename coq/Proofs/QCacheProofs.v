(* Proofs about Model/QCache.v (C07, and the size bound used by C20). *)
From Coq Require Import QArith Qminmax Qround Qabs List NArith ZArith Bool Arith Lqa Lia.
From Kyro Require Import Model.QCache.
Import ListNotations.
Open Scope Q_scope.

(* ========================================================================================== *)
(* 1. arithmetic                                                                               *)
(* ========================================================================================== *)

Lemma sqnn (x : Q) : 0 <= x * x.
Proof. nra. Qed.
Lemma sq_le_of (x y : Q) : 0 <= y -> x * x <= y * y -> x <= y.
Proof. intros. nra. Qed.
Lemma sq_lt_of (x y : Q) : 0 <= y -> x * x < y * y -> x < y.
Proof. intros. nra. Qed.
Lemma mul_le_l (c x y : Q) : 0 <= c -> x <= y -> c * x <= c * y.
Proof. intros. nra. Qed.
Lemma mul_lt_l (c x y : Q) : 0 < c -> x < y -> c * x < c * y.
Proof. intros. nra. Qed.
Lemma sq_mono (x y : Q) : 0 <= x -> x <= y -> x * x <= y * y.
Proof. intros. nra. Qed.
Lemma mul_le_mono (x y u v : Q) : 0 <= x -> 0 <= u -> x <= y -> u <= v -> x * u <= y * v.
Proof. intros. nra. Qed.
Lemma mul_nn (x y : Q) : 0 <= x -> 0 <= y -> 0 <= x * y.
Proof. intros. nra. Qed.
Lemma mul_pos (x y : Q) : 0 < x -> 0 < y -> 0 < x * y.
Proof. intros. nra. Qed.

Lemma Qleb_iff x y : Qleb x y = true <-> x <= y.
Proof. unfold Qleb. apply Qle_bool_iff. Qed.
Lemma Qleb_false x y : Qleb x y = false <-> y < x.
Proof.
  unfold Qleb. split; intro H.
  - apply Qnot_le_lt. intro Hc. apply Qle_bool_iff in Hc. congruence.
  - destruct (Qle_bool x y) eqn:E; [|reflexivity]. apply Qle_bool_iff in E. lra.
Qed.
Lemma Qltb_iff x y : Qltb x y = true <-> x < y.
Proof. unfold Qltb. rewrite negb_true_iff. apply Qleb_false. Qed.
Lemma Qltb_false x y : Qltb x y = false <-> y <= x.
Proof. unfold Qltb. rewrite negb_false_iff. apply Qleb_iff. Qed.

(* one induction step of Cauchy-Schwarz, in squared form *)
Lemma cs_step (a b s A B : Q) : 0 <= A -> 0 <= B -> s * s <= A * B ->
  (a * b + s) * (a * b + s) <= (a * a + A) * (b * b + B).
Proof.
  intros HA HB Hs.
  pose proof (sqnn (a*a*B - b*b*A)) as H1.
  pose proof (sqnn a) as Ha. pose proof (sqnn b) as Hb.
  assert (Hab : 0 <= 4*((a*a)*(b*b))) by (pose proof (sqnn (a*b)); lra).
  pose proof (mul_le_l _ _ _ Hab Hs) as H4.
  assert (H2: (2*a*b*s)*(2*a*b*s) <= (a*a*B + b*b*A)*(a*a*B + b*b*A)) by lra.
  assert (H3: 0 <= a*a*B + b*b*A).
  { pose proof (mul_le_l _ _ _ Ha HB). pose proof (mul_le_l _ _ _ Hb HA). lra. }
  pose proof (sq_le_of _ _ H3 H2). lra.
Qed.

Lemma pstrip_spec (a b : positive) :
  (Zpos a * Zpos (snd (pstrip a b)) = Zpos (fst (pstrip a b)) * Zpos b)%Z.
Proof.
  revert b. induction a as [a IH|a IH|]; intro b; try reflexivity.
  destruct b as [b|b|]; try reflexivity.
  cbn [pstrip]. specialize (IH b). lia.
Qed.

Lemma qnorm_correct (q : Q) : qnorm q == q.
Proof.
  destruct q as [n d]. unfold qnorm. cbn [Qnum Qden]. destruct n as [|a|a].
  - reflexivity.
  - pose proof (pstrip_spec a d) as H. destruct (pstrip a d) as [a' b']. cbn [fst snd] in H.
    unfold Qeq. cbn [Qnum Qden]. lia.
  - pose proof (pstrip_spec a d) as H. destruct (pstrip a d) as [a' b']. cbn [fst snd] in H.
    unfold Qeq. cbn [Qnum Qden]. lia.
Qed.

Lemma sumsq_nonneg (a : vec) : 0 <= sumsq a.
Proof. induction a as [|x a IH]; cbn [sumsq]; [lra|]. rewrite qnorm_correct. pose proof (sqnn x). lra. Qed.

(* Cauchy-Schwarz over lists of rationals: (sum a_i b_i)^2 <= (sum a_i^2)(sum b_i^2) *)
Lemma cauchy_schwarz (a b : vec) : dot a b * dot a b <= sumsq a * sumsq b.
Proof.
  revert b. induction a as [|x a IH]; intro b.
  - cbn [dot sumsq]. lra.
  - destruct b as [|y b].
    + cbn [dot]. change (sumsq []) with 0. lra.
    + cbn [dot sumsq]. rewrite !qnorm_correct. apply cs_step; [apply sumsq_nonneg|apply sumsq_nonneg|apply IH].
Qed.

Lemma dot_nil_r (a : vec) : dot a [] = 0.
Proof. destruct a; reflexivity. Qed.
Lemma l2sq_nil_r (a : vec) : l2sq a [] = 0.
Proof. destruct a; reflexivity. Qed.

Lemma dot_split (p : nat) (a b : vec) :
  dot a b == dot (firstn p a) (firstn p b) + dot (skipn p a) (skipn p b).
Proof.
  revert a b. induction p as [|p IH]; intros a b.
  - cbn [firstn skipn dot]. lra.
  - destruct a as [|x a]; [cbn [firstn skipn dot]; lra|].
    destruct b as [|y b]; [cbn [firstn skipn]; rewrite !dot_nil_r; lra|].
    cbn [firstn skipn dot]. rewrite !qnorm_correct. rewrite (IH a b). lra.
Qed.

Lemma l2sq_nonneg (a b : vec) : 0 <= l2sq a b.
Proof.
  revert b. induction a as [|x a IH]; intro b; [cbn [l2sq]; lra|].
  destruct b as [|y b]; cbn [l2sq]; [lra|]. rewrite qnorm_correct. pose proof (sqnn (x - y)). pose proof (IH b). lra.
Qed.

Lemma l2sq_prefix_le (p : nat) (a b : vec) : l2sq (firstn p a) (firstn p b) <= l2sq a b.
Proof.
  revert a b. induction p as [|p IH]; intros a b.
  - cbn [firstn l2sq]. apply l2sq_nonneg.
  - destruct a as [|x a]; [cbn [firstn l2sq]; lra|].
    destruct b as [|y b]; [cbn [firstn]; rewrite !l2sq_nil_r; lra|].
    cbn [firstn l2sq]. rewrite !qnorm_correct. pose proof (IH a b). lra.
Qed.

(* ---- the four surd cases of the cosine prefilter and the inner-product case ---- *)

(* T > 0, P >= 0:  not (P + sqrt a >= T sqrt b)  and  td <= sqrt a   ==>   P + td < T sqrt b *)
Lemma surd_case_A (P a T b td : Q) :
  0 <= P -> td * td <= a ->
  0 < T * T * b - a - P * P ->
  4 * (P * P) * a < (T * T * b - a - P * P) * (T * T * b - a - P * P) ->
  (P + td) * (P + td) < T * T * b.
Proof.
  intros HP Htd HR Hsq. set (R := T * T * b - a - P * P) in *.
  assert (Hu : (2 * P * td) * (2 * P * td) < R * R).
  { assert (0 <= 4 * (P * P)) by (pose proof (sqnn P); lra).
    pose proof (mul_le_l _ _ _ H Htd). lra. }
  assert (2 * P * td < R) by (apply sq_lt_of; lra).
  unfold R in *. lra.
Qed.

(* T > 0, P < 0 *)
Lemma surd_case_B (P a T b td : Q) :
  P < 0 -> 0 <= b -> td * td <= a ->
  (a - T * T * b - P * P < 0 \/
   (a - T * T * b - P * P) * (a - T * T * b - P * P) < 4 * (T * T) * (P * P) * b) ->
  P + td < 0 \/ (P + td) * (P + td) < T * T * b.
Proof.
  intros HP Hb Htd Hc. set (d := P + td).
  destruct (Qlt_le_dec d 0) as [Hd|Hd]; [left; exact Hd|].
  destruct (Qlt_le_dec (d * d) (T * T * b)) as [Hdd|Hdd]; [right; exact Hdd|].
  exfalso.
  assert (Etd : td == d - P) by (unfold d; lra).
  assert (Htd2 : td * td == d * d - 2 * P * d + P * P) by (rewrite Etd; lra).
  assert (Hpd : 0 <= - P * d) by (apply mul_nn; lra).
  set (L := a - T * T * b - P * P) in *.
  assert (HL : 2 * (- P * d) <= L) by (unfold L; lra).
  destruct Hc as [Hc|Hc]; [lra|].
  assert (H1 : (2 * (- P * d)) * (2 * (- P * d)) <= L * L) by (apply sq_mono; lra).
  assert (H2 : (P * P) * (T * T * b) <= (P * P) * (d * d)) by (apply mul_le_l; [apply sqnn|exact Hdd]).
  lra.
Qed.

(* T <= 0 (then P < 0) *)
Lemma surd_case_C (P a T b td : Q) :
  P < 0 -> 0 <= a -> 0 <= b -> td * td <= a ->
  0 < P * P - a - T * T * b ->
  4 * (T * T) * a * b < (P * P - a - T * T * b) * (P * P - a - T * T * b) ->
  P + td < 0 /\ T * T * b < (P + td) * (P + td).
Proof.
  intros HP Ha Hb Htd HR Hsq. set (R := P * P - a - T * T * b) in *.
  assert (HTb : 0 <= T * T * b) by (apply mul_nn; [apply sqnn|exact Hb]).
  assert (Hd : P + td < 0).
  { assert (td < - P); [|lra]. apply sq_lt_of; [lra|]. unfold R in HR. lra. }
  split; [exact Hd|].
  set (v := - (P + td)).
  destruct (Qlt_le_dec (T * T * b) (v * v)) as [Hv|Hv].
  - unfold v in Hv. lra.
  - exfalso.
    assert (EP : P == - (td + v)) by (unfold v; lra).
    assert (EP2 : P * P == td * td + 2 * (td * v) + v * v) by (rewrite EP; lra).
    assert (HR2 : R <= 2 * (td * v)) by (unfold R; lra).
    assert (H1 : R * R <= (2 * (td * v)) * (2 * (td * v))) by (apply sq_mono; lra).
    assert (H2 : (td * td) * (v * v) <= a * (T * T * b)).
    { apply mul_le_mono; [apply sqnn|apply sqnn|exact Htd|exact Hv]. }
    lra.
Qed.

(* T > 1 *)
Lemma surd_case_D (d T b : Q) : 1 < T -> 0 < b -> d * d <= b -> d * d < T * T * b.
Proof.
  intros HT Hb Hd.
  assert (1 < T * T) by nra.
  assert (b * 1 < b * (T * T)) by (apply mul_lt_l; lra). lra.
Qed.

(* inner product:  sqrt a < c,  td <= sqrt a  ==>  td < c *)
Lemma surd_case_IP (a c td : Q) : 0 < c -> a < c * c -> td * td <= a -> td < c.
Proof. intros Hc Ha Htd. apply sq_lt_of; lra. Qed.

(* ========================================================================================== *)
(* 2. C07_prefilter_sound                                                                      *)
(* ========================================================================================== *)

Lemma skipn_sumsq_cs (p : nat) (q x : vec) :
  dot (skipn p q) (skipn p x) * dot (skipn p q) (skipn p x)
  <= sumsq (skipn p q) * sumsq (skipn p x).
Proof. apply cauchy_schwarz. Qed.

Lemma surd_ge_false_sound (P a T b td : Q) :
  0 <= a -> 0 < b -> td * td <= a -> (P + td) * (P + td) <= b ->
  surd_ge P a T b = false ->
  (* conclusion: not (P + td >= T sqrt b), in the squared form used by dist_le Cosine *)
  (if Qleb T 0 then Qleb 0 (P + td) || Qleb ((P + td) * (P + td)) (T * T * b)
   else Qleb 0 (P + td) && Qleb (T * T * b) ((P + td) * (P + td))) = false.
Proof.
  intros Ha Hb Htd Hfull Hs. unfold surd_ge in Hs.
  destruct (Qleb T 0) eqn:HT.
  - apply Qleb_iff in HT.
    destruct (Qleb 0 P) eqn:HP; [discriminate|]. apply Qleb_false in HP.
    destruct (Qleb (P * P - a - T * T * b) 0) eqn:HR; [discriminate|]. apply Qleb_false in HR.
    apply Qleb_false in Hs.
    destruct (surd_case_C P a T b td) as [H1 H2]; try assumption; try lra.
    apply orb_false_iff. split; apply Qleb_false; assumption.
  - apply Qleb_false in HT.
    destruct (Qleb 0 P) eqn:HP.
    + apply Qleb_iff in HP.
      destruct (Qleb (T * T * b - a - P * P) 0) eqn:HR; [discriminate|]. apply Qleb_false in HR.
      apply Qleb_false in Hs.
      pose proof (surd_case_A P a T b td HP Htd HR Hs) as H.
      apply andb_false_iff. right. apply Qleb_false. exact H.
    + apply Qleb_false in HP.
      assert (Hc : a - T * T * b - P * P < 0 \/
                   (a - T * T * b - P * P) * (a - T * T * b - P * P) < 4 * (T * T) * (P * P) * b).
      { destruct (Qltb (a - T * T * b - P * P) 0) eqn:HL.
        - left. apply Qltb_iff in HL. exact HL.
        - right. apply Qleb_false in Hs. exact Hs. }
      destruct (surd_case_B P a T b td HP (Qlt_le_weak _ _ Hb) Htd Hc) as [H|H];
        apply andb_false_iff; [left|right]; apply Qleb_false; exact H.
Qed.

Lemma Qmax_sq_case (w : Q) : (0 <= w /\ Qmax w 0 == w) \/ (w < 0 /\ Qmax w 0 == 0).
Proof.
  destruct (Qlt_le_dec w 0) as [H|H].
  - right. split; [exact H|]. apply Q.max_r. lra.
  - left. split; [exact H|]. apply Q.max_l. exact H.
Qed.

(* The prefilter is sound for every metric, all vectors of equal length, every prefix length p
   and every boundary w: "cannot affect" implies the true distance is strictly greater than w
   (dist_le = false is the sqrt-free statement of  distance(q,x) > w). *)
Theorem prefilter_sound (m : metric) (p : nat) (q x : vec) (w : Q) :
  length q = length x ->
  can_affect m p q x w = false -> dist_le m q x w = false.
Proof.
  intros Hlen H. unfold can_affect in H.
  rewrite Hlen, Nat.eqb_refl in H. cbn [negb] in H.
  destruct m.
  - (* Euclidean *)
    apply Qleb_false in H. unfold dist_le, Qsq in *.
    pose proof (l2sq_prefix_le p q x) as Hpre.
    destruct (Qmax_sq_case w) as [[Hw E]|[Hw E]]; rewrite E in H.
    + apply andb_false_iff. right. apply Qleb_false. lra.
    + apply andb_false_iff. left. apply Qleb_false. exact Hw.
  - (* Cosine *)
    unfold dist_le.
    set (b := sumsq q * sumsq x) in *.
    destruct (Qleb b 0) eqn:Hb; [discriminate|].
    destruct (Qleb (1 - w) (-1)) eqn:HT1; [discriminate|].
    apply Qleb_false in Hb. apply Qleb_false in HT1.
    pose proof (cauchy_schwarz q x) as Hcs. fold b in Hcs.
    destruct (Qltb 1 (1 - w)) eqn:HT2.
    + apply Qltb_iff in HT2.
      assert (HT0 : Qleb (1 - w) 0 = false) by (apply Qleb_false; lra).
      rewrite HT0. apply andb_false_iff. right. apply Qleb_false.
      apply surd_case_D; assumption.
    + pose proof (dot_split p q x) as Hsplit.
      pose proof (skipn_sumsq_cs p q x) as Htail.
      set (P := dot (firstn p q) (firstn p x)) in *.
      set (td := dot (skipn p q) (skipn p x)) in *.
      set (a := sumsq (skipn p q) * sumsq (skipn p x)) in *.
      assert (Ha : 0 <= a) by (apply mul_nn; apply sumsq_nonneg).
      assert (Hfull : (P + td) * (P + td) <= b) by (rewrite <- Hsplit; exact Hcs).
      pose proof (surd_ge_false_sound P a (1 - w) b td Ha Hb Htail Hfull H) as Hs.
      assert (E1 : Qleb 0 (dot q x) = Qleb 0 (P + td)).
      { unfold Qleb. rewrite Hsplit. reflexivity. }
      assert (E2 : Qleb (dot q x * dot q x) ((1 - w) * (1 - w) * b)
                   = Qleb ((P + td) * (P + td)) ((1 - w) * (1 - w) * b)).
      { unfold Qleb. rewrite Hsplit. reflexivity. }
      assert (E3 : Qleb ((1 - w) * (1 - w) * b) (dot q x * dot q x)
                   = Qleb ((1 - w) * (1 - w) * b) ((P + td) * (P + td))).
      { unfold Qleb. rewrite Hsplit. reflexivity. }
      rewrite E1, E2, E3. exact Hs.
  - (* InnerProduct *)
    unfold dist_le. apply orb_false_iff in H. destruct H as [H1 H2].
    apply Qleb_false in H1. apply Qleb_false in H2.
    pose proof (dot_split p q x) as Hsplit.
    pose proof (skipn_sumsq_cs p q x) as Htail.
    set (P := dot (firstn p q) (firstn p x)) in *.
    set (td := dot (skipn p q) (skipn p x)) in *.
    pose proof (surd_case_IP _ _ td H1 H2 Htail) as Hlt.
    apply Qleb_false. rewrite Hsplit. lra.
Qed.

(* dist_lt implies dist_le (used as  dle = false -> dlt = false) *)
Lemma dist_lt_le (m : metric) (q x : vec) (w : Q) :
  dist_le m q x w = false -> dist_lt m q x w = false.
Proof.
  intro H. destruct (dist_lt m q x w) eqn:E; [|reflexivity]. exfalso.
  destruct m; unfold dist_le, dist_lt in *.
  - apply andb_true_iff in E. destruct E as [E1 E2].
    apply Qltb_iff in E1. apply Qltb_iff in E2.
    apply andb_false_iff in H. destruct H as [H|H]; apply Qleb_false in H; lra.
  - destruct (Qleb (sumsq q * sumsq x) 0).
    + apply Qltb_iff in E. apply Qleb_false in H. lra.
    + destruct (Qltb (1 - w) 0) eqn:ET.
      * apply Qltb_iff in ET.
        assert (HT : Qleb (1 - w) 0 = true) by (apply Qleb_iff; lra). rewrite HT in H.
        apply orb_false_iff in H. destruct H as [H1 H2].
        apply orb_true_iff in E. destruct E as [E|E]; [congruence|].
        apply Qltb_iff in E. apply Qleb_false in H2. lra.
      * apply Qltb_false in ET. apply andb_true_iff in E. destruct E as [E1 E2].
        apply Qltb_iff in E1. apply Qltb_iff in E2.
        destruct (Qleb (1 - w) 0) eqn:HT.
        -- apply orb_false_iff in H. destruct H as [H1 _]. apply Qleb_false in H1. lra.
        -- apply andb_false_iff in H. destruct H as [H|H]; apply Qleb_false in H; lra.
  - apply Qltb_iff in E. apply Qleb_false in H. lra.
Qed.

(* ========================================================================================== *)
(* 3. keys, entries, reverse index                                                             *)
(* ========================================================================================== *)

Lemma zlist_eqb_eq (a b : list Z) : zlist_eqb a b = true <-> a = b.
Proof.
  revert b. induction a as [|x a IH]; intros [|y b]; cbn [zlist_eqb]; split; intro H;
    try reflexivity; try discriminate.
  - apply andb_true_iff in H. destruct H as [H1 H2]. apply Z.eqb_eq in H1. apply IH in H2. congruence.
  - inversion H; subst. rewrite Z.eqb_refl. cbn. apply IH. reflexivity.
Qed.

Lemma key_eqb_eq (a b : key) : key_eqb a b = true <-> a = b.
Proof.
  destruct a as [s1 k1], b as [s2 k2]. unfold key_eqb. cbn [fst snd]. split; intro H.
  - apply andb_true_iff in H. destruct H as [H1 H2]. apply N.eqb_eq in H1. apply zlist_eqb_eq in H2.
    congruence.
  - inversion H; subst. rewrite N.eqb_refl. cbn. apply zlist_eqb_eq. reflexivity.
Qed.

Lemma key_eqb_refl (a : key) : key_eqb a a = true.
Proof. apply key_eqb_eq. reflexivity. Qed.

Lemma key_eqb_neq (a b : key) : key_eqb a b = false <-> a <> b.
Proof.
  split; intro H.
  - intro E. apply key_eqb_eq in E. congruence.
  - destruct (key_eqb a b) eqn:E; [|reflexivity]. apply key_eqb_eq in E. contradiction.
Qed.

Lemma key_mem_in (k : key) (ks : list key) : key_mem k ks = true <-> In k ks.
Proof.
  unfold key_mem. rewrite existsb_exists. split.
  - intros [x [Hx E]]. apply key_eqb_eq in E. subst. exact Hx.
  - intro H. exists k. split; [exact H|apply key_eqb_refl].
Qed.

Lemma key_dedup_in (k : key) (ks : list key) : In k (key_dedup ks) <-> In k ks.
Proof.
  induction ks as [|x ks IH]; cbn [key_dedup fold_right]; [tauto|].
  fold (key_dedup ks). destruct (key_mem x (key_dedup ks)) eqn:E.
  - apply key_mem_in in E. split; intro H.
    + right. apply IH. exact H.
    + destruct H as [H|H]; [subst; exact E|apply IH; exact H].
  - cbn [In]. rewrite IH. tauto.
Qed.

Lemma n_mem_in (x : N) (l : list N) : n_mem x l = true <-> In x l.
Proof.
  induction l as [|y l IH]; cbn [n_mem In]; [split; [discriminate|tauto]|].
  rewrite orb_true_iff, IH, N.eqb_eq. split; intros [H|H]; auto.
Qed.

Lemma n_dedup_in (x : N) (l : list N) : In x (n_dedup l) <-> In x l.
Proof.
  induction l as [|y l IH]; cbn [n_dedup]; [tauto|].
  destruct (n_mem y l) eqn:E.
  - apply n_mem_in in E. rewrite IH. cbn [In]. split; [tauto|]. intros [H|H]; [subst; exact E|exact H].
  - cbn [In]. rewrite IH. tauto.
Qed.

Definition e_ids (e : entry) : list N := map fst (e_results e).

Lemma result_ids_in (id : N) (rs : list result) : In id (result_ids rs) <-> In id (map fst rs).
Proof. apply n_dedup_in. Qed.

(* ---- entries ---- *)

Lemma find_entry_some (k : key) (es : list entry) (e : entry) :
  find_entry k es = Some e -> In e es /\ e_key e = k.
Proof.
  induction es as [|x es IH]; cbn [find_entry]; [discriminate|].
  destruct (key_eqb (e_key x) k) eqn:E; intro H.
  - inversion H; subst. apply key_eqb_eq in E. split; [left; reflexivity|exact E].
  - destruct (IH H) as [H1 H2]. split; [right; exact H1|exact H2].
Qed.

Lemma find_entry_none (k : key) (es : list entry) :
  find_entry k es = None -> forall e, In e es -> e_key e <> k.
Proof.
  induction es as [|x es IH]; cbn [find_entry]; intros H e He; [contradiction|].
  destruct (key_eqb (e_key x) k) eqn:E; [discriminate|].
  destruct He as [He|He]; [subst; apply key_eqb_neq; exact E|apply IH; assumption].
Qed.

Lemma find_entry_in (k : key) (es : list entry) (e : entry) :
  In e es -> e_key e = k -> exists e', find_entry k es = Some e'.
Proof.
  intros He Hk. destruct (find_entry k es) eqn:E; [eexists; reflexivity|].
  exfalso. exact (find_entry_none _ _ E _ He Hk).
Qed.

Lemma remove_key_in (k : key) (es : list entry) (e : entry) :
  In e (remove_key k es) <-> In e es /\ e_key e <> k.
Proof.
  unfold remove_key. rewrite filter_In, negb_true_iff, key_eqb_neq. tauto.
Qed.

Lemma remove_key_length (k : key) (es : list entry) :
  (length (remove_key k es) <= length es)%nat.
Proof.
  unfold remove_key. induction es as [|x es IH]; cbn [filter length]; [lia|].
  destruct (negb (key_eqb (e_key x) k)); cbn [length]; lia.
Qed.

Lemma remove_key_length_found (k : key) (es : list entry) (e : entry) :
  find_entry k es = Some e -> (S (length (remove_key k es)) <= length es)%nat.
Proof.
  unfold remove_key. induction es as [|x es IH]; cbn [find_entry filter length]; [discriminate|].
  destruct (key_eqb (e_key x) k) eqn:E; cbn [negb]; intro H.
  - pose proof (remove_key_length k es) as L. unfold remove_key in L. lia.
  - cbn [length]. specialize (IH H). lia.
Qed.

Lemma remove_key_none (k : key) (es : list entry) :
  find_entry k es = None -> remove_key k es = es.
Proof.
  unfold remove_key. induction es as [|x es IH]; cbn [find_entry filter]; [reflexivity|].
  destruct (key_eqb (e_key x) k) eqn:E; [discriminate|]. cbn [negb]. intro H. rewrite IH; auto.
Qed.

Lemma touch_in (k : key) (es : list entry) (e : entry) : In e (touch k es) -> In e es.
Proof.
  unfold touch. destruct (find_entry k es) eqn:E; [|tauto].
  intros [H|H]; [subst; apply (find_entry_some _ _ _ E)|apply remove_key_in in H; tauto].
Qed.

Lemma touch_length (k : key) (es : list entry) : (length (touch k es) <= length es)%nat.
Proof.
  unfold touch. destruct (find_entry k es) eqn:E; [|lia].
  cbn [length]. apply (remove_key_length_found _ _ _ E).
Qed.

Definition keys (es : list entry) : list key := map e_key es.

Lemma nodup_remove_key (k : key) (es : list entry) : NoDup (keys es) -> NoDup (keys (remove_key k es)).
Proof.
  unfold keys, remove_key. induction es as [|x es IH]; cbn [filter map]; intro H; [constructor|].
  inversion H as [|? ? Hx Hr]; subst.
  destruct (negb (key_eqb (e_key x) k)); cbn [map]; [|auto].
  constructor; [|auto]. intro Hin. apply Hx. apply in_map_iff in Hin.
  destruct Hin as [y [Hy1 Hy2]]. apply filter_In in Hy2. apply in_map_iff. exists y. tauto.
Qed.

Lemma nodup_filter (f : entry -> bool) (es : list entry) : NoDup (keys es) -> NoDup (keys (filter f es)).
Proof.
  unfold keys. induction es as [|x es IH]; cbn [filter map]; intro H; [constructor|].
  inversion H as [|? ? Hx Hr]; subst.
  destruct (f x); cbn [map]; [|auto].
  constructor; [|auto]. intro Hin. apply Hx. apply in_map_iff in Hin.
  destruct Hin as [y [Hy1 Hy2]]. apply filter_In in Hy2. apply in_map_iff. exists y. tauto.
Qed.

Lemma not_in_keys_remove (k : key) (es : list entry) : ~ In k (keys (remove_key k es)).
Proof.
  unfold keys. intro H. apply in_map_iff in H. destruct H as [y [Hy1 Hy2]].
  apply remove_key_in in Hy2. tauto.
Qed.

Lemma nodup_touch (k : key) (es : list entry) : NoDup (keys es) -> NoDup (keys (touch k es)).
Proof.
  unfold touch. destruct (find_entry k es) eqn:E; [|tauto]. intro H.
  destruct (find_entry_some _ _ _ E) as [_ Hk]. unfold keys. cbn [map]. rewrite Hk.
  constructor; [apply not_in_keys_remove|apply nodup_remove_key; exact H].
Qed.

Lemma nodup_key_eq (es : list entry) (a b : entry) :
  NoDup (keys es) -> In a es -> In b es -> e_key a = e_key b -> a = b.
Proof.
  unfold keys. induction es as [|x es IH]; cbn [map In]; intros H Ha Hb E; [contradiction|].
  inversion H as [|? ? Hx Hr]; subst.
  destruct Ha as [Ha|Ha], Hb as [Hb|Hb]; subst; auto.
  - exfalso. apply Hx. rewrite E. apply in_map. exact Hb.
  - exfalso. apply Hx. rewrite <- E. apply in_map. exact Ha.
Qed.

Lemma touch_in_rev (k : key) (es : list entry) (e : entry) :
  NoDup (keys es) -> In e es -> In e (touch k es).
Proof.
  intros Hnd He. unfold touch. destruct (find_entry k es) eqn:E; [|exact He].
  destruct (find_entry_some _ _ _ E) as [H1 H2].
  destruct (key_eqb (e_key e) k) eqn:Ek.
  - apply key_eqb_eq in Ek. left. apply (nodup_key_eq es); auto. congruence.
  - right. apply remove_key_in. split; [exact He|apply key_eqb_neq; exact Ek].
Qed.

Lemma drop_last_spec (es : list entry) :
  match drop_last es with
  | (es', Some v) => es = es' ++ [v]
  | (es', None) => es = [] /\ es' = []
  end.
Proof.
  induction es as [|e r IH]; cbn [drop_last]; [auto|].
  destruct r as [|e2 r2]; [reflexivity|].
  destruct (drop_last (e2 :: r2)) as [r' [v|]].
  - rewrite IH. reflexivity.
  - destruct IH as [IH _]. discriminate.
Qed.

(* ---- reverse index ---- *)

Lemma rget_rdel (r : list (N * list key)) (id id' : N) :
  rget (rdel r id) id' = if N.eqb id id' then [] else rget r id'.
Proof.
  induction r as [|[i ks] r IH]; cbn [rdel rget].
  - destruct (N.eqb id id'); reflexivity.
  - destruct (N.eqb i id) eqn:E1.
    + rewrite IH. apply N.eqb_eq in E1. subst i. destruct (N.eqb id id'); reflexivity.
    + cbn [rget]. rewrite IH. destruct (N.eqb i id') eqn:E2; [|reflexivity].
      apply N.eqb_eq in E2. subst i. rewrite N.eqb_sym, E1. reflexivity.
Qed.

Lemma rget_rset (r : list (N * list key)) (id id' : N) (ks : list key) :
  rget (rset r id ks) id' = if N.eqb id id' then ks else rget r id'.
Proof.
  unfold rset. destruct ks as [|k ks].
  - rewrite rget_rdel. reflexivity.
  - cbn [rget]. rewrite rget_rdel. destruct (N.eqb id id'); reflexivity.
Qed.

Lemma index_ids_spec (ids : list N) (r : list (N * list key)) (k k' : key) (id : N) :
  In k' (rget (index_ids r k ids) id) <-> In k' (rget r id) \/ (k' = k /\ In id ids).
Proof.
  unfold index_ids. revert r. induction ids as [|i ids IH]; intro r; cbn [fold_left In]; [tauto|].
  rewrite IH, rget_rset. destruct (N.eqb i id) eqn:E.
  - apply N.eqb_eq in E. subst i. destruct (key_mem k (rget r id)) eqn:M.
    + apply key_mem_in in M. intuition (subst; auto).
    + rewrite in_app_iff. cbn [In]. intuition (subst; auto).
  - apply N.eqb_neq in E. intuition (subst; auto).
Qed.

Lemma unindex_ids_spec (ids : list N) (r : list (N * list key)) (k k' : key) (id : N) :
  In k' (rget (unindex_ids r k ids) id) <-> In k' (rget r id) /\ ~ (k' = k /\ In id ids).
Proof.
  unfold unindex_ids. revert r. induction ids as [|i ids IH]; intro r; cbn [fold_left In]; [tauto|].
  rewrite IH, rget_rset. destruct (N.eqb i id) eqn:E.
  - apply N.eqb_eq in E. subst i. rewrite filter_In, negb_true_iff, key_eqb_neq. tauto.
  - apply N.eqb_neq in E. tauto.
Qed.

(* (b) monotonicity of "distance < w" in the boundary: not inside w  ==>  not inside any w' <= w *)
Lemma sq_le_abs (x y : Q) : x <= y -> y <= 0 -> y * y <= x * x.
Proof. intros. nra. Qed.

Lemma dist_lt_mono (m : metric) (q v : vec) (w w' : Q) :
  dist_lt m q v w = false -> w' <= w -> dist_lt m q v w' = false.
Proof.
  intros H Hw. destruct (dist_lt m q v w') eqn:E; [|reflexivity]. exfalso.
  destruct m; unfold dist_lt in *.
  - apply andb_true_iff in E. destruct E as [E1 E2]. apply Qltb_iff in E1. apply Qltb_iff in E2.
    assert (Hsq : w' * w' <= w * w) by (apply sq_mono; lra).
    apply andb_false_iff in H. destruct H as [H|H]; apply Qltb_false in H; lra.
  - set (b := sumsq q * sumsq v) in *. set (d := dot q v) in *.
    destruct (Qleb b 0) eqn:Eb.
    + apply Qltb_iff in E. apply Qltb_false in H. lra.
    + apply Qleb_false in Eb.
      destruct (Qltb (1 - w') 0) eqn:ET'.
      * (* T' < 0, hence T < 0 *)
        apply Qltb_iff in ET'.
        assert (ET : Qltb (1 - w) 0 = true) by (apply Qltb_iff; lra). rewrite ET in H.
        apply orb_false_iff in H. destruct H as [H1 H2]. apply Qleb_false in H1. apply Qltb_false in H2.
        apply orb_true_iff in E. destruct E as [E|E]; [apply Qleb_iff in E; lra|].
        apply Qltb_iff in E.
        assert (Hsq : (1 - w') * (1 - w') <= (1 - w) * (1 - w)) by (apply sq_le_abs; lra).
        assert (Hb : b * ((1 - w') * (1 - w')) <= b * ((1 - w) * (1 - w))) by (apply mul_le_l; lra).
        lra.
      * apply Qltb_false in ET'. apply andb_true_iff in E. destruct E as [E1 E2].
        apply Qltb_iff in E1. apply Qltb_iff in E2.
        destruct (Qltb (1 - w) 0) eqn:ET.
        -- apply orb_false_iff in H. destruct H as [H1 _]. apply Qleb_false in H1. lra.
        -- apply Qltb_false in ET. apply andb_false_iff in H.
           destruct H as [H|H]; apply Qltb_false in H; [lra|].
           assert (Hsq : (1 - w) * (1 - w) <= (1 - w') * (1 - w')) by (apply sq_mono; lra).
           assert (Hb : b * ((1 - w) * (1 - w)) <= b * ((1 - w') * (1 - w'))) by (apply mul_le_l; lra).
           lra.
  - apply Qltb_iff in E. apply Qltb_false in H. lra.
Qed.
