(* Engine-level theorems over Model/QCache.v: validity of every cached entry in every sequential
   history, the searcher/writer interleaving, and what an exact-key hit means (C07). *)
From Coq Require Import QArith Qminmax Qround Qabs List NArith ZArith Bool Arith Lqa Lia Sorting.Sorted.
From Kyro Require Import Model.QCache Proofs.QCacheProofs Proofs.QCacheInv.
Import ListNotations.
Open Scope Q_scope.

(* ---- collection ---- *)

Lemma c_get_del c id id' : c_get (c_del c id) id' = if N.eqb id id' then None else c_get c id'.
Proof.
  induction c as [|[i v] c IH]; cbn [c_del c_get].
  - destruct (N.eqb id id'); reflexivity.
  - destruct (N.eqb i id) eqn:E1.
    + rewrite IH. apply N.eqb_eq in E1. subst i. destruct (N.eqb id id'); reflexivity.
    + cbn [c_get]. rewrite IH. destruct (N.eqb i id') eqn:E2; [|reflexivity].
      apply N.eqb_eq in E2. subst i. rewrite N.eqb_sym, E1. reflexivity.
Qed.

Lemma c_get_put c id v id' : c_get (c_put c id v) id' = if N.eqb id id' then Some v else c_get c id'.
Proof. unfold c_put. cbn [c_get]. rewrite c_get_del. destruct (N.eqb id id'); reflexivity. Qed.

Lemma in_ids (e : entry) id d : In (id, d) (e_results e) -> In id (e_ids e).
Proof. intro H. unfold e_ids. apply in_map_iff. exists (id, d). auto. Qed.

(* ---- results sorted non-decreasingly by reported distance; `worst` ---- *)

Definition rle (a b : result) : Prop := snd a <= snd b.

Lemma sorted_split k : forall l, StronglySorted rle l ->
  forall a b, In a (firstn k l) -> In b (skipn k l) -> snd a <= snd b.
Proof.
  induction k as [|k IH]; intros l H a b Ha Hb; [inversion Ha|].
  destruct l as [|z l]; [inversion Ha|]. cbn [firstn skipn] in *.
  inversion H as [|? ? Hs Hf]; subst. destruct Ha as [Ha|Ha].
  - subst a. rewrite Forall_forall in Hf. apply Hf.
    rewrite <- (firstn_skipn k l). apply in_or_app. right. exact Hb.
  - apply (IH l Hs a b Ha Hb).
Qed.

Lemma worst_bound (l : list result) (d : Q) :
  l <> [] -> (forall a, In a l -> snd a <= d) -> exists w, worst l = Some w /\ w <= d.
Proof.
  induction l as [|[i x] l IH]; intros Hne H; [congruence|]. cbn [worst].
  destruct l as [|y l'].
  - cbn [worst]. exists x. split; [reflexivity|]. apply (H (i, x)). left. reflexivity.
  - destruct IH as [w [Ew Hw]]; [discriminate|intros a Ha; apply H; right; exact Ha|].
    rewrite Ew. exists (Qmax x w). split; [reflexivity|].
    apply Q.max_lub; [apply (H (i, x)); left; reflexivity|exact Hw].
Qed.


Lemma sorted_firstn k : forall l, StronglySorted rle l -> StronglySorted rle (firstn k l).
Proof.
  induction k as [|k IH]; intros l H; [constructor|].
  destruct l as [|z l]; [constructor|]. cbn [firstn]. inversion H as [|? ? Hs Hf]; subst.
  constructor; [apply IH; exact Hs|].
  rewrite Forall_forall in *. intros y Hy. apply Hf. apply (in_firstn _ _ _ Hy).
Qed.

Lemma worst_ge (l : list result) (w : Q) (a : result) : worst l = Some w -> In a l -> snd a <= w.
Proof.
  revert w. induction l as [|[i x] l IH]; intros w Hw Ha; [inversion Ha|].
  cbn [worst] in Hw. destruct (worst l) as [w0|] eqn:E.
  - inversion Hw; subst. destruct Ha as [Ha|Ha].
    + subst a. cbn [snd]. apply Q.le_max_l.
    + specialize (IH w0 eq_refl Ha). pose proof (Q.le_max_r x w0). lra.
  - inversion Hw; subst. destruct Ha as [Ha|Ha]; [subst a; cbn [snd]; lra|].
    destruct l as [|[j y] l']; [inversion Ha|]. cbn [worst] in E. destruct (worst l'); discriminate.
Qed.

Section EngineProofs.
  Variables pre dle dlt : vec -> vec -> Q -> bool.
  Variable isd : vec -> vec -> Q -> Prop.        (* "d is the distance the engine reports for (q, v)" *)
  Variable fresh_search : collection -> vec -> nat -> list result.
  Variable cfg : config.

  (* the prefilter is sound w.r.t. the cache's exact comparison (discharged by prefilter_sound) *)
  Hypothesis H_pre : forall q x w, length q = length x -> pre q x w = false -> dle q x w = false.
  (* "not <= w" implies "not < w" (discharged by dist_lt_le) *)
  Hypothesis H_lt : forall q x w, dle q x w = false -> dlt q x w = false.
  (* the uncached search is an exact k-NN: *)
  Hypothesis O_live : forall c q k id d, In (id, d) (fresh_search c q k) ->
                        exists v, c_get c id = Some v /\ isd q v d.
  Hypothesis O_len : forall c q k, (length (fresh_search c q k) <= k)%nat.
  (* (a) the results come sorted non-decreasingly by reported distance *)
  Hypothesis O_sorted : forall c q k, StronglySorted rle (fresh_search c q k).
  Hypothesis O_omit : forall c q k id v, (1 <= k)%nat -> c_get c id = Some v ->
                        ~ In id (map fst (fresh_search c q k)) ->
                        length (fresh_search c q k) = k /\
                        exists w, worst (fresh_search c q k) = Some w /\ dlt q v w = false.

  (* The cached entry is an answer a fresh search could give now: every listed document is live
     with its current distance (no deleted id, no pre-overwrite distance), and every live
     document that is not listed is not strictly inside the boundary (and the list is full). *)
  Definition Valid (c : collection) (e : entry) : Prop :=
    (forall id d, In (id, d) (e_results e) -> exists v, c_get c id = Some v /\ isd (e_query e) v d) /\
    (forall id v, c_get c id = Some v -> ~ In id (e_ids e) ->
        (e_kreq e <= length (e_results e))%nat /\
        exists w, worst (e_results e) = Some w /\ dlt (e_query e) v w = false) /\
    StronglySorted rle (e_results e).

  Lemma valid_fresh c scope q k :
    fresh_search c q k <> [] ->
    Valid c (new_entry scope q (fresh_search c q k) k).
  Proof.
    intro Hne.
    assert (Hk : (1 <= k)%nat).
    { pose proof (O_len c q k). destruct (fresh_search c q k); [congruence|]. cbn [length] in *. lia. }
    unfold Valid, new_entry, e_ids. cbn [e_results e_query e_kreq]. split; [|split].
    - intros id d H. apply (O_live _ _ _ _ _ H).
    - intros id v Hv Hn. destruct (O_omit c q k id v Hk Hv Hn) as [Hl Hw].
      split; [rewrite Hl; lia|exact Hw].
    - apply O_sorted.
  Qed.

  Lemma valid_insert c e id x :
    Valid c e -> ~ In id (e_ids e) -> insert_hits pre dle x e = false -> Valid (c_put c id x) e.
  Proof.
    intros [V1 [V2 V3]] Hn Hh. split; [|split; [|exact V3]].
    - intros id' d H. rewrite c_get_put. destruct (N.eqb id id') eqn:E.
      + apply N.eqb_eq in E. subst id'. exfalso. apply Hn. apply (in_ids _ _ _ H).
      + apply (V1 id' d H).
    - intros id' v Hv Hn'. rewrite c_get_put in Hv. destruct (N.eqb id id') eqn:E.
      + inversion Hv; subst v. clear Hv. unfold insert_hits in Hh.
        destruct (Nat.ltb (length (e_results e)) (e_kreq e)) eqn:E1; [discriminate|].
        apply Nat.ltb_ge in E1.
        destruct (Nat.eqb (length (e_query e)) (length x)) eqn:E2; [|discriminate].
        apply Nat.eqb_eq in E2. cbn [negb] in Hh.
        destruct (worst (e_results e)) as [w|]; [|discriminate].
        split; [exact E1|]. exists w. split; [reflexivity|]. apply H_lt.
        destruct (pre (e_query e) x w) eqn:E3; [exact Hh|apply H_pre; assumption].
      + apply (V2 id' v Hv Hn').
  Qed.

  Lemma valid_delete c e id : Valid c e -> ~ In id (e_ids e) -> Valid (c_del c id) e.
  Proof.
    intros [V1 [V2 V3]] Hn. split; [|split; [|exact V3]].
    - intros id' d H. rewrite c_get_del. destruct (N.eqb id id') eqn:E.
      + apply N.eqb_eq in E. subst id'. exfalso. apply Hn. apply (in_ids _ _ _ H).
      + apply (V1 id' d H).
    - intros id' v Hv Hn'. rewrite c_get_del in Hv. destruct (N.eqb id id'); [discriminate|].
      apply (V2 id' v Hv Hn').
  Qed.

  Definition EInv (st : estate) : Prop :=
    CInv (e_cache st) /\ forall e, In e (s_entries (e_cache st)) -> Valid (e_coll st) e.

  Lemma prune_spec c : forall rs s,
    CInv s ->
    CInv (fst (prune_noncanonical c s rs)) /\
    (forall e, In e (s_entries (fst (prune_noncanonical c s rs))) -> In e (s_entries s)).
  Proof.
    induction rs as [|[id d] rs IH]; intros s H; cbn [prune_noncanonical]; [cbn [fst]; auto|].
    destruct (c_get c id); [apply IH; exact H|].
    destruct (invalidate_doc s id) as [s1 n] eqn:E1.
    destruct (prune_noncanonical c s1 rs) as [s2 b] eqn:E2. cbn [fst].
    pose proof (invalidate_doc_spec s id H) as [A [_ B]]. rewrite E1 in A, B. cbn [fst] in A, B.
    destruct (IH s1 A) as [C D]. rewrite E2 in C, D. cbn [fst] in C, D.
    split; [exact C|]. intros e He. apply B. apply D. exact He.
  Qed.

  Lemma estep_EInv st o : EInv st -> EInv (fst (estep pre dle fresh_search cfg st o)).
  Proof.
    intros [HC HV]. destruct o; cbn [estep].
    - (* search *)
      unfold esearch.
      pose proof (get_scoped_spec cfg (e_cache st) scope q k HC) as G.
      destruct (get_scoped cfg (e_cache st) scope q k) as [s1 hit]. cbn [fst snd] in G.
      destruct G as [C1 [_ [Sub1 _]]].
      assert (P : forall s2 served,
        (match hit with
         | Some cached => let '(s2, pruned) := prune_noncanonical (e_coll st) s1 cached in
                          (s2, if pruned then None else Some cached)
         | None => (s1, None)
         end) = (s2, served) ->
        CInv s2 /\ forall e, In e (s_entries s2) -> In e (s_entries s1)).
      { intros s2 served E. destruct hit as [cached|].
        - pose proof (prune_spec (e_coll st) cached s1 C1) as [A B].
          destruct (prune_noncanonical (e_coll st) s1 cached) as [s2' pr]. inversion E; subst.
          split; assumption.
        - inversion E; subst. auto. }
      destruct (match hit with Some cached => _ | None => _ end) as [s2 served].
      destruct (P s2 served eq_refl) as [C2 Sub2].
      destruct served as [cached|]; cbn [fst e_cache e_coll].
      + split; [exact C2|]. intros e He. apply HV. apply Sub1. apply Sub2. exact He.
      + destruct (fresh_search (e_coll st) q k) as [|r0 rs] eqn:Er.
        * split; [exact C2|]. intros e He. apply HV. apply Sub1. apply Sub2. exact He.
        * pose proof (store_spec cfg s2 scope q (r0 :: rs) k (Some (s_gen (e_cache st))) C2) as S.
          cbn zeta in S. destruct S as [C3 [_ [Sub3 _]]].
          split; [exact C3|]. intros e He. destruct (Sub3 e He) as [Ho|Hn].
          -- apply HV. apply Sub1. apply Sub2. exact Ho.
          -- subst e. rewrite <- Er. apply valid_fresh. rewrite Er. discriminate.
    - (* insert *)
      pose proof (invalidate_doc_spec (e_cache st) id HC) as D.
      destruct (invalidate_doc (e_cache st) id) as [s1 n1]. cbn [fst] in D. destruct D as [C1 [_ Sub1]].
      pose proof (invalidate_for_insert_gen_spec pre dle s1 v C1) as I.
      destruct (invalidate_for_insert_gen pre dle s1 v) as [s2 n2]. cbn [fst] in I.
      destruct I as [C2 [_ Sub2]]. cbn [fst e_cache e_coll].
      split; [exact C2|]. intros e He. destruct (Sub2 e He) as [He1 Hh]. destruct (Sub1 e He1) as [He0 Hn].
      apply valid_insert; auto.
    - (* delete *)
      destruct (c_get (e_coll st) id); [|split; assumption].
      pose proof (invalidate_doc_spec (e_cache st) id HC) as D.
      destruct (invalidate_doc (e_cache st) id) as [s1 n1]. cbn [fst] in D. destruct D as [C1 [_ Sub1]].
      cbn [fst e_cache e_coll]. split; [exact C1|]. intros e He. destruct (Sub1 e He) as [He0 Hn].
      apply valid_delete; auto.
    - (* update_metadata: full clear *)
      destruct (c_get (e_coll st) id); [|split; assumption].
      cbn [fst e_cache e_coll]. split; [apply CInv_clear_remove|]. intros e [].
    - cbn [fst e_cache e_coll]. split; [apply CInv_clear_remove|]. intros e [].
    - cbn [fst e_cache e_coll]. split; [apply CInv_clear_remove|]. intros e [].
  Qed.

  Lemma erun_EInv ops : forall st, EInv st -> EInv (erun pre dle fresh_search cfg st ops).
  Proof.
    induction ops as [|o ops IH]; intros st H; cbn [erun]; [exact H|].
    apply IH. apply estep_EInv. exact H.
  Qed.

  Lemma EInv_init : EInv einit.
  Proof. split; [apply CInv_empty|]. intros e []. Qed.

  (* C07_entry_valid: after ANY sequential history of searches, inserts/overwrites, deletes,
     metadata updates, bulk loads and drift repairs, every cached entry is Valid for the current
     collection. *)
  Theorem entry_valid ops e :
    let st := erun pre dle fresh_search cfg einit ops in
    In e (s_entries (e_cache st)) -> Valid (e_coll st) e.
  Proof. intros st H. apply (erun_EInv ops einit EInv_init). exact H. Qed.

  (* a cache hit of the engine is the k-prefix of such a valid entry of the request's scope *)
  Theorem hit_valid ops scope q k r st' :
    let st := erun pre dle fresh_search cfg einit ops in
    estep pre dle fresh_search cfg st (ESearch scope q k) = (st', RHit r) ->
    exists e, In e (s_entries (e_cache st)) /\ Valid (e_coll st) e /\
              e_scope e = scope /\ (k <= e_kreq e)%nat /\ r = firstn k (e_results e).
  Proof.
    intros st H. pose proof (erun_EInv ops einit EInv_init) as [HC HV]. fold st in HC, HV.
    cbn [estep] in H. unfold esearch in H.
    pose proof (get_scoped_spec cfg (e_cache st) scope q k HC) as G.
    destruct (get_scoped cfg (e_cache st) scope q k) as [s1 hit]. cbn [fst snd] in G.
    destruct G as [_ [_ [_ [_ Hs]]]].
    destruct hit as [cached|].
    - destruct (prune_noncanonical (e_coll st) s1 cached) as [s2 pr]. destruct pr.
      + destruct (fresh_search (e_coll st) q k); inversion H.
      + inversion H; subst. destruct (Hs r eq_refl) as [e [He [Hsc [Hk [Hr _]]]]].
        exists e. split; [exact He|]. split; [apply HV; exact He|]. split; [exact Hsc|]. split; [exact Hk|exact Hr].
    - destruct (fresh_search (e_coll st) q k); inversion H.
  Qed.

  (* ---- the k-prefix of a valid entry is itself a valid answer for k ---- *)

  (* (b) "not < w" is monotone in the boundary (discharged by dist_lt_mono) *)
  Hypothesis H_mono : forall q v w w', dlt q v w = false -> w' <= w -> dlt q v w' = false.
  (* the reported distance is the one dlt compares: a document reported at d is not strictly
     inside any boundary w <= d *)
  Hypothesis H_isd : forall q v d w, isd q v d -> w <= d -> dlt q v w = false.

  Definition prefix_entry (e : entry) (k : nat) : entry :=
    mkEntry (e_scope e) (e_qkey e) (e_query e) k (firstn k (e_results e)).

  Lemma prefix_valid c e k :
    Valid c e -> (1 <= k)%nat -> (k <= e_kreq e)%nat -> Valid c (prefix_entry e k).
  Proof.
    intros [V1 [V2 V3]] Hk1 Hk. unfold Valid, prefix_entry, e_ids. cbn [e_results e_query e_kreq].
    set (rs := e_results e) in *.
    split; [|split; [|apply sorted_firstn; exact V3]].
    - intros id d H. apply (V1 id d). apply (in_firstn _ _ _ H).
    - intros id v Hv Hn.
      destruct (in_dec N.eq_dec id (map fst rs)) as [Hin|Hout].
      + (* listed by the entry, beyond the prefix *)
        apply in_map_iff in Hin. destruct Hin as [[id' d] [E Hin]]. cbn [fst] in E. subst id'.
        assert (Hskip : In (id, d) (skipn k rs)).
        { rewrite <- (firstn_skipn k rs) in Hin. apply in_app_or in Hin. destruct Hin as [H|H]; [|exact H].
          exfalso. apply Hn. apply in_map_iff. exists (id, d). split; [reflexivity|exact H]. }
        assert (Hlen : (k < length rs)%nat).
        { destruct (Nat.lt_ge_cases k (length rs)) as [G|G]; [exact G|].
          rewrite skipn_all2 in Hskip by exact G. inversion Hskip. }
        split; [rewrite firstn_length_le; lia|].
        destruct (worst_bound (firstn k rs) d) as [w [Ew Hw]].
        * intro E. apply (f_equal (@length result)) in E. rewrite firstn_length_le in E by lia. cbn in E. lia.
        * intros a Ha. apply (sorted_split k rs V3 a (id, d) Ha Hskip).
        * exists w. split; [exact Ew|]. destruct (V1 id d Hin) as [v0 [Hv0 Hd]].
          rewrite Hv in Hv0. inversion Hv0; subst v0. apply (H_isd _ _ _ _ Hd Hw).
      + (* not listed at all: the entry's own boundary applies, and the prefix's is no larger *)
        destruct (V2 id v Hv Hout) as [Hfull [w [Ew Hw]]].
        assert (Hlen : (k <= length rs)%nat) by lia.
        split; [rewrite firstn_length_le; lia|].
        destruct (worst_bound (firstn k rs) w) as [w' [Ew' Hw']].
        * intro E. apply (f_equal (@length result)) in E. rewrite firstn_length_le in E by lia. cbn in E. lia.
        * intros a Ha. apply (worst_ge rs w a Ew). apply (in_firstn _ _ _ Ha).
        * exists w'. split; [exact Ew'|]. apply (H_mono _ _ _ _ Hw Hw').
  Qed.

  (* C07_k_monotone: an engine cache hit for k uses an entry stored for k_req >= k, serves exactly
     its k-prefix, and that k-prefix is itself a valid answer for k. *)
  Theorem k_monotone ops scope q k r st' :
    let st := erun pre dle fresh_search cfg einit ops in
    (1 <= k)%nat ->
    estep pre dle fresh_search cfg st (ESearch scope q k) = (st', RHit r) ->
    exists e, In e (s_entries (e_cache st)) /\ e_scope e = scope /\ (k <= e_kreq e)%nat /\
              r = firstn k (e_results e) /\ Valid (e_coll st) e /\
              Valid (e_coll st) (prefix_entry e k) /\ e_results (prefix_entry e k) = r.
  Proof.
    intros st Hk H. destruct (hit_valid ops scope q k r st' H) as [e [He [Hv [Hs [Hkk Hr]]]]].
    exists e. repeat (split; [assumption|]). split; [apply prefix_valid; assumption|].
    cbn [prefix_entry e_results]. symmetry. exact Hr.
  Qed.

  (* ---- interleaving: a result computed before an invalidation is never stored after it ---- *)

  Lemma store_skip s scope q r k g :
    s_gen s <> g -> store cfg s scope q r k (Some g) = (s, SkippedGeneration).
  Proof.
    intro H. unfold store. apply N.eqb_neq in H. rewrite H. reflexivity.
  Qed.

  Lemma store_gen s scope q r k ex : s_gen (fst (store cfg s scope q r k ex)) = s_gen s.
  Proof.
    unfold store.
    destruct (match ex with Some g => negb (N.eqb (s_gen s) g) | None => false end); [reflexivity|].
    destruct (find_entry (scope, quantise q) (s_entries s)) as [old|].
    - destruct (Nat.leb (e_kreq old) (Nat.max k (length r))); reflexivity.
    - destruct (if Nat.leb (c_cap cfg) (length (s_entries s)) then _ else _) as [[a b] c]. reflexivity.
  Qed.

  Lemma doc_remove_gen s id : s_gen (fst (doc_remove s id)) = s_gen s.
  Proof.
    unfold doc_remove. destruct (rget (s_ridx s) id); [reflexivity|]. rewrite remove_entries_gen. reflexivity.
  Qed.

  Lemma insert_remove_gen s x : s_gen (fst (insert_remove pre dle s x)) = s_gen s.
  Proof. unfold insert_remove. apply remove_entries_gen. Qed.

  Definition ph_gen (p : sphase) : option N :=
    match p with SIdle => None | SHaveGen _ _ _ g => Some g | SHaveRes _ _ _ g _ => Some g end.

  Definition IInv (s : istate) : Prop :=
    (forall g, ph_gen (i_ph s) = Some g ->
       (g <= s_gen (i_cache s))%N /\ (i_bumped_since_compute s = true -> (g < s_gen (i_cache s))%N)) /\
    (forall out, In (true, out) (i_log s) -> out = SkippedGeneration).

  Lemma istep_IInv s e s' :
    IInv s -> istep pre dle fresh_search cfg s e = Some s' -> IInv s'.
  Proof.
    intros [Hg Hl] H. destruct e; cbn [istep] in H.
    - destruct (i_ph s); inversion H; subst; clear H. split; [|exact Hl].
      cbn [i_ph ph_gen i_cache i_bumped_since_compute]. intros g E. inversion E; subst.
      split; [lia|discriminate].
    - destruct (i_ph s) as [|sc q k g|] eqn:Ep; inversion H; subst; clear H. split; [|exact Hl].
      cbn [i_ph ph_gen i_cache i_bumped_since_compute]. intros g' E. inversion E; subst.
      split; [apply (Hg g' eq_refl)|discriminate].
    - destruct (i_ph s) as [| |sc q k g r] eqn:Ep; try discriminate.
      destruct (store cfg (i_cache s) sc q r k (Some g)) as [c1 out] eqn:Es.
      inversion H; subst; clear H. split; [cbn [i_ph ph_gen]; discriminate|].
      cbn [i_log]. intros out' [Hin|Hin]; [|apply Hl; exact Hin].
      inversion Hin as [[Hb Ho]]. subst out'.
      destruct (Hg g eq_refl) as [_ Hlt]. specialize (Hlt Hb).
      rewrite store_skip in Es; [inversion Es; reflexivity|]. lia.
    - inversion H; subst; clear H. split; [exact Hg|exact Hl].
    - inversion H; subst; clear H. split; [exact Hg|exact Hl].
    - inversion H; subst; clear H. split; [|exact Hl].
      cbn [i_ph i_cache i_bumped_since_compute bump s_gen]. intros g E.
      destruct (Hg g E) as [Hle Hlt]. split; [lia|]. intros _. lia.
    - inversion H; subst; clear H. split; [|exact Hl].
      cbn [i_ph i_cache i_bumped_since_compute]. intros g E. destruct (Hg g E) as [Hle Hlt].
      assert (Eg : s_gen (match w with
                          | WRemDoc id => fst (doc_remove (i_cache s) id)
                          | WRemInsert x => fst (insert_remove pre dle (i_cache s) x)
                          | WRemClear => clear_remove (i_cache s)
                          end) = s_gen (i_cache s)).
      { destruct w; [apply doc_remove_gen|apply insert_remove_gen|reflexivity]. }
      rewrite Eg. split; assumption.
  Qed.

  (* C07_no_store_after_invalidate: in every interleaving of the searcher's three steps with any
     number of writer steps, a conditional store that happens after a generation bump that
     followed the searcher's compute step is skipped (and leaves the cache unchanged). *)
  Theorem no_store_after_invalidate evs s :
    irun pre dle fresh_search cfg iinit evs = Some s ->
    forall out, In (true, out) (i_log s) -> out = SkippedGeneration.
  Proof.
    assert (G : forall evs s0, IInv s0 -> irun pre dle fresh_search cfg s0 evs = Some s -> IInv s).
    { induction evs0 as [|e evs0 IH]; intros s0 H0 H; cbn [irun] in H.
      - inversion H; subst. exact H0.
      - destruct (istep pre dle fresh_search cfg s0 e) as [s1|] eqn:E; [|discriminate].
        apply (IH s1); [apply (istep_IInv _ _ _ H0 E)|exact H]. }
    intro H. apply (G evs iinit); [|exact H].
    split; [cbn; discriminate|intros out []].
  Qed.
End EngineProofs.

(* ========================================================================================== *)
(* what an exact-key hit means inside the unit box                                             *)
(* ========================================================================================== *)

Definition near1 (x y : Q) : Prop := - (1 # 32768) < x - y /\ x - y < 1 # 32768.

Lemma rha_near (x y : Q) : rha x = rha y -> -1 < x - y /\ x - y < 1.
Proof.
  unfold rha. intro H.
  pose proof (Qfloor_le (x + (1#2))) as A1. pose proof (Qlt_floor (x + (1#2))) as A2.
  pose proof (Qfloor_le (- x + (1#2))) as B1. pose proof (Qlt_floor (- x + (1#2))) as B2.
  pose proof (Qfloor_le (y + (1#2))) as C1. pose proof (Qlt_floor (y + (1#2))) as C2.
  pose proof (Qfloor_le (- y + (1#2))) as D1. pose proof (Qlt_floor (- y + (1#2))) as D2.
  rewrite inject_Z_plus in A2, B2, C2, D2. change (inject_Z 1) with 1 in A2, B2, C2, D2.
  destruct (Qleb 0 x) eqn:Ex, (Qleb 0 y) eqn:Ey.
  - rewrite H in A1, A2. lra.
  - apply Qleb_iff in Ex. apply Qleb_false in Ey.
    assert (Hf : (0 <= Qfloor (x + (1#2)))%Z).
    { change 0%Z with (Qfloor 0). apply Qfloor_resp_le. lra. }
    assert (Hg : (0 <= Qfloor (- y + (1#2)))%Z).
    { change 0%Z with (Qfloor 0). apply Qfloor_resp_le. lra. }
    assert (E1 : Qfloor (x + (1#2)) = 0%Z) by lia.
    assert (E2 : Qfloor (- y + (1#2)) = 0%Z) by lia.
    rewrite E1 in A2. rewrite E2 in D2. change (inject_Z 0) with 0 in A2, D2. lra.
  - apply Qleb_false in Ex. apply Qleb_iff in Ey.
    assert (Hf : (0 <= Qfloor (y + (1#2)))%Z).
    { change 0%Z with (Qfloor 0). apply Qfloor_resp_le. lra. }
    assert (Hg : (0 <= Qfloor (- x + (1#2)))%Z).
    { change 0%Z with (Qfloor 0). apply Qfloor_resp_le. lra. }
    assert (E1 : Qfloor (y + (1#2)) = 0%Z) by lia.
    assert (E2 : Qfloor (- x + (1#2)) = 0%Z) by lia.
    rewrite E1 in C2. rewrite E2 in B2. change (inject_Z 0) with 0 in C2, B2. lra.
  - assert (E : Qfloor (- x + (1#2)) = Qfloor (- y + (1#2))) by lia.
    rewrite E in B1, B2. lra.
Qed.

Lemma quant1_fin (x : Q) : fin_scaled1 x = true -> quant1 x = rha (x * 32768).
Proof. unfold quant1. intro H. rewrite H. reflexivity. Qed.

Lemma same_cell_near (a b : vec) :
  fin_scaled a = true -> fin_scaled b = true -> quantise a = quantise b -> Forall2 near1 a b.
Proof.
  revert b. induction a as [|x a IH]; intros [|y b] Ha Hb H; cbn [quantise map] in H; try discriminate.
  - constructor.
  - cbn [fin_scaled forallb] in Ha, Hb. apply andb_true_iff in Ha. apply andb_true_iff in Hb.
    destruct Ha as [Ha1 Ha2], Hb as [Hb1 Hb2]. inversion H as [[H1 H2]].
    constructor; [|apply IH; assumption].
    rewrite (quant1_fin _ Ha1), (quant1_fin _ Hb1) in H1.
    apply rha_near in H1. unfold near1. lra.
Qed.

(* C07_hit_same_or_similar *)
Theorem hit_same_or_similar cfg ops scope q k r :
  let s := run_state cfg empty ops in
  fin_scaled q = true -> (forall e, In e (s_entries s) -> fin_scaled (e_query e) = true) ->
  snd (get_scoped cfg s scope q k) = Some r ->
  exists e, In e (s_entries s) /\ e_scope e = scope /\ (k <= e_kreq e)%nat /\
            r = firstn k (e_results e) /\
            (Forall2 near1 q (e_query e) \/ c_thr cfg * c_thr cfg < cos_ssq q (e_query e)).
Proof.
  intros s Hq Hbox H.
  assert (HC : CInv s) by (apply run_state_CInv; apply CInv_empty).
  pose proof (get_scoped_spec cfg s scope q k HC) as G. cbn zeta in G.
  destruct G as [_ [_ [_ [_ Hs]]]]. destruct (Hs r H) as [e [He [Hsc [Hk [Hr Hor]]]]].
  exists e. repeat split; auto. destruct Hor as [Hkey|Hsim]; [left|right; exact Hsim].
  destruct HC as [_ [_ HQ]]. rewrite (HQ e He) in Hkey.
  apply same_cell_near; auto.
Qed.

(* C07_scope / C07_k_monotone: both lookup paths *)
Theorem served_scope_k cfg ops scope q k r :
  let s := run_state cfg empty ops in
  snd (get_scoped cfg s scope q k) = Some r ->
  exists e, In e (s_entries s) /\ e_scope e = scope /\ (k <= e_kreq e)%nat /\
            r = firstn k (e_results e).
Proof.
  intros s H.
  assert (HC : CInv s) by (apply run_state_CInv; apply CInv_empty).
  pose proof (get_scoped_spec cfg s scope q k HC) as G. cbn zeta in G.
  destruct G as [_ [_ [_ [_ Hs]]]]. destruct (Hs r H) as [e [He [Hsc [Hk [Hr _]]]]].
  exists e. auto.
Qed.

(* ========================================================================================== *)
(* the concrete cache comparators as an instance of the engine section                         *)
(* ========================================================================================== *)

(* prefilter as invalidate_for_insert applies it: prefix_dims = min(32, len(insert)) *)
Definition pre_m (m : metric) : vec -> vec -> Q -> bool :=
  fun q x w => can_affect m (Nat.min prefix_dims (length x)) q x w.

Lemma invalidate_for_insert_as_gen s x m :
  invalidate_for_insert s x m = invalidate_for_insert_gen (pre_m m) (dist_le m) s x.
Proof. reflexivity. Qed.

Lemma pre_m_sound m q x w : length q = length x -> pre_m m q x w = false -> dist_le m q x w = false.
Proof. unfold pre_m. apply prefilter_sound. Qed.


(* the OLD (saturating i16) quantisation made dissimilar queries share a key; the current one does not *)
Lemma near1_dec_false (x y : Q) : Qleb (1 # 32768) (x - y) = true -> ~ near1 x y.
Proof. intros H [_ N]. apply Qleb_iff in H. lra. Qed.

Lemma old_quantisation_saturates :
  quantise_old [2; 7] = quantise_old [5; 3] /\ ~ Forall2 near1 [2; 7] [5; 3] /\
  quantise [2; 7] <> quantise [5; 3] /\
  snd (get_scoped (mkCfg 4 1 2000) (run_state (mkCfg 4 1 2000) empty [OInsert 0 [5; 3] [(1%N, 0)] 1]) 0 [2; 7] 1) = None.
Proof.
  split; [vm_compute; reflexivity|]. split.
  - intro H. inversion H as [|? ? ? ? _ H2]; subst. inversion H2 as [|? ? ? ? H3 _]; subst.
    revert H3. apply near1_dec_false. vm_compute. reflexivity.
  - split; [vm_compute; discriminate|vm_compute; reflexivity].
Qed.
