(* TenantIdMapper::{to_global_doc_id, is_tenant_doc_id, to_local_doc_id} REGENERATED from
   /repo/engine/src/bin/kyrodb_server.rs (gen/TenantId_gen.v, rewritten by harness/p/translator on every run):
   (i) equal to the hand-written functions of Model/Server.v on u32 tenant indices / u64 ids,
   (ii) round trip and tenant test over the generated functions themselves, (iii) the range check.
   A semantic edit of the Rust code (`<< 31`, `>` vs `>=`, another mask) breaks (i) and (ii)/(iii). *)
From Coq Require Import NArith Bool Lia.
From Kyro Require Import Model.Server gen.TenantId_gen.
Open Scope N_scope.

Definition two32 : N := 4294967296.
Definition two64 : N := 18446744073709551616.

Lemma shiftl32_small : forall t, t < two32 -> N.shiftl t 32 mod two64 = N.shiftl t 32.
Proof.
  intros t H. apply N.mod_small. rewrite N.shiftl_mul_pow2. change (2 ^ 32) with 4294967296.
  unfold two32, two64 in *. lia.
Qed.

Lemma shiftr32_small : forall g, g < two64 -> N.shiftr g 32 mod two32 = N.shiftr g 32.
Proof.
  intros g H. apply N.mod_small. rewrite N.shiftr_div_pow2. change (2 ^ 32) with 4294967296.
  unfold two32, two64 in *. apply N.div_lt_upper_bound; lia.
Qed.

(* (i) equality with Model/Server.v *)
Lemma gen_to_global_eq : forall t l, t < two32 ->
  TenantId_gen.to_global_doc_id t l = Server.to_global_doc_id t l.
Proof.
  intros t l H. unfold TenantId_gen.to_global_doc_id, Server.to_global_doc_id, U32_MAX.
  change 18446744073709551616 with two64. rewrite shiftl32_small by exact H. reflexivity.
Qed.

Lemma gen_is_tenant_eq : forall t g, g < two64 ->
  TenantId_gen.is_tenant_doc_id t g = Server.is_tenant_doc_id t g.
Proof.
  intros t g H. unfold TenantId_gen.is_tenant_doc_id, Server.is_tenant_doc_id, tenant_of.
  change 4294967296 with two32. rewrite shiftr32_small by exact H. reflexivity.
Qed.

Lemma gen_to_local_eq : forall g, TenantId_gen.to_local_doc_id g = Server.to_local_doc_id g.
Proof. intro g. reflexivity. Qed.

(* (ii) over the generated functions *)
Lemma shiftr32_of_small : forall l, l < two32 -> N.shiftr l 32 = 0.
Proof.
  intros l H. destruct (N.eq_dec l 0) as [->|Hl]; [reflexivity|].
  apply N.shiftr_eq_0. apply N.log2_lt_pow2; [lia|]. change (2 ^ 32) with 4294967296. exact H.
Qed.

Lemma gen_to_global_some : forall t l, l < two32 ->
  TenantId_gen.to_global_doc_id t l = Some (N.lor (N.shiftl t 32 mod two64) l).
Proof.
  intros t l H. unfold TenantId_gen.to_global_doc_id.
  replace (4294967295 <? l) with false; [reflexivity|].
  symmetry. apply N.ltb_ge. unfold two32 in H. lia.
Qed.

Lemma gen_round_trip : forall t l g, t < two32 -> l < two32 ->
  TenantId_gen.to_global_doc_id t l = Some g ->
  TenantId_gen.to_local_doc_id g = l /\
  (forall t', t' < two32 -> TenantId_gen.is_tenant_doc_id t' g = (t =? t')) /\
  g < two64.
Proof.
  intros t l g Ht Hl H. rewrite gen_to_global_some in H by exact Hl.
  rewrite shiftl32_small in H by exact Ht. inversion H; subst g; clear H.
  assert (Hg : N.lor (N.shiftl t 32) l < two64).
  { assert (E : N.lor (N.shiftl t 32) l = N.shiftl t 32 + l).
    { rewrite <- N.lxor_lor, N.add_nocarry_lxor; try reflexivity.
      all: apply N.bits_inj; intro n; rewrite N.land_spec, N.bits_0;
        destruct (N.lt_ge_cases n 32) as [Hn|Hn];
        [ rewrite N.shiftl_spec_low by exact Hn; reflexivity
        | replace (N.testbit l n) with false; [apply andb_false_r|];
          symmetry; destruct (N.eq_dec l 0) as [->|Hz]; [apply N.bits_0|];
          apply N.bits_above_log2; apply N.lt_le_trans with 32; [|exact Hn];
          apply N.log2_lt_pow2; [lia|]; change (2 ^ 32) with 4294967296; exact Hl ]. }
    rewrite E, N.shiftl_mul_pow2. change (2 ^ 32) with 4294967296. unfold two32, two64 in *. lia. }
  split; [|split].
  - unfold TenantId_gen.to_local_doc_id. change 4294967295 with (N.ones 32).
    rewrite N.land_ones, N.shiftl_mul_pow2.
    assert (E : N.lor (t * 2 ^ 32) l mod 2 ^ 32 = l).
    { rewrite <- N.land_ones, N.land_lor_distr_l, !N.land_ones.
      rewrite N.mod_mul by (change (2 ^ 32) with 4294967296; lia).
      rewrite N.lor_0_l. apply N.mod_small. change (2 ^ 32) with 4294967296. exact Hl. }
    exact E.
  - intros t' Ht'. unfold TenantId_gen.is_tenant_doc_id. change 4294967296 with two32.
    rewrite shiftr32_small by exact Hg.
    rewrite N.shiftr_lor, N.shiftr_shiftl_l by lia. replace (32 - 32) with 0 by lia.
    rewrite N.shiftl_0_r, shiftr32_of_small by exact Hl. rewrite N.lor_0_r. reflexivity.
  - exact Hg.
Qed.

(* (iii) the range check: exactly the local ids above u32::MAX are refused *)
Lemma gen_range_check : forall t l,
  (TenantId_gen.to_global_doc_id t l = None <-> two32 <= l).
Proof.
  intros t l. unfold TenantId_gen.to_global_doc_id.
  destruct (4294967295 <? l) eqn:E.
  - apply N.ltb_lt in E. split; [intros _; unfold two32; lia | reflexivity].
  - apply N.ltb_ge in E. split; [discriminate | intro H; unfold two32 in H; lia].
Qed.
