(* Proofs about Model/Locks.v: the rank discipline excludes deadlock, for any number of threads and
   any schedule (DESIGN.md §3 C08, §3.2 "Locks").

   Proof idea.  `tinv` is a per-thread invariant (the rest of the thread's program is well bracketed
   and rank increasing relative to what the thread holds now); only the thread's own steps touch it.
   In a state where no thread can move, every unfinished thread t waits for a lock l_t whose rank
   exceeds the rank of everything t holds.  Whatever blocks t, some thread u really holds l_t (if
   the blocker has only claimed the WRITER bit of l_t, it is itself waiting for a reader of l_t to
   leave, and that reader is u).  u is unfinished and blocked too, so rank l_u > rank l_t.  An
   unfinished thread with maximal awaited rank therefore cannot exist. *)
From Coq Require Import List NArith Bool Arith PeanoNat Lia.
From Kyro Require Import Model.Locks.
Import ListNotations.

Local Arguments avail : simpl never.
Local Arguments try_avail : simpl never.
Local Arguments readers : simpl never.
Local Arguments wbit : simpl never.
Local Arguments upg : simpl never.
Local Arguments held_any : simpl never.

Definition erase (hs : list hold) : sheld := map (fun h => (h_lock h, h_mode h)) hs.

Local Arguments erase : simpl never.

Lemma erase_remove : forall l hs, erase (remove_hold l hs) = sremove l (erase hs).
Proof.
  induction hs as [|h r IH]; [reflexivity|]. unfold erase in *. cbn.
  destruct (N.eqb (h_lock h) l); cbn; [reflexivity|]. f_equal. exact IH.
Qed.

Lemma sfind_erase : forall l hs, sfind l (erase hs) = option_map h_mode (find_hold l hs).
Proof.
  induction hs as [|h r IH]; [reflexivity|]. unfold erase in *. cbn.
  destruct (N.eqb (h_lock h) l); cbn; [reflexivity|]. exact IH.
Qed.

(* ------------------------------------------------------------------------------------------ *)
(* The per-thread invariant                                                                    *)
(* ------------------------------------------------------------------------------------------ *)

Definition tinv (rank : lock -> nat) (t : thread) : Prop :=
  let h := erase (t_held t) in
  if t_pend t
  then exists l r, (t_prog t = Acq l Write :: r \/ t_prog t = Upgrade l :: r) /\
                   gt_all rank l h = true /\
                   wb ((l, Write) :: h) r = true /\ ri rank ((l, Write) :: h) r = true
  else wb h (t_prog t) = true /\ ri rank h (t_prog t) = true.

Lemma tinv_init : forall rank p,
  well_bracketed p -> rank_increasing rank p -> tinv rank (mkThread p [] false).
Proof. intros rank p Hw Hr. unfold tinv; cbn. split; assumption. Qed.

Ltac split_andb :=
  repeat match goal with
         | H : _ && _ = true |- _ => apply andb_true_iff in H; destruct H
         end.

Lemma tinv_step : forall rank st t t', tinv rank t -> tstep st t = Some t' -> tinv rank t'.
Proof.
  intros rank st [p hs pd] t' Hinv Hstep.
  unfold tinv in Hinv; cbn in Hinv.
  destruct pd.
  - (* pending: the head is Acq l Write or Upgrade l *)
    destruct Hinv as (l & r & [Hp | Hp] & Hgt & Hwb & Hri); subst p;
      unfold tstep in Hstep; cbn in Hstep;
      destruct (readers st l); try discriminate;
      inversion Hstep; subst t'; unfold tinv; cbn; split; assumption.
  - destruct Hinv as [Hwb Hri].
    destruct p as [|i r]; [discriminate|].
    change (wb_pre (erase hs) i && wb (supd (erase hs) i) r = true) in Hwb.
    change (ri_pre rank (erase hs) i && ri rank (supd (erase hs) i) r = true) in Hri.
    apply andb_true_iff in Hwb. destruct Hwb as [Hpre Hwb].
    apply andb_true_iff in Hri. destruct Hri as [Hrpre Hri].
    destruct i as [l m | l m | l | l m | l]; unfold tstep in Hstep; cbn in Hstep.
    + (* Acq *)
      destruct m; cbn in Hstep;
        try (destruct (avail st l _); [|discriminate]; inversion Hstep; subst t';
             unfold tinv; cbn; split; assumption).
      (* Write: the claim step *)
      destruct (avail st l Write); [|discriminate]. inversion Hstep; subst t'.
      unfold tinv; cbn. exists l, r. repeat split; try assumption. now left.
    + (* TryAcq *)
      inversion Hstep; subst t'. unfold tinv; cbn. split; assumption.
    + (* Upgrade *)
      cbn [wb_pre] in Hpre. cbn [ri_pre] in Hrpre. cbn [supd] in Hwb, Hri.
      rewrite sfind_erase in Hpre.
      destruct (find_hold l hs) as [h0|] eqn:Hf; [|cbn in Hpre; discriminate].
      destruct (h_real h0).
      * inversion Hstep; subst t'. unfold tinv; cbn [t_pend t_held t_prog]. exists l, r.
        rewrite erase_remove. repeat split; try assumption. now right.
      * inversion Hstep; subst t'. unfold tinv; cbn [t_pend t_held t_prog].
        change (erase (mkHold l Write false :: remove_hold l hs)) with ((l, Write) :: erase (remove_hold l hs)).
        rewrite erase_remove. split; assumption.
    + (* Downgrade *)
      cbn [wb_pre] in Hpre. cbn [supd] in Hwb, Hri.
      rewrite sfind_erase in Hpre.
      destruct (find_hold l hs) as [h0|] eqn:Hf; [|cbn in Hpre; discriminate].
      inversion Hstep; subst t'. unfold tinv; cbn [t_pend t_held t_prog].
      change (erase (mkHold l m (h_real h0) :: remove_hold l hs)) with ((l, m) :: erase (remove_hold l hs)).
      rewrite erase_remove. split; assumption.
    + (* Rel *)
      cbn [supd] in Hwb, Hri.
      inversion Hstep; subst t'. unfold tinv; cbn [t_pend t_held t_prog]. rewrite erase_remove. split; assumption.
Qed.

Lemma Forall_replace_nth : forall {A} (P : A -> Prop) n x l,
  Forall P l -> P x -> Forall P (replace_nth n x l).
Proof.
  intros A P n x l; revert n. induction l as [|a r IH]; intros n Hl Hx; destruct n; cbn; auto.
  - inversion Hl; subst. constructor; assumption.
  - inversion Hl; subst. constructor; auto.
Qed.

Lemma tinv_thread_step : forall rank st tid st',
  Forall (tinv rank) st -> thread_step st tid = Some st' -> Forall (tinv rank) st'.
Proof.
  intros rank st tid st' Hall Hs. unfold thread_step in Hs.
  destruct (nth_error st tid) as [t|] eqn:Hn; [|discriminate].
  destruct (tstep st t) as [t'|] eqn:Ht; [|discriminate].
  inversion Hs; subst st'. apply Forall_replace_nth; [assumption|].
  eapply tinv_step; [|exact Ht].
  rewrite Forall_forall in Hall. apply Hall. eapply nth_error_In; exact Hn.
Qed.

Lemma tinv_run : forall rank sched st st',
  Forall (tinv rank) st -> run st sched = Some st' -> Forall (tinv rank) st'.
Proof.
  induction sched as [|tid r IH]; intros st st' Hall Hr; cbn in Hr.
  - inversion Hr; subst; assumption.
  - destruct (thread_step st tid) as [st1|] eqn:Hs; [|discriminate].
    eapply IH; [|exact Hr]. eapply tinv_thread_step; eassumption.
Qed.

(* ------------------------------------------------------------------------------------------ *)
(* Blocked threads                                                                             *)
(* ------------------------------------------------------------------------------------------ *)

Definition await (rank : lock -> nat) (t : thread) : nat :=
  match t_prog t with
  | Acq l _ :: _ => rank l
  | Upgrade l :: _ => rank l
  | _ => 0
  end.

Definition holder (st : state) (l : lock) : Prop :=
  exists u h, In u st /\ In h (t_held u) /\ h_lock h = l /\ h_real h = true.

Lemma holds_p_holder : forall p st l, existsb (holds_p p l) st = true -> holder st l.
Proof.
  intros p st l H. apply existsb_exists in H. destruct H as (u & Hu & Hh).
  unfold holds_p in Hh. apply existsb_exists in Hh. destruct Hh as (h & Hin & Hc).
  split_andb. exists u, h. repeat split; try assumption. now apply N.eqb_eq.
Qed.

Lemma gt_all_held : forall rank l hs h,
  gt_all rank l (erase hs) = true -> In h hs -> rank (h_lock h) < rank l.
Proof.
  intros rank l hs h Hg Hin. unfold gt_all in Hg. rewrite forallb_forall in Hg.
  specialize (Hg (h_lock h, h_mode h)). cbn in Hg. apply Nat.ltb_lt. apply Hg.
  unfold erase. apply in_map_iff. exists h. split; [reflexivity|assumption].
Qed.

(* a thread that has claimed the WRITER bit of l and cannot move is waiting for a reader of l *)
Lemma pending_blocked : forall rank st t l,
  tinv rank t -> pending_on l t = true -> tstep st t = None -> readers st l = true.
Proof.
  intros rank st [p hs pd] l Hinv Hp Hb. unfold pending_on in Hp; cbn in Hp.
  apply andb_true_iff in Hp. destruct Hp as [Hpd Hhead]. subst pd.
  unfold tinv in Hinv; cbn in Hinv.
  destruct Hinv as (l' & r & [Hq | Hq] & _); subst p; cbn in Hhead;
    apply N.eqb_eq in Hhead; subst l';
    unfold tstep in Hb; cbn in Hb; destruct (readers st l); [reflexivity|discriminate|reflexivity|discriminate].
Qed.

(* what an unfinished thread that cannot move is waiting for *)
Lemma blocked_awaits : forall rank st t,
  tinv rank t -> tstep st t = None -> t_prog t <> [] ->
  (forall h, In h (t_held t) -> rank (h_lock h) < await rank t) /\
  exists l, await rank t = rank l /\
            (wbit st l = true \/ upg st l = true \/ readers st l = true \/ held_any st l = true).
Proof.
  intros rank st [p hs pd] Hinv Hb Hne. unfold tinv in Hinv; cbn in Hinv. cbn in Hne.
  destruct pd.
  - destruct Hinv as (l & r & [Hp | Hp] & Hgt & _); subst p;
      unfold tstep in Hb; cbn in Hb; destruct (readers st l) eqn:Hr; try discriminate;
      (split; [intros h Hin; unfold await; cbn; eapply gt_all_held; eassumption
              | exists l; split; [reflexivity | right; right; left; exact Hr]]).
  - destruct Hinv as [Hwb Hri].
    destruct p as [|i r]; [congruence|].
    cbn in Hwb, Hri. split_andb.
    destruct i as [l m | l m | l | l m | l]; unfold tstep in Hb; cbn in Hb; try discriminate.
    + (* Acq l m *)
      cbn in H1.
      split; [intros h Hin; unfold await; cbn; eapply gt_all_held; eassumption|].
      exists l. split; [reflexivity|].
      destruct m; cbn in Hb; unfold avail in Hb.
      * destruct (wbit st l) eqn:E; cbn in Hb; [now left | discriminate].
      * destruct (wbit st l) eqn:E; cbn in Hb; [now left|].
        destruct (upg st l) eqn:E2; cbn in Hb; [right; now left | discriminate].
      * destruct (wbit st l) eqn:E; cbn in Hb; [now left|].
        destruct (upg st l) eqn:E2; cbn in Hb; [right; now left | discriminate].
      * destruct (held_any st l) eqn:E; cbn in Hb; [right; right; now right | discriminate].
    + (* Upgrade, not pending: always enabled *)
      destruct (find_hold l hs) as [h0|]; [destruct (h_real h0)|]; discriminate.
    + (* Downgrade *)
      destruct (find_hold l hs); discriminate.
Qed.

Lemma holder_of_blocker : forall rank st l,
  Forall (tinv rank) st -> (forall u, In u st -> tstep st u = None) ->
  (wbit st l = true \/ upg st l = true \/ readers st l = true \/ held_any st l = true) ->
  holder st l.
Proof.
  intros rank st l Hinv Hall [Hw | [Hu | [Hr | Ha]]];
    try (eapply holds_p_holder; eassumption).
  unfold wbit in Hw. apply existsb_exists in Hw. destruct Hw as (u & Hin & Hc).
  apply orb_true_iff in Hc. destruct Hc as [Hc | Hc].
  - unfold holds_p in Hc. apply existsb_exists in Hc. destruct Hc as (h & Hh & Hc).
    split_andb. exists u, h. repeat split; try assumption. now apply N.eqb_eq.
  - assert (Hrd : readers st l = true).
    { eapply pending_blocked; [|exact Hc|apply Hall; assumption].
      rewrite Forall_forall in Hinv. apply Hinv. exact Hin. }
    eapply holds_p_holder. exact Hrd.
Qed.

Lemma holder_not_done : forall rank u h, tinv rank u -> In h (t_held u) -> t_prog u <> [].
Proof.
  intros rank [p hs pd] h Hinv Hin. unfold tinv in Hinv; cbn in *.
  destruct pd.
  - destruct Hinv as (l & r & [Hp | Hp] & _); subst p; discriminate.
  - destruct Hinv as [Hwb _]. intros ->. cbn in Hwb.
    destruct hs; [contradiction|]. cbn in Hwb. discriminate.
Qed.

Lemma escalate : forall rank st t,
  Forall (tinv rank) st -> (forall u, In u st -> tstep st u = None) ->
  In t st -> t_prog t <> [] ->
  exists u, In u st /\ t_prog u <> [] /\ await rank t < await rank u.
Proof.
  intros rank st t Hinv Hall Hin Hne.
  assert (Hti : forall u, In u st -> tinv rank u) by (rewrite Forall_forall in Hinv; exact Hinv).
  destruct (blocked_awaits rank st t (Hti t Hin) (Hall t Hin) Hne) as [_ (l & Haw & Hcause)].
  destruct (holder_of_blocker rank st l Hinv Hall Hcause) as (u & h & Hu & Hh & Hl & _).
  assert (Hune : t_prog u <> []) by (eapply holder_not_done; [apply Hti; exact Hu | exact Hh]).
  destruct (blocked_awaits rank st u (Hti u Hu) (Hall u Hu) Hune) as [Hheld _].
  exists u. repeat split; try assumption.
  rewrite Haw, <- Hl. apply Hheld. exact Hh.
Qed.

Lemma max_exists : forall {A} (f : A -> nat) (l : list A),
  l <> [] -> exists x, In x l /\ forall y, In y l -> f y <= f x.
Proof.
  intros A f l. induction l as [|a r IH]; [congruence|]. intros _.
  destruct r as [|b r'].
  - exists a. split; [now left|]. intros y [<- | []]. lia.
  - destruct IH as (x & Hx & Hmax); [discriminate|].
    destruct (le_lt_dec (f a) (f x)).
    + exists x. split; [now right|]. intros y [<- | Hy]; [assumption | now apply Hmax].
    + exists a. split; [now left|]. intros y [<- | Hy]; [lia|]. specialize (Hmax y Hy). lia.
Qed.

Lemma stuck_all_done : forall rank st,
  Forall (tinv rank) st -> (forall u, In u st -> tstep st u = None) -> all_done st = true.
Proof.
  intros rank st Hinv Hall.
  destruct (all_done st) eqn:Hd; [reflexivity|exfalso].
  set (live := filter (fun t => negb (done t)) st).
  assert (Hlive : forall t, In t live <-> In t st /\ t_prog t <> []).
  { intro t. unfold live. rewrite filter_In. unfold done.
    destruct (t_prog t); cbn; split; intros [? ?]; split; congruence. }
  assert (Hne : live <> []).
  { unfold all_done in Hd. intro Hnil.
    assert (forallb done st = true); [|congruence].
    apply forallb_forall. intros t Ht. destruct (done t) eqn:E; [reflexivity|].
    assert (In t live) by (unfold live; apply filter_In; rewrite E; auto).
    rewrite Hnil in H. contradiction. }
  destruct (max_exists (await rank) live Hne) as (t & Ht & Hmax).
  apply Hlive in Ht. destruct Ht as [Hin Hprog].
  destruct (escalate rank st t Hinv Hall Hin Hprog) as (u & Hu & Hup & Hlt).
  assert (In u live) by (apply Hlive; auto).
  specialize (Hmax u H). lia.
Qed.

Lemma step_or_stuck : forall st ts,
  (exists t t', In t ts /\ tstep st t = Some t') \/ (forall t, In t ts -> tstep st t = None).
Proof.
  intros st ts. induction ts as [|a r IH].
  - right. intros t [].
  - destruct (tstep st a) as [a'|] eqn:E.
    + left. exists a, a'. split; [now left | assumption].
    + destruct IH as [(t & t' & Hin & Hs) | Hnone].
      * left. exists t, t'. split; [now right | assumption].
      * right. intros t [<- | Hin]; [assumption | now apply Hnone].
Qed.

(* ------------------------------------------------------------------------------------------ *)
(* The general theorem                                                                         *)
(* ------------------------------------------------------------------------------------------ *)

Theorem deadlock_free_of_rank_proof : forall (rank : lock -> nat) (progs : list prog),
  Forall well_bracketed progs -> Forall (rank_increasing rank) progs ->
  forall sched st, exec progs sched = Some st -> all_done st = false ->
  exists tid st', thread_step st tid = Some st'.
Proof.
  intros rank progs Hwb Hri sched st Hex Hnd.
  assert (Hinit : Forall (tinv rank) (init progs)).
  { unfold init. apply Forall_forall. intros t Ht. apply in_map_iff in Ht.
    destruct Ht as (p & <- & Hp). rewrite Forall_forall in Hwb, Hri.
    apply tinv_init; auto. }
  assert (Hinv : Forall (tinv rank) st) by (eapply tinv_run; eassumption).
  destruct (step_or_stuck st st) as [(t & t' & Hin & Hs) | Hnone].
  - destruct (In_nth_error _ _ Hin) as [tid Htid].
    exists tid, (replace_nth tid t' st). unfold thread_step. now rewrite Htid, Hs.
  - rewrite (stuck_all_done rank st Hinv Hnone) in Hnd. discriminate.
Qed.

(* Reflective form used by the per-run instance: one boolean evaluated by vm_compute. *)
Lemma all_ok_Forall : forall rank ps, all_ok rank ps = true ->
  Forall well_bracketed ps /\ Forall (rank_increasing rank) ps.
Proof.
  intros rank ps H. unfold all_ok in H. rewrite forallb_forall in H.
  split; apply Forall_forall; intros p Hp; specialize (H p Hp); unfold prog_ok in H;
    apply andb_true_iff in H; destruct H; assumption.
Qed.

Theorem deadlock_free_of_check : forall rank ps, all_ok rank ps = true -> deadlock_free ps.
Proof.
  intros rank ps H. destruct (all_ok_Forall rank ps H) as [Hw Hr].
  unfold deadlock_free. intros. eapply deadlock_free_of_rank_proof; eassumption.
Qed.

(* ------------------------------------------------------------------------------------------ *)
(* Clients: any number of threads, each issuing any sequence of the checked calls              *)
(* ------------------------------------------------------------------------------------------ *)

Lemma wb_app_nil : forall p h q, wb h p = true -> wb h (p ++ q) = wb [] q.
Proof.
  induction p as [|i r IH]; intros h q H; cbn in *.
  - destruct h; [reflexivity | discriminate].
  - apply andb_true_iff in H. destruct H as [H1 H2]. rewrite H1. cbn. now apply IH.
Qed.

Lemma ri_app_nil : forall rank p h q,
  wb h p = true -> ri rank h p = true -> ri rank h (p ++ q) = ri rank [] q.
Proof.
  induction p as [|i r IH]; intros h q Hw Hr; cbn in *.
  - destruct h; [reflexivity | discriminate].
  - apply andb_true_iff in Hw. destruct Hw as [_ Hw].
    apply andb_true_iff in Hr. destruct Hr as [Hr1 Hr2]. rewrite Hr1. cbn. now apply IH.
Qed.

Lemma client_ok : forall rank calls p,
  all_ok rank calls = true -> client_of calls p -> prog_ok rank p = true.
Proof.
  intros rank calls p Hok (cs & Hcs & ->).
  unfold all_ok in Hok. rewrite forallb_forall in Hok.
  induction cs as [|c r IH]; [reflexivity|].
  inversion Hcs; subst. specialize (Hok c H1). unfold prog_ok in *.
  apply andb_true_iff in Hok. destruct Hok as [Hw Hr].
  cbn [concat]. rewrite (wb_app_nil c [] (concat r) Hw), (ri_app_nil rank c [] (concat r) Hw Hr).
  apply IH. assumption.
Qed.

Theorem deadlock_free_family_of_check : forall rank calls,
  all_ok rank calls = true -> deadlock_free_family calls.
Proof.
  intros rank calls Hok threads Hth.
  apply deadlock_free_of_check with (rank := rank).
  unfold all_ok. apply forallb_forall. intros p Hp.
  rewrite Forall_forall in Hth. eapply client_ok; [exact Hok | apply Hth; exact Hp].
Qed.

(* ------------------------------------------------------------------------------------------ *)
(* Every execution can be completed: a state satisfying the invariant is never a dead end       *)
(* ------------------------------------------------------------------------------------------ *)

(* steps left: two per instruction, one less once the WRITER bit has been claimed *)
Definition tmeasure (t : thread) : nat := 2 * length (t_prog t) - (if t_pend t then 1 else 0).
Definition measure (st : state) : nat := fold_right (fun t acc => tmeasure t + acc) 0 st.

Lemma tstep_measure : forall rank st t t', tinv rank t -> tstep st t = Some t' -> tmeasure t' < tmeasure t.
Proof.
  intros rank st [p hs pd] t' Hinv Hs. unfold tinv in Hinv; cbn in Hinv. unfold tmeasure.
  destruct pd.
  - destruct Hinv as (l & r & [Hp | Hp] & _); subst p; unfold tstep in Hs; cbn in Hs;
      destruct (readers st l); try discriminate; inversion Hs; subst t'; cbn; lia.
  - clear Hinv. destruct p as [|i r]; [discriminate|].
    destruct i as [l m | l m | l | l m | l]; unfold tstep in Hs; cbn in Hs.
    + destruct m; cbn in Hs;
        match type of Hs with (if ?c then _ else _) = _ => destruct c; [|discriminate] end;
        inversion Hs; subst t'; cbn; lia.
    + inversion Hs; subst t'; cbn; lia.
    + destruct (find_hold l hs) as [h0|]; [destruct (h_real h0)|]; inversion Hs; subst t'; cbn; lia.
    + destruct (find_hold l hs); inversion Hs; subst t'; cbn; lia.
    + inversion Hs; subst t'; cbn; lia.
Qed.

Lemma measure_replace : forall n t' st t,
  nth_error st n = Some t -> tmeasure t' < tmeasure t -> measure (replace_nth n t' st) < measure st.
Proof.
  induction n as [|n IH]; intros t' st t Hn Hlt; destruct st as [|a r]; cbn in Hn; try discriminate.
  - inversion Hn; subst. unfold measure; cbn [replace_nth fold_right]. lia.
  - specialize (IH t' r t Hn Hlt). unfold measure in *; cbn [replace_nth fold_right]. lia.
Qed.

Theorem completes_of_rank : forall rank ps, all_ok rank ps = true ->
  forall sched st, exec ps sched = Some st ->
  exists sched' st', run st sched' = Some st' /\ all_done st' = true.
Proof.
  intros rank ps Hok sched st Hex.
  destruct (all_ok_Forall rank ps Hok) as [Hwb Hri].
  assert (Hinit : Forall (tinv rank) (init ps)).
  { unfold init. apply Forall_forall. intros t Ht. apply in_map_iff in Ht.
    destruct Ht as (p & <- & Hp). rewrite Forall_forall in Hwb, Hri. apply tinv_init; auto. }
  assert (Hinv : Forall (tinv rank) st) by (eapply tinv_run; eassumption).
  clear Hex Hinit. remember (measure st) as n eqn:Hn. revert st Hn Hinv.
  induction n as [n IH] using lt_wf_ind. intros st Hn Hinv.
  destruct (all_done st) eqn:Hd.
  - exists [], st. split; [reflexivity | assumption].
  - destruct (step_or_stuck st st) as [(t & t' & Hin & Hs) | Hnone].
    + destruct (In_nth_error _ _ Hin) as [tid Htid].
      assert (Hti : tinv rank t) by (rewrite Forall_forall in Hinv; auto).
      assert (Hlt : measure (replace_nth tid t' st) < n).
      { subst n. eapply measure_replace; [exact Htid|]. eapply tstep_measure; eassumption. }
      destruct (IH _ Hlt (replace_nth tid t' st) eq_refl) as (s' & st' & Hr & Hdone).
      { apply Forall_replace_nth; [assumption|]. eapply tinv_step; eassumption. }
      exists (tid :: s'), st'. split; [|assumption].
      cbn. unfold thread_step. rewrite Htid, Hs. exact Hr.
    + rewrite (stuck_all_done rank st Hinv Hnone) in Hd. discriminate.
Qed.
