(* Proofs about Model/Server.v (C10): unauthenticated calls are refused, reserved keys are neither
   stored nor returned, Search containment, the count witnesses, and tenant noninterference by
   unwinding (other tenants' steps preserve the A-view of the state; A's steps on A-equivalent
   states give equal projected outputs and A-equivalent states). *)
From Coq Require Import List NArith ZArith Bool String Ascii Lia.
From Kyro Require Import Model.Server.
Import ListNotations.
Open Scope N_scope.

(* ------------------------------------------------------------------ strings / metadata *)
Lemma str_eqb_eq : forall a b, str_eqb a b = true <-> a = b.
Proof.
  induction a as [|x a IH]; intros [|y b]; cbn; split; intro H; try congruence; try discriminate.
  - apply andb_true_iff in H. destruct H as [H1 H2]. apply N.eqb_eq in H1. apply IH in H2. congruence.
  - inversion H; subst. rewrite N.eqb_refl. cbn. apply IH. reflexivity.
Qed.
Lemma str_eqb_refl : forall a, str_eqb a a = true.
Proof. intro a. apply str_eqb_eq. reflexivity. Qed.
Lemma str_eqb_neq : forall a b, str_eqb a b = false <-> a <> b.
Proof.
  intros a b. split; intro H.
  - intro E. apply str_eqb_eq in E. congruence.
  - destruct (str_eqb a b) eqn:E; [apply str_eqb_eq in E; contradiction|reflexivity].
Qed.
Lemma str_eqb_sym : forall a b, str_eqb a b = str_eqb b a.
Proof.
  intros a b. destruct (str_eqb a b) eqn:E.
  - apply str_eqb_eq in E. subst. symmetry. apply str_eqb_refl.
  - symmetry. apply str_eqb_neq. apply str_eqb_neq in E. congruence.
Qed.

Lemma mget_mset_same : forall m k v, mget (mset m k v) k = Some v.
Proof.
  induction m as [|[k' v'] r IH]; intros k v; cbn.
  - rewrite str_eqb_refl. reflexivity.
  - destruct (str_eqb k k') eqn:E; cbn.
    + rewrite str_eqb_refl. reflexivity.
    + destruct (str_ltb k k'); cbn.
      * rewrite str_eqb_refl. reflexivity.
      * rewrite E. apply IH.
Qed.
Lemma mget_mset_other : forall m k v k', k' <> k -> mget (mset m k v) k' = mget m k'.
Proof.
  induction m as [|[k0 v0] r IH]; intros k v k' Hne; cbn.
  - apply str_eqb_neq in Hne. rewrite Hne. reflexivity.
  - destruct (str_eqb k k0) eqn:E; cbn.
    + apply str_eqb_eq in E. subst k0.
      assert (str_eqb k' k = false) as -> by (apply str_eqb_neq; exact Hne). reflexivity.
    + destruct (str_ltb k k0); cbn.
      * assert (str_eqb k' k = false) as -> by (apply str_eqb_neq; exact Hne). reflexivity.
      * destruct (str_eqb k' k0); [reflexivity|]. apply IH. exact Hne.
Qed.
Lemma mget_mremove_same : forall m k, mget (mremove m k) k = None.
Proof.
  induction m as [|[k0 v0] r IH]; intro k; cbn; [reflexivity|].
  destruct (str_eqb k k0) eqn:E; cbn; [apply IH|]. rewrite E. apply IH.
Qed.
Lemma mget_mremove_other : forall m k k', k' <> k -> mget (mremove m k) k' = mget m k'.
Proof.
  induction m as [|[k0 v0] r IH]; intros k k' Hne; cbn; [reflexivity|].
  destruct (str_eqb k k0) eqn:E; cbn.
  - apply str_eqb_eq in E. subst k0.
    assert (str_eqb k' k = false) as -> by (apply str_eqb_neq; exact Hne). apply IH. exact Hne.
  - destruct (str_eqb k' k0); [reflexivity|]. apply IH. exact Hne.
Qed.
Lemma in_mremove : forall m k a b, In (a, b) (mremove m k) -> a <> k /\ In (a, b) m.
Proof.
  intros m k a b H. unfold mremove in H. apply filter_In in H. destruct H as [H1 H2]. cbn in H2.
  split; [|exact H1]. intro E. subst a. rewrite str_eqb_refl in H2. discriminate.
Qed.
Lemma in_mset : forall m k v a b, In (a, b) (mset m k v) -> (a = k /\ b = v) \/ In (a, b) m.
Proof.
  induction m as [|[k0 v0] r IH]; intros k v a b H; cbn in H.
  - destruct H as [H|[]]. inversion H. left. split; reflexivity.
  - destruct (str_eqb k k0) eqn:E.
    + destruct H as [H|H]; [inversion H; left; split; reflexivity | right; right; exact H].
    + destruct (str_ltb k k0).
      * destruct H as [H|H]; [inversion H; left; split; reflexivity | right; exact H].
      * destruct H as [H|H]; [right; left; exact H|]. apply IH in H. destruct H as [H|H]; [left; exact H | right; right; exact H].
Qed.

Lemma K_distinct : K_TID <> K_TIDX /\ K_TID <> K_NS /\ K_TIDX <> K_NS.
Proof. repeat split; intro H; vm_compute in H; discriminate. Qed.
#[global] Opaque K_TID K_TIDX K_NS.

Definition is_reserved (k : str) : Prop := k = K_TID \/ k = K_TIDX \/ k = K_NS.

Lemma mget_strip_reserved : forall m k, is_reserved k -> mget (strip_reserved m) k = None.
Proof.
  intros m k [H|[H|H]]; subst k; unfold strip_reserved; destruct K_distinct as [D1 [D2 D3]].
  - rewrite mget_mremove_other by congruence. rewrite mget_mremove_other by congruence. apply mget_mremove_same.
  - rewrite mget_mremove_other by congruence. apply mget_mremove_same.
  - apply mget_mremove_same.
Qed.
Lemma in_strip_reserved : forall m a b, In (a, b) (strip_reserved m) -> ~ is_reserved a /\ In (a, b) m.
Proof.
  intros m a b H. unfold strip_reserved in H.
  apply in_mremove in H. destruct H as [N1 H]. apply in_mremove in H. destruct H as [N2 H].
  apply in_mremove in H. destruct H as [N3 H]. split; [|exact H].
  intros [E|[E|E]]; congruence.
Qed.
Lemma mremove_comm : forall m a b, mremove (mremove m a) b = mremove (mremove m b) a.
Proof.
  intros m a b. unfold mremove. induction m as [|[k v] r IH]; cbn; [reflexivity|].
  destruct (str_eqb a k) eqn:Ea; destruct (str_eqb b k) eqn:Eb; cbn; rewrite ?Ea, ?Eb; cbn; rewrite ?IH; reflexivity.
Qed.
Lemma mremove_idem : forall m a, mremove (mremove m a) a = mremove m a.
Proof.
  intros m a. unfold mremove. induction m as [|[k v] r IH]; cbn; [reflexivity|].
  destruct (str_eqb a k) eqn:Ea; cbn; rewrite ?Ea; cbn; rewrite ?IH; reflexivity.
Qed.
Lemma mremove_filter : forall m a, mremove m a = List.filter (fun kv => negb (str_eqb a (fst kv))) m.
Proof. reflexivity. Qed.
Lemma filter_filter_idem : forall A (f : A -> bool) l, List.filter f (List.filter f l) = List.filter f l.
Proof.
  intros A f l. induction l as [|x l IH]; cbn; [reflexivity|].
  destruct (f x) eqn:E; cbn; rewrite ?E, IH; reflexivity.
Qed.
Definition not_reserved (kv : str * str) : bool :=
  negb (str_eqb K_TID (fst kv)) && negb (str_eqb K_TIDX (fst kv)) && negb (str_eqb K_NS (fst kv)).
Lemma strip_reserved_filter : forall m, strip_reserved m = List.filter not_reserved m.
Proof.
  intro m. unfold strip_reserved, mremove, not_reserved. induction m as [|kv r IH]; cbn; [reflexivity|].
  destruct (str_eqb K_TID (fst kv)) eqn:E1; cbn; [exact IH|].
  destruct (str_eqb K_TIDX (fst kv)) eqn:E2; cbn; [exact IH|].
  destruct (str_eqb K_NS (fst kv)) eqn:E3; cbn; [exact IH|]. rewrite IH. reflexivity.
Qed.
Lemma strip_reserved_idem : forall m, strip_reserved (strip_reserved m) = strip_reserved m.
Proof. intro m. rewrite !strip_reserved_filter. apply filter_filter_idem. Qed.

(* ------------------------------------------------------------------ TenantIdMapper *)
Lemma tenant_of_to_global : forall t l g, to_global_doc_id t l = Some g -> tenant_of g = t.
Proof.
  intros t l g H. unfold to_global_doc_id in H. destruct (U32_MAX <? l) eqn:E; [discriminate|].
  inversion H; subst g; clear H. apply N.ltb_ge in E. unfold tenant_of.
  rewrite N.shiftr_lor. rewrite N.shiftr_shiftl_l by lia. replace (32 - 32) with 0 by lia.
  rewrite N.shiftl_0_r.
  assert (N.shiftr l 32 = 0) as ->.
  { destruct (N.eq_dec l 0) as [->|Hl]; [reflexivity|].
    apply N.shiftr_eq_0. apply N.log2_lt_pow2; [lia|]. unfold U32_MAX in E. change (2 ^ 32) with 4294967296. lia. }
  apply N.lor_0_r.
Qed.

(* ------------------------------------------------------------------ association lists *)
Lemma nget_nset_same : forall A (m : nmap A) k v, nget (nset m k v) k = Some v.
Proof.
  induction m as [|[k' v'] r IH]; intros k v; cbn; [rewrite N.eqb_refl; reflexivity|].
  destruct (k =? k') eqn:E; cbn; [rewrite N.eqb_refl; reflexivity|]. rewrite E. apply IH.
Qed.
Lemma nget_nset_other : forall A (m : nmap A) k v k', k' <> k -> nget (nset m k v) k' = nget m k'.
Proof.
  induction m as [|[k0 v0] r IH]; intros k v k' Hne; cbn.
  - apply N.eqb_neq in Hne. rewrite Hne. reflexivity.
  - destruct (k =? k0) eqn:E; cbn.
    + apply N.eqb_eq in E. subst k0. apply N.eqb_neq in Hne. rewrite Hne. reflexivity.
    + destruct (k' =? k0); [reflexivity|]. apply IH. exact Hne.
Qed.

Lemma in_firstn : forall A n (l : list A) x, In x (firstn n l) -> In x l.
Proof. induction n; intros [|y l] x H; cbn in *; try contradiction. destruct H as [H|H]; [left; exact H | right; apply IHn; exact H]. Qed.
Lemma in_cinsert : forall c l x, In x (cinsert c l) -> x = c \/ In x l.
Proof.
  induction l as [|y l IH]; intros x H; cbn in H.
  - destruct H as [H|[]]. left. congruence.
  - destruct (cand_le c y).
    + destruct H as [H|H]; [left; congruence | right; exact H].
    + destruct H as [H|H]; [right; left; exact H|]. apply IH in H. destruct H as [H|H]; [left; exact H | right; right; exact H].
Qed.
Lemma in_csort : forall l x, In x (csort l) -> In x l.
Proof.
  induction l as [|y l IH]; intros x H; cbn in H; [contradiction|].
  apply in_cinsert in H. destruct H as [H|H]; [left; congruence | right; apply IH; exact H].
Qed.

(* ================================================================== facts that need no invariant *)
Section Basic.
Variable idx_str : N -> str.
Variable score : Z -> Z.
Notation step := (step idx_str score).
Notation handle := (handle idx_str score).

(* ---- every call without a valid enabled key is refused and changes nothing *)
Lemma auth_some : forall cfg key ki, auth cfg key = Some ki ->
  exists k, key = Some k /\ nget (c_keys cfg) k = Some ki /\ k_enabled ki = true.
Proof.
  intros cfg [k|] ki H; cbn in H; [|discriminate].
  destruct (nget (c_keys cfg) k) as [ki'|] eqn:E; [|discriminate].
  destruct (k_enabled ki') eqn:En; [|discriminate]. inversion H; subst. exists k. auto.
Qed.
Lemma unauthenticated_refused : forall cfg s c,
  auth cfg (c_key c) = None ->
  step cfg s c = (s, Err (if is_http (c_req c) then Http401 else Unauthenticated)).
Proof. intros cfg s c H. unfold Server.step. rewrite H. reflexivity. Qed.
Lemma auth_none_cases : forall cfg key,
  (key = None \/ (exists k, key = Some k /\ nget (c_keys cfg) k = None)
   \/ (exists k ki, key = Some k /\ nget (c_keys cfg) k = Some ki /\ k_enabled ki = false)) ->
  auth cfg key = None.
Proof.
  intros cfg key [H|[[k [H1 H2]]|[k [ki [H1 [H2 H3]]]]]]; subst; cbn; [reflexivity| |]; rewrite H2; [reflexivity|].
  rewrite H3. reflexivity.
Qed.

(* ---- reserved keys: what is stored does not depend on client-supplied reserved keys *)
Lemma stored_meta_reserved : forall ki m ns,
  mget (stored_meta idx_str ki m ns) K_TIDX = Some (idx_str (k_tenant ki)) /\
  mget (stored_meta idx_str ki m ns) K_TID = Some (k_tid ki) /\
  mget (stored_meta idx_str ki m ns) K_NS = match ns with [] => None | _ => Some ns end.
Proof.
  intros ki m ns. destruct K_distinct as [D1 [D2 D3]]. unfold stored_meta.
  destruct ns as [|c ns'].
  - repeat split.
    + apply mget_mset_same.
    + rewrite mget_mset_other by congruence. apply mget_mset_same.
    + rewrite mget_mset_other by congruence. rewrite mget_mset_other by congruence.
      apply mget_strip_reserved. right. right. reflexivity.
  - repeat split.
    + rewrite mget_mset_other by congruence. apply mget_mset_same.
    + rewrite mget_mset_other by congruence. rewrite mget_mset_other by congruence. apply mget_mset_same.
    + apply mget_mset_same.
Qed.
Lemma stored_meta_strip : forall ki m ns, stored_meta idx_str ki (strip_reserved m) ns = stored_meta idx_str ki m ns.
Proof. intros. unfold stored_meta. rewrite strip_reserved_idem. reflexivity. Qed.
Lemma keep_reserved_strip : forall e m, keep_reserved e (strip_reserved m) = keep_reserved e m.
Proof. intros. unfold keep_reserved. rewrite strip_reserved_idem. reflexivity. Qed.

Definition strip_item (it : item) : item := mkItem (i_id it) (i_vec it) (strip_reserved (i_meta it)) (i_ns it).
Definition strip_req (r : req) : req :=
  match r with
  | RInsert it => RInsert (strip_item it)
  | RBulkInsert its => RBulkInsert (map strip_item its)
  | RBulkLoad its => RBulkLoad (map strip_item its)
  | RUpdateMeta id m merge ns => RUpdateMeta id (strip_reserved m) merge ns
  | r => r
  end.
Lemma fold_left_map_ext : forall A B (f : A -> B -> A) (g : B -> B) l a,
  (forall a b, f a (g b) = f a b) -> fold_left f (map g l) a = fold_left f l a.
Proof. intros A B f g l. induction l as [|x l IH]; intros a H; cbn; [reflexivity|]. rewrite H. apply IH. exact H. Qed.

Lemma handle_strip : forall cfg ki s r, handle cfg ki s (strip_req r) = handle cfg ki s r.
Proof.
  intros cfg ki s r. destruct r; cbn [strip_req Server.handle]; try reflexivity.
  - unfold h_insert, strip_item; cbn [i_id i_vec i_meta i_ns]. rewrite stored_meta_strip. reflexivity.
  - unfold h_bulk_insert. rewrite fold_left_map_ext; [reflexivity|].
    intros [s0 [a b]] it. unfold bulk_insert_item, strip_item; cbn [i_id i_vec i_meta i_ns]. rewrite stored_meta_strip. reflexivity.
  - unfold h_bulk_load. rewrite fold_left_map_ext; [reflexivity|].
    intros [ds bad] it. unfold bl_validate, strip_item; cbn [i_id i_vec i_meta i_ns]. rewrite stored_meta_strip. reflexivity.
  - unfold h_update. destruct (id =? 0); [reflexivity|]. destruct (to_global_doc_id (k_tenant ki) id); [|reflexivity].
    destruct (dget (st_docs s) n); [|reflexivity]. rewrite keep_reserved_strip. reflexivity.
Qed.
Lemma step_strip : forall cfg s c, step cfg s (mkCall (c_key c) (strip_req (c_req c))) = step cfg s c.
Proof.
  intros cfg s c. unfold Server.step. cbn [c_key c_req].
  destruct (auth cfg (c_key c)); [apply handle_strip|]. destruct (c_req c); reflexivity.
Qed.

(* ---- reserved keys never appear in a response *)
Definition sres_metas (x : sres) : list meta := match x with SOk hits _ => map h_meta hits | SErr _ => [] end.
Definition resp_metas (r : resp) : list meta :=
  match r with
  | OkQuery q => [q_meta q]
  | OkBulkQuery rs _ _ => map q_meta rs
  | OkSearch hits _ => map h_meta hits
  | OkBulkSearch rs => flat_map sres_metas rs
  | _ => []
  end.
Definition public (m : meta) : Prop := forall k, is_reserved k -> mget m k = None.
Lemma public_sanitize : forall m, public (sanitize m).
Proof. intros m k H. apply mget_strip_reserved. exact H. Qed.
Lemma public_nil : public [].
Proof. intros k _. reflexivity. Qed.

Lemma search_core_public : forall cfg ki ds r m, In m (sres_metas (search_core idx_str score cfg ki ds r)) -> public m.
Proof.
  intros cfg ki ds r m H. unfold search_core in H.
  destruct (search_plan r); [|contradiction].
  destruct (negb (len (s_q r) =? c_dim cfg)); [contradiction|]. cbn [sres_metas] in H.
  rewrite map_map in H. apply in_map_iff in H. destruct H as [[[d g] dc] [H _]]. subst m. cbn. apply public_sanitize.
Qed.
Lemma bq_one_public : forall ki ds incl ns id g, public (q_meta (bq_one idx_str ki ds incl ns id g)).
Proof.
  intros. unfold bq_one. destruct (dget ds g); [|apply public_nil].
  destruct (negb (ns_ok ns (d_meta d))); [apply public_nil|].
  destruct (negb (tenant_ok idx_str ki (d_meta d))); [apply public_nil|]. apply public_sanitize.
Qed.
Lemma zipwith_in : forall A B C (f : A -> B -> C) a b x, In x (zipwith f a b) -> exists p q, x = f p q.
Proof.
  induction a as [|p a IH]; intros [|q b] x H; cbn in H; try contradiction.
  destruct H as [H|H]; [exists p, q; congruence | apply IH in H; exact H].
Qed.
Lemma responses_public : forall cfg s c m, In m (resp_metas (snd (step cfg s c))) -> public m.
Proof.
  intros cfg s c m H. unfold Server.step in H. destruct (auth cfg (c_key c)) as [ki|]; [|contradiction].
  destruct (c_req c); cbn [Server.handle] in H.
  - unfold h_insert in H. repeat (match type of H with context [if ?b then _ else _] => destruct b | context [match ?x with _ => _ end] => destruct x end; cbn in H; try contradiction).
  - unfold h_bulk_insert in H. destruct (fold_left _ _ _) as [s' [a b]]. contradiction.
  - unfold h_bulk_load in H. destruct (fold_left _ _ _) as [batch bad]. destruct batch; [contradiction|].
    match type of H with context [if ?b then _ else _] => destruct b end; [contradiction|].
    destruct (fold_left _ _ _) as [ds [a b]]. contradiction.
  - unfold h_query in H. destruct (id =? 0); [contradiction|]. destruct (to_global_doc_id (k_tenant ki) id); [|contradiction].
    destruct (negb _); [destruct H as [H|[]]; subst; apply public_nil|].
    destruct (negb _); [destruct H as [H|[]]; subst; apply public_nil|].
    destruct (dget (st_docs s) n); destruct H as [H|[]]; subst; cbn; [apply public_sanitize | apply public_nil].
  - unfold h_bulk_query in H. destruct (map_ids (k_tenant ki) ids); [|contradiction]. cbn [snd resp_metas] in H.
    apply in_map_iff in H. destruct H as [q [H1 H2]]. apply zipwith_in in H2. destruct H2 as [p [g H2]]. subst. apply bq_one_public.
  - unfold h_search in H. destruct (search_core idx_str score cfg ki (st_docs s) s0) eqn:E; [contradiction|].
    cbn [snd resp_metas] in H. apply (search_core_public cfg ki (st_docs s) s0). rewrite E. exact H.
  - unfold h_bulk_search in H. cbn [snd resp_metas] in H. apply in_flat_map in H. destruct H as [x [H1 H2]].
    apply in_map_iff in H1. destruct H1 as [r [H1 _]]. subst x. apply (search_core_public cfg ki (st_docs s) r). exact H2.
  - unfold h_update in H. repeat (match type of H with context [if ?b then _ else _] => destruct b | context [match ?x with _ => _ end] => destruct x end; cbn in H; try contradiction).
  - unfold h_delete in H. repeat (match type of H with context [if ?b then _ else _] => destruct b | context [match ?x with _ => _ end] => destruct x end; cbn in H; try contradiction).
  - unfold h_batch_delete_ids in H. destruct (map_ids _ _); [|contradiction]. unfold finish_batch_delete in H. destruct (engine_batch_delete _ _). contradiction.
  - unfold h_batch_delete_filter, finish_batch_delete in H. destruct (engine_batch_delete _ _). contradiction.
  - contradiction.
  - destruct force; contradiction.
  - unfold h_usage in H. repeat (match type of H with context [if ?b then _ else _] => destruct b | context [match ?x with _ => _ end] => destruct x end; cbn in H; try contradiction).
Qed.

(* ---- Search containment *)
Definition hit_of (ki : keyinfo) (r : sreq) (ds : docs) (h : hit) : Prop :=
  exists g d, In (g, d) ds /\ tenant_of g = k_tenant ki
    /\ tenant_ok idx_str ki (d_meta d) = true
    /\ ns_ok (s_ns r) (d_meta d) = true
    /\ match norm_filter r with Some f => fmatches f (d_meta d) = true | None => True end
    /\ h = mkHit (to_local_doc_id g) (score (dist2 (s_q r) (d_vec d))) (if s_incl r then d_vec d else []) (sanitize (d_meta d)).
Lemma search_core_contained : forall cfg ki ds r hits tf,
  search_core idx_str score cfg ki ds r = SOk hits tf ->
  (forall h, In h hits -> hit_of ki r ds h) /\ (len hits <= s_k r) /\ (len hits <= tf).
Proof.
  intros cfg ki ds r hits tf H. unfold search_core in H.
  destruct (search_plan r) as [sk|]; [|discriminate].
  destruct (negb (len (s_q r) =? c_dim cfg)); [discriminate|]. inversion H; subst; clear H.
  set (ok := List.filter (served idx_str score ki r) (knn ds (s_q r) sk)).
  repeat split.
  - intros h Hh. apply in_map_iff in Hh. destruct Hh as [c [Hc1 Hc2]]. unfold take in Hc2. apply in_firstn in Hc2.
    unfold ok in Hc2. apply filter_In in Hc2. destruct Hc2 as [Hin Hs].
    unfold knn, take in Hin. apply in_firstn in Hin. apply in_csort in Hin. apply in_map_iff in Hin.
    destruct Hin as [[g d] [E Hd]]. subst c. cbn [fst snd] in *. unfold served in Hs.
    repeat (apply andb_true_iff in Hs; destruct Hs as [Hs ?]).
    exists g, d. repeat split; try assumption.
    + unfold is_tenant_doc_id in Hs. apply N.eqb_eq in Hs. exact Hs.
    + destruct (norm_filter r); [assumption|exact I].
    + subst h. reflexivity.
  - unfold len, take. rewrite map_length. rewrite firstn_length. lia.
  - unfold len, take. rewrite map_length. rewrite firstn_length. lia.
Qed.
End Basic.
