From Coq Require Import List Arith NArith Bool Lia.
From Kyro Require Import Model.Periodic.
Import ListNotations.
Open Scope N_scope.

Definition PI (s : pst) : Prop := p_last s <= p_now s /\ Forall (fun x => p_last s <= x) (p_pending s).

Lemma PI_init t0 : PI (pinit t0).
Proof. split; cbn; [lia | constructor]. Qed.

Lemma PI_step iv s dt : PI s -> PI (pstep iv s dt).
Proof.
  intros [Hl Hp]. unfold pstep. destruct (due iv s (p_now s + dt)); split; cbn; try lia.
  - constructor.
  - apply Forall_app. split; [exact Hp | constructor; [lia | constructor]].
Qed.

Lemma PI_run iv evs : forall s, PI s -> PI (fold_left (pstep iv) evs s).
Proof. induction evs as [|e evs IH]; cbn; intros s H; [exact H | apply IH, PI_step, H]. Qed.

Lemma durable_mono_step iv s dt : (length (p_durable s) <= length (p_durable (pstep iv s dt)))%nat.
Proof. unfold pstep. destruct (due iv s (p_now s + dt)); cbn; rewrite ?app_length; lia. Qed.

Lemma durable_mono_run iv evs : forall s,
  (length (p_durable s) <= length (p_durable (fold_left (pstep iv) evs s)))%nat.
Proof.
  induction evs as [|e evs IH]; cbn; intros s; [lia |].
  eapply Nat.le_trans; [apply (durable_mono_step iv s e) | apply IH].
Qed.

Lemma acked_step iv s dt : acked (pstep iv s dt) = acked s ++ [p_now s + dt].
Proof.
  unfold acked, pstep. destruct (due iv s (p_now s + dt)); cbn.
  - rewrite app_nil_r, app_assoc. reflexivity.
  - rewrite app_assoc. reflexivity.
Qed.

Lemma acked_run iv evs : forall s, exists l,
  acked (fold_left (pstep iv) evs s) = acked s ++ l /\ length l = length evs.
Proof.
  induction evs as [|e evs IH]; cbn; intros s.
  - exists []. rewrite app_nil_r. auto.
  - destruct (IH (pstep iv s e)) as [l [Hl Hn]]. rewrite acked_step in Hl.
    exists ((p_now s + e) :: l). rewrite Hl, <- app_assoc. cbn. auto.
Qed.

Lemma now_step iv s dt : p_now (pstep iv s dt) = p_now s + dt.
Proof. unfold pstep. destruct (due iv s (p_now s + dt)); reflexivity. Qed.

(* The step that matters: an entry acknowledged at ti is covered by the first append that happens at
   least one interval later. *)
Lemma followed_step iv s i ti dj :
  PI s -> nth_error (acked s) i = Some ti -> ti + iv <= p_now s + dj ->
  (i < length (p_durable (pstep iv s dj)))%nat.
Proof.
  intros [Hl Hp] Hn Ht.
  destruct (Nat.lt_ge_cases i (length (p_durable s))) as [Hd|Hd].
  - eapply Nat.lt_le_trans; [exact Hd | apply durable_mono_step].
  - assert (Hi : (i < length (acked s))%nat) by (apply nth_error_Some; congruence).
    unfold acked in Hn, Hi. rewrite nth_error_app2 in Hn by exact Hd.
    apply nth_error_In in Hn. rewrite Forall_forall in Hp. specialize (Hp _ Hn).
    unfold pstep. assert (Hdue : due iv s (p_now s + dj) = true).
    { unfold due. apply orb_true_iff. right. apply N.leb_le. lia. }
    rewrite Hdue. cbn. rewrite app_length in Hi. rewrite !app_length. cbn. lia.
Qed.

Theorem periodic_followed_durable : forall iv t0 pre d mid dj post,
  p_now (prun iv t0 (pre ++ [d])) + iv <= p_now (prun iv t0 (pre ++ [d] ++ mid ++ [dj])) ->
  (length pre < length (p_durable (prun iv t0 (pre ++ [d] ++ mid ++ [dj] ++ post))))%nat.
Proof.
  intros iv t0 pre d mid dj post. unfold prun.
  rewrite !fold_left_app. cbn [fold_left].
  set (s0 := fold_left (pstep iv) pre (pinit t0)).
  set (si := pstep iv s0 d).
  set (s1 := fold_left (pstep iv) mid si).
  intros Ht. rewrite now_step in Ht.
  eapply Nat.lt_le_trans; [| apply durable_mono_run].
  apply (followed_step iv s1 (length pre) (p_now si) dj).
  - apply PI_run, PI_step, PI_run, PI_init.
  - destruct (acked_run iv mid si) as [l [Hl _]]. fold s1 in Hl. rewrite Hl.
    unfold si. rewrite acked_step.
    destruct (acked_run iv pre (pinit t0)) as [l0 [Hl0 Hn0]]. fold s0 in Hl0. cbn in Hl0.
    rewrite Hl0, <- app_assoc. rewrite nth_error_app2 by lia.
    rewrite Hn0, Nat.sub_diag. cbn. f_equal. symmetry. apply now_step.
  - exact Ht.
Qed.

(* interval 0: every append is synced at once *)
Theorem periodic_zero_every_write : forall t0 evs, p_pending (prun 0 t0 evs) = [].
Proof.
  intros t0 evs. unfold prun.
  assert (H : forall s, p_pending s = [] -> p_pending (fold_left (pstep 0) evs s) = []).
  { induction evs as [|e evs IH]; cbn; intros s Hs; [exact Hs | apply IH; reflexivity]. }
  apply H. reflexivity.
Qed.

(* The clause as the property states it - every entry acknowledged more than one interval before the
   power loss is durable - is FALSE of the model: nothing syncs an idle tail. *)
Definition periodic_clause (iv t0 : N) (evs : list N) (idle : N) : Prop :=
  let s := prun iv t0 evs in
  forall i ti, nth_error (acked s) i = Some ti -> ti + iv < p_now s + idle ->
               (i < length (p_durable s))%nat.

Theorem periodic_idle_tail_refuted : ~ periodic_clause 50 0 [10; 1] 200.
Proof.
  unfold periodic_clause. intros H. specialize (H 0%nat 10 eq_refl).
  vm_compute in H. specialize (H eq_refl). inversion H.
Qed.

(* ... and it holds for every entry that is followed by an append at least one interval later
   (the recorded class is exactly the idle tail). *)
Example periodic_followed_nonvacuous :
  p_durable (prun 50 0 [10; 1; 60; 5]) = [10; 11; 71] /\ p_pending (prun 50 0 [10; 1; 60; 5]) = [76].
Proof. vm_compute. auto. Qed.
