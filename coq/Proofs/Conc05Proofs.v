(* Proofs about Model/Conc05.v (C05).  Statements are pinned in Properties/C05.v. *)
From Coq Require Import List NArith ZArith Bool Arith Lia Sorted.
From Kyro Require Import Model.TMap Model.Tiered Model.Conc05.
Import ListNotations.

(* ---------- association-list and equality facts (local copies; this file does not depend on C04's proofs) ---------- *)
Section MapFacts.
  Context {A : Type}.
  Implicit Types l : list (N * A).

  Lemma lk_remove : forall k k' l, lookup k' (remove k l) = if N.eqb k k' then None else lookup k' l.
  Proof.
    induction l as [|[k0 a] r IH]; cbn [remove lookup].
    - destruct (N.eqb k k'); reflexivity.
    - destruct (N.eqb k0 k) eqn:E0.
      + rewrite IH. apply N.eqb_eq in E0. subst k0. destruct (N.eqb k k'); reflexivity.
      + cbn [lookup]. rewrite IH. destruct (N.eqb k k') eqn:E1; [|reflexivity].
        apply N.eqb_eq in E1. subst k'. rewrite E0. reflexivity.
  Qed.

  Lemma lk_put : forall k k' a l, lookup k' (put k a l) = if N.eqb k k' then Some a else lookup k' l.
  Proof.
    intros. unfold put. cbn [lookup]. destruct (N.eqb k k') eqn:E; [reflexivity|].
    rewrite lk_remove, E. reflexivity.
  Qed.

  Lemma mem_true : forall k l, mem k l = true <-> lookup k l <> None.
  Proof. intros. unfold mem. destruct (lookup k l); split; congruence. Qed.
End MapFacts.

Lemma list_eqb_Z : forall a b : list Z, list_eqb Z.eqb a b = true <-> a = b.
Proof.
  induction a as [|x r IH]; destruct b as [|y q]; cbn [list_eqb]; split; try congruence; intros H.
  - apply andb_true_iff in H as [H1 H2]. apply Z.eqb_eq in H1. apply IH in H2. congruence.
  - inversion H; subst. rewrite Z.eqb_refl. cbn. apply IH. reflexivity.
Qed.
Lemma veqb_eq : forall a b : vec, vec_eqb a b = true <-> a = b.
Proof. exact list_eqb_Z. Qed.
Lemma teqb_eq : forall a b : token, tok_eqb a b = true <-> a = b.
Proof.
  intros [v1 d1] [v2 d2]. unfold tok_eqb. cbn [fst snd]. rewrite andb_true_iff, N.eqb_eq.
  unfold vec_eqb. rewrite list_eqb_Z. split; [intros [-> ->]; reflexivity | intros H; inversion H; auto].
Qed.

Lemma in_stamp : forall now ops e, In e (stamp now ops) <-> fst e = now /\ In (snd e) ops.
Proof.
  intros now ops [k o]. unfold stamp. rewrite in_map_iff. cbn [fst snd]. split.
  - intros (x & E & Hin). inversion E; subst. auto.
  - intros [-> Hin]. exists o. auto.
Qed.
Lemma snd_stamp : forall now ops, map snd (stamp now ops) = ops.
Proof. intros. unfold stamp. rewrite map_map. cbn. apply map_id. Qed.

(* ---------- what a result must be backed by ---------- *)
Definition vec_just (F : list lop) (id : N) (val : option vec) : Prop :=
  exists x, In (LObs id x) F /\ option_map c_vec x = val.
Definition meta_just (F : list lop) (id : N) (m : meta) : Prop :=
  exists x, In (LObs id x) F /\ option_map c_meta x = Some m.
(* a write entry fits the call that issued it *)
Definition write_matches (cl : call) (id : N) (x : option crec) : Prop :=
  match cl with
  | CInsert id' v m => id = id' /\ exists r, x = Some r /\ c_vec r = v /\ c_meta r = meta_canon m
  | CDelete id' => id = id' /\ x = None
  | _ => False
  end.
(* a write issued by the emergency drain inside an insert: the cold tier is "repaired" from a drained
   mirror entry of SOME id (not the insert's own argument) *)
Definition drain_repair (cl : call) (id : N) (x : option crec) : Prop :=
  (exists i v m, cl = CInsert i v m) /\ exists rc, x = Some rc.
Definition write_just (F : list lop) (cl : call) (r : result) : Prop :=
  match cl with
  | CInsert id v m => exists rc, In (LW id (Some rc)) F /\ c_vec rc = v /\ c_meta rc = meta_canon m
  | CDelete id => In (LW id None) F
  | _ => True
  end.
Definition justified (F : list lop) (cl : call) (r : result) : Prop :=
  (forall id val, In (id, val) (vec_components r) -> vec_just F id val) /\
  (forall id m, In (id, m) (meta_components r) -> meta_just F id m) /\
  write_just F cl r.
Definition writes_ok (cl : call) (F : list lop) : Prop :=
  forall id x, In (LW id x) F -> write_matches cl id x.

Lemma vec_just_mono : forall F F' id v, incl F F' -> vec_just F id v -> vec_just F' id v.
Proof. intros F F' id v HI (x & Hin & E). exists x. auto. Qed.
Lemma meta_just_mono : forall F F' id m, incl F F' -> meta_just F id m -> meta_just F' id m.
Proof. intros F F' id m HI (x & Hin & E). exists x. auto. Qed.
Lemma write_just_mono : forall F F' cl r, incl F F' -> write_just F cl r -> write_just F' cl r.
Proof.
  intros F F' cl r HI. destruct cl; cbn; auto.
  intros (rc & Hin & E). exists rc. auto.
Qed.
Lemma justified_mono : forall F F' cl r, incl F F' -> justified F cl r -> justified F' cl r.
Proof.
  intros F F' cl r HI (H1 & H2 & H3). repeat split.
  - intros. eapply vec_just_mono; eauto.
  - intros. eapply meta_just_mono; eauto.
  - eapply write_just_mono; eauto.
Qed.

Section Proofs.
  Variable digest : vec -> dgst.
  Variable hard : nat.
  Hypothesis digest_inj : forall a b : vec, digest a = digest b -> a = b.

  Notation rec_tok := (rec_tok digest).
  Notation cvs_of := (cvs_of digest).
  Notation step_prog := (step_prog digest).

  (* "the rest of the call, whatever the caches answer and whatever the cold tier holds when it is
     asked, returns only values backed by its own cold-tier observations; and issues only its own
     write" — F is the list of register accesses the call has made so far *)
  Fixpoint sound (cl : call) (F : list lop) (p : prog) : Prop :=
    match p with
    | Ret r => justified F cl r
    | L1Get _ k | L1Peek _ k | HotGet _ k => forall o, sound cl F (k o)
    | HotBulk _ k => forall o, sound cl F (k o)
    | HotDel _ k | HotExists _ k => forall b, sound cl F (k b)
    | HotLen k => forall n, sound cl F (k n)
    | L1Inv _ k | L1Ins _ _ k | HotIns _ _ k | Silent _ k => sound cl F k
    | ColdTok id k => forall x, sound cl (LObs id x :: F) (k (option_map rec_tok x))
    | ColdFetch _ id k =>
        forall x, sound cl (LObs id x :: F) (k (option_map (fun r => (c_vec r, rec_tok r)) x))
    | ColdMeta id k => forall x, sound cl (LObs id x :: F) (k (option_map c_meta x))
    | ColdBulk ids k =>
        forall f : N -> option crec,
          sound cl (map (fun id => LObs id (f id)) ids ++ F)
                (k (map (fun id => option_map (fun r => (c_vec r, c_meta r)) (f id)) ids))
    | ColdIns id v m k =>
        cl = CInsert id v m /\
        forall rc, c_vec rc = v -> c_meta rc = meta_canon m -> sound cl (LW id (Some rc) :: F) k
    | ColdDel id k => cl = CDelete id /\ forall b, sound cl (LW id None :: F) (k b)
    | HotDrain k => forall o, sound cl F (k o)
    | ColdRepair id _ _ k =>
        (exists i v m, cl = CInsert i v m) /\ forall rc, sound cl (LW id (Some rc) :: F) k
    end.

  Lemma sound_mono : forall cl p F F', incl F F' -> sound cl F p -> sound cl F' p.
  Proof.
    intros cl p. induction p; cbn [sound]; intros F F' HI HS; eauto using justified_mono.
    - intros x. eapply H; [|apply HS]. apply incl_cons; [left; reflexivity | apply incl_tl; exact HI].
    - intros x. eapply H; [|apply HS]. apply incl_cons; [left; reflexivity | apply incl_tl; exact HI].
    - intros x. eapply H; [|apply HS]. apply incl_cons; [left; reflexivity | apply incl_tl; exact HI].
    - intros f. eapply H; [|apply HS]. apply incl_app; [apply incl_appl, incl_refl | apply incl_appr; exact HI].
    - destruct HS as [E HS]. split; [exact E|]. intros rc E1 E2. eapply IHp; [|apply (HS rc E1 E2)].
      apply incl_cons; [left; reflexivity | apply incl_tl; exact HI].
    - destruct HS as [E HS]. split; [exact E|]. intros b. eapply H; [|apply HS].
      apply incl_cons; [left; reflexivity | apply incl_tl; exact HI].
    - destruct HS as [E HS]. split; [exact E|]. intros rc. eapply IHp; [|apply HS].
      apply incl_cons; [left; reflexivity | apply incl_tl; exact HI].
  Qed.

  (* the token check: Match forces equality with the canonical vector seen by that very read *)
  Lemma cvs_match : forall x v t,
    cvs_of (option_map rec_tok x) v t = CMatch -> exists r, x = Some r /\ c_vec r = v.
  Proof.
    intros x v t. unfold Conc05.cvs_of. destruct x as [r|]; cbn [option_map]; [|discriminate].
    destruct (tok_eqb (rec_tok r) t) eqn:E1; cbn [negb]; [|discriminate].
    destruct (vec_eqb (digest v) (snd t)) eqn:E2; cbn [negb]; [|discriminate].
    intros _. exists r. split; [reflexivity|].
    apply teqb_eq in E1. apply veqb_eq in E2. subst t. unfold Conc05.rec_tok in E2. cbn [snd] in E2.
    symmetry. apply digest_inj. exact E2.
  Qed.

  (* one action keeps the rest of the call sound w.r.t. the extended fact list *)
  Lemma sound_step : forall cl F s p s1 p1 ops l,
    sound cl F p -> step_prog s p = Some (s1, p1, ops, l) -> sound cl (ops ++ F) p1.
  Proof.
    intros cl F s p s1 p1 ops l HS HSt.
    destruct p; cbn [Conc05.step_prog] in HSt; inversion HSt; subst; clear HSt; cbn [sound app] in *;
      try solve [apply HS].
    destruct HS as [_ HS]. apply HS; reflexivity.
  Qed.

  Lemma step_writes : forall cl F s p s1 p1 ops l,
    sound cl F p -> step_prog s p = Some (s1, p1, ops, l) ->
    forall id x, In (LW id x) ops -> write_matches cl id x \/ drain_repair cl id x.
  Proof.
    intros cl F s p s1 p1 ops l HS HSt id x Hin.
    destruct p; cbn [Conc05.step_prog] in HSt; inversion HSt; subst; clear HSt; cbn [In] in Hin;
      try contradiction; try (destruct Hin as [Hin|[]]; discriminate).
    - apply in_map_iff in Hin as (y & E & _). discriminate.
    - destruct HS as [E _]. subst cl. destruct Hin as [Hin|[]]. inversion Hin; subst. left.
      cbn. split; [reflexivity|]. eexists. split; [reflexivity|]. split; reflexivity.
    - destruct HS as [E _]. subst cl. destruct Hin as [Hin|[]]. inversion Hin; subst. left.
      cbn. split; reflexivity.
    - destruct HS as [E _]. destruct Hin as [Hin|[]]. inversion Hin; subst. right.
      split; [exact E|]. eexists. reflexivity.
  Qed.

  (* ----- the programs of the six calls are sound from the empty fact list ----- *)
  Lemma just_vec1 : forall cl F id x v,
    In (LObs id x) F -> option_map c_vec x = v ->
    match cl with CInsert _ _ _ | CDelete _ => False | _ => True end ->
    justified F cl (RVec id v).
  Proof.
    intros cl F id x v Hin E Hcl. repeat split.
    - intros id' val [H|[]]. inversion H; subst. exists x. auto.
    - intros id' m [].
    - destruct cl; cbn; auto; contradiction.
  Qed.

  Definition is_read (cl : call) : Prop :=
    match cl with CInsert _ _ _ | CDelete _ => False | _ => True end.

  Lemma sound_discard : forall cl F id k, sound cl F k -> sound cl F (discard_then id k).
  Proof. intros. unfold discard_then. cbn [sound]. intros _. exact H. Qed.

  Lemma sound_hot_probe : forall cl F id kmatch kmiss,
    (forall h x, option_map c_vec x = Some (h_vec h) -> sound cl (LObs id x :: F) (kmatch h)) ->
    (forall F', incl F F' -> sound cl F' kmiss) ->
    sound cl F (hot_probe digest id kmatch kmiss).
  Proof.
    intros cl F id kmatch kmiss HM HK. unfold hot_probe. cbn [sound]. intros [h|].
    - cbn [sound]. intros x. destruct (cvs_of (option_map rec_tok x) (h_vec h) (h_tok h)) eqn:E.
      + apply cvs_match in E as (r & -> & E). apply HM. cbn. congruence.
      + apply sound_discard. apply HK. apply incl_tl, incl_refl.
      + apply sound_discard. apply HK. apply incl_tl, incl_refl.
      + apply HK. apply incl_tl, incl_refl.
    - apply HK. apply incl_refl.
  Qed.

  Lemma sound_query : forall adm id, sound (CQuery adm id) [] (p_query digest adm id).
  Proof.
    intros adm id. unfold p_query.
    set (cl := CQuery adm id).
    assert (Hrest : forall F, sound cl F
      (hot_probe digest id
        (fun h => (if adm then L1Ins id (mkL (h_vec h) (h_tok h)) (Ret (RVec id (Some (h_vec h))))
                   else Ret (RVec id (Some (h_vec h)))))
        (ColdFetch true id (fun o => match o with
           | Some (v, t) => if adm then L1Ins id (mkL v t) (Ret (RVec id (Some v))) else Ret (RVec id (Some v))
           | None => Ret (RVec id None) end)))).
    { intros F. apply sound_hot_probe.
      - intros h x E. destruct adm; cbn [sound]; eapply just_vec1; try (left; reflexivity); auto; exact I.
      - intros F' _. cbn [sound]. intros [r|]; cbn [option_map].
        + destruct adm; cbn [sound]; eapply just_vec1; try (left; reflexivity); auto; exact I.
        + cbn [sound]. eapply just_vec1; try (left; reflexivity); auto; exact I. }
    cbn [sound]. intros [e|].
    - cbn [sound]. intros x. destruct (cvs_of (option_map rec_tok x) (l_vec e) (l_tok e)) eqn:E.
      + apply cvs_match in E as (r & -> & E). cbn [sound]. eapply just_vec1; try (left; reflexivity); cbn; try congruence. exact I.
      + cbn [sound]. apply Hrest.
      + cbn [sound]. apply Hrest.
      + cbn [sound]. apply Hrest.
    - apply Hrest.
  Qed.

  Lemma sound_getemb : forall id, sound (CGetEmb id) [] (p_getemb digest id).
  Proof.
    intros id. unfold p_getemb. set (cl := CGetEmb id).
    assert (Hrest : forall F, sound cl F
      (hot_probe digest id (fun h => Ret (RVec id (Some (h_vec h))))
         (ColdFetch false id (fun o => Ret (RVec id (option_map fst o)))))).
    { intros F. apply sound_hot_probe.
      - intros h x E. cbn [sound]. eapply just_vec1; try (left; reflexivity); auto; exact I.
      - intros F' _. cbn [sound]. intros x. eapply just_vec1; try (left; reflexivity); [|exact I].
        destruct x; reflexivity. }
    cbn [sound]. intros [e|].
    - cbn [sound]. intros x. destruct (cvs_of (option_map rec_tok x) (l_vec e) (l_tok e)) eqn:E.
      + apply cvs_match in E as (r & -> & E). cbn [sound]. eapply just_vec1; try (left; reflexivity); cbn; try congruence. exact I.
      + cbn [sound]. apply Hrest.
      + cbn [sound]. apply Hrest.
      + cbn [sound]. apply Hrest.
    - apply Hrest.
  Qed.

  Lemma just_doc_none : forall F id, In (LObs id None) F -> justified F (CGetDoc id) (RDoc id None).
  Proof.
    intros F id Hin. repeat split; cbn.
    - intros id' val [H|[]]. inversion H; subst. exists None. auto.
    - intros id' m [].
  Qed.
  Lemma just_doc_some : forall F id xv xm v m,
    In (LObs id xv) F -> In (LObs id xm) F -> option_map c_vec xv = Some v -> option_map c_meta xm = Some m ->
    justified F (CGetDoc id) (RDoc id (Some (v, m))).
  Proof.
    intros F id xv xm v m H1 H2 E1 E2. repeat split; cbn.
    - intros id' val [H|[]]. inversion H; subst. exists xv. auto.
    - intros id' m' [H|[]]. inversion H; subst. exists xm. auto.
  Qed.

  Lemma sound_getdoc : forall id, sound (CGetDoc id) [] (p_getdoc digest id).
  Proof.
    intros id. unfold p_getdoc. cbn [sound]. intros [rm|]; cbn [option_map].
    - apply sound_hot_probe.
      + intros h x E. cbn [sound]. eapply just_doc_some; [left; reflexivity | right; left; reflexivity | exact E | reflexivity].
      + intros F' HI. cbn [sound]. intros [r|]; cbn [option_map sound].
        * eapply just_doc_some; [left; reflexivity | right; apply HI; left; reflexivity | reflexivity | reflexivity].
        * intros _. apply just_doc_none. left. reflexivity.
    - cbn [sound]. intros _. apply just_doc_none. left. reflexivity.
  Qed.

  (* bulk: entries collected so far are backed; holes are filled by the final cold_tier.bulk_fetch *)
  Definition acc_ok (F : list lop) (acc : list (N * option (vec * meta))) : Prop :=
    forall id v m, In (id, Some (v, m)) acc -> vec_just F id (Some v) /\ meta_just F id m.

  Lemma acc_ok_mono : forall F F' acc, incl F F' -> acc_ok F acc -> acc_ok F' acc.
  Proof.
    intros F F' acc HI H id v m Hin. destruct (H id v m Hin). split; [eapply vec_just_mono|eapply meta_just_mono]; eauto.
  Qed.
  Lemma acc_ok_none : forall F acc id, acc_ok F acc -> acc_ok F ((id, None) :: acc).
  Proof. intros F acc id H id' v m [E|Hin]; [discriminate | auto]. Qed.

  Lemma sound_bulk_loop : forall cl k snap F acc,
    acc_ok F acc ->
    (forall F' part, incl F F' -> acc_ok F' part -> sound cl F' (k part)) ->
    sound cl F (bulk_loop digest snap acc k).
  Proof.
    intros cl k. induction snap as [|[id [h|]] r IH]; intros F acc HA HK; cbn [bulk_loop].
    - apply HK; [apply incl_refl|]. intros id v m Hin. apply HA. apply in_rev. exact Hin.
    - cbn [sound]. intros x.
      assert (HI : incl F (LObs id x :: F)) by (apply incl_tl, incl_refl).
      assert (HK' : forall F0, incl (LObs id x :: F) F0 ->
                forall F' part, incl F0 F' -> acc_ok F' part -> sound cl F' (k part)).
      { intros F0 H0 F' part H1 H2. apply HK; [|exact H2]. eapply incl_tran; [exact HI|]. eapply incl_tran; eauto. }
      destruct (cvs_of (option_map rec_tok x) (h_vec h) (h_tok h)) eqn:E.
      + apply cvs_match in E as (rc & -> & E). cbn [sound]. intros xm.
        destruct xm as [rm|]; cbn [option_map].
        * apply IH.
          -- intros id' v m [Hin|Hin].
             ++ inversion Hin; subst. split.
                ** exists (Some rc). split; [right; left; reflexivity | cbn; congruence].
                ** exists (Some rm). split; [left; reflexivity | reflexivity].
             ++ eapply acc_ok_mono; [|exact HA|exact Hin]. apply incl_tl. exact HI.
          -- apply HK'. apply incl_tl, incl_refl.
        * apply IH.
          -- apply acc_ok_none. eapply acc_ok_mono; [|exact HA]. apply incl_tl. exact HI.
          -- apply HK'. apply incl_tl, incl_refl.
      + apply sound_discard. apply IH; [apply acc_ok_none; eapply acc_ok_mono; eauto | apply HK'; apply incl_refl].
      + apply sound_discard. apply IH; [apply acc_ok_none; eapply acc_ok_mono; eauto | apply HK'; apply incl_refl].
      + apply IH; [apply acc_ok_none; eapply acc_ok_mono; eauto | apply HK'; apply incl_refl].
    - apply IH; [apply acc_ok_none; exact HA | exact HK].
  Qed.

  Definition missing_of (part : list (N * option (vec * meta))) : list N :=
    map fst (filter (fun p => is_none (snd p)) part).

  Lemma fill_spec : forall (g : N -> option (vec * meta)) part,
    fill part (map g (missing_of part)) =
    map (fun p => match snd p with Some x => (fst p, Some x) | None => (fst p, g (fst p)) end) part.
  Proof.
    intros g. induction part as [|[id [x|]] r IH]; unfold missing_of in *; cbn [filter snd fst is_none map fill].
    - reflexivity.
    - rewrite IH. reflexivity.
    - rewrite IH. reflexivity.
  Qed.

  Lemma in_missing : forall part id, In (id, None) part -> In id (missing_of part).
  Proof.
    intros part id Hin. unfold missing_of. apply in_map_iff. exists (id, None). split; [reflexivity|].
    apply filter_In. split; [exact Hin | reflexivity].
  Qed.

  Lemma sound_bulk : forall ids, sound (CBulk ids) [] (p_bulk digest ids).
  Proof.
    intros ids. unfold p_bulk. cbn [sound]. intros hs. apply sound_bulk_loop.
    - intros id v m [].
    - intros F part _ HA. fold (missing_of part).
      destruct (missing_of part) as [|i0 rest] eqn:EM.
      + cbn [sound]. repeat split; cbn.
        * intros id val Hin. apply in_map_iff in Hin as ([id' [[v m]|]] & E & Hin); cbn in E; inversion E; subst.
          -- apply (HA _ _ _ Hin).
          -- apply in_missing in Hin. rewrite EM in Hin. destruct Hin.
        * intros id m Hin. apply in_flat_map in Hin as ([id' [[v m']|]] & Hin & E); cbn in E; [|destruct E].
          destruct E as [E|[]]. inversion E; subst. apply (HA _ _ _ Hin).
      + rewrite <- EM. cbn [sound]. intros f.
        set (g := fun id => option_map (fun r => (c_vec r, c_meta r)) (f id)).
        change (map (fun id => option_map (fun r => (c_vec r, c_meta r)) (f id)) (missing_of part))
          with (map g (missing_of part)).
        rewrite fill_spec. cbn [sound].
        set (F' := map (fun id => LObs id (f id)) (missing_of part) ++ F).
        assert (HI : incl F F') by (apply incl_appr, incl_refl).
        assert (Hobs : forall id, In (id, None) part -> In (LObs id (f id)) F').
        { intros id Hin. apply in_or_app. left. apply in_map_iff. exists id. split; [reflexivity|]. apply in_missing. exact Hin. }
        repeat split; cbn.
        * intros id val Hin. apply in_map_iff in Hin as ([id1 o1] & E & Hin). cbn [fst snd] in E.
          apply in_map_iff in Hin as ([id2 [[v m]|]] & E2 & Hin); cbn [fst snd] in E2; inversion E2; subst; inversion E; subst.
          -- cbn. eapply vec_just_mono; [exact HI|]. apply (HA _ _ _ Hin).
          -- exists (f id). split; [apply Hobs; exact Hin|]. unfold g. destruct (f id); reflexivity.
        * intros id m Hin. apply in_flat_map in Hin as ([id1 o1] & Hin & E). cbn [fst snd] in E.
          apply in_map_iff in Hin as ([id2 [[v m2]|]] & E2 & Hin); cbn [fst snd] in E2; inversion E2; subst.
          -- destruct E as [E|[]]. inversion E; subst. eapply meta_just_mono; [exact HI|]. apply (HA _ _ _ Hin).
          -- unfold g in E. destruct (f id1) as [rc|] eqn:Ef; cbn in E; [|destruct E].
             destruct E as [E|[]]. inversion E; subst. exists (Some rc). split; [|reflexivity].
             rewrite <- Ef. apply Hobs. exact Hin.
  Qed.

  Lemma sound_drain_loop : forall cl k docs F clear,
    (exists i v m, cl = CInsert i v m) ->
    (forall F' b, incl F F' -> sound cl F' (k b)) ->
    sound cl F (drain_loop docs clear k).
  Proof.
    intros cl k. induction docs as [|[id h] r IH]; intros F clear Hcl HK; cbn [drain_loop].
    - apply HK. apply incl_refl.
    - cbn [sound]. intros xe xm.
      assert (HK' : forall F' b, incl (LObs id xm :: LObs id xe :: F) F' -> sound cl F' (k b)).
      { intros F' b HI. apply HK. eapply incl_tran; [|exact HI]. apply incl_tl, incl_tl, incl_refl. }
      destruct xe as [re|]; cbn [option_map].
      + destruct xm as [rm|]; cbn [option_map].
        * destruct (negb (vec_feqb (c_vec re) (h_vec h))); cbn [sound]; apply IH; auto.
        * cbn [sound]. split; [exact Hcl|]. intros rc. apply IH; [exact Hcl|].
          intros F' b HI. apply HK'. eapply incl_tran; [|exact HI]. apply incl_tl, incl_refl.
      + destruct xm as [rm|]; cbn [option_map sound]; (split; [exact Hcl|]); intros rc; (apply IH; [exact Hcl|]);
          intros F' b HI; apply HK'; (eapply incl_tran; [|exact HI]); apply incl_tl, incl_refl.
  Qed.

  Lemma sound_insert : forall id v m, sound (CInsert id v m) [] (p_insert hard id v m).
  Proof.
    intros id v m. unfold p_insert.
    assert (Hbody : forall F, sound (CInsert id v m) F
      (L1Inv id (Silent (cs LkIndex MRead) (Silent (cs LkIndex MRead) (ColdIns id v m
        (Silent (cs LkQc MWrite) (Silent (cs LkQc MWrite) (ColdTok id (fun ot =>
           match ot with
           | Some t => HotIns id (mkH v (meta_canon m) t) (Ret (RIns true))
           | None => Ret (RIns false)
           end))))))))).
    { intros F. cbn [sound]. split; [reflexivity|]. intros rc E1 E2 x.
      assert (J : forall b, justified (LObs id x :: LW id (Some rc) :: F) (CInsert id v m) (RIns b)).
      { intros b. repeat split; cbn; try (intros ? ? []). exists rc. split; [right; left; reflexivity|]. auto. }
      destruct x as [r|]; cbn [option_map sound]; apply J. }
    cbn [sound]. intros n. destruct (hard <=? n); [|apply Hbody].
    cbn [sound]. intros docs. destruct docs as [|d r]; [apply Hbody|].
    apply sound_drain_loop; [eauto|]. intros F' b _. destruct b; cbn [sound]; apply Hbody.
  Qed.

  Lemma sound_delete : forall id, sound (CDelete id) [] (p_delete id).
  Proof.
    intros id. unfold p_delete. cbn [sound]. split; [reflexivity|]. intros b1 b2.
    assert (J : forall b, justified [LW id None] (CDelete id) (RDel b)).
    { intros b. repeat split; cbn; try (intros ? ? []). left. reflexivity. }
    destruct (b1 || b2); cbn [sound]; apply J.
  Qed.

  Lemma sound_prog_of : forall cl, sound cl [] (prog_of digest hard cl).
  Proof.
    destruct cl; cbn [prog_of].
    - apply sound_query. - apply sound_getemb. - apply sound_getdoc.
    - apply sound_bulk. - apply sound_insert. - apply sound_delete.
  Qed.
End Proofs.

(* ================================================================================================ *)
(* The sequential register specification: algebra                                                   *)
(* ================================================================================================ *)
Lemma reg_after_app : forall a b r, reg_after r (a ++ b) = reg_after (reg_after r a) b.
Proof. induction a as [|[id x|id x] a IH]; intros; cbn; auto. Qed.

Lemma reg_accepts_app : forall a b r,
  reg_accepts r (a ++ b) <-> reg_accepts r a /\ reg_accepts (reg_after r a) b.
Proof.
  induction a as [|[id x|id x] a IH]; intros b r; cbn [app reg_accepts reg_after].
  - tauto.
  - apply IH.
  - rewrite IH. tauto.
Qed.

Lemma reg_upd_ext : forall r r' id x, (forall j, r j = r' j) -> forall j, reg_upd r id x j = reg_upd r' id x j.
Proof. intros. unfold reg_upd. destruct (N.eqb j id); auto. Qed.

Lemma reg_after_ext : forall ops r r', (forall j, r j = r' j) -> forall j, reg_after r ops j = reg_after r' ops j.
Proof.
  induction ops as [|[id x|id x] q IH]; intros r r' H j; cbn [reg_after]; auto.
  apply IH. apply reg_upd_ext. exact H.
Qed.

Lemma reg_accepts_ext : forall ops r r', (forall j, r j = r' j) -> reg_accepts r ops -> reg_accepts r' ops.
Proof.
  induction ops as [|[id x|id x] q IH]; intros r r' H HA; cbn [reg_accepts] in *; auto.
  - eapply IH; [|exact HA]. apply reg_upd_ext. exact H.
  - destruct HA as [E HA]. split; [rewrite <- H; exact E | eapply IH; eauto].
Qed.

(* a list of observations that agree with the register is accepted and changes nothing *)
Lemma reg_obs_list : forall (f : N -> option crec) ids r,
  (forall id, In id ids -> f id = r id) ->
  reg_accepts r (map (fun id => LObs id (f id)) ids) /\
  reg_after r (map (fun id => LObs id (f id)) ids) = r.
Proof.
  induction ids as [|i q IH]; intros r H; cbn [map reg_accepts reg_after]; [auto|].
  destruct (IH r) as [H1 H2]; [intros; apply H; right; assumption|].
  split; [split; [symmetry; apply H; left; reflexivity | exact H1] | exact H2].
Qed.

(* read observations can be dropped from an accepted sequence (the usual one-point-per-operation
   linearisation is a sub-sequence of the access log) *)
Definition is_write (o : lop) : bool := match o with LW _ _ => true | LObs _ _ => false end.
Lemma reg_accepts_drop_obs : forall (keep : lop -> bool) ops r,
  reg_accepts r ops -> reg_accepts r (filter (fun o => is_write o || keep o) ops).
Proof.
  intros keep. induction ops as [|[id x|id x] q IH]; intros r HA; cbn [filter is_write orb reg_accepts] in *; auto.
  destruct HA as [E HA]. destruct (keep (LObs id x)); cbn [reg_accepts]; auto.
Qed.

(* where the content of a register comes from *)
Lemma reg_after_src : forall id ops r,
  reg_after r ops id = r id \/ In (LW id (reg_after r ops id)) ops.
Proof.
  intros id. induction ops as [|[i x|i x] q IH]; intros r; cbn [reg_after In].
  - left. reflexivity.
  - destruct (IH (reg_upd r i x)) as [E|Hin]; [|right; right; exact Hin].
    rewrite E. unfold reg_upd. destruct (N.eqb id i) eqn:Ei.
    + apply N.eqb_eq in Ei. subst i. right. left. reflexivity.
    + left. reflexivity.
  - destruct (IH r) as [E|Hin]; [left; exact E | right; right; exact Hin].
Qed.

Lemma reg_accepts_obs_src : forall id x ops r,
  reg_accepts r ops -> In (LObs id x) ops -> x = r id \/ In (LW id x) ops.
Proof.
  intros id x. induction ops as [|[i y|i y] q IH]; intros r HA Hin; cbn [reg_accepts In] in *; [destruct Hin| |].
  - destruct Hin as [Hin|Hin]; [discriminate|].
    destruct (IH _ HA Hin) as [E|H]; [|right; right; exact H].
    unfold reg_upd in E. destruct (N.eqb id i) eqn:Ei.
    + apply N.eqb_eq in Ei. subst i y. right. left. reflexivity.
    + left. exact E.
  - destruct HA as [E HA]. destruct Hin as [Hin|Hin].
    + inversion Hin; subst. left. reflexivity.
    + destruct (IH _ HA Hin) as [E'|H]; [left; exact E' | right; right; exact H].
Qed.

(* ================================================================================================ *)
(* Sorted lists                                                                                     *)
(* ================================================================================================ *)
Lemma SS_snoc : forall {A} (R : A -> A -> Prop) l a,
  StronglySorted R l -> Forall (fun x => R x a) l -> StronglySorted R (l ++ [a]).
Proof.
  intros A R l a HS. induction HS as [|x l HS IH HF]; intros HA; cbn [app].
  - constructor; constructor.
  - inversion HA; subst. constructor; [apply IH; assumption|].
    apply Forall_app. split; [exact HF | constructor; [assumption | constructor]].
Qed.

Lemma SS_rev : forall {A} (R : A -> A -> Prop) l,
  StronglySorted R l -> StronglySorted (fun a b => R b a) (rev l).
Proof.
  intros A R l HS. induction HS as [|x l HS IH HF]; cbn [rev]; [constructor|].
  apply SS_snoc; [exact IH|]. apply Forall_rev. exact HF.
Qed.

Lemma SS_prepend : forall (now : nat) (new l : list lentry),
  StronglySorted (fun a b => fst b <= fst a) l ->
  (forall e, In e new -> fst e = now) -> (forall e, In e l -> fst e <= now) ->
  StronglySorted (fun a b => fst b <= fst a) (new ++ l).
Proof.
  induction new as [|e q IH]; intros l HS H1 H2; cbn [app]; [exact HS|].
  constructor.
  - apply IH; auto. intros; apply H1; right; assumption.
  - apply Forall_forall. intros y Hy. rewrite (H1 e) by (left; reflexivity).
    apply in_app_or in Hy as [Hy|Hy]; [rewrite (H1 y) by (right; assumption); lia | apply H2; assumption].
Qed.

(* in a list sorted by stamp, a strictly smaller stamp comes first *)
Lemma sorted_before : forall (L : list lentry) e1 e2,
  StronglySorted (fun a b => fst a <= fst b) L -> In e1 L -> In e2 L -> fst e1 < fst e2 ->
  exists l1 l2 l3, L = l1 ++ e1 :: l2 ++ e2 :: l3.
Proof.
  intros L e1 e2 HS. induction HS as [|x l HS IH HF]; intros H1 H2 Hlt; [destruct H1|].
  rewrite Forall_forall in HF.
  destruct H1 as [->|H1].
  - destruct H2 as [->|H2]; [lia|].
    apply in_split in H2 as (l2 & l3 & ->). exists [], l2, l3. reflexivity.
  - destruct H2 as [->|H2].
    + specialize (HF _ H1). lia.
    + destruct (IH H1 H2 Hlt) as (l1 & l2 & l3 & ->). exists (x :: l1), l2, l3. reflexivity.
Qed.

Lemma SS_app_r : forall {A} (R : A -> A -> Prop) a b, StronglySorted R (a ++ b) -> StronglySorted R b.
Proof. induction a as [|x a IH]; intros b H; cbn [app] in H; [exact H|]. inversion H; subst. apply IH. assumption. Qed.

Lemma SS_app_mid : forall {A} (R : A -> A -> Prop) a x b,
  StronglySorted R (a ++ x :: b) -> Forall (fun y => R y x) a.
Proof.
  induction a as [|y a IH]; intros x b H; cbn [app] in H; [constructor|].
  inversion H as [|? ? HS HF]; subst. constructor; [|eapply IH; eassumption].
  rewrite Forall_forall in HF. apply HF. apply in_or_app. right. left. reflexivity.
Qed.

(* an observation made after a write of the same id returns that write's value or the value of a
   write placed between the two *)
Lemma last_write_before : forall (L : list lentry) r id x xW k kW,
  StronglySorted (fun a b => fst a <= fst b) L -> reg_accepts r (map snd L) ->
  In (k, LObs id x) L -> In (kW, LW id xW) L -> kW < k ->
  exists kw, In (kw, LW id x) L /\ kW <= kw <= k.
Proof.
  intros L r id x xW k kW HS HA Ho Hw Hlt.
  destruct (sorted_before L (kW, LW id xW) (k, LObs id x) HS Hw Ho Hlt) as (l1 & l2 & l3 & E).
  subst L. unfold lentry in *. rewrite map_app in HA. apply reg_accepts_app in HA as [_ HA].
  rewrite map_cons in HA. cbn [snd reg_accepts] in HA. rewrite map_app in HA. apply reg_accepts_app in HA as [_ HA].
  rewrite map_cons in HA. cbn [snd reg_accepts] in HA. destruct HA as [Ex _].
  destruct (reg_after_src id (map snd l2) (reg_upd (reg_after r (map snd l1)) id xW)) as [E|Hin];
    rewrite Ex in *.
  - exists kW. split; [|lia].
    unfold reg_upd in E. rewrite N.eqb_refl in E. rewrite E in *. exact Hw.
  - clear Ex. apply in_map_iff in Hin as ([kw o] & Eo & Hin). cbn [snd] in Eo. subst o.
    exists kw. split.
    + apply in_or_app. right. right. apply in_or_app. left. exact Hin.
    + apply SS_app_r in HS. inversion HS as [|? ? HS2 HF]; subst.
      rewrite Forall_forall in HF. split.
      * apply (HF (kw, LW id x)). apply in_or_app. left. exact Hin.
      * apply SS_app_mid in HS2. rewrite Forall_forall in HS2. apply (HS2 (kw, LW id x) Hin).
Qed.

(* two observations of the same id with no write of that id placed between them see the same record *)
Lemma obs_same_without_write : forall (L : list lentry) r id x1 x2 k1 k2,
  StronglySorted (fun a b => fst a <= fst b) L -> reg_accepts r (map snd L) ->
  In (k1, LObs id x1) L -> In (k2, LObs id x2) L -> k1 < k2 ->
  (forall kw xw, In (kw, LW id xw) L -> ~ (k1 <= kw <= k2)) -> x1 = x2.
Proof.
  intros L r id x1 x2 k1 k2 HS HA H1 H2 Hlt Hno.
  destruct (sorted_before L (k1, LObs id x1) (k2, LObs id x2) HS H1 H2 Hlt) as (l1 & l2 & l3 & E).
  subst L. unfold lentry in *. rewrite map_app in HA. apply reg_accepts_app in HA as [_ HA].
  rewrite map_cons in HA. cbn [snd reg_accepts] in HA. destruct HA as [E1 HA].
  rewrite map_app in HA. apply reg_accepts_app in HA as [_ HA].
  rewrite map_cons in HA. cbn [snd reg_accepts] in HA. destruct HA as [E2 _].
  destruct (reg_after_src id (map snd l2) (reg_after r (map snd l1))) as [E|Hin].
  - congruence.
  - rewrite E2 in Hin. clear E1 E2. apply in_map_iff in Hin as ([kw o] & Eo & Hin). cbn [snd] in Eo. subst o.
    exfalso. apply (Hno kw x2).
    + apply in_or_app. right. right. apply in_or_app. left. exact Hin.
    + apply SS_app_r in HS. inversion HS as [|? ? HS2 HF]; subst.
      rewrite Forall_forall in HF. split.
      * apply (HF (kw, LW id x2)). apply in_or_app. left. exact Hin.
      * apply SS_app_mid in HS2. rewrite Forall_forall in HS2. apply (HS2 (kw, LW id x2) Hin).
Qed.

Lemma pair_split : forall r id v m, In (id, (v, m)) (pair_components r) ->
  In (id, Some v) (vec_components r) /\ In (id, m) (meta_components r).
Proof.
  intros r id v m H. destruct r as [i o|i [[v0 m0]|]|rs|b|b]; cbn in *; try contradiction.
  - destruct H as [H|[]]. inversion H; subst. split; left; reflexivity.
  - apply in_flat_map in H as ([i [[v0 m0]|]] & Hin & H); cbn in H; [|contradiction].
    destruct H as [H|[]]. inversion H; subst. split.
    + apply in_map_iff. exists (id, Some (v, m)). split; [reflexivity | exact Hin].
    + apply in_flat_map. exists (id, Some (v, m)). split; [exact Hin | left; reflexivity].
Qed.

(* ================================================================================================ *)
(* The interleaving semantics: invariant                                                            *)
(* ================================================================================================ *)
Lemma nth_upd_same : forall {A} (l : list A) n x y, nth_error l n = Some y -> nth_error (upd_nth l n x) n = Some x.
Proof. induction l as [|a r IH]; intros [|n] x y H; cbn in *; try discriminate; eauto. Qed.
Lemma nth_upd_other : forall {A} (l : list A) n m x, n <> m -> nth_error (upd_nth l n x) m = nth_error l m.
Proof.
  induction l as [|a r IH]; intros [|n] [|m] x H; cbn; auto; try congruence.
Qed.

Section Run.
  Variable digest : vec -> dgst.
  Variable hard : nat.
  Hypothesis digest_inj : forall a b : vec, digest a = digest b -> a = b.

  Notation step_prog := (step_prog digest).
  Notation run_thread := (run_thread digest hard).
  Notation cstep := (cstep digest hard).
  Notation crun := (crun digest hard).
  Notation sound := (sound digest).

  Definition fops (c : cur) : list lop := map snd (c_facts c).

  Record cur_ok (g : gstate) (t : nat) (c : cur) : Prop := mkCurOk {
    co_sound : sound (c_call c) (fops c) (c_prog c);
    co_inlog : incl (c_facts c) (g_log g);
    co_stamps : forall e, In e (c_facts c) -> c_inv c <= fst e;
    co_inv : c_inv c <= g_now g;
    co_hinv : In (HInv t (c_idx c) (c_call c) (c_inv c)) (g_hist g)
  }.

  Definition res_ok (g : gstate) : Prop :=
    forall t c cl r inv res, In (HRes t c cl r inv res) (g_hist g) ->
      inv <= res /\ res < g_now g /\
      exists F : list lentry, incl F (g_log g) /\ (forall e, In e F -> inv <= fst e <= res) /\
                              justified (map snd F) cl r.

  Definition log_writes_ok (g : gstate) : Prop :=
    forall k id x, In (k, LW id x) (g_log g) ->
      exists t c cl inv, In (HInv t c cl inv) (g_hist g) /\ inv <= k /\ (write_matches cl id x \/ drain_repair cl id x).

  Definition op_agrees (cold : list (N * crec)) (o : lop) : Prop :=
    match o with LW id x | LObs id x => lookup id cold = x end.

  (* the accesses logged by the latest step agree with the cold tier as that step left it *)
  Definition last_ok (g : gstate) : Prop :=
    forall e, In e (g_log g) -> S (fst e) = g_now g -> op_agrees (s_cold (g_sh g)) (snd e).

  Definition chron_ops (g : gstate) : list lop := map snd (chron (g_log g)).

  Record Inv (cold0 : list (N * crec)) (g : gstate) : Prop := mkInv {
    i_thr : forall t ts c, nth_error (g_thr g) t = Some ts -> t_cur ts = Some c -> cur_ok g t c;
    i_res : res_ok g;
    i_wr : log_writes_ok g;
    i_last : last_ok g;
    i_lt : forall e, In e (g_log g) -> fst e < g_now g;
    i_sorted : StronglySorted (fun a b => fst b <= fst a) (g_log g);
    i_acc : reg_accepts (reg_of cold0) (chron_ops g);
    i_after : forall id, reg_after (reg_of cold0) (chron_ops g) id = lookup id (s_cold (g_sh g))
  }.

  (* ----- effect of one action on the canonical register, as described by its log entries ----- *)
  Lemma step_prog_cold : forall s p s1 p1 ops l,
    step_prog s p = Some (s1, p1, ops, l) ->
    (forall o, In o ops -> op_agrees (s_cold s1) o) /\
    reg_accepts (reg_of (s_cold s)) (rev ops) /\
    (forall j, reg_after (reg_of (s_cold s)) (rev ops) j = lookup j (s_cold s1)).
  Proof.
    intros s p s1 p1 ops l H.
    destruct p; cbn [Conc05.step_prog] in H; try discriminate; injection H as <- <- <- <-;
      cbn [rev app In reg_accepts reg_after s_cold set_l1 set_hot set_cold];
      try solve [repeat split; intros; try contradiction; reflexivity].
    - (* ColdTok *) repeat split; [intros o [<-|[]]; reflexivity].
    - (* ColdFetch *) repeat split; [intros o [<-|[]]; reflexivity].
    - (* ColdMeta *) repeat split; [intros o [<-|[]]; reflexivity].
    - (* ColdBulk *)
      rewrite <- map_rev.
      destruct (reg_obs_list (fun id => lookup id (s_cold s)) (rev ids) (reg_of (s_cold s))) as [H1 H2];
        [reflexivity|].
      split; [|split; [exact H1 | intros j; rewrite H2; reflexivity]].
      intros o Hin. apply in_map_iff in Hin as (i & <- & _). reflexivity.
    - (* ColdIns *)
      split; [intros o [<-|[]]; cbn [op_agrees]; rewrite lk_put, N.eqb_refl; reflexivity|].
      split; [exact I|]. intros j. unfold reg_upd, reg_of. rewrite lk_put, (N.eqb_sym id j). reflexivity.
    - (* ColdDel *)
      split; [intros o [<-|[]]; cbn [op_agrees]; rewrite lk_remove, N.eqb_refl; reflexivity|].
      split; [exact I|]. intros j. unfold reg_upd, reg_of. rewrite lk_remove, (N.eqb_sym id j). reflexivity.
    - (* ColdRepair *)
      split; [intros o [<-|[]]; cbn [op_agrees]; rewrite lk_put, N.eqb_refl; reflexivity|].
      split; [exact I|]. intros j. unfold reg_upd, reg_of. rewrite lk_put, (N.eqb_sym id j). reflexivity.
  Qed.

  (* ----- monotonicity ----- *)
  Definition g_ext (g g' : gstate) : Prop :=
    incl (g_log g) (g_log g') /\ incl (g_hist g) (g_hist g') /\ g_now g <= g_now g'.

  Lemma cur_ok_mono : forall g g' t c, g_ext g g' -> cur_ok g t c -> cur_ok g' t c.
  Proof.
    intros g g' t c (H1 & H2 & H3) [A B C D E]. constructor; auto.
    - eapply incl_tran; eauto.
    - lia.
  Qed.

  Lemma finish_cases : forall t now c facts p1,
    (exists r, p1 = Ret r /\ finish t now c facts p1 = (None, [HRes t (c_idx c) (c_call c) r (c_inv c) now])) \/
    finish t now c facts p1 = (Some (mkCur (c_idx c) (c_call c) (c_inv c) facts p1), []).
  Proof. intros. destruct p1; cbn [finish]; eauto. Qed.

  Lemma start_cases : forall ts t now c todo next hinv,
    start digest hard ts t now = Some (c, todo, next, hinv) ->
    (t_cur ts = Some c /\ hinv = []) \/
    (t_cur ts = None /\ exists cl, c = mkCur (t_next ts) cl now [] (prog_of digest hard cl) /\
                                   hinv = [HInv t (t_next ts) cl now]).
  Proof.
    intros ts t now c todo next hinv H. unfold start in H. destruct (t_cur ts) as [c0|].
    - inversion H; subst. left. auto.
    - destruct (t_todo ts) as [|cl rest]; [discriminate|]. inversion H; subst. right. eauto.
  Qed.

  Lemma inv_run_thread : forall cold0 g t g', Inv cold0 g -> run_thread g t = Some g' -> Inv cold0 g'.
  Proof.
    intros cold0 g t g' HI H. unfold Conc05.run_thread in H.
    destruct (nth_error (g_thr g) t) as [ts|] eqn:Ets; [|discriminate].
    destruct (start digest hard ts t (g_now g)) as [[[[c todo] next] hinv]|] eqn:Est; [|discriminate].
    destruct (step_prog (g_sh g) (c_prog c)) as [[[[sh1 p1] ops] l]|] eqn:Esp; [|discriminate].
    inversion H; subst g'; clear H.
    set (now := g_now g) in *.
    set (ents := stamp now ops) in *.
    set (fin := finish t now c (ents ++ c_facts c) p1).
    destruct HI as [Ithr Ires Iwr Ilast Ilt Isorted Iacc Iafter].
    (* the call being run, as seen just after its (possible) invocation *)
    set (g0 := mkG (g_sh g) now (g_thr g) (hinv ++ g_hist g) (g_log g)).
    assert (Hc0 : cur_ok g0 t c).
    { destruct (start_cases _ _ _ _ _ _ _ Est) as [[Ec ->]|[Ec (cl & -> & ->)]].
      - eapply cur_ok_mono; [|eapply Ithr; eauto]. repeat split; cbn; try apply incl_refl. lia.
      - constructor; cbn.
        + apply sound_prog_of. exact digest_inj.
        + intros e [].
        + intros e [].
        + lia.
        + left. reflexivity. }
    destruct Hc0 as [Csound Cinlog Cstamps Cinv Chinv]. cbn [g_log g_now g_hist g0] in *.
    assert (Hents : forall e, In e ents -> fst e = now /\ In (snd e) ops) by (intros e; apply in_stamp).
    assert (Hfops : map snd (ents ++ c_facts c) = ops ++ fops c).
    { rewrite map_app. unfold ents. rewrite snd_stamp. reflexivity. }
    assert (Hsound1 : sound (c_call c) (ops ++ fops c) p1) by (eapply sound_step; eauto).
    destruct (step_prog_cold _ _ _ _ _ _ Esp) as (Hagree & Hacc & Hafter).
    set (g' := mkG sh1 (S now) (upd_nth (g_thr g) t (mkT (fst fin) todo next))
                   (snd fin ++ hinv ++ g_hist g) (ents ++ g_log g)).
    assert (Hext : g_ext g g').
    { repeat split; cbn.
      - apply incl_appr, incl_refl.
      - apply incl_appr, incl_appr, incl_refl.
      - fold now. lia. }
    assert (Hhinv' : In (HInv t (c_idx c) (c_call c) (c_inv c)) (g_hist g')).
    { cbn. apply in_or_app. right. exact Chinv. }
    constructor.
    - (* threads *)
      intros t' ts' c' Hn Hcur. cbn [g_thr g'] in Hn.
      destruct (Nat.eq_dec t t') as [<-|Hne].
      + rewrite (nth_upd_same _ _ _ _ Ets) in Hn. inversion Hn; subst ts'. cbn [t_cur] in Hcur.
        destruct (finish_cases t now c (ents ++ c_facts c) p1) as [(r & -> & Ef)|Ef];
          unfold fin in Hcur; rewrite Ef in Hcur; cbn [fst] in Hcur; [discriminate|].
        inversion Hcur; subst c'. constructor; cbn [c_call c_prog c_facts c_inv c_idx].
        * unfold fops. cbn [c_facts]. rewrite Hfops. exact Hsound1.
        * cbn. apply incl_app_app; [apply incl_refl | exact Cinlog].
        * intros e He. apply in_app_or in He as [He|He]; [destruct (Hents e He) as [-> _]; exact Cinv | auto].
        * cbn. lia.
        * exact Hhinv'.
      + rewrite nth_upd_other in Hn by exact Hne. eapply cur_ok_mono; [exact Hext|]. eapply Ithr; eauto.
    - (* responses *)
      intros t' c' cl r inv res Hin. cbn [g_hist g'] in Hin.
      apply in_app_or in Hin as [Hin|Hin].
      + destruct (finish_cases t now c (ents ++ c_facts c) p1) as [(r0 & -> & Ef)|Ef];
          unfold fin in Hin; rewrite Ef in Hin; cbn [snd] in Hin; [|destruct Hin].
        destruct Hin as [Hin|[]]. inversion Hin; subst. cbn [g_now g'].
        split; [exact Cinv|]. split; [lia|].
        exists (ents ++ c_facts c). split; [cbn; apply incl_app_app; [apply incl_refl | exact Cinlog]|].
        split.
        * intros e He. apply in_app_or in He as [He|He].
          -- destruct (Hents e He) as [-> _]. lia.
          -- split; [auto|]. specialize (Ilt e (Cinlog e He)). fold now in Ilt. lia.
        * rewrite Hfops. exact Hsound1.
      + assert (Hin' : In (HRes t' c' cl r inv res) (g_hist g)).
        { apply in_app_or in Hin as [Hin|Hin]; [|exact Hin].
          destruct (start_cases _ _ _ _ _ _ _ Est) as [[_ ->]|[_ (cl0 & _ & ->)]]; [destruct Hin|].
          destruct Hin as [Hin|[]]. discriminate. }
        destruct (Ires _ _ _ _ _ _ Hin') as (A & B & F & C & D & E).
        split; [exact A|]. split; [cbn; fold now; lia|]. exists F. split; [|auto].
        eapply incl_tran; [exact C|]. apply Hext.
    - (* writes in the log belong to invoked write calls *)
      intros k id x Hin. cbn [g_log g'] in Hin. apply in_app_or in Hin as [Hin|Hin].
      + destruct (Hents _ Hin) as [Ek Hop]. cbn [fst snd] in Ek, Hop. subst k.
        exists t, (c_idx c), (c_call c), (c_inv c). split; [exact Hhinv'|]. split; [exact Cinv|].
        eapply step_writes with (p := c_prog c) (F := fops c); [exact Csound | exact Esp | exact Hop].
      + destruct (Iwr _ _ _ Hin) as (t0 & c0 & cl0 & inv0 & A & B & C).
        exists t0, c0, cl0, inv0. split; [apply Hext; exact A | auto].
    - (* latest-step entries agree with the cold tier *)
      intros e Hin Hs. cbn [g_log g_now g_sh g'] in *. apply in_app_or in Hin as [Hin|Hin].
      + destruct (Hents _ Hin) as [_ Hop]. apply Hagree. exact Hop.
      + specialize (Ilt e Hin). fold now in Ilt. lia.
    - (* stamps below now *)
      intros e Hin. cbn [g_log g_now g'] in *. apply in_app_or in Hin as [Hin|Hin].
      + destruct (Hents _ Hin) as [-> _]. lia.
      + specialize (Ilt e Hin). fold now in Ilt. lia.
    - (* sorted *)
      cbn [g_log g']. apply SS_prepend with (now := now); auto.
      + intros e He. apply (Hents e He).
      + intros e He. specialize (Ilt e He). fold now in Ilt. lia.
    - (* accepted by the register *)
      unfold chron_ops, chron in *. cbn [g_log g']. rewrite rev_app_distr, map_app.
      apply reg_accepts_app. split; [exact Iacc|].
      unfold ents, stamp. rewrite <- map_rev, map_map. cbn [snd]. rewrite map_id.
      eapply reg_accepts_ext; [|exact Hacc]. intros j. symmetry. apply Iafter.
    - (* and the replay ends at the current cold tier *)
      intros id. unfold chron_ops, chron in *. cbn [g_log g_sh g']. rewrite rev_app_distr, map_app, reg_after_app.
      unfold ents, stamp. rewrite <- map_rev, map_map. cbn [snd]. rewrite map_id.
      rewrite <- Hafter. apply reg_after_ext. exact Iafter.
  Qed.

  Lemma inv_poke : forall cold0 g sh1,
    Inv cold0 g -> s_cold sh1 = s_cold (g_sh g) ->
    Inv cold0 (mkG sh1 (S (g_now g)) (g_thr g) (g_hist g) (g_log g)).
  Proof.
    intros cold0 g sh1 [Ithr Ires Iwr Ilast Ilt Isorted Iacc Iafter] Hc.
    assert (Hext : g_ext g (mkG sh1 (S (g_now g)) (g_thr g) (g_hist g) (g_log g))).
    { repeat split; cbn; try apply incl_refl. lia. }
    constructor; cbn [g_thr g_hist g_log g_now g_sh]; auto.
    - intros. eapply cur_ok_mono; [exact Hext|]. eapply Ithr; eauto.
    - intros t c cl r inv res Hin. destruct (Ires _ _ _ _ _ _ Hin) as (A & B & F & C & D & E).
      split; [exact A|]. split; [cbn; lia|]. exists F. auto.
    - intros e Hin Hs. cbn in Hs. specialize (Ilt e Hin). lia.
    - intros e Hin. specialize (Ilt e Hin). lia.
    - intros id. unfold chron_ops in *. cbn [g_log g_sh]. rewrite Hc. apply Iafter.
  Qed.

  Lemma inv_cstep : forall cold0 g i g', Inv cold0 g -> cstep g i = Some g' -> Inv cold0 g'.
  Proof.
    intros cold0 g i g' HI H. destruct i as [t|id e|id h]; cbn [Conc05.cstep] in H.
    - eapply inv_run_thread; eauto.
    - inversion H; subst. apply inv_poke; [exact HI | reflexivity].
    - inversion H; subst. apply inv_poke; [exact HI | reflexivity].
  Qed.

  Lemma inv_init : forall sh0 threads, Inv (s_cold sh0) (ginit sh0 threads).
  Proof.
    intros sh0 threads. constructor; cbn.
    - intros t ts c Hn Hc. unfold ginit in Hn. cbn in Hn. rewrite nth_error_map in Hn.
      destruct (nth_error threads t); cbn in Hn; [|discriminate]. inversion Hn; subst. discriminate.
    - intros t c cl r inv res [].
    - intros k id x [].
    - intros e [].
    - intros e [].
    - constructor.
    - exact I.
    - reflexivity.
  Qed.

  Lemma inv_crun : forall cold0 sched g g', Inv cold0 g -> crun g sched = Some g' -> Inv cold0 g'.
  Proof.
    induction sched as [|i r IH]; intros g g' HI H; cbn [Conc05.crun] in H.
    - inversion H; subst; exact HI.
    - destruct (cstep g i) as [g1|] eqn:E; [|discriminate]. eapply IH; [|exact H]. eapply inv_cstep; eauto.
  Qed.

  (* ----- runs: prefixes, step counting, log growth ----- *)
  Lemma crun_app : forall a b g g', crun g (a ++ b) = Some g' -> exists g1, crun g a = Some g1 /\ crun g1 b = Some g'.
  Proof.
    induction a as [|i a IH]; intros b g g' H; cbn [app Conc05.crun] in *.
    - eauto.
    - destruct (cstep g i) as [g1|]; [|discriminate]. apply IH. exact H.
  Qed.

  Lemma cstep_now_log : forall g i g', cstep g i = Some g' ->
    g_now g' = S (g_now g) /\ exists new, g_log g' = new ++ g_log g /\ forall e, In e new -> fst e = g_now g.
  Proof.
    intros g i g' H. destruct i as [t|id e|id h]; cbn [Conc05.cstep] in H.
    - unfold Conc05.run_thread in H.
      destruct (nth_error (g_thr g) t) as [ts|]; [|discriminate].
      destruct (start digest hard ts t (g_now g)) as [[[[c todo] next] hinv]|]; [|discriminate].
      destruct (step_prog (g_sh g) (c_prog c)) as [[[[sh1 p1] ops] l]|]; [|discriminate].
      inversion H; subst; cbn. split; [reflexivity|]. eexists. split; [reflexivity|].
      intros e He. apply in_stamp in He. tauto.
    - inversion H; subst; cbn. split; [reflexivity|]. exists []. split; [reflexivity | intros e0 []].
    - inversion H; subst; cbn. split; [reflexivity|]. exists []. split; [reflexivity | intros e0 []].
  Qed.

  Lemma crun_now_log : forall sched g g', crun g sched = Some g' ->
    g_now g' = g_now g + length sched /\
    exists new, g_log g' = new ++ g_log g /\ forall e, In e new -> g_now g <= fst e.
  Proof.
    induction sched as [|i r IH]; intros g g' H; cbn [Conc05.crun length] in H |- *.
    - inversion H; subst. split; [lia|]. exists []. split; [reflexivity | intros e []].
    - destruct (cstep g i) as [g1|] eqn:E; [|discriminate].
      destruct (cstep_now_log _ _ _ E) as (N1 & new1 & L1 & S1).
      destruct (IH _ _ H) as (N2 & new2 & L2 & S2).
      split; [lia|]. exists (new2 ++ new1). split; [rewrite L2, L1, app_assoc; reflexivity|].
      intros e He. apply in_app_or in He as [He|He]; [specialize (S2 e He); lia | rewrite (S1 e He); lia].
  Qed.

  (* an entry stamped k of the final log was logged by step k, and agrees with the cold tier as that
     step left it *)
  Lemma entry_at_prefix : forall sh0 threads sched g e,
    crun (ginit sh0 threads) sched = Some g -> In e (g_log g) ->
    exists gk, crun (ginit sh0 threads) (firstn (S (fst e)) sched) = Some gk /\
               op_agrees (s_cold (g_sh gk)) (snd e).
  Proof.
    intros sh0 threads sched g e Hrun Hin.
    pose proof (inv_crun _ _ _ _ (inv_init sh0 threads) Hrun) as HI.
    pose proof (i_lt _ _ HI e Hin) as Hlt.
    destruct (crun_now_log _ _ _ Hrun) as (Hnow & _). change (g_now (ginit sh0 threads)) with 0 in Hnow.
    rewrite <- (firstn_skipn (S (fst e)) sched) in Hrun.
    apply crun_app in Hrun as (gk & Hk & Hrest).
    exists gk. split; [exact Hk|].
    destruct (crun_now_log _ _ _ Hk) as (Hnowk & _). change (g_now (ginit sh0 threads)) with 0 in Hnowk.
    rewrite firstn_length_le in Hnowk by lia.
    destruct (crun_now_log _ _ _ Hrest) as (_ & new & Hlog & Hnew).
    rewrite Hlog in Hin. apply in_app_or in Hin as [Hin|Hin].
    - specialize (Hnew e Hin). lia.
    - pose proof (inv_crun _ _ _ _ (inv_init sh0 threads) Hk) as HIk.
      apply (i_last _ _ HIk e Hin). lia.
  Qed.

  (* ============================================================================================== *)
  (* Theorems                                                                                       *)
  (* ============================================================================================== *)
  Theorem read_has_lin_point : forall sh0 threads sched g,
    crun (ginit sh0 threads) sched = Some g ->
    forall t c cl r inv res id val,
      In (HRes t c cl r inv res) (g_hist g) -> In (id, val) (vec_components r) ->
      exists k gk, inv <= k <= res /\
        crun (ginit sh0 threads) (firstn (S k) sched) = Some gk /\
        option_map c_vec (lookup id (s_cold (g_sh gk))) = val.
  Proof.
    intros sh0 threads sched g Hrun t c cl r inv res id val Hres Hcomp.
    pose proof (inv_crun _ _ _ _ (inv_init sh0 threads) Hrun) as HI.
    destruct (i_res _ _ HI _ _ _ _ _ _ Hres) as (_ & _ & F & Hincl & Hst & (Jv & _ & _)).
    destruct (Jv _ _ Hcomp) as (x & Hin & Ex).
    apply in_map_iff in Hin as ([k o] & Eo & Hin). cbn [snd] in Eo. subst o.
    destruct (entry_at_prefix _ _ _ _ _ Hrun (Hincl _ Hin)) as (gk & Hk & Hag).
    cbn [fst snd op_agrees] in Hk, Hag.
    exists k, gk. split; [apply (Hst _ Hin)|]. split; [exact Hk|]. rewrite Hag. exact Ex.
  Qed.

  (* the same for the metadata component of read-with-metadata / bulk read *)
  Theorem meta_has_lin_point : forall sh0 threads sched g,
    crun (ginit sh0 threads) sched = Some g ->
    forall t c cl r inv res id m,
      In (HRes t c cl r inv res) (g_hist g) -> In (id, m) (meta_components r) ->
      exists k gk, inv <= k <= res /\
        crun (ginit sh0 threads) (firstn (S k) sched) = Some gk /\
        option_map c_meta (lookup id (s_cold (g_sh gk))) = Some m.
  Proof.
    intros sh0 threads sched g Hrun t c cl r inv res id m Hres Hcomp.
    pose proof (inv_crun _ _ _ _ (inv_init sh0 threads) Hrun) as HI.
    destruct (i_res _ _ HI _ _ _ _ _ _ Hres) as (_ & _ & F & Hincl & Hst & (_ & Jm & _)).
    destruct (Jm _ _ Hcomp) as (x & Hin & Ex).
    apply in_map_iff in Hin as ([k o] & Eo & Hin). cbn [snd] in Eo. subst o.
    destruct (entry_at_prefix _ _ _ _ _ Hrun (Hincl _ Hin)) as (gk & Hk & Hag).
    cbn [fst snd op_agrees] in Hk, Hag.
    exists k, gk. split; [apply (Hst _ Hin)|]. split; [exact Hk|]. rewrite Hag. exact Ex.
  Qed.

  Definition call_linearised (L : list lentry) (cl : call) (inv res : nat) : Prop :=
    match cl with
    | CInsert id v m =>
        exists k rc, In (k, LW id (Some rc)) L /\ inv <= k <= res /\ c_vec rc = v /\ c_meta rc = meta_canon m
    | CDelete id => exists k, In (k, LW id None) L /\ inv <= k <= res
    | _ => True
    end.

  Theorem register_linearizable : forall sh0 threads sched g,
    crun (ginit sh0 threads) sched = Some g ->
    let L := chron (g_log g) in
    StronglySorted (fun a b => fst a <= fst b) L /\
    reg_accepts (reg_of (s_cold sh0)) (map snd L) /\
    (forall id, reg_after (reg_of (s_cold sh0)) (map snd L) id = lookup id (s_cold (g_sh g))) /\
    (forall t c cl r inv res, In (HRes t c cl r inv res) (g_hist g) ->
       inv <= res /\
       (forall id val, In (id, val) (vec_components r) ->
          exists k x, In (k, LObs id x) L /\ inv <= k <= res /\ option_map c_vec x = val) /\
       (forall id m, In (id, m) (meta_components r) ->
          exists k x, In (k, LObs id x) L /\ inv <= k <= res /\ option_map c_meta x = Some m) /\
       call_linearised L cl inv res) /\
    (forall k id x, In (k, LW id x) L ->
       exists t c cl inv, In (HInv t c cl inv) (g_hist g) /\ inv <= k /\
                          (write_matches cl id x \/ drain_repair cl id x)).
  Proof.
    intros sh0 threads sched g Hrun L.
    pose proof (inv_crun _ _ _ _ (inv_init sh0 threads) Hrun) as HI.
    split; [apply (SS_rev _ _ (i_sorted _ _ HI))|].
    split; [apply (i_acc _ _ HI)|].
    split; [apply (i_after _ _ HI)|].
    split.
    - intros t c cl r inv res Hres.
      destruct (i_res _ _ HI _ _ _ _ _ _ Hres) as (A & _ & F & Hincl & Hst & (Jv & Jm & Jw)).
      assert (HL : forall e, In e F -> In e L) by (intros e He; unfold L, chron; apply -> in_rev; auto).
      split; [exact A|]. split; [|split].
      + intros id val Hc. destruct (Jv _ _ Hc) as (x & Hin & Ex).
        apply in_map_iff in Hin as ([k o] & Eo & Hin). cbn [snd] in Eo. subst o.
        exists k, x. split; [auto|]. split; [apply (Hst _ Hin) | exact Ex].
      + intros id m Hc. destruct (Jm _ _ Hc) as (x & Hin & Ex).
        apply in_map_iff in Hin as ([k o] & Eo & Hin). cbn [snd] in Eo. subst o.
        exists k, x. split; [auto|]. split; [apply (Hst _ Hin) | exact Ex].
      + destruct cl; cbn [call_linearised write_just] in *; auto.
        * destruct Jw as (rc & Hin & E1 & E2).
          apply in_map_iff in Hin as ([k o] & Eo & Hin). cbn [snd] in Eo. subst o.
          exists k, rc. split; [auto|]. split; [apply (Hst _ Hin) | auto].
        * apply in_map_iff in Jw as ([k o] & Eo & Hin). cbn [snd] in Eo. subst o.
          exists k. split; [auto | apply (Hst _ Hin)].
    - intros k id x Hin. apply (i_wr _ _ HI). unfold L, chron in Hin. apply in_rev. exact Hin.
  Qed.

  (* ----- consequences spelled out ----- *)
  (* every write that took effect was issued by an invoked insert/delete with exactly those arguments,
     i.e. no emergency-drain repair write happened in this run *)
  Definition client_writes_only (g : gstate) : Prop :=
    forall k id x, In (k, LW id x) (chron (g_log g)) ->
      exists t c cl inv, In (HInv t c cl inv) (g_hist g) /\ inv <= k /\ write_matches cl id x.

  (* never a vector that was not written: a returned vector is the initial canonical one or the
     argument of an invoked insert of that id *)
  Theorem read_value_written : forall sh0 threads sched g,
    crun (ginit sh0 threads) sched = Some g ->
    client_writes_only g ->
    forall t c cl r inv res id v,
      In (HRes t c cl r inv res) (g_hist g) -> In (id, Some v) (vec_components r) ->
      (exists rc, lookup id (s_cold sh0) = Some rc /\ c_vec rc = v) \/
      (exists t' c' m inv', In (HInv t' c' (CInsert id v m) inv') (g_hist g)).
  Proof.
    intros sh0 threads sched g Hrun Hnorep t c cl r inv res id v Hres Hc.
    destruct (register_linearizable _ _ _ _ Hrun) as (HS & HA & _ & Hcalls & Hwr).
    destruct (Hcalls _ _ _ _ _ _ Hres) as (_ & Hv & _ & _).
    destruct (Hv _ _ Hc) as (k & x & Hin & Hk & Ex).
    destruct x as [rc|]; cbn in Ex; [|discriminate]. inversion Ex; subst v.
    assert (Hin' : In (LObs id (Some rc)) (map snd (chron (g_log g)))).
    { apply in_map_iff. exists (k, LObs id (Some rc)). auto. }
    destruct (reg_accepts_obs_src _ _ _ _ HA Hin') as [E|Hw].
    - left. exists rc. split; [symmetry; exact E | reflexivity].
    - right. apply in_map_iff in Hw as ([kw o] & Eo & Hw). cbn [snd] in Eo. subst o.
      destruct (Hnorep _ _ _ Hw) as (t' & c' & cl' & inv' & Hinv & _ & Hm).
      destruct cl'; cbn in Hm; try contradiction.
      + destruct Hm as (-> & r0 & E0 & E1 & _). inversion E0; subst r0.
        exists t', c', m, inv'. rewrite E1. exact Hinv.
      + destruct Hm as [_ Hm]. discriminate.
  Qed.

  (* never older than a write that completed before the read began, never a deleted document after
     its delete completed: the read returns the value of that write W or of a write that took effect
     after W (and before the read's response) *)
  Theorem read_sees_completed_write : forall sh0 threads sched g,
    crun (ginit sh0 threads) sched = Some g ->
    forall tw cw clw rw invw resw t c cl r inv res id val,
      In (HRes tw cw clw rw invw resw) (g_hist g) ->
      ((exists v m, clw = CInsert id v m) \/ clw = CDelete id) ->
      In (HRes t c cl r inv res) (g_hist g) -> In (id, val) (vec_components r) ->
      resw < inv ->
      exists kW xW kw x,
        In (kW, LW id xW) (chron (g_log g)) /\ invw <= kW <= resw /\ write_matches clw id xW /\
        In (kw, LW id x) (chron (g_log g)) /\ kW <= kw <= res /\ option_map c_vec x = val.
  Proof.
    intros sh0 threads sched g Hrun tw cw clw rw invw resw t c cl r inv res id val HW Hkind HR Hc Hlt.
    destruct (register_linearizable _ _ _ _ Hrun) as (HS & HA & _ & Hcalls & _).
    destruct (Hcalls _ _ _ _ _ _ HW) as (_ & _ & _ & HLw).
    destruct (Hcalls _ _ _ _ _ _ HR) as (_ & Hv & _ & _).
    destruct (Hv _ _ Hc) as (k & x & Hin & Hk & Ex).
    assert (HWent : exists kW xW, In (kW, LW id xW) (chron (g_log g)) /\ invw <= kW <= resw /\ write_matches clw id xW).
    { destruct Hkind as [(v & m & Ek)|Ek]; subst clw; cbn [call_linearised] in HLw.
      - destruct HLw as (kW & rc & H1 & H2 & H3 & H4). exists kW, (Some rc). split; [exact H1|]. split; [exact H2|].
        cbn. split; [reflexivity|]. exists rc. auto.
      - destruct HLw as (kW & H1 & H2). exists kW, None. split; [exact H1|]. split; [exact H2|]. cbn. auto. }
    destruct HWent as (kW & xW & HinW & HkW & HmW).
    destruct (last_write_before _ _ _ _ _ _ _ HS HA Hin HinW) as (kw & Hinw & Hkw); [lia|].
    exists kW, xW, kw, x. repeat split; auto; lia.
  Qed.

  (* never a deleted document after its delete completed — in runs without a drain repair write: a
     read that begins after a completed delete and still finds the document is explained by an INSERT
     call of that id and vector whose write took effect after the delete's linearisation point *)
  Theorem read_after_completed_delete : forall sh0 threads sched g,
    crun (ginit sh0 threads) sched = Some g ->
    client_writes_only g ->
    forall tw cw rw invw resw t c cl r inv res id v,
      In (HRes tw cw (CDelete id) rw invw resw) (g_hist g) ->
      In (HRes t c cl r inv res) (g_hist g) -> In (id, Some v) (vec_components r) ->
      resw < inv ->
      exists kW kw t' c' m inv',
        invw <= kW <= resw /\ kW <= kw <= res /\
        In (HInv t' c' (CInsert id v m) inv') (g_hist g) /\ inv' <= kw.
  Proof.
    intros sh0 threads sched g Hrun Hcw tw cw rw invw resw t c cl r inv res id v HW HR Hc Hlt.
    destruct (read_sees_completed_write _ _ _ _ Hrun _ _ _ _ _ _ _ _ _ _ _ _ id (Some v) HW (or_intror eq_refl) HR Hc Hlt)
      as (kW & xW & kw & x & _ & HkW & _ & Hinw & Hkw & Ex).
    destruct x as [rc|]; cbn in Ex; [|discriminate]. inversion Ex; subst v.
    destruct (Hcw _ _ _ Hinw) as (t' & c' & cl' & inv' & Hinv & Hle & Hm).
    destruct cl'; cbn in Hm; try contradiction.
    - destruct Hm as (-> & r0 & E0 & E1 & _). inversion E0; subst r0.
      exists kW, kw, t', c', m, inv'. rewrite E1. auto.
    - destruct Hm as [_ Hm]. discriminate.
  Qed.

  (* the pairing clause holds for every read during which no write of that id took effect between its
     two fetches (the refuted class is exactly "a write lands between them") *)
  Theorem pairing_without_interleaved_write : forall sh0 threads sched g,
    crun (ginit sh0 threads) sched = Some g ->
    forall t c cl r inv res id v m,
      In (HRes t c cl r inv res) (g_hist g) -> In (id, (v, m)) (pair_components r) ->
      exists kv km xv xm,
        In (kv, LObs id xv) (chron (g_log g)) /\ In (km, LObs id xm) (chron (g_log g)) /\
        inv <= kv <= res /\ inv <= km <= res /\
        option_map c_vec xv = Some v /\ option_map c_meta xm = Some m /\
        ((forall kw xw, In (kw, LW id xw) (chron (g_log g)) -> ~ (Nat.min kv km <= kw <= Nat.max kv km)) ->
         exists rc, xv = Some rc /\ xm = Some rc /\ c_vec rc = v /\ c_meta rc = m).
  Proof.
    intros sh0 threads sched g Hrun t c cl r inv res id v m Hres Hp.
    destruct (pair_split _ _ _ _ Hp) as [Hv Hm].
    destruct (register_linearizable _ _ _ _ Hrun) as (HS & HA & _ & Hcalls & _).
    destruct (Hcalls _ _ _ _ _ _ Hres) as (_ & Jv & Jm & _).
    destruct (Jv _ _ Hv) as (kv & xv & Hinv & Hkv & Exv).
    destruct (Jm _ _ Hm) as (km & xm & Hinm & Hkm & Exm).
    exists kv, km, xv, xm. repeat (split; [assumption|]).
    intros Hno.
    assert (E : xv = xm).
    { destruct (Nat.lt_trichotomy kv km) as [Hlt|[Heq|Hgt]].
      - eapply obs_same_without_write; eauto. intros kw xw Hw Hb. apply (Hno kw xw Hw). lia.
      - subst km.
        assert (Hl1 : In (kv, LObs id xv) (g_log g)) by (apply in_rev; exact Hinv).
        assert (Hl2 : In (kv, LObs id xm) (g_log g)) by (apply in_rev; exact Hinm).
        destruct (entry_at_prefix _ _ _ _ _ Hrun Hl1) as (g1 & R1 & A1).
        destruct (entry_at_prefix _ _ _ _ _ Hrun Hl2) as (g2 & R2 & A2).
        cbn [fst snd op_agrees] in *. rewrite R1 in R2. inversion R2; subst g2. congruence.
      - symmetry. eapply obs_same_without_write; eauto. intros kw xw Hw Hb. apply (Hno kw xw Hw). lia. }
    subst xm. destruct xv as [rc|]; cbn in Exv, Exm; [|discriminate].
    exists rc. inversion Exv. inversion Exm. auto.
  Qed.
End Run.
