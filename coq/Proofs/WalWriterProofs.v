(* Proofs about the WAL writer model under storage faults (Model/WalWriter.v).  Used by C03. *)
From Coq Require Import List NArith Bool Arith Lia.
From Kyro Require Import Model.WalBytes Proofs.WalBytesProofs Model.WalWriter.
Import ListNotations.
Open Scope N_scope.

Arguments N.mul : simpl never.
Arguments N.add : simpl never.
Arguments N.div : simpl never.
Arguments N.modulo : simpl never.

(* ---------- lists ---------- *)
Lemma firstn_plus {A} (n k : nat) (l : list A) :
  firstn (n + k) l = firstn n l ++ firstn k (skipn n l).
Proof.
  revert l; induction n as [|n IH]; intro l; [reflexivity|].
  destruct l as [|x l]; cbn [Nat.add firstn skipn app].
  - now rewrite firstn_nil.
  - now rewrite IH.
Qed.

Lemma in_firstn {A} (x : A) j l : In x (firstn j l) -> In x l.
Proof.
  revert l; induction j as [|j IH]; intros l H; [destruct H|].
  destruct l; [destruct H|]. destruct H as [H|H]; [now left|right; auto].
Qed.

Lemma set_len_app (f x : bytes) : set_len (N.of_nat (length f)) (f ++ x) = f.
Proof.
  unfold set_len. rewrite Nat2N.id, firstn_app, Nat.sub_diag, firstn_all. cbn [firstn].
  rewrite app_nil_r, app_length.
  replace (length f - (length f + length x))%nat with 0%nat by lia. cbn. now rewrite app_nil_r.
Qed.

(* ---------- libstd loops ---------- *)
Definition same_meta (w w' : writer) : Prop :=
  w_bytes w' = w_bytes w /\ w_count w' = w_count w /\ w_poisoned w' = w_poisoned w.

Lemma same_meta_refl w : same_meta w w.
Proof. repeat split. Qed.

Lemma same_meta_trans a b c : same_meta a b -> same_meta b c -> same_meta a c.
Proof. unfold same_meta. intuition congruence. Qed.

Lemma write_all_spec orc : forall buf w w' e o,
  write_all buf w orc = (w', e, o) ->
  same_meta w w' /\
  exists k, w_file w' = w_file w ++ firstn k buf /\
            (e = None -> firstn k buf = buf) /\
            (e <> None -> (k < length buf)%nat).
Proof.
  induction orc as [|r orc IH]; intros buf w w' e o H.
  - destruct buf as [|b buf]; cbn in H; inversion H; subst; clear H.
    + split; [apply same_meta_refl|]. exists 0%nat. cbn. rewrite app_nil_r. repeat split; congruence.
    + split; [repeat split|]. exists (length (b :: buf)). cbn [w_file put log].
      rewrite (firstn_all (b :: buf)). repeat split; congruence.
  - destruct buf as [|b buf].
    { cbn in H. inversion H; subst. split; [apply same_meta_refl|]. exists 0%nat. cbn.
      rewrite app_nil_r. repeat split; congruence. }
    cbn [write_all] in H.
    destruct r as [|n|er].
    + inversion H; subst; clear H. split; [repeat split|]. exists (length (b :: buf)).
      cbn [w_file put log]. rewrite (firstn_all (b :: buf)). repeat split; congruence.
    + destruct (Nat.eqb_spec n 0) as [Z|Z].
      { inversion H; subst; clear H. split; [repeat split|]. exists 0%nat. cbn.
        rewrite app_nil_r. repeat split; try congruence. intros _. lia. }
      destruct (Nat.leb_spec (length (b :: buf)) n) as [L|L].
      { inversion H; subst; clear H. split; [repeat split|]. exists (length (b :: buf)).
        cbn [w_file put log]. rewrite firstn_all. repeat split; congruence. }
      apply IH in H. destruct H as [M (k & Hf & Hn & He)].
      split; [exact M|]. exists (n + k)%nat. cbn [w_file put log] in Hf.
      rewrite firstn_plus, Hf, <- app_assoc. split; [reflexivity|]. split.
      * intro E. rewrite (Hn E). apply firstn_skipn.
      * intro E. specialize (He E). rewrite skipn_length in He. lia.
    + destruct er; try (inversion H; subst; clear H; split; [repeat split|]; exists 0%nat; cbn;
        rewrite app_nil_r; repeat split; try congruence; intros _; lia).
      (* EINTR: retried *)
      apply IH in H. destruct H as [M (k & Hf & Hn & He)]. split; [exact M|]. exists k. auto.
Qed.

Lemma sys_spec k orc : forall w w' e o,
  sys k w orc = (w', e, o) -> same_meta w w' /\ w_file w' = w_file w.
Proof.
  induction orc as [|r orc IH]; intros w w' e o H; cbn [sys] in H.
  - inversion H; subst. split; [repeat split|reflexivity].
  - destruct r as [|n|er]; try (inversion H; subst; split; [repeat split|reflexivity]).
    destruct er; try (inversion H; subst; split; [repeat split|reflexivity]).
    apply IH in H. exact H.
Qed.

Section WriterProofs.
  Variable crc : bytes -> N.
  Variable pol : policy.
  Variable deser_ok : bytes -> bool.
  Hypothesis crc_lt : forall p, crc p < 4294967296.

  Notation frame := (frame crc).
  Notation segment := (segment crc).
  Notation frames := (fun ps => concat (map frame ps)).
  Notation read_all_strict := (read_all_strict crc deser_ok).
  Notation write_entry := (write_entry crc).
  Notation write_entries := (write_entries crc).
  Notation perform_fsync := (perform_fsync pol).
  Notation append_internal := (append_internal crc pol).
  Notation append_batch_internal := (append_batch_internal crc pol).
  Notation append := (append crc pol).
  Notation append_batch := (append_batch crc pol).
  Notation known_c03 := (known_c03 crc pol).
  Notation wstep := (wstep crc pol).
  Notation wrun := (wrun crc pol).

  (* a payload the engine can log: size within bounds and bincode-decodable *)
  Definition wfp (p : bytes) : Prop := valid_payload p /\ deser_ok p = true.

  (* what a failed, un-rolled-back write can leave behind its last complete frame *)
  Definition tornp (t : bytes) : Prop :=
    t = [] \/ exists q k, valid_payload q /\ (k < length (frame q))%nat /\ t = firstn k (frame q).

  Lemma frame_len p : length (frame p) = (8 + length p)%nat.
  Proof. apply frame_length. Qed.

  (* ---------- reader: complete frames followed by a torn tail read as the complete frames ---------- *)
  Lemma read_frames_torn ps : forall f t,
    Forall wfp ps -> tornp t -> (length ps < f)%nat ->
    read_frames crc deser_ok f (frames ps ++ t) = (ps, 0).
  Proof.
    induction ps as [|p ps IH]; intros f t Hw Ht Hf.
    - cbn [map concat app]. destruct Ht as [->|(q & k & Hq & Hk & ->)].
      + destruct f; [reflexivity|]. rewrite read_frames_S, take_short by (cbn; lia). reflexivity.
      + apply (read_frames_partial_frame crc deser_ok); assumption.
    - cbn [map concat length] in *. rewrite <- app_assoc.
      inversion Hw as [|? ? [Hv Hd] Hps]; subst.
      destruct f as [|f]; [lia|].
      rewrite (read_frames_frame crc deser_ok crc_lt f p _ Hv), (IH f t Hps Ht) by lia.
      rewrite Hd. reflexivity.
  Qed.

  Lemma read_segment_torn es t :
    Forall wfp es -> tornp t -> read_all_strict (segment es ++ t) = RdOk es.
  Proof.
    intros Hw Ht. unfold WalBytes.read_all_strict, read_all, WalBytes.segment.
    rewrite <- app_assoc. change 4 with (N.of_nat (length wal_magic)).
    rewrite take_app, bytes_eqb_refl, (read_frames_torn es _ t Hw Ht); [reflexivity|].
    rewrite app_length. pose proof (concat_frames_length crc es). lia.
  Qed.

  Lemma segment_app es qs : segment (es ++ qs) = segment es ++ frames qs.
  Proof. unfold WalBytes.segment. now rewrite map_app, concat_app, app_assoc. Qed.

  (* ---------- WalWriter internals ---------- *)
  Lemma write_entry_spec p w orc w' e o :
    write_entry p w orc = (w', e, o) ->
    w_poisoned w' = w_poisoned w /\
    ((e = None /\ w_file w' = w_file w ++ frame p /\
      w_bytes w' = w_bytes w + N.of_nat (length (frame p))) \/
     (e <> None /\ w_bytes w' = w_bytes w /\ w_count w' = w_count w /\
      exists k, (k < length (frame p))%nat /\ w_file w' = w_file w ++ firstn k (frame p))).
  Proof.
    unfold WalWriter.write_entry. intro H.
    destruct (max_wal_entry <? N.of_nat (length p)).
    { inversion H; subst. split; [reflexivity|]. right. split; [discriminate|]. repeat split.
      exists 0%nat. rewrite frame_len. cbn. rewrite app_nil_r. split; [lia|reflexivity]. }
    destruct (write_all (frame p) w orc) as [[w1 e1] o1] eqn:E.
    apply write_all_spec in E. destruct E as [(Mb & Mc & Mp) (k & Hf & Hn & He)].
    destruct e1 as [x|]; inversion H; subst; clear H.
    - split; [exact Mp|]. right. split; [discriminate|]. repeat split; try assumption.
      exists k. split; [apply He; discriminate|exact Hf].
    - split; [exact Mp|]. left. cbn [set_counters w_file w_bytes]. rewrite Hf, (Hn eq_refl), Mb. auto.
  Qed.

  Lemma write_entries_spec ps : forall w orc w' e o,
    Forall valid_payload ps ->
    write_entries ps w orc = (w', e, o) ->
    w_poisoned w' = w_poisoned w /\
    ((e = None /\ w_file w' = w_file w ++ frames ps /\
      w_bytes w' = w_bytes w + N.of_nat (length (frames ps))) \/
     (e <> None /\ exists j t, tornp t /\ w_file w' = w_file w ++ frames (firstn j ps) ++ t)).
  Proof.
    induction ps as [|p ps IH]; intros w orc w' e o Hv H; cbn [WalWriter.write_entries] in H.
    - inversion H; subst. split; [reflexivity|]. left. cbn. rewrite app_nil_r. repeat split. lia.
    - inversion Hv as [|? ? Hp Hps]; subst.
      destruct (write_entry p w orc) as [[w1 e1] o1] eqn:E.
      apply write_entry_spec in E. destruct E as [Mp [(-> & Hf & Hb)|(Hne & Hb & Hc & k & Hk & Hf)]].
      + apply IH in H; [|exact Hps]. destruct H as [Mp' [(-> & Hf' & Hb')|(Hne & j & t & Ht & Hf')]].
        * split; [congruence|]. left. split; [reflexivity|]. cbn [map concat].
          rewrite Hf', Hf, Hb', Hb, app_length, <- app_assoc. split; [reflexivity|lia].
        * split; [congruence|]. right. split; [exact Hne|]. exists (S j), t. split; [exact Ht|].
          cbn [firstn map concat]. rewrite Hf', Hf, <- !app_assoc. reflexivity.
      + destruct e1 as [x|]; [|congruence]. inversion H; subst; clear H.
        split; [exact Mp|]. right. split; [discriminate|]. exists 0%nat, (firstn k (frame p)).
        split; [right; exists p, k; auto|]. cbn. exact Hf.
  Qed.

  Lemma perform_fsync_spec w orc w' e o :
    perform_fsync w orc = (w', e, o) -> same_meta w w' /\ w_file w' = w_file w.
  Proof.
    unfold WalWriter.perform_fsync. destruct pol.
    - destruct (sys KFsync w orc) as [[w1 e1] o1] eqn:E. cbn. intro H; inversion H; subst.
      apply sys_spec in E. exact E.
    - destruct (sys KFdatasync w orc) as [[w1 e1] o1] eqn:E. cbn. intro H; inversion H; subst.
      apply sys_spec in E. exact E.
    - intro H; inversion H; subst. split; [apply same_meta_refl|reflexivity].
  Qed.

  (* the inner write of one attempt: either everything is in the file and counted, or an error with
     some complete frames of this call plus a torn tail left behind *)
  Lemma batch_internal_spec ps w orc w' e o :
    Forall valid_payload ps ->
    append_batch_internal ps w orc = (w', e, o) ->
    w_poisoned w' = w_poisoned w /\
    ((e = None /\ w_file w' = w_file w ++ frames ps /\
      w_bytes w' = w_bytes w + N.of_nat (length (frames ps))) \/
     (e <> None /\ exists j t, tornp t /\ w_file w' = w_file w ++ frames (firstn j ps) ++ t)).
  Proof.
    intros Hv H. unfold WalWriter.append_batch_internal in H.
    destruct (write_entries ps w orc) as [[w1 e1] o1] eqn:E.
    apply write_entries_spec in E; [|exact Hv].
    destruct e1 as [x|].
    - inversion H; subst. exact E.
    - destruct E as [Mp [(_ & Hf & Hb)|(Hne & _)]]; [|congruence].
      apply perform_fsync_spec in H. destruct H as [(Mb & Mc & Mp') Hf'].
      split; [congruence|]. destruct e as [x|].
      + right. split; [discriminate|]. exists (length ps), []. split; [left; reflexivity|].
        rewrite firstn_all, app_nil_r. congruence.
      + left. split; [reflexivity|]. split; congruence.
  Qed.

  Lemma rollback_spec off cnt w orc w' e o :
    rollback_to_stable_state off cnt w orc = (w', e, o) ->
    w_poisoned w' = w_poisoned w /\
    ((e = None /\ w_file w' = set_len off (w_file w) /\ w_bytes w' = off /\ w_count w' = cnt) \/
     (e <> None /\ (w_file w' = w_file w \/ w_file w' = set_len off (w_file w)))).
  Proof.
    unfold rollback_to_stable_state, rollback_to_offset. intro H.
    destruct (sys KFtruncate w orc) as [[w1 e1] o1] eqn:E1. apply sys_spec in E1.
    destruct E1 as [(Mb & Mc & Mp) Hf].
    destruct e1 as [x|].
    - inversion H; subst. split; [exact Mp|]. right. split; [discriminate|]. left. exact Hf.
    - destruct (sys KFdatasync (set_file (set_len off (w_file w1)) w1) o1) as [[w2 e2] o2] eqn:E2.
      apply sys_spec in E2. destruct E2 as [(Mb2 & Mc2 & Mp2) Hf2]. cbn [set_file w_file w_poisoned] in *.
      destruct e2 as [x|]; inversion H; subst; clear H.
      + split; [congruence|]. right. split; [discriminate|]. right. congruence.
      + split; [cbn; congruence|]. left. cbn [set_counters w_file w_bytes w_count]. rewrite Hf2, Hf. auto.
  Qed.

  (* state of the writer between attempts of one call, relative to the file f0 at the call's start *)
  Definition clean (f0 : bytes) (w : writer) : Prop :=
    w_poisoned w = false /\ w_file w = f0 /\ w_bytes w = N.of_nat (length f0).
  Definition dirty (f0 : bytes) (ps : list bytes) (w : writer) : Prop :=
    w_poisoned w = true /\ exists j t, tornp t /\ w_file w = f0 ++ frames (firstn j ps) ++ t.

  Lemma attempt_spec ps f0 cnt w orc w' e o :
    Forall valid_payload ps -> clean f0 w ->
    with_rollback (append_batch_internal ps) (N.of_nat (length f0)) cnt w orc = (w', e, o) ->
    (e = None /\ clean (f0 ++ frames ps) w') \/
    (e <> None /\ clean f0 w') \/
    (e <> None /\ dirty f0 ps w').
  Proof.
    intros Hv (Hp & Hf & Hb). subst f0. unfold with_rollback. rewrite Hp.
    destruct (append_batch_internal ps w orc) as [[w1 e1] o1] eqn:E.
    apply batch_internal_spec in E; [|exact Hv]. destruct E as [Mp E].
    destruct e1 as [werr|].
    - destruct E as [(C & _)|(_ & j & t & Ht & Hf1)]; [congruence|].
      destruct (rollback_to_stable_state (N.of_nat (length (w_file w))) cnt w1 o1) as [[w2 e2] o2] eqn:R.
      apply rollback_spec in R. destruct R as [Mp2 R].
      destruct e2 as [rerr|]; intro H; inversion H; subst; clear H.
      + right. right. split; [discriminate|]. split; [reflexivity|]. cbn [poison w_file].
        destruct R as [(C & _)|(_ & [Hk|Hk])]; [congruence| |].
        * exists j, t. split; [exact Ht|]. congruence.
        * exists 0%nat, []. split; [left; reflexivity|]. cbn. rewrite app_nil_r, Hk, Hf1.
          apply set_len_app.
      + right. left. split; [discriminate|]. destruct R as [(_ & Hk & Hb2 & _)|(C & _)]; [|congruence].
        split; [congruence|]. split; [|exact Hb2]. rewrite Hk, Hf1. apply set_len_app.
    - destruct E as [(_ & Hf1 & Hb1)|(C & _)]; [|congruence].
      intro H; inversion H; subst; clear H. left. split; [reflexivity|].
      split; [congruence|]. split; [congruence|]. rewrite Hb1, Hb, app_length. lia.
  Qed.

  Lemma attempt_poisoned inner off cnt w orc :
    w_poisoned w = true -> with_rollback inner off cnt w orc = (w, Some XPoisoned, orc).
  Proof. intro H. unfold with_rollback. now rewrite H. Qed.

  Lemma retry_loop_poisoned n inner off cnt w b orc :
    w_poisoned w = true ->
    retry_loop n (with_rollback inner off cnt) w b orc =
      (mkS w (record_failure b), Failed (FError XPoisoned), orc).
  Proof. intro H. destruct n; cbn [retry_loop]; rewrite (attempt_poisoned _ _ _ _ _ H); reflexivity. Qed.

  Lemma retry_loop_spec ps f0 cnt n : forall w b orc st' r o,
    Forall valid_payload ps -> clean f0 w ->
    retry_loop n (with_rollback (append_batch_internal ps) (N.of_nat (length f0)) cnt) w b orc = (st', r, o) ->
    (r = Acked /\ clean (f0 ++ frames ps) (s_w st')) \/
    (is_failed r = true /\ (clean f0 (s_w st') \/ dirty f0 ps (s_w st'))).
  Proof.
    induction n as [|n IH]; intros w b orc st' r o Hv Hc H; cbn [retry_loop] in H;
      destruct (with_rollback (append_batch_internal ps) (N.of_nat (length f0)) cnt w orc) as [[w1 e1] o1] eqn:A;
      pose proof (attempt_spec ps f0 cnt w orc w1 e1 o1 Hv Hc A) as S;
      (destruct e1 as [x|];
       [|inversion H; subst; left; split; [reflexivity|]; destruct S as [(_ & C)|[(C & _)|(C & _)]]; [exact C|congruence|congruence]]).
    - assert (Hs : clean f0 w1 \/ dirty f0 ps w1) by (destruct S as [(C & _)|[(_ & C)|(_ & C)]]; [congruence|auto|auto]).
      destruct (classify x); inversion H; subst; right; (split; [reflexivity|exact Hs]).
    - assert (Hs : clean f0 w1 \/ dirty f0 ps w1) by (destruct S as [(C & _)|[(_ & C)|(_ & C)]]; [congruence|auto|auto]).
      destruct (classify x); try (inversion H; subst; right; (split; [reflexivity|exact Hs])).
      (* Transient: the SAME closure again *)
      destruct Hs as [Hs|Hs].
      + eapply IH; eauto.
      + destruct Hs as (Hp & Hd). rewrite (retry_loop_poisoned _ _ _ _ _ _ _ Hp) in H.
        inversion H; subst. right. split; [reflexivity|]. right. split; [exact Hp|exact Hd].
  Qed.

  (* ---------- single append = batch of one ---------- *)
  Lemma append_internal_batch1 p w orc : append_internal p w orc = append_batch_internal [p] w orc.
  Proof.
    unfold WalWriter.append_internal, WalWriter.append_batch_internal. cbn [WalWriter.write_entries].
    destruct (write_entry p w orc) as [[w1 [x|]] o1]; reflexivity.
  Qed.

  Lemma with_rollback_ext f g off cnt w orc :
    (forall w orc, f w orc = g w orc) -> with_rollback f off cnt w orc = with_rollback g off cnt w orc.
  Proof. intro E. unfold with_rollback. now rewrite E. Qed.

  Lemma retry_loop_ext f g n : (forall w orc, f w orc = g w orc) ->
    forall w b orc, retry_loop n f w b orc = retry_loop n g w b orc.
  Proof.
    intro E. induction n as [|n IH]; intros w b orc; cbn [retry_loop]; rewrite E;
      destruct (g w orc) as [[w1 [x|]] o1]; try reflexivity.
    destruct (classify x); try reflexivity. apply IH.
  Qed.

  Lemma append_as_batch st p orc : append st p orc = append_batch st [p] orc.
  Proof.
    unfold WalWriter.append, WalWriter.append_batch, write_with_retry.
    destruct (b_open (s_b st)); [reflexivity|].
    apply retry_loop_ext. intros w o. apply with_rollback_ext. apply append_internal_batch1.
  Qed.

  Lemma wstep_as_batch st op orc : wstep st op orc = append_batch st (wpayloads op) orc.
  Proof. destruct op; cbn [WalWriter.wstep wpayloads]; [apply append_as_batch|reflexivity]. Qed.

  (* ---------- the writer invariant ---------- *)
  (* the file is a well-formed segment of entries `es` followed by a torn tail; the tail is empty and
     the byte counter exact unless the writer is poisoned *)
  Definition Inv (st : wstate) (es : list bytes) : Prop :=
    Forall wfp es /\
    exists t, tornp t /\ w_file (s_w st) = segment es ++ t /\
              (w_poisoned (s_w st) = false -> t = [] /\ w_bytes (s_w st) = N.of_nat (length (w_file (s_w st)))).

  Lemma Inv_init : Inv init [].
  Proof.
    split; [constructor|]. exists []. split; [left; reflexivity|]. split; [reflexivity|].
    intros _. split; reflexivity.
  Qed.

  Lemma Inv_read st es : Inv st es -> read_all_strict (w_file (s_w st)) = RdOk es.
  Proof. intros (Hw & t & Ht & Hf & _). rewrite Hf. apply read_segment_torn; assumption. Qed.

  Lemma wfp_valid ps : Forall wfp ps -> Forall valid_payload ps.
  Proof. intro H. eapply Forall_impl; [|exact H]. intros a [Hv _]. exact Hv. Qed.

  Lemma Forall_firstn {A} (P : A -> Prop) j l : Forall P l -> Forall P (firstn j l).
  Proof.
    revert l; induction j as [|j IH]; intros l H; [constructor|].
    destruct l; [constructor|]. inversion H; subst. cbn. constructor; auto.
  Qed.

  (* a call on a poisoned writer (or behind an open breaker) fails and touches nothing on disk *)
  Lemma batch_poisoned st ps orc st' r o :
    w_poisoned (s_w st) = true -> append_batch st ps orc = (st', r, o) ->
    is_failed r = true /\ s_w st' = s_w st /\ o = orc.
  Proof.
    intros Hp H. unfold WalWriter.append_batch, write_with_retry in H.
    destruct (b_open (s_b st)).
    - inversion H; subst. auto.
    - rewrite (retry_loop_poisoned _ _ _ _ _ _ _ Hp) in H. inversion H; subst. auto.
  Qed.

  (* THE step lemma *)
  Lemma batch_step st es ps orc st' r o :
    Inv st es -> Forall wfp ps -> append_batch st ps orc = (st', r, o) ->
    exists j, Inv st' (es ++ firstn j ps) /\
              (r = Acked -> firstn j ps = ps /\ w_poisoned (s_w st') = false) /\
              (is_failed r = true -> known_c03 st ps orc = false -> firstn j ps = []) /\
              (is_failed r = true -> w_poisoned (s_w st') = w_poisoned (s_w st) -> w_file (s_w st') = w_file (s_w st)).
  Proof.
    intros (Hw & t & Ht & Hf & Hclean) Hps H.
    destruct (w_poisoned (s_w st)) eqn:Hp.
    { (* already poisoned *)
      destruct (batch_poisoned st ps orc st' r o Hp H) as (Hr & Hs & _).
      exists 0%nat. cbn [firstn]. rewrite app_nil_r. split.
      - split; [exact Hw|]. exists t. rewrite Hs. split; [exact Ht|]. split; [exact Hf|]. intro C. congruence.
      - split; [intro C; subst; discriminate|]. split; [reflexivity|]. intros _ _. now rewrite Hs. }
    destruct (Hclean eq_refl) as [-> Hb]. rewrite app_nil_r in Hf.
    pose proof H as H0.
    unfold WalWriter.append_batch, write_with_retry in H.
    destruct (b_open (s_b st)).
    { inversion H; subst. exists 0%nat. cbn [firstn]. rewrite app_nil_r. split.
      - split; [exact Hw|]. exists []. split; [left; reflexivity|]. rewrite app_nil_r. split; [exact Hf|]. auto.
      - split; [discriminate|]. split; reflexivity. }
    rewrite Hb in H.
    apply (retry_loop_spec ps (w_file (s_w st))) in H; [|apply wfp_valid; exact Hps|repeat split; assumption].
    destruct H as [(-> & Hp' & Hf' & Hb')|(Hr & [(Hp' & Hf' & Hb')|(Hp' & j & t' & Ht' & Hf')])].
    - exists (length ps). rewrite firstn_all. split.
      + split; [apply Forall_app; auto|]. exists []. split; [left; reflexivity|].
        rewrite app_nil_r, Hf', Hf, segment_app. split; [reflexivity|]. intros _. split; [reflexivity|].
        rewrite Hb', <- Hf, <- Hf'. reflexivity.
      + split; [auto|]. split; discriminate.
    - exists 0%nat. cbn [firstn]. rewrite app_nil_r. split.
      + split; [exact Hw|]. exists []. split; [left; reflexivity|]. rewrite app_nil_r, Hf'. split; [exact Hf|].
        intros _. split; [reflexivity|]. rewrite Hb', <- Hf'. reflexivity.
      + split; [intro C; subst; discriminate|]. split; [reflexivity|]. intros _ _. exact Hf'.
    - exists j. split.
      + split; [apply Forall_app; split; [exact Hw|apply Forall_firstn; exact Hps]|].
        exists t'. split; [exact Ht'|]. split; [|intro C; congruence].
        rewrite Hf', Hf, segment_app, <- app_assoc. reflexivity.
      + split; [intro C; subst; discriminate|]. split; [|intros _ C; congruence].
        intros _ Hk. destruct ps as [|p ps]; [now rewrite firstn_nil|].
        destruct j as [|j]; [reflexivity|]. exfalso.
        unfold WalWriter.known_c03 in Hk. rewrite H0, Hr, Hp, Hp' in Hk. cbn [negb andb] in Hk.
        apply Nat.leb_gt in Hk. rewrite Hf' in Hk. cbn [firstn map concat] in Hk.
        rewrite !app_length in Hk. lia.
  Qed.

  (* ================================================================================== *)
  (* C03, writer level                                                                    *)
  (* ================================================================================== *)

  (* a call that reports failure leaves the strict reader's view of the file unchanged — for EVERY
     fault oracle outside the recorded double-fault class *)
  Theorem wal_failure_atomic st es op orc st' r o :
    Inv st es -> Forall wfp (wpayloads op) ->
    wstep st op orc = (st', r, o) -> is_failed r = true ->
    known_c03 st (wpayloads op) orc = false ->
    read_all_strict (w_file (s_w st')) = read_all_strict (w_file (s_w st)) /\
    read_all_strict (w_file (s_w st)) = RdOk es /\ Inv st' es.
  Proof.
    intros HI Hps H Hr Hk. rewrite wstep_as_batch in H.
    destruct (batch_step st es _ orc st' r o HI Hps H) as (j & HI' & _ & Hz & _).
    rewrite (Hz Hr Hk), app_nil_r in HI'.
    rewrite (Inv_read _ _ HI), (Inv_read _ _ HI'). auto.
  Qed.

  (* in EVERY case (also inside the recorded class) what the reader sees after a failed call is the
     old entries followed by a prefix of that same call's entries, and nothing is ever removed *)
  Theorem wal_failure_prefix st es op orc st' r o :
    Inv st es -> Forall wfp (wpayloads op) ->
    wstep st op orc = (st', r, o) ->
    exists j, read_all_strict (w_file (s_w st')) = RdOk (es ++ firstn j (wpayloads op)) /\
              Inv st' (es ++ firstn j (wpayloads op)) /\
              (r = Acked -> firstn j (wpayloads op) = wpayloads op).
  Proof.
    intros HI Hps H. rewrite wstep_as_batch in H.
    destruct (batch_step st es _ orc st' r o HI Hps H) as (j & HI' & Ha & _).
    exists j. split; [apply Inv_read; exact HI'|]. split; [exact HI'|]. intro E. apply Ha. exact E.
  Qed.

  (* after a failed rollback nothing is acknowledged (until the segment is reopened), and the file is
     not touched again *)
  Theorem no_ack_after_poison st op orc st' r o :
    w_poisoned (s_w st) = true -> wstep st op orc = (st', r, o) ->
    is_failed r = true /\ s_w st' = s_w st /\ o = orc.
  Proof. intros Hp H. rewrite wstep_as_batch in H. eapply batch_poisoned; eauto. Qed.

  Theorem no_ack_after_poison_run ops : forall st orc st' rs o,
    w_poisoned (s_w st) = true -> wrun st ops orc = (st', rs, o) ->
    Forall (fun r => is_failed r = true) rs /\ s_w st' = s_w st.
  Proof.
    induction ops as [|op ops IH]; intros st orc st' rs o Hp H; cbn [WalWriter.wrun] in H.
    - inversion H; subst. split; [constructor|reflexivity].
    - destruct (wstep st op orc) as [[st1 r1] o1] eqn:E1.
      destruct (wrun st1 ops o1) as [[st2 rs2] o2] eqn:E2. inversion H; subst; clear H.
      destruct (no_ack_after_poison _ _ _ _ _ _ Hp E1) as (Hr & Hs & _).
      destruct (IH st1 o1 st' rs2 o ltac:(congruence) E2) as (Hrs & Hs').
      split; [constructor; assumption|congruence].
  Qed.

  (* ---------- histories ---------- *)
  Fixpoint acked_payloads (ops : list wop) (rs : list result) : list bytes :=
    match ops, rs with
    | op :: ops', Acked :: rs' => wpayloads op ++ acked_payloads ops' rs'
    | _ :: ops', _ :: rs' => acked_payloads ops' rs'
    | _, _ => []
    end.

  (* did some call of the history fall into the recorded class? *)
  Fixpoint any_known (st : wstate) (ops : list wop) (orc : oracle) : bool :=
    match ops with
    | [] => false
    | op :: r =>
        known_c03 st (wpayloads op) orc ||
        (let '(st1, _, orc1) := wstep st op orc in any_known st1 r orc1)
    end.

  Definition sublist_in (a b : list bytes) : Prop := forall p, In p a -> In p b.

  Lemma wrun_spec ops : forall st es orc st' rs o,
    Inv st es -> Forall (fun op => Forall wfp (wpayloads op)) ops ->
    wrun st ops orc = (st', rs, o) ->
    exists es', Inv st' es' /\
                (forall p, In p es \/ In p (acked_payloads ops rs) -> In p es') /\
                (any_known st ops orc = false -> es' = es ++ acked_payloads ops rs).
  Proof.
    induction ops as [|op ops IH]; intros st es orc st' rs o HI Hps H; cbn [WalWriter.wrun] in H.
    - inversion H; subst. exists es. split; [exact HI|]. split.
      + intros p [Hp|[]]. exact Hp.
      + intros _. cbn. now rewrite app_nil_r.
    - inversion Hps as [|? ? Hop Hops]; subst.
      destruct (wstep st op orc) as [[st1 r1] o1] eqn:E1.
      destruct (wrun st1 ops o1) as [[st2 rs2] o2] eqn:E2. inversion H; subst; clear H.
      pose proof E1 as E1'. rewrite wstep_as_batch in E1'.
      destruct (batch_step st es _ orc st1 r1 o1 HI Hop E1') as (j & HI1 & Ha & Hz & _).
      destruct (IH st1 _ o1 st' rs2 o HI1 Hops E2) as (es' & HI' & Hin & Hex).
      exists es'. split; [exact HI'|]. split.
      + intros p Hp. apply Hin. destruct r1 as [|f].
        * destruct (Ha eq_refl) as [Hj _]. rewrite Hj. cbn [acked_payloads] in Hp.
          rewrite !in_app_iff in *. tauto.
        * cbn [acked_payloads] in Hp. rewrite in_app_iff. tauto.
      + cbn [any_known]. rewrite E1. intro Hk. apply orb_false_iff in Hk. destruct Hk as [Hk1 Hk2].
        rewrite (Hex Hk2). destruct r1 as [|f].
        * destruct (Ha eq_refl) as [Hj _]. rewrite Hj. cbn [acked_payloads]. now rewrite app_assoc.
        * rewrite (Hz eq_refl Hk1), app_nil_r. reflexivity.
  Qed.

  (* every acknowledged payload is in what the strict reader returns in EVERY later state, whatever
     faults and failed calls follow (later failures never remove or corrupt it) *)
  Theorem ack_durable ops orc st' rs o :
    Forall (fun op => Forall wfp (wpayloads op)) ops ->
    wrun init ops orc = (st', rs, o) ->
    exists es', read_all_strict (w_file (s_w st')) = RdOk es' /\
                (forall p, In p (acked_payloads ops rs) -> In p es') /\
                (any_known init ops orc = false -> es' = acked_payloads ops rs).
  Proof.
    intros Hps H. destruct (wrun_spec ops init [] orc st' rs o Inv_init Hps H) as (es' & HI & Hin & Hex).
    exists es'. split; [apply Inv_read; exact HI|]. split; [intros p Hp; apply Hin; auto|exact Hex].
  Qed.

  (* ================================================================================== *)
  (* C03, engine level                                                                    *)
  (* ================================================================================== *)
  Notation recover := (recover crc deser_ok).
  Notation estep := (estep crc pol).
  Notation e_known := (e_known crc pol).
  Notation erun := (erun crc pol).

  Definition EInv (st : estate) : Prop := exists es, Inv (e_s st) es /\ e_mem st = replay es.

  Lemma EInv_init : EInv einit.
  Proof. exists []. split; [apply Inv_init|reflexivity]. Qed.

  Lemma EInv_recover st : EInv st -> recover (w_file (s_w (e_s st))) = Some (e_mem st).
  Proof. intros (es & HI & Hm). unfold WalWriter.recover. rewrite (Inv_read _ _ HI), Hm. reflexivity. Qed.

  Lemma replay_app es qs : replay (es ++ qs) = fold_left apply_payload qs (replay es).
  Proof. unfold replay. apply fold_left_app. Qed.

  (* every input class the pre-flight rejects: NOTHING changes (file, counters, map, oracle) *)
  Theorem invalid_input_no_effect st id c body orc :
    preflight_rejects c = true -> estep st (OInsert id c body) orc = (st, EFail, orc).
  Proof.
    intro H. unfold WalWriter.estep, estep_gen, insert_gen. rewrite H. destruct (e_degraded st); reflexivity.
  Qed.

  Lemma preflight_valid c : preflight_rejects c = false -> index_accepts c = true.
  Proof. unfold preflight_rejects. destruct (index_accepts c); [reflexivity|discriminate]. Qed.

  (* shape of every engine step: it issues at most ONE writer call, with payloads op_payloads *)
  Lemma estep_shape st op orc st' r o :
    estep st op orc = (st', r, o) ->
    (r <> EOk /\ st' = st /\ o = orc) \/
    (e_degraded st = false /\ op_payloads st op <> [] /\
     exists s1 wr, append_batch (e_s st) (op_payloads st op) orc = (s1, wr, o) /\
       ((wr = Acked /\ r = EOk /\ st' = mkE s1 (fold_left apply_payload (op_payloads st op) (e_mem st)) false) \/
        (is_failed wr = true /\ r = EFail /\ st' = mkE s1 (e_mem st) false))).
  Proof.
    unfold WalWriter.estep, estep_gen. intro H. destruct op as [id c body|id|ids|id body]; cbn [op_payloads].
    - unfold insert_gen in H. destruct (e_degraded st) eqn:D.
      { inversion H; subst. left. split; [discriminate|auto]. }
      destruct (preflight_rejects c) eqn:P.
      { inversion H; subst. left. split; [discriminate|auto]. }
      rewrite (preflight_valid c P) in H. rewrite append_as_batch in H.
      destruct (append_batch (e_s st) [enc 0 id body] orc) as [[s1 wr] o1] eqn:A.
      right. split; [reflexivity|]. split; [discriminate|]. exists s1, wr.
      destruct wr; inversion H; subst; (split; [reflexivity|]); [left|right]; auto.
    - destruct (e_degraded st) eqn:D.
      { inversion H; subst. left. split; [discriminate|auto]. }
      destruct (is_some (m_get id (e_mem st))).
      2:{ inversion H; subst. left. split; [discriminate|auto]. }
      unfold logged in H. rewrite append_as_batch in H.
      destruct (append_batch (e_s st) [enc 1 id []] orc) as [[s1 wr] o1] eqn:A.
      right. split; [reflexivity|]. split; [discriminate|]. exists s1, wr.
      destruct wr; inversion H; subst; (split; [reflexivity|]); [left|right]; auto.
    - destruct (e_degraded st) eqn:D.
      { inversion H; subst. left. split; [discriminate|auto]. }
      destruct (filter (fun id => is_some (m_get id (e_mem st))) ids) as [|i live] eqn:L.
      { inversion H; subst. left. split; [discriminate|auto]. }
      destruct (append_batch (e_s st) (map (fun id => enc 1 id []) (i :: live)) orc) as [[s1 wr] o1] eqn:A.
      right. split; [reflexivity|]. split; [discriminate|]. exists s1, wr.
      destruct wr; inversion H; subst; (split; [reflexivity|]); [left|right]; auto.
    - destruct (e_degraded st) eqn:D.
      { inversion H; subst. left. split; [discriminate|auto]. }
      destruct (is_some (m_get id (e_mem st))).
      2:{ inversion H; subst. left. split; [discriminate|auto]. }
      unfold logged in H. rewrite append_as_batch in H.
      destruct (append_batch (e_s st) [enc 2 id body] orc) as [[s1 wr] o1] eqn:A.
      right. split; [reflexivity|]. split; [discriminate|]. exists s1, wr.
      destruct wr; inversion H; subst; (split; [reflexivity|]); [left|right]; auto.
  Qed.

  (* an engine operation that does not return Ok changes neither the live map nor what a restart
     recovers; one that returns Ok keeps "restart recovers exactly the live map" *)
  Theorem engine_failure_atomic st op orc st' r o :
    EInv st -> Forall wfp (op_payloads st op) ->
    estep st op orc = (st', r, o) -> e_known st op orc = false ->
    EInv st' /\
    (r <> EOk -> e_mem st' = e_mem st /\
                 recover (w_file (s_w (e_s st'))) = recover (w_file (s_w (e_s st)))).
  Proof.
    intros HE Hps H Hk. pose proof HE as (es & HI & Hm).
    destruct (estep_shape _ _ _ _ _ _ H) as [(Hr & -> & _)|(D & Hne & s1 & wr & A & [(-> & -> & ->)|(Hf & -> & ->)])].
    - split; [exact HE|]. auto.
    - destruct (batch_step _ _ _ _ _ _ _ HI Hps A) as (j & HI1 & Ha & _).
      destruct (Ha eq_refl) as [Hj _]. rewrite Hj in HI1. split.
      + exists (es ++ op_payloads st op). split; [exact HI1|]. cbn [e_mem]. now rewrite replay_app, Hm.
      + intro C. congruence.
    - unfold WalWriter.e_known in Hk. rewrite D in Hk. cbn [negb andb] in Hk.
      destruct (batch_step _ _ _ _ _ _ _ HI Hps A) as (j & HI1 & _ & Hz & _).
      rewrite (Hz Hf Hk), app_nil_r in HI1.
      assert (HE' : EInv (mkE s1 (e_mem st) false)) by (exists es; split; [exact HI1|exact Hm]).
      split; [exact HE'|]. intros _. split; [reflexivity|].
      rewrite (EInv_recover _ HE'), (EInv_recover _ HE). reflexivity.
  Qed.

  (* ---------- no other document is affected, even inside the recorded class ---------- *)
  Lemma m_get_remove id i m : m_get id (m_remove i m) = if i =? id then None else m_get id m.
  Proof.
    induction m as [|[k v] m IH]; cbn [m_remove filter m_get fst].
    - now destruct (i =? id).
    - destruct (N.eqb_spec k i) as [E|E]; cbn [negb].
      + subst. fold (m_remove i m). rewrite IH. destruct (N.eqb_spec i id); reflexivity.
      + cbn [m_get]. fold (m_remove i m). rewrite IH.
        destruct (N.eqb_spec k id) as [E2|E2]; [|reflexivity].
        subst. destruct (N.eqb_spec i id); [congruence|reflexivity].
  Qed.

  Lemma m_get_set id i v m : m_get id (m_set i v m) = if i =? id then Some v else m_get id m.
  Proof.
    unfold m_set. cbn [m_get]. destruct (N.eqb_spec i id) as [E|E]; [reflexivity|].
    rewrite m_get_remove. destruct (N.eqb_spec i id); [congruence|reflexivity].
  Qed.

  Lemma apply_payload_other m p t i id :
    dec p = Some (t, i) -> i <> id -> m_get id (apply_payload m p) = m_get id m.
  Proof.
    intros Hd Hne. unfold apply_payload. rewrite Hd.
    destruct t as [|[t|t|]]; try reflexivity.
    - rewrite m_get_set. destruct (N.eqb_spec i id); [congruence|reflexivity].
    - destruct t; try reflexivity.
      destruct (m_get i m) as [[b u]|]; [|reflexivity].
      rewrite m_get_set. destruct (N.eqb_spec i id); [congruence|reflexivity].
    - rewrite m_get_remove. destruct (N.eqb_spec i id); [congruence|reflexivity].
  Qed.

  Lemma dec_enc t i body : t < 4294967296 -> i < 18446744073709551616 -> dec (enc t i body) = Some (t, i).
  Proof.
    intros Ht Hi. unfold dec, enc.
    replace 4 with (N.of_nat (length (to_le 4 t))) at 1 by (rewrite to_le_length; reflexivity).
    rewrite take_app.
    replace 8 with (N.of_nat (length (to_le 8 i))) at 1 by (rewrite to_le_length; reflexivity).
    rewrite take_app, (le_n_to_le 4 t), (le_n_to_le 8 i); [reflexivity| |].
    - change (256 ^ N.of_nat 8) with 18446744073709551616. exact Hi.
    - change (256 ^ N.of_nat 4) with 4294967296. exact Ht.
  Qed.

  Definition id_ok (i : N) : Prop := i < 18446744073709551616.

  Lemma op_payloads_ids st op p :
    Forall id_ok (op_ids op) -> In p (op_payloads st op) ->
    exists t i, dec p = Some (t, i) /\ In i (op_ids op).
  Proof.
    intros Hok Hin. destruct op as [id c body|id|ids|id body]; cbn [op_payloads op_ids] in *.
    - destruct (preflight_rejects c); [destruct Hin|]. destruct Hin as [<-|[]].
      inversion Hok; subst. exists 0, id. split; [apply dec_enc; [reflexivity|assumption]|now left].
    - destruct (is_some (m_get id (e_mem st))); [|destruct Hin]. destruct Hin as [<-|[]].
      inversion Hok; subst. exists 1, id. split; [apply dec_enc; [reflexivity|assumption]|now left].
    - apply in_map_iff in Hin. destruct Hin as (i & <- & Hi). apply filter_In in Hi. destruct Hi as [Hi _].
      rewrite Forall_forall in Hok. exists 1, i. split; [apply dec_enc; [reflexivity|apply Hok; exact Hi]|exact Hi].
    - destruct (is_some (m_get id (e_mem st))); [|destruct Hin]. destruct Hin as [<-|[]].
      inversion Hok; subst. exists 2, id. split; [apply dec_enc; [reflexivity|assumption]|now left].
  Qed.

  Lemma fold_apply_other ps : forall m id,
    (forall p, In p ps -> exists t i, dec p = Some (t, i) /\ i <> id) ->
    m_get id (fold_left apply_payload ps m) = m_get id m.
  Proof.
    induction ps as [|p ps IH]; intros m id H; [reflexivity|]. cbn [fold_left].
    rewrite IH by (intros q Hq; apply H; now right).
    destruct (H p (or_introl eq_refl)) as (t & i & Hd & Hne). eapply apply_payload_other; eauto.
  Qed.

  (* whatever happens to an operation on the ids it names (success, failure, even the recorded
     double fault), every OTHER id keeps its live value and its recovered value *)
  Theorem others_untouched st op orc st' r o id :
    EInv st -> Forall wfp (op_payloads st op) -> Forall id_ok (op_ids op) ->
    estep st op orc = (st', r, o) -> ~ In id (op_ids op) ->
    m_get id (e_mem st') = m_get id (e_mem st) /\
    exists m m', recover (w_file (s_w (e_s st))) = Some m /\ recover (w_file (s_w (e_s st'))) = Some m' /\
                 m_get id m' = m_get id m.
  Proof.
    intros HE Hps Hok H Hid. pose proof HE as (es & HI & Hm).
    assert (Hoth : forall j p, In p (firstn j (op_payloads st op)) -> exists t i, dec p = Some (t, i) /\ i <> id).
    { intros j p Hp. apply in_firstn in Hp. destruct (op_payloads_ids st op p Hok Hp) as (t & i & Hd & Hi).
      exists t, i. split; [exact Hd|]. intro C. subst. contradiction. }
    destruct (estep_shape _ _ _ _ _ _ H) as [(Hr & -> & _)|(D & Hne & s1 & wr & A & Hcase)].
    - split; [reflexivity|]. exists (e_mem st), (e_mem st). rewrite (EInv_recover _ HE). auto.
    - destruct (batch_step _ _ _ _ _ _ _ HI Hps A) as (j & HI1 & Ha & _).
      assert (Hrec : recover (w_file (s_w s1)) = Some (fold_left apply_payload (firstn j (op_payloads st op)) (e_mem st))).
      { unfold WalWriter.recover. rewrite (Inv_read _ _ HI1), replay_app, Hm. reflexivity. }
      destruct Hcase as [(-> & -> & ->)|(Hf & -> & ->)]; cbn [e_mem e_s].
      + split.
        * rewrite <- (firstn_all (op_payloads st op)). apply fold_apply_other. apply Hoth.
        * eexists _, _. rewrite (EInv_recover _ HE), Hrec. split; [reflexivity|]. split; [reflexivity|].
          apply fold_apply_other. apply Hoth.
      + split; [reflexivity|].
        eexists _, _. rewrite (EInv_recover _ HE), Hrec. split; [reflexivity|]. split; [reflexivity|].
        apply fold_apply_other. apply Hoth.
  Qed.

  (* histories at the engine level: as long as no call falls into the recorded class, a restart
     recovers exactly the live map, and every non-Ok operation left the live map as it was *)
  Fixpoint e_any_known (st : estate) (ops : list eop) (orc : oracle) : bool :=
    match ops with
    | [] => false
    | op :: r =>
        e_known st op orc || (let '(st1, _, orc1) := estep st op orc in e_any_known st1 r orc1)
    end.

  Fixpoint e_all_wf (st : estate) (ops : list eop) (orc : oracle) : Prop :=
    match ops with
    | [] => True
    | op :: r =>
        Forall wfp (op_payloads st op) /\
        (let '(st1, _, orc1) := estep st op orc in e_all_wf st1 r orc1)
    end.

  Theorem engine_history ops : forall st orc st' rs o,
    EInv st -> e_all_wf st ops orc -> e_any_known st ops orc = false ->
    erun st ops orc = (st', rs, o) ->
    EInv st' /\ recover (w_file (s_w (e_s st'))) = Some (e_mem st').
  Proof.
    induction ops as [|op ops IH]; intros st orc st' rs o HE Hwf Hk H; cbn [WalWriter.erun] in H.
    - inversion H; subst. split; [exact HE|apply EInv_recover; exact HE].
    - cbn [e_all_wf e_any_known] in Hwf, Hk. destruct Hwf as [Hw1 Hw2].
      apply orb_false_iff in Hk. destruct Hk as [Hk1 Hk2].
      destruct (estep st op orc) as [[st1 r1] o1] eqn:E1.
      destruct (erun st1 ops o1) as [[st2 rs2] o2] eqn:E2. inversion H; subst; clear H.
      destruct (engine_failure_atomic _ _ _ _ _ _ HE Hw1 E1 Hk1) as [HE1 _].
      eapply IH; eauto.
  Qed.
End WriterProofs.
