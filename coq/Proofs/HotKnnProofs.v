(* HotKnnProofs.v — invariant of Model/HotKnn.v for every interleaving. *)
From Coq Require Import List NArith Bool Lia.
From Kyro Require Import Model.HotKnn.
Import ListNotations.
Open Scope N_scope.

Record Inv (s : st) : Prop := {
  i_inv_le : invalidated s <= canon s;
  i_cap : forall g, s_gen s = Some g -> g <= gen s;
  i_kept : forall g d, s_gen s = Some g -> s_kept s = Some d -> g = gen s -> invalidated s <= d;
  i_kept_le : forall d, s_kept s = Some d -> d <= canon s;
  i_stored : forall d, stored s = Some d -> invalidated s <= d /\ d <= canon s
}.

Lemma Inv_init c m : Inv (init c m).
Proof. constructor; cbn; intros; try discriminate; lia. Qed.

Lemma validate_new_spec s d : validate_new s = Some d -> d = canon s.
Proof.
  unfold validate_new. destruct (s_dist s) as [x|]; [|discriminate]. destruct (mirror s) as [m|]; [|discriminate].
  destruct (N.eqb_spec m x) as [E1|E1]; cbn [andb]; [|discriminate].
  destruct (N.eqb_spec m (canon s)) as [E2|E2]; [|discriminate].
  intros H. inversion H; subst. reflexivity.
Qed.

Lemma step_inv s e : Inv s -> Inv (step validate_new s e).
Proof.
  intros [I1 I0 I2 I3 I4].
  destruct e; constructor; cbn [step canon mirror gen invalidated s_gen s_dist s_kept stored].
  (* ECapture *)
  - exact I1.
  - intros g H. inversion H; subst. lia.
  - intros g d _ H. discriminate.
  - intros d H. discriminate.
  - exact I4.
  (* ESearch *)
  - exact I1.
  - exact I0.
  - intros g d _ H. discriminate.
  - intros d H. discriminate.
  - exact I4.
  (* EValidate *)
  - exact I1.
  - exact I0.
  - intros g d _ H _. apply validate_new_spec in H. subst. exact I1.
  - intros d H. apply validate_new_spec in H. subst. lia.
  - exact I4.
  (* EStore *)
  - exact I1.
  - intros g H. discriminate.
  - intros g d H. discriminate.
  - intros d H. discriminate.
  - intros d H.
    destruct (s_gen s) as [g|] eqn:Eg; [|apply I4; exact H].
    destruct (s_kept s) as [k|] eqn:Ek; [|apply I4; exact H].
    destruct (N.eqb_spec g (gen s)) as [E|E]; [|apply I4; exact H].
    inversion H; subst. split; [apply (I2 (gen s) d); auto|apply I3; reflexivity].
  (* ECold *)
  - lia.
  - exact I0.
  - exact I2.
  - intros d H. specialize (I3 d H). lia.
  - intros d H. destruct (I4 d H). lia.
  (* EInvalidate *)
  - lia.
  - intros g H. specialize (I0 g H). lia.
  - intros g d H _ E. specialize (I0 g H). lia.
  - exact I3.
  - intros d H. destruct (stored s) as [x|] eqn:Es; [|discriminate].
    destruct (N.eqb_spec x (canon s)) as [E|E]; [|discriminate]. inversion H; subst. lia.
  (* EMirror *)
  - exact I1.
  - exact I0.
  - exact I2.
  - exact I3.
  - exact I4.
  (* EDrop *)
  - exact I1.
  - exact I0.
  - exact I2.
  - exact I3.
  - exact I4.
Qed.

Lemma run_inv es : forall s, Inv s -> Inv (run validate_new s es).
Proof.
  unfold run. induction es as [|e r IH]; intros s I; cbn [fold_left]; [exact I|].
  apply IH. apply step_inv. exact I.
Qed.

(* For every interleaving of one searcher with any number of overwriting writers and evictions: the
   hot candidate's distance inside the stored query-cache entry is never older than the newest version
   whose invalidation has run — in particular never older than an acknowledged overwrite. *)
Theorem stored_hot_distance_fresh c m es : fresh (run validate_new (init c m) es) = true.
Proof.
  pose proof (run_inv es _ (Inv_init c m)) as I. unfold fresh.
  destruct (stored (run validate_new (init c m) es)) as [d|] eqn:E; [|reflexivity].
  apply N.leb_le. exact (proj1 (i_stored _ I d E)).
Qed.

(* the check before fix d5bee05: the mirror is refreshed between the distance computation and the peek *)
Definition old_race : list ev := [ECold; EInvalidate; ECapture; ESearch; EMirror 2; EValidate; EStore].

Lemma old_validation_stores_a_stale_distance :
  let s := run validate_old (init 1 (Some 1)) old_race in
  stored s = Some 1 /\ invalidated s = 2 /\ canon s = 2 /\ fresh s = false.
Proof. vm_compute. repeat split. Qed.

Lemma new_validation_drops_it :
  let s := run validate_new (init 1 (Some 1)) old_race in stored s = None /\ fresh s = true.
Proof. vm_compute. repeat split. Qed.

(* non-vacuity: a fresh candidate IS kept and stored *)
Lemma a_current_candidate_is_stored :
  stored (run validate_new (init 1 (Some 1)) [ECold; EInvalidate; EMirror 2; ECapture; ESearch; EValidate; EStore]) = Some 2.
Proof. vm_compute. reflexivity. Qed.
