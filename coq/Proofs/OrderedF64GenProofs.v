(* OrderedF64::from_f64 REGENERATED from /repo/engine/src/hnsw_backend.rs (gen/OrderedF64_gen.v, rewritten by
   harness/p/translator on every run, bit operations as Z.shiftr / Z.lor / Z.lnot with explicit mod 2^64)
   equals the arithmetic transcription Filter.okey that Model/Filter.v and the C11 theorems use
   (`bits | 1<<63` as +2^63 on a clear top bit, `!bits` as 2^64-1-bits), for every 64-bit pattern.
   A semantic edit of the Rust code (`!bits` dropped, another shift, no zero canonicalisation) breaks it. *)
From Coq Require Import ZArith Bool Lia.
From Kyro Require Import Model.Filter gen.OrderedF64_gen.
Open Scope Z_scope.

Lemma lor_top_bit : forall w, 0 <= w < two63 -> Z.lor w two63 = w + two63.
Proof.
  intros w Hw.
  assert (L : Z.land w two63 = 0).
  { apply Z.bits_inj'. intros n Hn. rewrite Z.land_spec, Z.bits_0.
    change two63 with (2 ^ 63). rewrite Z.pow2_bits_eqb by lia.
    destruct (Z.eqb_spec 63 n) as [<-|Hne]; [|apply andb_false_r].
    rewrite andb_true_r. apply Z.testbit_false; [lia|].
    rewrite Z.div_small; [reflexivity|]. change (2 ^ 63) with two63. exact Hw. }
  rewrite <- Z.lxor_lor by exact L. symmetry. apply Z.add_nocarry_lxor. exact L.
Qed.

Lemma lnot_mod : forall w, 0 <= w < two64 -> Z.lnot w mod two64 = two64 - 1 - w.
Proof.
  intros w Hw. symmetry. apply Zmod_unique with (q := -1).
  - lia.
  - unfold Z.lnot. lia.
Qed.

Lemma shiftr63_zero : forall w, 0 <= w < two64 -> (Z.shiftr w 63 =? 0) = (w <? two63).
Proof.
  intros w Hw. rewrite Z.shiftr_div_pow2 by lia. change (2 ^ 63) with two63.
  destruct (Z.ltb_spec w two63) as [H|H].
  - rewrite Z.div_small by lia. reflexivity.
  - apply Z.eqb_neq. intro E.
    assert (two63 * (w / two63) <= w) by (apply Z.mul_div_le; unfold two63; lia).
    assert (w < two63 * Z.succ (w / two63)) by (apply Z.mul_succ_div_gt; unfold two63; lia).
    rewrite E in *. lia.
Qed.

Lemma gen_from_f64_eq_okey : forall v, 0 <= v < two64 -> OrderedF64_gen.from_f64 v = Filter.okey v.
Proof.
  intros v Hv. unfold OrderedF64_gen.from_f64, Filter.okey.
  change 18446744073709551616 with two64.
  change (Z.shiftl 1 63 mod two64) with two63.
  set (w := if f64_eq v 0 then 0 else v).
  assert (Hw : 0 <= w < two64) by (unfold w; destruct (f64_eq v 0); [unfold two64; lia | exact Hv]).
  cbv zeta. rewrite shiftr63_zero by exact Hw.
  destruct (Z.ltb_spec w two63) as [H|H].
  - apply lor_top_bit. lia.
  - apply lnot_mod. exact Hw.
Qed.

(* the generated key stays a 64-bit pattern *)
Lemma gen_from_f64_range : forall v, 0 <= v < two64 -> 0 <= OrderedF64_gen.from_f64 v < two64.
Proof.
  intros v Hv. rewrite gen_from_f64_eq_okey by exact Hv. unfold okey.
  set (w := if f64_eq v 0 then 0 else v).
  assert (Hw : 0 <= w < two64) by (unfold w; destruct (f64_eq v 0); [unfold two64; lia | exact Hv]).
  destruct (Z.ltb_spec w two63); unfold two63, two64 in *; lia.
Qed.
