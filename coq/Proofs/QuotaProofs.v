(* Proofs/QuotaProofs.v — proofs about Model/Quota.v.
   Part A: finite-set lemmas.  Part B: the sequential invariant  count = |live|  (every history).
   Part C: the interleaving model: insert || insert keeps the count exact in every schedule (invariant
   over all reachable configurations); witnesses for the pairs that involve Delete / BatchDelete. *)
From Coq Require Import List NArith Bool Lia Permutation.
From Kyro Require Model.Server.
From Kyro Require Import Model.Quota.
Import ListNotations.
Open Scope N_scope.

(* ================================================================== Part A: lists as sets *)
Lemma mem_In : forall x l, mem x l = true <-> In x l.
Proof.
  intros x l. unfold mem. rewrite existsb_exists. split.
  - intros [y [Hy He]]. apply N.eqb_eq in He. subst. exact Hy.
  - intros H. exists x. split; [exact H|apply N.eqb_refl].
Qed.
Lemma mem_nIn : forall x l, mem x l = false <-> ~ In x l.
Proof.
  intros x l. rewrite <- mem_In. destruct (mem x l); split; intro H.
  - discriminate.
  - exfalso. apply H. reflexivity.
  - intro H'. discriminate.
  - reflexivity.
Qed.
Lemma len_nil : forall A, @len A [] = 0. Proof. reflexivity. Qed.
Lemma len_app : forall A (a b : list A), len (a ++ b) = len a + len b.
Proof. intros. unfold len. rewrite app_length. lia. Qed.
Lemma len_cons : forall A (x : A) l, len (x :: l) = len l + 1.
Proof. intros. unfold len. cbn [length]. lia. Qed.

Lemma In_add : forall l x y, In y (add l x) <-> In y l \/ y = x.
Proof.
  intros l x y. unfold add. destruct (mem x l) eqn:E.
  - apply mem_In in E. split; [auto|]. intros [H|H]; [exact H|subst; exact E].
  - rewrite in_app_iff. cbn [In]. split.
    + intros [H|[H|[]]]; [left; exact H|right; symmetry; exact H].
    + intros [H|H]; [left; exact H|right; left; symmetry; exact H].
Qed.
Lemma NoDup_add : forall l x, NoDup l -> NoDup (add l x).
Proof.
  intros l x H. unfold add. destruct (mem x l) eqn:E; [exact H|].
  apply mem_nIn in E. eapply Permutation_NoDup; [apply Permutation_cons_append|constructor; assumption].
Qed.
Lemma len_add : forall l x, len (add l x) = if mem x l then len l else len l + 1.
Proof. intros l x. unfold add. destruct (mem x l); [reflexivity|]. rewrite len_app. reflexivity. Qed.
Lemma mem_add_same : forall l x, mem x (add l x) = true.
Proof. intros. apply mem_In. apply In_add. right. reflexivity. Qed.

Lemma In_remove : forall l x y, In y (remove l x) <-> In y l /\ y <> x.
Proof.
  intros l x y. unfold remove. rewrite filter_In. split; intros [H1 H2]; split; auto.
  - intro E. subst. rewrite N.eqb_refl in H2. discriminate.
  - apply negb_true_iff. apply N.eqb_neq. intro E. apply H2. symmetry. exact E.
Qed.
Lemma filter_len_split : forall (f : N -> bool) l,
  (length (List.filter f l) + length (List.filter (fun y => negb (f y)) l) = length l)%nat.
Proof.
  intros f l. induction l as [|a l IH]; [reflexivity|]. cbn [List.filter].
  destruct (f a); cbn [negb length]; lia.
Qed.
Lemma nodup_same_length : forall (a b : list N), NoDup a -> NoDup b -> (forall x, In x a <-> In x b) -> length a = length b.
Proof. intros a b Ha Hb H. apply Permutation_length. apply NoDup_Permutation; assumption. Qed.
Lemma len_remove : forall l x, NoDup l -> mem x l = true -> len (remove l x) + 1 = len l.
Proof.
  intros l x Hn Hm. unfold len, remove.
  pose proof (filter_len_split (fun y => negb (N.eqb x y)) l) as Hs. cbv beta in Hs.
  assert (Hone : length (List.filter (fun y => negb (negb (N.eqb x y))) l) = 1%nat).
  { transitivity (length [x]); [|reflexivity]. apply nodup_same_length.
    - apply NoDup_filter. exact Hn.
    - constructor; [intros []|constructor].
    - intros y. rewrite filter_In. cbn. rewrite negb_involutive. split.
      + intros [_ E]. apply N.eqb_eq in E. left. exact E.
      + intros [E|[]]. subst. split; [apply mem_In; exact Hm|apply N.eqb_refl]. }
  rewrite Hone in Hs. lia.
Qed.
Lemma In_dedup : forall l x, In x (dedup l) <-> In x l.
Proof.
  induction l as [|a l IH]; intros x; [reflexivity|]. cbn [dedup]. destruct (mem a l) eqn:E.
  - rewrite IH. split; [intros H; right; exact H|]. intros [H|H]; [subst; apply mem_In; exact E|exact H].
  - cbn [In]. rewrite IH. reflexivity.
Qed.
Lemma NoDup_dedup : forall l, NoDup (dedup l).
Proof.
  induction l as [|a l IH]; [constructor|]. cbn [dedup]. destruct (mem a l) eqn:E; [exact IH|].
  constructor; [|exact IH]. rewrite In_dedup. apply mem_nIn. exact E.
Qed.
Lemma In_keep_in : forall l xs x, In x (keep_in l xs) <-> In x xs /\ In x l.
Proof. intros. unfold keep_in. rewrite filter_In, mem_In. reflexivity. Qed.
Lemma In_remove_all : forall l xs x, In x (remove_all l xs) <-> In x l /\ ~ In x xs.
Proof. intros. unfold remove_all. rewrite filter_In, negb_true_iff, mem_nIn. reflexivity. Qed.
Lemma len_remove_all : forall l u, NoDup l -> NoDup u -> len (remove_all l u) + len (keep_in l u) = len l.
Proof.
  intros l u Hl Hu. unfold len, remove_all.
  pose proof (filter_len_split (fun y => mem y u) l) as Hs. cbv beta in Hs.
  assert (E : length (List.filter (fun y => mem y u) l) = length (keep_in l u)).
  { apply nodup_same_length.
    - apply NoDup_filter. exact Hl.
    - apply NoDup_filter. exact Hu.
    - intros x. rewrite In_keep_in, filter_In, mem_In. tauto. }
  lia.
Qed.
Lemma len_keep_in_le : forall l u, len (keep_in l u) <= len u.
Proof. intros. unfold len, keep_in. pose proof (filter_len_split (fun y => mem y l) u) as H. cbv beta in H. lia. Qed.
Lemma len_keep_in_le_l : forall l u, NoDup u -> NoDup l -> len (keep_in l u) <= len l.
Proof.
  intros l u Hu Hl. pose proof (len_remove_all l u Hl Hu). lia.
Qed.

(* ================================================================== Part B: sequential histories *)
Definition tgood (lim : N) (ts : tstate) : Prop :=
  t_count ts = len (t_live ts) /\ NoDup (t_live ts) /\ t_count ts <= lim.
Definition good (cfg : qcfg) (s : qstate) : Prop := forall t, tgood (q_limit cfg t) (tget s t).

Lemma tgood_t0 : forall lim, tgood lim t0.
Proof. intros. repeat split; [constructor|cbn; lia]. Qed.

(* enforce: refused exactly for a new id at the limit *)
Lemma enforce_none : forall cfg t ts id,
  enforce cfg t ts id = None <-> (mem id (t_live ts) = false /\ q_limit cfg t <= t_count ts).
Proof.
  intros. unfold enforce. destruct (mem id (t_live ts)); [split; [discriminate|intros [H _]; discriminate]|].
  destruct (q_limit cfg t <=? t_count ts) eqn:E.
  - apply N.leb_le in E. split; auto.
  - apply N.leb_gt in E. split; [discriminate|]. intros [_ H]. lia.
Qed.

Lemma insert_core_good : forall cfg t ts it,
  tgood (q_limit cfg t) ts -> tgood (q_limit cfg t) (fst (insert_core cfg t ts it)).
Proof.
  intros cfg t ts it [Hc [Hn Hl]]. unfold insert_core, enforce.
  destruct (mem (qi_id it) (t_live ts)) eqn:Em.
  - destruct (engine_ok cfg (qi_kind it)); cbn.
    + unfold tgood. cbn. rewrite len_add, Em. repeat split; auto. apply NoDup_add. exact Hn.
    + repeat split; assumption.
  - destruct (q_limit cfg t <=? t_count ts) eqn:El; [cbn; repeat split; assumption|].
    apply N.leb_gt in El. destruct (engine_ok cfg (qi_kind it)); cbn.
    + unfold tgood. cbn. rewrite len_add, Em. repeat split; [lia|apply NoDup_add; exact Hn|lia].
    + unfold dec_count, set_count. cbn. unfold tgood. cbn. repeat split; [lia|exact Hn|lia].
Qed.

Lemma bulk_item_good : forall cfg t acc it,
  tgood (q_limit cfg t) (fst acc) -> tgood (q_limit cfg t) (fst (bulk_item cfg t acc it)).
Proof.
  intros cfg t [ts [ins failed]] it H. cbn [fst] in H. unfold bulk_item.
  destruct (qi_id it <? 1); [exact H|]. destruct (is_empty (qi_kind it)); [exact H|].
  destruct (U32_MAX <? qi_id it); [exact H|].
  pose proof (insert_core_good cfg t ts it H) as G.
  destruct (insert_core cfg t ts it) as [ts' r]. cbn [fst] in G. destruct r; exact G.
Qed.
Lemma bulk_fold_good : forall cfg t its acc,
  tgood (q_limit cfg t) (fst acc) -> tgood (q_limit cfg t) (fst (fold_left (bulk_item cfg t) its acc)).
Proof.
  intros cfg t its. induction its as [|it its IH]; intros acc H; [exact H|].
  cbn [fold_left]. apply IH. apply bulk_item_good. exact H.
Qed.

(* the cold inserts of one bulk-load batch only ever ADD ids of the batch *)
Lemma load_fold_spec : forall cfg batch live tags loaded failed,
  NoDup live ->
  let r := fold_left (load_item cfg) batch (live, tags, (loaded, failed)) in
  NoDup (fst (fst r))
  /\ (forall x, In x live -> In x (fst (fst r)))
  /\ (forall x, In x (fst (fst r)) -> In x live \/ In x (map qi_id batch)).
Proof.
  intros cfg batch. induction batch as [|it batch IH]; intros live tags loaded failed Hn; cbn zeta.
  - cbn. repeat split; auto.
  - cbn [fold_left].
    assert (E : load_item cfg (live, tags, (loaded, failed)) it =
                if engine_ok cfg (qi_kind it)
                then (add live (qi_id it), Server.nset tags (qi_id it) (qi_tag it), (loaded + 1, failed))
                else (live, tags, (loaded, failed + 1))) by reflexivity.
    rewrite E. clear E. destruct (engine_ok cfg (qi_kind it)).
    + specialize (IH (add live (qi_id it)) (Server.nset tags (qi_id it) (qi_tag it)) (loaded + 1) failed (NoDup_add _ _ Hn)).
      cbn zeta in IH. destruct IH as [A [B C]]. repeat split; [exact A| |].
      * intros x Hx. apply B. apply In_add. left. exact Hx.
      * intros x Hx. destruct (C x Hx) as [H|H].
        -- apply In_add in H. destruct H as [H|H]; [left; exact H|right; left; symmetry; exact H].
        -- right. right. exact H.
    + specialize (IH live tags loaded (failed + 1) Hn). cbn zeta in IH. destruct IH as [A [B C]].
      repeat split; [exact A|exact B|]. intros x Hx. destruct (C x Hx) as [H|H]; [left; exact H|right; right; exact H].
Qed.

(* |live'| = |live| + number of reserved ids that exist afterwards *)
Lemma load_count : forall (live live' ids : list N),
  NoDup live -> NoDup live' ->
  (forall x, In x live -> In x live') ->
  (forall x, In x live' -> In x live \/ In x ids) ->
  len live' = len live + len (keep_in live' (dedup (List.filter (fun x => negb (mem x live)) ids))).
Proof.
  intros live live' ids Hn Hn' Hsub Hsup.
  set (new := dedup (List.filter (fun x => negb (mem x live)) ids)).
  assert (Hnew : NoDup new) by apply NoDup_dedup.
  assert (Hin : forall x, In x new <-> In x ids /\ ~ In x live).
  { intros x. unfold new. rewrite In_dedup, filter_In, negb_true_iff, mem_nIn. reflexivity. }
  (* live' splits into the part in live and the part not in live *)
  pose proof (filter_len_split (fun y => mem y live) live') as Hs. cbv beta in Hs.
  assert (E1 : length (List.filter (fun y => mem y live) live') = length live).
  { apply nodup_same_length; [apply NoDup_filter; exact Hn'|exact Hn|].
    intros x. rewrite filter_In, mem_In. split; [tauto|]. intros H. split; [apply Hsub; exact H|exact H]. }
  assert (E2 : length (List.filter (fun y => negb (mem y live)) live') = length (keep_in live' new)).
  { apply nodup_same_length; [apply NoDup_filter; exact Hn'|apply NoDup_filter; exact Hnew|].
    intros x. rewrite filter_In, negb_true_iff, mem_nIn, In_keep_in, Hin. split.
    - intros [H1 H2]. destruct (Hsup x H1) as [H|H]; [contradiction|]. tauto.
    - tauto. }
  unfold len. lia.
Qed.

Lemma bulk_load_good : forall cfg t ts its,
  tgood (q_limit cfg t) ts -> tgood (q_limit cfg t) (fst (h_bulk_load cfg t ts its)).
Proof.
  intros cfg t ts its [Hc [Hn Hl]]. unfold h_bulk_load.
  set (batch := List.filter bl_valid its).
  destruct batch as [|b0 brest] eqn:Eb; [cbn; repeat split; assumption|]. rewrite <- Eb. clear Eb b0 brest.
  set (new := dedup (List.filter (fun x => negb (mem x (t_live ts))) (map qi_id batch))).
  destruct (negb (len new =? 0) && (q_limit cfg t <? t_count ts + len new)) eqn:Eg; [cbn; repeat split; assumption|].
  pose proof (load_fold_spec cfg batch (t_live ts) (t_tags ts) 0 0 Hn) as S. cbn zeta in S.
  destruct (fold_left (load_item cfg) batch (t_live ts, t_tags ts, (0, 0))) as [[live' tags'] [loaded failed]].
  cbn [fst] in S. destruct S as [A [B C]].
  pose proof (load_count (t_live ts) live' (map qi_id batch) Hn A B C) as L. fold new in L.
  pose proof (len_keep_in_le live' new) as K.
  cbn [fst]. unfold tgood. cbn [t_count t_live].
  assert (Hr : t_count ts + len new <= q_limit cfg t \/ len new = 0).
  { apply andb_false_iff in Eg. destruct Eg as [E|E].
    - right. apply negb_false_iff in E. apply N.eqb_eq in E. exact E.
    - left. apply N.ltb_ge in E. exact E. }
  repeat split; [lia|exact A|lia].
Qed.

Lemma delete_core_good : forall lim ts id, tgood lim ts -> tgood lim (fst (delete_core ts id)).
Proof.
  intros lim ts id [Hc [Hn Hl]]. unfold delete_core. destruct (mem id (t_live ts)) eqn:E; [|repeat split; assumption].
  cbn [fst]. unfold tgood. cbn [t_count t_live]. pose proof (len_remove _ _ Hn E).
  repeat split; [lia|apply NoDup_filter; exact Hn|lia].
Qed.
Lemma batch_delete_core_good : forall lim ts gs, tgood lim ts -> tgood lim (fst (batch_delete_core ts gs)).
Proof.
  intros lim ts gs [Hc [Hn Hl]]. unfold batch_delete_core.
  destruct (len (keep_in (t_live ts) (dedup gs)) =? 0); [repeat split; assumption|].
  cbn [fst]. unfold tgood. cbn [t_count t_live].
  pose proof (len_remove_all (t_live ts) (dedup gs) Hn (NoDup_dedup gs)).
  repeat split; [lia|apply NoDup_filter; exact Hn|lia].
Qed.
Lemma probe_good : forall cfg t ts id,
  tgood (q_limit cfg t) ts -> tgood (q_limit cfg t) (fst (h_probe cfg t ts id)).
Proof.
  intros cfg t ts id H. unfold h_probe.
  pose proof (insert_core_good cfg t ts (mkQItem id VGood 0) H) as G.
  destruct (insert_core cfg t ts (mkQItem id VGood 0)) as [ts1 r]. cbn [fst] in G.
  destruct r; cbn [fst]; [exact H|apply delete_core_good; exact G|apply delete_core_good; exact G].
Qed.

Lemma handle_good : forall cfg t ts op,
  tgood (q_limit cfg t) ts -> tgood (q_limit cfg t) (fst (handle cfg t ts op)).
Proof.
  intros cfg t ts op H. destruct op as [it|its|its|id|ids|f| |id]; cbn [handle].
  - unfold h_insert. destruct (qi_id it <? 1); [exact H|].
    destruct (is_empty (qi_kind it) || is_nonfinite (qi_kind it)); [exact H|].
    destruct (U32_MAX <? qi_id it); [exact H|].
    pose proof (insert_core_good cfg t ts it H) as G.
    destruct (insert_core cfg t ts it) as [ts' r]. destruct r; exact G.
  - unfold h_bulk_insert.
    pose proof (bulk_fold_good cfg t its (ts, (0, 0)) H) as G.
    destruct (fold_left (bulk_item cfg t) its (ts, (0, 0))) as [ts' [ins failed]]. exact G.
  - apply bulk_load_good. exact H.
  - unfold h_delete. destruct (id <? 1); [exact H|]. destruct (U32_MAX <? id); [exact H|].
    pose proof (delete_core_good _ ts id H) as G. destruct (delete_core ts id) as [ts' e]. exact G.
  - unfold h_batch_delete_ids. destruct (existsb (fun i => U32_MAX <? i) ids); [exact H|].
    apply batch_delete_core_good. exact H.
  - unfold h_batch_delete_filter. apply batch_delete_core_good. exact H.
  - exact H.
  - apply probe_good. exact H.
Qed.

(* ---- tenant map *)
Lemma nget_nset_same : forall A (m : Server.nmap A) k v, Server.nget (Server.nset m k v) k = Some v.
Proof.
  intros A m k v. induction m as [|[k' v'] m IH]; cbn.
  - rewrite N.eqb_refl. reflexivity.
  - destruct (k =? k') eqn:E; cbn; [rewrite N.eqb_refl; reflexivity|rewrite E; exact IH].
Qed.
Lemma nget_nset_other : forall A (m : Server.nmap A) k v k', k' <> k -> Server.nget (Server.nset m k v) k' = Server.nget m k'.
Proof.
  intros A m k v k' H. induction m as [|[k2 v2] m IH]; cbn.
  - apply N.eqb_neq in H. rewrite H. reflexivity.
  - destruct (k =? k2) eqn:E; cbn.
    + apply N.eqb_eq in E. subst. apply N.eqb_neq in H. rewrite H. reflexivity.
    + destruct (k' =? k2); [reflexivity|exact IH].
Qed.
Lemma tget_tset_same : forall s t x, tget (tset s t x) t = x.
Proof. intros. unfold tget, tset. rewrite nget_nset_same. reflexivity. Qed.
Lemma tget_tset_other : forall s t x u, u <> t -> tget (tset s t x) u = tget s u.
Proof. intros. unfold tget, tset. rewrite nget_nset_other by assumption. reflexivity. Qed.
Lemma tget_recount : forall s t, tget (recount s) t = set_count (tget s t) (len (t_live (tget s t))).
Proof.
  intros s t. unfold tget, recount. induction s as [|[k v] s IH]; cbn; [reflexivity|].
  destruct (t =? k); [reflexivity|exact IH].
Qed.

Lemma qstep_good : forall cfg s e, good cfg s -> good cfg (fst (qstep cfg s e)).
Proof.
  intros cfg s e G. destruct e as [t op|]; cbn [qstep].
  - pose proof (handle_good cfg t (tget s t) op (G t)) as H.
    destruct (handle cfg t (tget s t) op) as [ts' r]. cbn [fst] in *. intros u.
    destruct (N.eq_dec u t) as [E|E]; [subst; rewrite tget_tset_same; exact H|].
    rewrite tget_tset_other by exact E. apply G.
  - cbn [fst]. intros u. rewrite tget_recount. destruct (G u) as [Hc [Hn Hl]].
    unfold tgood, set_count. cbn [t_count t_live]. repeat split; [exact Hn|lia].
Qed.
Lemma good_init : forall cfg, good cfg [].
Proof. intros cfg t. apply tgood_t0. Qed.
Lemma qfinal_good : forall cfg es, good cfg (qfinal cfg es).
Proof.
  intros cfg es. unfold qfinal.
  assert (H : forall s, good cfg s -> good cfg (fold_left (fun s e => fst (qstep cfg s e)) es s)).
  { induction es as [|e es IH]; intros s G; [exact G|]. cbn [fold_left]. apply IH. apply qstep_good. exact G. }
  apply H. apply good_init.
Qed.

(* the state qrun_from ends in is the fold *)
Lemma qrun_from_fst : forall cfg es s, fst (qrun_from cfg s es) = fold_left (fun s e => fst (qstep cfg s e)) es s.
Proof.
  intros cfg es. induction es as [|e es IH]; intros s; [reflexivity|]. cbn [qrun_from fold_left].
  destruct (qstep cfg s e) as [s1 o] eqn:E1. specialize (IH s1).
  destruct (qrun_from cfg s1 es) as [s2 os]. cbn [fst] in *. exact IH.
Qed.

(* ---- what the invariant gives about refusals *)
Definition item_admissible (it : qitem) : bool :=
  negb (qi_id it <? 1) && negb (is_empty (qi_kind it) || is_nonfinite (qi_kind it)) && negb (U32_MAX <? qi_id it).

Lemma insert_refused_iff : forall cfg t ts it,
  tgood (q_limit cfg t) ts -> item_admissible it = true ->
  (snd (h_insert cfg t ts it) = QErrExhausted
   <-> (mem (qi_id it) (t_live ts) = false /\ len (t_live ts) = q_limit cfg t)).
Proof.
  intros cfg t ts it [Hc [Hn Hl]] Ha. unfold item_admissible in Ha.
  apply andb_true_iff in Ha. destruct Ha as [Ha H3]. apply andb_true_iff in Ha. destruct Ha as [H1 H2].
  apply negb_true_iff in H1, H2, H3. unfold h_insert. rewrite H1, H2, H3.
  unfold insert_core. pose proof (enforce_none cfg t ts (qi_id it)) as EN.
  destruct (enforce cfg t ts (qi_id it)) as [[already ts1]|] eqn:E.
  - assert (NE : ~ (mem (qi_id it) (t_live ts) = false /\ q_limit cfg t <= t_count ts)).
    { intro X. apply EN in X. discriminate. }
    split.
    + destruct (engine_ok cfg (qi_kind it)); cbn; discriminate.
    + intros [A B]. exfalso. apply NE. split; [exact A|lia].
  - destruct EN as [EN _]. specialize (EN eq_refl). destruct EN as [A B]. cbn. split; [|reflexivity].
    intros _. split; [exact A|lia].
Qed.

(* ================================================================== Part C: interleavings *)
(* ---- insert || insert: invariant over all reachable configurations *)
Definition in_cs (th : ithr) : bool := match i_pc th with ILock | IDone => false | _ => true end.
(* reservations a thread holds that are not (yet) matched by a live document *)
Definition debt (th : ithr) : N :=
  if i_ex th then 0
  else match i_pc th with
       | ICold => 1
       | IRelease => if i_failed th then 1 else 0
       | _ => 0
       end.
Definition know (live : list N) (th : ithr) : Prop :=
  match i_pc th with
  | ILock | IExists => i_failed th = false
  | IReserve | ICold => i_failed th = false /\ i_ex th = mem (i_id th) live
  | IToken => i_failed th = false /\ mem (i_id th) live = true
  | _ => True
  end.
(* `me` is the thread id of a; b has the other id *)
Definition iinv (me : bool) (sh : shared) (a b : ithr) : Prop :=
  NoDup (sh_live sh)
  /\ sh_count sh = len (sh_live sh) + debt a + debt b
  /\ match sh_mutex sh with
     | None => in_cs a = false /\ in_cs b = false
     | Some w => if Bool.eqb w me then in_cs a = true /\ in_cs b = false
                 else in_cs a = false /\ in_cs b = true
     end
  /\ know (sh_live sh) a /\ know (sh_live sh) b.

Lemma iinv_sym : forall me sh a b, iinv me sh a b -> iinv (negb me) sh b a.
Proof.
  intros me sh a b [H1 [H2 [H3 [H4 H5]]]]. unfold iinv.
  split; [exact H1|]. split; [lia|]. split; [|split; assumption].
  destruct (sh_mutex sh) as [w|]; [|tauto].
  destruct w, me; cbn in *; tauto.
Qed.

(* when the other thread is outside its critical section, its knowledge does not mention live *)
Lemma know_outside : forall live live' th, in_cs th = false -> know live th -> know live' th.
Proof. intros live live' th H K. unfold in_cs in H. unfold know in *. destruct (i_pc th); try discriminate; exact K. Qed.
Lemma debt_outside : forall th, in_cs th = false -> debt th = 0.
Proof. intros th H. unfold in_cs in H. unfold debt. destruct (i_ex th); [reflexivity|]. destruct (i_pc th); try discriminate; reflexivity. Qed.

Ltac icrush :=
  unfold debt, know, in_cs in *;
  cbn [i_pc i_id i_ok i_ex i_failed i_refused sh_live sh_count sh_mutex ipc_set] in *.

Lemma iinv_step : forall limit me sh a b sh' a',
  iinv me sh a b -> istep limit me sh a = Some (sh', a') -> iinv me sh' a' b.
Proof.
  intros limit me sh a b sh' a' [Hn [Hc [Hm [Ka Kb]]]] St.
  assert (Hout : in_cs a = true -> in_cs b = false /\ debt b = 0).
  { intros Ha. assert (X : in_cs b = false).
    { destruct (sh_mutex sh) as [w|]; [destruct (Bool.eqb w me)|]; destruct Hm as [X Y]; congruence. }
    split; [exact X|apply debt_outside; exact X]. }
  assert (Kout : forall live', in_cs b = false -> know live' b).
  { intros live' X. eapply know_outside; eassumption. }
  remember (debt b) as db eqn:Edb.
  destruct a as [pc id ok ex failed refused].
  unfold istep in St. cbn [i_pc i_id i_ok i_ex i_failed i_refused] in St.
  unfold iinv. rewrite <- Edb. clear Edb.
  destruct pc.
  - (* ILock *)
    destruct (sh_mutex sh) as [w|] eqn:Em; [discriminate|]. inversion St; subst; clear St.
    destruct Hm as [_ Hb]. icrush. rewrite Bool.eqb_reflx.
    repeat split; try assumption; try (destruct ex; lia).
  - (* IExists *)
    inversion St; subst; clear St. icrush.
    repeat split; try assumption;
    try (destruct ex; destruct (mem id (sh_live sh')); lia).
  - (* IReserve *)
    destruct (Hout eq_refl) as [Hb Db]. icrush. destruct Ka as [Kf Ke].
    destruct ex.
    + inversion St; subst; clear St. icrush. repeat split; assumption.
    + destruct (limit <=? sh_count sh).
      * inversion St; subst; clear St. icrush. repeat split; assumption.
      * inversion St; subst; clear St. icrush. repeat split; try assumption; try lia.
  - (* ICold *)
    destruct (Hout eq_refl) as [Hb Db]. specialize (Kout (add (sh_live sh) id) Hb).
    icrush. destruct Ka as [Kf Ke].
    destruct ok.
    + inversion St; subst sh' a'; clear St. icrush. repeat split.
      * apply NoDup_add. exact Hn.
      * rewrite len_add. rewrite <- Ke. destruct ex; lia.
      * exact Hm.
      * exact Kf.
      * apply mem_add_same.
      * exact Kout.
    + inversion St; subst; clear St. icrush. repeat split; try assumption; try (destruct ex; lia).
  - (* IToken *)
    icrush. destruct Ka as [Kf Km]. rewrite Km in St. inversion St; subst; clear St. icrush.
    repeat split; try assumption; try (destruct ex; lia).
  - (* IRelease *)
    destruct (Hout eq_refl) as [Hb Db]. icrush.
    destruct failed, ex; cbn [andb negb] in St; inversion St; subst; clear St; icrush;
      repeat split; try assumption; try lia.
  - (* IUnlock *)
    destruct (Hout eq_refl) as [Hb Db]. inversion St; subst; clear St. icrush.
    repeat split; try assumption; try (destruct ex; lia).
  - discriminate.
Qed.

(* the counter never passes the limit by an insert thread's step *)
Lemma istep_le : forall limit me sh a sh' a',
  sh_count sh <= limit -> istep limit me sh a = Some (sh', a') -> sh_count sh' <= limit.
Proof.
  intros limit me sh a sh' a' H St. unfold istep in St.
  destruct (i_pc a).
  - destruct (sh_mutex sh); [discriminate|]. inversion St; subst; exact H.
  - inversion St; subst; exact H.
  - destruct (i_ex a); [inversion St; subst; exact H|].
    destruct (limit <=? sh_count sh) eqn:E; inversion St; subst; cbn; [exact H|]. apply N.leb_gt in E. lia.
  - destruct (i_ok a); inversion St; subst; cbn; exact H.
  - destruct (mem (i_id a) (sh_live sh)); inversion St; subst; exact H.
  - destruct (i_failed a && negb (i_ex a)); inversion St; subst; cbn; lia.
  - inversion St; subst; cbn; exact H.
  - discriminate.
Qed.

(* insert-like threads: Insert, and BulkInsert (a sequence of the same critical section) *)
Definition cur_of (th : thr) : option ithr :=
  match th with TI x => Some x | TBI c _ => Some c | _ => None end.
Definition insert_like (th : thr) : bool := match cur_of th with Some _ => true | None => false end.

Lemma iinv_restart : forall me sh a b id ok,
  iinv me sh a b -> i_pc a = IDone -> iinv me sh (istart id ok) b.
Proof.
  intros me sh a b id ok [Hn [Hc [Hm [Ka Kb]]]] Hd. unfold iinv.
  assert (Da : debt a = 0) by (apply debt_outside; unfold in_cs; rewrite Hd; reflexivity).
  assert (Ia : in_cs a = false) by (unfold in_cs; rewrite Hd; reflexivity).
  split; [exact Hn|]. split; [unfold debt at 1; cbn; lia|]. split; [|split; [reflexivity|exact Kb]].
  rewrite Ia in Hm. exact Hm.
Qed.

Lemma tstep_insert_like : forall limit me sh th b x,
  cur_of th = Some x -> iinv me sh x b -> sh_count sh <= limit ->
  forall sh' th', tstep limit me sh th = Some (sh', th') ->
  exists x', cur_of th' = Some x' /\ iinv me sh' x' b /\ sh_count sh' <= limit.
Proof.
  intros limit me sh th b x Hc I Hl sh' th' St. destruct th as [y|cur rest|y|y|y]; cbn in Hc; try discriminate.
  - inversion Hc; subst y. cbn [tstep] in St.
    destruct (istep limit me sh x) as [[sh1 x1]|] eqn:E; [|discriminate]. inversion St; subst.
    exists x1. split; [reflexivity|split; [eapply iinv_step; eassumption|eapply istep_le; eassumption]].
  - inversion Hc; subst cur. cbn [tstep] in St.
    destruct (i_pc x) eqn:Ep;
      try (destruct (istep limit me sh x) as [[sh1 x1]|] eqn:E; [|discriminate]; inversion St; subst;
           exists x1; split; [reflexivity|split; [eapply iinv_step; eassumption|eapply istep_le; eassumption]]).
    destruct rest as [|[id ok] r]; [discriminate|]. inversion St; subst.
    exists (istart id ok). split; [reflexivity|split; [eapply iinv_restart; eassumption|exact Hl]].
Qed.

Definition pair_inv (limit : N) (c : conf) : Prop :=
  exists a b, cur_of (c_a c) = Some a /\ cur_of (c_b c) = Some b
              /\ iinv false (c_sh c) a b /\ sh_count (c_sh c) <= limit.

Lemma cstep_pair_inv : forall limit c who, pair_inv limit c -> pair_inv limit (cstep limit c who).
Proof.
  intros limit c who [a [b [Ea [Eb [I Hl]]]]]. unfold cstep. destruct who.
  - destruct (tstep limit true (c_sh c) (c_b c)) as [[sh' b']|] eqn:St; [|exists a, b; auto].
    apply iinv_sym in I. cbn [negb] in I.
    destruct (tstep_insert_like limit true (c_sh c) (c_b c) a b Eb I Hl sh' b' St) as [x' [E' [I' Hl']]].
    exists a, x'. cbn. split; [exact Ea|split; [exact E'|split; [apply iinv_sym in I'; exact I'|exact Hl']]].
  - destruct (tstep limit false (c_sh c) (c_a c)) as [[sh' a']|] eqn:St; [|exists a, b; auto].
    destruct (tstep_insert_like limit false (c_sh c) (c_a c) b a Ea I Hl sh' a' St) as [x' [E' [I' Hl']]].
    exists x', b. cbn. split; [exact E'|split; [exact Eb|split; [exact I'|exact Hl']]].
Qed.
Lemma crun_pair_inv : forall limit sched c, pair_inv limit c -> pair_inv limit (crun limit sched c).
Proof.
  intros limit sched. induction sched as [|w sched IH]; intros c H; [exact H|].
  cbn [crun fold_left]. apply IH. apply cstep_pair_inv. exact H.
Qed.

(* a fresh insert-like thread: Insert(id, ok) or BulkInsert(items) *)
Definition fresh (th : thr) : Prop :=
  (exists id ok, th = TI (istart id ok)) \/ (exists id ok rest, th = TBI (istart id ok) rest).
Lemma fresh_cur : forall th, fresh th -> exists id ok, cur_of th = Some (istart id ok).
Proof. intros th [[id [ok E]]|[id [ok [rest E]]]]; subst; exists id, ok; reflexivity. Qed.

Lemma pair_inv_start : forall limit count live a b,
  NoDup live -> count = len live -> count <= limit -> fresh a -> fresh b ->
  pair_inv limit (cstart count live a b).
Proof.
  intros limit count live a b Hn Hc Hl Fa Fb.
  destruct (fresh_cur a Fa) as [ia [oa Ea]]. destruct (fresh_cur b Fb) as [ib [ob Eb]].
  exists (istart ia oa), (istart ib ob). cbn. repeat split; try assumption.
  unfold debt. cbn. lia.
Qed.

Lemma tdone_cur : forall th x, cur_of th = Some x -> tdone th = true -> i_pc x = IDone.
Proof.
  intros th x Hc Hd. destruct th as [y|cur rest|y|y|y]; cbn in Hc; try discriminate; inversion Hc; subst; cbn in Hd.
  - destruct (i_pc x); try discriminate; reflexivity.
  - destruct (i_pc x); try discriminate. reflexivity.
Qed.

(* insert-like || insert-like: exact at quiescence, bounded at every instant, for EVERY schedule *)
Theorem pairs_insert_like : forall limit count live a b sched,
  NoDup live -> count = len live -> count <= limit -> fresh a -> fresh b ->
  let c := crun limit sched (cstart count live a b) in
  (* at every instant *)
  (final_live c <= final_count c /\ final_count c <= final_live c + 2 /\ final_count c <= limit /\ NoDup (sh_live (c_sh c)))
  (* and when both calls have returned *)
  /\ (quiescent c = true -> final_count c = final_live c /\ sh_mutex (c_sh c) = None).
Proof.
  intros limit count live a b sched Hn Hc Hl Fa Fb c.
  pose proof (crun_pair_inv limit sched _ (pair_inv_start limit count live a b Hn Hc Hl Fa Fb)) as P.
  fold c in P. destruct P as [x [y [Ex [Ey [[In [Ic [Im [Kx Ky]]]] Il]]]]].
  unfold final_count, final_live. split.
  - assert (Dx : debt x <= 1) by (unfold debt; destruct (i_ex x); [lia|]; destruct (i_pc x); try lia; destruct (i_failed x); lia).
    assert (Dy : debt y <= 1) by (unfold debt; destruct (i_ex y); [lia|]; destruct (i_pc y); try lia; destruct (i_failed y); lia).
    repeat split; try assumption; lia.
  - intros Q. unfold quiescent in Q. apply andb_true_iff in Q. destruct Q as [Qa Qb].
    pose proof (tdone_cur _ _ Ex Qa) as Px. pose proof (tdone_cur _ _ Ey Qb) as Py.
    assert (Dx : debt x = 0) by (apply debt_outside; unfold in_cs; rewrite Px; reflexivity).
    assert (Dy : debt y = 0) by (apply debt_outside; unfold in_cs; rewrite Py; reflexivity).
    split; [lia|].
    destruct (sh_mutex (c_sh c)) as [w|]; [|reflexivity].
    unfold in_cs in Im. rewrite Px, Py in Im. destruct (Bool.eqb w false); destruct Im; discriminate.
Qed.

(* every such pair does terminate under a fair schedule: a first, then b *)
Lemma pairs_nonvacuous :
  let c := crun 2 (repeat false 8 ++ repeat true 8) (cstart 1 [7] (TI (istart 1 true)) (TI (istart 2 true))) in
  quiescent c = true /\ final_count c = 2 /\ final_live c = 2
  /\ match c_b c with TI x => i_refused x | _ => false end = true.
Proof. vm_compute. auto. Qed.

(* ---- the pairs that involve Delete / BatchDelete: witnesses.  limit 2 throughout *)
Definition drift_witness (limit count : N) (live : list N) (a b : thr) (sched : list bool) (c_end l_end : N) : Prop :=
  count = len live /\
  let c := crun limit sched (cstart count live a b) in
  quiescent c = true /\ final_count c = c_end /\ final_live c = l_end.

(* X = 1 live, overwrite sees "exists", delete removes and decrements, overwrite re-creates *)
Definition w_overwrite_delete := [false; false; true; true; true; false; false; false; false; false].
Lemma overwrite_delete_witness :
  drift_witness 2 2 [1; 2] (TI (istart 1 true)) (TD (dstart 1)) w_overwrite_delete 1 2.
Proof. vm_compute. auto. Qed.
Lemma bulk_insert_delete_witness :
  drift_witness 2 2 [1; 2] (TBI (istart 1 true) []) (TD (dstart 1)) w_overwrite_delete 1 2.
Proof. vm_compute. auto. Qed.
(* bulk load over a live id: nothing reserved, delete decrements, load re-creates *)
Definition w_load_over_delete := [false; false; false; true; true; true; false; false; false; false; false].
Lemma bulk_load_overwrite_delete_witness :
  drift_witness 2 2 [1; 2] (TL (lstart [(1, true)])) (TD (dstart 1)) w_load_over_delete 1 2.
Proof. vm_compute. auto. Qed.
(* bulk load of a NEW id: reserved, loaded, deleted (decrement), then "not inserted" => released too *)
Definition w_load_new_delete := [false; false; false; false; true; true; true; false; false; false; false].
Lemma bulk_load_new_delete_witness :
  drift_witness 2 1 [2] (TL (lstart [(1, true)])) (TD (dstart 1)) w_load_new_delete 0 1.
Proof. vm_compute. auto. Qed.
(* insert of a NEW id: delete lands between the cold-tier insert and the coherence-token read *)
Definition w_insert_new_delete := [false; false; false; false; true; true; true; false; false; false].
Lemma insert_new_delete_witness :
  drift_witness 2 1 [2] (TI (istart 1 true)) (TD (dstart 1)) w_insert_new_delete 0 1.
Proof. vm_compute. auto. Qed.
(* delete || batch delete of the same id: the batch's pre-count and the delete both report it *)
Definition w_delete_batch := [false; false; true; true; true; false; false].
Lemma delete_batch_delete_witness :
  drift_witness 2 2 [1; 2] (TB (bstart [1])) (TD (dstart 1)) w_delete_batch 0 1.
Proof. vm_compute. auto. Qed.
