(* Proofs/QuotaProofs.v — proofs about Model/Quota.v.
   Part A: finite-set lemmas.  Part B: the sequential invariant  count = |live|  (every history).
   Part C: the interleaving model: insert || insert keeps the count exact in every schedule (invariant
   over all reachable configurations); witnesses for the pairs that involve Delete / BatchDelete. *)
From Coq Require Import List NArith Bool Lia Permutation PeanoNat.
From Kyro Require Model.Server.
From Kyro Require Import Model.Quota.
Import ListNotations.
Open Scope N_scope.

(* ================================================================== Part A: lists as sets *)
Lemma mem_In : forall x l, mem x l = true <-> In x l.
Proof.
  intros x l. unfold mem. rewrite existsb_exists. split.
  - intros [y [Hy He]]. apply N.eqb_eq in He. subst. exact Hy.
  - intros H. exists x. split; [exact H|apply N.eqb_refl].
Qed.
Lemma mem_nIn : forall x l, mem x l = false <-> ~ In x l.
Proof.
  intros x l. rewrite <- mem_In. destruct (mem x l); split; intro H.
  - discriminate.
  - exfalso. apply H. reflexivity.
  - intro H'. discriminate.
  - reflexivity.
Qed.
Lemma len_nil : forall A, @len A [] = 0. Proof. reflexivity. Qed.
Lemma len_app : forall A (a b : list A), len (a ++ b) = len a + len b.
Proof. intros. unfold len. rewrite app_length. lia. Qed.
Lemma len_cons : forall A (x : A) l, len (x :: l) = len l + 1.
Proof. intros. unfold len. cbn [length]. lia. Qed.

Lemma In_add : forall l x y, In y (add l x) <-> In y l \/ y = x.
Proof.
  intros l x y. unfold add. destruct (mem x l) eqn:E.
  - apply mem_In in E. split; [auto|]. intros [H|H]; [exact H|subst; exact E].
  - rewrite in_app_iff. cbn [In]. split.
    + intros [H|[H|[]]]; [left; exact H|right; symmetry; exact H].
    + intros [H|H]; [left; exact H|right; left; symmetry; exact H].
Qed.
Lemma NoDup_add : forall l x, NoDup l -> NoDup (add l x).
Proof.
  intros l x H. unfold add. destruct (mem x l) eqn:E; [exact H|].
  apply mem_nIn in E. eapply Permutation_NoDup; [apply Permutation_cons_append|constructor; assumption].
Qed.
Lemma len_add : forall l x, len (add l x) = if mem x l then len l else len l + 1.
Proof. intros l x. unfold add. destruct (mem x l); [reflexivity|]. rewrite len_app. reflexivity. Qed.
Lemma mem_add_same : forall l x, mem x (add l x) = true.
Proof. intros. apply mem_In. apply In_add. right. reflexivity. Qed.

Lemma In_remove : forall l x y, In y (remove l x) <-> In y l /\ y <> x.
Proof.
  intros l x y. unfold remove. rewrite filter_In. split; intros [H1 H2]; split; auto.
  - intro E. subst. rewrite N.eqb_refl in H2. discriminate.
  - apply negb_true_iff. apply N.eqb_neq. intro E. apply H2. symmetry. exact E.
Qed.
Lemma filter_len_split : forall (f : N -> bool) l,
  (length (List.filter f l) + length (List.filter (fun y => negb (f y)) l) = length l)%nat.
Proof.
  intros f l. induction l as [|a l IH]; [reflexivity|]. cbn [List.filter].
  destruct (f a); cbn [negb length]; lia.
Qed.
Lemma nodup_same_length : forall (a b : list N), NoDup a -> NoDup b -> (forall x, In x a <-> In x b) -> length a = length b.
Proof. intros a b Ha Hb H. apply Permutation_length. apply NoDup_Permutation; assumption. Qed.
Lemma len_remove : forall l x, NoDup l -> mem x l = true -> len (remove l x) + 1 = len l.
Proof.
  intros l x Hn Hm. unfold len, remove.
  pose proof (filter_len_split (fun y => negb (N.eqb x y)) l) as Hs. cbv beta in Hs.
  assert (Hone : length (List.filter (fun y => negb (negb (N.eqb x y))) l) = 1%nat).
  { transitivity (length [x]); [|reflexivity]. apply nodup_same_length.
    - apply NoDup_filter. exact Hn.
    - constructor; [intros []|constructor].
    - intros y. rewrite filter_In. cbn. rewrite negb_involutive. split.
      + intros [_ E]. apply N.eqb_eq in E. left. exact E.
      + intros [E|[]]. subst. split; [apply mem_In; exact Hm|apply N.eqb_refl]. }
  rewrite Hone in Hs. lia.
Qed.
Lemma In_dedup : forall l x, In x (dedup l) <-> In x l.
Proof.
  induction l as [|a l IH]; intros x; [reflexivity|]. cbn [dedup]. destruct (mem a l) eqn:E.
  - rewrite IH. split; [intros H; right; exact H|]. intros [H|H]; [subst; apply mem_In; exact E|exact H].
  - cbn [In]. rewrite IH. reflexivity.
Qed.
Lemma NoDup_dedup : forall l, NoDup (dedup l).
Proof.
  induction l as [|a l IH]; [constructor|]. cbn [dedup]. destruct (mem a l) eqn:E; [exact IH|].
  constructor; [|exact IH]. rewrite In_dedup. apply mem_nIn. exact E.
Qed.
Lemma In_keep_in : forall l xs x, In x (keep_in l xs) <-> In x xs /\ In x l.
Proof. intros. unfold keep_in. rewrite filter_In, mem_In. reflexivity. Qed.
Lemma In_remove_all : forall l xs x, In x (remove_all l xs) <-> In x l /\ ~ In x xs.
Proof. intros. unfold remove_all. rewrite filter_In, negb_true_iff, mem_nIn. reflexivity. Qed.
Lemma len_remove_all : forall l u, NoDup l -> NoDup u -> len (remove_all l u) + len (keep_in l u) = len l.
Proof.
  intros l u Hl Hu. unfold len, remove_all.
  pose proof (filter_len_split (fun y => mem y u) l) as Hs. cbv beta in Hs.
  assert (E : length (List.filter (fun y => mem y u) l) = length (keep_in l u)).
  { apply nodup_same_length.
    - apply NoDup_filter. exact Hl.
    - apply NoDup_filter. exact Hu.
    - intros x. rewrite In_keep_in, filter_In, mem_In. tauto. }
  lia.
Qed.
Lemma len_keep_in_le : forall l u, len (keep_in l u) <= len u.
Proof. intros. unfold len, keep_in. pose proof (filter_len_split (fun y => mem y l) u) as H. cbv beta in H. lia. Qed.
Lemma len_keep_in_le_l : forall l u, NoDup u -> NoDup l -> len (keep_in l u) <= len l.
Proof.
  intros l u Hu Hl. pose proof (len_remove_all l u Hl Hu). lia.
Qed.

(* ================================================================== Part B: sequential histories *)
Definition tgood (lim : N) (ts : tstate) : Prop :=
  t_count ts = len (t_live ts) /\ NoDup (t_live ts) /\ t_count ts <= lim.
Definition good (cfg : qcfg) (s : qstate) : Prop := forall t, tgood (q_limit cfg t) (tget s t).

Lemma tgood_t0 : forall lim, tgood lim t0.
Proof. intros. repeat split; [constructor|cbn; lia]. Qed.

(* enforce: refused exactly for a new id at the limit *)
Lemma enforce_none : forall cfg t ts id,
  enforce cfg t ts id = None <-> (mem id (t_live ts) = false /\ q_limit cfg t <= t_count ts).
Proof.
  intros. unfold enforce. destruct (mem id (t_live ts)); [split; [discriminate|intros [H _]; discriminate]|].
  destruct (q_limit cfg t <=? t_count ts) eqn:E.
  - apply N.leb_le in E. split; auto.
  - apply N.leb_gt in E. split; [discriminate|]. intros [_ H]. lia.
Qed.

Lemma insert_core_good : forall cfg t ts it,
  tgood (q_limit cfg t) ts -> tgood (q_limit cfg t) (fst (insert_core cfg t ts it)).
Proof.
  intros cfg t ts it [Hc [Hn Hl]]. unfold insert_core, enforce.
  destruct (mem (qi_id it) (t_live ts)) eqn:Em.
  - destruct (engine_ok cfg (qi_kind it)); cbn.
    + unfold tgood. cbn. rewrite len_add, Em. repeat split; auto. apply NoDup_add. exact Hn.
    + repeat split; assumption.
  - destruct (q_limit cfg t <=? t_count ts) eqn:El; [cbn; repeat split; assumption|].
    apply N.leb_gt in El. destruct (engine_ok cfg (qi_kind it)); cbn.
    + unfold tgood. cbn. rewrite len_add, Em. repeat split; [lia|apply NoDup_add; exact Hn|lia].
    + unfold dec_count, set_count. cbn. unfold tgood. cbn. repeat split; [lia|exact Hn|lia].
Qed.

Lemma bulk_item_good : forall cfg t acc it,
  tgood (q_limit cfg t) (fst acc) -> tgood (q_limit cfg t) (fst (bulk_item cfg t acc it)).
Proof.
  intros cfg t [ts [ins failed]] it H. cbn [fst] in H. unfold bulk_item.
  destruct (qi_id it <? 1); [exact H|]. destruct (is_empty (qi_kind it)); [exact H|].
  destruct (U32_MAX <? qi_id it); [exact H|].
  pose proof (insert_core_good cfg t ts it H) as G.
  destruct (insert_core cfg t ts it) as [ts' r]. cbn [fst] in G. destruct r; exact G.
Qed.
Lemma bulk_fold_good : forall cfg t its acc,
  tgood (q_limit cfg t) (fst acc) -> tgood (q_limit cfg t) (fst (fold_left (bulk_item cfg t) its acc)).
Proof.
  intros cfg t its. induction its as [|it its IH]; intros acc H; [exact H|].
  cbn [fold_left]. apply IH. apply bulk_item_good. exact H.
Qed.

(* the cold inserts of one bulk-load batch only ever ADD ids of the batch *)
Lemma load_fold_spec : forall cfg batch live tags loaded failed,
  NoDup live ->
  let r := fold_left (load_item cfg) batch (live, tags, (loaded, failed)) in
  NoDup (fst (fst r))
  /\ (forall x, In x live -> In x (fst (fst r)))
  /\ (forall x, In x (fst (fst r)) -> In x live \/ In x (map qi_id batch)).
Proof.
  intros cfg batch. induction batch as [|it batch IH]; intros live tags loaded failed Hn; cbn zeta.
  - cbn. repeat split; auto.
  - cbn [fold_left].
    assert (E : load_item cfg (live, tags, (loaded, failed)) it =
                if engine_ok cfg (qi_kind it)
                then (add live (qi_id it), Server.nset tags (qi_id it) (qi_tag it), (loaded + 1, failed))
                else (live, tags, (loaded, failed + 1))) by reflexivity.
    rewrite E. clear E. destruct (engine_ok cfg (qi_kind it)).
    + specialize (IH (add live (qi_id it)) (Server.nset tags (qi_id it) (qi_tag it)) (loaded + 1) failed (NoDup_add _ _ Hn)).
      cbn zeta in IH. destruct IH as [A [B C]]. repeat split; [exact A| |].
      * intros x Hx. apply B. apply In_add. left. exact Hx.
      * intros x Hx. destruct (C x Hx) as [H|H].
        -- apply In_add in H. destruct H as [H|H]; [left; exact H|right; left; symmetry; exact H].
        -- right. right. exact H.
    + specialize (IH live tags loaded (failed + 1) Hn). cbn zeta in IH. destruct IH as [A [B C]].
      repeat split; [exact A|exact B|]. intros x Hx. destruct (C x Hx) as [H|H]; [left; exact H|right; right; exact H].
Qed.

(* |live'| = |live| + number of reserved ids that exist afterwards *)
Lemma load_count : forall (live live' ids : list N),
  NoDup live -> NoDup live' ->
  (forall x, In x live -> In x live') ->
  (forall x, In x live' -> In x live \/ In x ids) ->
  len live' = len live + len (keep_in live' (dedup (List.filter (fun x => negb (mem x live)) ids))).
Proof.
  intros live live' ids Hn Hn' Hsub Hsup.
  set (new := dedup (List.filter (fun x => negb (mem x live)) ids)).
  assert (Hnew : NoDup new) by apply NoDup_dedup.
  assert (Hin : forall x, In x new <-> In x ids /\ ~ In x live).
  { intros x. unfold new. rewrite In_dedup, filter_In, negb_true_iff, mem_nIn. reflexivity. }
  (* live' splits into the part in live and the part not in live *)
  pose proof (filter_len_split (fun y => mem y live) live') as Hs. cbv beta in Hs.
  assert (E1 : length (List.filter (fun y => mem y live) live') = length live).
  { apply nodup_same_length; [apply NoDup_filter; exact Hn'|exact Hn|].
    intros x. rewrite filter_In, mem_In. split; [tauto|]. intros H. split; [apply Hsub; exact H|exact H]. }
  assert (E2 : length (List.filter (fun y => negb (mem y live)) live') = length (keep_in live' new)).
  { apply nodup_same_length; [apply NoDup_filter; exact Hn'|apply NoDup_filter; exact Hnew|].
    intros x. rewrite filter_In, negb_true_iff, mem_nIn, In_keep_in, Hin. split.
    - intros [H1 H2]. destruct (Hsup x H1) as [H|H]; [contradiction|]. tauto.
    - tauto. }
  unfold len. lia.
Qed.

Lemma bulk_load_good : forall cfg t ts its,
  tgood (q_limit cfg t) ts -> tgood (q_limit cfg t) (fst (h_bulk_load cfg t ts its)).
Proof.
  intros cfg t ts its [Hc [Hn Hl]]. unfold h_bulk_load.
  set (batch := List.filter bl_valid its).
  destruct batch as [|b0 brest] eqn:Eb; [cbn; repeat split; assumption|]. rewrite <- Eb. clear Eb b0 brest.
  set (new := dedup (List.filter (fun x => negb (mem x (t_live ts))) (map qi_id batch))).
  destruct (negb (len new =? 0) && (q_limit cfg t <? t_count ts + len new)) eqn:Eg; [cbn; repeat split; assumption|].
  pose proof (load_fold_spec cfg batch (t_live ts) (t_tags ts) 0 0 Hn) as S. cbn zeta in S.
  destruct (fold_left (load_item cfg) batch (t_live ts, t_tags ts, (0, 0))) as [[live' tags'] [loaded failed]].
  cbn [fst] in S. destruct S as [A [B C]].
  pose proof (load_count (t_live ts) live' (map qi_id batch) Hn A B C) as L. fold new in L.
  pose proof (len_keep_in_le live' new) as K.
  cbn [fst]. unfold tgood. cbn [t_count t_live].
  assert (Hr : t_count ts + len new <= q_limit cfg t \/ len new = 0).
  { apply andb_false_iff in Eg. destruct Eg as [E|E].
    - right. apply negb_false_iff in E. apply N.eqb_eq in E. exact E.
    - left. apply N.ltb_ge in E. exact E. }
  repeat split; [lia|exact A|lia].
Qed.

Lemma delete_core_good : forall lim ts id, tgood lim ts -> tgood lim (fst (delete_core ts id)).
Proof.
  intros lim ts id [Hc [Hn Hl]]. unfold delete_core. destruct (mem id (t_live ts)) eqn:E; [|repeat split; assumption].
  cbn [fst]. unfold tgood. cbn [t_count t_live]. pose proof (len_remove _ _ Hn E).
  repeat split; [lia|apply NoDup_filter; exact Hn|lia].
Qed.
Lemma batch_delete_core_good : forall lim ts gs, tgood lim ts -> tgood lim (fst (batch_delete_core ts gs)).
Proof.
  intros lim ts gs [Hc [Hn Hl]]. unfold batch_delete_core.
  destruct (len (keep_in (t_live ts) (dedup gs)) =? 0); [repeat split; assumption|].
  cbn [fst]. unfold tgood. cbn [t_count t_live].
  pose proof (len_remove_all (t_live ts) (dedup gs) Hn (NoDup_dedup gs)).
  repeat split; [lia|apply NoDup_filter; exact Hn|lia].
Qed.
Lemma probe_good : forall cfg t ts id,
  tgood (q_limit cfg t) ts -> tgood (q_limit cfg t) (fst (h_probe cfg t ts id)).
Proof.
  intros cfg t ts id H. unfold h_probe.
  pose proof (insert_core_good cfg t ts (mkQItem id VGood 0) H) as G.
  destruct (insert_core cfg t ts (mkQItem id VGood 0)) as [ts1 r]. cbn [fst] in G.
  destruct r; cbn [fst]; [exact H|apply delete_core_good; exact G|apply delete_core_good; exact G].
Qed.

Lemma handle_good : forall cfg t ts op,
  tgood (q_limit cfg t) ts -> tgood (q_limit cfg t) (fst (handle cfg t ts op)).
Proof.
  intros cfg t ts op H. destruct op as [it|its|its|id|ids|f| |id]; cbn [handle].
  - unfold h_insert. destruct (qi_id it <? 1); [exact H|].
    destruct (is_empty (qi_kind it) || is_nonfinite (qi_kind it)); [exact H|].
    destruct (U32_MAX <? qi_id it); [exact H|].
    pose proof (insert_core_good cfg t ts it H) as G.
    destruct (insert_core cfg t ts it) as [ts' r]. destruct r; exact G.
  - unfold h_bulk_insert.
    pose proof (bulk_fold_good cfg t its (ts, (0, 0)) H) as G.
    destruct (fold_left (bulk_item cfg t) its (ts, (0, 0))) as [ts' [ins failed]]. exact G.
  - apply bulk_load_good. exact H.
  - unfold h_delete. destruct (id <? 1); [exact H|]. destruct (U32_MAX <? id); [exact H|].
    pose proof (delete_core_good _ ts id H) as G. destruct (delete_core ts id) as [ts' e]. exact G.
  - unfold h_batch_delete_ids. destruct (existsb (fun i => U32_MAX <? i) ids); [exact H|].
    apply batch_delete_core_good. exact H.
  - unfold h_batch_delete_filter. apply batch_delete_core_good. exact H.
  - exact H.
  - apply probe_good. exact H.
Qed.

(* ---- tenant map *)
Lemma nget_nset_same : forall A (m : Server.nmap A) k v, Server.nget (Server.nset m k v) k = Some v.
Proof.
  intros A m k v. induction m as [|[k' v'] m IH]; cbn.
  - rewrite N.eqb_refl. reflexivity.
  - destruct (k =? k') eqn:E; cbn; [rewrite N.eqb_refl; reflexivity|rewrite E; exact IH].
Qed.
Lemma nget_nset_other : forall A (m : Server.nmap A) k v k', k' <> k -> Server.nget (Server.nset m k v) k' = Server.nget m k'.
Proof.
  intros A m k v k' H. induction m as [|[k2 v2] m IH]; cbn.
  - apply N.eqb_neq in H. rewrite H. reflexivity.
  - destruct (k =? k2) eqn:E; cbn.
    + apply N.eqb_eq in E. subst. apply N.eqb_neq in H. rewrite H. reflexivity.
    + destruct (k' =? k2); [reflexivity|exact IH].
Qed.
Lemma tget_tset_same : forall s t x, tget (tset s t x) t = x.
Proof. intros. unfold tget, tset. rewrite nget_nset_same. reflexivity. Qed.
Lemma tget_tset_other : forall s t x u, u <> t -> tget (tset s t x) u = tget s u.
Proof. intros. unfold tget, tset. rewrite nget_nset_other by assumption. reflexivity. Qed.
Lemma tget_recount : forall s t, tget (recount s) t = set_count (tget s t) (len (t_live (tget s t))).
Proof.
  intros s t. unfold tget, recount. induction s as [|[k v] s IH]; cbn; [reflexivity|].
  destruct (t =? k); [reflexivity|exact IH].
Qed.

Lemma qstep_good : forall cfg s e, good cfg s -> good cfg (fst (qstep cfg s e)).
Proof.
  intros cfg s e G. destruct e as [t op|]; cbn [qstep].
  - pose proof (handle_good cfg t (tget s t) op (G t)) as H.
    destruct (handle cfg t (tget s t) op) as [ts' r]. cbn [fst] in *. intros u.
    destruct (N.eq_dec u t) as [E|E]; [subst; rewrite tget_tset_same; exact H|].
    rewrite tget_tset_other by exact E. apply G.
  - cbn [fst]. intros u. rewrite tget_recount. destruct (G u) as [Hc [Hn Hl]].
    unfold tgood, set_count. cbn [t_count t_live]. repeat split; [exact Hn|lia].
Qed.
Lemma good_init : forall cfg, good cfg [].
Proof. intros cfg t. apply tgood_t0. Qed.
Lemma qfinal_good : forall cfg es, good cfg (qfinal cfg es).
Proof.
  intros cfg es. unfold qfinal.
  assert (H : forall s, good cfg s -> good cfg (fold_left (fun s e => fst (qstep cfg s e)) es s)).
  { induction es as [|e es IH]; intros s G; [exact G|]. cbn [fold_left]. apply IH. apply qstep_good. exact G. }
  apply H. apply good_init.
Qed.

(* the state qrun_from ends in is the fold *)
Lemma qrun_from_fst : forall cfg es s, fst (qrun_from cfg s es) = fold_left (fun s e => fst (qstep cfg s e)) es s.
Proof.
  intros cfg es. induction es as [|e es IH]; intros s; [reflexivity|]. cbn [qrun_from fold_left].
  destruct (qstep cfg s e) as [s1 o] eqn:E1. specialize (IH s1).
  destruct (qrun_from cfg s1 es) as [s2 os]. cbn [fst] in *. exact IH.
Qed.

(* ---- what the invariant gives about refusals *)
Definition item_admissible (it : qitem) : bool :=
  negb (qi_id it <? 1) && negb (is_empty (qi_kind it) || is_nonfinite (qi_kind it)) && negb (U32_MAX <? qi_id it).

Lemma insert_refused_iff : forall cfg t ts it,
  tgood (q_limit cfg t) ts -> item_admissible it = true ->
  (snd (h_insert cfg t ts it) = QErrExhausted
   <-> (mem (qi_id it) (t_live ts) = false /\ len (t_live ts) = q_limit cfg t)).
Proof.
  intros cfg t ts it [Hc [Hn Hl]] Ha. unfold item_admissible in Ha.
  apply andb_true_iff in Ha. destruct Ha as [Ha H3]. apply andb_true_iff in Ha. destruct Ha as [H1 H2].
  apply negb_true_iff in H1, H2, H3. unfold h_insert. rewrite H1, H2, H3.
  unfold insert_core. pose proof (enforce_none cfg t ts (qi_id it)) as EN.
  destruct (enforce cfg t ts (qi_id it)) as [[already ts1]|] eqn:E.
  - assert (NE : ~ (mem (qi_id it) (t_live ts) = false /\ q_limit cfg t <= t_count ts)).
    { intro X. apply EN in X. discriminate. }
    split.
    + destruct (engine_ok cfg (qi_kind it)); cbn; discriminate.
    + intros [A B]. exfalso. apply NE. split; [exact A|lia].
  - destruct EN as [EN _]. specialize (EN eq_refl). destruct EN as [A B]. cbn. split; [|reflexivity].
    intros _. split; [exact A|lia].
Qed.

(* ================================================================== Part C: interleavings *)
Lemma mem_add : forall l x y, mem y (add l x) = mem y l || (y =? x).
Proof.
  intros l x y. apply Bool.eq_iff_eq_true. rewrite mem_In, In_add, orb_true_iff, mem_In, N.eqb_eq. reflexivity.
Qed.
Lemma filter_none : forall (f : N -> bool) l, (forall x, In x l -> f x = false) -> List.filter f l = [].
Proof.
  intros f l. induction l as [|a l IH]; intros H; [reflexivity|]. cbn [List.filter].
  rewrite (H a (or_introl eq_refl)). apply IH. intros x Hx. apply H. right. exact Hx.
Qed.
Lemma keep_in_add_new : forall new live id, NoDup new -> In id new -> mem id live = false ->
  len (keep_in (add live id) new) = len (keep_in live new) + 1.
Proof.
  intros new live id Hn. induction Hn as [|x xs Hx Hn IH]; intros Hin Hm; [destruct Hin|].
  unfold keep_in in *. cbn [List.filter]. rewrite mem_add.
  destruct (N.eq_dec x id) as [E|E].
  - subst x. rewrite Hm, N.eqb_refl. cbn [orb].
    assert (F : List.filter (fun y => mem y (add live id)) xs = List.filter (fun y => mem y live) xs).
    { apply filter_ext_in. intros y Hy. rewrite mem_add. destruct (y =? id) eqn:Ey.
      - apply N.eqb_eq in Ey. subst. contradiction.
      - rewrite orb_false_r. reflexivity. }
    rewrite F. rewrite len_cons. reflexivity.
  - assert (Ex : (x =? id) = false) by (apply N.eqb_neq; exact E). rewrite Ex, orb_false_r.
    destruct Hin as [Hin|Hin]; [contradiction|]. specialize (IH Hin Hm).
    destruct (mem x live); [rewrite !len_cons, IH; lia|exact IH].
Qed.

(* ---- per-thread bookkeeping *)
Definition in_cs (th : ithr) : bool := match i_pc th with ILock | IDone => false | _ => true end.
(* reservations a thread holds that are not (yet) matched by a live document *)
Definition debt (th : ithr) : N :=
  if i_ex th then 0
  else match i_pc th with
       | ICold => 1
       | IRelease => if i_failed th then 1 else 0
       | _ => 0
       end.
Definition know (live : list N) (th : ithr) : Prop :=
  match i_pc th with
  | ILock | IExists => i_failed th = false
  | IReserve | ICold => i_failed th = false /\ i_ex th = mem (i_id th) live
  | IToken => i_failed th = false /\ mem (i_id th) live = true
  | _ => True
  end.

Definition gin_cs (th : thr) : bool :=
  match th with
  | TI x | TBI x _ => in_cs x
  | TL x => match l_pc x with LLock | LDone => false | _ => true end
  | TD x => match d_pc x with DLock | DDone => false | _ => true end
  | TB x => match b_pc x with BLock | BDone => false | _ => true end
  end.
(* how far the counter is ahead of the live set because of this thread's unfinished critical section *)
Definition gdebt (live : list N) (th : thr) : N :=
  match th with
  | TI x | TBI x _ => debt x
  | TL x => match l_pc x with
            | LLoad | LRecount => l_reserved x - len (keep_in live (l_new x))
            | LRelease => l_reserved x - l_now x
            | _ => 0
            end
  | TD x => match d_pc x with DDecr => 1 | _ => 0 end
  | TB x => match b_pc x with BDecr => b_n x | _ => 0 end
  end.
Definition todo_ok (live new : list N) (todo : list (N * bool)) : Prop :=
  forall id ok, In (id, ok) todo -> In id live \/ In id new.
Definition gknow (live : list N) (th : thr) : Prop :=
  match th with
  | TI x | TBI x _ => know live x
  | TL x => match l_pc x with
            | LLock | LNew => l_todo x = l_items x
            | LReserve => NoDup (l_new x) /\ keep_in live (l_new x) = [] /\ todo_ok live (l_new x) (l_todo x)
            | LLoad => l_reserved x = len (l_new x) /\ NoDup (l_new x) /\ todo_ok live (l_new x) (l_todo x)
            | LRecount => l_reserved x = len (l_new x)
            | LRelease => l_reserved x = len (l_new x) /\ l_now x = len (keep_in live (l_new x))
            | _ => True
            end
  | TD x => d_mutex x = true
  | TB x => b_mutex x = true
            /\ match b_pc x with
               | BEngine => NoDup (b_ids x) /\ b_n x = len (keep_in live (b_ids x))
               | _ => True
               end
  end.

Lemma gdebt_outside : forall live th, gin_cs th = false -> gdebt live th = 0.
Proof.
  intros live th H. destruct th as [x|x r|x|x|x]; cbn in *.
  - unfold in_cs in H. unfold debt. destruct (i_ex x); [reflexivity|]. destruct (i_pc x); try discriminate; reflexivity.
  - unfold in_cs in H. unfold debt. destruct (i_ex x); [reflexivity|]. destruct (i_pc x); try discriminate; reflexivity.
  - destruct (l_pc x); try discriminate; reflexivity.
  - destruct (d_pc x); try discriminate; reflexivity.
  - destruct (b_pc x); try discriminate; reflexivity.
Qed.
Lemma gknow_outside : forall live live' th, gin_cs th = false -> gknow live th -> gknow live' th.
Proof.
  intros live live' th H K. destruct th as [x|x r|x|x|x]; cbn in *.
  - unfold in_cs in H. unfold know in *. destruct (i_pc x); try discriminate; exact K.
  - unfold in_cs in H. unfold know in *. destruct (i_pc x); try discriminate; exact K.
  - destruct (l_pc x); try discriminate; exact K.
  - exact K.
  - destruct (b_pc x); try discriminate; exact K.
Qed.

(* what one step of one thread does to the accounting, whatever the other thread contributes (`rest`) *)
Definition local_post (me : nat) (sh : shared) (cs : bool) (sh' : shared) (cs' : bool) : Prop :=
  (cs = false -> sh_live sh' = sh_live sh)
  /\ match cs, cs' with
     | false, false => sh_mutex sh' = sh_mutex sh
     | false, true => sh_mutex sh = None /\ sh_mutex sh' = Some me
     | true, true => sh_mutex sh' = sh_mutex sh
     | true, false => sh_mutex sh' = None
     end.

Ltac icrush :=
  unfold debt, know, in_cs in *;
  cbn [i_pc i_id i_ok i_ex i_failed i_refused sh_live sh_count sh_mutex ipc_set] in *.

Lemma istep_local : forall limit me sh a sh' a' rest,
  NoDup (sh_live sh) -> sh_count sh = len (sh_live sh) + debt a + rest -> know (sh_live sh) a ->
  istep limit me sh a = Some (sh', a') ->
  NoDup (sh_live sh') /\ sh_count sh' = len (sh_live sh') + debt a' + rest /\ know (sh_live sh') a'
  /\ local_post me sh (in_cs a) sh' (in_cs a').
Proof.
  intros limit me sh a sh' a' rest Hn Hc Ka St.
  destruct a as [pc id ok ex failed refused].
  unfold istep in St. cbn [i_pc i_id i_ok i_ex i_failed i_refused] in St. unfold local_post.
  destruct pc.
  - (* ILock *)
    destruct (sh_mutex sh) as [w|] eqn:Em; [discriminate|]. inversion St; subst sh' a'; clear St. icrush.
    repeat split; try assumption; try (intros X; discriminate); try (destruct ex; lia).
  - (* IExists *)
    inversion St; subst sh' a'; clear St. icrush.
    repeat split; try assumption; try (intros X; discriminate); try (destruct ex; destruct (mem id (sh_live sh)); lia).
  - (* IReserve *)
    icrush. destruct Ka as [Kf Ke].
    destruct ex.
    + inversion St; subst sh' a'; clear St. icrush. repeat split; try assumption; try (intros X; discriminate).
    + destruct (limit <=? sh_count sh).
      * inversion St; subst sh' a'; clear St. icrush. repeat split; try assumption; try (intros X; discriminate).
      * inversion St; subst sh' a'; clear St. icrush. repeat split; try assumption; try (intros X; discriminate); try lia.
  - (* ICold *)
    icrush. destruct Ka as [Kf Ke].
    destruct ok.
    + inversion St; subst sh' a'; clear St. icrush. repeat split.
      * apply NoDup_add. exact Hn.
      * rewrite len_add. rewrite <- Ke. destruct ex; lia.
      * exact Kf.
      * apply mem_add_same.
      * intros X; discriminate.
    + inversion St; subst sh' a'; clear St. icrush. repeat split; try assumption; try (intros X; discriminate); try (destruct ex; lia).
  - (* IToken *)
    icrush. destruct Ka as [Kf Km]. subst failed. rewrite Km in St. inversion St; subst sh' a'; clear St. icrush.
    repeat split; try assumption; try (intros X; discriminate); try (destruct ex; lia).
  - (* IRelease *)
    icrush.
    destruct failed, ex; cbn [andb negb] in St; inversion St; subst sh' a'; clear St; icrush;
      repeat split; try assumption; try lia; try (intros X; discriminate).
  - (* IUnlock *)
    inversion St; subst sh' a'; clear St. icrush.
    repeat split; try assumption; try (destruct ex; lia); try (intros X; discriminate).
  - discriminate.
Qed.

Ltac scbn :=
  cbn [sh_live sh_count sh_mutex gdebt gknow gin_cs d_pc d_id d_existed d_mutex b_pc b_ids b_n b_mutex
       l_pc l_items l_todo l_new l_reserved l_now l_refused].

Lemma dstep_local : forall me sh x sh' x' rest,
  NoDup (sh_live sh) -> sh_count sh = len (sh_live sh) + gdebt (sh_live sh) (TD x) + rest -> gknow (sh_live sh) (TD x) ->
  dstep me sh x = Some (sh', x') ->
  NoDup (sh_live sh') /\ sh_count sh' = len (sh_live sh') + gdebt (sh_live sh') (TD x') + rest /\ gknow (sh_live sh') (TD x')
  /\ local_post me sh (gin_cs (TD x)) sh' (gin_cs (TD x')).
Proof.
  intros me sh x sh' x' rest Hn Hc K St. destruct x as [pc id ex mx]. cbn in K. subst mx.
  unfold dstep in St. cbn [d_pc d_id d_existed d_mutex] in St. unfold local_post.
  destruct pc; cbn [gdebt gknow gin_cs d_pc d_mutex] in *.
  - destruct (sh_mutex sh) as [w|] eqn:Em; [discriminate|]. inversion St; subst sh' x'; clear St. scbn.
    repeat split; try assumption.
  - destruct (mem id (sh_live sh)); inversion St; subst sh' x'; clear St; scbn; repeat split; assumption.
  - destruct (mem id (sh_live sh)) eqn:Em; inversion St; subst sh' x'; clear St; scbn; repeat split; try assumption.
    + apply NoDup_filter. exact Hn.
    + pose proof (len_remove _ _ Hn Em). lia.
    + intros X; discriminate.
  - inversion St; subst sh' x'; clear St. scbn. repeat split; try assumption; try (intros X; discriminate); try lia.
  - inversion St; subst sh' x'; clear St. scbn. repeat split; try assumption; try (intros X; discriminate).
  - discriminate.
Qed.

Lemma bstep_local : forall me sh x sh' x' rest,
  NoDup (sh_live sh) -> sh_count sh = len (sh_live sh) + gdebt (sh_live sh) (TB x) + rest -> gknow (sh_live sh) (TB x) ->
  bstep me sh x = Some (sh', x') ->
  NoDup (sh_live sh') /\ sh_count sh' = len (sh_live sh') + gdebt (sh_live sh') (TB x') + rest /\ gknow (sh_live sh') (TB x')
  /\ local_post me sh (gin_cs (TB x)) sh' (gin_cs (TB x')).
Proof.
  intros me sh x sh' x' rest Hn Hc K St. destruct x as [pc ids n mx]. cbn [gknow b_mutex b_pc b_ids b_n] in K. destruct K as [Km K]. subst mx.
  unfold bstep in St. cbn [b_pc b_ids b_n b_mutex] in St. unfold local_post.
  destruct pc; cbn [gdebt gknow gin_cs b_pc b_mutex b_ids b_n] in *.
  - destruct (sh_mutex sh) as [w|] eqn:Em; [discriminate|]. inversion St; subst sh' x'; clear St. scbn.
    repeat split; try assumption.
  - inversion St; subst sh' x'; clear St. scbn. repeat split; assumption.
  - cbv zeta in St. destruct (len (keep_in (sh_live sh) (dedup ids)) =? 0); inversion St; subst sh' x'; clear St; scbn;
      repeat split; try assumption. apply NoDup_dedup.
  - destruct K as [Ku Kn]. inversion St; subst sh' x'; clear St. scbn. repeat split; try assumption.
    + apply NoDup_filter. exact Hn.
    + pose proof (len_remove_all _ _ Hn Ku). lia.
    + intros X; discriminate.
  - inversion St; subst sh' x'; clear St. scbn. repeat split; try assumption; try (intros X; discriminate); try lia.
  - inversion St; subst sh' x'; clear St. scbn. repeat split; try assumption; try (intros X; discriminate).
  - discriminate.
Qed.

Lemma lstep_local : forall limit me sh x sh' x' rest,
  NoDup (sh_live sh) -> sh_count sh = len (sh_live sh) + gdebt (sh_live sh) (TL x) + rest -> gknow (sh_live sh) (TL x) ->
  lstep limit me sh x = Some (sh', x') ->
  NoDup (sh_live sh') /\ sh_count sh' = len (sh_live sh') + gdebt (sh_live sh') (TL x') + rest /\ gknow (sh_live sh') (TL x')
  /\ local_post me sh (gin_cs (TL x)) sh' (gin_cs (TL x')).
Proof.
  intros limit me sh x sh' x' rest Hn Hc K St. destruct x as [pc items todo new reserved now refused].
  unfold lstep in St. cbn [l_pc l_items l_todo l_new l_reserved l_now l_refused] in St. unfold local_post.
  destruct pc; cbn [gdebt gknow gin_cs l_pc l_items l_todo l_new l_reserved l_now] in *.
  - (* LLock *)
    destruct (sh_mutex sh) as [w|] eqn:Em; [discriminate|]. inversion St; subst sh' x'; clear St. scbn.
    repeat split; try assumption.
  - (* LNew *)
    inversion St; subst sh' x'; clear St. scbn. subst todo.
    split; [exact Hn|]. split; [exact Hc|]. split; [|split; [intros X; discriminate|reflexivity]].
    split; [apply NoDup_dedup|]. split.
    + apply filter_none. intros y Hy. rewrite In_dedup, filter_In in Hy. destruct Hy as [_ Hy].
      apply negb_true_iff in Hy. exact Hy.
    + intros id ok Hin. destruct (mem id (sh_live sh)) eqn:Em; [left; apply mem_In; exact Em|right].
      rewrite In_dedup, filter_In. split; [|rewrite Em; reflexivity].
      rewrite in_map_iff. exists (id, ok). split; [reflexivity|exact Hin].
  - (* LReserve *)
    destruct K as [Kn [Kk Kt]].
    destruct (negb (len new =? 0) && (limit <? sh_count sh + len new)); inversion St; subst sh' x'; clear St; scbn.
    + repeat split; try assumption.
    + rewrite Kk. scbn. rewrite len_nil. repeat split; try assumption; try lia.
  - (* LLoad *)
    destruct K as [Kr [Kn Kt]]. destruct todo as [|[id ok] restt].
    + inversion St; subst sh' x'; clear St. scbn. repeat split; try assumption.
    + inversion St; subst sh' x'; clear St. scbn.
      destruct ok.
      * destruct (mem id (sh_live sh)) eqn:Em.
        -- assert (Ea : add (sh_live sh) id = sh_live sh) by (unfold add; rewrite Em; reflexivity).
           rewrite Ea. repeat split; try assumption. intros i o Hi. apply Kt with o. right. exact Hi.
        -- assert (Hin : In id new).
           { destruct (Kt id true (or_introl eq_refl)) as [H|H]; [apply mem_In in H; congruence|exact H]. }
           pose proof (keep_in_add_new new (sh_live sh) id Kn Hin Em) as Hk.
           pose proof (len_keep_in_le (add (sh_live sh) id) new) as Hle.
           repeat split.
           ++ apply NoDup_add. exact Hn.
           ++ rewrite len_add, Em. lia.
           ++ exact Kr.
           ++ exact Kn.
           ++ intros i o Hi. destruct (Kt i o (or_intror Hi)) as [H|H]; [left; apply In_add; left; exact H|right; exact H].
           ++ intros X; discriminate.
      * repeat split; try assumption. intros i o Hi. apply Kt with o. right. exact Hi.
  - (* LRecount *)
    inversion St; subst sh' x'; clear St. scbn. repeat split; assumption.
  - (* LRelease *)
    destruct K as [Kr Kw]. inversion St; subst sh' x'; clear St. scbn.
    repeat split; try assumption; try (intros X; discriminate); try lia.
  - (* LUnlock *)
    inversion St; subst sh' x'; clear St. scbn. repeat split; try assumption; try (intros X; discriminate).
  - discriminate.
Qed.

Lemma tstep_local : forall limit me sh th sh' th' rest,
  NoDup (sh_live sh) -> sh_count sh = len (sh_live sh) + gdebt (sh_live sh) th + rest -> gknow (sh_live sh) th ->
  tstep limit me sh th = Some (sh', th') ->
  NoDup (sh_live sh') /\ sh_count sh' = len (sh_live sh') + gdebt (sh_live sh') th' + rest /\ gknow (sh_live sh') th'
  /\ local_post me sh (gin_cs th) sh' (gin_cs th').
Proof.
  intros limit me sh th sh' th' rest Hn Hc K St. destruct th as [x|cur r|x|x|x]; cbn [tstep] in St.
  - destruct (istep limit me sh x) as [[sh1 x1]|] eqn:E; [|discriminate]. inversion St; subst sh' th'; clear St.
    cbn [gdebt gknow gin_cs] in *. eapply istep_local; eassumption.
  - cbn [gdebt gknow gin_cs] in *.
    destruct (i_pc cur) eqn:Ep;
      try (destruct (istep limit me sh cur) as [[sh1 x1]|] eqn:E; [|discriminate]; inversion St; subst sh' th'; clear St;
           cbn [gdebt gknow gin_cs]; eapply istep_local; eassumption).
    destruct r as [|[id ok] r]; [discriminate|]. inversion St; subst sh' th'; clear St.
    cbn [gdebt gknow gin_cs]. unfold local_post, debt, know, in_cs in *. rewrite Ep in *. cbn.
    repeat split; try assumption. destruct (i_ex cur); lia.
  - destruct (lstep limit me sh x) as [[sh1 x1]|] eqn:E; [|discriminate]. inversion St; subst sh' th'; clear St.
    eapply lstep_local; eassumption.
  - destruct (dstep me sh x) as [[sh1 x1]|] eqn:E; [|discriminate]. inversion St; subst sh' th'; clear St.
    eapply dstep_local; eassumption.
  - destruct (bstep me sh x) as [[sh1 x1]|] eqn:E; [|discriminate]. inversion St; subst sh' th'; clear St.
    eapply bstep_local; eassumption.
Qed.

(* the counter never passes the limit *)
Lemma tstep_le : forall limit me sh th sh' th',
  sh_count sh <= limit -> tstep limit me sh th = Some (sh', th') -> sh_count sh' <= limit.
Proof.
  assert (I : forall limit me sh a sh' a', sh_count sh <= limit -> istep limit me sh a = Some (sh', a') -> sh_count sh' <= limit).
  { intros limit me sh a sh' a' H St. unfold istep in St.
    destruct (i_pc a).
    - destruct (sh_mutex sh); [discriminate|]. inversion St; subst; exact H.
    - inversion St; subst; exact H.
    - destruct (i_ex a); [inversion St; subst; exact H|].
      destruct (limit <=? sh_count sh) eqn:E; inversion St; subst; cbn; [exact H|]. apply N.leb_gt in E. lia.
    - destruct (i_ok a); inversion St; subst; cbn; exact H.
    - destruct (mem (i_id a) (sh_live sh)); inversion St; subst; exact H.
    - destruct (i_failed a && negb (i_ex a)); inversion St; subst; cbn; lia.
    - inversion St; subst; cbn; exact H.
    - discriminate. }
  intros limit me sh th sh' th' H St. destruct th as [x|cur r|x|x|x]; cbn [tstep] in St.
  - destruct (istep limit me sh x) as [[sh1 x1]|] eqn:E; [|discriminate]. inversion St; subst. eapply I; eassumption.
  - destruct (i_pc cur);
      try (destruct (istep limit me sh cur) as [[sh1 x1]|] eqn:E; [|discriminate]; inversion St; subst; eapply I; eassumption).
    destruct r as [|[id ok] r]; [discriminate|]. inversion St; subst. exact H.
  - destruct (lstep limit me sh x) as [[sh1 x1]|] eqn:E; [|discriminate]. inversion St; subst sh' th'; clear St.
    unfold lstep in E. destruct (l_pc x).
    + destruct (sh_mutex sh); [discriminate|]. inversion E; subst; exact H.
    + inversion E; subst; exact H.
    + destruct (negb (len (l_new x) =? 0) && (limit <? sh_count sh + len (l_new x))) eqn:G; inversion E; subst; cbn; [exact H|].
      apply andb_false_iff in G. destruct G as [G|G].
      * apply negb_false_iff in G. apply N.eqb_eq in G. lia.
      * apply N.ltb_ge in G. exact G.
    + destruct (l_todo x) as [|[id ok] rt]; inversion E; subst; cbn; exact H.
    + inversion E; subst; exact H.
    + inversion E; subst; cbn; lia.
    + inversion E; subst; cbn; exact H.
    + discriminate.
  - destruct (dstep me sh x) as [[sh1 x1]|] eqn:E; [|discriminate]. inversion St; subst sh' th'; clear St.
    unfold dstep in E. destruct (d_pc x).
    + destruct (d_mutex x); [destruct (sh_mutex sh); [discriminate|]|]; inversion E; subst; exact H.
    + destruct (mem (d_id x) (sh_live sh)); inversion E; subst; exact H.
    + destruct (mem (d_id x) (sh_live sh)); inversion E; subst; cbn; exact H.
    + inversion E; subst; cbn; lia.
    + destruct (d_mutex x); inversion E; subst; cbn; exact H.
    + discriminate.
  - destruct (bstep me sh x) as [[sh1 x1]|] eqn:E; [|discriminate]. inversion St; subst sh' th'; clear St.
    unfold bstep in E. destruct (b_pc x).
    + destruct (b_mutex x); [destruct (sh_mutex sh); [discriminate|]|]; inversion E; subst; exact H.
    + inversion E; subst; exact H.
    + cbv zeta in E. destruct (len (keep_in (sh_live sh) (dedup (b_ids x))) =? 0); inversion E; subst; exact H.
    + inversion E; subst; cbn; exact H.
    + inversion E; subst; cbn; lia.
    + destruct (b_mutex x); inversion E; subst; cbn; exact H.
    + discriminate.
Qed.

(* a call that has just arrived: Insert, BulkInsert, BulkLoadHnsw, Delete, BatchDelete (current protocol) *)
Definition fresh (th : thr) : Prop :=
  (exists id ok, th = TI (istart id ok)) \/ (exists id ok rest, th = TBI (istart id ok) rest)
  \/ (exists items, th = TL (lstart items)) \/ (exists id, th = TD (dstart id)) \/ (exists ids, th = TB (bstart ids)).
Lemma fresh_facts : forall live th, fresh th -> gin_cs th = false /\ gknow live th.
Proof.
  intros live th [[id [ok E]]|[[id [ok [rest E]]]|[[items E]|[[id E]|[ids E]]]]]; subst; cbn; auto.
Qed.
Lemma tdone_outside : forall th, tdone th = true -> gin_cs th = false.
Proof.
  intros th H. destruct th as [x|x r|x|x|x]; cbn in *.
  - unfold in_cs. destruct (i_pc x); try discriminate; reflexivity.
  - unfold in_cs. destruct (i_pc x); try discriminate; reflexivity.
  - destruct (l_pc x); try discriminate; reflexivity.
  - destruct (d_pc x); try discriminate; reflexivity.
  - destruct (b_pc x); try discriminate; reflexivity.
Qed.

(* ---- ANY number of concurrent calls: lists of threads *)
Lemma nth_set_same : forall A (l : list A) i old x, nth_error l i = Some old -> nth_error (set_nth l i x) i = Some x.
Proof.
  intros A l. induction l as [|a l IH]; intros i old x H; destruct i; cbn in *; try discriminate; [reflexivity|].
  eapply IH. exact H.
Qed.
Lemma nth_set_other : forall A (l : list A) i j x, j <> i -> nth_error (set_nth l i x) j = nth_error l j.
Proof.
  intros A l. induction l as [|a l IH]; intros i j x H; destruct i, j; cbn; try reflexivity; try congruence.
  apply IH. congruence.
Qed.
(* transient reservations held by all calls *)
Definition dsum (live : list N) (ths : list thr) : N := fold_right (fun th acc => gdebt live th + acc) 0 ths.
Lemma dsum_decomp : forall live ths i th, nth_error ths i = Some th ->
  exists R, dsum live ths = gdebt live th + R /\ forall x, dsum live (set_nth ths i x) = gdebt live x + R.
Proof.
  intros live ths. induction ths as [|a l IH]; intros i th H; destruct i; cbn in H; try discriminate.
  - inversion H; subst. exists (dsum live l). split; [reflexivity|]. intros x. reflexivity.
  - destruct (IH i th H) as [R [E1 E2]]. exists (gdebt live a + R). cbn [dsum fold_right set_nth] in *. split.
    + fold (dsum live l). rewrite E1. lia.
    + intros x. fold (dsum live (set_nth l i x)). rewrite E2. lia.
Qed.
Lemma dsum_all_outside : forall live ths, (forall x, In x ths -> gin_cs x = false) -> dsum live ths = 0.
Proof.
  intros live ths. induction ths as [|a l IH]; intros H; [reflexivity|]. cbn [dsum fold_right]. fold (dsum live l).
  rewrite (gdebt_outside live a (H a (or_introl eq_refl))). rewrite IH; [reflexivity|]. intros x Hx. apply H. right. exact Hx.
Qed.
Lemma dsum_only : forall live ths i th, nth_error ths i = Some th ->
  (forall j x, j <> i -> nth_error ths j = Some x -> gin_cs x = false) -> dsum live ths = gdebt live th.
Proof.
  intros live ths. induction ths as [|a l IH]; intros i th H O; destruct i; cbn in H; try discriminate.
  - inversion H; subst. cbn [dsum fold_right]. fold (dsum live l).
    rewrite (dsum_all_outside live l); [lia|].
    intros x Hx. destruct (In_nth_error l x Hx) as [n Hn]. apply (O (S n) x); [discriminate|exact Hn].
  - cbn [dsum fold_right]. fold (dsum live l).
    assert (Oa : gin_cs a = false) by (apply (O 0%nat a); [discriminate|reflexivity]).
    rewrite (gdebt_outside live a Oa).
    rewrite (IH i th H); [lia|]. intros j x Hj Hx. apply (O (S j) x); [congruence|exact Hx].
Qed.

(* THE transient invariant: the counter is ahead of the live set by exactly the reservations /
   not-yet-applied decrements of the calls currently inside their critical sections; a call is inside
   its critical section iff it holds the mutex (so at most one is); each call's local knowledge holds *)
Definition minv (sh : shared) (ths : list thr) : Prop :=
  NoDup (sh_live sh)
  /\ sh_count sh = len (sh_live sh) + dsum (sh_live sh) ths
  /\ (forall j x, nth_error ths j = Some x ->
        gknow (sh_live sh) x /\ (gin_cs x = true <-> sh_mutex sh = Some j))
  /\ (forall w, sh_mutex sh = Some w -> exists x, nth_error ths w = Some x).

Lemma minv_step : forall limit sh ths i th sh' th',
  minv sh ths -> nth_error ths i = Some th -> tstep limit i sh th = Some (sh', th') ->
  minv sh' (set_nth ths i th').
Proof.
  intros limit sh ths i th sh' th' [Hn [Hc [Hall Hh]]] Hi St.
  destruct (dsum_decomp (sh_live sh) ths i th Hi) as [R [E1 E2]].
  destruct (Hall i th Hi) as [Ka Ma].
  assert (Hc0 : sh_count sh = len (sh_live sh) + gdebt (sh_live sh) th + R) by lia.
  destruct (tstep_local limit i sh th sh' th' R Hn Hc0 Ka St) as [Hn' [Hc' [Ka' [Hl Hx]]]].
  pose proof (nth_set_same _ ths i th th' Hi) as Hi'.
  assert (Hh' : forall w, sh_mutex sh' = Some w -> exists x, nth_error (set_nth ths i th') w = Some x).
  { intros w Hw. destruct (Nat.eq_dec w i) as [E|E]; [subst w; exists th'; exact Hi'|].
    rewrite nth_set_other by exact E. apply Hh.
    destruct (gin_cs th), (gin_cs th'); try (rewrite Hx in Hw; first [exact Hw|discriminate]).
    destruct Hx as [_ Y]. rewrite Y in Hw. congruence. }
  destruct (gin_cs th) eqn:Ia.
  - (* inside the critical section: this call holds the mutex, every other call is outside *)
    assert (Em : sh_mutex sh = Some i) by (apply Ma; reflexivity).
    assert (Out : forall j x, j <> i -> nth_error ths j = Some x -> gin_cs x = false).
    { intros j x Hj Hjx. destruct (gin_cs x) eqn:Ix; [|reflexivity].
      destruct (Hall j x Hjx) as [_ Mx]. apply Mx in Ix. congruence. }
    assert (Out' : forall j x, j <> i -> nth_error (set_nth ths i th') j = Some x -> gin_cs x = false).
    { intros j x Hj Hjx. rewrite nth_set_other in Hjx by exact Hj. eapply Out; eassumption. }
    pose proof (dsum_only (sh_live sh) ths i th Hi Out) as D0.
    pose proof (dsum_only (sh_live sh') _ i th' Hi' Out') as D1.
    split; [exact Hn'|]. split; [lia|]. split; [|exact Hh'].
    intros j x Hjx. destruct (Nat.eq_dec j i) as [E|E].
    + subst j. rewrite Hi' in Hjx. inversion Hjx; subst x. split; [exact Ka'|].
      destruct (gin_cs th') eqn:Ia'; rewrite Hx.
      * rewrite Em. tauto.
      * split; discriminate.
    + rewrite nth_set_other in Hjx by exact E. pose proof (Out j x E Hjx) as Ox.
      destruct (Hall j x Hjx) as [Kx _]. split; [eapply gknow_outside; eassumption|].
      rewrite Ox. split; [discriminate|]. intros Y. exfalso.
      destruct (gin_cs th'); rewrite Hx in Y; [rewrite Em in Y; congruence|discriminate].
  - (* outside: the live set is untouched *)
    specialize (Hl eq_refl).
    assert (Nm : sh_mutex sh <> Some i) by (intro Y; apply Ma in Y; discriminate).
    split; [exact Hn'|]. split; [rewrite Hl in *; rewrite E2; lia|]. split; [|exact Hh'].
    intros j x Hjx. destruct (Nat.eq_dec j i) as [E|E].
    + subst j. rewrite Hi' in Hjx. inversion Hjx; subst x. split; [exact Ka'|].
      destruct (gin_cs th') eqn:Ia'.
      * destruct Hx as [_ Y]. rewrite Y. tauto.
      * rewrite Hx. split; [discriminate|]. intros Y. contradiction.
    + rewrite nth_set_other in Hjx by exact E. destruct (Hall j x Hjx) as [Kx Mx].
      rewrite Hl. split; [exact Kx|].
      destruct (gin_cs th') eqn:Ia'.
      * destruct Hx as [Y0 Y1]. rewrite Y1. rewrite Y0 in Mx. split.
        -- intros Z. apply Mx in Z. discriminate.
        -- intros Z. congruence.
      * rewrite Hx. exact Mx.
Qed.

Definition many_inv (limit : N) (c : mconf) : Prop := minv (m_sh c) (m_ths c) /\ sh_count (m_sh c) <= limit.
Lemma mstep_inv : forall limit c i, many_inv limit c -> many_inv limit (mstep limit c i).
Proof.
  intros limit c i [I Hl]. unfold mstep.
  destruct (nth_error (m_ths c) i) as [th|] eqn:Hi; [|split; assumption].
  destruct (tstep limit i (m_sh c) th) as [[sh' th']|] eqn:St; [|split; assumption].
  split; cbn; [eapply minv_step; eassumption|eapply tstep_le; eassumption].
Qed.
Lemma mrun_inv : forall limit sched c, many_inv limit c -> many_inv limit (mrun limit sched c).
Proof.
  intros limit sched. induction sched as [|w sched IH]; intros c H; [exact H|].
  cbn [mrun fold_left]. apply IH. apply mstep_inv. exact H.
Qed.
(* a call that is not inside a critical section and needs no knowledge: just arrived, or returned *)
Definition calm (x : thr) : Prop := gin_cs x = false /\ forall live, gknow live x.
Lemma fresh_calm : forall x, fresh x -> calm x.
Proof. intros x F. split; [apply (fresh_facts [] x F)|intros live; apply (fresh_facts live x F)]. Qed.
Lemma minv_start : forall count live ths,
  NoDup live -> count = len live -> (forall x, In x ths -> calm x) ->
  minv (mkSh None count live) ths.
Proof.
  intros count live ths Hn Hc Hf. unfold minv. cbn [sh_live sh_count sh_mutex].
  split; [exact Hn|]. split; [|split; [|intros w Hw; discriminate]].
  - rewrite dsum_all_outside; [lia|]. intros x Hx. apply (Hf x Hx).
  - intros j x Hjx. apply nth_error_In in Hjx. destruct (Hf x Hjx) as [A B].
    split; [apply B|]. rewrite A. split; discriminate.
Qed.
Lemma many_inv_start : forall limit count live ths,
  NoDup live -> count = len live -> count <= limit -> Forall fresh ths ->
  many_inv limit (mstart count live ths).
Proof.
  intros limit count live ths Hn Hc Hl Hf. rewrite Forall_forall in Hf.
  split; [|exact Hl]. apply minv_start; try assumption. intros x Hx. apply fresh_calm. apply Hf. exact Hx.
Qed.

(* what the invariant says when the mutex is free / when every call is outside *)
Lemma minv_free : forall sh ths, minv sh ths ->
  (sh_mutex sh = None -> sh_count sh = len (sh_live sh))
  /\ ((forall x, In x ths -> gin_cs x = false) -> sh_count sh = len (sh_live sh) /\ sh_mutex sh = None).
Proof.
  intros sh ths [Hn [Hc [Hall Hh]]].
  assert (Free : (forall x, In x ths -> gin_cs x = false) -> sh_count sh = len (sh_live sh)).
  { intros H. rewrite (dsum_all_outside _ _ H) in Hc. lia. }
  split.
  - intros Em. apply Free. intros x Hx. destruct (In_nth_error _ _ Hx) as [j Hj].
    destruct (Hall j x Hj) as [_ M]. destruct (gin_cs x); [|reflexivity]. rewrite Em in M. destruct M as [M _].
    specialize (M eq_refl). discriminate.
  - intros O. split; [apply Free; exact O|].
    destruct (sh_mutex sh) as [w|] eqn:Em; [|reflexivity]. exfalso.
    destruct (Hh w eq_refl) as [x Hx]. destruct (Hall w x Hx) as [_ M].
    rewrite (O x (nth_error_In _ _ Hx)) in M. destruct M as [_ M]. specialize (M eq_refl). discriminate.
Qed.

(* ANY number of concurrent calls out of {Insert, BulkInsert, BulkLoadHnsw, Delete, BatchDelete} of one
   tenant, any ids, EVERY schedule *)
Theorem many_calls : forall limit count live ths sched,
  NoDup live -> count = len live -> count <= limit -> Forall fresh ths ->
  let c := mrun limit sched (mstart count live ths) in
  (* at every instant *)
  (sh_count (m_sh c) = len (sh_live (m_sh c)) + dsum (sh_live (m_sh c)) (m_ths c)
   /\ len (sh_live (m_sh c)) <= sh_count (m_sh c) /\ sh_count (m_sh c) <= limit /\ NoDup (sh_live (m_sh c))
   /\ (forall j x, nth_error (m_ths c) j = Some x -> (gin_cs x = true <-> sh_mutex (m_sh c) = Some j))
   /\ (sh_mutex (m_sh c) = None -> sh_count (m_sh c) = len (sh_live (m_sh c))))
  (* and when every call has returned *)
  /\ (mquiescent c = true -> sh_count (m_sh c) = len (sh_live (m_sh c)) /\ sh_mutex (m_sh c) = None).
Proof.
  intros limit count live ths sched Hn Hc Hl Hf c.
  pose proof (mrun_inv limit sched _ (many_inv_start limit count live ths Hn Hc Hl Hf)) as P.
  fold c in P. destruct P as [[Ind [Ic [Iall Ih]]] Il].
  assert (Free : (forall x, In x (m_ths c) -> gin_cs x = false) -> sh_count (m_sh c) = len (sh_live (m_sh c))).
  { intros H. rewrite (dsum_all_outside _ _ H) in Ic. lia. }
  split.
  - split; [exact Ic|]. split; [lia|]. split; [exact Il|]. split; [exact Ind|]. split.
    + intros j x Hjx. apply (Iall j x Hjx).
    + intros Em. apply Free. intros x Hx. destruct (In_nth_error _ _ Hx) as [j Hj].
      destruct (Iall j x Hj) as [_ M]. destruct (gin_cs x); [|reflexivity]. rewrite Em in M. destruct M as [M _].
      specialize (M eq_refl). discriminate.
  - intros Q. unfold mquiescent in Q. rewrite forallb_forall in Q.
    assert (O : forall x, In x (m_ths c) -> gin_cs x = false) by (intros x Hx; apply tdone_outside; apply Q; exact Hx).
    split; [apply Free; exact O|].
    destruct (sh_mutex (m_sh c)) as [w|] eqn:Em; [|reflexivity]. exfalso.
    destruct (nth_error (m_ths c) w) as [x|] eqn:Hw.
    + destruct (Iall w x Hw) as [_ M]. rewrite (O x (nth_error_In _ _ Hw)) in M. destruct M as [_ M].
      specialize (M eq_refl). discriminate.
    + (* the holder is always one of the calls *)
      destruct (Ih w eq_refl) as [x Hx]. congruence.
Qed.
(* ---- two calls = the list [a; b] *)
Definition to_m (c : conf) : mconf := mkM (c_sh c) [c_a c; c_b c].
Lemma cstep_sim : forall limit c who, to_m (cstep limit c who) = mstep limit (to_m c) (if who then 1 else 0)%nat.
Proof.
  intros limit c who. unfold cstep, mstep, to_m. destruct who; cbn [nth_error m_ths m_sh].
  - destruct (tstep limit 1%nat (c_sh c) (c_b c)) as [[sh b']|]; reflexivity.
  - destruct (tstep limit 0%nat (c_sh c) (c_a c)) as [[sh a']|]; reflexivity.
Qed.
Lemma crun_sim : forall limit sched c,
  to_m (crun limit sched c) = mrun limit (map (fun w : bool => if w then 1 else 0)%nat sched) (to_m c).
Proof.
  intros limit sched. induction sched as [|w sched IH]; intros c; [reflexivity|].
  cbn [crun mrun fold_left map]. fold (crun limit sched (cstep limit c w)). rewrite IH. rewrite cstep_sim. reflexivity.
Qed.
Theorem pairs_all : forall limit count live a b sched,
  NoDup live -> count = len live -> count <= limit -> fresh a -> fresh b ->
  let c := crun limit sched (cstart count live a b) in
  (final_live c <= final_count c /\ final_count c <= limit /\ NoDup (sh_live (c_sh c)))
  /\ (quiescent c = true -> final_count c = final_live c /\ sh_mutex (c_sh c) = None).
Proof.
  intros limit count live a b sched Hn Hc Hl Fa Fb c.
  pose proof (many_calls limit count live [a; b] (map (fun w : bool => if w then 1 else 0)%nat sched) Hn Hc Hl
                (Forall_cons _ Fa (Forall_cons _ Fb (Forall_nil _)))) as M.
  cbv zeta in M. change (mstart count live [a; b]) with (to_m (cstart count live a b)) in M.
  rewrite <- crun_sim in M. fold c in M. unfold to_m in M. cbn [m_sh m_ths] in M.
  destruct M as [[_ [A [B [C _]]]] Q]. unfold final_live, final_count. split; [repeat split; assumption|].
  intros Qc. apply Q. unfold mquiescent. cbn [forallb m_ths]. unfold quiescent in Qc. rewrite andb_true_r. exact Qc.
Qed.

(* ---- several tenants.  A call of tenant u is invisible to tenant t <> u: in t's view it is an idle,
   returned call *)
Definition idle : thr := TD (mkD DDone 0 false true).
Definition view (t : N) (p : N * thr) : thr := if fst p =? t then snd p else idle.
Lemma idle_calm : calm idle. Proof. split; [reflexivity|intros live; reflexivity]. Qed.
Lemma map_set_nth : forall A B (f : A -> B) l i y, map f (set_nth l i y) = set_nth (map f l) i (f y).
Proof. intros A B f l. induction l as [|a l IH]; intros i y; destruct i; cbn; try reflexivity. rewrite IH. reflexivity. Qed.
Lemma set_nth_same : forall A (l : list A) i x, nth_error l i = Some x -> set_nth l i x = l.
Proof. intros A l. induction l as [|a l IH]; intros i x H; destruct i; cbn in *; try discriminate; [inversion H; reflexivity|]. rewrite IH by exact H. reflexivity. Qed.

Definition winv (limit : N -> N) (c : wconf) : Prop :=
  forall t, minv (w_sh c t) (map (view t) (w_ths c)) /\ sh_count (w_sh c t) <= limit t.

(* separation: a step of a call of tenant u does not touch any other tenant's counter, documents or mutex *)
Lemma wstep_other_tenant : forall limit c i u th t,
  nth_error (w_ths c) i = Some (u, th) -> t <> u -> w_sh (wstep limit c i) t = w_sh c t.
Proof.
  intros limit c i u th t Hi Ht. unfold wstep. rewrite Hi.
  destruct (tstep (limit u) i (w_sh c u) th) as [[sh th']|]; [|reflexivity].
  cbn. unfold wset. apply N.eqb_neq in Ht. rewrite Ht. reflexivity.
Qed.

Lemma wstep_inv : forall limit c i, winv limit c -> winv limit (wstep limit c i).
Proof.
  intros limit c i W. unfold wstep.
  destruct (nth_error (w_ths c) i) as [[u th]|] eqn:Hi; [|exact W].
  destruct (tstep (limit u) i (w_sh c u) th) as [[sh' th']|] eqn:St; [|exact W].
  intros t. cbn [w_sh w_ths]. rewrite map_set_nth. unfold wset.
  destruct (N.eq_dec t u) as [E|E].
  - subst t. rewrite N.eqb_refl. destruct (W u) as [I Hl].
    assert (Hv : nth_error (map (view u) (w_ths c)) i = Some th).
    { rewrite (map_nth_error (view u) i (w_ths c) Hi). unfold view. cbn. rewrite N.eqb_refl. reflexivity. }
    assert (Ev : view u (u, th') = th') by (unfold view; cbn; rewrite N.eqb_refl; reflexivity).
    rewrite Ev. split; [eapply minv_step; eassumption|eapply tstep_le; eassumption].
  - assert (Ne : (t =? u) = false) by (apply N.eqb_neq; exact E). rewrite Ne.
    assert (Ev : view t (u, th') = idle).
    { unfold view. cbn. rewrite N.eqb_sym, Ne. reflexivity. }
    assert (Hv : nth_error (map (view t) (w_ths c)) i = Some idle).
    { rewrite (map_nth_error (view t) i (w_ths c) Hi). unfold view. cbn. rewrite N.eqb_sym, Ne. reflexivity. }
    rewrite Ev. rewrite (set_nth_same _ _ _ _ Hv). apply W.
Qed.
Lemma wrun_inv : forall limit sched c, winv limit c -> winv limit (wrun limit sched c).
Proof.
  intros limit sched. induction sched as [|w sched IH]; intros c H; [exact H|].
  cbn [wrun fold_left]. apply IH. apply wstep_inv. exact H.
Qed.

(* ANY number of concurrent calls of ANY number of tenants, every schedule: every tenant's counter is
   ahead of its live set by exactly its own calls' reservations; exact whenever its mutex is free, and
   when all calls have returned *)
Theorem many_tenants : forall (limit : N -> N) (w0 : N -> shared) (ths : list (N * thr)) (sched : list nat),
  (forall t, NoDup (sh_live (w0 t)) /\ sh_count (w0 t) = len (sh_live (w0 t)) /\ sh_count (w0 t) <= limit t
             /\ sh_mutex (w0 t) = None) ->
  Forall (fun p => fresh (snd p)) ths ->
  let c := wrun limit sched (mkW w0 ths) in
  forall t,
    (sh_count (w_sh c t) = len (sh_live (w_sh c t)) + dsum (sh_live (w_sh c t)) (map (view t) (w_ths c))
     /\ len (sh_live (w_sh c t)) <= sh_count (w_sh c t) /\ sh_count (w_sh c t) <= limit t
     /\ NoDup (sh_live (w_sh c t))
     /\ (sh_mutex (w_sh c t) = None -> sh_count (w_sh c t) = len (sh_live (w_sh c t))))
    /\ (wquiescent c = true -> sh_count (w_sh c t) = len (sh_live (w_sh c t)) /\ sh_mutex (w_sh c t) = None).
Proof.
  intros limit w0 ths sched H0 Hf c t.
  assert (W0 : winv limit (mkW w0 ths)).
  { intros u. cbn [w_sh w_ths]. destruct (H0 u) as [A [B [C D]]]. split; [|exact C].
    destruct (w0 u) as [m cnt lv]. cbn in *. subst m. apply minv_start; try assumption.
    intros x Hx. apply in_map_iff in Hx. destruct Hx as [[v th] [E Hin]]. subst x. unfold view. cbn.
    destruct (v =? u); [|apply idle_calm]. apply fresh_calm. rewrite Forall_forall in Hf. apply (Hf (v, th) Hin). }
  pose proof (wrun_inv limit sched _ W0 t) as [I Il]. fold c in I, Il.
  destruct (minv_free _ _ I) as [F1 F2]. destruct I as [Hn [Hc _]].
  split.
  - split; [exact Hc|]. split; [lia|]. split; [exact Il|]. split; [exact Hn|exact F1].
  - intros Q. apply F2. intros x Hx. apply in_map_iff in Hx. destruct Hx as [[v th] [E Hin]]. subst x.
    unfold view. cbn. destruct (v =? t); [|reflexivity]. apply tdone_outside.
    unfold wquiescent in Q. rewrite forallb_forall in Q. apply (Q (v, th) Hin).
Qed.

(* every such pair does terminate under a fair schedule: a first, then b *)
Lemma pairs_nonvacuous :
  let c := crun 2 (repeat false 8 ++ repeat true 8) (cstart 1 [7] (TI (istart 1 true)) (TI (istart 2 true))) in
  quiescent c = true /\ final_count c = 2 /\ final_live c = 2
  /\ match c_b c with TI x => i_refused x | _ => false end = true.
Proof. vm_compute. auto. Qed.
(* the schedule that made the old protocol drift now blocks the delete until the overwrite has unlocked *)
Lemma pairs_nonvacuous_delete :
  let c := crun 2 ([false; false; true; true; true] ++ repeat false 6 ++ repeat true 6)
                (cstart 2 [1; 2] (TI (istart 1 true)) (TD (dstart 1))) in
  quiescent c = true /\ final_count c = 1 /\ final_live c = 1.
Proof. vm_compute. auto. Qed.

(* ---- REGRESSION DOCUMENTATION: the protocol BEFORE /repo 3784711 (Delete / BatchDelete without the
   quota mutex: dstart_old / bstart_old).  Witness schedules from an exact state that end, both calls
   returned, with the count one short of the live documents.  limit 2 throughout *)
Definition drift_witness (limit count : N) (live : list N) (a b : thr) (sched : list bool) (c_end l_end : N) : Prop :=
  count = len live /\
  let c := crun limit sched (cstart count live a b) in
  quiescent c = true /\ final_count c = c_end /\ final_live c = l_end.

(* X = 1 live, overwrite sees "exists", delete removes and decrements, overwrite re-creates *)
Definition w_overwrite_delete := [false; false; true; true; true; true; true; false; false; false; false; false].
Lemma old_overwrite_delete_witness :
  drift_witness 2 2 [1; 2] (TI (istart 1 true)) (TD (dstart_old 1)) w_overwrite_delete 1 2.
Proof. vm_compute. auto. Qed.
Lemma old_bulk_insert_delete_witness :
  drift_witness 2 2 [1; 2] (TBI (istart 1 true) []) (TD (dstart_old 1)) w_overwrite_delete 1 2.
Proof. vm_compute. auto. Qed.
(* bulk load over a live id: nothing reserved, delete decrements, load re-creates *)
Definition w_load_over_delete := [false; false; false; true; true; true; true; true; false; false; false; false; false].
Lemma old_bulk_load_overwrite_delete_witness :
  drift_witness 2 2 [1; 2] (TL (lstart [(1, true)])) (TD (dstart_old 1)) w_load_over_delete 1 2.
Proof. vm_compute. auto. Qed.
(* bulk load of a NEW id: reserved, loaded, deleted (decrement), then "not inserted" => released too *)
Definition w_load_new_delete := [false; false; false; false; true; true; true; true; true; false; false; false; false].
Lemma old_bulk_load_new_delete_witness :
  drift_witness 2 1 [2] (TL (lstart [(1, true)])) (TD (dstart_old 1)) w_load_new_delete 0 1.
Proof. vm_compute. auto. Qed.
(* insert of a NEW id: delete lands between the cold-tier insert and the coherence-token read *)
Definition w_insert_new_delete := [false; false; false; false; true; true; true; true; true; false; false; false].
Lemma old_insert_new_delete_witness :
  drift_witness 2 1 [2] (TI (istart 1 true)) (TD (dstart_old 1)) w_insert_new_delete 0 1.
Proof. vm_compute. auto. Qed.
(* delete || batch delete of the same id: the batch's pre-count and the delete both report it *)
Definition w_delete_batch := [false; false; false; true; true; true; true; true; false; false; false].
Lemma old_delete_batch_delete_witness :
  drift_witness 2 2 [1; 2] (TB (bstart_old [1])) (TD (dstart_old 1)) w_delete_batch 0 1.
Proof. vm_compute. auto. Qed.
