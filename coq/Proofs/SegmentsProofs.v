(* SegmentsProofs.v — invariant of Model/Segments.v under every fault choice. *)
From Coq Require Import List NArith Bool Arith Lia.
From Kyro Require Import Model.Segments.
Import ListNotations.
Open Scope N_scope.

Fixpoint lastN (l : list N) : option N :=
  match l with
  | [] => None
  | [a] => Some a
  | _ :: r => lastN r
  end.

Definition recoverableP (s : st) (n : N) : Prop :=
  n <= snap s \/ exists f, In f (man s) /\ In f (files s) /\ In n (get (content s) f).

Record Inv (s : st) : Prop := {
  i_active : forall a, active s = Some a -> lastN (man s) = Some a;
  i_exist : forall f, In f (man s) -> In f (files s);
  i_nodup : NoDup (man s);
  i_durable : forall n, In n (log s) -> recoverableP s n;
  i_snap_hi : snap s <= hi s;
  i_log_hi : forall n, In n (log s) -> n <= hi s;
  i_captured : forall n, In n (log s) -> n <= snap s -> In n (captured s);
  i_content : forall f n, In n (get (content s) f) -> In n (log s)
}.

(* ---------------- list helpers ---------------- *)
Lemma memN_In x l : memN x l = true <-> In x l.
Proof.
  induction l as [|y r IH]; cbn [memN In]; [split; [discriminate|tauto]|].
  rewrite orb_true_iff, N.eqb_eq, IH. split; intros [H|H]; auto.
Qed.

Lemma memN_false x l : memN x l = false <-> ~ In x l.
Proof.
  split.
  - intros H Hi. apply memN_In in Hi. congruence.
  - intros H. destruct (memN x l) eqn:E; [|reflexivity]. exfalso. apply H, memN_In, E.
Qed.

Lemma removeN_In x y l : In y (removeN x l) <-> In y l /\ y <> x.
Proof.
  induction l as [|z r IH]; cbn [removeN In]; [tauto|].
  destruct (N.eqb_spec x z) as [E|E].
  - rewrite IH. subst. split; [tauto|]. intros [[H|H] Hn]; [congruence|tauto].
  - cbn [In]. rewrite IH. split; [intros [H|H]; [subst; split; auto|tauto]|tauto].
Qed.

Lemma lastN_app l x : lastN (l ++ [x]) = Some x.
Proof.
  induction l as [|a r IH]; [reflexivity|].
  cbn [app lastN]. destruct (r ++ [x]) eqn:E; [destruct r; discriminate|]. exact IH.
Qed.

Lemma lastN_cons_some t : forall y, lastN (y :: t) <> None.
Proof.
  induction t as [|z w IH]; intros y; [discriminate|]. exact (IH z).
Qed.

Lemma lastN_In l a : lastN l = Some a -> In a l.
Proof.
  induction l as [|x r IH]; [discriminate|].
  destruct r as [|y t]; cbn [lastN]; [intros H; inversion H; left; reflexivity|].
  intros H. right. apply IH. exact H.
Qed.

Lemma NoDup_snoc (l : list N) x : NoDup l -> ~ In x l -> NoDup (l ++ [x]).
Proof.
  induction l as [|a r IH]; intros Hn Hx; cbn [app]; [constructor; [intros []|constructor]|].
  inversion Hn; subst. constructor.
  - intros Hi. apply in_app_or in Hi. destruct Hi as [Hi|[Hi|[]]]; [contradiction|]. subst. apply Hx. left. reflexivity.
  - apply IH; [assumption|]. intros Hi. apply Hx. right. exact Hi.
Qed.

Lemma above_spec l : forall b h, above b l = Some h -> b <= h /\ forall x, In x l -> b < x /\ x <= h.
Proof.
  induction l as [|y r IH]; intros b h H; cbn [above] in H.
  - inversion H; subst. split; [lia|intros x []].
  - destruct (N.ltb_spec b y) as [Hl|Hl]; [|discriminate].
    destruct (IH _ _ H) as [H1 H2]. split; [lia|].
    intros x [Hx|Hx]; [subst; lia|]. destruct (H2 x Hx). lia.
Qed.

Lemma get_cons a l c f : get ((a, l) :: c) f = if a =? f then l else get c f.
Proof. reflexivity. Qed.

Lemma covered_spec L es : covered L es = true -> forall n, In n es -> n <= L.
Proof.
  unfold covered. rewrite forallb_forall. intros H n Hn. specialize (H n Hn).
  apply andb_true_iff in H. destruct H as [_ H]. apply N.leb_le in H. exact H.
Qed.

(* ---------------- plan_compact ---------------- *)
Lemma plan_compact_cons L fs c s y r :
  plan_compact L fs c (s :: y :: r) =
  let '(k, d) := plan_compact L fs c (y :: r) in
  if negb (memN s fs) then (k, d)
  else if covered L (get c s) then (k, s :: d) else (s :: k, d).
Proof. reflexivity. Qed.

Lemma list_ind2 (P : list N -> Prop) :
  P [] -> (forall a, P [a]) -> (forall s y t, P (y :: t) -> P (s :: y :: t)) -> forall l, P l.
Proof.
  intros H0 H1 H2 l. enough (P l /\ forall a, P (a :: l)) by tauto.
  induction l as [|y t [IH1 IH2]]; [split; auto|].
  split; [apply IH2|]. intros a. apply H2, IH2.
Qed.

Ltac pc_step H E :=
  rewrite plan_compact_cons in H;
  match type of H with context [plan_compact ?L ?fs ?c ?m] => destruct (plan_compact L fs c m) as [k0 d0] eqn:E end;
  match type of H with context [memN ?s ?fs] => destruct (memN s fs) eqn:Hm end; cbn [negb] in H;
  [match type of H with context [covered ?L ?es] => destruct (covered L es) eqn:Hc end|];
  inversion H; subst; clear H.

Lemma pc_keep_sub L fs c m : forall k d x, plan_compact L fs c m = (k, d) -> In x k -> In x m.
Proof.
  induction m as [| a | s y t IH] using list_ind2; intros k d x H Hx.
  - inversion H; subst. destruct Hx.
  - cbn in H. inversion H; subst. exact Hx.
  - pc_step H E.
    + right. eapply IH; eauto.
    + destruct Hx as [Hx|Hx]; [left; exact Hx|right; eapply IH; eauto].
    + right. eapply IH; eauto.
Qed.

Lemma pc_del_spec L fs c m : forall k d x, plan_compact L fs c m = (k, d) -> In x d ->
  In x m /\ In x fs /\ covered L (get c x) = true.
Proof.
  induction m as [| a | s y t IH] using list_ind2; intros k d x H Hx.
  - inversion H; subst. destruct Hx.
  - cbn in H. inversion H; subst. destruct Hx.
  - pc_step H E.
    + destruct Hx as [Hx|Hx].
      * subst. repeat split; [left; reflexivity|apply memN_In, Hm|exact Hc].
      * destruct (IH _ _ x eq_refl Hx) as (A & B & C). repeat split; auto. right. exact A.
    + destruct (IH _ _ x eq_refl Hx) as (A & B & C). repeat split; auto. right. exact A.
    + destruct (IH _ _ x eq_refl Hx) as (A & B & C). repeat split; auto. right. exact A.
Qed.

Lemma pc_total L fs c m : forall k d x, plan_compact L fs c m = (k, d) -> In x m -> In x fs -> In x k \/ In x d.
Proof.
  induction m as [| a | s y t IH] using list_ind2; intros k d x H Hx Hf.
  - destruct Hx.
  - cbn in H. inversion H; subst. left. exact Hx.
  - pc_step H E.
    + destruct Hx as [Hx|Hx]; [subst; right; left; reflexivity|].
      destruct (IH _ _ x eq_refl Hx Hf); [left|right; right]; assumption.
    + destruct Hx as [Hx|Hx]; [subst; left; left; reflexivity|].
      destruct (IH _ _ x eq_refl Hx Hf); [left; right|right]; assumption.
    + destruct Hx as [Hx|Hx]; [subst; apply memN_false in Hm; contradiction|].
      eapply IH; eauto.
Qed.

Lemma pc_last L fs c m : forall k d, plan_compact L fs c m = (k, d) -> lastN k = lastN m.
Proof.
  induction m as [| a | s y t IH] using list_ind2; intros k d H.
  - inversion H; subst. reflexivity.
  - cbn in H. inversion H; subst. reflexivity.
  - pc_step H E; pose proof (IH _ _ eq_refl) as P; try exact P.
    cbn [lastN]. destruct k0 as [|z w]; [|exact P].
    exfalso. apply (lastN_cons_some t y). symmetry. exact P.
Qed.

Lemma pc_nodup L fs c m : forall k d, plan_compact L fs c m = (k, d) -> NoDup m ->
  NoDup k /\ forall x, In x k -> ~ In x d.
Proof.
  induction m as [| a | s y t IH] using list_ind2; intros k d H Hn.
  - inversion H; subst. split; [constructor|intros x []].
  - cbn in H. inversion H; subst. split; [exact Hn|intros x _ []].
  - assert (Hs : ~ In s (y :: t)) by (inversion Hn; assumption).
    assert (Hn' : NoDup (y :: t)) by (inversion Hn; assumption).
    pc_step H E; destruct (IH _ _ eq_refl Hn') as [Q1 Q2].
    + split; [exact Q1|]. intros x Hx [Hd|Hd]; [subst; apply Hs; eapply pc_keep_sub; eauto|exact (Q2 x Hx Hd)].
    + split.
      * constructor; [|exact Q1]. intros Hx. apply Hs. eapply pc_keep_sub; eauto.
      * intros x [Hx|Hx] Hd; [|exact (Q2 x Hx Hd)].
        subst x. apply Hs. exact (proj1 (pc_del_spec _ _ _ _ _ _ _ E Hd)).
    + split; assumption.
Qed.

Lemma unlink_all_sub d : forall fs unl x, In x (unlink_all fs d unl) -> In x fs.
Proof.
  induction d as [|s r IH]; intros fs unl x H; cbn [unlink_all] in H; [exact H|].
  destruct unl as [|[|] u]; try (apply IH in H; try apply removeN_In in H; tauto).
Qed.

Lemma unlink_all_keep d : forall fs unl x, In x fs -> ~ In x d -> In x (unlink_all fs d unl).
Proof.
  induction d as [|s r IH]; intros fs unl x H Hn; cbn [unlink_all]; [exact H|].
  assert (x <> s) by (intros ->; apply Hn; left; reflexivity).
  assert (~ In x r) by (intros Hx; apply Hn; right; exact Hx).
  destruct unl as [|[|] u]; apply IH; auto; apply removeN_In; auto.
Qed.

(* ---------------- small preservation lemmas ---------------- *)
Lemma recoverableP_mono (s t : st) n :
  snap s <= snap t ->
  (forall f, In f (man s) -> In f (files s) -> In n (get (content s) f) ->
             n <= snap t \/ (In f (man t) /\ In f (files t) /\ In n (get (content t) f))) ->
  recoverableP s n -> recoverableP t n.
Proof.
  intros Hs Hf [H|(f & H1 & H2 & H3)]; [left; lia|].
  destruct (Hf f H1 H2 H3) as [H|H]; [left; exact H|right; exists f; exact H].
Qed.

Lemma Inv_init : Inv init.
Proof.
  constructor; cbn; try (intros; contradiction); try discriminate; try lia; try constructor.
Qed.

Lemma inv_add_file s f : Inv s -> Inv (add_file s f).
Proof.
  intros I. destruct I. constructor; cbn [add_file man snap files content active hi log captured]; auto.
  - intros g Hg. apply in_or_app. left. auto.
  - intros n Hn. apply (recoverableP_mono s); cbn; auto; try lia.
    intros g G1 G2 G3. right. repeat split; auto. apply in_or_app. left. exact G2.
Qed.

Lemma inv_publish s fresh (a : option N) :
  Inv s -> ~ In fresh (files s) -> (a = None \/ a = Some fresh) ->
  Inv (set_active (upd_man (add_file s fresh) (man s ++ [fresh])) a).
Proof.
  intros I Hf Ha. pose proof (inv_add_file s fresh I) as I1. destruct I.
  constructor; cbn [set_active upd_man add_file man snap files content active hi log captured]; auto.
  - intros b Hb. rewrite lastN_app. destruct Ha as [->| ->]; [discriminate|exact Hb].
  - intros g Hg. apply in_app_or in Hg. apply in_or_app. destruct Hg as [Hg|[<-|[]]]; [left; auto|right; left; reflexivity].
  - apply NoDup_snoc; [exact i_nodup0|]. intros Hx. apply Hf. auto.
  - intros n Hn. apply (recoverableP_mono s); cbn; auto; try lia.
    intros g G1 G2 G3. right. repeat split; auto; apply in_or_app; left; assumption.
Qed.

Lemma Inv_eq s t :
  man s = man t -> snap s = snap t -> files s = files t -> content s = content t ->
  active s = active t -> hi s = hi t -> log s = log t -> captured s = captured t -> Inv s -> Inv t.
Proof.
  destruct s, t; cbn; intros; subst; assumption.
Qed.

Lemma inv_set_active_none s : Inv s -> Inv (set_active s None).
Proof.
  intros I. destruct I. constructor; cbn [set_active man snap files content active hi log captured]; auto.
  discriminate.
Qed.

Lemma inv_append s a seqs h :
  Inv s -> active s = Some a -> above (hi s) seqs = Some h ->
  Inv {| man := man s; snap := snap s; files := files s;
         content := (a, get (content s) a ++ seqs) :: content s; active := active s;
         hi := h; log := log s ++ seqs; captured := captured s |}.
Proof.
  intros I Ha Hab. destruct (above_spec _ _ _ Hab) as [Hh Hs]. destruct I.
  assert (Hget : forall f n, In n (get (content s) f) ->
                 In n (get ((a, get (content s) a ++ seqs) :: content s) f)).
  { intros f n Hn. rewrite get_cons. destruct (N.eqb_spec a f) as [->|]; [apply in_or_app; left|]; exact Hn. }
  constructor; cbn [man snap files content active hi log captured]; auto.
  - intros n Hn. apply in_app_or in Hn. destruct Hn as [Hn|Hn].
    + destruct (i_durable0 n Hn) as [H|(f & F1 & F2 & F3)]; [left; exact H|].
      right. exists f. cbn [man files content]. auto.
    + right. exists a. cbn [man files content].
      pose proof (lastN_In _ _ (i_active0 a Ha)) as Hin. repeat split; auto.
      rewrite get_cons, N.eqb_refl. apply in_or_app. right. exact Hn.
  - lia.
  - intros n Hn. apply in_app_or in Hn. destruct Hn as [Hn|Hn]; [specialize (i_log_hi0 n Hn); lia|destruct (Hs n Hn); lia].
  - intros n Hn Hle. apply in_app_or in Hn. destruct Hn as [Hn|Hn]; [auto|]. destruct (Hs n Hn). lia.
  - intros f n Hn. rewrite get_cons in Hn. apply in_or_app. destruct (N.eqb_spec a f) as [->|].
    + apply in_app_or in Hn. destruct Hn as [Hn|Hn]; [left; eauto|right; exact Hn].
    + left. eauto.
Qed.

Lemma inv_bump s L : Inv s -> hi s <= L -> Inv (bump s L).
Proof.
  intros I HL. destruct I. constructor; cbn [bump man snap files content active hi log captured]; auto.
  - lia.
  - intros n Hn. specialize (i_log_hi0 n Hn). lia.
Qed.

Lemma inv_commit s L : Inv s -> hi s <= L -> snap s <= L -> Inv (commit s L).
Proof.
  intros I HL HS. destruct I. constructor; cbn [commit man snap files content active hi log captured]; auto.
  - intros n Hn. destruct (i_durable0 n Hn) as [H|H]; [left; cbn; lia|right; exact H].
  - lia.
  - intros n Hn. specialize (i_log_hi0 n Hn). lia.
Qed.

Lemma inv_compacted s L keep del unl :
  Inv s -> snap s = L -> plan_compact L (files s) (content s) (man s) = (keep, del) ->
  Inv (upd_man s keep) /\ Inv (set_files (upd_man s keep) (unlink_all (files (upd_man s keep)) del unl)).
Proof.
  intros I HL E. destruct I.
  destruct (pc_nodup _ _ _ _ _ _ E i_nodup0) as [Nk Ndisj].
  pose proof (pc_last _ _ _ _ _ _ E) as Hlast.
  assert (Hsub : forall x, In x keep -> In x (man s)) by (intros x; eapply pc_keep_sub; eauto).
  assert (Hdur : forall n, In n (log s) -> n <= snap s \/ exists f, In f keep /\ In f (files s) /\ In n (get (content s) f)).
  { intros n Hn. destruct (i_durable0 n Hn) as [H|(f & F1 & F2 & F3)]; [left; exact H|].
    destruct (pc_total _ _ _ _ _ _ f E F1 F2) as [Hk|Hd].
    - right. exists f. auto.
    - left. destruct (pc_del_spec _ _ _ _ _ _ f E Hd) as (_ & _ & Hc). rewrite HL. eapply covered_spec; eauto. }
  split.
  - constructor; cbn [upd_man man snap files content active hi log captured].
    + intros a Ha. rewrite Hlast. auto.
    + intros f Hf. auto.
    + exact Nk.
    + intros n Hn. destruct (Hdur n Hn) as [H|H]; [left; exact H|right; exact H].
    + assumption.
    + assumption.
    + assumption.
    + assumption.
  - constructor; cbn [set_files upd_man man snap files content active hi log captured].
    + intros a Ha. rewrite Hlast. auto.
    + intros f Hf. apply unlink_all_keep; auto.
    + exact Nk.
    + intros n Hn. destruct (Hdur n Hn) as [H|(f & F1 & F2 & F3)]; [left; exact H|].
      right. exists f. cbn [man files content set_files upd_man]. repeat split; auto. apply unlink_all_keep; auto.
    + assumption.
    + assumption.
    + assumption.
    + assumption.
Qed.

Lemma mstep_inv s m s' : Inv s -> mstep s m = Some s' -> Inv s'.
Proof.
  intros I H. destruct m as [seqs | fresh c v | L saves unl | fresh c v | ]; cbn [mstep] in H.
  - destruct (active s) as [a|] eqn:Ha; [|discriminate].
    destruct (above (hi s) seqs) as [h|] eqn:Hab; [|discriminate].
    inversion H; subst; clear H. rewrite <- Ha. apply inv_append; auto.
  - destruct (active s) as [a|] eqn:Ha; [|discriminate].
    destruct (memN fresh (files s)) eqn:Hm; [discriminate|]. apply memN_false in Hm.
    destruct c, v; cbn [create_and_publish] in H; inversion H; subst; clear H;
      try exact I; try (apply inv_add_file; exact I);
      apply inv_publish; auto.
  - destruct (N.ltb_spec L (hi s)) as [|Hhi]; [discriminate|].
    destruct (N.ltb_spec L (snap s)) as [|Hsn]; [inversion H; subst; exact I|].
    destruct saves as [|[| |] rest]; [discriminate| | |].
    + pose proof (inv_commit s L I Hhi Hsn) as I1.
      destruct (plan_compact L (files (commit s L)) (content (commit s L)) (man (commit s L))) as [keep del] eqn:E.
      destruct (inv_compacted (commit s L) L keep del unl I1 eq_refl E) as [Ik Iu].
      destruct del as [|d0 dr].
      * destruct rest as [|[| |] rest2]; inversion H; subst; assumption.
      * destruct rest as [|[| |] rest2]; [discriminate| | |]; try (inversion H; subst; assumption).
        destruct rest2; [discriminate|]. inversion H; subst. exact Iu.
    + inversion H; subst. apply inv_bump; assumption.
    + inversion H; subst. apply inv_commit; assumption.
  - destruct (active s) as [a|] eqn:Ha; [discriminate|].
    destruct (memN fresh (files s)) eqn:Hm; [discriminate|]. apply memN_false in Hm.
    destruct c, v; cbn [create_and_publish] in H; inversion H; subst; clear H;
      try exact I; try (apply inv_add_file; exact I).
    + apply inv_publish; auto.
    + eapply Inv_eq; [| | | | | | | |apply (inv_publish s fresh None I Hm); auto]; try reflexivity.
      cbn. symmetry. exact Ha.
  - inversion H; subst. apply inv_set_active_none; exact I.
Qed.

Theorem mrun_inv ms : forall s s', Inv s -> mrun s ms = Some s' -> Inv s'.
Proof.
  induction ms as [|m r IH]; intros s s' I H; cbn [mrun] in H.
  - inversion H; subst. exact I.
  - destruct (mstep s m) as [t|] eqn:E; [|discriminate].
    eapply IH; [eapply mstep_inv; eauto|exact H].
Qed.

(* ---------------- consequences, in the boolean vocabulary of the model ---------------- *)
Lemma recoverable_reflect s n : recoverableP s n -> recoverable s n = true.
Proof.
  intros [H|(f & F1 & F2 & F3)]; unfold recoverable; apply orb_true_iff.
  - left. apply N.leb_le. exact H.
  - right. unfold in_listed_file. apply existsb_exists. exists f. split; [exact F1|].
    apply andb_true_iff. split; apply memN_In; assumption.
Qed.

(* every sequence number ever appended stays recoverable, whatever faults hit rotation, snapshot
   commit, compaction and start-up, in any order and any number *)
Theorem appended_stays_recoverable ms s' :
  mrun init ms = Some s' -> forall n, In n (log s') -> recoverable s' n = true.
Proof.
  intros H n Hn. apply recoverable_reflect. exact (i_durable _ (mrun_inv _ _ _ Inv_init H) n Hn).
Qed.

(* the live writer always appends to the newest listed segment, and that file exists *)
Theorem writer_on_newest_listed ms s' a :
  mrun init ms = Some s' -> active s' = Some a -> lastN (man s') = Some a /\ memN a (files s') = true.
Proof.
  intros H Ha. pose proof (mrun_inv _ _ _ Inv_init H) as I. split; [exact (i_active _ I a Ha)|].
  apply memN_In. apply (i_exist _ I). apply lastN_In. exact (i_active _ I a Ha).
Qed.

(* strict recovery never meets a listed segment whose file is gone *)
Theorem listed_segments_exist ms s' :
  mrun init ms = Some s' -> forallb (fun f => memN f (files s')) (man s') = true.
Proof.
  intros H. pose proof (mrun_inv _ _ _ Inv_init H) as I. apply forallb_forall. intros f Hf.
  apply memN_In. exact (i_exist _ I f Hf).
Qed.

(* what "n <= snap" means: n was appended before the committed snapshot was captured *)
Theorem snapshot_covers_only_captured ms s' n :
  mrun init ms = Some s' -> In n (log s') -> n <= snap s' -> In n (captured s').
Proof.
  intros H Hn Hle. exact (i_captured _ (mrun_inv _ _ _ Inv_init H) n Hn Hle).
Qed.

(* ---------------- the behaviour before fix db1490c: a concrete loss ---------------- *)
Definition old_loss_trace : list micro :=
  [ MStart 10 COk VOk; MAppend [1]; MRotate 11 COk VPost;      (* dir fsync of the MANIFEST save fails *)
    MSnapshot 1 [VOk; VOk; VOk] [true];                          (* compaction unlinks segment 10 *)
    MAppend [2] ].                                               (* acknowledged, written to the unlinked file *)

Lemma old_rotation_loses_an_append :
  exists s', mrun_old init old_loss_trace = Some s' /\ In 2 (log s') /\ recoverable s' 2 = false
             /\ active s' = Some 10 /\ memN 10 (files s') = false.
Proof. eexists. vm_compute. repeat split; auto. Qed.

Lemma new_rotation_keeps_it :
  exists s', mrun init old_loss_trace = Some s' /\ recoverable s' 2 = true /\ active s' = Some 11.
Proof. eexists. vm_compute. repeat split. Qed.
