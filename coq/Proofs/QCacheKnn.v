(* An executable exact k-NN for the inner-product metric satisfying the oracle premises of
   C07_entry_valid: shows those premises are satisfiable (non-vacuity). *)
From Coq Require Import QArith Qminmax List NArith ZArith Bool Arith Lqa Lia Sorting.Sorted.
From Kyro Require Import Model.QCache Proofs.QCacheProofs Proofs.QCacheInv Proofs.QCacheEngine.
Import ListNotations.
Open Scope Q_scope.

Definition ip_isd (q v : vec) (d : Q) : Prop := d = 1 - dot q v.

(* first binding of every id *)
Definition uniq (c : collection) : collection :=
  fold_right (fun p acc => (fst p, snd p) :: c_del acc (fst p)) [] c.

Fixpoint ins_sorted (x : result) (l : list result) : list result :=
  match l with
  | [] => [x]
  | y :: r => if Qleb (snd x) (snd y) then x :: y :: r else y :: ins_sorted x r
  end.

Definition isort (l : list result) : list result := fold_right ins_sorted [] l.

Definition ip_knn (c : collection) (q : vec) (k : nat) : list result :=
  firstn k (isort (map (fun p => (fst p, 1 - dot q (snd p))) (uniq c))).

Lemma in_c_del c i id v : In (id, v) (c_del c i) <-> In (id, v) c /\ id <> i.
Proof.
  induction c as [|[j w] c IH]; cbn [c_del In]; [tauto|].
  destruct (N.eqb j i) eqn:E.
  - apply N.eqb_eq in E. subst j. rewrite IH. split; [tauto|].
    intros [[H|H] Hn]; [inversion H; subst; contradiction|tauto].
  - apply N.eqb_neq in E. cbn [In]. rewrite IH. split; [|tauto].
    intros [H|H]; [inversion H; subst; tauto|tauto].
Qed.

Lemma uniq_spec c id v : In (id, v) (uniq c) <-> c_get c id = Some v.
Proof.
  induction c as [|[i w] c IH]; cbn [uniq fold_right c_get In fst snd]; [split; [tauto|discriminate]|].
  fold (uniq c). rewrite in_c_del, IH. destruct (N.eqb i id) eqn:E.
  - apply N.eqb_eq in E. subst i. split.
    + intros [H|[_ H]]; [inversion H; reflexivity|contradiction].
    + intro H. inversion H; subst. left. reflexivity.
  - apply N.eqb_neq in E. split.
    + intros [H|[H _]]; [inversion H; subst; contradiction|exact H].
    + intro H. right. split; [exact H|]. intro E'. subst. contradiction.
Qed.

Lemma ins_in x l y : In y (ins_sorted x l) <-> y = x \/ In y l.
Proof.
  induction l as [|z l IH]; cbn [ins_sorted In]; [intuition|].
  destruct (Qleb (snd x) (snd z)); cbn [In]; [intuition|]. rewrite IH. intuition.
Qed.

Lemma isort_in l y : In y (isort l) <-> In y l.
Proof.
  induction l as [|z l IH]; cbn [isort fold_right In]; [tauto|].
  fold (isort l). rewrite ins_in, IH. intuition.
Qed.

Lemma ins_sorted_ok x l : StronglySorted rle l -> StronglySorted rle (ins_sorted x l).
Proof.
  induction l as [|z l IH]; intro H; cbn [ins_sorted].
  - constructor; constructor.
  - inversion H as [|? ? Hs Hf]; subst. destruct (Qleb (snd x) (snd z)) eqn:E.
    + apply Qleb_iff in E. constructor; [exact H|]. constructor; [exact E|].
      rewrite Forall_forall in *. intros y Hy. specialize (Hf y Hy). unfold rle in *. lra.
    + apply Qleb_false in E. constructor; [apply IH; exact Hs|].
      rewrite Forall_forall in *. intros y Hy. apply ins_in in Hy. destruct Hy as [Hy|Hy].
      * subst y. unfold rle. lra.
      * apply Hf. exact Hy.
Qed.

Lemma isort_sorted l : StronglySorted rle (isort l).
Proof.
  induction l as [|z l IH]; cbn [isort fold_right]; [constructor|]. apply ins_sorted_ok. exact IH.
Qed.

Lemma ip_knn_live c q k id d :
  In (id, d) (ip_knn c q k) -> exists v, c_get c id = Some v /\ ip_isd q v d.
Proof.
  unfold ip_knn. intro H. apply in_firstn in H. apply (proj1 (isort_in _ _)) in H. apply in_map_iff in H.
  destruct H as [[i v] [E Hin]]. cbn [fst snd] in E. inversion E; subst.
  exists v. split; [apply uniq_spec; exact Hin|reflexivity].
Qed.

Lemma ip_knn_len c q k : (length (ip_knn c q k) <= k)%nat.
Proof. unfold ip_knn. apply firstn_le_length. Qed.

Lemma ip_knn_omit c q k id v :
  (1 <= k)%nat -> c_get c id = Some v -> ~ In id (map fst (ip_knn c q k)) ->
  length (ip_knn c q k) = k /\
  exists w, worst (ip_knn c q k) = Some w /\ dist_lt InnerProduct q v w = false.
Proof.
  unfold ip_knn. set (L := isort (map (fun p => (fst p, 1 - dot q (snd p))) (uniq c))).
  intros Hk Hv Hn.
  assert (HinL : In (id, 1 - dot q v) L).
  { unfold L. apply isort_in. apply in_map_iff. exists (id, v). split; [reflexivity|]. apply uniq_spec. exact Hv. }
  assert (Hskip : In (id, 1 - dot q v) (skipn k L)).
  { rewrite <- (firstn_skipn k L) in HinL. apply in_app_or in HinL. destruct HinL as [H|H]; [|exact H].
    exfalso. apply Hn. apply in_map_iff. exists (id, 1 - dot q v). split; [reflexivity|exact H]. }
  assert (Hlen : (k < length L)%nat).
  { destruct (Nat.lt_ge_cases k (length L)) as [G|G]; [exact G|].
    rewrite skipn_all2 in Hskip by exact G. inversion Hskip. }
  split; [apply firstn_length_le; lia|].
  destruct (worst_bound (firstn k L) (1 - dot q v)) as [w [Ew Hw]].
  - intro E. apply (f_equal (@length result)) in E. rewrite firstn_length_le in E by lia. cbn in E. lia.
  - intros a Ha. apply (sorted_split k L (isort_sorted _) a (id, 1 - dot q v) Ha Hskip).
  - exists w. split; [exact Ew|]. unfold dist_lt. apply Qltb_false. lra.
Qed.

Lemma ip_knn_sorted c q k : StronglySorted rle (ip_knn c q k).
Proof. unfold ip_knn. apply sorted_firstn. apply isort_sorted. Qed.

Lemma ip_isd_lt q v d w : ip_isd q v d -> w <= d -> dist_lt InnerProduct q v w = false.
Proof. unfold ip_isd, dist_lt. intros E H. subst d. apply Qltb_false. lra. Qed.
