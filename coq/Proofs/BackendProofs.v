(* Proofs about Model/Backend.v: the persistence invariant `Inv` (DESIGN.md §3.2 Backend.Inv) is
   established by `init`, preserved by every `step`, and implies that strict recovery of the current
   directory succeeds and returns exactly the live store (C02).  Also: `step_disk` (the directory of the
   next state is the old one with the emitted effects applied, in order). *)
From Coq Require Import List NArith ZArith Bool Lia.
From Kyro Require Import Model.Amap Model.Backend Proofs.AmapProofs.
Import ListNotations.
Open Scope N_scope.
Arguments N.add : simpl never.
Arguments N.mul : simpl never.
Arguments N.max : simpl never.
Arguments N.pred : simpl never.
Arguments N.ltb : simpl never.
Arguments N.leb : simpl never.
Arguments N.eqb : simpl never.
Arguments N.of_nat : simpl never.

(* ------------------------------------------------------------------------------------------ *)
(* 1. Names and directories                                                                    *)
(* ------------------------------------------------------------------------------------------ *)

Lemma name_eqb_spec : forall a b, reflect (a = b) (name_eqb a b).
Proof.
  intros a b. destruct a, b; cbn; try (constructor; congruence);
    destruct (N.eqb_spec n n0); constructor; congruence.
Qed.

Lemma name_eqb_refl : forall a, name_eqb a a = true.
Proof. intros a. destruct (name_eqb_spec a a); congruence. Qed.

Lemma name_eqb_neq : forall a b, a <> b -> name_eqb a b = false.
Proof. intros a b H. destruct (name_eqb_spec a b); congruence. Qed.

Lemma dget_dset_same : forall d k f, dget (dset d k f) k = Some f.
Proof.
  induction d as [|[k0 f0] r IH]; intros k f; cbn.
  - rewrite name_eqb_refl. reflexivity.
  - destruct (name_eqb_spec k0 k); cbn.
    + rewrite name_eqb_refl. reflexivity.
    + rewrite name_eqb_neq by assumption. apply IH.
Qed.

Lemma dget_dset_other : forall d k f x, x <> k -> dget (dset d k f) x = dget d x.
Proof.
  induction d as [|[k0 f0] r IH]; intros k f x H; cbn.
  - rewrite name_eqb_neq by congruence. reflexivity.
  - destruct (name_eqb_spec k0 k); cbn.
    + subst k0. rewrite !name_eqb_neq by congruence. reflexivity.
    + destruct (name_eqb_spec k0 x); [reflexivity|]. apply IH; assumption.
Qed.

Lemma dget_dremove_same : forall d k, dget (dremove d k) k = None.
Proof.
  induction d as [|[k0 f0] r IH]; intros k; cbn; [reflexivity|].
  destruct (name_eqb_spec k0 k); [apply IH|]. cbn. rewrite name_eqb_neq by assumption. apply IH.
Qed.

Lemma dget_dremove_other : forall d k x, x <> k -> dget (dremove d k) x = dget d x.
Proof.
  induction d as [|[k0 f0] r IH]; intros k x H; cbn; [reflexivity|].
  destruct (name_eqb_spec k0 k); cbn.
  - subst k0. rewrite name_eqb_neq by congruence. apply IH; assumption.
  - destruct (name_eqb_spec k0 x); [reflexivity|]. apply IH; assumption.
Qed.

Lemma dget_max_id : forall d k f, dget d k = Some f -> name_id k <= max_id d.
Proof.
  induction d as [|[k0 f0] r IH]; intros k f H; [discriminate|].
  unfold max_id. cbn [fold_right fst]. fold (max_id r). cbn [dget] in H.
  destruct (name_eqb_spec k0 k).
  - subst. lia.
  - specialize (IH _ _ H). lia.
Qed.

Lemma fresh_none : forall d k, name_id k = fresh_id d -> dget d k = None.
Proof.
  intros d k H. destruct (dget d k) eqn:E; [|reflexivity].
  apply dget_max_id in E. unfold fresh_id in H. lia.
Qed.

Lemma apply_effs_app : forall d a b, apply_effs d (a ++ b) = apply_effs (apply_effs d a) b.
Proof. intros. unfold apply_effs. apply fold_left_app. Qed.

(* ------------------------------------------------------------------------------------------ *)
(* 2. Closed forms of the effect groups (pointwise, through dget)                              *)
(* ------------------------------------------------------------------------------------------ *)

Ltac dsimp :=
  repeat first
    [ rewrite dget_dset_same
    | rewrite dget_dremove_same
    | rewrite dget_dset_other by congruence
    | rewrite dget_dremove_other by congruence ].

Lemma save_manifest_get : forall d m,
  dget (apply_effs d (save_manifest_effs m)) NManifest = Some (FManifest m).
Proof.
  intros d m. unfold save_manifest_effs, apply_effs. cbn [fold_left apply_eff].
  destruct (dget d NManifestTmp); dsimp; cbn; dsimp; reflexivity.
Qed.

Lemma save_manifest_other : forall d m x, x <> NManifest -> x <> NManifestTmp ->
  dget (apply_effs d (save_manifest_effs m)) x = dget d x.
Proof.
  intros d m x H1 H2. unfold save_manifest_effs, apply_effs. cbn [fold_left apply_eff].
  destruct (dget d NManifestTmp); dsimp; cbn; dsimp; reflexivity.
Qed.

Lemma save_snapshot_get : forall d k sn,
  dget (apply_effs d (save_snapshot_effs k sn)) (NSnap k) = Some (FSnap sn).
Proof.
  intros d k sn. unfold save_snapshot_effs, apply_effs. cbn [fold_left apply_eff].
  destruct (dget d (NSnapTmp k)); dsimp; cbn; dsimp; reflexivity.
Qed.

Lemma save_snapshot_other : forall d k sn x, x <> NSnap k -> x <> NSnapTmp k ->
  dget (apply_effs d (save_snapshot_effs k sn)) x = dget d x.
Proof.
  intros d k sn x H1 H2. unfold save_snapshot_effs, apply_effs. cbn [fold_left apply_eff].
  destruct (dget d (NSnapTmp k)); dsimp; cbn; dsimp; reflexivity.
Qed.

Lemma new_wal_get : forall d f, dget d f = None ->
  dget (apply_effs d (new_wal_effs f)) f = Some (FWal [] Clean).
Proof.
  intros d f H. unfold new_wal_effs, apply_effs. cbn [fold_left apply_eff].
  rewrite H. dsimp. cbn. dsimp. reflexivity.
Qed.

Lemma new_wal_other : forall d f x, dget d f = None -> x <> f ->
  dget (apply_effs d (new_wal_effs f)) x = dget d x.
Proof.
  intros d f x H Hx. unfold new_wal_effs, apply_effs. cbn [fold_left apply_eff].
  rewrite H. dsimp. cbn. dsimp. reflexivity.
Qed.

Lemma fsync_effs_nop : forall c f d, apply_effs d (fsync_effs c f) = d.
Proof. intros c f d. unfold fsync_effs. destruct (c_fsync c); reflexivity. Qed.

Definition append_effs (a : name) (es : list entry) : list eff :=
  map (fun e => EAppend a (BFrame (Good e))) es.

Lemma append_effs_cons : forall d a e r,
  apply_effs d (append_effs a (e :: r)) =
  apply_effs (apply_eff d (EAppend a (BFrame (Good e)))) (append_effs a r).
Proof. reflexivity. Qed.

Lemma append_get : forall es d a es0,
  dget d a = Some (FWal (map Good es0) Clean) ->
  dget (apply_effs d (append_effs a es)) a = Some (FWal (map Good (es0 ++ es)) Clean).
Proof.
  induction es as [|e r IH]; intros d a es0 H.
  - rewrite app_nil_r. exact H.
  - rewrite append_effs_cons.
    replace (es0 ++ e :: r) with ((es0 ++ [e]) ++ r) by (rewrite <- app_assoc; reflexivity).
    apply IH. cbn [apply_eff]. rewrite H. dsimp. rewrite map_app. reflexivity.
Qed.

Lemma append_other : forall es d a x, x <> a ->
  dget (apply_effs d (append_effs a es)) x = dget d x.
Proof.
  induction es as [|e r IH]; intros d a x H; [reflexivity|].
  rewrite append_effs_cons. rewrite IH by assumption.
  cbn [apply_eff]. destruct (dget d a) as [[| frs [| |] | | |]|]; dsimp; reflexivity.
Qed.

Lemma unlinks_other : forall del d x, ~ In x del ->
  dget (apply_effs d (map EUnlink del)) x = dget d x.
Proof.
  induction del as [|n r IH]; intros d x H; [reflexivity|].
  change (apply_effs d (map EUnlink (n :: r))) with (apply_effs (dremove d n) (map EUnlink r)).
  rewrite IH by (intro; apply H; right; assumption).
  apply dget_dremove_other. intro; apply H; left; congruence.
Qed.

(* ------------------------------------------------------------------------------------------ *)
(* 3. What recovery reads on a clean directory                                                 *)
(* ------------------------------------------------------------------------------------------ *)

Definition wal_good (d : dir) (nm : name) : Prop :=
  exists es, dget d nm = Some (FWal (map Good es) Clean).

(* what the reader tolerates: a clean end of file or a torn tail (C01 crash states) *)
Definition wal_readable (d : dir) (nm : name) : Prop :=
  exists es t, dget d nm = Some (FWal (map Good es) t) /\ t <> BadLen.

Lemma wal_good_readable : forall d nm, wal_good d nm -> wal_readable d nm.
Proof. intros d nm [es H]. exists es, Clean. split; [exact H|discriminate]. Qed.

Definition entries_of (d : dir) (nm : name) : list entry :=
  match dget d nm with Some (FWal frs _) => fst (read_frames frs) | _ => [] end.

Definition all_entries (d : dir) (segs : list name) : list entry := flat_map (entries_of d) segs.

Definition keep_e (sseq : N) (e : entry) : bool := negb (covered sseq e).

(* the collection defined by a snapshot and the entries that follow it *)
Definition replay_pure (sseq : N) (st : store) (es : list entry) : store :=
  fold_left apply_entry (filter (keep_e sseq) es) st.

Definition maxseq (mx : N) (es : list entry) : N := fold_left (fun a e => N.max a (e_seq e)) es mx.

Definition entry_ok (c : cfg) (nx : N) (e : entry) : Prop :=
  1 <= e_seq e /\ e_seq e < nx /\ (e_op e = Ins -> len (e_vec e) = c_dim c).

Lemma read_frames_good : forall es, read_frames (map Good es) = (es, 0).
Proof. induction es as [|e r IH]; cbn; [reflexivity|]. rewrite IH. reflexivity. Qed.

Lemma entries_of_good : forall d nm es t, dget d nm = Some (FWal (map Good es) t) -> entries_of d nm = es.
Proof. intros d nm es t H. unfold entries_of. rewrite H, read_frames_good. reflexivity. Qed.

Lemma replay_entries_ok : forall c sseq nx es, Forall (entry_ok c nx) es -> forall st mx gap,
  replay_entries c sseq sseq (st, mx, gap) es = Ok (replay_pure sseq st es, maxseq mx es, gap).
Proof.
  intros c sseq nx es H. induction H as [|e r He Hr IH]; intros st mx gap; [reflexivity|].
  cbn [replay_entries]. unfold replay_entry.
  destruct He as (H1 & H2 & H3).
  destruct (N.eqb_spec (e_seq e) 0) as [E|E]; [lia|].
  assert (Hgap : (sseq <? e_seq e) && (e_seq e <=? sseq) = false).
  { destruct (N.ltb_spec sseq (e_seq e)); [|reflexivity].
    destruct (N.leb_spec (e_seq e) sseq); [lia|reflexivity]. }
  rewrite Hgap.
  unfold replay_pure, maxseq. cbn [filter fold_left]. unfold keep_e at 1. unfold covered.
  destruct (0 <? sseq) eqn:A; destruct (0 <? e_seq e) eqn:B; destruct (e_seq e <=? sseq) eqn:C;
    cbn [andb negb];
    try (destruct (e_op e) eqn:O;
         [ rewrite (H3 eq_refl), N.eqb_refl | | ]; cbn [fold_left]; apply IH);
    apply IH.
Qed.

Lemma replay_segments_ok : forall c d sseq nx segs st mx gap,
  (forall nm, In nm segs -> wal_readable d nm) ->
  Forall (entry_ok c nx) (all_entries d segs) ->
  replay_segments c Strict d sseq sseq (st, mx, gap) segs
  = Ok (replay_pure sseq st (all_entries d segs), maxseq mx (all_entries d segs), gap).
Proof.
  intros c d sseq nx. induction segs as [|nm rest IH]; intros st mx gap Hg Hok; [reflexivity|].
  destruct (Hg nm (or_introl eq_refl)) as (es & t & Hes & Ht).
  cbn [replay_segments]. rewrite Hes. unfold read_all. rewrite read_frames_good.
  replace (match t with BadLen => 0 + 1 | _ => 0 end) with 0 by (destruct t; [reflexivity|reflexivity|congruence]).
  change (0 <? 0) with false. cbn iota.
  unfold all_entries in *. cbn [flat_map] in *. rewrite (entries_of_good _ _ _ _ Hes) in *.
  apply Forall_app in Hok. destruct Hok as [Hok1 Hok2].
  rewrite (replay_entries_ok _ _ _ _ Hok1).
  rewrite IH; [|intros x Hx; apply Hg; right; exact Hx|exact Hok2].
  unfold replay_pure, maxseq. rewrite filter_app, !fold_left_app. reflexivity.
Qed.

Definition snap_ok (c : cfg) (d : dir) (m : manifest) (sdocs : store) (sseq : N) : Prop :=
  opt_or0 (m_snapshot_seq m) = sseq /\
  match m_snapshot m with
  | None => sdocs = [] /\ sseq = 0
  | Some nm => exists k sn, nm = NSnap k /\ dget d nm = Some (FSnap sn) /\ snap_valid sn = true /\
                 sn_docs sn = sdocs /\ sn_last_seq sn = sseq /\ sn_metric sn = c_metric c /\
                 (sdocs <> [] -> sn_dim sn = c_dim c) /\ sorted sdocs
  end.

Lemma wf_dim : forall c, wf_cfg c = true -> 0 < c_dim c /\ 0 < c_capacity c.
Proof.
  intros c H. unfold wf_cfg in H. apply andb_true_iff in H. destruct H as [A B].
  apply N.ltb_lt in A. apply N.ltb_lt in B. split; assumption.
Qed.

Lemma recover_read_ok : forall c d m sdocs sseq nx,
  wf_cfg c = true ->
  dget d NManifest = Some (FManifest m) ->
  snap_ok c d m sdocs sseq ->
  (forall nm, In nm (m_segments m) -> wal_readable d nm) ->
  Forall (entry_ok c nx) (all_entries d (m_segments m)) ->
  recover_read c Strict d
  = Ok (replay_pure sseq sdocs (all_entries d (m_segments m)),
        maxseq sseq (all_entries d (m_segments m)), m).
Proof.
  intros c d m sdocs sseq nx Hwf Hm [Hq Hs] Hg Hok.
  destruct (wf_dim _ Hwf) as [Hdim _].
  unfold recover_read. destruct (N.eqb_spec (c_dim c) 0) as [E|E]; [lia|]. rewrite Hm.
  destruct (m_snapshot m) as [nm|].
  - destruct Hs as (k & sn & -> & Hf & Hv & Hd & Hl & Hme & Hdi & Hso).
    unfold load_with_validation, snap_load. rewrite Hf, Hv.
    assert (Hmet : (match sn_metric sn, c_metric c with
                    | Euclidean, Euclidean | Cosine, Cosine | InnerProduct, InnerProduct => true
                    | _, _ => false end) = true) by (rewrite Hme; destruct (c_metric c); reflexivity).
    rewrite Hmet. cbn [negb].
    assert (Hchk : (negb (match sn_docs sn with [] => true | _ :: _ => false end) && (sn_dim sn =? 0) = false)
                   /\ (negb (match sn_docs sn with [] => true | _ :: _ => false end) && negb (sn_dim sn =? c_dim c) = false)).
    { rewrite Hd. destruct sdocs as [|x r]; [split; reflexivity|].
      rewrite Hdi by discriminate. cbn [negb andb].
      destruct (N.eqb_spec (c_dim c) 0); [lia|]. rewrite N.eqb_refl. split; reflexivity. }
    destruct Hchk as [-> ->].
    rewrite Hd, Hl, (of_list_sorted _ Hso), Hq.
    rewrite (replay_segments_ok c d sseq nx) by assumption.
    rewrite N.ltb_irrefl. reflexivity.
  - destruct Hs as [-> ->]. rewrite Hq.
    rewrite (replay_segments_ok c d 0 nx) by assumption.
    rewrite N.ltb_irrefl. reflexivity.
Qed.

(* documents as the engine stores them: right dimension, already normalised, accepted by the index *)
Definition doc_ok (c : cfg) (d : doc) : Prop :=
  len (d_vec d) = c_dim c /\ normalize_if_needed c (d_vec d) = Some (d_vec d) /\ c_accepts c (d_vec d) = true.

Definition docs_ok (c : cfg) (st : store) : Prop := Forall (fun kd => doc_ok c (snd kd)) st.

Lemma rebuild_docs_ok : forall c st, docs_ok c st -> rebuild_docs c st = Ok st.
Proof.
  intros c st H. induction H as [|[id d] r Hd Hr IH]; [reflexivity|].
  destruct Hd as (H1 & H2 & H3). cbn [snd] in *. cbn [rebuild_docs].
  rewrite H1, N.eqb_refl. cbn [negb]. rewrite H2, IH. destruct d; reflexivity.
Qed.

Lemma accepts_all_ok : forall c st, docs_ok c st ->
  forallb (fun kd : N * doc => c_accepts c (d_vec (snd kd))) st = true.
Proof.
  intros c st H. induction H as [|[id d] r Hd Hr IH]; [reflexivity|].
  destruct Hd as (H1 & H2 & H3). cbn [snd] in *. cbn [forallb snd]. rewrite H3, IH. reflexivity.
Qed.

Lemma docs_ok_set : forall c st k d, docs_ok c st -> doc_ok c d -> docs_ok c (set st k d).
Proof.
  intros c st k d H Hd. induction H as [|[k0 d0] r H0 Hr IH]; cbn [set].
  - constructor; [exact Hd|constructor].
  - destruct (N.eqb k0 k).
    + constructor; [exact Hd|exact Hr].
    + destruct (N.ltb k k0).
      * constructor; [exact Hd|]. constructor; [exact H0|exact Hr].
      * constructor; [exact H0|exact IH].
Qed.

Lemma docs_ok_remove : forall c st k, docs_ok c st -> docs_ok c (remove st k).
Proof.
  intros c st k H. induction H as [|[k0 d0] r H0 Hr IH]; cbn [remove]; [constructor|].
  destruct (N.eqb k0 k); [exact Hr|]. constructor; [exact H0|exact IH].
Qed.

Lemma docs_ok_get : forall c st k d, docs_ok c st -> get st k = Some d -> doc_ok c d.
Proof.
  intros c st k d H Hg. apply get_in in Hg. unfold docs_ok in H. rewrite Forall_forall in H.
  apply (H _ Hg).
Qed.

(* ------------------------------------------------------------------------------------------ *)
(* 4. The disk invariant                                                                       *)
(* ------------------------------------------------------------------------------------------ *)

Definition is_wal (nm : name) : Prop := exists k, nm = NWal k.

(* InvD c lst d a nx: directory d, whose active segment is a and whose writer will use sequence number
   nx next, encodes exactly the collection lst (DESIGN.md §3.2 (i)-(iv)). *)
Definition InvD (c : cfg) (lst : store) (d : dir) (a : name) (nx : N) : Prop :=
  exists m sdocs sseq,
    dget d NManifest = Some (FManifest m) /\
    (exists pre, m_segments m = pre ++ [a]) /\
    NoDup (m_segments m) /\
    Forall is_wal (m_segments m) /\
    (forall nm, In nm (m_segments m) -> wal_good d nm) /\
    snap_ok c d m sdocs sseq /\
    Forall (entry_ok c nx) (all_entries d (m_segments m)) /\
    maxseq sseq (all_entries d (m_segments m)) + 1 = nx /\
    replay_pure sseq sdocs (all_entries d (m_segments m)) = lst.

Lemma maxseq_ge : forall es mx, mx <= maxseq mx es.
Proof.
  induction es as [|e r IH]; intros mx; unfold maxseq in *; cbn [fold_left]; [lia|].
  specialize (IH (N.max mx (e_seq e))). lia.
Qed.

Lemma maxseq_app : forall a b mx, maxseq mx (a ++ b) = maxseq (maxseq mx a) b.
Proof. intros. unfold maxseq. apply fold_left_app. Qed.

Lemma maxseq_le_all : forall es mx, Forall (fun e => e_seq e <= mx) es -> maxseq mx es = mx.
Proof.
  induction es as [|e r IH]; intros mx H; unfold maxseq in *; cbn [fold_left]; [reflexivity|].
  inversion H as [|x l Hx Hr]; subst. replace (N.max mx (e_seq e)) with mx by lia. apply IH; assumption.
Qed.

Lemma all_entries_app : forall d a b, all_entries d (a ++ b) = all_entries d a ++ all_entries d b.
Proof. intros. unfold all_entries. apply flat_map_app. Qed.

Lemma entries_of_agree : forall d d' x, dget d' x = dget d x -> entries_of d' x = entries_of d x.
Proof. intros d d' x H. unfold entries_of. rewrite H. reflexivity. Qed.

Lemma all_entries_agree : forall d d' segs,
  (forall x, In x segs -> dget d' x = dget d x) -> all_entries d' segs = all_entries d segs.
Proof.
  intros d d'. induction segs as [|x r IH]; intros H; [reflexivity|].
  unfold all_entries in *. cbn [flat_map]. rewrite (entries_of_agree d d' x) by (apply H; left; reflexivity).
  rewrite IH; [reflexivity|]. intros y Hy. apply H. right. exact Hy.
Qed.

Lemma wal_good_agree : forall d d' x, dget d' x = dget d x -> wal_good d x -> wal_good d' x.
Proof. intros d d' x H [es He]. exists es. rewrite H. exact He. Qed.

Lemma snap_ok_agree : forall c d d' m sdocs sseq,
  (forall nm, m_snapshot m = Some nm -> dget d' nm = dget d nm) ->
  snap_ok c d m sdocs sseq -> snap_ok c d' m sdocs sseq.
Proof.
  intros c d d' m sdocs sseq H [Hq Hs]. split; [exact Hq|].
  destruct (m_snapshot m) as [nm|]; [|exact Hs].
  destruct Hs as (k & sn & E & Hf & R). exists k, sn. split; [exact E|]. split; [|exact R].
  rewrite H by reflexivity. exact Hf.
Qed.

Lemma is_wal_neq : forall x, is_wal x ->
  x <> NManifest /\ x <> NManifestTmp /\ (forall k, x <> NSnap k) /\ (forall k, x <> NSnapTmp k).
Proof. intros x [k ->]. repeat split; intros; discriminate. Qed.

Lemma nodup_snoc : forall (l : list name) x, NoDup l -> ~ In x l -> NoDup (l ++ [x]).
Proof.
  induction l as [|y r IH]; intros x Hn Hx; cbn.
  - constructor; [intros []|constructor].
  - inversion Hn as [|z l Hy Hr]; subst. constructor.
    + intro Hin. apply in_app_or in Hin. destruct Hin as [Hin|[E|[]]]; [contradiction|].
      apply Hx. left. symmetry. exact E.
    + apply IH; [exact Hr|]. intro. apply Hx. right. assumption.
Qed.

Lemma nodup_snoc_inv : forall (l : list name) x, NoDup (l ++ [x]) -> ~ In x l.
Proof.
  intros l x H. pose proof (NoDup_remove_2 l [] x H) as H2. rewrite app_nil_r in H2. exact H2.
Qed.

(* consecutive sequence numbers, as assigned by fetch_add *)
Fixpoint seqs_from (b : N) (es : list entry) : Prop :=
  match es with
  | [] => True
  | e :: r => e_seq e = b /\ seqs_from (b + 1) r
  end.

Lemma len_cons : forall A (x : A) l, len (x :: l) = len l + 1.
Proof. intros. unfold len. cbn [length]. rewrite Nat2N.inj_succ. lia. Qed.

Lemma len_nil : forall A, len (@nil A) = 0.
Proof. reflexivity. Qed.

Lemma seqs_from_range : forall es b, seqs_from b es ->
  Forall (fun e => b <= e_seq e /\ e_seq e < b + len es) es.
Proof.
  induction es as [|e r IH]; intros b H; [constructor|].
  destruct H as [E H]. rewrite len_cons. constructor; [lia|].
  specialize (IH _ H). eapply Forall_impl; [|exact IH]. cbn. intros x Hx. lia.
Qed.

Lemma seqs_from_maxseq : forall es b mx, seqs_from b es -> mx + 1 = b -> maxseq mx es + 1 = b + len es.
Proof.
  induction es as [|e r IH]; intros b mx H Hb.
  - cbn. rewrite len_nil. lia.
  - destruct H as [E H]. cbn [maxseq fold_left]. fold (maxseq (N.max mx (e_seq e)) r).
    rewrite len_cons. rewrite (IH (b + 1) (N.max mx (e_seq e)) H) by lia. lia.
Qed.

Lemma filter_keep_all : forall sseq es, Forall (fun e => sseq < e_seq e) es -> filter (keep_e sseq) es = es.
Proof.
  intros sseq es H. induction H as [|e r He Hr IH]; [reflexivity|].
  cbn [filter]. unfold keep_e at 1. unfold covered.
  replace (e_seq e <=? sseq) with false by (symmetry; apply N.leb_gt; exact He).
  rewrite !andb_false_r. cbn [negb]. rewrite IH. reflexivity.
Qed.

Lemma filter_keep_none : forall sseq es, Forall (fun e => 1 <= e_seq e /\ e_seq e <= sseq) es ->
  filter (keep_e sseq) es = [].
Proof.
  intros sseq es H. induction H as [|e r He Hr IH]; [reflexivity|].
  cbn [filter]. unfold keep_e at 1. unfold covered.
  replace (0 <? e_seq e) with true by (symmetry; apply N.ltb_lt; lia).
  replace (0 <? sseq) with true by (symmetry; apply N.ltb_lt; lia).
  replace (e_seq e <=? sseq) with true by (symmetry; apply N.leb_le; lia).
  cbn [andb negb]. exact IH.
Qed.

(* T1: appending frames to the active segment *)
Lemma InvD_append : forall c lst d a nx es,
  InvD c lst d a nx -> seqs_from nx es ->
  Forall (fun e => e_op e = Ins -> len (e_vec e) = c_dim c) es ->
  InvD c (fold_left apply_entry es lst) (apply_effs d (append_effs a es ++ fsync_effs c a)) a (nx + len es).
Proof.
  intros c lst d a nx es (m & sdocs & sseq & Hm & [pre Hpre] & Hnd & Hw & Hg & Hs & Hok & Hmx & Hrp) Hsq Hdim.
  rewrite apply_effs_app, fsync_effs_nop.
  set (d' := apply_effs d (append_effs a es)).
  assert (Ha : In a (m_segments m)) by (rewrite Hpre; apply in_or_app; right; left; reflexivity).
  assert (Hwa : is_wal a) by (rewrite Forall_forall in Hw; apply Hw; exact Ha).
  destruct (is_wal_neq _ Hwa) as (N1 & N2 & N3 & N4).
  destruct (Hg a Ha) as [es0 Hes0].
  assert (Hna : ~ In a pre) by (apply nodup_snoc_inv; rewrite <- Hpre; exact Hnd).
  assert (Hother : forall x, x <> a -> dget d' x = dget d x) by (intros x Hx; apply append_other; exact Hx).
  assert (Hent : all_entries d' (m_segments m) = all_entries d (m_segments m) ++ es).
  { rewrite Hpre, !all_entries_app.
    rewrite (all_entries_agree d d' pre) by (intros x Hx; apply Hother; intro; subst; contradiction).
    rewrite <- app_assoc. f_equal. unfold all_entries. cbn [flat_map]. rewrite !app_nil_r.
    rewrite (entries_of_good _ _ _ _ Hes0).
    apply (entries_of_good d' a (es0 ++ es) Clean). apply append_get. exact Hes0. }
  pose proof (seqs_from_range _ _ Hsq) as Hrange.
  pose proof (maxseq_ge (all_entries d (m_segments m)) sseq) as Hge.
  exists m, sdocs, sseq. repeat split.
  - rewrite Hother by congruence. exact Hm.
  - exists pre. exact Hpre.
  - exact Hnd.
  - exact Hw.
  - intros nm Hin. destruct (name_eqb_spec nm a) as [->|Hne].
    + exists (es0 ++ es). apply append_get. exact Hes0.
    + apply (wal_good_agree d d'); [apply Hother; exact Hne|apply Hg; exact Hin].
  - destruct Hs as [Hq _]. exact Hq.
  - destruct Hs as [_ Hs]. destruct (m_snapshot m) as [nm|]; [|exact Hs].
    destruct Hs as (k & sn & E & Hf & R). exists k, sn. split; [exact E|]. split; [|exact R].
    rewrite Hother; [exact Hf|]. subst nm. apply not_eq_sym. apply N3.
  - rewrite Hent. apply Forall_app. split.
    + eapply Forall_impl; [|exact Hok]. intros e (A & B & C). repeat split; [exact A|lia|exact C].
    + rewrite Forall_forall in *. intros e He. specialize (Hrange e He). specialize (Hdim e He).
      repeat split; [lia|lia|exact Hdim].
  - rewrite Hent, maxseq_app. apply seqs_from_maxseq; [exact Hsq|exact Hmx].
  - rewrite Hent. unfold replay_pure in *. rewrite filter_app, fold_left_app, Hrp.
    rewrite filter_keep_all; [reflexivity|].
    eapply Forall_impl; [|exact Hrange]. cbn. intros e He. lia.
Qed.

(* T2: a fresh empty segment is created and then listed last in the manifest (rotation, recovery) *)
Lemma InvD_newseg : forall c lst d a nx m,
  InvD c lst d a nx -> dget d NManifest = Some (FManifest m) ->
  InvD c lst
    (apply_effs (apply_effs d (new_wal_effs (NWal (fresh_id d))))
       (save_manifest_effs (mkManifest (m_snapshot m) (m_snapshot_seq m) (m_segments m ++ [NWal (fresh_id d)]))))
    (NWal (fresh_id d)) nx.
Proof.
  intros c lst d a nx m0 (m & sdocs & sseq & Hm & [pre Hpre] & Hnd & Hw & Hg & Hs & Hok & Hmx & Hrp) Hm0.
  rewrite Hm in Hm0. inversion Hm0; subst m0. clear Hm0.
  set (f := NWal (fresh_id d)).
  set (m' := mkManifest (m_snapshot m) (m_snapshot_seq m) (m_segments m ++ [f])).
  set (d1 := apply_effs d (new_wal_effs f)).
  set (d' := apply_effs d1 (save_manifest_effs m')).
  assert (Hf : dget d f = None) by (apply fresh_none; reflexivity).
  assert (Hother : forall x, x <> f -> x <> NManifest -> x <> NManifestTmp -> dget d' x = dget d x).
  { intros x A B C. unfold d'. rewrite save_manifest_other by assumption.
    unfold d1. apply new_wal_other; assumption. }
  assert (Hseg : forall x, In x (m_segments m) -> dget d' x = dget d x).
  { intros x Hx. assert (Hwx : is_wal x) by (rewrite Forall_forall in Hw; apply Hw; exact Hx).
    destruct (is_wal_neq _ Hwx) as (N1 & N2 & _). apply Hother; try assumption.
    intro; subst x. destruct (Hg f Hx) as [es He]. rewrite Hf in He. discriminate. }
  assert (Hff : dget d' f = Some (FWal [] Clean)).
  { unfold d'. rewrite save_manifest_other by (unfold f; discriminate). unfold d1. apply new_wal_get. exact Hf. }
  assert (Hent : all_entries d' (m_segments m ++ [f]) = all_entries d (m_segments m)).
  { rewrite all_entries_app, (all_entries_agree d d' _ Hseg).
    unfold all_entries at 2. cbn [flat_map]. unfold entries_of. rewrite Hff. cbn. rewrite !app_nil_r. reflexivity. }
  exists m', sdocs, sseq. cbn [m_segments m_snapshot m_snapshot_seq m'].
  repeat split.
  - unfold d'. apply save_manifest_get.
  - exists (m_segments m). reflexivity.
  - apply nodup_snoc; [exact Hnd|]. intro Hin. destruct (Hg f Hin) as [es He]. rewrite Hf in He. discriminate.
  - apply Forall_app. split; [exact Hw|]. constructor; [exists (fresh_id d); reflexivity|constructor].
  - intros nm Hin. apply in_app_or in Hin. destruct Hin as [Hin|[<-|[]]].
    + apply (wal_good_agree d d'); [apply Hseg; exact Hin|apply Hg; exact Hin].
    + exists []. exact Hff.
  - destruct Hs as [Hq _]. exact Hq.
  - destruct Hs as [_ Hs]. cbn [m_snapshot m']. destruct (m_snapshot m) as [nm|]; [|exact Hs].
    destruct Hs as (k & sn & E & Hfs & R). exists k, sn. split; [exact E|]. split; [|exact R].
    rewrite Hother; [exact Hfs| | |]; subst nm; unfold f; discriminate.
  - rewrite Hent. exact Hok.
  - rewrite Hent. exact Hmx.
  - rewrite Hent. exact Hrp.
Qed.

Lemma InvD_intro : forall c lst d a nx m sdocs sseq,
  dget d NManifest = Some (FManifest m) ->
  (exists pre, m_segments m = pre ++ [a]) ->
  NoDup (m_segments m) ->
  Forall is_wal (m_segments m) ->
  (forall nm, In nm (m_segments m) -> wal_good d nm) ->
  snap_ok c d m sdocs sseq ->
  Forall (entry_ok c nx) (all_entries d (m_segments m)) ->
  maxseq sseq (all_entries d (m_segments m)) + 1 = nx ->
  replay_pure sseq sdocs (all_entries d (m_segments m)) = lst ->
  InvD c lst d a nx.
Proof.
  intros c lst d a nx m sdocs sseq H1 H2 H3 H4 H5 H6 H7 H8 H9. exists m, sdocs, sseq.
  exact (conj H1 (conj H2 (conj H3 (conj H4 (conj H5 (conj H6 (conj H7 (conj H8 H9)))))))).
Qed.

(* ------------------------------------------------------------------------------------------ *)
(* 5. Snapshot + log compaction                                                                *)
(* ------------------------------------------------------------------------------------------ *)

Lemma compact_cons : forall d q nm y r, exists k0 del0,
  compact_segments d q (y :: r) = (k0, del0) /\
  (compact_segments d q (nm :: y :: r) = (k0, del0) \/
   compact_segments d q (nm :: y :: r) = (nm :: k0, del0) \/
   compact_segments d q (nm :: y :: r) = (k0, nm :: del0)).
Proof.
  intros d q nm y r.
  change (compact_segments d q (nm :: y :: r)) with
    (let '(k, del) := compact_segments d q (y :: r) in
     match dget d nm with
     | None => (k, del)
     | Some (FWal frs t) =>
         let '(es, corrupted) := read_all frs t in
         if (0 <? corrupted) || negb (forallb (covered q) es) then (nm :: k, del) else (k, nm :: del)
     | Some _ => (nm :: k, del)
     end).
  destruct (compact_segments d q (y :: r)) as [k0 del0]. exists k0, del0. split; [reflexivity|].
  destruct (dget d nm) as [[| frs t | | |]|]; auto.
  destruct (read_all frs t) as [es co]. destruct ((0 <? co) || negb (forallb (covered q) es)); auto.
Qed.

Lemma compact_props : forall d q segs k del, compact_segments d q segs = (k, del) ->
  (forall x, In x k -> In x segs) /\ (forall x, In x del -> In x segs) /\
  (NoDup segs -> NoDup k /\ forall x, In x del -> ~ In x k) /\
  (forall pre a, segs = pre ++ [a] -> exists pre', k = pre' ++ [a]).
Proof.
  intros d q. induction segs as [|nm rest IH]; intros k del H.
  - cbn in H. inversion H; subst. split; [|split; [|split]].
    + intros x Hx; exact Hx.
    + intros x Hx; exact Hx.
    + intros _. split; [constructor|intros x []].
    + intros pre a E. destruct pre; discriminate.
  - destruct rest as [|y r].
    + cbn in H. inversion H; subst. split; [|split; [|split]].
      * intros x Hx; exact Hx.
      * intros x [].
      * intros _. split; [constructor; [intros []|constructor]|intros x []].
      * intros pre a E. destruct pre as [|p pre].
        -- cbn in E. inversion E; subst. exists []. reflexivity.
        -- cbn in E. inversion E as [[E1 E2]]. destruct pre; discriminate.
    + destruct (compact_cons d q nm y r) as (k0 & del0 & E0 & Hc).
      destruct (IH _ _ E0) as (I1 & I2 & I3 & I4).
      assert (Hlast : forall pre a, nm :: y :: r = pre ++ [a] -> exists pre1, pre = nm :: pre1 /\ y :: r = pre1 ++ [a]).
      { intros pre a E. destruct pre as [|p pre]; [discriminate|]. cbn in E. inversion E; subst.
        exists pre. split; [reflexivity|assumption]. }
      destruct Hc as [Hc|[Hc|Hc]]; rewrite Hc in H; inversion H; subst; clear H.
      * split; [|split; [|split]].
        -- intros x Hx. right. apply I1. exact Hx.
        -- intros x Hx. right. apply I2. exact Hx.
        -- intros H. inversion H as [|z l Hn Hr]; subst. apply I3. exact Hr.
        -- intros pre a E. destruct (Hlast _ _ E) as (pre1 & -> & E1). apply (I4 _ _ E1).
      * split; [|split; [|split]].
        -- intros x [->|Hx]; [left; reflexivity|right; apply I1; exact Hx].
        -- intros x Hx. right. apply I2. exact Hx.
        -- intros H. inversion H as [|z l Hn Hr]; subst. destruct (I3 Hr) as [Hk Hd]. split.
           ++ constructor; [intro Hin; apply Hn; apply I1; exact Hin|exact Hk].
           ++ intros x Hx [->|Hin]; [apply Hn; apply I2; exact Hx|apply (Hd x Hx Hin)].
        -- intros pre a E. destruct (Hlast _ _ E) as (pre1 & -> & E1).
           destruct (I4 _ _ E1) as [pre' ->]. exists (nm :: pre'). reflexivity.
      * split; [|split; [|split]].
        -- intros x Hx. right. apply I1. exact Hx.
        -- intros x [->|Hx]; [left; reflexivity|right; apply I2; exact Hx].
        -- intros H. inversion H as [|z l Hn Hr]; subst. destruct (I3 Hr) as [Hk Hd]. split; [exact Hk|].
           intros x [->|Hx] Hin; [apply Hn; apply I1; exact Hin|apply (Hd x Hx Hin)].
        -- intros pre a E. destruct (Hlast _ _ E) as (pre1 & -> & E1). apply (I4 _ _ E1).
Qed.

Lemma sorted_nodupb : forall (st : store), sorted st -> nodupb (map fst st) = true.
Proof.
  induction st as [|[k v] r IH]; intros H; [reflexivity|].
  destruct H as [Hlt Hs]. cbn [map fst nodupb]. rewrite (lt_all_not_in r k Hlt). cbn [negb andb].
  apply IH. exact Hs.
Qed.

Definition store_dim (st : store) : N := match st with [] => 0 | (_, d) :: _ => len (d_vec d) end.

Lemma snap_valid_store : forall c st mt last, sorted st -> docs_ok c st ->
  snap_valid (mkSnap (store_dim st) mt st last) = true /\ (st <> [] -> store_dim st = c_dim c).
Proof.
  intros c st mt last Hs Hd. unfold snap_valid. cbn [sn_dim sn_docs].
  rewrite (sorted_nodupb _ Hs), andb_true_r.
  destruct st as [|[k d] r]; [split; [reflexivity|intros H; contradiction]|].
  assert (E : store_dim ((k, d) :: r) = c_dim c).
  { inversion Hd as [|x l Hx Hr]; subst. destruct Hx as (A & _). exact A. }
  split; [|intros _; exact E]. rewrite E. apply orb_true_iff. right.
  apply forallb_forall. intros [k' d'] Hin. unfold docs_ok in Hd. rewrite Forall_forall in Hd.
  destruct (Hd _ Hin) as (A & _). cbn [snd] in *. rewrite A. apply N.eqb_refl.
Qed.

Lemma in_all_entries_sub : forall d k segs e,
  (forall x, In x k -> In x segs) -> In e (all_entries d k) -> In e (all_entries d segs).
Proof.
  intros d k segs e H Hin. unfold all_entries in *. apply in_flat_map in Hin. destruct Hin as (x & Hx & He).
  apply in_flat_map. exists x. split; [apply H; exact Hx|exact He].
Qed.

Definition InvDs (c : cfg) (lst : store) (s : state) : Prop :=
  InvD c lst (st_disk s) (st_active s) (st_next_seq s).

(* T3: create_snapshot on a state whose directory encodes the live store *)
Lemma create_snapshot_inv : forall c s,
  InvDs c (st_store s) s -> sorted (st_store s) -> docs_ok c (st_store s) ->
  let s' := fst (fst (create_snapshot c s)) in
  InvDs c (st_store s) s' /\ st_store s' = st_store s /\ st_slots s' = st_slots s /\
  snd (fst (create_snapshot c s)) = OOk.
Proof.
  intros c s (m & sdocs & sseq & Hm & [pre Hpre] & Hnd & Hw & Hg & Hs & Hok & Hmx & Hrp) Hso Hdo.
  unfold create_snapshot. fold (store_dim (st_store s)).
  set (last := N.pred (st_next_seq s)).
  set (sn := mkSnap (store_dim (st_store s)) (c_metric c) (st_store s) last).
  destruct (snap_valid_store c (st_store s) (c_metric c) last Hso Hdo) as [Hv Hdim].
  fold sn in Hv. rewrite Hv. cbn [negb].
  set (k := fresh_id (st_disk s)).
  set (d := st_disk s) in *.
  set (d1 := apply_effs d (save_snapshot_effs k sn)).
  assert (Hm1 : load_manifest d1 = Some m).
  { unfold load_manifest, d1. rewrite save_snapshot_other by discriminate. rewrite Hm. reflexivity. }
  rewrite Hm1.
  pose proof (maxseq_ge (all_entries d (m_segments m)) sseq) as Hge.
  assert (Hlast : last + 1 = st_next_seq s) by (unfold last; lia).
  destruct Hs as [Hq Hs]. rewrite Hq.
  replace (last <? sseq) with false by (symmetry; apply N.ltb_ge; lia).
  set (m1 := mkManifest (Some (NSnap k)) (Some last) (m_segments m)).
  set (d2 := apply_effs d1 (save_manifest_effs m1)).
  destruct (compact_segments d2 last (m_segments m)) as [keep del] eqn:EC.
  destruct (compact_props _ _ _ _ _ EC) as (C1 & C2 & C3 & C4).
  destruct (C3 Hnd) as [Cnd Cdis]. destruct (C4 _ _ Hpre) as [pre' Hpre'].
  set (m2 := mkManifest (Some (NSnap k)) (Some last) keep).
  set (e3a := match del with [] => [] | _ :: _ => save_manifest_effs m2 end).
  cbn [fst snd with_since with_disk st_store st_slots st_disk st_active st_next_seq].
  unfold InvDs. cbn [st_disk st_active st_next_seq].
  rewrite apply_effs_app.
  set (d3 := apply_effs d2 e3a).
  set (d4 := apply_effs d3 (map EUnlink del)).
  set (d' := apply_effs d4 (save_manifest_effs m2)).
  assert (H3a : forall x, x <> NManifest -> x <> NManifestTmp -> dget d3 x = dget d2 x).
  { intros x A B. unfold d3, e3a. destruct del; [reflexivity|]. apply save_manifest_other; assumption. }
  assert (Hwal : forall x, In x (m_segments m) -> is_wal x) by (rewrite Forall_forall in Hw; exact Hw).
  assert (Hkeep : forall x, In x keep -> dget d' x = dget d x).
  { intros x Hx. destruct (is_wal_neq _ (Hwal _ (C1 _ Hx))) as (N1 & N2 & N3 & N4).
    unfold d'. rewrite save_manifest_other by assumption.
    unfold d4. rewrite unlinks_other by (intro Hin; apply (Cdis _ Hin Hx)).
    rewrite H3a by assumption. unfold d2. rewrite save_manifest_other by assumption.
    unfold d1. apply save_snapshot_other; [apply N3|apply N4]. }
  assert (Hsnapf : dget d' (NSnap k) = Some (FSnap sn)).
  { unfold d'. rewrite save_manifest_other by discriminate.
    unfold d4. rewrite unlinks_other.
    - rewrite H3a by discriminate. unfold d2. rewrite save_manifest_other by discriminate.
      unfold d1. apply save_snapshot_get.
    - intro Hin. destruct (Hwal _ (C2 _ Hin)) as [j Hj]. discriminate. }
  assert (Hent : all_entries d' keep = all_entries d keep) by (apply all_entries_agree; exact Hkeep).
  assert (Hall : Forall (fun e => 1 <= e_seq e /\ e_seq e <= last) (all_entries d keep)).
  { apply Forall_forall. intros e He. apply (in_all_entries_sub d keep (m_segments m) e C1) in He.
    rewrite Forall_forall in Hok. destruct (Hok _ He) as (A & B & _). lia. }
  split; [|split; [reflexivity|split; reflexivity]].
  apply (InvD_intro c _ d' _ _ m2 (st_store s) last); cbn [m_segments m_snapshot m_snapshot_seq m2].
  - unfold d'. apply save_manifest_get.
  - exists pre'. exact Hpre'.
  - exact Cnd.
  - apply Forall_forall. intros x Hx. apply Hwal. apply C1. exact Hx.
  - intros nm Hin. apply (wal_good_agree d d'); [apply Hkeep; exact Hin|apply Hg; apply C1; exact Hin].
  - split; [reflexivity|]. cbn [m_snapshot m2]. exists k, sn.
    split; [reflexivity|]. split; [exact Hsnapf|]. split; [exact Hv|]. split; [reflexivity|].
    split; [reflexivity|]. split; [reflexivity|]. split; [exact Hdim|exact Hso].
  - rewrite Hent. apply Forall_forall. intros e He.
    apply (in_all_entries_sub d keep (m_segments m) e C1) in He.
    rewrite Forall_forall in Hok. exact (Hok _ He).
  - rewrite Hent. rewrite maxseq_le_all; [exact Hlast|].
    eapply Forall_impl; [|exact Hall]. cbn. intros e He. lia.
  - rewrite Hent. unfold replay_pure. rewrite (filter_keep_none _ _ Hall). reflexivity.
Qed.

(* ------------------------------------------------------------------------------------------ *)
(* 6. State-level lemmas: append, rotation, automatic snapshot, recovery                       *)
(* ------------------------------------------------------------------------------------------ *)

Definition InvM (c : cfg) (s : state) : Prop :=
  sorted (st_store s) /\ docs_ok c (st_store s) /\
  size (st_store s) <= st_slots s /\ st_slots s <= c_capacity c.

(* Backend.Inv of DESIGN.md §3.2 *)
Definition Inv (c : cfg) (s : state) : Prop := InvDs c (st_store s) s /\ InvM c s.

Lemma InvM_eq : forall c s s', st_store s' = st_store s -> st_slots s' = st_slots s -> InvM c s -> InvM c s'.
Proof. intros c s s' E1 E2 H. unfold InvM in *. rewrite E1, E2. exact H. Qed.

Lemma InvDs_has_manifest : forall c lst s, InvDs c lst s -> has_manifest (st_disk s) = true.
Proof. intros c lst s (m & sdocs & sseq & Hm & _). unfold has_manifest. rewrite Hm. reflexivity. Qed.

Lemma append_inv : forall c lst s es,
  InvDs c lst s -> seqs_from (st_next_seq s) es ->
  Forall (fun e => e_op e = Ins -> len (e_vec e) = c_dim c) es ->
  let s1 := fst (append_entries c s es) in
  InvDs c (fold_left apply_entry es lst) s1 /\ st_store s1 = st_store s /\ st_slots s1 = st_slots s /\
  st_since_snap s1 = st_since_snap s /\ st_next_seq s1 = st_next_seq s + len es.
Proof.
  intros c lst s es H Hs Hd. unfold append_entries. cbn [fst].
  unfold InvDs. cbn [st_disk st_active st_next_seq st_store st_slots st_since_snap].
  split; [|auto]. apply InvD_append; assumption.
Qed.

Lemma rotate_inv : forall c lst s, InvDs c lst s ->
  let s' := fst (rotate_if_needed c s) in
  InvDs c lst s' /\ st_store s' = st_store s /\ st_slots s' = st_slots s /\
  st_since_snap s' = st_since_snap s /\ st_next_seq s' = st_next_seq s.
Proof.
  intros c lst s H. unfold rotate_if_needed.
  destruct ((c_max_wal c =? 0) || (st_bytes s <? c_max_wal c)); [cbn [fst]; auto 10|].
  pose proof H as (m & sdocs & sseq & Hm & _).
  assert (Hl : load_manifest (apply_effs (st_disk s) (new_wal_effs (NWal (fresh_id (st_disk s))))) = Some m).
  { unfold load_manifest. rewrite new_wal_other; [rewrite Hm; reflexivity|apply fresh_none; reflexivity|discriminate]. }
  rewrite Hl. cbn [fst st_store st_slots st_since_snap st_next_seq]. split; [|auto].
  unfold InvDs. cbn [st_disk st_active st_next_seq].
  exact (InvD_newseg c lst (st_disk s) (st_active s) (st_next_seq s) m H Hm).
Qed.

Lemma maybe_snapshot_inv : forall c s,
  InvDs c (st_store s) s -> sorted (st_store s) -> docs_ok c (st_store s) ->
  let s' := fst (maybe_snapshot c s) in
  InvDs c (st_store s) s' /\ st_store s' = st_store s /\ st_slots s' = st_slots s.
Proof.
  intros c s H Hso Hdo. unfold maybe_snapshot.
  destruct ((0 <? c_snapshot_interval c) && (c_snapshot_interval c <=? st_since_snap s)); [|cbn [fst]; auto].
  pose proof (create_snapshot_inv c s H Hso Hdo) as X.
  destruct (create_snapshot c s) as [[s' o] e]. cbn [fst snd] in *. tauto.
Qed.

Lemma size_le_cap_ltb : forall a b : N, a <= b -> (b <? a) = false.
Proof. intros. apply N.ltb_ge. assumption. Qed.

Lemma recover_inv : forall c s, wf_cfg c = true -> Inv c s ->
  exists s' effs, recover_full c Strict (st_disk s) = Ok (s', effs) /\
    st_store s' = st_store s /\ st_next_seq s' = st_next_seq s /\ Inv c s' /\
    st_disk s' = apply_effs (st_disk s) effs.
Proof.
  intros c s Hwf [H (Mso & Mdo & Msz & Mcap)].
  pose proof H as (m & sdocs & sseq & Hm & Hpre & Hnd & Hw & Hg & Hs & Hok & Hmx & Hrp).
  unfold recover_full.
  rewrite (recover_read_ok c (st_disk s) m sdocs sseq (st_next_seq s) Hwf Hm Hs
             (fun nm Hin => wal_good_readable _ _ (Hg nm Hin)) Hok).
  rewrite Hrp, (rebuild_docs_ok c _ Mdo).
  rewrite size_le_cap_ltb by lia. rewrite (accepts_all_ok c _ Mdo). cbn [negb].
  eexists. eexists. split; [reflexivity|]. cbn [st_store st_next_seq st_disk].
  split; [reflexivity|]. split; [exact Hmx|]. split; [|reflexivity].
  split.
  - unfold InvDs. cbn [st_store st_disk st_active st_next_seq]. rewrite Hmx, apply_effs_app.
    exact (InvD_newseg c (st_store s) (st_disk s) (st_active s) (st_next_seq s) m H Hm).
  - unfold InvM. cbn [st_store st_slots]. repeat split; try assumption; lia.
Qed.

(* ------------------------------------------------------------------------------------------ *)
(* 7. Every operation preserves Inv                                                            *)
(* ------------------------------------------------------------------------------------------ *)

(* The assumption about the outside world (DESIGN.md "Common persistence model"): normalisation is
   length-preserving and bitwise idempotent.  Measured by the harness on every vector it uses. *)
Definition norm_ok (c : cfg) : Prop :=
  forall v w, c_normalize c v = Some w -> length w = length v /\ c_normalize c w = Some w.

Lemma normalize_doc_ok : forall c v w mt, norm_ok c -> len v = c_dim c ->
  normalize_if_needed c v = Some w -> c_accepts c w = true -> doc_ok c (mkDoc w mt) /\ len w = c_dim c.
Proof.
  intros c v w mt Hn Hl Hw Ha. unfold doc_ok, normalize_if_needed in *. cbn [d_vec].
  destruct (c_metric c).
  - inversion Hw; subst. auto.
  - destruct (Hn _ _ Hw) as [L I]. unfold len in *. rewrite L. auto.
  - destruct (Hn _ _ Hw) as [L I]. unfold len in *. rewrite L. auto.
Qed.

Lemma size_set_le : forall (st : store) k d, size (set st k d) <= size st + 1.
Proof. intros. unfold size. pose proof (length_set_le st k d). lia. Qed.

Lemma size_remove_le : forall (st : store) k, size (remove st k) <= size st.
Proof. intros. unfold size. pose proof (length_remove_le st k). lia. Qed.

Lemma finish_with_snapshot : forall c s3,
  InvDs c (st_store s3) s3 -> InvM c s3 -> Inv c (fst (maybe_snapshot c s3)).
Proof.
  intros c s3 H M. pose proof M as (A & B & _).
  destruct (maybe_snapshot_inv c s3 H A B) as (X & E1 & E2).
  split; [rewrite E1; exact X|]. apply (InvM_eq c s3); assumption.
Qed.

Lemma do_insert_inv : forall c s id v m, norm_ok c -> Inv c s ->
  Inv c (fst (fst (do_insert c s id v m))).
Proof.
  intros c s id v m Hn [H M]. unfold do_insert.
  destruct (N.eqb_spec (len v) (c_dim c)) as [Hlen|Hlen]; cbn [negb]; [|exact (conj H M)].
  destruct (normalize_if_needed c v) as [w|] eqn:Hw; [|exact (conj H M)].
  destruct (c_accepts c w) eqn:Hacc; cbn [negb]; [|exact (conj H M)].
  destruct (normalize_doc_ok c v w (meta_canon m) Hn Hlen Hw Hacc) as [Hdoc Hlw].
  set (s0 := if (c_capacity c <=? st_slots s) && (size (st_store s) <? st_slots s)
             then with_slots s (size (st_store s)) else s).
  assert (H0 : InvDs c (st_store s) s0 /\ InvM c s0 /\ st_store s0 = st_store s).
  { unfold s0. destruct ((c_capacity c <=? st_slots s) && (size (st_store s) <? st_slots s)); [|auto].
    split; [exact H|]. split; [|reflexivity]. destruct M as (A & B & C & D).
    unfold InvM. cbn [with_slots st_store st_slots]. repeat split; try assumption; lia. }
  clearbody s0. destruct H0 as (H0 & M0 & E0).
  destruct (N.leb_spec (c_capacity c) (st_slots s0)) as [Hfull|Hfull].
  { cbn [fst]. split; [rewrite E0; exact H0|exact M0]. }
  rewrite (InvDs_has_manifest _ _ _ H0). cbn [negb].
  assert (Hsq : seqs_from (st_next_seq s0) [mkEntry Ins id w (meta_canon m) (st_next_seq s0)])
    by (cbn; auto).
  assert (Hdm : Forall (fun e => e_op e = Ins -> len (e_vec e) = c_dim c)
                       [mkEntry Ins id w (meta_canon m) (st_next_seq s0)])
    by (constructor; [intros _; exact Hlw|constructor]).
  pose proof (append_inv c (st_store s) s0 _ H0 Hsq Hdm) as A.
  destruct (append_entries c s0 [mkEntry Ins id w (meta_canon m) (st_next_seq s0)]) as [s1 e1].
  cbn [fst] in A. destruct A as (A1 & A2 & A3 & A4 & A5).
  pose proof (rotate_inv c _ s1 A1) as R.
  destruct (rotate_if_needed c s1) as [s2 e2]. cbn [fst] in R. destruct R as (R1 & R2 & R3 & R4 & R5).
  match goal with |- context [maybe_snapshot c ?x] => set (s3 := x) end.
  assert (H3 : InvDs c (st_store s3) s3).
  { unfold s3, InvDs. cbn [st_store st_disk st_active st_next_seq]. rewrite R2, A2, E0. exact R1. }
  assert (M3 : InvM c s3).
  { destruct M0 as (A & B & C & D). rewrite E0 in A, B, C.
    unfold s3, InvM. cbn [st_store st_slots]. rewrite R2, A2, E0, R3, A3.
    split; [apply sorted_set; exact A|]. split; [apply docs_ok_set; assumption|].
    pose proof (size_set_le (st_store s) id (mkDoc w (meta_canon m))). split; lia. }
  pose proof (finish_with_snapshot c s3 H3 M3) as F.
  destruct (maybe_snapshot c s3) as [s4 e4]. exact F.
Qed.

Lemma do_delete_inv : forall c s id, Inv c s -> Inv c (fst (fst (do_delete c s id))).
Proof.
  intros c s id [H M]. unfold do_delete.
  destruct (get (st_store s) id) as [d|] eqn:Hg; [|exact (conj H M)].
  rewrite (InvDs_has_manifest _ _ _ H). cbn [negb].
  assert (Hsq : seqs_from (st_next_seq s) [mkEntry Del id [] [] (st_next_seq s)]) by (cbn; auto).
  assert (Hdm : Forall (fun e => e_op e = Ins -> len (e_vec e) = c_dim c) [mkEntry Del id [] [] (st_next_seq s)])
    by (constructor; [intros E; discriminate|constructor]).
  pose proof (append_inv c (st_store s) s _ H Hsq Hdm) as A.
  destruct (append_entries c s [mkEntry Del id [] [] (st_next_seq s)]) as [s1 e1].
  cbn [fst] in A. destruct A as (A1 & A2 & A3 & A4 & A5).
  pose proof (rotate_inv c _ s1 A1) as R.
  destruct (rotate_if_needed c s1) as [s2 e2]. cbn [fst] in R. destruct R as (R1 & R2 & R3 & R4 & R5).
  match goal with |- context [maybe_snapshot c ?x] => set (s3 := x) end.
  assert (H3 : InvDs c (st_store s3) s3).
  { unfold s3, InvDs. cbn [with_since with_store st_store st_disk st_active st_next_seq]. rewrite R2, A2. exact R1. }
  assert (M3 : InvM c s3).
  { destruct M as (A & B & C & D).
    unfold s3, InvM. cbn [with_since with_store st_store st_slots]. rewrite R2, A2, R3, A3.
    split; [apply sorted_remove; exact A|]. split; [apply docs_ok_remove; exact B|].
    pose proof (size_remove_le (st_store s) id). split; lia. }
  pose proof (finish_with_snapshot c s3 H3 M3) as F.
  destruct (maybe_snapshot c s3) as [s4 e4]. exact F.
Qed.

Lemma do_update_inv : forall c s id m mg, Inv c s -> Inv c (fst (fst (do_update c s id m mg))).
Proof.
  intros c s id m mg [H M]. unfold do_update.
  destruct (get (st_store s) id) as [d|] eqn:Hg; [|exact (conj H M)].
  set (upd := if mg then meta_merge (d_meta d) m else meta_canon m). clearbody upd.
  rewrite (InvDs_has_manifest _ _ _ H). cbn [negb].
  assert (Hsq : seqs_from (st_next_seq s) [mkEntry Upd id [] upd (st_next_seq s)]) by (cbn; auto).
  assert (Hdm : Forall (fun e => e_op e = Ins -> len (e_vec e) = c_dim c) [mkEntry Upd id [] upd (st_next_seq s)])
    by (constructor; [intros E; discriminate|constructor]).
  pose proof (append_inv c (st_store s) s _ H Hsq Hdm) as A.
  destruct (append_entries c s [mkEntry Upd id [] upd (st_next_seq s)]) as [s1 e1].
  cbn [fst] in A. destruct A as (A1 & A2 & A3 & A4 & A5).
  pose proof (rotate_inv c _ s1 A1) as R.
  destruct (rotate_if_needed c s1) as [s2 e2]. cbn [fst] in R. destruct R as (R1 & R2 & R3 & R4 & R5).
  match goal with |- context [maybe_snapshot c ?x] => set (s3 := x) end.
  assert (H3 : InvDs c (st_store s3) s3).
  { unfold s3, InvDs. cbn [with_since with_store st_store st_disk st_active st_next_seq]. rewrite R2, A2.
    unfold InvDs in R1. cbn [fold_left apply_entry e_op e_id e_meta] in R1. unfold upd_meta in R1.
    rewrite Hg in R1. exact R1. }
  assert (M3 : InvM c s3).
  { destruct M as (A & B & C & D).
    unfold s3, InvM. cbn [with_since with_store st_store st_slots]. rewrite R2, A2, R3, A3.
    split; [apply sorted_set; exact A|]. split.
    - apply docs_ok_set; [exact B|]. pose proof (docs_ok_get c _ _ _ B Hg) as Dk. exact Dk.
    - pose proof (length_set_present (st_store s) id (mkDoc (d_vec d) upd) d A Hg) as L.
      unfold size in *. rewrite L.
      split; lia. }
  pose proof (finish_with_snapshot c s3 H3 M3) as F.
  destruct (maybe_snapshot c s3) as [s4 e4]. exact F.
Qed.

Definition remove_all (st : store) (ids : list N) : store := fold_left (fun m id => remove m id) ids st.

Lemma number_dels_seqs : forall ids b, seqs_from b (number_dels b ids).
Proof. induction ids as [|i r IH]; intros b; cbn; [exact I|]. split; [reflexivity|apply IH]. Qed.

Lemma number_dels_dims : forall c ids b,
  Forall (fun e => e_op e = Ins -> len (e_vec e) = c_dim c) (number_dels b ids).
Proof.
  intros c. induction ids as [|i r IH]; intros b; cbn; constructor; [intros E; discriminate|apply IH].
Qed.

Lemma fold_number_dels : forall ids b st, fold_left apply_entry (number_dels b ids) st = remove_all st ids.
Proof. induction ids as [|i r IH]; intros b st; cbn; [reflexivity|]. apply IH. Qed.

Lemma apply_batch_fst : forall ids st n, fst (apply_batch st ids n) = remove_all st ids.
Proof.
  induction ids as [|i r IH]; intros st n; cbn [apply_batch remove_all fold_left]; [reflexivity|].
  unfold mem. destruct (get st i) eqn:G.
  - apply IH.
  - rewrite (remove_absent st i G). apply IH.
Qed.

Lemma remove_all_ok : forall c ids st, sorted st -> docs_ok c st ->
  sorted (remove_all st ids) /\ docs_ok c (remove_all st ids) /\ size (remove_all st ids) <= size st.
Proof.
  intros c. induction ids as [|i r IH]; intros st A B; cbn [remove_all fold_left]; [repeat split; try assumption; lia|].
  destruct (IH (remove st i) (sorted_remove st i A) (docs_ok_remove c st i B)) as (X & Y & Z).
  pose proof (size_remove_le st i). repeat split; try assumption. unfold remove_all in *. lia.
Qed.

Lemma do_batch_delete_inv : forall c s ids, Inv c s -> Inv c (fst (fst (do_batch_delete c s ids))).
Proof.
  intros c s ids [H M]. unfold do_batch_delete.
  destruct (filter (mem (st_store s)) ids) as [|l0 lr] eqn:El; [exact (conj H M)|].
  rewrite <- El. set (live := filter (mem (st_store s)) ids). clearbody live. clear El l0 lr.
  rewrite (InvDs_has_manifest _ _ _ H). cbn [negb].
  pose proof (append_inv c (st_store s) s _ H (number_dels_seqs live (st_next_seq s))
                (number_dels_dims c live (st_next_seq s))) as A.
  destruct (append_entries c s (number_dels (st_next_seq s) live)) as [s1 e1].
  cbn [fst] in A. destruct A as (A1 & A2 & A3 & A4 & A5).
  pose proof (rotate_inv c _ s1 A1) as R.
  destruct (rotate_if_needed c s1) as [s2 e2]. cbn [fst] in R. destruct R as (R1 & R2 & R3 & R4 & R5).
  pose proof (apply_batch_fst live (st_store s2) 0) as Eb.
  destruct (apply_batch (st_store s2) live 0) as [m' cnt]. cbn [fst] in Eb. subst m'.
  match goal with |- context [maybe_snapshot c ?x] => set (s3 := x) end.
  destruct M as (A & B & C & D).
  destruct (remove_all_ok c live (st_store s) A B) as (X & Y & Z).
  assert (H3 : InvDs c (st_store s3) s3).
  { unfold s3, InvDs. cbn [with_since with_store st_store st_disk st_active st_next_seq]. rewrite R2, A2.
    unfold InvDs in R1. rewrite fold_number_dels in R1. exact R1. }
  assert (M3 : InvM c s3).
  { unfold s3, InvM. cbn [with_since with_store st_store st_slots]. rewrite R2, A2, R3, A3.
    repeat split; try assumption; lia. }
  pose proof (finish_with_snapshot c s3 H3 M3) as F.
  destruct (maybe_snapshot c s3) as [s4 e4]. exact F.
Qed.

Lemma manual_snapshot_inv : forall c s, Inv c s -> Inv c (fst (fst (create_snapshot c s))).
Proof.
  intros c s [H M]. pose proof M as (A & B & _).
  destruct (create_snapshot_inv c s H A B) as (X & E1 & E2 & _).
  split; [rewrite E1; exact X|]. apply (InvM_eq c s); assumption.
Qed.

Theorem step_inv : forall c s o, wf_cfg c = true -> norm_ok c -> Inv c s -> Inv c (step_state c s o).
Proof.
  intros c s o Hwf Hn HI. unfold step_state. destruct o as [id v m|id|ids|id m mg| |]; cbn [step].
  - apply do_insert_inv; assumption.
  - apply do_delete_inv; assumption.
  - apply do_batch_delete_inv; assumption.
  - apply do_update_inv; assumption.
  - apply manual_snapshot_inv; assumption.
  - destruct (recover_inv c s Hwf HI) as (s' & effs & E & _ & _ & HI' & _). rewrite E. exact HI'.
Qed.

Lemma init_inv : forall c, wf_cfg c = true -> Inv c (init c).
Proof.
  intros c Hwf. destruct (wf_dim c Hwf) as [_ Hcap]. split.
  - unfold InvDs, init. cbn [st_store st_disk st_active st_next_seq].
    apply (InvD_intro c empty _ _ _ (mkManifest None None [NWal (fresh_id [])]) [] 0);
      cbn [m_segments m_snapshot m_snapshot_seq].
    + reflexivity.
    + exists []. reflexivity.
    + constructor; [intros []|constructor].
    + constructor; [eexists; reflexivity|constructor].
    + intros nm [<-|[]]. exists []. reflexivity.
    + split; [reflexivity|]. cbn. auto.
    + constructor.
    + reflexivity.
    + reflexivity.
  - unfold InvM, init, empty. cbn [st_store st_slots]. split; [exact I|]. split; [constructor|].
    split; [unfold size; cbn [length]; lia|lia].
Qed.

Theorem run_inv : forall c ops, wf_cfg c = true -> norm_ok c -> Inv c (run c ops).
Proof.
  intros c ops Hwf Hn. unfold run.
  assert (G : forall ops s, Inv c s -> Inv c (fold_left (step_state c) ops s)).
  { induction ops0 as [|o r IH]; intros s HI; [exact HI|].
    cbn [fold_left]. apply IH. apply step_inv; assumption. }
  apply G. apply init_inv. exact Hwf.
Qed.

(* ------------------------------------------------------------------------------------------ *)
(* 8. C02                                                                                      *)
(* ------------------------------------------------------------------------------------------ *)

Theorem restart_lossless : forall c ops, wf_cfg c = true -> norm_ok c ->
  let s := run c ops in
  exists s', recover c Strict (st_disk s) = Ok s' /\ st_store s' = st_store s.
Proof.
  intros c ops Hwf Hn s.
  destruct (recover_inv c s Hwf (run_inv c ops Hwf Hn)) as (s' & effs & E & Es & _).
  exists s'. unfold recover. rewrite E. split; [reflexivity|exact Es].
Qed.

(* the recovered engine continues with exactly the live engine's next sequence number, which exceeds
   every sequence number found in the directory *)
Theorem seq_monotone : forall c ops, wf_cfg c = true -> norm_ok c ->
  let s := run c ops in
  exists s', recover c Strict (st_disk s) = Ok s' /\ st_next_seq s' = st_next_seq s /\
    exists m, load_manifest (st_disk s) = Some m /\
      Forall (fun e => e_seq e < st_next_seq s') (all_entries (st_disk s) (m_segments m)) /\
      opt_or0 (m_snapshot_seq m) < st_next_seq s'.
Proof.
  intros c ops Hwf Hn s.
  pose proof (run_inv c ops Hwf Hn) as HI. fold s in HI.
  destruct (recover_inv c s Hwf HI) as (s' & effs & E & _ & En & _).
  exists s'. unfold recover. rewrite E. split; [reflexivity|]. split; [exact En|].
  destruct HI as [(m & sdocs & sseq & Hm & _ & _ & _ & _ & [Hq _] & Hok & Hmx & _) _].
  exists m. unfold load_manifest. rewrite Hm. split; [reflexivity|]. rewrite En. split.
  - eapply Forall_impl; [|exact Hok]. intros e (_ & B & _). exact B.
  - rewrite Hq. pose proof (maxseq_ge (all_entries (st_disk s) (m_segments m)) sseq). lia.
Qed.

(* any number of consecutive restarts *)
Theorem restart_chain : forall c ops n, wf_cfg c = true -> norm_ok c ->
  st_store (run c (ops ++ repeat ORestart n)) = st_store (run c ops) /\
  exists s', recover c Strict (st_disk (run c (ops ++ repeat ORestart n))) = Ok s' /\
             st_store s' = st_store (run c ops).
Proof.
  intros c ops n Hwf Hn.
  assert (Hst : st_store (run c (ops ++ repeat ORestart n)) = st_store (run c ops)).
  { unfold run. rewrite fold_left_app. fold (run c ops).
    pose proof (run_inv c ops Hwf Hn) as HI. revert HI. generalize (run c ops) as s.
    induction n as [|k IH]; intros s HI; [reflexivity|].
    cbn [repeat fold_left]. unfold step_state at 2. cbn [step].
    destruct (recover_inv c s Hwf HI) as (s' & effs & E & Es & _ & HI' & _). rewrite E. cbn [fst].
    rewrite (IH s' HI'). exact Es. }
  split; [exact Hst|].
  destruct (restart_lossless c (ops ++ repeat ORestart n) Hwf Hn) as (s' & E & Es).
  exists s'. split; [exact E|]. rewrite Es. exact Hst.
Qed.

(* deleted documents never reappear, overwritten versions never resurface: whatever the live engine
   answers for an id is what the restarted engine answers *)
Theorem no_resurrection : forall c ops id, wf_cfg c = true -> norm_ok c ->
  let s := run c ops in
  exists s', recover c Strict (st_disk s) = Ok s' /\ get (st_store s') id = get (st_store s) id.
Proof.
  intros c ops id Hwf Hn s. destruct (restart_lossless c ops Hwf Hn) as (s' & E & Es).
  exists s'. split; [exact E|]. rewrite Es. reflexivity.
Qed.

Lemma delete_then_absent : forall c s id, Inv c s ->
  snd (fst (do_delete c s id)) = OBool true -> get (st_store (fst (fst (do_delete c s id)))) id = None.
Proof.
  intros c s id [H M]. unfold do_delete.
  destruct (get (st_store s) id) as [d|] eqn:Hg; [|cbn; discriminate].
  rewrite (InvDs_has_manifest _ _ _ H). cbn [negb].
  assert (Hsq : seqs_from (st_next_seq s) [mkEntry Del id [] [] (st_next_seq s)]) by (cbn; auto).
  assert (Hdm : Forall (fun e => e_op e = Ins -> len (e_vec e) = c_dim c) [mkEntry Del id [] [] (st_next_seq s)])
    by (constructor; [intros E; discriminate|constructor]).
  pose proof (append_inv c (st_store s) s _ H Hsq Hdm) as A.
  destruct (append_entries c s [mkEntry Del id [] [] (st_next_seq s)]) as [s1 e1].
  cbn [fst] in A. destruct A as (A1 & A2 & A3 & A4 & A5).
  pose proof (rotate_inv c _ s1 A1) as R.
  destruct (rotate_if_needed c s1) as [s2 e2]. cbn [fst] in R. destruct R as (R1 & R2 & R3 & R4 & R5).
  match goal with |- context [maybe_snapshot c ?x] => set (s3 := x) end.
  assert (H3 : InvDs c (st_store s3) s3).
  { unfold s3, InvDs. cbn [with_since with_store st_store st_disk st_active st_next_seq]. rewrite R2, A2. exact R1. }
  destruct M as (A & B & C & D).
  assert (A3' : sorted (st_store s3))
    by (unfold s3; cbn [with_since with_store st_store]; rewrite R2, A2; apply sorted_remove; exact A).
  assert (B3' : docs_ok c (st_store s3))
    by (unfold s3; cbn [with_since with_store st_store]; rewrite R2, A2; apply docs_ok_remove; exact B).
  destruct (maybe_snapshot_inv c s3 H3 A3' B3') as (_ & E1 & _).
  destruct (maybe_snapshot c s3) as [s4 e4]. cbn [fst snd] in *. intros _. rewrite E1.
  unfold s3. cbn [with_since with_store st_store]. rewrite R2, A2. apply get_remove_same. exact A.
Qed.

(* ------------------------------------------------------------------------------------------ *)
(* 9. The directory of the next state is the old directory with the emitted effects applied    *)
(*    (holds in EVERY state; this is what lets C01 cut an operation's effect list at any prefix) *)
(* ------------------------------------------------------------------------------------------ *)

Lemma append_disk : forall c s es s1 e1, append_entries c s es = (s1, e1) ->
  st_disk s1 = apply_effs (st_disk s) e1.
Proof. intros c s es s1 e1 H. unfold append_entries in H. inversion H; subst. reflexivity. Qed.

Lemma rotate_disk' : forall c s,
  st_disk (fst (rotate_if_needed c s)) = apply_effs (st_disk s) (snd (rotate_if_needed c s)).
Proof.
  intros c s. unfold rotate_if_needed.
  destruct ((c_max_wal c =? 0) || (st_bytes s <? c_max_wal c)); [reflexivity|].
  destruct (load_manifest _); cbn [fst snd st_disk with_disk]; rewrite ?apply_effs_app; reflexivity.
Qed.

Lemma rotate_disk : forall c s s2 e2, rotate_if_needed c s = (s2, e2) ->
  st_disk s2 = apply_effs (st_disk s) e2.
Proof. intros c s s2 e2 H. pose proof (rotate_disk' c s) as X. rewrite H in X. exact X. Qed.

Lemma create_snapshot_disk' : forall c s,
  st_disk (fst (fst (create_snapshot c s))) = apply_effs (st_disk s) (snd (create_snapshot c s)).
Proof.
  intros c s. unfold create_snapshot.
  destruct (snap_valid _); cbn [negb]; [|reflexivity].
  destruct (load_manifest _) as [m|]; [|reflexivity].
  destruct (N.pred (st_next_seq s) <? opt_or0 (m_snapshot_seq m)).
  - cbn [fst snd st_disk with_disk]. rewrite apply_effs_app. reflexivity.
  - destruct (compact_segments _ _ _) as [keep del].
    cbn [fst snd st_disk with_disk with_since]. rewrite !apply_effs_app. reflexivity.
Qed.

Lemma create_snapshot_disk : forall c s s' o e, create_snapshot c s = (s', o, e) ->
  st_disk s' = apply_effs (st_disk s) e.
Proof. intros c s s' o e H. pose proof (create_snapshot_disk' c s) as X. rewrite H in X. exact X. Qed.

Lemma maybe_snapshot_disk : forall c s s4 e4, maybe_snapshot c s = (s4, e4) ->
  st_disk s4 = apply_effs (st_disk s) e4.
Proof.
  intros c s s4 e4 H. unfold maybe_snapshot in H.
  destruct ((0 <? c_snapshot_interval c) && (c_snapshot_interval c <=? st_since_snap s)).
  - destruct (create_snapshot c s) as [[s' o] e] eqn:E. inversion H; subst.
    apply (create_snapshot_disk _ _ _ _ _ E).
  - inversion H; subst. reflexivity.
Qed.

Lemma recover_full_disk : forall c md d s effs, recover_full c md d = Ok (s, effs) ->
  st_disk s = apply_effs d effs.
Proof.
  intros c md d s effs H. unfold recover_full in H.
  destruct (recover_read c md d) as [[[docs mx] m]|]; [|discriminate].
  destruct (rebuild_docs c docs) as [docs'|]; [|discriminate].
  destruct (c_capacity c <? size docs'); [discriminate|].
  destruct (negb _); [discriminate|]. inversion H; subst. reflexivity.
Qed.

Ltac disk_chain :=
  repeat match goal with
  | H : append_entries _ _ _ = (_, _) |- _ => apply append_disk in H
  | H : rotate_if_needed _ _ = (_, _) |- _ => apply rotate_disk in H
  | H : maybe_snapshot _ _ = (_, _) |- _ => apply maybe_snapshot_disk in H
  end.

Theorem step_disk : forall c s o s' out effs, step c s o = (s', out, effs) ->
  st_disk s' = apply_effs (st_disk s) effs.
Proof.
  intros c s o s' out effs H. destruct o as [id v m|id|ids|id m mg| |]; cbn [step] in H.
  - unfold do_insert in H.
    destruct (negb (len v =? c_dim c)); [inversion H; subst; reflexivity|].
    destruct (normalize_if_needed c v) as [w|]; [|inversion H; subst; reflexivity].
    destruct (negb (c_accepts c w)) eqn:Hpre; [inversion H; subst; reflexivity|].
    match type of H with context [if c_capacity c <=? st_slots ?x then _ else _] => set (s0 := x) in H end.
    assert (E0 : st_disk s0 = st_disk s) by (unfold s0; destruct (_ && _); reflexivity).
    clearbody s0.
    destruct (c_capacity c <=? st_slots s0); [inversion H; subst; rewrite E0; reflexivity|].
    destruct (negb (has_manifest (st_disk s0))); [inversion H; subst; rewrite E0; reflexivity|].
    destruct (append_entries c s0 _) as [s1 e1] eqn:E1.
    destruct (rotate_if_needed c s1) as [s2 e2] eqn:E2.
    destruct (maybe_snapshot c _) as [s4 e4] eqn:E4.
    inversion H; subst. disk_chain. cbn [st_disk] in E4.
    rewrite !apply_effs_app, <- E0, <- E1, <- E2. exact E4.
  - unfold do_delete in H.
    destruct (get (st_store s) id); [|inversion H; subst; reflexivity].
    destruct (negb (has_manifest (st_disk s))); [inversion H; subst; reflexivity|].
    destruct (append_entries c s _) as [s1 e1] eqn:E1.
    destruct (rotate_if_needed c s1) as [s2 e2] eqn:E2.
    destruct (maybe_snapshot c _) as [s4 e4] eqn:E4.
    inversion H; subst. disk_chain. cbn [st_disk with_since with_store] in E4.
    rewrite !apply_effs_app, <- E1, <- E2. exact E4.
  - unfold do_batch_delete in H.
    destruct (filter (mem (st_store s)) ids) as [|l0 lr]; [inversion H; subst; reflexivity|].
    destruct (negb (has_manifest (st_disk s))); [inversion H; subst; reflexivity|].
    destruct (append_entries c s _) as [s1 e1] eqn:E1.
    destruct (rotate_if_needed c s1) as [s2 e2] eqn:E2.
    destruct (apply_batch _ _ _) as [m' cnt].
    destruct (maybe_snapshot c _) as [s4 e4] eqn:E4.
    inversion H; subst. disk_chain. cbn [st_disk with_since with_store] in E4.
    rewrite !apply_effs_app, <- E1, <- E2. exact E4.
  - unfold do_update in H.
    destruct (get (st_store s) id); [|inversion H; subst; reflexivity].
    destruct (negb (has_manifest (st_disk s))); [inversion H; subst; reflexivity|].
    destruct (append_entries c s _) as [s1 e1] eqn:E1.
    destruct (rotate_if_needed c s1) as [s2 e2] eqn:E2.
    destruct (maybe_snapshot c _) as [s4 e4] eqn:E4.
    inversion H; subst. disk_chain. cbn [st_disk with_since with_store] in E4.
    rewrite !apply_effs_app, <- E1, <- E2. exact E4.
  - apply (create_snapshot_disk _ _ _ _ _ H).
  - destruct (recover_full c Strict (st_disk s)) as [[s1 e1]|] eqn:E.
    + inversion H; subst. apply (recover_full_disk _ _ _ _ _ E).
    + inversion H; subst. reflexivity.
Qed.
