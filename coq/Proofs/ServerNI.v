(* Tenant noninterference for Model/Server.v by unwinding.
   A-view of a state: tenant A's documents (the sub-list of the engine map whose global id carries
   tenant index A), A's quota count, A's usage counters.  The hot-tier list is NOT part of the view
   (only FlushHotTier's count reads it, and that count is excluded from the statement). *)
From Coq Require Import List NArith ZArith Bool String Ascii Lia.
From Kyro Require Import Model.Server Proofs.ServerProofs.
Import ListNotations.
Open Scope N_scope.

Lemma filter_comm : forall A (f g : A -> bool) l, List.filter f (List.filter g l) = List.filter g (List.filter f l).
Proof.
  intros A f g l. induction l as [|x l IH]; cbn; [reflexivity|].
  destruct (g x) eqn:Eg; destruct (f x) eqn:Ef; cbn; rewrite ?Eg, ?Ef, IH; reflexivity.
Qed.
Lemma filter_all : forall A (f g : A -> bool) l,
  (forall x, In x l -> g x = true -> f x = true) -> List.filter g (List.filter f l) = List.filter g l.
Proof.
  intros A f g l. induction l as [|x l IH]; intro H; cbn; [reflexivity|].
  destruct (g x) eqn:Eg.
  - rewrite (H x (or_introl eq_refl) Eg). cbn. rewrite Eg. f_equal. apply IH. intros y Hy. apply H. right. exact Hy.
  - destruct (f x); cbn; rewrite ?Eg; apply IH; intros y Hy; apply H; right; exact Hy.
Qed.
Lemma dget_in : forall ds g d, dget ds g = Some d -> In (g, d) ds.
Proof.
  induction ds as [|[g' d'] r IH]; intros g d H; cbn in H; [discriminate|].
  destruct (g =? g') eqn:E; [apply N.eqb_eq in E; inversion H; subst; left; reflexivity | right; apply IH; exact H].
Qed.
Lemma in_dset : forall ds g d g' d', In (g', d') (dset ds g d) -> (g' = g /\ d' = d) \/ In (g', d') ds.
Proof.
  induction ds as [|[g0 d0] r IH]; intros g d g' d' H; cbn in H.
  - destruct H as [H|[]]. inversion H. left. auto.
  - destruct (g =? g0).
    + destruct H as [H|H]; [inversion H; left; auto | right; right; exact H].
    + destruct H as [H|H]; [right; left; exact H|]. apply IH in H. destruct H as [H|H]; [left; exact H | right; right; exact H].
Qed.
Lemma in_nodup_N : forall l x, In x (nodup_N l) -> In x l.
Proof.
  induction l as [|y l IH]; intros x H; cbn in H; [contradiction|].
  destruct (existsb (N.eqb y) l); [right; apply IH; exact H|].
  destruct H as [H|H]; [left; exact H | right; apply IH; exact H].
Qed.
Lemma existsb_eqb_in : forall x l, existsb (N.eqb x) l = true -> In x l.
Proof. intros x l H. apply existsb_exists in H. destruct H as [y [H1 H2]]. apply N.eqb_eq in H2. subst. exact H1. Qed.
Lemma map_ids_tenant : forall t ids gs, map_ids t ids = Some gs -> forall g, In g gs -> tenant_of g = t.
Proof.
  induction ids as [|i r IH]; intros gs H g Hg; cbn in H.
  - inversion H; subst. contradiction.
  - destruct (to_global_doc_id t i) as [g0|] eqn:E; [|discriminate].
    destruct (map_ids t r) as [gs0|]; [|discriminate]. inversion H; subst.
    destruct Hg as [Hg|Hg]; [subst; eapply tenant_of_to_global; eauto | eapply IH; eauto].
Qed.
Lemma zipwith_ext : forall A B C (f f' : A -> B -> C) a b,
  (forall x y, In y b -> f x y = f' x y) -> zipwith f a b = zipwith f' a b.
Proof.
  induction a as [|x a IH]; intros [|y b] H; cbn; try reflexivity.
  rewrite (H x y (or_introl eq_refl)). f_equal. apply IH. intros. apply H. right. assumption.
Qed.

Section NI.
Variable idx_str : N -> str.
Variable score : Z -> Z.
Hypothesis idx_inj : forall a b, idx_str a = idx_str b -> a = b.
Variable cfg : config.
Variable A : N.
Notation step := (step idx_str score cfg).
Notation handle := (handle idx_str score cfg).

Definition isA (p : N * doc) : bool := tenant_of (fst p) =? A.
Definition viewD (ds : docs) : docs := List.filter isA ds.
Definition equivA (s1 s2 : state) : Prop :=
  viewD (st_docs s1) = viewD (st_docs s2)
  /\ nget (st_counts s1) A = nget (st_counts s2) A
  /\ nget (st_usage s1) A = nget (st_usage s2) A.
Definition wf (s : state) : Prop :=
  forall g d, In (g, d) (st_docs s) -> mget (d_meta d) K_TIDX = Some (idx_str (tenant_of g)).

Lemma equivA_refl : forall s, equivA s s.
Proof. intro s. repeat split. Qed.
Lemma equivA_sym : forall s1 s2, equivA s1 s2 -> equivA s2 s1.
Proof. intros s1 s2 [H1 [H2 H3]]. repeat split; congruence. Qed.
Lemma equivA_trans : forall s1 s2 s3, equivA s1 s2 -> equivA s2 s3 -> equivA s1 s3.
Proof. intros s1 s2 s3 [H1 [H2 H3]] [H4 [H5 H6]]. repeat split; congruence. Qed.

(* ---------------------------------------------------------------- views of the document map *)
Lemma viewD_cons : forall g d r, viewD ((g, d) :: r) = if tenant_of g =? A then (g, d) :: viewD r else viewD r.
Proof. reflexivity. Qed.
Lemma dget_cons : forall g' d' r g, dget ((g', d') :: r) g = if g =? g' then Some d' else dget r g.
Proof. reflexivity. Qed.
Lemma dset_cons : forall g' d' r g d, dset ((g', d') :: r) g d = if g =? g' then (g, d) :: r else (g', d') :: dset r g d.
Proof. reflexivity. Qed.
Lemma dget_view : forall ds g, tenant_of g = A -> dget (viewD ds) g = dget ds g.
Proof.
  induction ds as [|[g' d'] r IH]; intros g Hg; [reflexivity|].
  rewrite viewD_cons, dget_cons. destruct (tenant_of g' =? A) eqn:E.
  - rewrite dget_cons. destruct (g =? g'); [reflexivity | apply IH; exact Hg].
  - destruct (g =? g') eqn:E2; [|apply IH; exact Hg].
    apply N.eqb_eq in E2. subst g'. apply N.eqb_neq in E. contradiction.
Qed.
Lemma view_dset_in : forall ds g d, tenant_of g = A -> viewD (dset ds g d) = dset (viewD ds) g d.
Proof.
  induction ds as [|[g' d'] r IH]; intros g d Hg.
  - cbn [dset]. rewrite viewD_cons, Hg, N.eqb_refl. reflexivity.
  - rewrite dset_cons, (viewD_cons g' d' r). destruct (g =? g') eqn:E.
    + apply N.eqb_eq in E. subst g'. rewrite viewD_cons, Hg, N.eqb_refl, dset_cons, N.eqb_refl. reflexivity.
    + rewrite viewD_cons. destruct (tenant_of g' =? A).
      * rewrite dset_cons, E. f_equal. apply IH. exact Hg.
      * apply IH. exact Hg.
Qed.
Lemma view_dset_out : forall ds g d, tenant_of g <> A -> viewD (dset ds g d) = viewD ds.
Proof.
  induction ds as [|[g' d'] r IH]; intros g d Hg.
  - cbn [dset]. rewrite viewD_cons. apply N.eqb_neq in Hg. rewrite Hg. reflexivity.
  - rewrite dset_cons, (viewD_cons g' d' r). destruct (g =? g') eqn:E.
    + apply N.eqb_eq in E. subst g'. rewrite viewD_cons. apply N.eqb_neq in Hg. rewrite Hg. reflexivity.
    + rewrite viewD_cons. destruct (tenant_of g' =? A); [f_equal|]; apply IH; exact Hg.
Qed.
Lemma view_filter : forall f ds, viewD (List.filter f ds) = List.filter f (viewD ds).
Proof. intros. unfold viewD. apply filter_comm. Qed.
Lemma view_filter_out : forall f ds, (forall p, In p ds -> isA p = true -> f p = true) -> viewD (List.filter f ds) = viewD ds.
Proof. intros. unfold viewD. apply filter_all. assumption. Qed.
Lemma dget_equiv : forall s1 s2 g, equivA s1 s2 -> tenant_of g = A -> dget (st_docs s1) g = dget (st_docs s2) g.
Proof. intros s1 s2 g [H _] Hg. rewrite <- (dget_view (st_docs s1)), <- (dget_view (st_docs s2)) by exact Hg. rewrite H. reflexivity. Qed.
Lemma dexists_equiv : forall s1 s2 g, equivA s1 s2 -> tenant_of g = A -> dexists (st_docs s1) g = dexists (st_docs s2) g.
Proof. intros. unfold dexists. rewrite (dget_equiv s1 s2) by assumption. reflexivity. Qed.
Lemma get_count_equiv : forall s1 s2, equivA s1 s2 -> get_count s1 A = get_count s2 A.
Proof. intros s1 s2 [_ [H _]]. unfold get_count. rewrite H. reflexivity. Qed.

(* ---------------------------------------------------------------- congruence of the state operations (tenant A) *)
Lemma eq_set_docs_dset : forall s1 s2 g d, equivA s1 s2 -> tenant_of g = A ->
  equivA (set_docs s1 (dset (st_docs s1) g d)) (set_docs s2 (dset (st_docs s2) g d)).
Proof. intros s1 s2 g d [H1 [H2 H3]] Hg. repeat split; cbn; try assumption. rewrite !view_dset_in by exact Hg. rewrite H1. reflexivity. Qed.
Lemma eq_set_docs_filter : forall s1 s2 f, equivA s1 s2 ->
  equivA (set_docs s1 (List.filter f (st_docs s1))) (set_docs s2 (List.filter f (st_docs s2))).
Proof. intros s1 s2 f [H1 [H2 H3]]. repeat split; cbn; try assumption. rewrite !view_filter. rewrite H1. reflexivity. Qed.
Lemma eq_set_count : forall s1 s2 t c, equivA s1 s2 -> equivA (set_count s1 t c) (set_count s2 t c).
Proof.
  intros s1 s2 t c [H1 [H2 H3]]. repeat split; cbn; try assumption.
  destruct (N.eq_dec A t) as [->|Hne]; [rewrite !nget_nset_same; reflexivity | rewrite !nget_nset_other by exact Hne; exact H2].
Qed.
Lemma eq_dec_count : forall s1 s2 n, equivA s1 s2 -> equivA (dec_count s1 A n) (dec_count s2 A n).
Proof.
  intros s1 s2 n H. unfold dec_count. destruct (n =? 0); [exact H|].
  destruct H as [H1 [H2 H3]]. rewrite H2. destruct (nget (st_counts s2) A) eqn:E.
  - apply eq_set_count. repeat split; congruence.
  - repeat split; congruence.
Qed.
Lemma eq_upd_usage : forall s1 s2 f, equivA s1 s2 -> equivA (upd_usage s1 A f) (upd_usage s2 A f).
Proof. intros s1 s2 f [H1 [H2 H3]]. unfold upd_usage. repeat split; cbn; try assumption. rewrite H3, !nget_nset_same. reflexivity. Qed.
Lemma eq_rec_query : forall s1 s2 n, equivA s1 s2 -> equivA (rec_query s1 A n) (rec_query s2 A n).
Proof. intros. unfold rec_query. destruct (n =? 0); [assumption | apply eq_upd_usage; assumption]. Qed.
Lemma eq_rec_insert : forall s1 s2 n b, equivA s1 s2 -> equivA (rec_insert s1 A n b) (rec_insert s2 A n b).
Proof. intros. unfold rec_insert. destruct (n =? 0); [assumption | apply eq_upd_usage; assumption]. Qed.
Lemma eq_rec_delete : forall s1 s2 n b, equivA s1 s2 -> equivA (rec_delete s1 A n b) (rec_delete s2 A n b).
Proof. intros. unfold rec_delete. destruct (n =? 0); [assumption | apply eq_upd_usage; assumption]. Qed.
Lemma eq_set_hot : forall s1 s2 h1 h2, equivA s1 s2 -> equivA (set_hot s1 h1) (set_hot s2 h2).
Proof. intros s1 s2 h1 h2 [H1 [H2 H3]]. repeat split; assumption. Qed.
Lemma eq_hot_add : forall s1 s2 g, equivA s1 s2 -> equivA (hot_add s1 g) (hot_add s2 g).
Proof.
  intros s1 s2 g [H1 [H2 H3]]. unfold hot_add.
  destruct (existsb (N.eqb g) (st_hot s1)); destruct (existsb (N.eqb g) (st_hot s2)); repeat split; assumption.
Qed.
Lemma eq_hot_remove : forall s1 s2 gs1 gs2, equivA s1 s2 -> equivA (hot_remove s1 gs1) (hot_remove s2 gs2).
Proof. intros. unfold hot_remove. apply eq_set_hot. assumption. Qed.

(* ---------------------------------------------------------------- operations of ANOTHER tenant leave the A-view alone *)
Lemma o_set_docs_dset : forall s s' g d, equivA s s' -> tenant_of g <> A -> equivA s (set_docs s' (dset (st_docs s') g d)).
Proof. intros s s' g d [H1 [H2 H3]] Hg. repeat split; cbn; try assumption. rewrite view_dset_out by exact Hg. exact H1. Qed.
Lemma o_set_docs_filter : forall s s' f, equivA s s' -> (forall p, In p (st_docs s') -> isA p = true -> f p = true) ->
  equivA s (set_docs s' (List.filter f (st_docs s'))).
Proof. intros s s' f [H1 [H2 H3]] Hf. repeat split; cbn; try assumption. rewrite view_filter_out by exact Hf. exact H1. Qed.
Lemma o_set_count : forall s s' t c, equivA s s' -> t <> A -> equivA s (set_count s' t c).
Proof. intros s s' t c [H1 [H2 H3]] Ht. repeat split; cbn; try assumption. rewrite nget_nset_other by congruence. exact H2. Qed.
Lemma o_dec_count : forall s s' t n, equivA s s' -> t <> A -> equivA s (dec_count s' t n).
Proof.
  intros. unfold dec_count. destruct (n =? 0); [assumption|]. destruct (nget (st_counts s') t); [apply o_set_count; assumption | assumption].
Qed.
Lemma o_upd_usage : forall s s' t f, equivA s s' -> t <> A -> equivA s (upd_usage s' t f).
Proof. intros s s' t f [H1 [H2 H3]] Ht. unfold upd_usage. repeat split; cbn; try assumption. rewrite nget_nset_other by congruence. exact H3. Qed.
Lemma o_rec_query : forall s s' t n, equivA s s' -> t <> A -> equivA s (rec_query s' t n).
Proof. intros. unfold rec_query. destruct (n =? 0); [assumption | apply o_upd_usage; assumption]. Qed.
Lemma o_rec_insert : forall s s' t n b, equivA s s' -> t <> A -> equivA s (rec_insert s' t n b).
Proof. intros. unfold rec_insert. destruct (n =? 0); [assumption | apply o_upd_usage; assumption]. Qed.
Lemma o_rec_delete : forall s s' t n b, equivA s s' -> t <> A -> equivA s (rec_delete s' t n b).
Proof. intros. unfold rec_delete. destruct (n =? 0); [assumption | apply o_upd_usage; assumption]. Qed.
Lemma o_set_hot : forall s s' h, equivA s s' -> equivA s (set_hot s' h).
Proof. intros s s' h [H1 [H2 H3]]. repeat split; assumption. Qed.
Lemma o_hot_add : forall s s' g, equivA s s' -> equivA s (hot_add s' g).
Proof. intros. unfold hot_add. destruct (existsb _ _); [assumption | apply o_set_hot; assumption]. Qed.
Lemma o_hot_remove : forall s s' gs, equivA s s' -> equivA s (hot_remove s' gs).
Proof. intros. unfold hot_remove. apply o_set_hot. assumption. Qed.

Ltac oth :=
  repeat first
    [ assumption
    | apply equivA_refl
    | apply o_rec_query | apply o_rec_insert | apply o_rec_delete
    | apply o_dec_count | apply o_set_count
    | apply o_hot_add | apply o_hot_remove | apply o_set_hot
    | apply o_set_docs_dset ].

(* ---------------------------------------------------------------- docs component of the state operations *)
Lemma docs_set_count : forall s t c, st_docs (set_count s t c) = st_docs s. Proof. reflexivity. Qed.
Lemma docs_set_hot : forall s h, st_docs (set_hot s h) = st_docs s. Proof. reflexivity. Qed.
Lemma docs_set_docs : forall s d, st_docs (set_docs s d) = d. Proof. reflexivity. Qed.
Lemma docs_hot_add : forall s g, st_docs (hot_add s g) = st_docs s.
Proof. intros. unfold hot_add. destruct (existsb _ _); reflexivity. Qed.
Lemma docs_hot_remove : forall s g, st_docs (hot_remove s g) = st_docs s. Proof. reflexivity. Qed.
Lemma docs_dec_count : forall s t n, st_docs (dec_count s t n) = st_docs s.
Proof. intros. unfold dec_count. destruct (n =? 0); [reflexivity|]. destruct (nget _ _); reflexivity. Qed.
Lemma docs_rec_query : forall s t n, st_docs (rec_query s t n) = st_docs s.
Proof. intros. unfold rec_query. destruct (n =? 0); reflexivity. Qed.
Lemma docs_rec_insert : forall s t n b, st_docs (rec_insert s t n b) = st_docs s.
Proof. intros. unfold rec_insert. destruct (n =? 0); reflexivity. Qed.
Lemma docs_rec_delete : forall s t n b, st_docs (rec_delete s t n b) = st_docs s.
Proof. intros. unfold rec_delete. destruct (n =? 0); reflexivity. Qed.
Hint Rewrite docs_set_count docs_set_hot docs_set_docs docs_hot_add docs_hot_remove docs_dec_count
     docs_rec_query docs_rec_insert docs_rec_delete : docs_simpl.

Lemma enforce_quota_docs : forall ki s g b s1, enforce_quota ki s g = Some (b, s1) -> st_docs s1 = st_docs s.
Proof.
  intros ki s g b s1 H. unfold enforce_quota in H. destruct (dexists (st_docs s) g); [inversion H; reflexivity|].
  destruct (k_maxvec ki <=? get_count s (k_tenant ki)); [discriminate|]. inversion H. reflexivity.
Qed.
Lemma fmatches_and_cons : forall x r m, fmatches (FAnd (x :: r)) m = fmatches x m && fmatches (FAnd r) m.
Proof. reflexivity. Qed.
Lemma dremove_filter : forall ds g, dremove ds g = List.filter (fun p => negb (g =? fst p)) ds.
Proof. reflexivity. Qed.

(* ---------------------------------------------------------------- the invariant: stored tenant index = id bits *)
Definition wfd (ds : docs) : Prop := forall g d, In (g, d) ds -> mget (d_meta d) K_TIDX = Some (idx_str (tenant_of g)).
Lemma wfd_dset : forall ds g d, wfd ds -> mget (d_meta d) K_TIDX = Some (idx_str (tenant_of g)) -> wfd (dset ds g d).
Proof. intros ds g d H Hd g' d' Hin. apply in_dset in Hin. destruct Hin as [[-> ->]|Hin]; [exact Hd | apply H; exact Hin]. Qed.
Lemma wfd_filter : forall ds f, wfd ds -> wfd (List.filter f ds).
Proof. intros ds f H g d Hin. apply filter_In in Hin. apply H. apply Hin. Qed.

Lemma mget_mextend_keep : forall new old k v,
  (forall v', In (k, v') new -> v' = v) -> mget old k = Some v -> mget (mextend old new) k = Some v.
Proof.
  unfold mextend. induction new as [|[k0 v0] r IH]; intros old k v Hall Hold; cbn; [exact Hold|].
  apply IH; [intros v' Hv'; apply Hall; right; exact Hv'|].
  destruct (str_eqb k k0) eqn:E.
  - apply str_eqb_eq in E. subst k0. rewrite (Hall v0 (or_introl eq_refl)). apply mget_mset_same.
  - rewrite mget_mset_other; [exact Hold|]. apply str_eqb_neq in E. exact E.
Qed.
Lemma keep_reserved_tidx : forall e m v, mget e K_TIDX = Some v ->
  mget (keep_reserved e m) K_TIDX = Some v /\ (forall v', In (K_TIDX, v') (keep_reserved e m) -> v' = v).
Proof.
  intros e m v He. destruct K_distinct as [D1 [D2 D3]]. unfold keep_reserved. rewrite He.
  assert (Hm1 : forall x, ~ In (K_TIDX, x) (strip_reserved m)).
  { intros x Hx. apply in_strip_reserved in Hx. destruct Hx as [Hx _]. apply Hx. right. left. reflexivity. }
  set (m2 := match mget e K_TID with Some v0 => mset (strip_reserved m) K_TID v0 | None => strip_reserved m end).
  assert (Hm2 : forall x, ~ In (K_TIDX, x) m2).
  { intros x Hx. unfold m2 in Hx. destruct (mget e K_TID).
    - apply in_mset in Hx. destruct Hx as [[Hx _]|Hx]; [congruence | exact (Hm1 x Hx)].
    - exact (Hm1 x Hx). }
  destruct (mget e K_NS).
  - split.
    + rewrite mget_mset_other by congruence. apply mget_mset_same.
    + intros v' Hv'. apply in_mset in Hv'. destruct Hv' as [[Hx _]|Hv']; [congruence|].
      apply in_mset in Hv'. destruct Hv' as [[_ Hx]|Hv']; [exact Hx | destruct (Hm2 v' Hv')].
  - split.
    + apply mget_mset_same.
    + intros v' Hv'. apply in_mset in Hv'. destruct Hv' as [[_ Hx]|Hv']; [exact Hx | destruct (Hm2 v' Hv')].
Qed.

Section AnyTenant.
Variable ki : keyinfo.
Lemma stored_tidx : forall l g m ns, to_global_doc_id (k_tenant ki) l = Some g ->
  mget (stored_meta idx_str ki m ns) K_TIDX = Some (idx_str (tenant_of g)).
Proof. intros l g m ns H. rewrite (tenant_of_to_global _ _ _ H). apply stored_meta_reserved. Qed.

Lemma wf_bulk_insert_item : forall acc it, wf (fst acc) -> wf (fst (bulk_insert_item idx_str cfg ki acc it)).
Proof.
  intros [s [a b]] it H. unfold bulk_insert_item. cbn [fst] in *.
  destruct (i_id it <? 1); [exact H|]. destruct (i_vec it) eqn:Ev; [exact H|]. rewrite <- Ev.
  destruct (to_global_doc_id (k_tenant ki) (i_id it)) as [g|] eqn:Eg; [|exact H].
  destruct (enforce_quota ki s g) as [[already s1]|] eqn:Eq; [|exact H].
  pose proof (enforce_quota_docs _ _ _ _ _ Eq) as Hd.
  destruct (engine_insert_ok cfg (i_vec it)); destruct already; cbn [fst]; unfold wf in *; autorewrite with docs_simpl; rewrite ?Hd;
    try exact H; apply wfd_dset; try exact H; eapply stored_tidx; exact Eg.
Qed.
Lemma wf_fold_bulk_insert : forall its acc, wf (fst acc) -> wf (fst (fold_left (bulk_insert_item idx_str cfg ki) its acc)).
Proof. induction its as [|it r IH]; intros acc H; cbn; [exact H|]. apply IH. apply wf_bulk_insert_item. exact H. Qed.

Lemma bl_validate_inv : forall its ds0 bad0 batch bad,
  fold_left (bl_validate idx_str ki) its (ds0, bad0) = (batch, bad) ->
  Forall (fun p => tenant_of (fst p) = k_tenant ki /\ mget (d_meta (snd p)) K_TIDX = Some (idx_str (tenant_of (fst p)))) ds0 ->
  Forall (fun p => tenant_of (fst p) = k_tenant ki /\ mget (d_meta (snd p)) K_TIDX = Some (idx_str (tenant_of (fst p)))) batch.
Proof.
  induction its as [|it r IH]; intros ds0 bad0 batch bad H H0; cbn [fold_left] in H; [inversion H; subst; exact H0|].
  assert (Hstep : exists ds1 bad1, bl_validate idx_str ki (ds0, bad0) it = (ds1, bad1) /\
     Forall (fun p => tenant_of (fst p) = k_tenant ki /\ mget (d_meta (snd p)) K_TIDX = Some (idx_str (tenant_of (fst p)))) ds1).
  { unfold bl_validate. destruct (i_id it <? 1); [eauto|]. destruct (i_vec it) eqn:Ev; [eauto|]. rewrite <- Ev.
    destruct (to_global_doc_id (k_tenant ki) (i_id it)) as [g|] eqn:Eg; [|eauto].
    eexists. eexists. split; [reflexivity|]. apply Forall_app. split; [exact H0|]. constructor; [|constructor]. cbn [fst snd d_meta].
    split; [eapply tenant_of_to_global; exact Eg | eapply stored_tidx; exact Eg]. }
  destruct Hstep as [ds1 [bad1 [E F]]]. rewrite E in H. eapply IH; eauto.
Qed.
Lemma bl_insert_wfd : forall batch ds acc,
  Forall (fun p => mget (d_meta (snd p)) K_TIDX = Some (idx_str (tenant_of (fst p)))) batch ->
  wfd ds -> wfd (fst (fold_left (bl_insert cfg) batch (ds, acc))).
Proof.
  induction batch as [|[g d] r IH]; intros ds [a b] HF H; cbn [fold_left]; [exact H|]. inversion HF; subst.
  assert (Hstep : exists ds1 acc1, bl_insert cfg (ds, (a, b)) (g, d) = (ds1, acc1) /\ wfd ds1).
  { unfold bl_insert. cbn [fst snd]. destruct (engine_insert_ok cfg (d_vec d)); eexists; eexists; (split; [reflexivity|]); [apply wfd_dset|]; assumption. }
  destruct Hstep as [ds1 [acc1 [E W]]]. rewrite E. apply IH; assumption.
Qed.
Lemma wf_handle : forall s r, wf s -> wf (fst (handle ki s r)).
Proof.
  intros s r H. destruct r; cbn [Server.handle].
  - (* insert *) unfold h_insert.
    destruct (i_id it <? 1); [exact H|]. destruct (i_vec it) eqn:Ev; [exact H|]. rewrite <- Ev.
    destruct (to_global_doc_id (k_tenant ki) (i_id it)) as [g|] eqn:Eg; [|exact H].
    destruct (enforce_quota ki s g) as [[already s1]|] eqn:Eq; [|exact H].
    pose proof (enforce_quota_docs _ _ _ _ _ Eq) as Hd.
    destruct (engine_insert_ok cfg (i_vec it)); destruct already; cbn [fst]; unfold wf in *; autorewrite with docs_simpl; rewrite ?Hd;
      try exact H; apply wfd_dset; try exact H; eapply stored_tidx; exact Eg.
  - (* bulk insert *) unfold h_bulk_insert.
    pose proof (wf_fold_bulk_insert its (s, (0, 0)) H) as W. destruct (fold_left _ its _) as [s' [a b]]. exact W.
  - (* bulk load *) unfold h_bulk_load.
    destruct (fold_left (bl_validate idx_str ki) its ([], 0)) as [batch bad] eqn:Ev.
    pose proof (bl_validate_inv _ _ _ _ _ Ev (Forall_nil _)) as HF.
    destruct batch as [|p0 batch']; [exact H|]. set (batch := p0 :: batch') in *.
    match goal with |- context [if ?b then _ else _] => destruct b end; [exact H|].
    set (s1 := if len _ =? 0 then s else _).
    assert (Hs1 : st_docs s1 = st_docs s) by (unfold s1; destruct (len _ =? 0); reflexivity).
    pose proof (bl_insert_wfd batch (st_docs s1) (0, 0)) as W.
    destruct (fold_left (bl_insert cfg) batch (st_docs s1, (0, 0))) as [ds [a b]]. cbn [fst] in *.
    assert (Wd : wfd ds).
    { apply W; [|rewrite Hs1; exact H]. eapply Forall_impl; [|exact HF]. intros p [_ Hp]. exact Hp. }
    destruct (len _ =? 0); unfold wf; autorewrite with docs_simpl; exact Wd.
  - (* query *) unfold h_query. destruct (id =? 0); [exact H|]. destruct (to_global_doc_id _ _); [|exact H].
    repeat match goal with |- context [if ?b then _ else _] => destruct b end; try destruct (dget _ _); cbn [fst]; unfold wf; autorewrite with docs_simpl; exact H.
  - unfold h_bulk_query. destruct (map_ids _ _); [|exact H]. cbn [fst]. unfold wf. autorewrite with docs_simpl. exact H.
  - unfold h_search. destruct (search_core _ _ _ _ _ _); [exact H|]. cbn [fst]. unfold wf. autorewrite with docs_simpl. exact H.
  - unfold h_bulk_search. cbn [fst]. unfold wf. autorewrite with docs_simpl. exact H.
  - (* update *) unfold h_update. destruct (id =? 0); [exact H|]. destruct (to_global_doc_id _ _) as [g|] eqn:Eg; [|exact H].
    destruct (dget (st_docs s) g) as [d|] eqn:Ed; [|exact H].
    destruct (negb _); [exact H|]. destruct (negb _); [exact H|]. cbn [fst]. unfold wf. autorewrite with docs_simpl.
    apply wfd_dset; [exact H|]. cbn [d_meta].
    pose proof (H g d (dget_in _ _ _ Ed)) as Hg. destruct (keep_reserved_tidx (d_meta d) m _ Hg) as [K1 K2].
    destruct merge; [apply mget_mextend_keep; assumption | exact K1].
  - (* delete *) unfold h_delete. destruct (id <? 1); [exact H|]. destruct (to_global_doc_id _ _) as [g|]; [|exact H].
    destruct (dget (st_docs s) g); [|exact H]. destruct (negb _); [exact H|]. destruct (negb _); [exact H|].
    cbn [fst]. unfold wf. autorewrite with docs_simpl. rewrite dremove_filter. apply wfd_filter. exact H.
  - unfold h_batch_delete_ids. destruct (map_ids _ _); [|exact H]. unfold finish_batch_delete, engine_batch_delete. cbn [fst].
    unfold wf. autorewrite with docs_simpl. apply wfd_filter. exact H.
  - unfold h_batch_delete_filter, finish_batch_delete, engine_batch_delete. cbn [fst].
    unfold wf. autorewrite with docs_simpl. apply wfd_filter. exact H.
  - exact H.
  - destruct force; [|exact H]. cbn [fst]. exact H.
  - unfold h_usage. repeat match goal with |- context [if ?b then _ else _] => destruct b | |- context [match ?x with _ => _ end] => destruct x end; exact H.
Qed.
End AnyTenant.

Lemma wf_step : forall s c, wf s -> wf (fst (step s c)).
Proof. intros s c H. unfold Server.step. destruct (auth cfg (c_key c)); [apply wf_handle; exact H | exact H]. Qed.
Lemma wf_init : wf init_state.
Proof. intros g d []. Qed.


(* ================================================================ calls of ANOTHER tenant preserve the A-view *)
Section Other.
Variable ki : keyinfo.
Hypothesis HB : k_tenant ki <> A.
Lemma gB : forall l g, to_global_doc_id (k_tenant ki) l = Some g -> tenant_of g <> A.
Proof. intros l g H. rewrite (tenant_of_to_global _ _ _ H). exact HB. Qed.
Lemma enforce_quota_other : forall s0 s g b s1, enforce_quota ki s g = Some (b, s1) -> equivA s0 s -> equivA s0 s1.
Proof.
  intros s0 s g b s1 H E. unfold enforce_quota in H. destruct (dexists (st_docs s) g); [inversion H; subst; exact E|].
  destruct (k_maxvec ki <=? get_count s (k_tenant ki)); [discriminate|]. inversion H; subst. apply o_set_count; assumption.
Qed.
Lemma other_bulk_insert_item : forall s0 acc it, equivA s0 (fst acc) -> equivA s0 (fst (bulk_insert_item idx_str cfg ki acc it)).
Proof.
  intros s0 [s [a b]] it H. unfold bulk_insert_item. cbn [fst] in *.
  destruct (i_id it <? 1); [exact H|]. destruct (i_vec it) eqn:Ev; [exact H|]. rewrite <- Ev.
  destruct (to_global_doc_id (k_tenant ki) (i_id it)) as [g|] eqn:Eg; [|exact H].
  destruct (enforce_quota ki s g) as [[already s1]|] eqn:Eq; [|exact H].
  pose proof (enforce_quota_other _ _ _ _ _ Eq H) as H1. pose proof (gB _ _ Eg) as Hg.
  destruct (engine_insert_ok cfg (i_vec it)); destruct already; cbn [fst]; oth.
Qed.
Lemma other_fold_bulk_insert : forall s0 its acc, equivA s0 (fst acc) -> equivA s0 (fst (fold_left (bulk_insert_item idx_str cfg ki) its acc)).
Proof. intros s0. induction its as [|it r IH]; intros acc H; cbn [fold_left]; [exact H|]. apply IH. apply other_bulk_insert_item. exact H. Qed.
Lemma bl_insert_view_out : forall batch ds acc,
  Forall (fun p => tenant_of (fst p) <> A) batch -> viewD (fst (fold_left (bl_insert cfg) batch (ds, acc))) = viewD ds.
Proof.
  induction batch as [|[g d] r IH]; intros ds [a b] HF; cbn [fold_left]; [reflexivity|]. inversion HF; subst. cbn [fst] in *.
  assert (Hstep : exists ds1 acc1, bl_insert cfg (ds, (a, b)) (g, d) = (ds1, acc1) /\ viewD ds1 = viewD ds).
  { unfold bl_insert. cbn [fst snd]. destruct (engine_insert_ok cfg (d_vec d)); eexists; eexists; (split; [reflexivity|]); [apply view_dset_out; assumption | reflexivity]. }
  destruct Hstep as [ds1 [acc1 [E V]]]. rewrite E. rewrite IH by assumption. exact V.
Qed.
Lemma finish_other : forall s0 s gs, (forall g, In g gs -> tenant_of g <> A) -> equivA s0 s ->
  equivA s0 (fst (finish_batch_delete cfg ki s gs)).
Proof.
  intros s0 s gs Hgs H. unfold finish_batch_delete, engine_batch_delete. cbn [fst]. oth.
  apply o_set_docs_filter; [exact H|]. intros [g d] Hin HA. cbn [fst].
  destruct (existsb (N.eqb g) (nodup_N gs)) eqn:E; [|reflexivity].
  apply existsb_eqb_in in E. apply in_nodup_N in E. apply Hgs in E. unfold isA in HA. cbn [fst] in HA. apply N.eqb_eq in HA. contradiction.
Qed.
Lemma matching_tenant : forall s f ns g, wf s ->
  In g (map fst (List.filter (fun p => fmatches (combined_filter idx_str ki f ns) (d_meta (snd p))) (st_docs s))) ->
  tenant_of g = k_tenant ki.
Proof.
  intros s f ns g W H. apply in_map_iff in H. destruct H as [[g' d] [E H]]. cbn [fst] in E. subst g'.
  apply filter_In in H. destruct H as [Hin Hm]. cbn [snd] in Hm. unfold combined_filter in Hm.
  rewrite fmatches_and_cons in Hm. apply andb_true_iff in Hm. destruct Hm as [Hm _]. cbn [fmatches] in Hm.
  rewrite (W g d Hin) in Hm. apply str_eqb_eq in Hm. apply idx_inj. exact Hm.
Qed.
Lemma handle_other : forall s r, wf s -> equivA s (fst (handle ki s r)).
Proof.
  intros s r W. pose proof (equivA_refl s) as H. destruct r; cbn [Server.handle].
  - unfold h_insert.
    destruct (i_id it <? 1); [exact H|]. destruct (i_vec it) eqn:Ev; [exact H|]. rewrite <- Ev.
    destruct (to_global_doc_id (k_tenant ki) (i_id it)) as [g|] eqn:Eg; [|exact H].
    destruct (enforce_quota ki s g) as [[already s1]|] eqn:Eq; [|exact H].
    pose proof (enforce_quota_other _ _ _ _ _ Eq H) as H1. pose proof (gB _ _ Eg) as Hg.
    destruct (engine_insert_ok cfg (i_vec it)); destruct already; cbn [fst]; oth.
  - unfold h_bulk_insert. pose proof (other_fold_bulk_insert s its (s, (0, 0)) H) as O.
    destruct (fold_left _ its _) as [s' [a b]]. exact O.
  - unfold h_bulk_load.
    destruct (fold_left (bl_validate idx_str ki) its ([], 0)) as [batch bad] eqn:Ev.
    pose proof (bl_validate_inv ki _ _ _ _ _ Ev (Forall_nil _)) as HF.
    destruct batch as [|p0 batch']; [exact H|]. set (batch := p0 :: batch') in *.
    match goal with |- context [if ?b then _ else _] => destruct b end; [exact H|].
    set (s1 := if len _ =? 0 then s else _).
    assert (Hs1 : equivA s s1) by (unfold s1; destruct (len _ =? 0); oth).
    pose proof (bl_insert_view_out batch (st_docs s1) (0, 0)) as V.
    destruct (fold_left (bl_insert cfg) batch (st_docs s1, (0, 0))) as [ds [a b]]. cbn [fst] in *.
    assert (Hs2 : equivA s (set_docs s1 ds)).
    { destruct Hs1 as [E1 [E2 E3]]. unfold equivA. cbn [st_docs st_counts st_usage set_docs]. repeat split; try assumption. rewrite V; [exact E1|].
      eapply Forall_impl; [|exact HF]. intros p [Hp _]. rewrite Hp. exact HB. }
    destruct (len _ =? 0); oth.
  - unfold h_query. destruct (id =? 0); [exact H|]. destruct (to_global_doc_id _ _); [|exact H].
    repeat match goal with |- context [if ?b then _ else _] => destruct b end; try destruct (dget _ _); cbn [fst]; oth.
  - unfold h_bulk_query. destruct (map_ids _ _); [|exact H]. cbn [fst]. oth.
  - unfold h_search. destruct (search_core _ _ _ _ _ _); [exact H|]. cbn [fst]. oth.
  - unfold h_bulk_search. cbn [fst]. oth.
  - unfold h_update. destruct (id =? 0); [exact H|]. destruct (to_global_doc_id _ _) as [g|] eqn:Eg; [|exact H].
    destruct (dget (st_docs s) g) as [d|]; [|exact H]. destruct (negb _); [exact H|]. destruct (negb _); [exact H|].
    pose proof (gB _ _ Eg) as Hg. cbn [fst]. oth.
  - unfold h_delete. destruct (id <? 1); [exact H|]. destruct (to_global_doc_id _ _) as [g|] eqn:Eg; [|exact H].
    destruct (dget (st_docs s) g); [|exact H]. destruct (negb _); [exact H|]. destruct (negb _); [exact H|].
    pose proof (gB _ _ Eg) as Hg. cbn [fst]. oth. rewrite dremove_filter. apply o_set_docs_filter; [exact H|].
    intros [g' d'] _ HA. cbn [fst]. destruct (g =? g') eqn:E; [|reflexivity]. apply N.eqb_eq in E. subst g'.
    unfold isA in HA. cbn [fst] in HA. apply N.eqb_eq in HA. contradiction.
  - unfold h_batch_delete_ids. destruct (map_ids (k_tenant ki) ids) as [gs|] eqn:Em; [|exact H].
    apply finish_other; [|exact H]. intros g Hg. apply filter_In in Hg. destruct Hg as [Hg _].
    rewrite (map_ids_tenant _ _ _ Em g Hg). exact HB.
  - unfold h_batch_delete_filter. apply finish_other; [|exact H]. intros g Hg.
    rewrite (matching_tenant s f ns g W Hg). exact HB.
  - exact H.
  - destruct force; [|exact H]. cbn [fst]. oth.
  - unfold h_usage. repeat match goal with |- context [if ?b then _ else _] => destruct b | |- context [match ?x with _ => _ end] => destruct x end; exact H.
Qed.
End Other.


(* ================================================================ calls of tenant A on A-equivalent states *)
(* What is compared: everything, except that a Search-family answer is reduced to its status
   (hit list and total_found dropped: they depend on other tenants, see search_count_refuted) and
   FlushHotTier's documents_flushed is dropped (process-wide, see flush_count_refuted). *)
Definition proj_sres (x : sres) : sres := match x with SErr c => SErr c | SOk _ _ => SOk [] 0 end.
Definition proj (r : resp) : resp :=
  match r with
  | OkSearch _ _ => OkSearch [] 0
  | OkBulkSearch rs => OkBulkSearch (map proj_sres rs)
  | OkFlush _ => OkFlush 0
  | r => r
  end.

Ltac eqv :=
  repeat first
    [ assumption
    | apply eq_rec_query | apply eq_rec_insert | apply eq_rec_delete
    | apply eq_dec_count | apply eq_set_count
    | apply eq_hot_add | apply eq_hot_remove | apply eq_set_hot
    | apply eq_set_docs_dset | apply eq_set_docs_filter ].

Section Same.
Variable ki : keyinfo.
Hypothesis HkA : k_tenant ki = A.
Hypothesis Hadm : k_admin ki = false.

Lemma search_core_shape : forall d1 d2 r,
  proj_sres (search_core idx_str score cfg ki d1 r) = proj_sres (search_core idx_str score cfg ki d2 r).
Proof.
  intros. unfold search_core. destruct (search_plan r); [|reflexivity].
  destruct (negb (len (s_q r) =? c_dim cfg)); reflexivity.
Qed.
Lemma is_sok_proj : forall x, is_sok x = is_sok (proj_sres x).
Proof. destruct x; reflexivity. Qed.
Lemma sok_count : forall d1 d2 rs,
  len (List.filter is_sok (map (search_core idx_str score cfg ki d1) rs)) = len (List.filter is_sok (map (search_core idx_str score cfg ki d2) rs)).
Proof.
  intros. unfold len. f_equal. induction rs as [|r rs IH]; cbn [map List.filter]; [reflexivity|].
  rewrite (is_sok_proj (search_core _ _ _ _ d1 r)), (search_core_shape d1 d2 r), <- is_sok_proj.
  destruct (is_sok _); cbn [List.length]; rewrite IH; reflexivity.
Qed.
Lemma enforce_quota_same : forall s1 s2 g, equivA s1 s2 -> tenant_of g = A ->
  match enforce_quota ki s1 g, enforce_quota ki s2 g with
  | Some (b1, t1), Some (b2, t2) => b1 = b2 /\ equivA t1 t2
  | None, None => True
  | _, _ => False
  end.
Proof.
  intros s1 s2 g E Hg. unfold enforce_quota. rewrite (dexists_equiv s1 s2 g E Hg). rewrite HkA, (get_count_equiv s1 s2 E).
  destruct (dexists (st_docs s2) g); [split; [reflexivity|exact E]|].
  destruct (k_maxvec ki <=? get_count s2 A); [exact I|]. split; [reflexivity|]. apply eq_set_count. exact E.
Qed.
Lemma same_bulk_insert_item : forall acc1 acc2 it, equivA (fst acc1) (fst acc2) -> snd acc1 = snd acc2 ->
  equivA (fst (bulk_insert_item idx_str cfg ki acc1 it)) (fst (bulk_insert_item idx_str cfg ki acc2 it))
  /\ snd (bulk_insert_item idx_str cfg ki acc1 it) = snd (bulk_insert_item idx_str cfg ki acc2 it).
Proof.
  intros [s1 [a1 b1]] [s2 [a2 b2]] it E Hs. cbn [fst snd] in *. inversion Hs; subst a2 b2. unfold bulk_insert_item.
  destruct (i_id it <? 1); [split; [exact E|reflexivity]|]. destruct (i_vec it) eqn:Ev; [split; [exact E|reflexivity]|]. rewrite <- Ev.
  rewrite HkA. destruct (to_global_doc_id A (i_id it)) as [g|] eqn:Eg; [|split; [exact E|reflexivity]].
  pose proof (tenant_of_to_global _ _ _ Eg) as Hg. pose proof (enforce_quota_same s1 s2 g E Hg) as Q.
  destruct (enforce_quota ki s1 g) as [[c1 t1]|]; destruct (enforce_quota ki s2 g) as [[c2 t2]|]; try contradiction; [|split; [exact E|reflexivity]].
  destruct Q as [-> Q]. destruct (engine_insert_ok cfg (i_vec it)); destruct c2; cbn [fst snd]; (split; [|reflexivity]); eqv.
Qed.
Lemma same_fold_bulk_insert : forall its acc1 acc2, equivA (fst acc1) (fst acc2) -> snd acc1 = snd acc2 ->
  equivA (fst (fold_left (bulk_insert_item idx_str cfg ki) its acc1)) (fst (fold_left (bulk_insert_item idx_str cfg ki) its acc2))
  /\ snd (fold_left (bulk_insert_item idx_str cfg ki) its acc1) = snd (fold_left (bulk_insert_item idx_str cfg ki) its acc2).
Proof.
  induction its as [|it r IH]; intros acc1 acc2 E Hs; cbn [fold_left]; [split; assumption|].
  destruct (same_bulk_insert_item acc1 acc2 it E Hs) as [E' Hs']. apply IH; assumption.
Qed.
Lemma finish_same : forall s1 s2 gs, (forall g, In g gs -> tenant_of g = A) -> equivA s1 s2 ->
  snd (finish_batch_delete cfg ki s1 gs) = snd (finish_batch_delete cfg ki s2 gs)
  /\ equivA (fst (finish_batch_delete cfg ki s1 gs)) (fst (finish_batch_delete cfg ki s2 gs)).
Proof.
  intros s1 s2 gs Hgs E. unfold finish_batch_delete, engine_batch_delete. cbn [fst snd]. rewrite HkA.
  assert (Hc : List.filter (dexists (st_docs s1)) (nodup_N gs) = List.filter (dexists (st_docs s2)) (nodup_N gs)).
  { apply filter_ext_in. intros g Hg. apply dexists_equiv; [exact E|]. apply Hgs. apply in_nodup_N. exact Hg. }
  rewrite Hc. split; [reflexivity|]. eqv.
Qed.
Lemma match_view : forall ds f ns, wfd ds ->
  map fst (List.filter (fun p => fmatches (combined_filter idx_str ki f ns) (d_meta (snd p))) ds)
  = map fst (List.filter (fun p => fmatches (combined_filter idx_str ki f ns) (d_meta (snd p))) (viewD ds)).
Proof.
  intros ds f ns W. f_equal. unfold viewD. symmetry. apply filter_all.
  intros [g d] Hin Hm. cbn [snd] in Hm. unfold combined_filter in Hm. rewrite fmatches_and_cons in Hm.
  apply andb_true_iff in Hm. destruct Hm as [Hm _]. cbn [fmatches] in Hm. rewrite (W g d Hin) in Hm.
  apply str_eqb_eq in Hm. apply idx_inj in Hm. unfold isA. cbn [fst]. rewrite Hm, HkA. apply N.eqb_refl.
Qed.

(* BulkLoadHnsw by tenant A: the validated batch does not depend on the state and carries only A's ids *)
Lemma dexists_view_eq : forall d1 d2 g, viewD d1 = viewD d2 -> tenant_of g = A -> dexists d1 g = dexists d2 g.
Proof. intros d1 d2 g H Hg. unfold dexists. rewrite <- (dget_view d1 g Hg), <- (dget_view d2 g Hg), H. reflexivity. Qed.
Lemma bl_insert_same : forall batch d1 d2 acc,
  Forall (fun p => tenant_of (fst p) = A) batch -> viewD d1 = viewD d2 ->
  viewD (fst (fold_left (bl_insert cfg) batch (d1, acc))) = viewD (fst (fold_left (bl_insert cfg) batch (d2, acc)))
  /\ snd (fold_left (bl_insert cfg) batch (d1, acc)) = snd (fold_left (bl_insert cfg) batch (d2, acc)).
Proof.
  induction batch as [|[g d] r IH]; intros d1 d2 [a b] HF V; cbn [fold_left]; [split; [exact V|reflexivity]|].
  inversion HF; subst. cbn [fst] in *.
  assert (Hstep : exists e1 e2 acc1, bl_insert cfg (d1, (a, b)) (g, d) = (e1, acc1) /\ bl_insert cfg (d2, (a, b)) (g, d) = (e2, acc1) /\ viewD e1 = viewD e2).
  { unfold bl_insert. cbn [fst snd]. destruct (engine_insert_ok cfg (d_vec d)); eexists; eexists; eexists; (split; [reflexivity|]); (split; [reflexivity|]);
      [rewrite !view_dset_in by assumption; rewrite V; reflexivity | exact V]. }
  destruct Hstep as [e1 [e2 [acc1 [E1 [E2 V']]]]]. rewrite E1, E2. apply IH; assumption.
Qed.
Lemma same_bulk_load : forall s1 s2 its, equivA s1 s2 ->
  snd (h_bulk_load idx_str cfg ki s1 its) = snd (h_bulk_load idx_str cfg ki s2 its)
  /\ equivA (fst (h_bulk_load idx_str cfg ki s1 its)) (fst (h_bulk_load idx_str cfg ki s2 its)).
Proof.
  intros s1 s2 its E. unfold h_bulk_load.
  destruct (fold_left (bl_validate idx_str ki) its ([], 0)) as [batch bad] eqn:Ev.
  pose proof (bl_validate_inv ki _ _ _ _ _ Ev (Forall_nil _)) as HF0.
  assert (HF : Forall (fun p => tenant_of (fst p) = A) batch).
  { eapply Forall_impl; [|exact HF0]. intros p [Hp _]. rewrite Hp. exact HkA. }
  destruct batch as [|p0 batch']; [split; [reflexivity|exact E]|]. set (batch := p0 :: batch') in *.
  assert (HgA : forall g, In g (map fst batch) -> tenant_of g = A).
  { intros g Hg. apply in_map_iff in Hg. destruct Hg as [p [<- Hp]]. rewrite Forall_forall in HF. apply HF. exact Hp. }
  assert (Hnew : nodup_N (List.filter (fun g => negb (dexists (st_docs s1) g)) (map fst batch))
               = nodup_N (List.filter (fun g => negb (dexists (st_docs s2) g)) (map fst batch))).
  { f_equal. apply filter_ext_in. intros g Hg. rewrite (dexists_equiv s1 s2 g E (HgA g Hg)). reflexivity. }
  rewrite Hnew. set (new_ids := nodup_N (List.filter (fun g => negb (dexists (st_docs s2) g)) (map fst batch))).
  assert (HnA : forall g, In g new_ids -> tenant_of g = A).
  { intros g Hg. apply in_nodup_N in Hg. apply filter_In in Hg. apply HgA. apply Hg. }
  rewrite HkA, (get_count_equiv s1 s2 E).
  destruct (negb (len new_ids =? 0) && (k_maxvec ki <? get_count s2 A + len new_ids)); [split; [reflexivity|exact E]|].
  set (t1 := if len new_ids =? 0 then s1 else set_count s1 A (get_count s2 A + len new_ids)).
  set (t2 := if len new_ids =? 0 then s2 else set_count s2 A (get_count s2 A + len new_ids)).
  assert (Et : equivA t1 t2) by (unfold t1, t2; destruct (len new_ids =? 0); [exact E | apply eq_set_count; exact E]).
  destruct (bl_insert_same batch (st_docs t1) (st_docs t2) (0, 0) HF (proj1 Et)) as [V Hs].
  destruct (fold_left (bl_insert cfg) batch (st_docs t1, (0, 0))) as [e1 [l1 f1]].
  destruct (fold_left (bl_insert cfg) batch (st_docs t2, (0, 0))) as [e2 [l2 f2]].
  cbn [fst snd] in *. inversion Hs; subst l2 f2.
  assert (Hins : List.filter (dexists e1) new_ids = List.filter (dexists e2) new_ids).
  { apply filter_ext_in. intros g Hg. apply dexists_view_eq; [exact V | apply HnA; exact Hg]. }
  rewrite Hins.
  assert (E2 : equivA (set_docs t1 e1) (set_docs t2 e2)).
  { destruct Et as [_ [Ec Eu]]. unfold equivA. cbn [st_docs st_counts st_usage set_docs]. repeat split; assumption. }
  split; [reflexivity|]. destruct (len new_ids =? 0); [exact E2|]. eqv.
Qed.

Lemma handle_same : forall s1 s2 r, equivA s1 s2 -> wf s1 -> wf s2 ->
  proj (snd (handle ki s1 r)) = proj (snd (handle ki s2 r)) /\ equivA (fst (handle ki s1 r)) (fst (handle ki s2 r)).
Proof.
  intros s1 s2 r E W1 W2. destruct r; cbn [Server.handle].
  - (* Insert *) unfold h_insert.
    destruct (i_id it <? 1); [split; [reflexivity|exact E]|]. destruct (i_vec it) eqn:Ev; [split; [reflexivity|exact E]|]. rewrite <- Ev.
    rewrite HkA. destruct (to_global_doc_id A (i_id it)) as [g|] eqn:Eg; [|split; [reflexivity|exact E]].
    pose proof (tenant_of_to_global _ _ _ Eg) as Hg. pose proof (enforce_quota_same s1 s2 g E Hg) as Q.
    destruct (enforce_quota ki s1 g) as [[c1 t1]|]; destruct (enforce_quota ki s2 g) as [[c2 t2]|]; try contradiction; [|split; [reflexivity|exact E]].
    destruct Q as [-> Q]. destruct (engine_insert_ok cfg (i_vec it)); destruct c2; cbn [fst snd]; (split; [reflexivity|]); eqv.
  - (* BulkInsert *) unfold h_bulk_insert.
    destruct (same_fold_bulk_insert its (s1, (0, 0)) (s2, (0, 0)) E eq_refl) as [E' Hs'].
    destruct (fold_left _ its (s1, _)) as [t1 [a1 b1]]. destruct (fold_left _ its (s2, _)) as [t2 [a2 b2]].
    cbn [fst snd] in *. inversion Hs'; subst. split; [reflexivity|exact E'].
  - (* BulkLoadHnsw *) destruct (same_bulk_load s1 s2 its E) as [Ho Es]. rewrite Ho. split; [reflexivity|exact Es].
  - (* Query *) unfold h_query. destruct (id =? 0); [split; [reflexivity|exact E]|].
    rewrite HkA. destruct (to_global_doc_id A id) as [g|] eqn:Eg; [|split; [reflexivity|exact E]].
    pose proof (tenant_of_to_global _ _ _ Eg) as Hg. rewrite (dget_equiv s1 s2 g E Hg).
    destruct (dget (st_docs s2) g) as [d|];
      repeat match goal with |- context [if ?b then _ else _] => destruct b end; cbn [fst snd]; (split; [reflexivity|]); eqv.
  - (* BulkQuery *) unfold h_bulk_query. rewrite HkA. destruct (map_ids A ids) as [gs|] eqn:Em; [|split; [reflexivity|exact E]].
    cbn [fst snd].
    assert (Hz : zipwith (bq_one idx_str ki (st_docs s1) incl ns) ids gs = zipwith (bq_one idx_str ki (st_docs s2) incl ns) ids gs).
    { apply zipwith_ext. intros x g Hg. unfold bq_one. rewrite (dget_equiv s1 s2 g E (map_ids_tenant _ _ _ Em g Hg)). reflexivity. }
    rewrite Hz. split; [reflexivity|]. eqv.
  - (* Search *) unfold h_search. pose proof (search_core_shape (st_docs s1) (st_docs s2) s) as Sh.
    destruct (search_core idx_str score cfg ki (st_docs s1) s); destruct (search_core idx_str score cfg ki (st_docs s2) s); cbn in Sh; try discriminate Sh.
    + inversion Sh; subst. split; [reflexivity|exact E].
    + rewrite HkA. cbn [fst snd]. split; [reflexivity|]. eqv.
  - (* BulkSearch *) unfold h_bulk_search. cbn [fst snd]. rewrite HkA. rewrite (sok_count (st_docs s1) (st_docs s2) ss). split; [|eqv].
    cbn [proj]. f_equal. rewrite !map_map. apply map_ext. intro r. apply search_core_shape.
  - (* UpdateMetadata *) unfold h_update. destruct (id =? 0); [split; [reflexivity|exact E]|].
    rewrite HkA. destruct (to_global_doc_id A id) as [g|] eqn:Eg; [|split; [reflexivity|exact E]].
    pose proof (tenant_of_to_global _ _ _ Eg) as Hg. rewrite (dget_equiv s1 s2 g E Hg).
    destruct (dget (st_docs s2) g) as [d|]; [|split; [reflexivity|exact E]].
    destruct (negb _); [split; [reflexivity|exact E]|]. destruct (negb _); [split; [reflexivity|exact E]|].
    cbn [fst snd]. split; [reflexivity|]. eqv.
  - (* Delete *) unfold h_delete. destruct (id <? 1); [split; [reflexivity|exact E]|].
    rewrite HkA. destruct (to_global_doc_id A id) as [g|] eqn:Eg; [|split; [reflexivity|exact E]].
    pose proof (tenant_of_to_global _ _ _ Eg) as Hg. rewrite (dget_equiv s1 s2 g E Hg).
    destruct (dget (st_docs s2) g) as [d|]; [|split; [reflexivity|exact E]].
    destruct (negb _); [split; [reflexivity|exact E]|]. destruct (negb _); [split; [reflexivity|exact E]|].
    cbn [fst snd]. split; [reflexivity|]. rewrite !dremove_filter. eqv.
  - (* BatchDelete ids *) unfold h_batch_delete_ids. rewrite HkA. destruct (map_ids A ids) as [gs|] eqn:Em; [|split; [reflexivity|exact E]].
    assert (Hk : List.filter (fun g => match dget (st_docs s1) g with Some d => tenant_ok idx_str ki (d_meta d) && ns_ok ns (d_meta d) | None => false end) gs
               = List.filter (fun g => match dget (st_docs s2) g with Some d => tenant_ok idx_str ki (d_meta d) && ns_ok ns (d_meta d) | None => false end) gs).
    { apply filter_ext_in. intros g Hg. rewrite (dget_equiv s1 s2 g E (map_ids_tenant _ _ _ Em g Hg)). reflexivity. }
    rewrite Hk. destruct (finish_same s1 s2 (List.filter (fun g => match dget (st_docs s2) g with Some d => tenant_ok idx_str ki (d_meta d) && ns_ok ns (d_meta d) | None => false end) gs)) as [F1 F2];
      [intros g Hg; apply filter_In in Hg; exact (map_ids_tenant _ _ _ Em g (proj1 Hg)) | exact E |].
    rewrite F1. split; [reflexivity|exact F2].
  - (* BatchDelete filter *) unfold h_batch_delete_filter.
    rewrite (match_view (st_docs s1) f ns W1), (match_view (st_docs s2) f ns W2). destruct E as [E1 E23]. rewrite E1.
    destruct (finish_same s1 s2 (map fst (List.filter (fun p => fmatches (combined_filter idx_str ki f ns) (d_meta (snd p))) (viewD (st_docs s2))))) as [F1 F2].
    + intros g Hg. apply in_map_iff in Hg. destruct Hg as [[g' d] [Eg Hg]]. cbn [fst] in Eg. subst g'.
      apply filter_In in Hg. destruct Hg as [Hg _]. unfold viewD in Hg. apply filter_In in Hg. destruct Hg as [_ Hg].
      unfold isA in Hg. cbn [fst] in Hg. apply N.eqb_eq in Hg. exact Hg.
    + split; assumption.
    + rewrite F1. split; [reflexivity|exact F2].
  - split; [reflexivity|exact E].
  - (* Flush *) destruct force; cbn [fst snd proj]; (split; [reflexivity|]); eqv.
  - (* Usage *) unfold h_usage. rewrite HkA, Hadm.
    assert (EE : equivA s1 s2) by exact E. destruct E as [E1 [E2 E3]]. rewrite E3.
    destruct scope as [sc|]; [|split; [reflexivity|exact EE]].
    destruct (str_eq_nocase sc (s2l "self")); [split; [reflexivity|exact EE]|].
    destruct (str_eq_nocase sc (s2l "all")); split; try reflexivity; exact EE.
Qed.
End Same.


(* ================================================================ unwinding *)
Definition callerA (c : call) : bool := match caller cfg c with Some t => t =? A | None => false end.
(* tenant A's (projected) responses along a run from state s *)
Fixpoint obsA (s : state) (cs : list call) : list resp :=
  match cs with
  | [] => []
  | c :: r => (if callerA c then [proj (snd (step s c))] else []) ++ obsA (fst (step s c)) r
  end.
Definition remove_tenant (B : N) (cs : list call) : list call :=
  List.filter (fun c => match caller cfg c with Some t => negb (t =? B) | None => true end) cs.
(* the same thing read off the response list of Server.run_from *)
Fixpoint sel (cs : list call) (rs : list resp) : list resp :=
  match cs, rs with
  | c :: cs', r :: rs' => (if callerA c then [proj r] else []) ++ sel cs' rs'
  | _, _ => []
  end.
Lemma obsA_sel : forall cs s, obsA s cs = sel cs (snd (run_from idx_str score cfg s cs)).
Proof.
  induction cs as [|c r IH]; intro s; [reflexivity|]. cbn [obsA run_from].
  destruct (step s c) as [s1 o] eqn:E1. cbn [fst snd]. rewrite IH.
  destruct (run_from idx_str score cfg s1 r) as [s2 os]. reflexivity.
Qed.

Hypothesis A_not_admin : forall k ki, nget (c_keys cfg) k = Some ki -> k_tenant ki = A -> k_admin ki = false.

Definition keepB (B : N) (c : call) : bool := match caller cfg c with Some t => negb (t =? B) | None => true end.
Lemma remove_cons : forall B c r, remove_tenant B (c :: r) = if keepB B c then c :: remove_tenant B r else remove_tenant B r.
Proof. reflexivity. Qed.
Lemma obsA_cons : forall s c r, obsA s (c :: r) = (if callerA c then [proj (snd (step s c))] else []) ++ obsA (fst (step s c)) r.
Proof. reflexivity. Qed.

Theorem unwinding : forall B cs s1 s2, A <> B -> equivA s1 s2 -> wf s1 -> wf s2 ->
  obsA s1 cs = obsA s2 (remove_tenant B cs).
Proof.
  intros B cs. induction cs as [|c r IH]; intros s1 s2 HAB E W1 W2; [reflexivity|].
  rewrite remove_cons.
  destruct (auth cfg (c_key c)) as [ki|] eqn:Ea.
  - assert (Hst : forall s, step s c = handle ki s (c_req c)) by (intro; unfold Server.step; rewrite Ea; reflexivity).
    destruct (N.eq_dec (k_tenant ki) A) as [HkA|HkA].
    + (* A's own call *)
      assert (Hk : keepB B c = true) by (unfold keepB, caller; rewrite Ea, HkA; apply negb_true_iff, N.eqb_neq; exact HAB).
      assert (HcA : callerA c = true) by (unfold callerA, caller; rewrite Ea, HkA; apply N.eqb_refl).
      rewrite Hk, !obsA_cons, HcA, !Hst.
      destruct (auth_some _ _ _ Ea) as [k [_ [Hkk _]]].
      destruct (handle_same ki HkA (A_not_admin k ki Hkk HkA) s1 s2 (c_req c) E W1 W2) as [Ho Es].
      rewrite Ho. cbn [app]. f_equal. apply IH; try assumption; apply wf_handle; assumption.
    + assert (HcA : callerA c = false) by (unfold callerA, caller; rewrite Ea; apply N.eqb_neq; exact HkA).
      destruct (N.eq_dec (k_tenant ki) B) as [HkB|HkB].
      * (* the removed tenant *)
        assert (Hk : keepB B c = false) by (unfold keepB, caller; rewrite Ea, HkB, N.eqb_refl; reflexivity).
        rewrite Hk, obsA_cons, HcA, Hst. cbn [app]. apply IH; try assumption; [|apply wf_handle; assumption].
        apply equivA_trans with s1; [|exact E]. apply equivA_sym. apply handle_other; assumption.
      * (* a third tenant *)
        assert (Hk : keepB B c = true) by (unfold keepB, caller; rewrite Ea; apply negb_true_iff, N.eqb_neq; exact HkB).
        rewrite Hk, !obsA_cons, HcA, !Hst. cbn [app].
        apply IH; try assumption; try (apply wf_handle; assumption).
        apply equivA_trans with s1; [apply equivA_sym; apply handle_other; assumption|].
        apply equivA_trans with s2; [exact E | apply handle_other; assumption].
  - (* refused call: no effect *)
    assert (Hk : keepB B c = true) by (unfold keepB, caller; rewrite Ea; reflexivity).
    assert (HcA : callerA c = false) by (unfold callerA, caller; rewrite Ea; reflexivity).
    assert (Hst : forall s, fst (step s c) = s) by (intro; unfold Server.step; rewrite Ea; reflexivity).
    rewrite Hk, !obsA_cons, HcA, !Hst. cbn [app]. apply IH; assumption.
Qed.

Theorem noninterference : forall B cs, A <> B ->
  sel cs (run idx_str score cfg cs) = sel (remove_tenant B cs) (run idx_str score cfg (remove_tenant B cs)).
Proof.
  intros B cs HAB. unfold run. rewrite <- !obsA_sel.
  apply unwinding; try assumption; try apply equivA_refl; apply wf_init.
Qed.

End NI.

(* ================================================================ step-level containment, witnesses *)
Section Contain.
Variable idx_str : N -> str.
Variable score : Z -> Z.
Lemma step_search_contained : forall cfg s key ki r hits tf,
  auth cfg key = Some ki ->
  snd (step idx_str score cfg s (mkCall key (RSearch r))) = OkSearch hits tf ->
  (forall h, In h hits -> hit_of idx_str score ki r (st_docs s) h /\ public (h_meta h)) /\ len hits <= s_k r /\ len hits <= tf.
Proof.
  intros cfg s key ki r hits tf Ha H. unfold Server.step in H. cbn [c_key c_req] in H. rewrite Ha in H.
  cbn [Server.handle] in H. unfold h_search in H.
  destruct (search_core idx_str score cfg ki (st_docs s) r) as [c|hs t] eqn:E; cbn [snd] in H; [discriminate|].
  inversion H; subst. destruct (search_core_contained idx_str score cfg ki (st_docs s) r hits tf E) as [C1 [C2 C3]].
  repeat split; try assumption; [apply C1; assumption|].
  destruct (C1 h H0) as [g [d [_ [_ [_ [_ [_ Eh]]]]]]]. subst h. cbn [h_meta]. apply public_sanitize.
Qed.
Lemma step_bulk_search_contained : forall cfg s key ki rs outs,
  auth cfg key = Some ki ->
  snd (step idx_str score cfg s (mkCall key (RBulkSearch rs))) = OkBulkSearch outs ->
  forall hits tf, In (SOk hits tf) outs ->
  exists r, In r rs /\ (forall h, In h hits -> hit_of idx_str score ki r (st_docs s) h /\ public (h_meta h)) /\ len hits <= s_k r.
Proof.
  intros cfg s key ki rs outs Ha H hits tf Hin. unfold Server.step in H. cbn [c_key c_req] in H. rewrite Ha in H.
  cbn [Server.handle] in H. unfold h_bulk_search in H. cbn [snd] in H. inversion H; subst. clear H.
  apply in_map_iff in Hin. destruct Hin as [r [E Hr]]. exists r. split; [exact Hr|].
  destruct (search_core_contained idx_str score cfg ki (st_docs s) r hits tf E) as [C1 [C2 C3]].
  split; [|exact C2]. intros h Hh. split; [apply C1; exact Hh|].
  destruct (C1 h Hh) as [g [d [_ [_ [_ [_ [_ Eh]]]]]]]. subst h. cbn [h_meta]. apply public_sanitize.
Qed.
End Contain.

(* ---- witnesses (evaluated by the kernel's VM on the executable model) *)
Definition w_score (d : Z) : Z := (100000 - d)%Z.      (* any strictly decreasing stand-in for the f32 score *)
Definition w_cfg : config :=
  mkCfg [(1, mkKey 0 (s2l "acme") true false 1000); (2, mkKey 1 (s2l "bolt") true false 1000)] 2.
Definition w_item (id : N) (x : Z) : item := mkItem id [x; 0%Z] [] [].
Definition w_a_inserts : list call := map (fun i => mkCall (Some 1) (RInsert (w_item i (4 + Z.of_N i)%Z))) [1; 2; 3; 4; 5].
Definition w_b_inserts : list call := map (fun i => mkCall (Some 2) (RInsert (w_item i (Z.of_N i - 3)%Z))) [1; 2; 3; 4; 5].
Definition w_search : call := mkCall (Some 1) (RSearch (mkSreq [0%Z; 0%Z] 5 0%Z [] false 0 None [])).
Definition w_flush : call := mkCall (Some 1) (RFlush true).
Definition hits_of (r : resp) : N := match r with OkSearch h _ => len h | _ => 999 end.

Lemma search_count_witness :
  hits_of (last (run dec_str w_score w_cfg (w_a_inserts ++ w_b_inserts ++ [w_search])) (Err Internal)) = 0 /\
  hits_of (last (run dec_str w_score w_cfg (remove_tenant w_cfg 1 (w_a_inserts ++ w_b_inserts ++ [w_search]))) (Err Internal)) = 5.
Proof. split; vm_compute; reflexivity. Qed.
Lemma flush_count_witness :
  last (run dec_str w_score w_cfg (w_a_inserts ++ w_b_inserts ++ [w_flush])) (Err Internal) = OkFlush 10 /\
  last (run dec_str w_score w_cfg (remove_tenant w_cfg 1 (w_a_inserts ++ w_b_inserts ++ [w_flush]))) (Err Internal) = OkFlush 5.
Proof. split; vm_compute; reflexivity. Qed.
