(* Proofs for Model/Knn.v and gen/SearchK_gen.v (property C06). *)
From Coq Require Import List NArith Bool Arith Lia Permutation Sorted.
From Kyro Require Import gen.SearchK_gen Model.F64Lite Model.Knn.
Import ListNotations.

Lemma In_firstn : forall (A : Type) k (l : list A) y, In y (firstn k l) -> In y l.
Proof.
  intros A k l. revert k. induction l as [|a l IH]; intros k y H; destruct k; cbn [firstn] in H; try destruct H.
  - left; assumption.
  - right; eapply IH; eauto.
Qed.

Lemma filter_len_le : forall (A : Type) (p : A -> bool) (l : list A), (length (filter p l) <= length l)%nat.
Proof. intros A p l. induction l as [|a l IH]; cbn [filter length]; [lia|]. destruct (p a); cbn [length]; lia. Qed.

Lemma filter_rev_perm : forall (A : Type) (p : A -> bool) (l : list A), Permutation (filter p (rev l)) (filter p l).
Proof.
  intros A p l. induction l as [|a l IH]; [reflexivity|].
  cbn [rev]. rewrite filter_app. cbn [filter]. destruct (p a).
  - eapply perm_trans; [apply Permutation_app_comm|]. cbn [app]. apply perm_skip. exact IH.
  - rewrite app_nil_r. exact IH.
Qed.

Lemma removelast_cons : forall (A : Type) (a : A) l, l <> [] -> removelast (a :: l) = a :: removelast l.
Proof. intros A a l H. destruct l; [congruence | reflexivity]. Qed.

(* ================================================================ A. insertion sort *)
Section SortFacts.
  Variable A : Type.
  Variable le : A -> A -> bool.
  Hypothesis le_total : forall a b, le a b = true \/ le b a = true.
  Hypothesis le_trans : forall a b c, le a b = true -> le b c = true -> le a c = true.
  Definition R (a b : A) : Prop := le a b = true.

  Lemma le_refl : forall a, le a a = true.
  Proof. intro a. destruct (le_total a a); auto. Qed.

  Lemma ins_perm : forall x l, Permutation (ins le x l) (x :: l).
  Proof.
    intros x l. induction l as [|a l IH]; cbn [ins]; [reflexivity|].
    destruct (le x a); [reflexivity|].
    apply perm_trans with (a :: x :: l); [apply perm_skip, IH | apply perm_swap].
  Qed.

  Lemma ins_In : forall x y l, In y (ins le x l) <-> y = x \/ In y l.
  Proof.
    intros x y l. split; intro H.
    - apply (Permutation_in _ (ins_perm x l)) in H. destruct H; auto.
    - apply (Permutation_in _ (Permutation_sym (ins_perm x l))). destruct H; [left; auto | right; auto].
  Qed.

  Lemma ins_length : forall x l, length (ins le x l) = S (length l).
  Proof. intros. apply (Permutation_length (ins_perm x l)). Qed.

  Lemma sort_perm : forall l, Permutation (stable_sort le l) l.
  Proof.
    induction l as [|a l IH]; cbn [stable_sort fold_right]; [reflexivity|].
    eapply perm_trans; [apply ins_perm|]. apply perm_skip. exact IH.
  Qed.

  Lemma sort_length : forall l, length (stable_sort le l) = length l.
  Proof. intro l. apply (Permutation_length (sort_perm l)). Qed.

  Lemma sort_In : forall y l, In y (stable_sort le l) <-> In y l.
  Proof.
    intros y l; split; intro H.
    - exact (Permutation_in _ (sort_perm l) H).
    - exact (Permutation_in _ (Permutation_sym (sort_perm l)) H).
  Qed.

  Lemma ins_sorted : forall x l, StronglySorted R l -> StronglySorted R (ins le x l).
  Proof.
    intros x l H. induction H as [|a l Hs IH Hf]; cbn [ins].
    - constructor; constructor.
    - destruct (le x a) eqn:E.
      + constructor; [constructor; assumption|].
        constructor; [exact E|].
        rewrite Forall_forall in *. intros y Hy. apply (le_trans _ _ _ E). apply Hf, Hy.
      + constructor; [exact IH|].
        rewrite Forall_forall in *. intros y Hy. apply ins_In in Hy. destruct Hy as [->|Hy].
        * destruct (le_total a x) as [T|T]; [exact T | congruence].
        * apply Hf, Hy.
  Qed.

  Lemma sort_sorted : forall l, StronglySorted R (stable_sort le l).
  Proof.
    induction l as [|a l IH]; cbn [stable_sort fold_right]; [constructor|].
    apply ins_sorted. exact IH.
  Qed.

  Lemma firstn_sorted : forall k l, StronglySorted R l -> StronglySorted R (firstn k l).
  Proof.
    intros k l H. revert k. induction H as [|a l Hs IH Hf]; intro k; destruct k; cbn [firstn]; try constructor.
    - apply IH.
    - rewrite Forall_forall in *. intros y Hy. apply Hf. eapply In_firstn, Hy.
  Qed.

  Lemma sorted_app_le : forall l1 l2, StronglySorted R (l1 ++ l2) ->
    forall a b, In a l1 -> In b l2 -> le a b = true.
  Proof.
    induction l1 as [|x l1 IH]; intros l2 H a b Ha Hb; [destruct Ha|].
    cbn [app] in H. inversion H as [|? ? Hs Hf]; subst.
    destruct Ha as [->|Ha].
    - rewrite Forall_forall in Hf. apply Hf. apply in_or_app. right; exact Hb.
    - eapply IH; eauto.
  Qed.

  (* firstn commutes with insertion up to re-truncation; no sortedness needed *)
  Lemma firstn_ins : forall x l k, firstn k (ins le x l) = firstn k (ins le x (firstn k l)).
  Proof.
    intros x l. induction l as [|a l IH]; intro k.
    - destruct k; reflexivity.
    - destruct k as [|k]; [reflexivity|].
      cbn [ins firstn]. destruct (le x a) eqn:E.
      + cbn [firstn]. f_equal.
        change (a :: firstn k l) with (firstn (S k) (a :: l)).
        rewrite firstn_firstn. rewrite Nat.min_l by lia. reflexivity.
      + cbn [firstn]. f_equal. apply IH.
  Qed.

  Lemma ins_not_nil : forall x l, ins le x l <> [].
  Proof. intros x l. destruct l; cbn [ins]; [discriminate|]. destruct (le x a); discriminate. Qed.

  (* x strictly below the maximum: popping the maximum commutes with the insertion *)
  Lemma ins_removelast : forall x l d, l <> [] -> le (last l d) x = false ->
    removelast (ins le x l) = ins le x (removelast l).
  Proof.
    intros x l d. induction l as [|a l IH]; intros Hne Hlt; [congruence|].
    destruct l as [|b l].
    - cbn [last] in Hlt. cbn [ins removelast].
      destruct (le_total x a) as [T|T]; [|congruence]. rewrite T. reflexivity.
    - assert (Hl : last (a :: b :: l) d = last (b :: l) d) by reflexivity.
      rewrite Hl in Hlt. specialize (IH ltac:(discriminate) Hlt).
      change (removelast (a :: b :: l)) with (a :: removelast (b :: l)).
      assert (Hi : forall t, ins le x (a :: t) = if le x a then x :: a :: t else a :: ins le x t) by reflexivity.
      rewrite !Hi. destruct (le x a) eqn:E.
      + reflexivity.
      + rewrite removelast_cons by apply ins_not_nil. rewrite IH. reflexivity.
  Qed.

  Lemma ins_app_end : forall x l, (forall a, In a l -> le x a = false) -> ins le x l = l ++ [x].
  Proof.
    intros x l. induction l as [|a l IH]; intro H; [reflexivity|].
    cbn [ins app]. rewrite (H a (or_introl eq_refl)). f_equal. apply IH. intros; apply H; right; auto.
  Qed.

  Lemma sorted_last_max : forall l d a, StronglySorted R l -> In a l -> le a (last l d) = true.
  Proof.
    intros l d a H. revert a. induction H as [|x l Hs IH Hf]; intros a Ha; [destruct Ha|].
    destruct l as [|b l].
    - destruct Ha as [->|[]]. cbn [last]. apply le_refl.
    - change (last (x :: b :: l) d) with (last (b :: l) d).
      destruct Ha as [->|Ha].
      + rewrite Forall_forall in Hf. apply Hf. destruct (exists_last (l:=b::l)) as [l' [z Hz]]; [discriminate|].
        rewrite Hz, last_last. apply in_or_app. right; left; reflexivity.
      + apply IH, Ha.
  Qed.

  (* sorting an already sorted list is the identity *)
  Lemma sort_of_sorted : forall l, StronglySorted R l -> stable_sort le l = l.
  Proof.
    intros l H. induction H as [|a l Hs IH Hf]; [reflexivity|].
    cbn [stable_sort fold_right]. fold (stable_sort le l). rewrite IH.
    destruct l as [|b l]; [reflexivity|]. cbn [ins].
    rewrite Forall_forall in Hf. rewrite (Hf b (or_introl eq_refl)). reflexivity.
  Qed.
End SortFacts.

Arguments R {A} le a b.

(* a sorted permutation is unique when the order is antisymmetric on the elements *)
Lemma sorted_perm_unique : forall (A : Type) (le : A -> A -> bool),
  (forall a, le a a = true) ->
  forall l1 l2, StronglySorted (R le) l1 -> StronglySorted (R le) l2 -> Permutation l1 l2 ->
  (forall a b, In a l1 -> In b l1 -> le a b = true -> le b a = true -> a = b) -> l1 = l2.
Proof.
  intros A le Hrefl l1. induction l1 as [|a t1 IH]; intros l2 H1 H2 HP Hanti.
  - apply Permutation_nil in HP. subst; reflexivity.
  - destruct l2 as [|b t2]; [apply Permutation_sym, Permutation_nil in HP; discriminate|].
    inversion H1 as [|? ? Hs1 Hf1]; subst. inversion H2 as [|? ? Hs2 Hf2]; subst.
    rewrite Forall_forall in Hf1, Hf2.
    assert (Hab : a = b).
    { assert (Hb : In b (a :: t1)) by (apply (Permutation_in _ (Permutation_sym HP)); left; reflexivity).
      assert (Ha : In a (b :: t2)) by (apply (Permutation_in _ HP); left; reflexivity).
      destruct Hb as [->|Hb]; [reflexivity|]. destruct Ha as [<-|Ha]; [reflexivity|].
      apply Hanti; [left; reflexivity | right; exact Hb | apply Hf1, Hb | apply Hf2, Ha]. }
    subst b. f_equal. apply IH; auto.
    + eapply Permutation_cons_inv; eauto.
    + intros x y Hx Hy. apply Hanti; right; assumption.
Qed.

Lemma last_cons_default : forall (A : Type) (t : list A) a d, last (a :: t) d = last t a.
Proof.
  intros A t. induction t as [|b t IH]; intros a d; [reflexivity|].
  change (last (a :: b :: t) d) with (last (b :: t) d). rewrite IH.
  change (last (b :: t) a) with (match t with [] => b | _ => last t a end).
  destruct t; [reflexivity|]. rewrite <- (IH b a). reflexivity.
Qed.

Lemma firstn_removelast : forall (A : Type) (l : list A) k, length l = S k -> firstn k l = removelast l.
Proof.
  intros A l. induction l as [|a l IH]; intros k H; [discriminate|].
  destruct l as [|b l].
  - cbn in H. assert (k = 0)%nat by lia. subst. reflexivity.
  - destruct k as [|k]; [cbn in H; lia|].
    change (removelast (a :: b :: l)) with (a :: removelast (b :: l)).
    cbn [firstn]. f_equal. apply IH. cbn in *. lia.
Qed.

Lemma NoDup_fst_inj : forall (A B : Type) (l : list (A * B)) a b,
  NoDup (map fst l) -> In a l -> In b l -> fst a = fst b -> a = b.
Proof.
  intros A B l. induction l as [|x l IH]; intros a b HN Ha Hb E; [destruct Ha|].
  cbn [map] in HN. inversion HN as [|? ? Hnin HN']; subst.
  destruct Ha as [->|Ha]; destruct Hb as [->|Hb]; auto.
  - exfalso. apply Hnin. rewrite E. apply in_map, Hb.
  - exfalso. apply Hnin. rewrite <- E. apply in_map, Ha.
Qed.

(* a branch of the timed path in which the hot tier was skipped or failed: the response is degraded *)
Ltac degr H Hdeg :=
  cbn beta iota zeta in H;
  repeat match type of H with
  | context [if ?b then _ else _] => destruct b
  | context [match ?x with TRun => _ | TPanic => _ | TTimeout => _ end] => destruct x
  | context [match cold_search ?a ?b ?c ?d ?e with Ok _ => _ | Err _ => _ end] => destruct (cold_search a b c d e)
  end;
  try discriminate; inversion H; subst; cbn [r_degraded] in Hdeg; discriminate.

(* ================================================================ B. distances, candidates, the hot-tier heap *)
Section KnnFacts.
  Variables vec dist dg : Type.
  Variable dle : dist -> dist -> bool.
  Variable dfin : dist -> bool.
  Variable metric : vec -> vec -> dist.
  Variable digest : vec -> dg.
  Variable dg_eqb : dg -> dg -> bool.
  Hypothesis dle_total : forall a b, dle a b = true \/ dle b a = true.
  Hypothesis dle_trans : forall a b c, dle a b = true -> dle b c = true -> dle a c = true.

  Notation res := (res dist).
  Notation cle := (cand_le dle).
  Notation fin := (fun c : res => dfin (snd c)).

  Lemma dle_refl : forall a, dle a a = true.
  Proof. intro a. destruct (dle_total a a); auto. Qed.

  Lemma rle_total : forall a b : res, rle dle a b = true \/ rle dle b a = true.
  Proof. intros a b. apply dle_total. Qed.
  Lemma rle_trans : forall a b c : res, rle dle a b = true -> rle dle b c = true -> rle dle a c = true.
  Proof. intros a b c. apply dle_trans. Qed.

  Lemma cle_spec : forall a b : res, cle a b = true <->
    (dle (snd b) (snd a) = false \/
     (dle (snd b) (snd a) = true /\ dle (snd a) (snd b) = true /\ (fst a <= fst b)%N)).
  Proof.
    intros a b. unfold cand_le, dlt.
    destruct (dle (snd b) (snd a)) eqn:E1; cbn [negb].
    - destruct (dle (snd a) (snd b)) eqn:E2; cbn [negb].
      + rewrite N.leb_le. split; [intro H; right; auto | intros [H|[_ [_ H]]]; [discriminate | exact H]].
      + split; [discriminate | intros [H|[_ [H _]]]; discriminate].
    - split; [intro; left; reflexivity | reflexivity].
  Qed.

  Lemma cle_total : forall a b : res, cle a b = true \/ cle b a = true.
  Proof.
    intros a b. rewrite !cle_spec.
    destruct (dle (snd b) (snd a)) eqn:E1; [|left; left; reflexivity].
    destruct (dle (snd a) (snd b)) eqn:E2; [|right; left; reflexivity].
    destruct (N.le_ge_cases (fst a) (fst b)); [left | right]; right; auto.
  Qed.

  Lemma cle_trans : forall a b c : res, cle a b = true -> cle b c = true -> cle a c = true.
  Proof.
    intros a b c. rewrite !cle_spec. intros [H1|[H1 [H1' L1]]] [H2|[H2 [H2' L2]]].
    - left. destruct (dle (snd c) (snd a)) eqn:E; [|reflexivity].
      destruct (dle_total (snd a) (snd b)) as [T|T]; [|congruence].
      rewrite (dle_trans _ _ _ E T) in H2. discriminate.
    - left. destruct (dle (snd c) (snd a)) eqn:E; [|reflexivity].
      rewrite (dle_trans _ _ _ H2' E) in H1. discriminate.
    - left. destruct (dle (snd c) (snd a)) eqn:E; [|reflexivity].
      rewrite (dle_trans _ _ _ E H1') in H2. discriminate.
    - right. repeat split; [eapply dle_trans; eauto | eapply dle_trans; eauto | lia].
  Qed.

  Lemma cle_antisym_id : forall a b : res, cle a b = true -> cle b a = true -> fst a = fst b.
  Proof.
    intros a b. rewrite !cle_spec. intros [H1|[H1 [H1' L1]]] [H2|[H2 [H2' L2]]]; try congruence.
    - destruct (dle_total (snd a) (snd b)); congruence.
    - lia.
  Qed.

  (* strictly-before in the candidate order implies a distance that is not larger *)
  Lemma cle_dle : forall a b : res, cle a b = true -> dle (snd a) (snd b) = true.
  Proof.
    intros a b. rewrite cle_spec. intros [H|[_ [H _]]]; [|exact H].
    destruct (dle_total (snd a) (snd b)); congruence.
  Qed.

  Lemma hot_step_inv : forall k (c : res) (m : list res), (0 < k)%nat ->
    NoDup (map fst (c :: m)) ->
    hot_step dle dfin k (firstn k (stable_sort cle (filter fin m))) c
    = firstn k (stable_sort cle (filter fin (c :: m))).
  Proof.
    intros k c m Hk HN.
    set (S := stable_sort cle (filter fin m)). set (T := firstn k S).
    assert (HS : StronglySorted (R cle) S) by (apply sort_sorted; [apply cle_total | apply cle_trans]).
    assert (HT : StronglySorted (R cle) T) by (apply firstn_sorted, HS).
    assert (HTin : forall a, In a T -> In a m).
    { intros a Ha. apply In_firstn in Ha. unfold S in Ha.
      rewrite sort_In in Ha by (apply cle_total || apply cle_trans). apply filter_In in Ha. tauto. }
    unfold hot_step. cbn [filter]. destruct (dfin (snd c)) eqn:Ef; cbn [negb]; [|reflexivity].
    cbn [stable_sort fold_right]. fold (stable_sort cle (filter fin m)). fold S.
    rewrite firstn_ins. fold T.
    destruct (length T <? k)%nat eqn:El.
    - apply Nat.ltb_lt in El. unfold heap_push. symmetry. apply firstn_all2.
      rewrite ins_length by (apply cle_total). lia.
    - apply Nat.ltb_ge in El.
      assert (Hlen : length T = k).
      { unfold T in *. rewrite firstn_length in *. lia. }
      destruct T as [|a t] eqn:ET; [cbn in Hlen; lia|].
      cbn [heap_peek]. rewrite <- (last_cons_default _ t a c). set (w := last (a :: t) c).
      unfold cand_lt. destruct (cle w c) eqn:Ew; cbn [negb].
      + (* c is not better than the worst kept element: it falls off the end *)
        assert (Hend : ins cle c (a :: t) = (a :: t) ++ [c]).
        { apply ins_app_end. intros x Hx. destruct (cle c x) eqn:Ecx; [|reflexivity]. exfalso.
          assert (Hxw : cle x w = true) by (apply sorted_last_max; [apply cle_total | exact HT | exact Hx]).
          assert (Hxc : cle x c = true) by (eapply cle_trans; eauto).
          pose proof (cle_antisym_id _ _ Ecx Hxc) as Hid.
          cbn [map] in HN. inversion HN as [|? ? Hnin _]; subst. apply Hnin. rewrite Hid.
          apply in_map. apply HTin. exact Hx. }
        rewrite Hend. rewrite firstn_app. rewrite Hlen, Nat.sub_diag. cbn [firstn].
        rewrite app_nil_r. rewrite <- Hlen. apply eq_sym, firstn_all.
      + unfold heap_push, heap_pop.
        rewrite <- (ins_removelast _ cle cle_total c (a :: t) c) by (discriminate || exact Ew).
        symmetry. apply firstn_removelast. rewrite ins_length by (apply cle_total). lia.
  Qed.

  Lemma heap_inv : forall k (m : list res), (0 < k)%nat -> NoDup (map fst m) ->
    fold_right (fun c h => hot_step dle dfin k h c) [] m = firstn k (stable_sort cle (filter fin m)).
  Proof.
    intros k m Hk. induction m as [|c m IH]; intro HN.
    - destruct k; reflexivity.
    - cbn [fold_right]. rewrite IH by (cbn [map] in HN; inversion HN; assumption).
      apply hot_step_inv; assumption.
  Qed.

  Lemma cand_anti_on : forall (l : list res), NoDup (map fst l) ->
    forall a b, In a l -> In b l -> cle a b = true -> cle b a = true -> a = b.
  Proof. intros l HN a b Ha Hb H1 H2. eapply NoDup_fst_inj; eauto. apply cle_antisym_id; auto. Qed.

  Lemma sort_perm_invariant : forall (l1 l2 : list res), Permutation l1 l2 -> NoDup (map fst l1) ->
    stable_sort cle l1 = stable_sort cle l2.
  Proof.
    intros l1 l2 HP HN. apply sorted_perm_unique with (le := cle).
    - intro a. destruct (cle_total a a); auto.
    - apply sort_sorted; [apply cle_total | apply cle_trans].
    - apply sort_sorted; [apply cle_total | apply cle_trans].
    - eapply perm_trans; [apply sort_perm|]. eapply perm_trans; [exact HP|]. apply Permutation_sym, sort_perm.
    - intros a b Ha Hb. rewrite sort_In in Ha, Hb. eapply cand_anti_on; eauto.
  Qed.

  Lemma NoDup_fst_filter : forall (f : res -> bool) (l : list res), NoDup (map fst l) -> NoDup (map fst (filter f l)).
  Proof.
    intros f l. induction l as [|a l IH]; intro H; [constructor|].
    cbn [map] in H. inversion H as [|? ? Hnin HN]; subst. cbn [filter]. destruct (f a); [|auto].
    cbn [map]. constructor; [|auto]. intro Hin. apply Hnin.
    apply in_map_iff in Hin. destruct Hin as [x [Hx Hin]]. apply filter_In in Hin. rewrite <- Hx. apply in_map. tauto.
  Qed.

  (* THE HOT-TIER THEOREM: the bounded-heap scan returns exactly the k smallest finite candidates by
     (distance, id), for every list of candidates with distinct ids (HashMap keys) and every k. *)
  Theorem hot_heap_is_topk : forall (k : nat) (q : vec) (hs : hot vec dg),
    NoDup (map (@h_id vec dg) hs) ->
    hot_knn dle dfin metric k q hs = topk_spec dle dfin k (hot_cands metric q hs).
  Proof using dle_total dle_trans.
    intros k q hs HN. unfold hot_knn, topk_spec.
    destruct (k =? 0)%nat eqn:Ek; [apply Nat.eqb_eq in Ek; subst; reflexivity|].
    apply Nat.eqb_neq in Ek.
    set (l := hot_cands metric q hs).
    assert (HNl : NoDup (map fst l)).
    { unfold l, hot_cands. rewrite map_map. cbn [fst]. exact HN. }
    assert (Hf : forall X, fold_left (hot_step dle dfin k) X []
                 = fold_right (fun c h => hot_step dle dfin k h c) [] (rev X)).
    { intro X. symmetry. rewrite fold_left_rev_right. reflexivity. }
    rewrite Hf. rewrite heap_inv; [|lia|].
    2:{ rewrite map_rev. apply NoDup_rev. exact HNl. }
    assert (Hs : stable_sort cle (filter fin (rev l)) = stable_sort cle (filter fin l)).
    { apply sort_perm_invariant.
      - apply filter_rev_perm.
      - apply NoDup_fst_filter. rewrite map_rev. apply NoDup_rev. exact HNl. }
    rewrite Hs. set (T := firstn k (stable_sort cle (filter fin l))).
    assert (HT : StronglySorted (R cle) T).
    { apply firstn_sorted, sort_sorted; [apply cle_total | apply cle_trans]. }
    apply sorted_perm_unique with (le := cle).
    - intro a. destruct (cle_total a a); auto.
    - apply sort_sorted; [apply cle_total | apply cle_trans].
    - exact HT.
    - eapply perm_trans; [apply sort_perm|]. apply Permutation_sym, Permutation_rev.
    - intros a b Ha Hb. rewrite sort_In in Ha, Hb. rewrite <- in_rev in Ha, Hb.
      apply In_firstn in Ha. apply In_firstn in Hb. rewrite sort_In in Ha, Hb.
      apply filter_In in Ha. apply filter_In in Hb. destruct Ha as [Ha _]. destruct Hb as [Hb _].
      eapply cand_anti_on; eauto.
  Qed.

  (* ================================================================ C. merge_knn_results *)
  Notation keys := (map (@fst N dist)).

  Lemma map_insert_keys : forall i j d (m : list res),
    In i (keys (map_insert j d m)) <-> i = j \/ In i (keys m).
  Proof.
    intros i j d m. induction m as [|[a e] m IH]; cbn [map_insert map fst In].
    - split; [intros [H|[]]; left; auto | intros [H|[]]; left; auto].
    - destruct (j =? a)%N eqn:E; cbn [map fst In].
      + apply N.eqb_eq in E. subst a. intuition congruence.
      + rewrite IH. intuition congruence.
  Qed.

  Lemma map_insert_nodup : forall j d (m : list res), NoDup (keys m) -> NoDup (keys (map_insert j d m)).
  Proof.
    intros j d m. induction m as [|[a e] m IH]; intro H; cbn [map_insert map fst].
    - constructor; [intros []|constructor].
    - cbn [map fst] in H. inversion H as [|? ? Hnin HN]; subst.
      destruct (j =? a)%N eqn:E; cbn [map fst].
      + apply N.eqb_eq in E. subst a. constructor; assumption.
      + constructor; [|auto]. rewrite map_insert_keys. intros [->|Hin]; [rewrite N.eqb_refl in E; discriminate|auto].
  Qed.

  Lemma map_insert_in : forall i d j e (m : list res), NoDup (keys m) ->
    In (i, d) (map_insert j e m) -> (i = j /\ d = e) \/ (i <> j /\ In (i, d) m).
  Proof.
    intros i d j e m. induction m as [|[a x] m IH]; intros HN H; cbn [map_insert] in H.
    - destruct H as [H|[]]. inversion H; auto.
    - cbn [map fst] in HN. inversion HN as [|? ? Hnin HN']; subst.
      destruct (j =? a)%N eqn:E.
      + apply N.eqb_eq in E. subst a. destruct H as [H|H]; [inversion H; auto|].
        right. split; [|right; exact H]. intros ->. apply Hnin. change j with (fst (j, d)). apply in_map, H.
      + apply N.eqb_neq in E. destruct H as [H|H].
        * inversion H; subst. right. split; [congruence | left; reflexivity].
        * destruct (IH HN' H) as [?|[? ?]]; [left; auto | right; split; [auto | right; auto]].
  Qed.

  Lemma map_or_insert_keys : forall i j d (m : list res),
    In i (keys (map_or_insert j d m)) <-> i = j \/ In i (keys m).
  Proof.
    intros i j d m. induction m as [|[a e] m IH]; cbn [map_or_insert map fst In].
    - split; [intros [H|[]]; left; auto | intros [H|[]]; left; auto].
    - destruct (j =? a)%N eqn:E; cbn [map fst In].
      + apply N.eqb_eq in E. subst a. intuition congruence.
      + rewrite IH. intuition congruence.
  Qed.

  Lemma map_or_insert_nodup : forall j d (m : list res), NoDup (keys m) -> NoDup (keys (map_or_insert j d m)).
  Proof.
    intros j d m. induction m as [|[a e] m IH]; intro H; cbn [map_or_insert map fst].
    - constructor; [intros []|constructor].
    - cbn [map fst] in H. inversion H as [|? ? Hnin HN]; subst.
      destruct (j =? a)%N eqn:E; cbn [map fst].
      + constructor; assumption.
      + constructor; [|auto]. rewrite map_or_insert_keys. intros [->|Hin]; [rewrite N.eqb_refl in E; discriminate|auto].
  Qed.

  Lemma map_or_insert_in : forall i d j e (m : list res),
    In (i, d) (map_or_insert j e m) -> In (i, d) m \/ (i = j /\ d = e /\ ~ In j (keys m)).
  Proof.
    intros i d j e m. induction m as [|[a x] m IH]; intro H; cbn [map_or_insert] in H.
    - destruct H as [H|[]]. inversion H; subst. right. repeat split; auto.
    - destruct (j =? a)%N eqn:E.
      + left. exact H.
      + apply N.eqb_neq in E. destruct H as [H|H]; [left; left; exact H|].
        destruct (IH H) as [?|[? [? Hn]]]; [left; right; auto|].
        right. repeat split; auto. cbn [map fst In]. intros [?|?]; [congruence | auto].
  Qed.

  Lemma fold_insert_facts : forall (h acc : list res), NoDup (keys acc) ->
    let r := fold_left (fun m x => map_insert (fst x) (snd x) m) h acc in
    NoDup (keys r)
    /\ (forall i, In i (keys r) <-> In i (keys h) \/ In i (keys acc))
    /\ (forall i d, In (i, d) r -> In (i, d) h \/ (~ In i (keys h) /\ In (i, d) acc)).
  Proof.
    intro h. induction h as [|[j e] t IH]; intros acc HN; cbn [fold_left fst snd].
    - repeat split; auto; cbn [map In]; tauto.
    - specialize (IH (map_insert j e acc) (map_insert_nodup j e acc HN)).
      cbn zeta in IH. destruct IH as [I1 [I2 I3]]. repeat split; [exact I1| | |].
      + rewrite I2, map_insert_keys. cbn [map fst In]. intros [?|[?|?]]; auto.
      + rewrite I2, map_insert_keys. cbn [map fst In]. intros [[?|?]|?]; auto.
      + intros i d H. destruct (I3 i d H) as [Ht|[Hn Hi]]; [left; right; exact Ht|].
        destruct (map_insert_in _ _ _ _ _ HN Hi) as [[-> ->]|[Hne Ha]]; [left; left; reflexivity|].
        right. split; [|exact Ha]. cbn [map fst In]. intros [?|?]; [congruence | auto].
  Qed.

  Lemma fold_or_insert_facts : forall (c acc : list res), NoDup (keys acc) ->
    let r := fold_left (fun m x => map_or_insert (fst x) (snd x) m) c acc in
    NoDup (keys r)
    /\ (forall i, In i (keys r) <-> In i (keys c) \/ In i (keys acc))
    /\ (forall i d, In (i, d) r -> In (i, d) acc \/ (~ In i (keys acc) /\ In (i, d) c))
    /\ (forall x, In x acc -> In x r).
  Proof.
    intro c. induction c as [|[j e] t IH]; intros acc HN; cbn [fold_left fst snd].
    - repeat split; auto; cbn [map In]; tauto.
    - specialize (IH (map_or_insert j e acc) (map_or_insert_nodup j e acc HN)).
      cbn zeta in IH. destruct IH as [I1 [I2 [I3 I4]]]. repeat split; [exact I1| | | |].
      + rewrite I2, map_or_insert_keys. cbn [map fst In]. intros [?|[?|?]]; auto.
      + rewrite I2, map_or_insert_keys. cbn [map fst In]. intros [[?|?]|?]; auto.
      + intros i d H. destruct (I3 i d H) as [Ha|[Hn Ht]].
        * destruct (map_or_insert_in _ _ _ _ _ Ha) as [?|[-> [-> Hnj]]]; [left; auto|].
          right. split; [exact Hnj | left; reflexivity].
        * right. split; [|right; exact Ht]. intro Hin. apply Hn. rewrite map_or_insert_keys. auto.
      + intros x Hx. apply I4. clear -Hx. induction acc as [|[a y] acc IHa]; [destruct Hx|].
        cbn [map_or_insert]. destruct (j =? a)%N; [exact Hx|].
        destruct Hx as [->|Hx]; [left; reflexivity | right; auto].
  Qed.

  Lemma merge_map_facts : forall (h c : list res),
    let m := merge_map h c in
    NoDup (keys m)
    /\ (forall i, In i (keys m) <-> In i (keys h) \/ In i (keys c))
    /\ (forall i d, In (i, d) m -> In (i, d) h \/ (~ In i (keys h) /\ In (i, d) c)).
  Proof.
    intros h c. unfold merge_map.
    destruct (fold_insert_facts h [] (NoDup_nil _)) as [A1 [A2 A3]]. cbn zeta in *.
    set (r1 := fold_left (fun m x => map_insert (fst x) (snd x) m) h []) in *.
    destruct (fold_or_insert_facts c r1 A1) as [B1 [B2 [B3 _]]]. cbn zeta in *.
    repeat split; [exact B1| | |].
    - rewrite B2, A2. cbn [map In]. tauto.
    - rewrite B2, A2. cbn [map In]. tauto.
    - intros i d H. destruct (B3 i d H) as [Hr|[Hn Hc]].
      + destruct (A3 i d Hr) as [?|[_ []]]. left; auto.
      + right. split; [|exact Hc]. intro Hh. apply Hn. rewrite A2. left; exact Hh.
  Qed.

  Lemma NoDup_firstn : forall (A : Type) k (l : list A), NoDup l -> NoDup (firstn k l).
  Proof.
    intros A k l. revert k. induction l as [|a l IH]; intros k H; destruct k; cbn [firstn]; try constructor.
    - inversion H; subst. intro Hin. apply In_firstn in Hin. auto.
    - inversion H; subst. auto.
  Qed.

  Section Merge.
    Variable order : list res -> list res.
    Hypothesis order_perm : forall l, Permutation (order l) l.

    Definition sorted_by_distance (l : list res) : Prop := StronglySorted (R (rle dle)) l.

    Theorem merge_sound : forall (h c : list res) (k : nat),
      let out := merge_knn dle order h c k in
      (length out <= k)%nat
      /\ NoDup (keys out)
      /\ sorted_by_distance out
      /\ (forall i d, In (i, d) out -> In (i, d) h \/ (~ In i (keys h) /\ In (i, d) c)).
    Proof.
      intros h c k. cbn zeta. unfold merge_knn.
      destruct (merge_map_facts h c) as [M1 [M2 M3]]. cbn zeta in *.
      set (m := merge_map h c) in *. set (S := stable_sort (rle dle) (order m)).
      assert (HP : Permutation S m).
      { eapply perm_trans; [apply sort_perm | apply order_perm]. }
      repeat split.
      - apply firstn_le_length.
      - rewrite <- firstn_map. apply NoDup_firstn.
        eapply Permutation_NoDup; [apply Permutation_map, Permutation_sym, HP | exact M1].
      - apply firstn_sorted, sort_sorted; [apply rle_total | apply rle_trans].
      - intros i d H. apply M3. apply (Permutation_in _ HP). eapply In_firstn, H.
    Qed.

    (* nothing that is in the merged map is left out unless the result is full and everything returned is
       at least as close *)
    Lemma merge_complete : forall (h c : list res) (k : nat) (r : res),
      In r (merge_map h c) ->
      let out := merge_knn dle order h c k in
      In r out \/ (length out = k /\ forall o, In o out -> rle dle o r = true).
    Proof.
      intros h c k r Hr. cbn zeta. unfold merge_knn.
      set (S := stable_sort (rle dle) (order (merge_map h c))).
      assert (HrS : In r S).
      { apply (Permutation_in _ (Permutation_sym (sort_perm _ (rle dle) _))).
        apply (Permutation_in _ (Permutation_sym (order_perm _))). exact Hr. }
      rewrite <- (firstn_skipn k S) in HrS. apply in_app_or in HrS. destruct HrS as [H|H]; [left; exact H|].
      right. split.
      - rewrite firstn_length. destruct (Nat.le_gt_cases k (length S)) as [L|L]; [lia|].
        rewrite skipn_all2 in H by lia. destruct H.
      - intros o Ho. apply (sorted_app_le _ (rle dle) (firstn k S) (skipn k S)); auto.
        rewrite firstn_skipn. apply sort_sorted; [apply rle_total | apply rle_trans].
    Qed.

    Lemma merge_hot_member : forall (h c : list res) i d,
      NoDup (keys h) -> In (i, d) h -> In (i, d) (merge_map h c).
    Proof.
      intros h c i d HN Hin. destruct (merge_map_facts h c) as [M1 [M2 M3]]. cbn zeta in *.
      assert (Hk : In i (keys (merge_map h c))).
      { apply M2. left. change i with (fst (i, d)). apply in_map, Hin. }
      apply in_map_iff in Hk. destruct Hk as [[i' d'] [E Hm]]. cbn [fst] in E. subst i'.
      destruct (M3 i d' Hm) as [Hh|[Hn _]].
      - pose proof (NoDup_fst_inj _ _ h (i, d') (i, d) HN Hh Hin eq_refl) as E. inversion E; subst. exact Hm.
      - exfalso. apply Hn. change i with (fst (i, d)). apply in_map, Hin.
    Qed.
  End Merge.

  (* ================================================================ D. cold tier under the oracle contract *)
  Definition live_exts (s : cstore vec dg) : list N :=
    flat_map (fun sl => match cs_ext sl with Some e => [e] | None => [] end) s.

  (* DocStore invariant: an external id labels at most one slot (external_to_internal is a map onto the
     Some-entries of internal_to_external), and the stored digest is the digest of the stored vector *)
  Definition store_wf (s : cstore vec dg) : Prop :=
    NoDup (live_exts s) /\ forall sl, In sl s -> is_live sl = true -> cs_dg sl = digest (cs_vec sl).

  (* the AnnBackend contract (ann_backend.rs, trait doc comment) for store s and query q *)
  Definition ann_contract (ann : ann_t vec dist) (s : cstore vec dg) (q : vec) : Prop :=
    forall sk raw, ann q sk = Some raw ->
      (length raw <= N.to_nat sk)%nat
      /\ NoDup (map fst raw)
      /\ StronglySorted (R (rle dle)) raw
      /\ forall i d sl, In (i, d) raw -> nth_error s (N.to_nat i) = Some sl -> d = metric q (cs_vec sl).

  (* r names a document that exists NOW and carries the distance of its CURRENT vector *)
  Definition live_true (s : cstore vec dg) (q : vec) (r : res) : Prop :=
    exists sl, cold_slot s (fst r) = Some sl /\ snd r = metric q (cs_vec sl).

  Definition sound_results (s : cstore vec dg) (q : vec) (k : nat) (out : list res) : Prop :=
    (length out <= k)%nat /\ NoDup (keys out) /\ sorted_by_distance out /\ Forall (live_true s q) out.

  Lemma cold_slot_ext : forall (s : cstore vec dg) id sl, cold_slot s id = Some sl -> cs_ext sl = Some id /\ In sl s.
  Proof.
    intros s id sl H. unfold cold_slot in H. apply find_some in H. destruct H as [Hin H].
    unfold ext_is in H. destruct (cs_ext sl) as [e|]; [|discriminate]. apply N.eqb_eq in H. subst. auto.
  Qed.

  Lemma live_exts_in : forall (s : cstore vec dg) sl e, In sl s -> cs_ext sl = Some e -> In e (live_exts s).
  Proof.
    intros s sl e Hin He. unfold live_exts. apply in_flat_map. exists sl. split; [exact Hin|]. rewrite He. left; reflexivity.
  Qed.

  Lemma wf_slot_unique : forall (s : cstore vec dg) i sl e, NoDup (live_exts s) ->
    nth_error s i = Some sl -> cs_ext sl = Some e -> cold_slot s e = Some sl.
  Proof.
    intro s. induction s as [|a s IH]; intros i sl e HN Hn He; [destruct i; discriminate|].
    unfold cold_slot. cbn [find]. unfold live_exts in HN. cbn [flat_map] in HN.
    destruct i as [|i]; cbn [nth_error] in Hn.
    - inversion Hn; subst. unfold ext_is. rewrite He, N.eqb_refl. reflexivity.
    - unfold ext_is at 1. destruct (cs_ext a) as [ea|] eqn:Ea.
      + cbn [app] in HN. inversion HN as [|? ? Hnin HN']; subst.
        destruct (ea =? e)%N eqn:E.
        * apply N.eqb_eq in E. subst ea. exfalso. apply Hnin. eapply live_exts_in; eauto. eapply nth_error_In; eauto.
        * apply (IH i sl e HN' Hn He).
      + cbn [app] in HN. apply (IH i sl e HN Hn He).
  Qed.

  Lemma wf_index_unique : forall (s : cstore vec dg) i j sl sl' e, NoDup (live_exts s) ->
    nth_error s i = Some sl -> nth_error s j = Some sl' -> cs_ext sl = Some e -> cs_ext sl' = Some e -> i = j.
  Proof.
    intro s. induction s as [|a s IH]; intros i j sl sl' e HN Hi Hj He He'; [destruct i; discriminate|].
    unfold live_exts in HN. cbn [flat_map] in HN.
    assert (Htail : NoDup (live_exts s)).
    { destruct (cs_ext a); cbn [app] in HN; [inversion HN; assumption | exact HN]. }
    destruct i as [|i]; destruct j as [|j]; cbn [nth_error] in Hi, Hj.
    - reflexivity.
    - inversion Hi; subst. rewrite He in HN. cbn [app] in HN. inversion HN as [|? ? Hnin _]; subst.
      exfalso. apply Hnin. apply (live_exts_in s sl' e); [eapply nth_error_In; eauto | exact He'].
    - inversion Hj; subst. rewrite He' in HN. cbn [app] in HN. inversion HN as [|? ? Hnin _]; subst.
      exfalso. apply Hnin. apply (live_exts_in s sl e); [eapply nth_error_In; eauto | exact He].
    - f_equal. eapply IH; eauto.
  Qed.

  Lemma remap_in : forall (s : cstore vec dg) k (raw : list (N * dist)) len e d, In (e, d) (remap s k len raw) ->
    exists i sl, In (i, d) raw /\ nth_error s (N.to_nat i) = Some sl /\ cs_ext sl = Some e.
  Proof.
    intros s k raw. induction raw as [|[i x] t IH]; intros len e d H; cbn [remap] in H; [destruct H|].
    destruct (nth_error s (N.to_nat i)) as [sl|] eqn:En.
    - destruct (cs_ext sl) as [ext|] eqn:Ee.
      + destruct H as [H|H].
        * inversion H; subst. exists i, sl. repeat split; auto. left; reflexivity.
        * destruct (k <=? S len)%nat; [destruct H|].
          destruct (IH _ _ _ H) as [i' [sl' [? [? ?]]]]. exists i', sl'. repeat split; auto. right; auto.
      + destruct (IH _ _ _ H) as [i' [sl' [? [? ?]]]]. exists i', sl'. repeat split; auto. right; auto.
    - destruct (IH _ _ _ H) as [i' [sl' [? [? ?]]]]. exists i', sl'. repeat split; auto. right; auto.
  Qed.

  Lemma remap_length : forall (s : cstore vec dg) k (raw : list (N * dist)) len, (len < k)%nat ->
    (length (remap s k len raw) <= k - len)%nat.
  Proof.
    intros s k raw. induction raw as [|[i x] t IH]; intros len Hl; cbn [remap]; [cbn; lia|].
    destruct (nth_error s (N.to_nat i)) as [sl|]; [|auto].
    destruct (cs_ext sl); [|auto]. cbn [length].
    destruct (k <=? S len)%nat eqn:E.
    - cbn [length]. lia.
    - apply Nat.leb_gt in E. specialize (IH (S len) E). lia.
  Qed.

  Lemma remap_sound : forall (s : cstore vec dg) (q : vec) k (raw : list (N * dist)) len,
    NoDup (live_exts s) ->
    NoDup (map fst raw) -> StronglySorted (R (rle dle)) raw ->
    (forall i d sl, In (i, d) raw -> nth_error s (N.to_nat i) = Some sl -> d = metric q (cs_vec sl)) ->
    let out := remap s k len raw in
    NoDup (keys out) /\ sorted_by_distance out /\ Forall (live_true s q) out.
  Proof.
    intros s q k raw. induction raw as [|[i x] t IH]; intros len Hwf HN HS Htrue; cbn zeta; cbn [remap].
    - repeat split; constructor.
    - cbn [map fst] in HN. inversion HN as [|? ? Hnin HN']; subst.
      inversion HS as [|? ? HS' HF]; subst.
      assert (Htrue' : forall i d sl, In (i, d) t -> nth_error s (N.to_nat i) = Some sl -> d = metric q (cs_vec sl)).
      { intros; eapply Htrue; eauto. right; auto. }
      destruct (nth_error s (N.to_nat i)) as [sl|] eqn:En; [|apply IH; auto].
      destruct (cs_ext sl) as [ext|] eqn:Ee; [|apply IH; auto].
      destruct (k <=? S len)%nat.
      + repeat split.
        * cbn [map fst]. constructor; [intros []|constructor].
        * constructor; constructor.
        * constructor; [|constructor]. exists sl. cbn [fst snd]. split.
          -- eapply wf_slot_unique; eauto.
          -- eapply Htrue; eauto. left; reflexivity.
      + destruct (IH (S len) Hwf HN' HS' Htrue') as [I1 [I2 I3]]. cbn zeta in *. repeat split.
        * cbn [map fst]. constructor; [|exact I1]. intro Hin. apply in_map_iff in Hin.
          destruct Hin as [[e' d'] [E Hin]]. cbn [fst] in E. subst e'.
          destruct (remap_in _ _ _ _ _ _ Hin) as [i' [sl' [Hraw [Hn' He']]]].
          assert (N.to_nat i = N.to_nat i') by (eapply wf_index_unique; eauto).
          apply Hnin. assert (i = i') by (apply N2Nat.inj; assumption). subst i'.
          change i with (fst (i, d')). apply in_map, Hraw.
        * constructor; [exact I2|]. rewrite Forall_forall in *. intros [e' d'] Hin.
          destruct (remap_in _ _ _ _ _ _ Hin) as [i' [sl' [Hraw _]]].
          specialize (HF _ Hraw). exact HF.
        * constructor; [|exact I3]. exists sl. cbn [fst snd]. split.
          -- eapply wf_slot_unique; eauto.
          -- eapply Htrue; eauto. left; reflexivity.
  Qed.

  Theorem cold_sound : forall (ann : ann_t vec dist) (s : cstore vec dg) (qc : qcheck) (q : vec) (k : N) out,
    store_wf s -> ann_contract ann s q ->
    cold_search ann s qc q k = Ok out ->
    sound_results s q (N.to_nat k) out /\ (1 <= k <= 10000)%N.
  Proof.
    intros ann s qc q k out [Hwf _] Hc H. unfold cold_search in H.
    assert (Hk : (k =? 0)%N = false /\ (10000 <? k)%N = false /\
                 exists raw, ann q (compute_search_k k (live_docs s) (total_slots s)) = Some raw
                             /\ out = remap s (N.to_nat k) 0 raw).
    { destruct qc; try discriminate;
      destruct (k =? 0)%N; try discriminate; destruct (10000 <? k)%N; try discriminate;
      destruct (ann q _) as [raw|] eqn:Ea; try discriminate; inversion H; subst; eauto. }
    destruct Hk as [Hk0 [Hk1 [raw [Ea ->]]]].
    apply N.eqb_neq in Hk0. apply N.ltb_ge in Hk1.
    destruct (Hc _ _ Ea) as [_ [C2 [C3 C4]]].
    destruct (remap_sound s q (N.to_nat k) raw 0 Hwf C2 C3 C4) as [S1 [S2 S3]]. cbn zeta in *.
    split; [|lia]. repeat split; auto.
    pose proof (remap_length s (N.to_nat k) raw 0). lia.
  Qed.

  (* ================================================================ E. the tiered entry points: soundness *)
  Hypothesis digest_inj : forall a b : vec, digest a = digest b -> a = b.
  Hypothesis dg_eqb_eq : forall a b : dg, dg_eqb a b = true -> a = b.

  Definition hot_wf (hs : hot vec dg) : Prop := NoDup (map (@h_id vec dg) hs).

  (* what filter_hot_knn_results_to_canonical keeps, as a predicate on the ORIGINAL hot tier *)
  Definition keep (s : cstore vec dg) (hs : hot vec dg) (r : res) : bool :=
    match hot_find hs (fst r) with
    | Some e => match canonical_vector_state digest dg_eqb s e with Match => true | _ => false end
    | None => false
    end.

  Lemma hot_find_remove : forall (hs : hot vec dg) i j, i <> j -> hot_find (hot_remove hs j) i = hot_find hs i.
  Proof.
    intros hs i j Hne. unfold hot_find, hot_remove. induction hs as [|a hs IH]; [reflexivity|].
    cbn [filter find]. destruct (h_id a =? j)%N eqn:Ej; cbn [negb].
    - apply N.eqb_eq in Ej. destruct (h_id a =? i)%N eqn:Ei; [apply N.eqb_eq in Ei; congruence | exact IH].
    - cbn [find]. destruct (h_id a =? i)%N; [reflexivity | exact IH].
  Qed.

  Lemma filter_hot_fold : forall (s : cstore vec dg) (hs : hot vec dg) (rs acc : list res) (hs' : hot vec dg),
    NoDup (keys rs) ->
    (forall r, In r rs -> hot_find hs' (fst r) = hot_find hs (fst r)) ->
    fst (fold_left (filter_hot_step digest dg_eqb s) rs (acc, hs')) = acc ++ filter (keep s hs) rs.
  Proof.
    intros s hs rs. induction rs as [|r t IH]; intros acc hs' HN Hf; cbn [fold_left filter].
    - cbn [fst]. rewrite app_nil_r. reflexivity.
    - cbn [map] in HN. inversion HN as [|? ? Hnin HN']; subst.
      assert (Hf' : forall r', In r' t -> hot_find hs' (fst r') = hot_find hs (fst r')) by (intros; apply Hf; right; auto).
      unfold filter_hot_step at 2. unfold keep at 1. rewrite (Hf r (or_introl eq_refl)).
      destruct (hot_find hs (fst r)) as [e|] eqn:Efind; [|apply IH; auto].
      destruct (canonical_vector_state digest dg_eqb s e).
      + rewrite IH by auto. rewrite <- app_assoc. reflexivity.
      + apply IH; auto. intros r' Hr'. rewrite hot_find_remove; [apply Hf'; exact Hr'|].
        intro E. apply Hnin. rewrite <- E. apply in_map, Hr'.
      + apply IH; auto. intros r' Hr'. rewrite hot_find_remove; [apply Hf'; exact Hr'|].
        intro E. apply Hnin. rewrite <- E. apply in_map, Hr'.
      + apply IH; auto.
  Qed.

  Lemma filter_hot_fst : forall (s : cstore vec dg) (hs : hot vec dg) (rs : list res),
    NoDup (keys rs) -> fst (filter_hot digest dg_eqb s hs rs) = filter (keep s hs) rs.
  Proof. intros s hs rs HN. unfold filter_hot. rewrite (filter_hot_fold s hs rs [] hs HN); auto. Qed.

  Lemma NoDup_map_inj : forall (A B : Type) (f : A -> B) (l : list A) a b,
    NoDup (map f l) -> In a l -> In b l -> f a = f b -> a = b.
  Proof.
    intros A B f l. induction l as [|x l IH]; intros a b HN Ha Hb E; [destruct Ha|].
    cbn [map] in HN. inversion HN as [|? ? Hnin HN']; subst.
    destruct Ha as [->|Ha]; destruct Hb as [->|Hb]; auto.
    - exfalso. apply Hnin. rewrite E. apply in_map, Hb.
    - exfalso. apply Hnin. rewrite <- E. apply in_map, Ha.
  Qed.

  Lemma hot_knn_keys_nodup : forall k q (hs : hot vec dg), hot_wf hs -> NoDup (keys (hot_knn dle dfin metric k q hs)).
  Proof.
    intros k q hs HN. rewrite hot_heap_is_topk by exact HN. unfold topk_spec.
    rewrite <- firstn_map. apply NoDup_firstn.
    eapply Permutation_NoDup; [apply Permutation_map, Permutation_sym, sort_perm|].
    apply NoDup_fst_filter. unfold hot_cands. rewrite map_map. exact HN.
  Qed.

  Lemma hot_knn_in : forall k q (hs : hot vec dg) r, hot_wf hs -> In r (hot_knn dle dfin metric k q hs) ->
    exists e, In e hs /\ r = (h_id e, metric q (h_vec e)).
  Proof.
    intros k q hs r HN H. rewrite hot_heap_is_topk in H by exact HN. unfold topk_spec in H.
    apply In_firstn in H. rewrite sort_In in H. apply filter_In in H. destruct H as [H _].
    unfold hot_cands in H. apply in_map_iff in H. destruct H as [e [E Hin]]. exists e. auto.
  Qed.

  Lemma kept_hot_live_true : forall (s : cstore vec dg) (hs : hot vec dg) k q r,
    store_wf s -> hot_wf hs ->
    In r (hot_knn dle dfin metric k q hs) -> keep s hs r = true -> live_true s q r.
  Proof.
    intros s hs k q r [_ Hdg] HN Hin Hk.
    destruct (hot_knn_in _ _ _ _ HN Hin) as [e0 [He0 ->]]. unfold keep in Hk. cbn [fst] in Hk.
    destruct (hot_find hs (h_id e0)) as [e|] eqn:Ef; [|discriminate].
    unfold hot_find in Ef. apply find_some in Ef. destruct Ef as [Hein Hid]. apply N.eqb_eq in Hid.
    assert (e = e0) by (eapply (NoDup_map_inj _ _ (@h_id vec dg)); eauto). subst e.
    unfold canonical_vector_state, cold_token in Hk.
    destruct (cold_slot s (h_id e0)) as [sl|] eqn:Es; [|discriminate].
    destruct (tok_eqb dg_eqb (cs_ver sl, cs_dg sl) (h_ver e0, h_dg e0)) eqn:Et; cbn [negb] in Hk; [|discriminate].
    destruct (dg_eqb (digest (h_vec e0)) (h_dg e0)) eqn:Ed; cbn [negb] in Hk; [|discriminate].
    unfold tok_eqb in Et. cbn [fst snd] in Et. apply andb_prop in Et. destruct Et as [_ Et].
    apply dg_eqb_eq in Et. apply dg_eqb_eq in Ed.
    destruct (cold_slot_ext _ _ _ Es) as [Hext Hsl].
    assert (Hlive : is_live sl = true) by (unfold is_live; rewrite Hext; reflexivity).
    pose proof (Hdg sl Hsl Hlive) as Hd.
    exists sl. cbn [fst snd]. split; [exact Es|]. f_equal. apply digest_inj. congruence.
  Qed.

  Lemma resort_sound : forall (s : cstore vec dg) q k (X : list res),
    NoDup (keys X) -> Forall (live_true s q) X ->
    sound_results s q k (firstn k (stable_sort (rle dle) X)).
  Proof.
    intros s q k X HN HF. repeat split.
    - apply firstn_le_length.
    - rewrite <- firstn_map. apply NoDup_firstn.
      eapply Permutation_NoDup; [apply Permutation_map, Permutation_sym, sort_perm | exact HN].
    - apply firstn_sorted, sort_sorted; [apply rle_total | apply rle_trans].
    - rewrite Forall_forall in *. intros r Hr. apply HF. apply In_firstn in Hr. rewrite sort_In in Hr. exact Hr.
  Qed.

  Section Entry.
    Variable order : list res -> list res.
    Hypothesis order_perm : forall l, Permutation (order l) l.

    Lemma hot_r_facts : forall (s : cstore vec dg) (hs : hot vec dg) k q,
      store_wf s -> hot_wf hs ->
      let hot_r := fst (filter_hot digest dg_eqb s hs (hot_knn dle dfin metric k q hs)) in
      NoDup (keys hot_r) /\ Forall (live_true s q) hot_r.
    Proof.
      intros s hs k q Hwf HN. cbn zeta. rewrite filter_hot_fst by (apply hot_knn_keys_nodup; exact HN). split.
      - apply NoDup_fst_filter. apply hot_knn_keys_nodup; exact HN.
      - rewrite Forall_forall. intros r Hr. apply filter_In in Hr. destruct Hr as [Hr Hk].
        eapply kept_hot_live_true; eauto.
    Qed.

    Lemma merged_sound : forall (s : cstore vec dg) q k (hot_r cold_r : list res),
      Forall (live_true s q) hot_r -> Forall (live_true s q) cold_r ->
      sound_results s q k (merge_knn dle order hot_r cold_r k).
    Proof.
      intros s q k hot_r cold_r Hh Hc.
      destruct (merge_sound order order_perm hot_r cold_r k) as [M1 [M2 [M3 M4]]]. cbn zeta in *.
      repeat split; auto. rewrite Forall_forall in *. intros [i d] Hr.
      destruct (M4 i d Hr) as [H|[_ H]]; auto.
    Qed.

    (* a query-cache entry that the cache layer (property C07) keeps valid for (s, q, k) *)
    Definition cache_ok (s : cstore vec dg) (q : vec) (k : nat) (cache : option (list res)) : Prop :=
      forall c, cache = Some c ->
        (length c <= k)%nat /\ NoDup (keys c) /\ sorted_by_distance c
        /\ forall r sl, In r c -> cold_slot s (fst r) = Some sl -> snd r = metric q (cs_vec sl).

    Lemma filter_same_length : forall (A : Type) (p : A -> bool) (l : list A),
      length (filter p l) = length l -> filter p l = l /\ forall x, In x l -> p x = true.
    Proof.
      intros A p l. induction l as [|a l IH]; intro H; [split; [reflexivity | intros x []]|].
      cbn [filter] in *. destruct (p a) eqn:E.
      - cbn [length] in H. destruct (IH ltac:(lia)) as [I1 I2]. split; [rewrite I1; reflexivity|].
        intros x [->|Hx]; auto.
      - pose proof (filter_len_le _ p l). cbn [length] in H. lia.
    Qed.

    Lemma cache_hit_sound : forall (s : cstore vec dg) q k cache c f,
      cache_ok s q k cache -> cache = Some c -> filter_cached s c = (f, false) -> sound_results s q k f.
    Proof.
      intros s q k cache c f Hok -> Hf. unfold filter_cached in Hf. inversion Hf as [[Hf1 Hf2]]. clear Hf.
      apply negb_false_iff, Nat.eqb_eq in Hf2.
      destruct (filter_same_length _ _ _ Hf2) as [E Hall]. rewrite E.
      destruct (Hok c eq_refl) as [C1 [C2 [C3 C4]]]. repeat split; auto.
      rewrite Forall_forall. intros r Hr. specialize (Hall r Hr). unfold cold_exists in Hall.
      destruct (cold_slot s (fst r)) as [sl|] eqn:Es; [|discriminate].
      exists sl. split; [exact Es | eapply C4; eauto].
    Qed.

    Lemma cache_lookup_sound : forall (s : cstore vec dg) q k ef cache f,
      cache_ok s q k cache -> cache_lookup s ef cache = Some f -> sound_results s q k f.
    Proof.
      intros s q k ef cache f Hok H. unfold cache_lookup in H. destruct ef; [discriminate|].
      destruct cache as [c|]; [|discriminate].
      destruct (filter_cached s c) as [f' pruned] eqn:Efc. destruct pruned; [discriminate|].
      inversion H; subst. eapply cache_hit_sound; eauto.
    Qed.

    Theorem tiered_sound : forall (ann : ann_t vec dist) (e e' : engine vec dg) qc q k ef cache r,
      store_wf (e_cold e) -> hot_wf (e_hot e) -> ann_contract ann (e_cold e) q ->
      cache_ok (e_cold e) q (N.to_nat k) cache ->
      tiered_search dle dfin metric digest dg_eqb order ann e qc q k ef cache = (Ok r, e') ->
      sound_results (e_cold e) q (N.to_nat k) (r_results r) /\ e_cold e' = e_cold e.
    Proof.
      intros ann e e' qc q k ef cache r Hwf Hhot Hann Hcache H. unfold tiered_search in H.
      destruct (hot_r_facts (e_cold e) (e_hot e) (N.to_nat (k * 2)) q Hwf Hhot) as [HR1 HR2]. cbn zeta in *.
      assert (Hmiss : forall r0 e0,
        (let '(hot_r, hs') := filter_hot digest dg_eqb (e_cold e) (e_hot e) (hot_knn dle dfin metric (N.to_nat (k * 2)) q (e_hot e)) in
         let e' := mk_engine (e_cold e) hs' in
         let cold_o := if negb (live_docs (e_cold e) =? 0)%N then cold_search ann (e_cold e) QOk q (k * 2) else Ok [] in
         match cold_o with
         | Err er => (Err er, e')
         | Ok cold_r =>
             (Ok (mk_response (merge_knn dle order hot_r cold_r (N.to_nat k))
                    match is_nil hot_r, is_nil cold_r, negb (live_docs (e_cold e) =? 0)%N with
                    | false, false, _ => HotAndCold
                    | false, true, _ => HotTierOnly
                    | true, false, _ => ColdTierOnly
                    | true, true, true => HotAndCold
                    | true, true, false => HotTierOnly
                    end false), e')
         end) = (Ok r0, e0) ->
        sound_results (e_cold e) q (N.to_nat k) (r_results r0) /\ e_cold e0 = e_cold e).
      { intros r0 e0 H0.
        destruct (filter_hot digest dg_eqb (e_cold e) (e_hot e) (hot_knn dle dfin metric (N.to_nat (k * 2)) q (e_hot e))) as [hot_r hs'] eqn:Efh.
        cbn [fst] in HR1, HR2. cbn zeta in H0.
        destruct (negb (live_docs (e_cold e) =? 0)%N).
        - destruct (cold_search ann (e_cold e) QOk q (k * 2)) as [cold_r|er] eqn:Ec; [|discriminate].
          inversion H0; subst. cbn [r_results e_cold]. split; [|reflexivity].
          apply merged_sound; auto. destruct (cold_sound _ _ _ _ _ _ Hwf Hann Ec) as [[_ [_ [_ Hc]]] _]. exact Hc.
        - inversion H0; subst. cbn [r_results e_cold]. split; [|reflexivity]. apply merged_sound; auto. }
      destruct qc; try discriminate;
        (destruct (k =? 0)%N; [discriminate|]); (destruct (10000 <? k)%N; [discriminate|]); try discriminate.
      destruct (cache_lookup (e_cold e) ef cache) as [f|] eqn:Ehit.
      - inversion H; subst. cbn [r_results]. split; [|reflexivity]. eapply cache_lookup_sound; eauto.
      - apply Hmiss. exact H.
    Qed.

    Lemma merged_parts : forall (s : cstore vec dg) q k (hot_r cold_r : list res),
      Forall (live_true s q) hot_r -> Forall (live_true s q) cold_r ->
      NoDup (keys (merge_knn dle order hot_r cold_r k)) /\ Forall (live_true s q) (merge_knn dle order hot_r cold_r k).
    Proof. intros s q k h c Hh Hc. destruct (merged_sound s q k h c Hh Hc) as [_ [A [_ B]]]. auto. Qed.

    (* every Ok response of the timed path — full, partial or degraded — is sound *)
    Theorem timed_sound : forall (ann : ann_t vec dist) (e e' : engine vec dg) qc q k ef cache t r,
      store_wf (e_cold e) -> hot_wf (e_hot e) -> ann_contract ann (e_cold e) q ->
      cache_ok (e_cold e) q (N.to_nat k) cache ->
      timed_search dle dfin metric digest dg_eqb order ann e qc q k ef cache t = (Ok r, e') ->
      sound_results (e_cold e) q (N.to_nat k) (r_results r) /\ e_cold e' = e_cold e.
    Proof.
      intros ann e e' qc q k ef cache t r Hwf Hhot Hann Hcache H. unfold timed_search in H.
      destruct (hot_r_facts (e_cold e) (e_hot e) (N.to_nat (k * 2)) q Hwf Hhot) as [HR1 HR2]. cbn zeta in *.
      assert (Hcold : forall c, cold_search ann (e_cold e) QOk q (k * 2) = Ok c ->
                                NoDup (keys c) /\ Forall (live_true (e_cold e) q) c).
      { intros c Ec. destruct (cold_sound _ _ _ _ _ _ Hwf Hann Ec) as [[_ [A [_ B]]] _]. auto. }
      assert (Hnil1 : NoDup (keys (@nil res))) by constructor.
      assert (Hnil2 : Forall (live_true (e_cold e) q) (@nil res)) by constructor.
      destruct qc; try discriminate;
        (destruct (k =? 0)%N; [discriminate|]); (destruct (10000 <? k)%N; [discriminate|]); try discriminate.
      2: { destruct (t_query_permit t); discriminate. }
      destruct (t_query_permit t); cbn [negb] in H; [|discriminate].
      destruct (cache_lookup (e_cold e) ef cache) as [f|] eqn:Ehit.
      { inversion H; subst. cbn [r_results]. split; [|reflexivity]. eapply cache_lookup_sound; eauto. }
      assert (HX : exists hot_r hs' p1 ha,
                 timed_hot dle dfin metric digest dg_eqb (e_cold e) (e_hot e) q k t = (hot_r, hs', p1, ha)
                 /\ NoDup (keys hot_r) /\ Forall (live_true (e_cold e) q) hot_r).
      { unfold timed_hot.
        destruct (filter_hot digest dg_eqb (e_cold e) (e_hot e) (hot_knn dle dfin metric (N.to_nat (k * 2)) q (e_hot e)))
          as [hot_r0 hs0] eqn:Efh. cbn [fst] in HR1, HR2.
        destruct (t_hot_closed t); [destruct (t_hot_worker t); [destruct (t_hot_out t)|]|];
          do 4 eexists; (split; [reflexivity|]); split; assumption. }
      destruct HX as [hot_r [hs' [p1 [ha [EX [HN HF]]]]]]. rewrite EX in H. clear EX.
      unfold timed_finish in H. cbn zeta in H.
      destruct (negb (live_docs (e_cold e) =? 0)%N && t_cold_closed t).
      - destruct (t_cold_worker t); cbn [negb] in H.
        + assert (HC : exists cold_r p2,
                    match t_cold_out t with
                    | TRun => match cold_search ann (e_cold e) QOk q (k * 2) with
                              | Ok c => (c, p1) | Err _ => ([], true) end
                    | _ => ([], true)
                    end = (cold_r, p2)
                    /\ NoDup (keys cold_r) /\ Forall (live_true (e_cold e) q) cold_r).
          { destruct (t_cold_out t);
              [destruct (cold_search ann (e_cold e) QOk q (k * 2)) as [c|er] eqn:Ec|..];
              do 2 eexists; (split; [reflexivity|]);
              try (split; assumption). apply Hcold; reflexivity. }
          destruct HC as [cold_r [p2 [EC [HCN HCF]]]]. rewrite EC in H. clear EC.
          inversion H; subst. cbn [r_results e_cold]. split; [|reflexivity].
          destruct (merged_parts (e_cold e) q (N.to_nat k) hot_r cold_r HF HCF) as [MN MF].
          apply resort_sound;
            (destruct (negb (is_nil hot_r) && negb (is_nil cold_r)); [assumption|]);
            (destruct (negb (is_nil cold_r)); assumption).
        + destruct (is_nil hot_r); [discriminate|].
          inversion H; subst. cbn [r_results e_cold]. split; [|reflexivity]. apply resort_sound; assumption.
      - inversion H; subst. cbn [r_results e_cold]. split; [|reflexivity]. apply resort_sound; assumption.
    Qed.

    (* ================================================================ F. acknowledged recent writes *)
    Lemma Permutation_filter_len : forall (A : Type) (p : A -> bool) (l l' : list A),
      Permutation l l' -> length (filter p l) = length (filter p l').
    Proof.
      intros A p l l' HP. induction HP; cbn [filter]; auto.
      - destruct (p x); cbn [length]; auto.
      - destruct (p x); destruct (p y); cbn [length]; auto.
      - congruence.
    Qed.

    Lemma filter_all : forall (A : Type) (p : A -> bool) (l : list A), (forall a, In a l -> p a = true) -> filter p l = l.
    Proof.
      intros A p l. induction l as [|a l IH]; intro H; [reflexivity|]. cbn [filter].
      rewrite (H a (or_introl eq_refl)). f_equal. apply IH. intros; apply H; right; auto.
    Qed.

    Lemma NoDup_app_disjoint : forall (A : Type) (l1 l2 : list A) a, NoDup (l1 ++ l2) -> In a l1 -> In a l2 -> False.
    Proof.
      intros A l1. induction l1 as [|x l1 IH]; intros l2 a HN H1 H2; [destruct H1|].
      cbn [app] in HN. inversion HN as [|? ? Hnin HN']; subst. destruct H1 as [->|H1].
      - apply Hnin. apply in_or_app. right; exact H2.
      - eapply IH; eauto.
    Qed.

    (* position of a candidate in the (distance, id) order among the finite candidates *)
    Definition rank_of (x : res) (l : list res) : nat :=
      length (filter (fun c => cand_lt dle c x) (filter (fun c => dfin (snd c)) l)).

    Lemma rank_in_topk : forall (l : list res) (x : res) (n : nat),
      NoDup (keys l) -> In x l -> dfin (snd x) = true -> (rank_of x l < n)%nat ->
      In x (topk_spec dle dfin n l).
    Proof.
      intros l x n HN Hx Hfin Hr. unfold topk_spec, rank_of in *.
      set (F := filter (fun c : res => dfin (snd c)) l) in *.
      set (S := stable_sort (cand_le dle) F).
      assert (HNF : NoDup (keys F)) by (apply NoDup_fst_filter; exact HN).
      assert (HxF : In x F) by (apply filter_In; auto).
      assert (HxS : In x S) by (unfold S; rewrite sort_In; exact HxF).
      assert (HP : Permutation S F) by apply sort_perm.
      assert (HNS : NoDup S).
      { eapply Permutation_NoDup; [apply Permutation_sym, HP|]. eapply NoDup_map_inv. exact HNF. }
      assert (HSS : StronglySorted (R (cand_le dle)) S) by (apply sort_sorted; [apply cle_total | apply cle_trans]).
      rewrite <- (firstn_skipn n S) in HxS, HNS, HSS. apply in_app_or in HxS. destruct HxS as [H|H]; [exact H|].
      exfalso.
      assert (Hlen : length (firstn n S) = n).
      { rewrite firstn_length. destruct (Nat.le_gt_cases n (length S)); [lia|].
        rewrite skipn_all2 in H by lia. destruct H. }
      assert (Hall : forall a, In a (firstn n S) -> cand_lt dle a x = true).
      { intros a Ha. unfold cand_lt. destruct (cand_le dle x a) eqn:E; [|reflexivity]. exfalso.
        assert (Hax : cand_le dle a x = true) by (eapply (sorted_app_le _ (cand_le dle)); eauto).
        assert (a = x).
        { apply (cand_anti_on F HNF); auto.
          apply (Permutation_in _ HP). eapply In_firstn; eauto. }
        subst a. eapply NoDup_app_disjoint; eauto. }
      assert (Hr' : (length (filter (fun c : res => cand_lt dle c x) S) < n)%nat).
      { rewrite (Permutation_filter_len _ (fun c : res => cand_lt dle c x) _ _ HP). exact Hr. }
      rewrite <- (firstn_skipn n S) in Hr'. rewrite filter_app, app_length in Hr'.
      rewrite (filter_all _ _ _ Hall) in Hr'. lia.
    Qed.

    Lemma hot_find_in : forall (hs : hot vec dg) x, hot_wf hs -> In x hs -> hot_find hs (h_id x) = Some x.
    Proof.
      intros hs x HN Hx. unfold hot_find. destruct (find (fun e => (h_id e =? h_id x)%N) hs) as [e|] eqn:E.
      - apply find_some in E. destruct E as [Hin Hid]. apply N.eqb_eq in Hid.
        f_equal. eapply (NoDup_map_inj _ _ (@h_id vec dg)); eauto.
      - exfalso. pose proof (find_none _ _ E x Hx) as Hn. cbn beta in Hn. rewrite N.eqb_refl in Hn. discriminate.
    Qed.

    (* x is a mirror entry whose token matches the canonical record: an acknowledged write that is still
       mirrored in the hot tier and has not been overwritten behind the mirror's back *)
    Definition fresh_mirror (s : cstore vec dg) (x : hentry vec dg) : Prop :=
      canonical_vector_state digest dg_eqb s x = Match.

    Definition cand_of (q : vec) (x : hentry vec dg) : res := (h_id x, metric q (h_vec x)).

    (* THE GUARD: fewer than 2k mirror entries (stale or not) precede x in the (distance, id) order, i.e. x
       survives the hot tier's top-2k cut, which is taken BEFORE stale mirrors are filtered out *)
    Definition survives_hot_cut (q : vec) (k : N) (hs : hot vec dg) (x : hentry vec dg) : Prop :=
      (rank_of (cand_of q x) (hot_cands metric q hs) < N.to_nat (k * 2))%nat.

    (* x is in the result, or the result is full and everything returned is at least as close *)
    Definition present_or_beaten (q : vec) (k : N) (x : hentry vec dg) (out : list res) : Prop :=
      In (cand_of q x) out \/
      (length out = N.to_nat k /\ forall o, In o out -> dle (snd o) (metric q (h_vec x)) = true).

    Lemma fresh_in_hot_r : forall (s : cstore vec dg) (hs : hot vec dg) q k x,
      hot_wf hs -> In x hs -> fresh_mirror s x -> dfin (metric q (h_vec x)) = true ->
      survives_hot_cut q k hs x ->
      In (cand_of q x) (fst (filter_hot digest dg_eqb s hs (hot_knn dle dfin metric (N.to_nat (k * 2)) q hs))).
    Proof.
      intros s hs q k x HN Hx Hf Hfin Hg.
      rewrite filter_hot_fst by (apply hot_knn_keys_nodup; exact HN).
      apply filter_In. split.
      - rewrite hot_heap_is_topk by exact HN. apply rank_in_topk; auto.
        + unfold hot_cands. rewrite map_map. exact HN.
        + unfold hot_cands, cand_of. apply in_map_iff. exists x. auto.
      - unfold keep, cand_of. cbn [fst]. rewrite hot_find_in by assumption. rewrite Hf. reflexivity.
    Qed.

    Lemma resort_complete : forall (X : list res) k r, In r X ->
      let out := firstn k (stable_sort (rle dle) X) in
      In r out \/ (length out = k /\ forall o, In o out -> rle dle o r = true).
    Proof.
      intros X k r Hr. cbn zeta. set (S := stable_sort (rle dle) X).
      assert (HrS : In r S) by (unfold S; rewrite sort_In; exact Hr).
      rewrite <- (firstn_skipn k S) in HrS. apply in_app_or in HrS. destruct HrS as [H|H]; [left; exact H|].
      right. split.
      - rewrite firstn_length. destruct (Nat.le_gt_cases k (length S)); [lia|].
        rewrite skipn_all2 in H by lia. destruct H.
      - intros o Ho. apply (sorted_app_le _ (rle dle) (firstn k S) (skipn k S)); auto.
        rewrite firstn_skipn. apply sort_sorted; [apply rle_total | apply rle_trans].
    Qed.

    (* what the recent-write argument needs from the filtered hot candidates: x's candidate is among them, or
       they are 2k distinct candidates that are all at least as close as x *)
    Definition hot_ok (q : vec) (k : N) (x : hentry vec dg) (hot_r : list res) : Prop :=
      In (cand_of q x) hot_r \/
      (length hot_r = N.to_nat (k * 2)
       /\ forall a, In a hot_r -> dle (snd a) (metric q (h_vec x)) = true).

    Lemma in_or_all : forall (A : Type) (P Q : A -> Prop) (l : list A),
      (forall a, In a l -> P a \/ Q a) -> (forall a, In a l -> P a) \/ (exists a, In a l /\ Q a).
    Proof.
      intros A P Q l. induction l as [|a l IH]; intro H; [left; intros a []|].
      destruct (H a (or_introl eq_refl)) as [Ha|Ha]; [|right; exists a; split; [left; reflexivity | exact Ha]].
      destruct IH as [I|[b [Hb Qb]]]; [intros; apply H; right; auto| |].
      - left. intros b [->|Hb]; auto.
      - right. exists b. split; [right; exact Hb | exact Qb].
    Qed.

    Lemma merge_pob : forall q k x (hot_r cold_r : list res),
      (k <> 0)%N -> NoDup (keys hot_r) -> hot_ok q k x hot_r ->
      present_or_beaten q k x (merge_knn dle order hot_r cold_r (N.to_nat k)).
    Proof.
      intros q k x hot_r cold_r Hk HN [Hin|[Hlen Hall]].
      - pose proof (merge_hot_member hot_r cold_r _ _ HN Hin) as Hm.
        destruct (merge_complete order order_perm hot_r cold_r (N.to_nat k) _ Hm) as [A|[A B]]; [left; exact A|].
        right. split; [exact A|]. intros o Ho. apply (B o Ho).
      - set (out := merge_knn dle order hot_r cold_r (N.to_nat k)).
        assert (Hea : forall a, In a hot_r ->
                  In a out \/ (length out = N.to_nat k /\ forall o, In o out -> rle dle o a = true)).
        { intros [i d] Ha. apply (merge_complete order order_perm). apply merge_hot_member; assumption. }
        destruct (in_or_all _ _ _ _ Hea) as [Hincl|[a [Ha [A B]]]].
        + exfalso. assert (HNl : NoDup hot_r) by (eapply NoDup_map_inv; exact HN).
          pose proof (NoDup_incl_length HNl Hincl) as L1.
          assert (L2 : (length out <= N.to_nat k)%nat) by apply firstn_le_length.
          rewrite Hlen, N2Nat.inj_mul in L1. change (N.to_nat 2) with 2%nat in L1.
          assert (N.to_nat k <> 0%nat) by (intro E; apply Hk; apply N2Nat.inj; exact E). lia.
        + right. split; [exact A|]. intros o Ho. eapply dle_trans; [apply (B o Ho) | apply Hall, Ha].
    Qed.

    Lemma resort_pob : forall q k x (hot_r : list res),
      hot_ok q k x hot_r ->
      present_or_beaten q k x (firstn (N.to_nat k) (stable_sort (rle dle) hot_r)).
    Proof.
      intros q k x hot_r [Hin|[Hlen Hall]].
      - destruct (resort_complete hot_r (N.to_nat k) _ Hin) as [A|[A B]]; [left; exact A|].
        right. split; [exact A|]. intros o Ho. apply (B o Ho).
      - right. split.
        + rewrite firstn_length, sort_length, Hlen, N2Nat.inj_mul. change (N.to_nat 2) with 2%nat. lia.
        + intros o Ho. apply Hall. apply In_firstn in Ho. rewrite sort_In in Ho. exact Ho.
    Qed.

    Lemma resort_of_pob : forall q k x (M : list res), (length M <= N.to_nat k)%nat ->
      present_or_beaten q k x M ->
      present_or_beaten q k x (firstn (N.to_nat k) (stable_sort (rle dle) M)).
    Proof.
      intros q k x M HML HP.
      assert (HE : forall o, In o (firstn (N.to_nat k) (stable_sort (rle dle) M)) <-> In o M).
      { intro o. rewrite firstn_all2 by (rewrite sort_length; exact HML). apply sort_In. }
      assert (HL : length (firstn (N.to_nat k) (stable_sort (rle dle) M)) = length M).
      { rewrite firstn_all2 by (rewrite sort_length; exact HML). apply sort_length. }
      destruct HP as [A|[A B]].
      - left. apply HE. exact A.
      - right. split; [rewrite HL; exact A|]. intros o Ho. apply HE in Ho. apply (B o Ho).
    Qed.

    Lemma hot_ok_not_nil : forall q k x hot_r, (k <> 0)%N -> hot_ok q k x hot_r -> is_nil hot_r = false.
    Proof.
      intros q k x hot_r Hk [Hin|[Hlen _]]; destruct hot_r; try reflexivity; [destruct Hin|].
      cbn [length] in Hlen. rewrite N2Nat.inj_mul in Hlen. change (N.to_nat 2) with 2%nat in Hlen.
      exfalso. apply Hk. apply N2Nat.inj. change (N.to_nat 0) with 0%nat. lia.
    Qed.

    (* the hot candidates that survive the canonical filter *)
    Definition hot_filtered (e : engine vec dg) (q : vec) (k : N) : list res :=
      fst (filter_hot digest dg_eqb (e_cold e) (e_hot e) (hot_knn dle dfin metric (N.to_nat (k * 2)) q (e_hot e))).

    Lemma recent_core : forall (ann : ann_t vec dist) (e e' : engine vec dg) qc q k ef cache r x,
      hot_wf (e_hot e) ->
      tiered_search dle dfin metric digest dg_eqb order ann e qc q k ef cache = (Ok r, e') ->
      r_path r <> CacheHit ->
      hot_ok q k x (hot_filtered e q k) ->
      present_or_beaten q k x (r_results r).
    Proof.
      intros ann e e' qc q k ef cache r x Hhot H Hpath Hok. unfold tiered_search in H. unfold hot_filtered in Hok.
      pose proof (hot_knn_keys_nodup (N.to_nat (k * 2)) q (e_hot e) Hhot) as HNk.
      assert (HNr : NoDup (keys (fst (filter_hot digest dg_eqb (e_cold e) (e_hot e)
                                        (hot_knn dle dfin metric (N.to_nat (k * 2)) q (e_hot e)))))).
      { rewrite filter_hot_fst by exact HNk. apply NoDup_fst_filter. exact HNk. }
      destruct qc; try discriminate;
        (destruct (N.eqb_spec k 0) as [Hk0|Hk0]; [discriminate|]); (destruct (10000 <? k)%N; [discriminate|]); try discriminate.
      destruct (cache_lookup (e_cold e) ef cache) as [f|].
      { inversion H; subst. cbn [r_path] in Hpath. congruence. }
      destruct (filter_hot digest dg_eqb (e_cold e) (e_hot e) (hot_knn dle dfin metric (N.to_nat (k * 2)) q (e_hot e)))
        as [hot_r hs'] eqn:Efh. cbn [fst] in Hok, HNr. cbn zeta in H.
      destruct (negb (live_docs (e_cold e) =? 0)%N).
      - destruct (cold_search ann (e_cold e) QOk q (k * 2)) as [cold_r|er]; [|discriminate].
        inversion H; subst. cbn [r_results]. apply merge_pob; assumption.
      - inversion H; subst. cbn [r_results]. apply merge_pob; assumption.
    Qed.

    Lemma recent_core_timed : forall (ann : ann_t vec dist) (e e' : engine vec dg) qc q k ef cache t r x,
      hot_wf (e_hot e) ->
      timed_search dle dfin metric digest dg_eqb order ann e qc q k ef cache t = (Ok r, e') ->
      r_path r <> CacheHit -> r_degraded r = false ->
      hot_ok q k x (hot_filtered e q k) ->
      present_or_beaten q k x (r_results r).
    Proof.
      intros ann e e' qc q k ef cache t r x Hhot H Hpath Hdeg Hok. unfold timed_search in H. unfold hot_filtered in Hok.
      pose proof (hot_knn_keys_nodup (N.to_nat (k * 2)) q (e_hot e) Hhot) as HNk.
      assert (HNr : NoDup (keys (fst (filter_hot digest dg_eqb (e_cold e) (e_hot e)
                                        (hot_knn dle dfin metric (N.to_nat (k * 2)) q (e_hot e)))))).
      { rewrite filter_hot_fst by exact HNk. apply NoDup_fst_filter. exact HNk. }
      destruct qc; try discriminate;
        (destruct (N.eqb_spec k 0) as [Hk0|Hk0]; [discriminate|]); (destruct (10000 <? k)%N; [discriminate|]); try discriminate.
      2: { destruct (t_query_permit t); discriminate. }
      destruct (t_query_permit t); cbn [negb] in H; [|discriminate].
      destruct (cache_lookup (e_cold e) ef cache) as [f|].
      { inversion H; subst. cbn [r_path] in Hpath. congruence. }
      unfold timed_hot in H.
      destruct (filter_hot digest dg_eqb (e_cold e) (e_hot e) (hot_knn dle dfin metric (N.to_nat (k * 2)) q (e_hot e)))
        as [hot_r hs'] eqn:Efh. cbn [fst] in Hok, HNr.
      pose proof (hot_ok_not_nil q k x hot_r Hk0 Hok) as Hnn.
      unfold timed_finish in H.
      destruct (t_hot_closed t); [|degr H Hdeg].
      destruct (t_hot_worker t); [|degr H Hdeg].
      destruct (t_hot_out t); [|degr H Hdeg|degr H Hdeg].
      cbn zeta in H.
      destruct (negb (live_docs (e_cold e) =? 0)%N && t_cold_closed t) eqn:E1.
      - destruct (negb (t_cold_worker t)).
        + rewrite Hnn in H. inversion H; subst. cbn [r_degraded] in Hdeg. discriminate.
        + destruct (t_cold_out t).
          * destruct (cold_search ann (e_cold e) QOk q (k * 2)) as [c|er].
            -- rewrite Hnn in H. cbn [negb andb] in H. inversion H; subst. cbn [r_results].
               destruct (negb (is_nil c)).
               ++ apply resort_of_pob; [apply firstn_le_length | apply merge_pob; assumption].
               ++ apply resort_pob; exact Hok.
            -- inversion H; subst. cbn [r_degraded] in Hdeg. discriminate.
          * inversion H; subst. cbn [r_degraded] in Hdeg. discriminate.
          * inversion H; subst. cbn [r_degraded] in Hdeg. discriminate.
      - inversion H; subst. cbn [r_results]. apply resort_pob; exact Hok.
    Qed.

    (* guarded form: any hot tier (stale mirrors allowed), x survives the top-2k cut *)
    Theorem recent_write_complete : forall (ann : ann_t vec dist) (e e' : engine vec dg) qc q k ef cache r x,
      hot_wf (e_hot e) ->
      tiered_search dle dfin metric digest dg_eqb order ann e qc q k ef cache = (Ok r, e') ->
      r_path r <> CacheHit ->
      In x (e_hot e) -> fresh_mirror (e_cold e) x -> dfin (metric q (h_vec x)) = true ->
      survives_hot_cut q k (e_hot e) x ->
      present_or_beaten q k x (r_results r).
    Proof.
      intros ann e e' qc q k ef cache r x Hhot H Hpath Hx Hf Hfin Hg.
      eapply recent_core; eauto. left. apply fresh_in_hot_r; assumption.
    Qed.

    Theorem recent_write_complete_timed : forall (ann : ann_t vec dist) (e e' : engine vec dg) qc q k ef cache t r x,
      hot_wf (e_hot e) ->
      timed_search dle dfin metric digest dg_eqb order ann e qc q k ef cache t = (Ok r, e') ->
      r_path r <> CacheHit -> r_degraded r = false ->
      In x (e_hot e) -> fresh_mirror (e_cold e) x -> dfin (metric q (h_vec x)) = true ->
      survives_hot_cut q k (e_hot e) x ->
      present_or_beaten q k x (r_results r).
    Proof.
      intros ann e e' qc q k ef cache t r x Hhot H Hpath Hdeg Hx Hf Hfin Hg.
      eapply recent_core_timed; eauto. left. apply fresh_in_hot_r; assumption.
    Qed.

    (* no stale mirror at all: no guard needed *)
    Definition all_fresh (e : engine vec dg) : Prop := forall y, In y (e_hot e) -> fresh_mirror (e_cold e) y.

    Lemma all_fresh_hot_ok : forall (e : engine vec dg) q k x,
      hot_wf (e_hot e) -> all_fresh e -> In x (e_hot e) -> dfin (metric q (h_vec x)) = true ->
      hot_ok q k x (hot_filtered e q k).
    Proof.
      intros e q k x HN Hall Hx Hfin. unfold hot_filtered.
      pose proof (hot_knn_keys_nodup (N.to_nat (k * 2)) q (e_hot e) HN) as HNk.
      rewrite filter_hot_fst by exact HNk.
      rewrite filter_all.
      2:{ intros a Ha. destruct (hot_knn_in _ _ _ _ HN Ha) as [e0 [He0 ->]].
          unfold keep. cbn [fst]. rewrite hot_find_in by assumption. rewrite (Hall e0 He0). reflexivity. }
      rewrite hot_heap_is_topk by exact HN. unfold topk_spec.
      set (n := N.to_nat (k * 2)).
      set (F := filter (fun c : res => dfin (snd c)) (hot_cands metric q (e_hot e))).
      set (S := stable_sort (cand_le dle) F).
      assert (HxS : In (cand_of q x) S).
      { unfold S. rewrite sort_In. unfold F. apply filter_In. split; [|exact Hfin].
        unfold hot_cands, cand_of. apply in_map_iff. exists x. auto. }
      assert (HSS : StronglySorted (R (cand_le dle)) S) by (apply sort_sorted; [apply cle_total | apply cle_trans]).
      rewrite <- (firstn_skipn n S) in HxS, HSS. apply in_app_or in HxS. destruct HxS as [H|H]; [left; exact H|].
      right. split.
      - rewrite firstn_length. destruct (Nat.le_gt_cases n (length S)) as [L|L]; [apply Nat.min_l; exact L|].
        rewrite skipn_all2 in H by lia. destruct H.
      - intros a Ha. change (metric q (h_vec x)) with (snd (cand_of q x)). apply cle_dle.
        eapply (sorted_app_le _ (cand_le dle)); eauto.
    Qed.

    Theorem recent_write_complete_fresh : forall (ann : ann_t vec dist) (e e' : engine vec dg) qc q k ef cache r x,
      hot_wf (e_hot e) -> all_fresh e ->
      tiered_search dle dfin metric digest dg_eqb order ann e qc q k ef cache = (Ok r, e') ->
      r_path r <> CacheHit ->
      In x (e_hot e) -> dfin (metric q (h_vec x)) = true ->
      present_or_beaten q k x (r_results r).
    Proof. intros. eapply recent_core; eauto. apply all_fresh_hot_ok; assumption. Qed.

    Theorem recent_write_complete_fresh_timed : forall (ann : ann_t vec dist) (e e' : engine vec dg) qc q k ef cache t r x,
      hot_wf (e_hot e) -> all_fresh e ->
      timed_search dle dfin metric digest dg_eqb order ann e qc q k ef cache t = (Ok r, e') ->
      r_path r <> CacheHit -> r_degraded r = false ->
      In x (e_hot e) -> dfin (metric q (h_vec x)) = true ->
      present_or_beaten q k x (r_results r).
    Proof. intros. eapply recent_core_timed; eauto. apply all_fresh_hot_ok; assumption. Qed.
  End Entry.

  (* ================================================================ F'. API histories keep every mirror fresh *)
  Hypothesis dg_eqb_refl : forall a : dg, dg_eqb a a = true.

  Definition mirrors_ok (e : engine vec dg) : Prop := hot_wf (e_hot e) /\ all_fresh e.

  Lemma cold_slot_tombstone_other : forall (s : cstore vec dg) i j, i <> j ->
    cold_slot (map (tombstone j) s) i = cold_slot s i.
  Proof.
    intros s i j Hne. unfold cold_slot. induction s as [|a s IH]; [reflexivity|].
    cbn [map find]. destruct (ext_is j a) eqn:Ej.
    - assert (T : tombstone j a = mk_cslot None (cs_vec a) (cs_ver a) (cs_dg a)) by (unfold tombstone; rewrite Ej; reflexivity).
      rewrite T. unfold ext_is at 1. cbn [cs_ext].
      unfold ext_is in Ej. unfold ext_is at 2. destruct (cs_ext a) as [x|]; [|discriminate].
      apply N.eqb_eq in Ej. subst x. destruct (N.eqb_spec j i); [congruence | exact IH].
    - assert (T : tombstone j a = a) by (unfold tombstone; rewrite Ej; reflexivity).
      rewrite T. destruct (ext_is i a); [reflexivity | exact IH].
  Qed.

  Lemma cold_slot_tombstone_same : forall (s : cstore vec dg) j, cold_slot (map (tombstone j) s) j = None.
  Proof.
    intros s j. unfold cold_slot. induction s as [|a s IH]; [reflexivity|].
    cbn [map find]. destruct (ext_is j a) eqn:Ej.
    - assert (T : tombstone j a = mk_cslot None (cs_vec a) (cs_ver a) (cs_dg a)) by (unfold tombstone; rewrite Ej; reflexivity).
      rewrite T. unfold ext_is at 1. cbn [cs_ext]. exact IH.
    - assert (T : tombstone j a = a) by (unfold tombstone; rewrite Ej; reflexivity).
      rewrite T, Ej. exact IH.
  Qed.

  Lemma cold_slot_app1 : forall (s : cstore vec dg) n i,
    cold_slot (s ++ [n]) i = match cold_slot s i with Some x => Some x | None => if ext_is i n then Some n else None end.
  Proof.
    intros s n i. unfold cold_slot. induction s as [|a s IH]; [reflexivity|].
    cbn [app find]. destruct (ext_is i a); [reflexivity | exact IH].
  Qed.

  Lemma cold_token_insert_other : forall (s : cstore vec dg) i j v, i <> j ->
    cold_token (cold_insert digest s j v) i = cold_token s i.
  Proof.
    intros s i j v Hne. unfold cold_token, cold_insert. rewrite cold_slot_app1, cold_slot_tombstone_other by exact Hne.
    destruct (cold_slot s i); [reflexivity|]. unfold ext_is. cbn [cs_ext].
    destruct (N.eqb_spec j i); [congruence | reflexivity].
  Qed.

  Lemma cold_token_insert_same : forall (s : cstore vec dg) j v,
    cold_token (cold_insert digest s j v) j = Some (next_version s j, digest v).
  Proof.
    intros s j v. unfold cold_token, cold_insert. rewrite cold_slot_app1, cold_slot_tombstone_same.
    unfold ext_is. cbn [cs_ext]. rewrite N.eqb_refl. reflexivity.
  Qed.

  Lemma cold_token_delete_other : forall (s : cstore vec dg) i j, i <> j ->
    cold_token (cold_delete s j) i = cold_token s i.
  Proof. intros. unfold cold_token, cold_delete. rewrite cold_slot_tombstone_other by assumption. reflexivity. Qed.

  Lemma cold_slot_compact : forall (s : cstore vec dg) i, cold_slot (filter (@is_live vec dg) s) i = cold_slot s i.
  Proof.
    intros s i. unfold cold_slot. induction s as [|a s IH]; [reflexivity|].
    cbn [filter find]. unfold is_live at 1. unfold ext_is at 2. destruct (cs_ext a) as [x|] eqn:Ea.
    - cbn [find]. unfold ext_is at 1. rewrite Ea. destruct (x =? i)%N; [reflexivity | exact IH].
    - exact IH.
  Qed.

  Lemma fresh_by_token : forall (s s' : cstore vec dg) y,
    cold_token s' (h_id y) = cold_token s (h_id y) -> fresh_mirror s y -> fresh_mirror s' y.
  Proof. intros s s' y E. unfold fresh_mirror, canonical_vector_state. rewrite E. auto. Qed.

  Lemma fold_insert_other : forall (docs : list (N * vec * bool)) (s : cstore vec dg) i,
    ~ In i (map (fun d => fst (fst d)) docs) ->
    cold_token (fold_left (fun acc d => match d with (id, v, true) => cold_insert digest acc id v | _ => acc end) docs s) i
    = cold_token s i.
  Proof.
    intro docs. induction docs as [|[[id v] b] t IH]; intros s i Hn; [reflexivity|].
    cbn [fold_left]. cbn [map fst In] in Hn. rewrite IH by (intro; apply Hn; right; assumption).
    destruct b; [|reflexivity]. apply cold_token_insert_other. intro E. apply Hn. left. congruence.
  Qed.

  Lemma NoDup_map_filter : forall (A B : Type) (f : A -> B) (p : A -> bool) (l : list A),
    NoDup (map f l) -> NoDup (map f (filter p l)).
  Proof.
    intros A B f p l. induction l as [|a l IH]; intro H; [constructor|].
    cbn [map] in H. inversion H as [|? ? Hnin HN]; subst. cbn [filter]. destruct (p a); [|auto].
    cbn [map]. constructor; [|auto]. intro Hin. apply Hnin.
    apply in_map_iff in Hin. destruct Hin as [x [Hx Hin]]. apply filter_In in Hin. rewrite <- Hx. apply in_map. tauto.
  Qed.

  Lemma hot_remove_id : forall (hs : hot vec dg) id y, In y (hot_remove hs id) -> In y hs /\ h_id y <> id.
  Proof.
    intros hs id y H. unfold hot_remove in H. apply filter_In in H. destruct H as [H1 H2]. split; [exact H1|].
    apply negb_true_iff, N.eqb_neq in H2. exact H2.
  Qed.

  Lemma hot_remove_all_id : forall (hs : hot vec dg) ids y, In y (hot_remove_all hs ids) -> In y hs /\ ~ In (h_id y) ids.
  Proof.
    intros hs ids y H. unfold hot_remove_all in H. apply filter_In in H. destruct H as [H1 H2]. split; [exact H1|].
    apply negb_true_iff in H2. intro Hin.
    assert (existsb (fun i => (h_id y =? i)%N) ids = true); [|congruence].
    apply existsb_exists. exists (h_id y). split; [exact Hin | apply N.eqb_refl].
  Qed.

  (* every write operation of the API (and every removal of mirrors) preserves: keys distinct, no mirror stale *)
  Lemma wstep_mirrors_ok : forall (e : engine vec dg) (o : wop vec), mirrors_ok e -> mirrors_ok (wstep digest e o).
  Proof.
    intros e o [HN Hall]. unfold mirrors_ok, hot_wf, all_fresh in *. destruct o as [id v acc|id|docs| | |ids]; cbn [wstep].
    - destruct acc; [|split; assumption]. cbn [e_hot e_cold]. split.
      + rewrite map_app. cbn [map h_id].
        eapply Permutation_NoDup; [apply Permutation_cons_append|].
        constructor; [|apply NoDup_map_filter; exact HN].
        intro Hin. apply in_map_iff in Hin. destruct Hin as [y [Hy Hin]].
        apply hot_remove_id in Hin. destruct Hin as [_ Hne]. congruence.
      + intros y Hy. apply in_app_or in Hy. destruct Hy as [Hy|[<-|[]]].
        * apply hot_remove_id in Hy. destruct Hy as [Hy Hne].
          eapply fresh_by_token; [|apply Hall, Hy]. apply cold_token_insert_other. exact Hne.
        * unfold fresh_mirror, canonical_vector_state. cbn [h_id h_vec h_ver h_dg].
          rewrite cold_token_insert_same. unfold tok_eqb. cbn [fst snd].
          rewrite N.eqb_refl, !dg_eqb_refl. reflexivity.
    - cbn [e_hot e_cold]. split; [apply NoDup_map_filter; exact HN|].
      intros y Hy. apply hot_remove_id in Hy. destruct Hy as [Hy Hne].
      eapply fresh_by_token; [|apply Hall, Hy]. apply cold_token_delete_other. exact Hne.
    - cbn [e_hot e_cold]. split; [apply NoDup_map_filter; exact HN|].
      intros y Hy. apply hot_remove_all_id in Hy. destruct Hy as [Hy Hn].
      eapply fresh_by_token; [|apply Hall, Hy]. apply fold_insert_other. exact Hn.
    - cbn [e_hot]. split; [constructor | intros y []].
    - cbn [e_hot e_cold]. split; [exact HN|]. intros y Hy.
      eapply fresh_by_token; [|apply Hall, Hy]. unfold cold_token. rewrite cold_slot_compact. reflexivity.
    - cbn [e_hot e_cold]. split; [apply NoDup_map_filter; exact HN|].
      intros y Hy. apply hot_remove_all_id in Hy. destruct Hy as [Hy _]. apply Hall, Hy.
  Qed.

  Lemma wrun_mirrors_ok : forall (ops : list (wop vec)) (e : engine vec dg),
    mirrors_ok e -> mirrors_ok (wrun digest e ops).
  Proof.
    unfold wrun. intro ops. induction ops as [|o ops IH]; intros e H; [exact H|].
    cbn [fold_left]. apply IH. apply wstep_mirrors_ok. exact H.
  Qed.

  Theorem api_history_mirrors_ok : forall (ops : list (wop vec)) (e0 : engine vec dg),
    e_hot e0 = [] -> mirrors_ok (wrun digest e0 ops).
  Proof.
    intros ops e0 H0. apply wrun_mirrors_ok.
    unfold mirrors_ok, hot_wf, all_fresh. rewrite H0. split; [constructor | intros y []].
  Qed.
End KnnFacts.

(* ================================================================ G. compute_search_k (regenerated from /repo) *)
Open Scope N_scope.

(* the translated function is its integer part applied to the value of its float expression *)
Lemma search_k_decompose : forall k live total,
  compute_search_k k live total = compute_search_k_with (search_k_fsite k live total) k live total.
Proof. intros. reflexivity. Qed.

Definition search_k_upper (k total : N) : N := N.min 10000 (N.max total k).

(* bounds, for EVERY value fx of the float expression (hence for the real one) *)
Lemma search_k_bounds_with : forall fx k live total,
  let r := compute_search_k_with fx k live total in
  (k = 0 -> r = 0)
  /\ (1 <= k <= 10000 -> k <= r /\ r <= search_k_upper k total /\ r <= N.max k (N.min 10000 total))
  /\ (r <= 10000)
  /\ (live = 0 \/ total <= live -> k <= 10000 -> r = k).
Proof.
  intros fx k live total. unfold compute_search_k_with, search_k_upper. cbn zeta.
  destruct (N.eqb_spec k 0) as [->|Hk0].
  { repeat split; intros; lia. }
  set (ub := N.min 10000 (N.max total k)).
  destruct (N.leb_spec ub k) as [Hub|Hub]; cbn [orb].
  { unfold ub in *. repeat split; intros; lia. }
  destruct (N.eqb_spec total 0) as [Ht|Ht].
  { unfold ub in *. repeat split; intros; lia. }
  destruct (N.eqb_spec live 0) as [Hl|Hl].
  { unfold ub in *. repeat split; intros; lia. }
  destruct (N.leb_spec total live) as [Htl|Htl].
  { unfold ub in *. repeat split; intros; lia. }
  unfold ub in *. repeat split; intros; lia.
Qed.

(* `.clamp(k, upper_bound)` is never reached with k > upper_bound: no panic *)
Lemma search_k_no_panic : forall fx k live total, compute_search_k_panics_with fx k live total = false.
Proof.
  intros fx k live total. unfold compute_search_k_panics_with. cbn zeta.
  destruct (N.eqb_spec k 0); [reflexivity|].
  destruct (N.leb_spec (N.min 10000 (N.max total k)) k); cbn [orb]; [reflexivity|].
  destruct (N.eqb_spec total 0); [reflexivity|].
  destruct (N.eqb_spec live 0); [reflexivity|].
  destruct (N.leb_spec total live); [reflexivity|].
  apply N.ltb_ge. lia.
Qed.

Lemma ceil_div_mul : forall a l, 0 < l -> a <= (a + l - 1) / l * l.
Proof.
  intros a l Hl. pose proof (N.div_mod (a + l - 1) l ltac:(lia)) as E.
  pose proof (N.mod_lt (a + l - 1) l ltac:(lia)) as M. nia.
Qed.

(* oversampling: unless the result is clamped to the upper bound, search_k covers the expected number of
   candidates needed for k survivors plus the headroom: (search_k - headroom) * live >= k * total.
   Premise: the float expression is not below its exact value (checked on the driver's grid every run). *)
Lemma search_k_oversampling_with : forall fx k live total,
  0 < live -> 1 <= k <= 10000 ->
  search_k_fsite_exact k live total <= fx ->
  let r := compute_search_k_with fx k live total in
  r = search_k_upper k total
  \/ (total <= live /\ r = k)
  \/ (N.max (k / 4) 2 <= r /\ k * total <= (r - N.max (k / 4) 2) * live).
Proof.
  intros fx k live total Hl Hk Hfx. unfold compute_search_k_with, search_k_upper. cbn zeta.
  unfold search_k_fsite_exact in Hfx. cbn zeta in Hfx. rewrite ?N.mul_1_l, ?N.mul_1_r in Hfx.
  destruct (N.eqb_spec k 0) as [->|Hk0]; [lia|].
  set (ub := N.min 10000 (N.max total k)).
  destruct (N.leb_spec ub k) as [Hub|Hub]; cbn [orb]; [left; reflexivity|].
  destruct (N.eqb_spec total 0) as [Ht|Ht]; [left; reflexivity|].
  destruct (N.eqb_spec live 0) as [Hl0|Hl0]; [lia|].
  destruct (N.leb_spec total live) as [Htl|Htl].
  { right; left. split; [exact Htl | unfold ub in *; lia]. }
  set (h := N.max (k / 4) 2).
  set (r := N.min (N.max (N.min (fx + h) usize_max) k) ub).
  destruct (N.eq_dec r ub) as [E|E]; [left; exact E|].
  right; right.
  assert (Hub2 : ub <= 10000) by (unfold ub; lia).
  assert (Hr : r < ub) by (unfold r in *; lia).
  assert (Hum : usize_max = 18446744073709551615) by reflexivity.
  assert (Hfh : fx + h <= r) by (unfold r in *; lia).
  split; [lia|].
  assert (Hc : (k * total + live - 1) / live <= fx) by lia.
  pose proof (ceil_div_mul (k * total) live Hl) as Hcd.
  assert (fx <= r - h) by lia. nia.
Qed.

(* ================================================================ H. the unguarded recent-write statement fails *)
(* Instance: distances are naturals (N.leb), a "vector" is its own distance to the query, the digest is the
   identity (injective).  k = 1.  Documents 1 and 2 were written through the engine (mirrored, version 1) and
   then overwritten behind the mirrors' back (bulk load: version 2, far away: 50, 60).  Document 9 is an
   acknowledged write at distance 5, mirrored with a matching token.  The ANN oracle — any function meeting
   the contract — returns only slot 0.  The two stale mirrors (distances 1 and 2) fill the hot tier's top-2k,
   are then filtered out, and the response is [(1, 50)]: full, not degraded, and without document 9, which
   is strictly closer (5 < 50) than the k-th returned document. *)
Module Witness.
  Definition dleN : N -> N -> bool := N.leb.
  Definition metricN (q v : N) : N := v.
  Definition digestN (v : N) : N := v.
  Definition cold : cstore N N :=
    [ mk_cslot (Some 1) 50 2 50; mk_cslot (Some 2) 60 2 60; mk_cslot (Some 9) 5 1 5 ].
  Definition x9 : hentry N N := mk_hentry 9 5 1 5.
  Definition hotl : hot N N := [ mk_hentry 1 1 1 1; mk_hentry 2 2 1 2; x9 ].
  Definition eng : engine N N := mk_engine cold hotl.
  Definition annw : ann_t N N := fun _ sk => Some (firstn (N.to_nat sk) [(0, 50)]).
  Definition run := tiered_search dleN (fun _ => true) metricN digestN N.eqb (fun l => l) annw eng QOk 0 1 (Some 10000) None.
End Witness.

Lemma dleN_total : forall a b, Witness.dleN a b = true \/ Witness.dleN b a = true.
Proof. intros a b. unfold Witness.dleN. rewrite !N.leb_le. lia. Qed.
Lemma dleN_trans : forall a b c, Witness.dleN a b = true -> Witness.dleN b c = true -> Witness.dleN a c = true.
Proof. intros a b c. unfold Witness.dleN. rewrite !N.leb_le. lia. Qed.

Lemma witness_contract : ann_contract N N N Witness.dleN Witness.metricN Witness.annw Witness.cold 0.
Proof.
  intros sk raw H. unfold Witness.annw in H. inversion H; subst. clear H.
  destruct (N.to_nat sk) as [|n] eqn:E; cbn [firstn].
  - repeat split; try constructor. intros i d sl [].
  - assert (Hf : firstn n (@nil (N * N)) = []) by (destruct n; reflexivity). rewrite Hf.
    repeat split.
    + cbn. lia.
    + cbn. constructor; [intros []|constructor].
    + constructor; constructor.
    + intros i d sl [Hin|[]] Hn. inversion Hin; subst. cbn in Hn. inversion Hn; subst. reflexivity.
Qed.

Lemma witness_refutes :
  store_wf N N Witness.digestN Witness.cold
  /\ hot_wf N N Witness.hotl
  /\ (exists r e', Witness.run = (Ok r, e')
        /\ r_path r <> CacheHit /\ r_degraded r = false
        /\ In Witness.x9 Witness.hotl
        /\ fresh_mirror N N Witness.digestN N.eqb Witness.cold Witness.x9
        /\ ~ present_or_beaten N N N Witness.dleN Witness.metricN 0 1 Witness.x9 (r_results r)
        /\ ~ survives_hot_cut N N N Witness.dleN (fun _ => true) Witness.metricN 0 1 Witness.hotl Witness.x9).
Proof.
  split; [|split].
  - split.
    + vm_compute. repeat constructor; cbn; intuition discriminate.
    + intros sl Hin _. cbn in Hin. destruct Hin as [<-|[<-|[<-|[]]]]; reflexivity.
  - unfold hot_wf. vm_compute. repeat constructor; cbn; intuition discriminate.
  - eexists. eexists. split; [vm_compute; reflexivity|]. cbn [r_path r_degraded r_results].
    split; [discriminate|]. split; [reflexivity|]. split; [right; right; left; reflexivity|].
    split; [vm_compute; reflexivity|]. split.
    + unfold present_or_beaten. vm_compute. intros [[H|[]]|[_ H]].
      * discriminate.
      * specialize (H (1, 50) (or_introl eq_refl)). discriminate.
    + unfold survives_hot_cut. vm_compute. lia.
Qed.
