(* Base lemmas for Model/Filter.v (C11): strings, association maps, bitmaps, posting maps, f64 order key. *)
From Coq Require Import List NArith ZArith Bool Arith Lia.
From Kyro Require Import Model.Filter.
Import ListNotations.

(* ---------------------------------------------------------------- strings *)
Lemma str_eqb_spec : forall a b, reflect (a = b) (str_eqb a b).
Proof.
  induction a as [|x a IH]; destruct b as [|y b]; cbn [str_eqb]; try (constructor; congruence).
  destruct (N.eqb_spec x y) as [->|Hn]; cbn [andb].
  - destruct (IH b) as [->|Hn]; constructor; congruence.
  - constructor; congruence.
Qed.

Lemma str_eqb_refl : forall a, str_eqb a a = true.
Proof. intro a. destruct (str_eqb_spec a a); congruence. Qed.

Lemma str_eqb_sym : forall a b, str_eqb a b = str_eqb b a.
Proof. intros a b. destruct (str_eqb_spec a b), (str_eqb_spec b a); congruence. Qed.

(* ---------------------------------------------------------------- association maps *)
Section AMapLemmas.
  Context {K V : Type} (eqb : K -> K -> bool).
  Hypothesis eqb_spec : forall a b, reflect (a = b) (eqb a b).

  Lemma eqb_refl' : forall a, eqb a a = true.
  Proof. intro a. destruct (eqb_spec a a); congruence. Qed.
  Lemma eqb_sym' : forall a b, eqb a b = eqb b a.
  Proof. intros a b. destruct (eqb_spec a b), (eqb_spec b a); congruence. Qed.

  Lemma aget_aset : forall (k k' : K) (v : V) m,
    aget eqb k' (aset eqb k v m) = if eqb k k' then Some v else aget eqb k' m.
  Proof.
    intros k k' v m. induction m as [|[k0 v0] r IH]; cbn [aset aget].
    - rewrite (eqb_sym' k' k). reflexivity.
    - destruct (eqb_spec k k0) as [->|Hn]; cbn [aget].
      + rewrite (eqb_sym' k' k0). destruct (eqb k0 k'); reflexivity.
      + rewrite IH. destruct (eqb_spec k' k0) as [->|Hn2].
        * destruct (eqb_spec k k0); [congruence|reflexivity].
        * reflexivity.
  Qed.

  Lemma aget_adel : forall (k k' : K) (m : list (K * V)),
    aget eqb k' (adel eqb k m) = if eqb k k' then None else aget eqb k' m.
  Proof.
    intros k k' m. induction m as [|[k0 v0] r IH]; cbn [adel filter aget fst].
    - destruct (eqb k k'); reflexivity.
    - fold (adel eqb k r). destruct (eqb_spec k k0) as [->|Hn]; cbn [negb aget].
      + rewrite IH. rewrite (eqb_sym' k' k0). destruct (eqb k0 k'); reflexivity.
      + rewrite IH. destruct (eqb_spec k' k0) as [->|Hn2].
        * destruct (eqb_spec k k0); [congruence|reflexivity].
        * reflexivity.
  Qed.

  Lemma aget_some_in_keys : forall (k : K) (m : list (K * V)) v,
    aget eqb k m = Some v -> In k (akeys m).
  Proof.
    intros k m v. induction m as [|[k0 v0] r IH]; cbn [aget akeys map fst]; [discriminate|].
    destruct (eqb_spec k k0) as [->|Hn]; [left; reflexivity|]. intro H. right. apply IH, H.
  Qed.
End AMapLemmas.

(* ---------------------------------------------------------------- bitmaps *)
Lemma bm_mem_cons : forall j i b, bm_mem j (i :: b) = (i =? j) || bm_mem j b.
Proof. intros. unfold bm_mem. cbn [existsb]. rewrite (Nat.eqb_sym j i). reflexivity. Qed.

Lemma bm_mem_nil : forall j, bm_mem j [] = false.
Proof. reflexivity. Qed.

Lemma bm_mem_In : forall j b, bm_mem j b = true <-> In j b.
Proof.
  intros j b. unfold bm_mem. rewrite existsb_exists. split.
  - intros [x [Hx He]]. apply Nat.eqb_eq in He. subst. exact Hx.
  - intro H. exists j. split; [exact H|apply Nat.eqb_refl].
Qed.

Lemma bm_mem_insert : forall j i b, bm_mem j (bm_insert i b) = (i =? j) || bm_mem j b.
Proof.
  intros j i b. unfold bm_insert. destruct (bm_mem i b) eqn:E.
  - destruct (Nat.eqb_spec i j) as [->|Hn]; cbn [orb]; [exact E|reflexivity].
  - apply bm_mem_cons.
Qed.

Lemma bm_mem_filter : forall j p b, bm_mem j (filter p b) = p j && bm_mem j b.
Proof.
  intros j p b. induction b as [|x b IH]; cbn [filter].
  - rewrite bm_mem_nil. rewrite andb_false_r. reflexivity.
  - destruct (p x) eqn:E; rewrite ?bm_mem_cons, IH.
    + destruct (Nat.eqb_spec x j) as [->|Hn]; cbn [orb]; [rewrite E|]; reflexivity.
    + destruct (Nat.eqb_spec x j) as [->|Hn]; cbn [orb]; [rewrite E|]; reflexivity.
Qed.

Lemma bm_mem_remove : forall j i b, bm_mem j (bm_remove i b) = negb (i =? j) && bm_mem j b.
Proof. intros. unfold bm_remove. apply bm_mem_filter. Qed.

Lemma bm_mem_app : forall j a b, bm_mem j (a ++ b) = bm_mem j a || bm_mem j b.
Proof. intros. unfold bm_mem. apply existsb_app. Qed.

Lemma bm_mem_or : forall j a b, bm_mem j (bm_or a b) = bm_mem j a || bm_mem j b.
Proof.
  intros. unfold bm_or. rewrite bm_mem_app, bm_mem_filter.
  destruct (bm_mem j a); reflexivity.
Qed.

Lemma bm_mem_and : forall j a b, bm_mem j (bm_and a b) = bm_mem j a && bm_mem j b.
Proof. intros. unfold bm_and. rewrite bm_mem_filter. apply andb_comm. Qed.

Lemma bm_mem_diff : forall j a b, bm_mem j (bm_diff a b) = bm_mem j a && negb (bm_mem j b).
Proof. intros. unfold bm_diff. rewrite bm_mem_filter. apply andb_comm. Qed.

Lemma bm_empty_mem : forall j b, bm_is_empty b = true -> bm_mem j b = false.
Proof. intros j [|x b]; [reflexivity|discriminate]. Qed.

Lemma sorted_insert_In : forall i j l, In j (sorted_insert i l) <-> j = i \/ In j l.
Proof.
  intros i j l. induction l as [|x l IH]; cbn [sorted_insert].
  - cbn. intuition.
  - destruct (i <? x); [cbn; intuition|].
    destruct (Nat.eqb_spec i x) as [->|Hn]; cbn [In].
    + intuition.
    + rewrite IH. intuition.
Qed.

Lemma bm_iter_In : forall j b, In j (bm_iter b) <-> bm_mem j b = true.
Proof.
  intros j b. rewrite bm_mem_In. unfold bm_iter. induction b as [|x b IH]; cbn [fold_right].
  - reflexivity.
  - rewrite sorted_insert_In, IH. cbn. intuition.
Qed.

(* strictly ascending *)
Fixpoint ascending (l : list nat) : Prop :=
  match l with
  | [] => True
  | x :: r => (forall y, In y r -> x < y) /\ ascending r
  end.

Lemma sorted_insert_asc : forall i l, ascending l -> ascending (sorted_insert i l).
Proof.
  intros i l. induction l as [|x l IH]; cbn [sorted_insert]; intro H.
  - cbn. split; [intros y []|exact I].
  - destruct H as [Hx Hl]. destruct (Nat.ltb_spec i x) as [Hlt|Hge].
    + cbn [ascending]. split; [|split; assumption].
      intros y [<-|Hy]; [exact Hlt|]. specialize (Hx y Hy). lia.
    + destruct (Nat.eqb_spec i x) as [->|Hn]; [cbn; split; assumption|].
      cbn [ascending]. split; [|apply IH, Hl].
      intros y Hy. apply sorted_insert_In in Hy. destruct Hy as [->|Hy]; [lia|apply Hx, Hy].
Qed.

Lemma bm_iter_asc : forall b, ascending (bm_iter b).
Proof.
  induction b as [|x b IH]; cbn; [exact I|]. apply sorted_insert_asc, IH.
Qed.

Lemma ascending_NoDup : forall l, ascending l -> NoDup l.
Proof.
  induction l as [|x l IH]; intro H; [constructor|]. destruct H as [Hx Hl].
  constructor; [|apply IH, Hl]. intro Hin. specialize (Hx x Hin). lia.
Qed.

Lemma ascending_ext : forall l1 l2, ascending l1 -> ascending l2 ->
  (forall x, In x l1 <-> In x l2) -> l1 = l2.
Proof.
  induction l1 as [|x l1 IH]; intros l2 H1 H2 Heq.
  - destruct l2 as [|y l2]; [reflexivity|]. exfalso. apply (Heq y). left; reflexivity.
  - destruct l2 as [|y l2]; [exfalso; apply (Heq x); left; reflexivity|].
    destruct H1 as [Hx H1], H2 as [Hy H2].
    assert (x = y) as ->.
    { destruct (proj1 (Heq x) (or_introl eq_refl)) as [E|Hin]; [congruence|].
      destruct (proj2 (Heq y) (or_introl eq_refl)) as [E|Hin2]; [congruence|].
      specialize (Hy x Hin). specialize (Hx y Hin2). lia. }
    f_equal. apply IH; [assumption..|].
    intro z. split; intro Hz.
    + destruct (proj1 (Heq z) (or_intror Hz)) as [E|Hin]; [|exact Hin].
      subst z. specialize (Hx y Hz). lia.
    + destruct (proj2 (Heq z) (or_intror Hz)) as [E|Hin]; [|exact Hin].
      subst z. specialize (Hy y Hz). lia.
Qed.

(* ---------------------------------------------------------------- posting maps *)
Section PostingLemmas.
  Context {K1 K2 : Type} (eq1 : K1 -> K1 -> bool) (eq2 : K2 -> K2 -> bool).
  Hypothesis eq1_spec : forall a b, reflect (a = b) (eq1 a b).
  Hypothesis eq2_spec : forall a b, reflect (a = b) (eq2 a b).

  Lemma mem_get1_add1 : forall j k k' i (m : list (K2 * bitmap)),
    bm_mem j (get1 eq2 k' (add1 eq2 k i m)) = bm_mem j (get1 eq2 k' m) || (eq2 k k' && (i =? j)).
  Proof.
    intros. unfold add1, get1 at 1. rewrite (aget_aset eq2 eq2_spec).
    destruct (eq2_spec k k') as [->|Hn]; cbn [andb].
    - rewrite bm_mem_insert. apply orb_comm.
    - rewrite orb_false_r. reflexivity.
  Qed.

  Lemma mem_get1_rem1 : forall j k k' i (m : list (K2 * bitmap)),
    bm_mem j (get1 eq2 k' (rem1 eq2 k i m)) = bm_mem j (get1 eq2 k' m) && negb (eq2 k k' && (i =? j)).
  Proof.
    intros. unfold rem1. destruct (aget eq2 k m) as [b|] eqn:E.
    - destruct (bm_is_empty (bm_remove i b)) eqn:Em; unfold get1 at 1.
      + rewrite (aget_adel eq2 eq2_spec). destruct (eq2_spec k k') as [->|Hn]; cbn [andb negb].
        * unfold get1. rewrite E. rewrite bm_mem_nil.
          pose proof (bm_empty_mem j _ Em) as H. rewrite bm_mem_remove in H.
          destruct (i =? j); cbn [negb andb] in *; [rewrite andb_false_r; reflexivity|].
          rewrite H. reflexivity.
        * rewrite andb_true_r. reflexivity.
      + rewrite (aget_aset eq2 eq2_spec). destruct (eq2_spec k k') as [->|Hn]; cbn [andb negb].
        * unfold get1. rewrite E. rewrite bm_mem_remove. apply andb_comm.
        * rewrite andb_true_r. reflexivity.
    - destruct (eq2_spec k k') as [->|Hn]; cbn [andb negb]; [|rewrite andb_true_r; reflexivity].
      unfold get1. rewrite E. rewrite bm_mem_nil. reflexivity.
  Qed.

  Lemma getm_aset : forall k k' x (m : list (K1 * list (K2 * bitmap))),
    getm eq1 k' (aset eq1 k x m) = if eq1 k k' then x else getm eq1 k' m.
  Proof. intros. unfold getm. rewrite (aget_aset eq1 eq1_spec). destruct (eq1 k k'); reflexivity. Qed.

  Lemma getm_adel : forall k k' (m : list (K1 * list (K2 * bitmap))),
    getm eq1 k' (adel eq1 k m) = if eq1 k k' then [] else getm eq1 k' m.
  Proof. intros. unfold getm. rewrite (aget_adel eq1 eq1_spec). destruct (eq1 k k'); reflexivity. Qed.

  Lemma mem_get2_add2 : forall j k v k' v' i (m : list (K1 * list (K2 * bitmap))),
    bm_mem j (get2 eq1 eq2 k' v' (add2 eq1 eq2 k v i m))
    = bm_mem j (get2 eq1 eq2 k' v' m) || (eq1 k k' && eq2 v v' && (i =? j)).
  Proof.
    intros. unfold add2, get2. rewrite getm_aset.
    destruct (eq1_spec k k') as [->|Hn]; cbn [andb].
    - rewrite mem_get1_add1. reflexivity.
    - rewrite orb_false_r. reflexivity.
  Qed.

  Lemma mem_get2_rem2 : forall j k v k' v' i (m : list (K1 * list (K2 * bitmap))),
    bm_mem j (get2 eq1 eq2 k' v' (rem2 eq1 eq2 k v i m))
    = bm_mem j (get2 eq1 eq2 k' v' m) && negb (eq1 k k' && eq2 v v' && (i =? j)).
  Proof.
    intros. unfold rem2. destruct (aget eq1 k m) as [values|] eqn:E.
    - assert (Hv : getm eq1 k m = values) by (unfold getm; rewrite E; reflexivity).
      assert (Hgoal : bm_mem j (get1 eq2 v' (if eq1 k k' then rem1 eq2 v i values else getm eq1 k' m))
                      = bm_mem j (get2 eq1 eq2 k' v' m) && negb (eq1 k k' && eq2 v v' && (i =? j))).
      { unfold get2. destruct (eq1_spec k k') as [->|Hn]; cbn [andb negb].
        - rewrite mem_get1_rem1, Hv. reflexivity.
        - rewrite andb_true_r. reflexivity. }
      destruct (rem1 eq2 v i values) as [|e r] eqn:Er.
      + rewrite <- Hgoal. unfold get2. rewrite getm_adel. reflexivity.
      + rewrite <- Hgoal. unfold get2. rewrite getm_aset. reflexivity.
    - unfold get2. destruct (eq1_spec k k') as [->|Hn]; cbn [andb negb]; [|rewrite andb_true_r; reflexivity].
      unfold getm. rewrite E. unfold get1. cbn. reflexivity.
  Qed.

  Lemma union_where_acc : forall (j : nat) (p : K2 -> bool) (m : list (K2 * bitmap)) (ks : list K2) (acc : bitmap),
    bm_mem j (fold_left (fun (acc : bitmap) (k : K2) => if p k then bm_or acc (get1 eq2 k m) else acc) ks acc) = true
    <-> bm_mem j acc = true \/ exists k, In k ks /\ p k = true /\ bm_mem j (get1 eq2 k m) = true.
  Proof.
    intros j p m ks. induction ks as [|k ks IH]; intro acc; cbn [fold_left].
    - split; [intro H; left; exact H|]. intros [H|[k [[] _]]]. exact H.
    - rewrite IH. split.
      + intros [H|[k0 [Hin [Hp Hm]]]].
        * destruct (p k) eqn:Ep; [|left; exact H].
          rewrite bm_mem_or in H. apply orb_true_iff in H. destruct H as [H|H]; [left; exact H|].
          right. exists k. split; [left; reflexivity|split; assumption].
        * right. exists k0. split; [right; exact Hin|split; assumption].
      + intros [H|[k0 [[<-|Hin] [Hp Hm]]]].
        * left. destruct (p k); [rewrite bm_mem_or, H; reflexivity|exact H].
        * left. rewrite Hp. rewrite bm_mem_or, Hm. apply orb_true_r.
        * right. exists k0. split; [exact Hin|split; assumption].
  Qed.

  Lemma mem_union_where : forall (j : nat) (p : K2 -> bool) (m : list (K2 * bitmap)),
    bm_mem j (union_where eq2 p m) = true
    <-> exists k, p k = true /\ bm_mem j (get1 eq2 k m) = true.
  Proof.
    intros. unfold union_where. rewrite union_where_acc. rewrite bm_mem_nil. split.
    - intros [H|[k [_ [Hp Hm]]]]; [discriminate|]. exists k. split; assumption.
    - intros [k [Hp Hm]]. right. exists k. split; [|split; assumption].
      unfold get1 in Hm. destruct (aget eq2 k m) as [b|] eqn:E; [|rewrite bm_mem_nil in Hm; discriminate].
      eapply (aget_some_in_keys eq2 eq2_spec). exact E.
  Qed.
End PostingLemmas.

(* ---------------------------------------------------------------- f64 order key *)
Lemma two63_pos : (0 < two63)%Z. Proof. reflexivity. Qed.

Lemma f64_norm_range : forall z, (0 <= f64_norm z < two64)%Z.
Proof. intro z. unfold f64_norm. apply Z.mod_pos_bound. reflexivity. Qed.

Lemma f64_mag_cases : forall a, (0 <= a < two64)%Z ->
  (a < two63 /\ f64_mag a = a /\ f64_neg a = false)%Z \/
  (two63 <= a /\ f64_mag a = a - two63 /\ f64_neg a = true)%Z.
Proof.
  intros a Ha. unfold f64_mag, f64_neg. destruct (Z.leb_spec two63 a) as [Hge|Hlt].
  - right. split; [exact Hge|]. split; [|reflexivity].
    symmetry. apply (Z.mod_unique_pos a two63 1 (a - two63)); unfold two63, two64 in *; lia.
  - left. split; [exact Hlt|]. split; [|reflexivity]. apply Z.mod_small. lia.
Qed.

(* the code's ordered key is the signed magnitude shifted: order-isomorphic on non-NaN values *)
Lemma okey_sval : forall a, (0 <= a < two64)%Z -> f64_is_nan a = false ->
  okey a = (if (f64_sval a <? 0)%Z then f64_sval a + two63 - 1 else f64_sval a + two63)%Z.
Proof.
  intros a Ha Hnan. unfold okey, f64_eq, f64_ord. rewrite Hnan.
  change (f64_is_nan 0) with false. change (f64_sval 0) with 0%Z. cbn [negb andb].
  unfold f64_sval. destruct (f64_mag_cases a Ha) as [[H1 [H2 H3]]|[H1 [H2 H3]]]; rewrite H2, H3.
  - destruct (Z.eqb_spec a 0) as [->|Hn]; [reflexivity|].
    destruct (Z.ltb_spec a two63); [|lia]. destruct (Z.ltb_spec a 0); [lia|reflexivity].
  - destruct (Z.eqb_spec (- (a - two63)) 0) as [E|Hn].
    + assert (a = two63) by lia. subst a. reflexivity.
    + destruct (Z.ltb_spec a two63); [lia|]. destruct (Z.ltb_spec (- (a - two63)) 0); [|lia].
      unfold two63, two64 in *. lia.
Qed.

Lemma okey_le : forall a b, (0 <= a < two64)%Z -> (0 <= b < two64)%Z ->
  f64_is_nan a = false -> f64_is_nan b = false ->
  (okey a <=? okey b)%Z = f64_le a b.
Proof.
  intros a b Ha Hb Na Nb. unfold f64_le, f64_ord. rewrite Na, Nb. cbn [negb andb].
  rewrite (okey_sval a Ha Na), (okey_sval b Hb Nb).
  destruct (Z.ltb_spec (f64_sval a) 0), (Z.ltb_spec (f64_sval b) 0),
           (Z.leb_spec (f64_sval a) (f64_sval b));
    first [apply Z.leb_le | apply Z.leb_gt]; unfold two63; lia.
Qed.

Lemma okey_lt : forall a b, (0 <= a < two64)%Z -> (0 <= b < two64)%Z ->
  f64_is_nan a = false -> f64_is_nan b = false ->
  (okey a <? okey b)%Z = f64_lt a b.
Proof.
  intros a b Ha Hb Na Nb. unfold f64_lt, f64_ord. rewrite Na, Nb. cbn [negb andb].
  rewrite (okey_sval a Ha Na), (okey_sval b Hb Nb).
  destruct (Z.ltb_spec (f64_sval a) 0), (Z.ltb_spec (f64_sval b) 0),
           (Z.ltb_spec (f64_sval a) (f64_sval b));
    first [apply Z.ltb_lt | apply Z.ltb_ge]; unfold two63; lia.
Qed.

Lemma f64_cmp_nan_l : forall a b, f64_is_nan a = true ->
  f64_lt a b = false /\ f64_le a b = false /\ f64_gt a b = false /\ f64_ge a b = false.
Proof.
  intros a b H. unfold f64_gt, f64_ge, f64_lt, f64_le, f64_ord. rewrite H. cbn [negb andb].
  rewrite andb_false_r. auto.
Qed.

Lemma f64_cmp_nan_r : forall a b, f64_is_nan b = true ->
  f64_lt a b = false /\ f64_le a b = false /\ f64_gt a b = false /\ f64_ge a b = false.
Proof.
  intros a b H. unfold f64_gt, f64_ge, f64_lt, f64_le, f64_ord. rewrite H. cbn [negb andb].
  rewrite andb_false_r. auto.
Qed.
