(* Proofs about Model/Conc09.v: the inductive invariant of the writer / snapshot / rotation /
   compaction protocol over ALL schedules, any number of writer and snapshot threads.

   The invariant is phrased over a `view` of the state that forgets the thread list:
     v_hi    = first sequence number not yet appended (next_wal_seq, or the base of the writer that
               has allocated but not yet appended),
     v_tgt   = the collection a restart must yield now = store + (appended, not yet applied entries),
     manifest, segment files, snapshot files, file-id counter, next_wal_seq, the segment file a
     rotation has created but not yet listed, the active file.
   `GV v` are the global facts, `P v p` what must hold for a thread in phase p:
     (i)   a captured (last, copy) is consistent: while the manifest's pointer is not newer than
           `last`, replaying the listed segments over `copy`, skipping entries covered by `last`,
           gives v_tgt — at the capture this is `copy = store`, all listed entries covered, which
           needs that NO writer sits between its sequence allocation and its apply: the capture step
           is enabled only without readers of snapshot_lock;
     (ii)  the manifest's pointer only grows (stale check under manifest_lock);
     (iii) replaying the listed segments over the manifest's snapshot gives v_tgt: compaction drops
           only segments all of whose entries are covered, rotation lists the new (empty) segment
           before anything is appended to it. *)
From Coq Require Import List NArith Bool Lia Arith Sorted.
From Kyro Require Import Model.Amap Model.Conc09.
Import ListNotations.
Open Scope N_scope.

(* ---------------------------------------------------------------------------------------------- *)
(* association lists                                                                                *)
(* ---------------------------------------------------------------------------------------------- *)

Lemma tget_tset : forall l t p t', tget (tset l t p) t' = if Nat.eqb t t' then p else tget l t'.
Proof.
  induction l as [|[k q] r IH]; intros t p t'; cbn [tset tget].
  - destruct (Nat.eqb t t'); reflexivity.
  - destruct (Nat.eqb k t) eqn:E; cbn [tget].
    + apply Nat.eqb_eq in E; subst k. destruct (Nat.eqb t t'); reflexivity.
    + rewrite IH. destruct (Nat.eqb t t') eqn:E2; [|reflexivity].
      apply Nat.eqb_eq in E2; subst t'. rewrite E. reflexivity.
Qed.

Lemma tget_tset_same : forall l t p, tget (tset l t p) t = p.
Proof. intros. rewrite tget_tset, Nat.eqb_refl. reflexivity. Qed.

Lemma tget_tset_other : forall l t p t', t <> t' -> tget (tset l t p) t' = tget l t'.
Proof. intros. rewrite tget_tset. destruct (Nat.eqb t t') eqn:E; [apply Nat.eqb_eq in E; tauto|reflexivity]. Qed.

Lemma forallb_tget : forall (h : phase -> bool) l, h Idle = true ->
  forallb (fun tp => h (snd tp)) l = true -> forall t, h (tget l t) = true.
Proof.
  induction l as [|[k q] r IH]; intros Hi H t; cbn [tget]; [exact Hi|].
  cbn [forallb snd] in H. apply andb_true_iff in H. destruct H as [H1 H2].
  destruct (Nat.eqb k t); auto.
Qed.

Section AssocLemmas.
  Context {V : Type}.
  Implicit Types l : list (N * V).

  Lemma fget_fset : forall l k v k', fget (fset l k v) k' = if N.eqb k k' then Some v else fget l k'.
  Proof.
    induction l as [|[k0 v0] r IH]; intros k v k'; cbn [fset fget].
    - destruct (N.eqb k k'); reflexivity.
    - destruct (N.eqb k0 k) eqn:E; cbn [fget].
      + apply N.eqb_eq in E; subst k0. destruct (N.eqb k k'); reflexivity.
      + rewrite IH. destruct (N.eqb k k') eqn:E2; [|reflexivity].
        apply N.eqb_eq in E2; subst k'. rewrite E. reflexivity.
  Qed.

  Lemma fget_fdel : forall l k k', fget (fdel l k) k' = if N.eqb k k' then None else fget l k'.
  Proof.
    induction l as [|[k0 v0] r IH]; intros k k'; cbn [fdel fget].
    - destruct (N.eqb k k'); reflexivity.
    - destruct (N.eqb k0 k) eqn:E.
      + apply N.eqb_eq in E; subst k0. rewrite IH. destruct (N.eqb k k'); reflexivity.
      + cbn [fget]. rewrite IH. destruct (N.eqb k k') eqn:E2; [|reflexivity].
        apply N.eqb_eq in E2; subst k'. rewrite E. reflexivity.
  Qed.
End AssocLemmas.

Lemma fget_fset_same {V} : forall (l : list (N * V)) k v, fget (fset l k v) k = Some v.
Proof. intros. rewrite fget_fset, N.eqb_refl. reflexivity. Qed.
Lemma fget_fset_other {V} : forall (l : list (N * V)) k v k', k <> k' -> fget (fset l k v) k' = fget l k'.
Proof. intros. rewrite fget_fset. destruct (N.eqb k k') eqn:E; [apply N.eqb_eq in E; tauto|reflexivity]. Qed.
Lemma fget_fdel_other {V} : forall (l : list (N * V)) k k', k <> k' -> fget (fdel l k) k' = fget l k'.
Proof. intros. rewrite fget_fdel. destruct (N.eqb k k') eqn:E; [apply N.eqb_eq in E; tauto|reflexivity]. Qed.

Lemma fget_unlink : forall del files f,
  fget (unlink_all files del) f = if existsb (N.eqb f) del then None else fget files f.
Proof.
  unfold unlink_all. induction del as [|d r IH]; intros files f; cbn [fold_left existsb]; [reflexivity|].
  rewrite IH, fget_fdel. rewrite (N.eqb_sym f d).
  destruct (N.eqb d f); cbn [orb]; destruct (existsb (N.eqb f) r); reflexivity.
Qed.

Lemma existsb_eqb_In : forall l f, existsb (N.eqb f) l = true <-> In f l.
Proof.
  intros. rewrite existsb_exists. split.
  - intros [x [H1 H2]]. apply N.eqb_eq in H2. subst. exact H1.
  - intros H. exists f. split; [exact H|apply N.eqb_refl].
Qed.

Lemma fget_unlink_notin : forall del files f, ~ In f del -> fget (unlink_all files del) f = fget files f.
Proof.
  intros. rewrite fget_unlink. destruct (existsb (N.eqb f) del) eqn:E; [|reflexivity].
  apply existsb_eqb_In in E. tauto.
Qed.

Lemma fget_unlink_some : forall del files f es, fget (unlink_all files del) f = Some es -> fget files f = Some es.
Proof. intros del files f es. rewrite fget_unlink. destruct (existsb (N.eqb f) del); [discriminate|auto]. Qed.

(* ---------------------------------------------------------------------------------------------- *)
(* replay                                                                                           *)
(* ---------------------------------------------------------------------------------------------- *)

Lemma replay_app : forall last d a b, replay last d (a ++ b) = replay last (replay last d a) b.
Proof. intros. unfold replay. apply fold_left_app. Qed.

Lemma replay_covered_all : forall last es d, forallb (covered last) es = true -> replay last d es = d.
Proof.
  induction es as [|e r IH]; intros d H; [reflexivity|].
  cbn [forallb] in H. apply andb_true_iff in H. destruct H as [H1 H2].
  unfold replay in *. cbn [fold_left]. unfold replay1 at 2. rewrite H1. apply IH. exact H2.
Qed.

Lemma replay_uncovered : forall last es d, (forall e, In e es -> covered last e = false) ->
  replay last d es = apply_entries d es.
Proof.
  induction es as [|e r IH]; intros d H; [reflexivity|].
  unfold replay, apply_entries in *. cbn [fold_left]. unfold replay1 at 2.
  rewrite (H e (or_introl eq_refl)). apply IH. intros e' He'. apply H. right. exact He'.
Qed.

Lemma covered_mono : forall l l' e, covered l e = true -> l <= l' -> covered l' e = true.
Proof.
  unfold covered. intros l l' e H Hle.
  apply andb_true_iff in H. destruct H as [H H3]. apply andb_true_iff in H. destruct H as [H1 H2].
  apply N.ltb_lt in H1, H2. apply N.leb_le in H3.
  rewrite !andb_true_iff. repeat split; [apply N.ltb_lt|apply N.ltb_lt|apply N.leb_le]; lia.
Qed.

Lemma covered_above : forall l e, l < e_seq e -> covered l e = false.
Proof.
  unfold covered. intros l e H. destruct (e_seq e <=? l) eqn:E; [apply N.leb_le in E; lia|].
  rewrite andb_false_r. reflexivity.
Qed.

Lemma covered_below : forall l e, 1 <= e_seq e -> e_seq e <= l -> covered l e = true.
Proof.
  unfold covered. intros l e H1 H2. rewrite !andb_true_iff. repeat split; [apply N.ltb_lt|apply N.ltb_lt|apply N.leb_le]; lia.
Qed.

Lemma forallb_covered_mono : forall l l' es, l <= l' -> forallb (covered l) es = true -> forallb (covered l') es = true.
Proof.
  intros l l' es Hle H. rewrite forallb_forall in *. intros e He. eapply covered_mono; eauto.
Qed.

Lemma apply_entries_app : forall d a b, apply_entries d (a ++ b) = apply_entries (apply_entries d a) b.
Proof. intros. unfold apply_entries. apply fold_left_app. Qed.

(* ---------------------------------------------------------------------------------------------- *)
(* the listed entries                                                                               *)
(* ---------------------------------------------------------------------------------------------- *)

Definition content (files : list (N * list entry)) (f : N) : list entry :=
  match fget files f with Some es => es | None => [] end.
Definition flat (files : list (N * list entry)) (segs : list N) : list entry :=
  concat (map (content files) segs).

Lemma flat_app : forall files a b, flat files (a ++ b) = flat files a ++ flat files b.
Proof. intros. unfold flat. rewrite map_app, concat_app. reflexivity. Qed.

Lemma flat_cons : forall files f r, flat files (f :: r) = content files f ++ flat files r.
Proof. reflexivity. Qed.

Lemma flat_ext : forall files files' segs, (forall f, In f segs -> fget files' f = fget files f) ->
  flat files' segs = flat files segs.
Proof.
  induction segs as [|f r IH]; intros H; [reflexivity|].
  rewrite !flat_cons. unfold content. rewrite (H f (or_introl eq_refl)).
  f_equal. apply IH. intros g Hg. apply H. right. exact Hg.
Qed.

Lemma read_segs_flat : forall files segs, (forall f, In f segs -> exists es, fget files f = Some es) ->
  read_segs files segs = Some (flat files segs).
Proof.
  induction segs as [|f r IH]; intros H; [reflexivity|].
  cbn [read_segs]. destruct (H f (or_introl eq_refl)) as [es Hes]. rewrite Hes.
  rewrite IH by (intros g Hg; apply H; right; exact Hg).
  rewrite flat_cons. unfold content. rewrite Hes. reflexivity.
Qed.

(* appending to the active (= last listed, listed once) segment appends to the listed entries *)
Lemma flat_fappend : forall files pre act es old,
  ~ In act pre -> fget files act = Some old ->
  flat (fappend files act es) (pre ++ [act]) = flat files (pre ++ [act]) ++ es.
Proof.
  intros files pre act es old Hn Hold. unfold fappend. rewrite Hold.
  rewrite !flat_app. rewrite <- app_assoc. f_equal.
  - apply flat_ext. intros f Hf. apply fget_fset_other. intro; subst; tauto.
  - unfold flat. cbn [map concat]. rewrite !app_nil_r. unfold content.
    rewrite fget_fset_same, Hold. reflexivity.
Qed.

(* ---------------------------------------------------------------------------------------------- *)
(* compact_old_wal_segments                                                                         *)
(* ---------------------------------------------------------------------------------------------- *)

Lemma compact_cons2 : forall files last f g r,
  compact files last (f :: g :: r) =
  let '(k, d) := compact files last (g :: r) in
  match fget files f with
  | None => (k, d)
  | Some es => if forallb (covered last) es then (k, f :: d) else (f :: k, d)
  end.
Proof. reflexivity. Qed.

Lemma compact_sub : forall files last segs keep del, compact files last segs = (keep, del) ->
  (forall x, In x keep -> In x segs) /\ (forall x, In x del -> In x segs).
Proof.
  induction segs as [|f r IH]; intros keep del H.
  - inversion H; subst. split; intros x [].
  - destruct r as [|g r'].
    + inversion H; subst. split; [intros x Hx; exact Hx|intros x []].
    + rewrite compact_cons2 in H. destruct (compact files last (g :: r')) as [k d] eqn:E.
      destruct (IH k d eq_refl) as [IH1 IH2].
      destruct (fget files f) as [es|].
      * destruct (forallb (covered last) es); inversion H; subst; split; intros x Hx.
        -- right. auto.
        -- destruct Hx as [Hx|Hx]; [left; exact Hx|right; auto].
        -- destruct Hx as [Hx|Hx]; [left; exact Hx|right; auto].
        -- right. auto.
      * inversion H; subst. split; intros x Hx; right; auto.
Qed.

Lemma compact_nodup : forall files last segs keep del, NoDup segs -> compact files last segs = (keep, del) ->
  NoDup keep /\ (forall x, In x del -> ~ In x keep).
Proof.
  induction segs as [|f r IH]; intros keep del Hnd H.
  - inversion H; subst. split; [constructor|intros x []].
  - destruct r as [|g r'].
    + inversion H; subst. split; [exact Hnd|intros x []].
    + rewrite compact_cons2 in H. destruct (compact files last (g :: r')) as [k d] eqn:E.
      inversion Hnd as [|? ? Hnf Hnd']; subst.
      destruct (IH k d Hnd' eq_refl) as [IH1 IH2].
      destruct (compact_sub _ _ _ _ _ E) as [S1 S2].
      destruct (fget files f) as [es|].
      * destruct (forallb (covered last) es); inversion H; subst; split.
        -- exact IH1.
        -- intros x [Hx|Hx]; [subst; intro Hk; apply Hnf; auto|auto].
        -- constructor; [intro Hk; apply Hnf; auto|exact IH1].
        -- intros x Hx [Hk|Hk]; [subst; apply Hnf; auto|eapply IH2; eauto].
      * inversion H; subst. split; auto.
Qed.

Lemma compact_last : forall files last segs keep del pre a, compact files last segs = (keep, del) ->
  segs = pre ++ [a] -> exists pre', keep = pre' ++ [a].
Proof.
  induction segs as [|f r IH]; intros keep del pre a H Hs.
  - destruct pre; discriminate.
  - destruct r as [|g r'].
    + inversion H; subst. destruct pre as [|x pre]; [inversion Hs; subst; exists []; reflexivity|].
      inversion Hs. destruct pre; discriminate.
    + rewrite compact_cons2 in H. destruct (compact files last (g :: r')) as [k d] eqn:E.
      destruct pre as [|x pre]; [discriminate|]. inversion Hs; subst x.
      destruct (IH k d pre a eq_refl H2) as [pre' Hk].
      destruct (fget files f) as [es|].
      * destruct (forallb (covered last) es); inversion H; subst.
        -- exists pre'. reflexivity.
        -- exists (f :: pre'). reflexivity.
      * inversion H; subst. exists pre'. reflexivity.
Qed.

Lemma compact_replay : forall files last last' segs keep del d, last <= last' ->
  compact files last segs = (keep, del) ->
  replay last' d (flat files keep) = replay last' d (flat files segs).
Proof.
  induction segs as [|f r IH]; intros keep del d Hle H.
  - inversion H; subst. reflexivity.
  - destruct r as [|g r'].
    + inversion H; subst. reflexivity.
    + rewrite compact_cons2 in H. destruct (compact files last (g :: r')) as [k dl] eqn:E.
      rewrite (flat_cons files f (g :: r')), replay_app.
      destruct (fget files f) as [es|] eqn:Ef.
      * destruct (forallb (covered last) es) eqn:Ec; inversion H; subst.
        -- unfold content. rewrite Ef. rewrite (replay_covered_all last' es) by (eapply forallb_covered_mono; eauto).
           eapply IH; eauto.
        -- rewrite flat_cons, replay_app. eapply IH; eauto.
      * inversion H; subst. unfold content. rewrite Ef. cbn [replay fold_left]. eapply IH; eauto.
Qed.

Lemma compact_nil : forall files last segs keep, (forall f, In f segs -> exists es, fget files f = Some es) ->
  compact files last segs = (keep, []) -> keep = segs.
Proof.
  induction segs as [|f r IH]; intros keep Hex H.
  - inversion H; reflexivity.
  - destruct r as [|g r'].
    + inversion H; reflexivity.
    + rewrite compact_cons2 in H. destruct (compact files last (g :: r')) as [k dl] eqn:E.
      destruct (Hex f (or_introl eq_refl)) as [es Hes]. rewrite Hes in H.
      destruct (forallb (covered last) es); inversion H; subst.
      f_equal. apply IH; [intros x Hx; apply Hex; right; exact Hx|reflexivity].
Qed.

(* ---------------------------------------------------------------------------------------------- *)
(* mk_entries                                                                                       *)
(* ---------------------------------------------------------------------------------------------- *)

Lemma mk_entries_bounds : forall ops base e, In e (mk_entries base ops) ->
  base <= e_seq e /\ e_seq e < base + N.of_nat (length ops).
Proof.
  induction ops as [|o r IH]; intros base e H; [destruct H|].
  cbn [mk_entries] in H. cbn [length]. rewrite Nat2N.inj_succ. destruct H as [H|H].
  - subst e. cbn [e_seq]. lia.
  - apply IH in H. lia.
Qed.

(* ---------------------------------------------------------------------------------------------- *)
(* strictly increasing sequence numbers                                                             *)
(* ---------------------------------------------------------------------------------------------- *)

Lemma sorted_app : forall a b, StronglySorted N.lt a -> StronglySorted N.lt b ->
  (forall x y, In x a -> In y b -> x < y) -> StronglySorted N.lt (a ++ b).
Proof.
  induction a as [|x r IH]; intros b Ha Hb Hab; cbn [app]; [exact Hb|].
  inversion Ha as [|? ? Hr Hx]; subst. constructor.
  - apply IH; auto. intros x' y Hx' Hy. apply Hab; [right; exact Hx'|exact Hy].
  - apply Forall_app. split; [exact Hx|]. apply Forall_forall. intros y Hy. apply Hab; [left; reflexivity|exact Hy].
Qed.

Lemma sorted_app_inv : forall a b, StronglySorted N.lt (a ++ b) ->
  StronglySorted N.lt a /\ StronglySorted N.lt b /\ (forall x y, In x a -> In y b -> x < y).
Proof.
  induction a as [|x r IH]; intros b H; cbn [app] in H.
  - split; [constructor|]. split; [exact H|]. intros x y [].
  - inversion H as [|? ? Hr Hx]; subst. destruct (IH b Hr) as [I1 [I2 I3]].
    apply Forall_app in Hx. destruct Hx as [Hx1 Hx2]. split; [constructor; assumption|]. split; [exact I2|].
    intros x' y [Hx'|Hx'] Hy; [subst x'; rewrite Forall_forall in Hx2; apply Hx2; exact Hy|apply I3; assumption].
Qed.

Lemma mk_entries_sorted : forall ops base, StronglySorted N.lt (map e_seq (mk_entries base ops)).
Proof.
  induction ops as [|o r IH]; intros base; cbn [mk_entries map]; constructor; [apply IH|].
  apply Forall_forall. intros y Hy. apply in_map_iff in Hy. destruct Hy as [e [He1 He2]]. subst y.
  apply mk_entries_bounds in He2. cbn [e_seq]. lia.
Qed.

Lemma In_flat_intro : forall files segs f es e, In f segs -> fget files f = Some es -> In e es -> In e (flat files segs).
Proof.
  induction segs as [|g r IH]; intros f es e Hf Hes He; [destruct Hf|].
  rewrite flat_cons. apply in_or_app. destruct Hf as [Hf|Hf].
  - subst g. left. unfold content. rewrite Hes. exact He.
  - right. eapply IH; eauto.
Qed.

Lemma In_flat_elim : forall files segs e, In e (flat files segs) ->
  exists f es, In f segs /\ fget files f = Some es /\ In e es.
Proof.
  induction segs as [|f r IH]; intros e H; [destruct H|].
  rewrite flat_cons in H. apply in_app_or in H. destruct H as [H|H].
  - unfold content in H. destruct (fget files f) as [es|] eqn:E; [|destruct H].
    exists f, es. split; [left; reflexivity|auto].
  - destruct (IH e H) as [g [es [H1 H2]]]. exists g, es. split; [right; exact H1|exact H2].
Qed.

Lemma compact_sorted : forall files last segs keep del,
  StronglySorted N.lt (map e_seq (flat files segs)) -> compact files last segs = (keep, del) ->
  StronglySorted N.lt (map e_seq (flat files keep)).
Proof.
  induction segs as [|f r IH]; intros keep del Hs H.
  - inversion H; subst. exact Hs.
  - destruct r as [|g r'].
    + inversion H; subst. exact Hs.
    + rewrite compact_cons2 in H. destruct (compact files last (g :: r')) as [k d] eqn:E.
      rewrite (flat_cons files f (g :: r')), map_app in Hs.
      destruct (sorted_app_inv _ _ Hs) as [S1 [S2 S3]].
      pose proof (IH k d S2 eq_refl) as Sk.
      destruct (compact_sub _ _ _ _ _ E) as [Sub _].
      destruct (fget files f) as [es|] eqn:Ef.
      * destruct (forallb (covered last) es); inversion H; subst; [exact Sk|].
        rewrite flat_cons, map_app. apply sorted_app; [exact S1|exact Sk|].
        intros x y Hx Hy. apply S3; [exact Hx|].
        apply in_map_iff in Hy. destruct Hy as [e [He1 He2]]. subst y. apply in_map.
        apply In_flat_elim in He2. destruct He2 as [f' [es' [H1 [H2 H3]]]].
        eapply In_flat_intro; eauto.
      * inversion H; subst. exact Sk.
Qed.
