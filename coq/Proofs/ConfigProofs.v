(* Proofs about the GENERATED model gen/Config_gen.v (KyroDbConfig::validate, regenerated from /repo on
   every run).  Nothing here refers to a guard's position, to an opaque guard's name or to the number of
   guards: the main tactic splits the conjunction, then performs finite case analysis on whichever
   enumerated settings occur in the hypotheses, so adding / reordering / removing unrelated guards, or
   reordering the safety guards, does not break the script.  Removing or weakening a safety guard does
   (that is the point). *)
From Coq Require Import Bool List NArith Lia.
From Kyro Require Import Model.RustStr gen.Config_gen.
Import ListNotations.

(* ------------------------------------------------------------------------------------------------ *)
(* generic finite case analysis                                                                      *)
(* ------------------------------------------------------------------------------------------------ *)
Ltac cfg_leaf :=
  solve [ repeat split; intros; try discriminate; try congruence; auto ].

(* phase 1: split the conjunction; drop conjuncts that only constrain an opaque guard *)
Ltac cfg_split :=
  repeat match goal with
  | H : false = true |- _ => discriminate H
  | H : true = true |- _ => clear H
  | H : (_ && _) = true |- _ => apply andb_prop in H; destruct H
  | H : ?g ?o = true |- _ =>
      is_var o; is_const g; lazymatch type of o with opaque_guards => clear H end
  end.

(* phase 2: case analysis on some enumerated setting that still occurs in a hypothesis *)
Ltac cfg_case :=
  match goal with
  | H : _ = true |- _ =>
      match type of H with
      | context [?x] =>
          is_var x;
          lazymatch type of x with
          | opaque_guards => fail
          | _ => idtac
          end;
          destruct x; cbn in *
      end
  end.

Ltac cfg_crush := cfg_split; repeat (try cfg_leaf; cfg_case; cfg_split); try cfg_leaf.

Ltac cfg_start c H := destruct c; unfold validate in H; cbn in *.

(* ------------------------------------------------------------------------------------------------ *)
(* C18: acceptance implies the safety predicate                                                      *)
(* ------------------------------------------------------------------------------------------------ *)
Definition durable (c : safety_cfg) : Prop :=
  fsync c <> FsNone /\ snapshot_interval c <> SnapZero /\ recovery c = Strict /\ strategy c = Learned.

Definition pilot_safe (c : safety_cfg) : Prop :=
  auth c = true /\ rate_limit c = true /\ obs_auth c <> ObsDisabled /\ fresh_start c = false /\
  (tls c = true \/ grpc_loopback c = true).

Lemma accept_implies_safe : forall (c : safety_cfg) (o : opaque_guards),
  validate c o = true ->
  (env c <> Benchmark -> fsync c <> FsNone /\ snapshot_interval c <> SnapZero /\
                         recovery c = Strict /\ strategy c = Learned) /\
  (env c = Pilot -> auth c = true /\ rate_limit c = true /\ obs_auth c <> ObsDisabled /\
                    fresh_start c = false /\ (tls c = true \/ grpc_loopback c = true)) /\
  (env c = Production -> grpc_loopback c = false -> auth c = true).
Proof.
  intros c o H. cfg_start c H. cfg_crush.
Qed.

(* an accepted configuration names one of the three environments *)
Lemma accept_implies_known_env : forall (c : safety_cfg) (o : opaque_guards),
  validate c o = true -> env c = Production \/ env c = Pilot \/ env c = Benchmark.
Proof.
  intros c o H. cfg_start c H. cfg_crush.
Qed.

(* ------------------------------------------------------------------------------------------------ *)
(* strings                                                                                           *)
(* ------------------------------------------------------------------------------------------------ *)
Lemma str_eqb_eq : forall a b, str_eqb a b = true <-> a = b.
Proof.
  induction a as [|x a IH]; destruct b as [|y b]; cbn; split; intro H; try discriminate; auto.
  - apply andb_prop in H. destruct H as [H1 H2]. apply N.eqb_eq in H1. apply IH in H2. congruence.
  - inversion H; subst. rewrite N.eqb_refl. cbn. apply IH. reflexivity.
Qed.

Lemma str_eqb_refl : forall a, str_eqb a a = true.
Proof. intro a. apply str_eqb_eq. reflexivity. Qed.

Lemma str_eqb_neq : forall a b, a <> b -> str_eqb a b = false.
Proof.
  intros a b H. destruct (str_eqb a b) eqn:E; auto. apply str_eqb_eq in E. contradiction.
Qed.

Lemma drop_ws_app_ws : forall ws s, forallb is_ws ws = true -> drop_ws (ws ++ s) = drop_ws s.
Proof.
  induction ws as [|c ws IH]; cbn; intros s H; auto.
  apply andb_prop in H. destruct H as [H1 H2]. rewrite H1. apply IH. exact H2.
Qed.

Lemma drop_ws_all_ws : forall ws, forallb is_ws ws = true -> drop_ws ws = [].
Proof.
  intros ws H. rewrite <- (app_nil_r ws). rewrite drop_ws_app_ws by exact H. reflexivity.
Qed.

Lemma forallb_rev : forall (f : N -> bool) l, forallb f (rev l) = forallb f l.
Proof.
  intros f l. induction l as [|x l IH]; cbn; auto.
  rewrite forallb_app. cbn. rewrite IH. rewrite andb_true_r. apply andb_comm.
Qed.

Lemma trim_end_app_ws : forall s ws, forallb is_ws ws = true -> str_trim_end (s ++ ws) = str_trim_end s.
Proof.
  intros s ws H. unfold str_trim_end. rewrite rev_app_distr.
  rewrite drop_ws_app_ws; [reflexivity|]. rewrite forallb_rev. exact H.
Qed.

Lemma trim_end_drop_app_ws : forall s ws, forallb is_ws ws = true ->
  str_trim_end (drop_ws (s ++ ws)) = str_trim_end (drop_ws s).
Proof.
  induction s as [|c s IH]; intros ws H.
  - cbn [app]. rewrite drop_ws_all_ws by exact H. reflexivity.
  - cbn [app drop_ws]. destruct (is_ws c) eqn:E.
    + apply IH. exact H.
    + change (c :: s ++ ws) with ((c :: s) ++ ws). apply trim_end_app_ws. exact H.
Qed.

Lemma str_trim_pad : forall ws1 s ws2,
  forallb is_ws ws1 = true -> forallb is_ws ws2 = true -> str_trim (ws1 ++ s ++ ws2) = str_trim s.
Proof.
  intros ws1 s ws2 H1 H2. unfold str_trim, str_trim_start.
  rewrite drop_ws_app_ws by exact H1. apply trim_end_drop_app_ws. exact H2.
Qed.

Lemma is_ws_false_printable : forall c, (33 <= c)%N -> (c <= 132)%N -> is_ws c = false.
Proof.
  intros c Hlo Hhi. unfold is_ws.
  repeat rewrite orb_false_iff. repeat rewrite andb_false_iff.
  repeat split;
    first [ apply N.eqb_neq; lia | right; apply N.leb_gt; lia | left; apply N.leb_gt; lia ].
Qed.

Lemma is_ws_upper : forall c, is_ws (ascii_upper c) = is_ws c.
Proof.
  intro c. unfold ascii_upper.
  destruct ((97 <=? c)%N && (c <=? 122)%N) eqn:E; [|reflexivity].
  apply andb_prop in E. destruct E as [E1 E2]. apply N.leb_le in E1. apply N.leb_le in E2.
  rewrite (is_ws_false_printable c) by lia. apply is_ws_false_printable; lia.
Qed.

Lemma lower_upper : forall c, ascii_lower (ascii_upper c) = ascii_lower c.
Proof.
  intro c. unfold ascii_upper, ascii_lower.
  destruct ((97 <=? c)%N && (c <=? 122)%N) eqn:E.
  - apply andb_prop in E. destruct E as [E1 E2]. apply N.leb_le in E1. apply N.leb_le in E2.
    replace ((65 <=? c - 32)%N && (c - 32 <=? 90)%N) with true
      by (symmetry; apply andb_true_intro; split; apply N.leb_le; lia).
    replace ((65 <=? c)%N && (c <=? 90)%N) with false
      by (symmetry; apply andb_false_iff; right; apply N.leb_gt; lia).
    lia.
  - reflexivity.
Qed.

Lemma lower_lower : forall c, ascii_lower (ascii_lower c) = ascii_lower c.
Proof.
  intro c. unfold ascii_lower.
  destruct ((65 <=? c)%N && (c <=? 90)%N) eqn:E; [|rewrite E; reflexivity].
  apply andb_prop in E. destruct E as [E1 E2]. apply N.leb_le in E1. apply N.leb_le in E2.
  replace ((65 <=? c + 32)%N && (c + 32 <=? 90)%N) with false
    by (symmetry; apply andb_false_iff; right; apply N.leb_gt; lia).
  reflexivity.
Qed.

Lemma drop_ws_map : forall (f : N -> N) s, (forall c, is_ws (f c) = is_ws c) ->
  drop_ws (map f s) = map f (drop_ws s).
Proof.
  intros f s Hf. induction s as [|c s IH]; cbn; auto.
  rewrite Hf. destruct (is_ws c); auto.
Qed.

Lemma str_trim_map : forall (f : N -> N) s, (forall c, is_ws (f c) = is_ws c) ->
  str_trim (map f s) = map f (str_trim s).
Proof.
  intros f s Hf. unfold str_trim, str_trim_start, str_trim_end.
  rewrite drop_ws_map by exact Hf. rewrite <- map_rev. rewrite drop_ws_map by exact Hf.
  rewrite map_rev. reflexivity.
Qed.

(* ------------------------------------------------------------------------------------------------ *)
(* environment-name normalisation (over the generated env_normalise / env_classify)                  *)
(* ------------------------------------------------------------------------------------------------ *)
Definition canon (raw : str) : str := str_to_ascii_lowercase (str_trim raw).

(* the generated normalisation IS trim followed by ASCII lower-casing; breaks if the code stops
   normalising (or normalises differently) *)
Lemma env_normalise_is_canon : forall raw, env_normalise raw = canon raw.
Proof. intro raw. reflexivity. Qed.

Lemma env_classify_spec : forall s,
  (env_classify s = Production <-> s = env_lit_production) /\
  (env_classify s = Pilot <-> s = env_lit_pilot) /\
  (env_classify s = Benchmark <-> s = env_lit_benchmark).
Proof.
  intro s. unfold env_classify.
  destruct (str_eqb s []) eqn:E0.
  { apply str_eqb_eq in E0. subst s. repeat split; intro H; discriminate H. }
  destruct (str_eqb s env_lit_production) eqn:E1.
  { apply str_eqb_eq in E1. subst s. repeat split; intro H; try reflexivity; discriminate H. }
  destruct (str_eqb s env_lit_pilot) eqn:E2.
  { apply str_eqb_eq in E2. subst s. repeat split; intro H; try reflexivity; discriminate H. }
  destruct (str_eqb s env_lit_benchmark) eqn:E3.
  { apply str_eqb_eq in E3. subst s. repeat split; intro H; try reflexivity; discriminate H. }
  repeat split; intro H; try discriminate H; subst s;
    rewrite str_eqb_refl in *; discriminate.
Qed.

Lemma env_of_raw_pad : forall ws1 s ws2,
  forallb is_ws ws1 = true -> forallb is_ws ws2 = true -> env_of_raw (ws1 ++ s ++ ws2) = env_of_raw s.
Proof.
  intros ws1 s ws2 H1 H2. unfold env_of_raw. rewrite !env_normalise_is_canon. unfold canon.
  rewrite str_trim_pad by assumption. reflexivity.
Qed.

Lemma env_of_raw_upper : forall s, env_of_raw (str_to_ascii_uppercase s) = env_of_raw s.
Proof.
  intro s. unfold env_of_raw. rewrite !env_normalise_is_canon. unfold canon, str_to_ascii_uppercase, str_to_ascii_lowercase.
  rewrite str_trim_map by exact is_ws_upper. rewrite map_map.
  f_equal. apply map_ext. exact lower_upper.
Qed.

Lemma is_ws_lower : forall c, is_ws (ascii_lower c) = is_ws c.
Proof.
  intro c. unfold ascii_lower.
  destruct ((65 <=? c)%N && (c <=? 90)%N) eqn:E; [|reflexivity].
  apply andb_prop in E. destruct E as [E1 E2]. apply N.leb_le in E1. apply N.leb_le in E2.
  rewrite (is_ws_false_printable c) by lia. apply is_ws_false_printable; lia.
Qed.

Lemma env_of_raw_lower : forall s, env_of_raw (str_to_ascii_lowercase s) = env_of_raw s.
Proof.
  intro s. unfold env_of_raw. rewrite !env_normalise_is_canon. unfold canon, str_to_ascii_lowercase.
  rewrite str_trim_map by exact is_ws_lower. rewrite map_map.
  f_equal. apply map_ext. exact lower_lower.
Qed.

(* The verdict as a function of the RAW environment string: a configuration is accepted only if its
   name, trimmed and lower-cased, is literally one of the three names, and it is exempt from the
   durability requirements only if that canonical name is literally "benchmark". *)
Lemma env_normalised : forall (raw : str) (c : safety_cfg) (o : opaque_guards),
  validate_raw raw c o = true ->
  (canon raw = env_lit_production \/ canon raw = env_lit_pilot \/ canon raw = env_lit_benchmark) /\
  (canon raw <> env_lit_benchmark ->
     fsync c <> FsNone /\ snapshot_interval c <> SnapZero /\ recovery c = Strict /\ strategy c = Learned) /\
  (canon raw = env_lit_pilot ->
     auth c = true /\ rate_limit c = true /\ obs_auth c <> ObsDisabled /\ fresh_start c = false /\
     (tls c = true \/ grpc_loopback c = true)) /\
  (canon raw = env_lit_production -> grpc_loopback c = false -> auth c = true).
Proof.
  intros raw c o H. unfold validate_raw in H.
  pose proof (accept_implies_safe _ _ H) as [Hd [Hp Hq]].
  pose proof (accept_implies_known_env _ _ H) as Hk.
  destruct c; cbn in *.
  unfold env_of_raw in *. rewrite env_normalise_is_canon in *.
  destruct (env_classify_spec (canon raw)) as [S1 [S2 S3]].
  split; [|split; [|split]].
  - destruct Hk as [K|[K|K]]; [left; apply S1|right; left; apply S2|right; right; apply S3]; exact K.
  - intro K. apply Hd. intro K'. apply S3 in K'. contradiction.
  - intro K. apply Hp. apply S2. exact K.
  - intro K. apply Hq. apply S1. exact K.
Qed.
