(* C17 — generic lemmas about the strided-loop combinators of Model/Strided.v and the tactic that
   discharges "every access of a generated kernel is in bounds".  The tactic does not depend on the
   number of loops, on the unroll factor or on the lane width: it splits appends, enters each
   `strided` loop through strided_Forall (which hands over  lo + k*step + c <= hi  for the iteration
   in question), replaces the index left behind by a `while` loop by  lo + k*step  with the negated
   loop condition, and closes every  offset + width <= len  with lia (division by literals is
   handled by the div/mod-to-equations preprocessing). *)
From Coq Require Import NArith List Lia ZArith.
From Kyro Require Import Model.Strided.
Import ListNotations.
Open Scope N_scope.

Lemma strided_go_Forall (P : access -> Prop) c hi step body : forall fuel lo k0 base,
  lo = base + k0 * Npos step ->
  (forall k, base + k * Npos step + c <= hi -> Forall P (body (base + k * Npos step))) ->
  Forall P (strided_go fuel lo c hi step body).
Proof.
  induction fuel as [|f IH]; intros lo k0 base Hlo Hb; cbn [strided_go].
  - constructor.
  - destruct (lo + c <=? hi) eqn:E; [|constructor].
    apply N.leb_le in E. apply Forall_app. split.
    + subst lo. apply Hb. exact E.
    + apply (IH _ (k0 + 1) base); [subst lo; lia | exact Hb].
Qed.

Lemma strided_Forall (P : access -> Prop) lo c hi step body :
  (forall k, lo + k * Npos step + c <= hi -> Forall P (body (lo + k * Npos step))) ->
  Forall P (strided lo c hi step body).
Proof.
  intros H. unfold strided. apply (strided_go_Forall P c hi step body _ lo 0 lo); [lia | exact H].
Qed.

Lemma strided_end_go_mult c hi step : forall fuel lo,
  exists k, strided_end_go fuel lo c hi step = lo + k * Npos step.
Proof.
  induction fuel as [|f IH]; intros lo; cbn [strided_end_go].
  - exists 0. lia.
  - destruct (lo + c <=? hi).
    + destruct (IH (lo + Npos step)) as [k Hk]. exists (k + 1). rewrite Hk. lia.
    + exists 0. lia.
Qed.

Lemma strided_end_go_done c hi step : forall fuel lo,
  (hi + 1 - lo <= N.of_nat fuel) -> hi < strided_end_go fuel lo c hi step + c.
Proof.
  induction fuel as [|f IH]; intros lo Hf; cbn [strided_end_go].
  - lia.
  - destruct (lo + c <=? hi) eqn:E.
    + apply IH. lia.
    + apply N.leb_gt in E. lia.
Qed.

(* the index after a `while i + c <= hi { ..; i += step }` loop: lo plus a multiple of step, and the
   loop condition is false there *)
Lemma strided_end_spec lo c hi step :
  exists k, strided_end lo c hi step = lo + k * Npos step /\ hi < lo + k * Npos step + c.
Proof.
  unfold strided_end.
  destruct (strided_end_go_mult c hi step (N.to_nat (hi + 1 - lo)) lo) as [k Hk].
  exists k. split; [exact Hk|].
  pose proof (strided_end_go_done c hi step (N.to_nat (hi + 1 - lo)) lo) as H.
  rewrite Hk in H. apply H. lia.
Qed.

Ltac Zify.zify_post_hook ::= Z.div_mod_to_equations.

(* 2^64 stays an opaque atom for lia (unfolding the literal makes certificate checking crawl) *)
Lemma two64_big : 4294967296 <= two64.
Proof. apply N.leb_le. vm_compute. reflexivity. Qed.

Ltac kill_strided_end :=
  repeat match goal with
  | |- context [strided_end ?a ?b ?c ?d] =>
      let k := fresh "k" in let Hk := fresh "Hk" in let Hd := fresh "Hd" in
      destruct (strided_end_spec a b c d) as (k & Hk & Hd);
      rewrite Hk in *; clear Hk
  end.

Ltac solve_accesses :=
  cbv zeta; kill_strided_end;
  repeat match goal with
  | |- Forall _ (_ ++ _) => apply Forall_app; split
  | |- Forall _ (strided _ _ _ _ _) => apply strided_Forall; intros ? ?; cbv zeta
  | |- Forall _ (_ :: _) => constructor
  | |- Forall _ [] => constructor
  | |- in_bounds _ _ => unfold in_bounds; cbv beta iota zeta; unfold wsub
  end;
  try (pose proof two64_big; repeat match goal with |- context [?b <=? ?a] => destruct (N.leb_spec b a) end; lia).
