(* The inductive invariant of Model/Conc09.v and the C09 theorems (see the header of Conc09Lemmas.v). *)
From Coq Require Import List NArith Bool Lia Arith Sorted.
From Kyro Require Import Model.Amap Model.Conc09 Proofs.Conc09Lemmas.
Import ListNotations.
Open Scope N_scope.

(* ---------------------------------------------------------------------------------------------- *)
(* The view                                                                                         *)
(* ---------------------------------------------------------------------------------------------- *)

(* phase of the write-gate owner (Idle when the gate is free) *)
Definition cur (st : state) : phase :=
  match st_gate st with Some g => tget (st_thr st) g | None => Idle end.
Definition hi_of (next : N) (p : phase) : N := match p with WAlloc _ base _ => base | _ => next end.
Definition rot_of (p : phase) : option N := match p with WRotFile _ _ nf => Some nf | _ => None end.

Record view := mkV {
  v_hi : N; v_tgt : store; v_man : manifest; v_files : list (N * list entry);
  v_snaps : list (N * (N * store)); v_fid : N; v_next : N; v_rot : option N; v_act : N }.

Definition view_of (st : state) : view :=
  mkV (hi_of (st_next st) (cur st)) (apply_entries (st_store st) (pend_of (cur st)))
      (st_man st) (st_files st) (st_snaps st) (st_fid st) (st_next st) (rot_of (cur st)) (st_active st).

Definition listed (v : view) : list entry := flat (v_files v) (m_segs (v_man v)).

Record GV (v : view) : Prop := mkGV {
  gv_next : 1 <= v_hi v /\ v_hi v <= v_next v;
  gv_nodup : NoDup (m_segs (v_man v));
  gv_listed : forall f, In f (m_segs (v_man v)) -> (exists es, fget (v_files v) f = Some es) /\ f < v_fid v;
  gv_last : exists pre, m_segs (v_man v) = pre ++ [v_act v];
  gv_bounds : forall f es e, fget (v_files v) f = Some es -> In e es -> 1 <= e_seq e /\ e_seq e < v_hi v;
  gv_ptr : forall pf ps, m_ptr (v_man v) = Some (pf, ps) ->
           ps < v_hi v /\ pf < v_fid v /\ exists docs, fget (v_snaps v) pf = Some (ps, docs);
  gv_base0 : m_ptr (v_man v) = None -> replay 0 empty (listed v) = v_tgt v;
  gv_base1 : forall pf ps docs, m_ptr (v_man v) = Some (pf, ps) -> fget (v_snaps v) pf = Some (ps, docs) ->
             replay ps docs (listed v) = v_tgt v;
  gv_rot : forall nf, v_rot v = Some nf ->
           fget (v_files v) nf = Some [] /\ nf < v_fid v /\ ~ In nf (m_segs (v_man v));
  gv_sorted : StronglySorted N.lt (map e_seq (listed v))
}.

(* (i): a captured (last, copy) *)
Definition Cand (v : view) (last : N) (copy : store) : Prop :=
  last < v_hi v /\ (ptr_seq (v_man v) <= last -> replay last copy (listed v) = v_tgt v).
Definition FileOk (v : view) (f last : N) (copy : store) : Prop :=
  fget (v_snaps v) f = Some (last, copy) /\ f < v_fid v /\
  (forall pf ps, m_ptr (v_man v) = Some (pf, ps) -> pf <> f).
Definition Dead (v : view) (del : list N) : Prop :=
  forall d, In d del -> ~ In d (m_segs (v_man v)) /\ v_rot v <> Some d /\ d < v_fid v.

Definition P (v : view) (p : phase) : Prop :=
  match p with
  | WAlloc _ base es => 1 <= base /\ (forall e, In e es -> base <= e_seq e /\ e_seq e < v_next v) /\
                        StronglySorted N.lt (map e_seq es)
  | SCaptured last copy => Cand v last copy
  | SFile last copy f => Cand v last copy /\ FileOk v f last copy
  | SLoaded last copy f segs =>
      Cand v last copy /\ FileOk v f last copy /\ segs = m_segs (v_man v) /\ ptr_seq (v_man v) <= last
  | SPtr last f segs => m_ptr (v_man v) = Some (f, last) /\ segs = m_segs (v_man v)
  | SCompacted last f keep del => m_ptr (v_man v) = Some (f, last) /\ keep = m_segs (v_man v) /\ Dead v del
  | SUnlinked last f keep => m_ptr (v_man v) = Some (f, last) /\ keep = m_segs (v_man v)
  | _ => True
  end.

Definition snapfid (p : phase) : option N :=
  match p with SFile _ _ f | SLoaded _ _ f _ => Some f | _ => None end.

Lemma In_flat : forall files segs e, In e (flat files segs) ->
  exists f es, In f segs /\ fget files f = Some es /\ In e es.
Proof.
  induction segs as [|f r IH]; intros e H; [destruct H|].
  rewrite flat_cons in H. apply in_app_or in H. destruct H as [H|H].
  - unfold content in H. destruct (fget files f) as [es|] eqn:E; [|destruct H].
    exists f, es. split; [left; reflexivity|auto].
  - destruct (IH e H) as [g [es [H1 H2]]]. exists g, es. split; [right; exact H1|exact H2].
Qed.

Lemma last_notin_pre : forall (pre : list N) a, NoDup (pre ++ [a]) -> ~ In a pre.
Proof.
  intros pre a H Hin. apply NoDup_remove_2 in H. apply H. rewrite app_nil_r. exact Hin.
Qed.

Lemma NoDup_snoc : forall (l : list N) a, NoDup l -> ~ In a l -> NoDup (l ++ [a]).
Proof.
  induction l as [|x r IH]; intros a H Hn; cbn [app].
  - constructor; [intros []|constructor].
  - inversion H; subst. constructor.
    + intro Hin. apply in_app_or in Hin. destruct Hin as [Hin|[Hin|[]]]; [tauto|subst; apply Hn; left; reflexivity].
    + apply IH; [assumption|intro; apply Hn; right; assumption].
Qed.

(* ---------------------------------------------------------------------------------------------- *)
(* View transitions                                                                                 *)
(* ---------------------------------------------------------------------------------------------- *)

Ltac vsimpl := cbn [v_hi v_tgt v_man v_files v_snaps v_fid v_next v_rot v_act listed m_segs m_ptr ptr_seq] in *.

(* fetch_add *)
Lemma T_alloc : forall v n,
  GV v ->
  let v' := mkV (v_hi v) (v_tgt v) (v_man v) (v_files v) (v_snaps v) (v_fid v) (v_next v + n) (v_rot v) (v_act v) in
  GV v' /\ (forall q, P v q -> P v' q).
Proof.
  intros v n G v'. split.
  - destruct G. constructor; subst v'; vsimpl; auto. lia.
  - intros q Hq. destruct q; cbn [P] in *; auto.
    destruct Hq as [H1 [H2 H3]]. split; [exact H1|]. split; [|exact H3]. intros e He. apply H2 in He. subst v'; vsimpl. lia.
Qed.

(* wal.append *)
Lemma T_append : forall v es,
  GV v -> (forall e, In e es -> v_hi v <= e_seq e /\ e_seq e < v_next v) ->
  StronglySorted N.lt (map e_seq es) ->
  let v' := mkV (v_next v) (apply_entries (v_tgt v) es) (v_man v) (fappend (v_files v) (v_act v) es)
                (v_snaps v) (v_fid v) (v_next v) (v_rot v) (v_act v) in
  GV v' /\ (forall q, P v q -> P v' q).
Proof.
  intros v es G Hes Hss v'.
  destruct G as [[Gn1 Gn2] Gnd Gl [pre Gla] Gb Gp Gb0 Gb1 Gr Gs].
  assert (Hact : exists old, fget (v_files v) (v_act v) = Some old).
  { apply Gl. rewrite Gla. apply in_or_app. right. left. reflexivity. }
  destruct Hact as [old Hold].
  assert (Hnpre : ~ In (v_act v) pre) by (apply last_notin_pre; rewrite <- Gla; exact Gnd).
  assert (Hlisted : listed v' = listed v ++ es).
  { unfold listed. subst v'. vsimpl. rewrite Gla. eapply flat_fappend; eauto. }
  assert (Hrep : forall l d, l < v_hi v -> replay l d (listed v) = v_tgt v ->
                 replay l d (listed v') = apply_entries (v_tgt v) es).
  { intros l d Hl Hr. rewrite Hlisted, replay_app, Hr. apply replay_uncovered.
    intros e He. apply covered_above. apply Hes in He. lia. }
  split.
  - constructor; subst v'; vsimpl.
    + lia.
    + exact Gnd.
    + intros f Hf. destruct (Gl f Hf) as [[es0 He0] Hlt]. split; [|exact Hlt].
      unfold fappend. rewrite Hold. rewrite fget_fset. destruct (N.eqb (v_act v) f); eauto.
    + exists pre. exact Gla.
    + intros f es0 e Hf He. unfold fappend in Hf. rewrite Hold in Hf. rewrite fget_fset in Hf.
      destruct (N.eqb (v_act v) f) eqn:E.
      * inversion Hf; subst es0. apply in_app_or in He. destruct He as [He|He].
        -- destruct (Gb _ _ _ Hold He). lia.
        -- apply Hes in He. lia.
      * destruct (Gb _ _ _ Hf He). lia.
    + intros pf ps Hp. destruct (Gp pf ps Hp) as [H1 [H2 H3]]. repeat split; auto. lia.
    + intros Hp. apply (Hrep 0 empty); [lia|auto].
    + intros pf ps docs Hp Hs. destruct (Gp pf ps Hp) as [H1 _]. apply (Hrep ps docs); eauto.
    + intros nf Hnf. destruct (Gr nf Hnf) as [H1 [H2 H3]]. repeat split; auto.
      unfold fappend. rewrite Hold. rewrite fget_fset_other; [exact H1|].
      intro; subst nf. apply H3. rewrite Gla. apply in_or_app. right. left. reflexivity.
    + rewrite Hlisted, map_app. apply sorted_app; [exact Gs|exact Hss|].
      intros x y Hx Hy. apply in_map_iff in Hx, Hy. destruct Hx as [e1 [E1 I1]]. destruct Hy as [e2 [E2 I2]]. subst x y.
      apply In_flat in I1. destruct I1 as [g [es1 [_ [F1 F2]]]]. destruct (Gb _ _ _ F1 F2). apply Hes in I2. lia.
  - intros q Hq.
    assert (HC : forall last copy, Cand v last copy -> Cand v' last copy).
    { intros last copy [C1 C2]. split; [subst v'; vsimpl; lia|].
      intros Hle. change (v_tgt v') with (apply_entries (v_tgt v) es). apply Hrep; auto. }
    destruct q; cbn [P] in *; auto.
    + destruct Hq as [C F]. split; [apply HC; exact C|exact F].
    + destruct Hq as [C [F R]]. split; [apply HC; exact C|]. split; [exact F|exact R].
Qed.

(* WalWriter::create for the next segment *)
Lemma T_rotcreate : forall v,
  GV v ->
  let v' := mkV (v_hi v) (v_tgt v) (v_man v) (fset (v_files v) (v_fid v) []) (v_snaps v) (v_fid v + 1)
                (v_next v) (Some (v_fid v)) (v_act v) in
  GV v' /\ (forall q, P v q -> P v' q).
Proof.
  intros v G v'.
  destruct G as [[Gn1 Gn2] Gnd Gl [pre Gla] Gb Gp Gb0 Gb1 Gr Gs].
  assert (Hlisted : listed v' = listed v).
  { unfold listed. subst v'. vsimpl. apply flat_ext. intros f Hf. apply fget_fset_other.
    destruct (Gl f Hf) as [_ Hlt]. lia. }
  split.
  - constructor; subst v'; vsimpl; auto.
    + intros f Hf. destruct (Gl f Hf) as [[es0 He0] Hlt]. split; [|lia].
      rewrite fget_fset_other by lia. eauto.
    + exists pre. exact Gla.
    + intros f es0 e Hf He. rewrite fget_fset in Hf. destruct (N.eqb (v_fid v) f).
      * inversion Hf; subst es0. destruct He.
      * eapply Gb; eauto.
    + intros pf ps Hp. destruct (Gp pf ps Hp) as [H1 [H2 H3]]. repeat split; auto. lia.
    + intros Hp. rewrite Hlisted. auto.
    + intros pf ps docs Hp Hs. rewrite Hlisted. eauto.
    + intros nf Hnf. inversion Hnf; subst nf. rewrite fget_fset_same. repeat split; [lia|].
      intro Hin. destruct (Gl _ Hin) as [_ Hlt]. lia.
    + rewrite Hlisted. exact Gs.
  - intros q Hq.
    assert (HC : forall last copy, Cand v last copy -> Cand v' last copy).
    { intros last copy [C1 C2]. split; [exact C1|]. intros Hle. rewrite Hlisted. apply C2. exact Hle. }
    assert (HF : forall f last copy, FileOk v f last copy -> FileOk v' f last copy).
    { intros f last copy [F1 [F2 F3]]. repeat split; auto. subst v'; vsimpl. lia. }
    destruct q; cbn [P] in *; auto.
    + destruct Hq as [C F]. split; auto.
    + destruct Hq as [C [F R]]. split; auto.
    + destruct Hq as [H1 [H2 H3]]. split; [exact H1|]. split; [exact H2|].
      intros d0 Hd. destruct (H3 d0 Hd) as [D1 [D2 D3]]. subst v'; vsimpl. repeat split; auto; [|lia].
      intro Heq. inversion Heq. lia.
Qed.

(* rotate: manifest_lock { load; push; save }; switch the writer *)
Lemma T_rotman : forall v nf,
  GV v -> v_rot v = Some nf ->
  let v' := mkV (v_hi v) (v_tgt v) (mkMan (m_ptr (v_man v)) (m_segs (v_man v) ++ [nf])) (v_files v) (v_snaps v)
                (v_fid v) (v_next v) None nf in
  GV v' /\ (forall q, holds_mlock q = false -> P v q -> P v' q).
Proof.
  intros v nf G Hrot v'.
  destruct G as [[Gn1 Gn2] Gnd Gl [pre Gla] Gb Gp Gb0 Gb1 Gr Gs].
  destruct (Gr nf Hrot) as [R1 [R2 R3]].
  assert (Hlisted : listed v' = listed v).
  { unfold listed. subst v'. vsimpl. rewrite flat_app. unfold flat at 2. cbn [map concat].
    unfold content. rewrite R1. rewrite !app_nil_r. reflexivity. }
  split.
  - constructor; subst v'; vsimpl; auto.
    + apply NoDup_snoc; assumption.
    + intros f Hf. apply in_app_or in Hf. destruct Hf as [Hf|[Hf|[]]]; [apply Gl; exact Hf|subst f; eauto].
    + exists (m_segs (v_man v)). reflexivity.
    + intros Hp. rewrite Hlisted. auto.
    + intros pf ps docs Hp Hs. rewrite Hlisted. eauto.
    + intros x Hx. discriminate.
    + rewrite Hlisted. exact Gs.
  - intros q Hm Hq.
    assert (HC : forall last copy, Cand v last copy -> Cand v' last copy).
    { intros last copy [C1 C2]. split; [exact C1|]. intros Hle. rewrite Hlisted. apply C2. exact Hle. }
    destruct q; cbn [P holds_mlock] in *; auto; try discriminate.
    destruct Hq as [C F]. split; auto.
Qed.

(* Snapshot::save *)
Lemma T_savefile : forall v last copy,
  GV v -> Cand v last copy ->
  let v' := mkV (v_hi v) (v_tgt v) (v_man v) (v_files v) (fset (v_snaps v) (v_fid v) (last, copy)) (v_fid v + 1)
                (v_next v) (v_rot v) (v_act v) in
  GV v' /\ P v' (SFile last copy (v_fid v)) /\
  (forall q, P v q -> P v' q /\ (forall f, snapfid q = Some f -> f <> v_fid v)).
Proof.
  intros v last copy G HC v'.
  destruct G as [[Gn1 Gn2] Gnd Gl [pre Gla] Gb Gp Gb0 Gb1 Gr Gs].
  split; [|split].
  - constructor; subst v'; vsimpl; auto.
    + intros f Hf. destruct (Gl f Hf) as [E Hlt]. split; [exact E|lia].
    + exists pre. exact Gla.
    + intros pf ps Hp. destruct (Gp pf ps Hp) as [H1 [H2 [docs H3]]]. repeat split; auto; [lia|].
      exists docs. rewrite fget_fset_other by lia. exact H3.
    + intros pf ps docs Hp Hs. destruct (Gp pf ps Hp) as [H1 [H2 _]].
      rewrite fget_fset_other in Hs by lia. eauto.
    + intros nf Hnf. destruct (Gr nf Hnf) as [H1 [H2 H3]]. repeat split; auto. lia.
  - cbn [P]. split; [exact HC|]. unfold FileOk. subst v'; vsimpl. rewrite fget_fset_same.
    split; [reflexivity|]. split; [lia|]. intros pf ps Hp. destruct (Gp pf ps Hp) as [_ [H2 _]]. lia.
  - intros q Hq.
    assert (HF : forall f l c, FileOk v f l c -> FileOk v' f l c /\ f <> v_fid v).
    { intros f l c [F1 [F2 F3]]. split; [|lia]. unfold FileOk. subst v'; vsimpl.
      rewrite fget_fset_other by lia. repeat split; auto. lia. }
    destruct q; cbn [P snapfid] in *; try (split; [exact Hq|intros; discriminate]).
    + destruct Hq as [C F]. destruct (HF _ _ _ F) as [F' Hne]. split; [split; auto|].
      intros f0 Hf0. inversion Hf0; subst. exact Hne.
    + destruct Hq as [C [F R]]. destruct (HF _ _ _ F) as [F' Hne]. split; [split; auto|].
      intros f0 Hf0. inversion Hf0; subst. exact Hne.
    + destruct Hq as [H1 [H2 H3]]. split; [|intros; discriminate]. split; [exact H1|]. split; [exact H2|].
      intros d0 Hd. destruct (H3 d0 Hd) as [D1 [D2 D3]]. subst v'; vsimpl. repeat split; auto. lia.
Qed.

(* stale snapshot: remove_file(new snapshot) *)
Lemma T_stale : forall v f last copy,
  GV v -> FileOk v f last copy ->
  let v' := mkV (v_hi v) (v_tgt v) (v_man v) (v_files v) (fdel (v_snaps v) f) (v_fid v)
                (v_next v) (v_rot v) (v_act v) in
  GV v' /\ (forall q, snapfid q <> Some f -> P v q -> P v' q).
Proof.
  intros v f last copy G [F1 [F2 F3]] v'.
  destruct G as [[Gn1 Gn2] Gnd Gl [pre Gla] Gb Gp Gb0 Gb1 Gr Gs].
  split.
  - constructor; subst v'; vsimpl; auto.
    + exists pre. exact Gla.
    + intros pf ps Hp. destruct (Gp pf ps Hp) as [H1 [H2 [docs H3]]]. repeat split; auto.
      exists docs. rewrite fget_fdel_other; [exact H3|]. intro; subst. eapply F3; eauto.
    + intros pf ps docs Hp Hs. rewrite fget_fdel in Hs. destruct (N.eqb f pf); [discriminate|]. eauto.
  - intros q Hne Hq.
    assert (HF : forall f' l c, f' <> f -> FileOk v f' l c -> FileOk v' f' l c).
    { intros f' l c Hn [A1 [A2 A3]]. unfold FileOk. subst v'; vsimpl.
      rewrite fget_fdel_other by (intro; subst; tauto). repeat split; auto. }
    destruct q; cbn [P snapfid] in *; auto.
    + destruct Hq as [C F]. split; [exact C|]. apply HF; [intro; subst; tauto|exact F].
    + destruct Hq as [C [F R]]. split; [exact C|]. split; [|exact R]. apply HF; [intro; subst; tauto|exact F].
Qed.

(* manifest.save with the new pointer and the full list *)
Lemma T_ptr : forall v last copy f segs,
  GV v -> P v (SLoaded last copy f segs) ->
  let v' := mkV (v_hi v) (v_tgt v) (mkMan (Some (f, last)) segs) (v_files v) (v_snaps v) (v_fid v)
                (v_next v) (v_rot v) (v_act v) in
  GV v' /\ P v' (SPtr last f segs) /\ ptr_seq (v_man v) <= ptr_seq (v_man v') /\
  (forall q, snapfid q <> Some f -> holds_mlock q = false -> P v q -> P v' q).
Proof.
  intros v last copy f segs G Hp v'. cbn [P] in Hp.
  destruct Hp as [[C1 C2] [[F1 [F2 F3]] [Hs Hle]]].
  destruct G as [[Gn1 Gn2] Gnd Gl [pre Gla] Gb Gp Gb0 Gb1 Gr Gs].
  assert (Hlisted : listed v' = listed v) by (unfold listed; subst v' segs; reflexivity).
  split; [|split; [|split]].
  - constructor; subst v'; vsimpl; subst segs; auto.
    + exists pre. exact Gla.
    + intros pf ps Hp. inversion Hp; subst pf ps. repeat split; auto. eauto.
    + intros Hp. discriminate.
    + intros pf ps docs Hp Hsn. inversion Hp; subst pf ps. rewrite F1 in Hsn. inversion Hsn; subst docs.
      apply C2. exact Hle.
  - cbn [P]. subst v'; vsimpl. auto.
  - subst v'; vsimpl. exact Hle.
  - intros q Hne Hm Hq.
    assert (HC : forall l c, Cand v l c -> Cand v' l c).
    { intros l c [A1 A2]. split; [exact A1|]. intros Hl. rewrite Hlisted. apply A2.
      subst v'; vsimpl. lia. }
    assert (HF : forall f' l c, f' <> f -> FileOk v f' l c -> FileOk v' f' l c).
    { intros f' l c Hn [A1 [A2 A3]]. unfold FileOk. subst v'; vsimpl. repeat split; auto.
      intros pf ps Hpp. inversion Hpp; subst. auto. }
    destruct q; cbn [P snapfid holds_mlock] in *; auto; try discriminate.
    destruct Hq as [C F]. split; [apply HC; exact C|]. apply HF; [intro; subst; tauto|exact F].
Qed.

(* compact_old_wal_segments: decide, publish the pruned list *)
Lemma T_compact : forall v last f segs keep del,
  GV v -> P v (SPtr last f segs) -> compact (v_files v) last segs = (keep, del) ->
  let v' := mkV (v_hi v) (v_tgt v) (mkMan (Some (f, last)) keep) (v_files v) (v_snaps v) (v_fid v)
                (v_next v) (v_rot v) (v_act v) in
  GV v' /\ P v' (SCompacted last f keep del) /\ (del = [] -> v_man v = mkMan (Some (f, last)) keep) /\
  (forall q, holds_mlock q = false -> P v q -> P v' q).
Proof.
  intros v last f segs keep del G Hp Hc v'. cbn [P] in Hp. destruct Hp as [Hptr Hs].
  destruct G as [[Gn1 Gn2] Gnd Gl [pre Gla] Gb Gp Gb0 Gb1 Gr Gs].
  subst segs.
  destruct (compact_sub _ _ _ _ _ Hc) as [S1 S2].
  destruct (compact_nodup _ _ _ _ _ Gnd Hc) as [N1 N2].
  destruct (compact_last _ _ _ _ _ _ _ Hc Gla) as [pre' Hk].
  assert (Hrep : forall l d, last <= l -> replay l d (listed v') = replay l d (listed v)).
  { intros l d Hl. unfold listed. subst v'; vsimpl. eapply compact_replay; eauto. }
  split; [|split; [|split]].
  - constructor; subst v'; vsimpl; auto.
    + exists pre'. exact Hk.
    + intros pf ps Hp. inversion Hp; subst pf ps. apply Gp. exact Hptr.
    + intros Hp. discriminate.
    + intros pf ps docs Hp Hsn. inversion Hp; subst pf ps.
      rewrite (Hrep last docs) by lia. eapply Gb1; eauto.
    + intros nf Hnf. destruct (Gr nf Hnf) as [H1 [H2 H3]]. repeat split; auto.
    + eapply compact_sorted; eauto.
  - cbn [P]. subst v'; vsimpl. split; [reflexivity|]. split; [reflexivity|].
    intros d0 Hd. split; [apply N2; exact Hd|]. split.
    + intro Hr. destruct (Gr d0 Hr) as [_ [_ H3]]. apply H3. apply S2. exact Hd.
    + apply Gl. apply S2. exact Hd.
  - intros Hd. subst del. apply compact_nil in Hc; [|intros g Hg; apply Gl; exact Hg].
    subst keep. destruct (v_man v) as [p s]. cbn [m_ptr m_segs] in *. subst p. reflexivity.
  - intros q Hm Hq.
    assert (Hps : ptr_seq (v_man v) = last) by (unfold ptr_seq; rewrite Hptr; reflexivity).
    assert (HC : forall l c, Cand v l c -> Cand v' l c).
    { intros l c [A1 A2]. split; [exact A1|]. intros Hl.
      assert (Hl' : last <= l) by (subst v'; vsimpl; exact Hl).
      rewrite (Hrep l c Hl'). apply A2. rewrite Hps. exact Hl'. }
    assert (HF : forall f' l c, FileOk v f' l c -> FileOk v' f' l c).
    { intros f' l c [A1 [A2 A3]]. unfold FileOk. subst v'; vsimpl. repeat split; auto.
      intros pf ps Hpp. inversion Hpp; subst. eapply A3; eauto. }
    destruct q; cbn [P holds_mlock] in *; auto; try discriminate.
    destruct Hq as [C F]. split; auto.
Qed.

(* remove_file for every segment to delete *)
Lemma T_unlink : forall v last f keep del,
  GV v -> P v (SCompacted last f keep del) ->
  let v' := mkV (v_hi v) (v_tgt v) (v_man v) (unlink_all (v_files v) del) (v_snaps v) (v_fid v)
                (v_next v) (v_rot v) (v_act v) in
  GV v' /\ P v' (SUnlinked last f keep) /\ (forall q, holds_mlock q = false -> P v q -> P v' q).
Proof.
  intros v last f keep del G Hp v'. cbn [P] in Hp. destruct Hp as [Hptr [Hk HD]].
  destruct G as [[Gn1 Gn2] Gnd Gl [pre Gla] Gb Gp Gb0 Gb1 Gr Gs].
  assert (Hnot : forall g, In g (m_segs (v_man v)) -> ~ In g del).
  { intros g Hg Hd. destruct (HD g Hd) as [D1 _]. tauto. }
  assert (Hlisted : listed v' = listed v).
  { unfold listed. subst v'; vsimpl. apply flat_ext. intros g Hg. apply fget_unlink_notin. auto. }
  split; [|split].
  - constructor; subst v'; vsimpl; auto.
    + intros g Hg. destruct (Gl g Hg) as [E Hlt]. split; [|exact Hlt].
      rewrite fget_unlink_notin by auto. exact E.
    + exists pre. exact Gla.
    + intros g es e Hg He. apply fget_unlink_some in Hg. eauto.
    + intros Hp. rewrite Hlisted. auto.
    + intros pf ps docs Hp Hs. rewrite Hlisted. eauto.
    + intros nf Hnf. destruct (Gr nf Hnf) as [H1 [H2 H3]]. repeat split; auto.
      rewrite fget_unlink_notin; [exact H1|]. intro Hd. destruct (HD nf Hd) as [_ [D2 _]]. tauto.
    + rewrite Hlisted. exact Gs.
  - cbn [P]. subst v'; vsimpl. auto.
  - intros q Hm Hq.
    assert (HC : forall l c, Cand v l c -> Cand v' l c).
    { intros l c [A1 A2]. split; [exact A1|]. intros Hl. rewrite Hlisted. apply A2. exact Hl. }
    destruct q; cbn [P holds_mlock] in *; auto; try discriminate.
    destruct Hq as [C F]. split; auto.
Qed.

(* the capture: snapshot_lock.write() { last := next - 1; copy := store } with no writer in flight *)
Lemma T_capture : forall v, GV v -> v_hi v = v_next v -> P v (SCaptured (v_next v - 1) (v_tgt v)).
Proof.
  intros v G Hhi. destruct G as [[Gn1 Gn2] Gnd Gl [pre Gla] Gb Gp Gb0 Gb1 Gr Gs].
  cbn [P]. split; [lia|]. intros _. apply replay_covered_all. apply forallb_forall. intros e He.
  apply In_flat in He. destruct He as [g [es [H1 [H2 H3]]]]. destruct (Gb _ _ _ H2 H3) as [B1 B2].
  apply covered_below; lia.
Qed.

(* ---------------------------------------------------------------------------------------------- *)
(* Lock owners and the invariant                                                                    *)
(* ---------------------------------------------------------------------------------------------- *)

Definition Link (h : phase -> bool) (o : option nat) (thr : list (nat * phase)) : Prop :=
  (forall t, h (tget thr t) = true -> o = Some t) /\ (forall t, o = Some t -> h (tget thr t) = true).

Lemma link_keep : forall h o thr t p1, Link h o thr -> h p1 = h (tget thr t) -> Link h o (tset thr t p1).
Proof.
  intros h o thr t p1 [L1 L2] He. split; intros t' H.
  - rewrite tget_tset in H. destruct (Nat.eqb t t') eqn:E.
    + apply Nat.eqb_eq in E; subst t'. apply L1. rewrite <- He. exact H.
    + apply L1. exact H.
  - rewrite tget_tset. destruct (Nat.eqb t t') eqn:E.
    + apply Nat.eqb_eq in E; subst t'. rewrite He. apply L2. exact H.
    + apply L2. exact H.
Qed.

Lemma link_none : forall h thr t, Link h None thr -> h (tget thr t) = false.
Proof. intros h thr t [L1 _]. destruct (h (tget thr t)) eqn:E; [apply L1 in E; discriminate|reflexivity]. Qed.

Lemma link_other : forall h t thr t', Link h (Some t) thr -> t' <> t -> h (tget thr t') = false.
Proof.
  intros h t thr t' [L1 _] Hne. destruct (h (tget thr t')) eqn:E; [|reflexivity].
  apply L1 in E. inversion E. subst. tauto.
Qed.

Lemma link_acq : forall h thr t p1, Link h None thr -> h p1 = true -> Link h (Some t) (tset thr t p1).
Proof.
  intros h thr t p1 L Hp. split; intros t' H.
  - rewrite tget_tset in H. destruct (Nat.eqb t t') eqn:E.
    + apply Nat.eqb_eq in E; subst; reflexivity.
    + rewrite (link_none _ _ t' L) in H. discriminate.
  - inversion H; subst t'. rewrite tget_tset_same. exact Hp.
Qed.

Lemma link_rel : forall h thr t p1, Link h (Some t) thr -> h p1 = false -> Link h None (tset thr t p1).
Proof.
  intros h thr t p1 L Hp. split; intros t' H; [|discriminate].
  rewrite tget_tset in H. destruct (Nat.eqb t t') eqn:E.
  - rewrite Hp in H. discriminate.
  - apply Nat.eqb_neq in E. rewrite (link_other _ _ _ t' L) in H by auto. discriminate.
Qed.

Definition Distinct (thr : list (nat * phase)) : Prop :=
  forall t1 t2 f, t1 <> t2 -> snapfid (tget thr t1) = Some f -> snapfid (tget thr t2) = Some f -> False.

Record Inv (st : state) : Prop := mkInv {
  inv_gate : Link holds_gate (st_gate st) (st_thr st);
  inv_mlock : Link holds_mlock (st_mlock st) (st_thr st);
  inv_gv : GV (view_of st);
  inv_p : forall t, P (view_of st) (tget (st_thr st) t);
  inv_dist : Distinct (st_thr st)
}.

Lemma assemble : forall st st' t p1,
  Inv st ->
  st_thr st' = tset (st_thr st) t p1 ->
  Link holds_gate (st_gate st') (st_thr st') ->
  Link holds_mlock (st_mlock st') (st_thr st') ->
  GV (view_of st') ->
  P (view_of st') p1 ->
  (forall t', t' <> t -> P (view_of st') (tget (st_thr st) t')) ->
  (forall f t', snapfid p1 = Some f -> t' <> t -> snapfid (tget (st_thr st) t') <> Some f) ->
  Inv st'.
Proof.
  intros st st' t p1 I Ht Lg Lm G Pn Po Df. constructor; auto.
  - intros t'. rewrite Ht, tget_tset. destruct (Nat.eqb t t') eqn:E; [exact Pn|].
    apply Po. apply Nat.eqb_neq in E. auto.
  - intros t1 t2 f Hne H1 H2. rewrite Ht in H1, H2. rewrite tget_tset in H1, H2.
    destruct (Nat.eqb t t1) eqn:E1; destruct (Nat.eqb t t2) eqn:E2.
    + apply Nat.eqb_eq in E1, E2. subst. tauto.
    + apply Nat.eqb_eq in E1. subst t1. eapply Df; eauto.
    + apply Nat.eqb_eq in E2. subst t2. eapply Df; eauto.
    + eapply (inv_dist _ I); eauto.
Qed.

Lemma dist_self : forall st t f t', Inv st -> snapfid (tget (st_thr st) t) = Some f -> t' <> t ->
  snapfid (tget (st_thr st) t') <> Some f.
Proof. intros st t f t' I H Hne H'. eapply (inv_dist _ I); eauto. Qed.

(* --- the view after a step --- *)

Lemma cur_nonowner : forall st st1 t p1,
  Link holds_gate (st_gate st) (st_thr st) ->
  holds_gate (tget (st_thr st) t) = false ->
  st_gate st1 = st_gate st -> st_thr st1 = st_thr st ->
  cur (set_thr st1 t p1) = cur st.
Proof.
  intros st st1 t p1 [L1 L2] Hf Hg Ht. unfold cur, set_thr. cbn [st_gate st_thr]. rewrite Hg, Ht.
  destruct (st_gate st) as [g|]; [|reflexivity].
  rewrite tget_tset_other; [reflexivity|]. intro; subst g. rewrite (L2 t eq_refl) in Hf. discriminate.
Qed.

Lemma cur_owner_after : forall st1 t p1, st_gate st1 = Some t -> cur (set_thr st1 t p1) = p1.
Proof. intros. unfold cur, set_thr. cbn [st_gate st_thr]. rewrite H. apply tget_tset_same. Qed.

Lemma cur_owner_before : forall st t, Link holds_gate (st_gate st) (st_thr st) ->
  holds_gate (tget (st_thr st) t) = true -> st_gate st = Some t /\ cur st = tget (st_thr st) t.
Proof. intros st t [L1 _] H. apply L1 in H. split; [exact H|]. unfold cur. rewrite H. reflexivity. Qed.

Lemma cur_free_after : forall st1 t p1, st_gate st1 = None -> cur (set_thr st1 t p1) = Idle.
Proof. intros. unfold cur, set_thr. cbn [st_gate]. rewrite H. reflexivity. Qed.

Lemma view_of_set : forall st1 t p1,
  view_of (set_thr st1 t p1) =
  mkV (hi_of (st_next st1) (cur (set_thr st1 t p1)))
      (apply_entries (st_store st1) (pend_of (cur (set_thr st1 t p1))))
      (st_man st1) (st_files st1) (st_snaps st1) (st_fid st1) (st_next st1)
      (rot_of (cur (set_thr st1 t p1))) (st_active st1).
Proof. reflexivity. Qed.

(* a step that leaves the view unchanged *)
Lemma assemble_same : forall st st1 t p1,
  Inv st ->
  Link holds_gate (st_gate st1) (tset (st_thr st1) t p1) ->
  Link holds_mlock (st_mlock st1) (tset (st_thr st1) t p1) ->
  st_thr st1 = st_thr st ->
  view_of (set_thr st1 t p1) = view_of st ->
  P (view_of st) p1 ->
  (snapfid p1 = None \/ snapfid p1 = snapfid (tget (st_thr st) t)) ->
  Inv (set_thr st1 t p1).
Proof.
  intros st st1 t p1 I Lg Lm Ht Hv Pn Hs.
  apply (assemble st (set_thr st1 t p1) t p1 I); cbn [set_thr st_thr st_gate st_mlock]; auto.
  - rewrite Ht. reflexivity.
  - rewrite Hv. exact (inv_gv _ I).
  - rewrite Hv. exact Pn.
  - intros t' _. rewrite Hv. apply (inv_p _ I).
  - intros f t' Hf Hne. destruct Hs as [Hs|Hs]; [rewrite Hs in Hf; discriminate|].
    rewrite Hs in Hf. eapply dist_self; eauto.
Qed.

(* ---------------------------------------------------------------------------------------------- *)
(* Every step preserves the invariant                                                               *)
(* ---------------------------------------------------------------------------------------------- *)

Ltac fin H := inversion H; subst; clear H.
Ltac stf := cbn [st_next st_store st_slots st_cnt st_active st_bytes st_files st_snaps st_man st_fid st_gate st_mlock st_thr] in *.
Ltac keepl Hp := unfold set_thr; stf; apply link_keep; [assumption|rewrite Hp; reflexivity].
Ltac cur_no I Hp :=
  match type of I with Inv ?s =>
    rewrite (cur_nonowner s) by (stf; first [assumption | rewrite Hp; reflexivity | reflexivity]) end.
Ltac view_no I Hp := rewrite view_of_set; cur_no I Hp; reflexivity.

Lemma no_readers_gate_free : forall st, Link holds_gate (st_gate st) (st_thr st) -> no_readers st = true -> st_gate st = None.
Proof.
  intros st [L1 L2] H. destruct (st_gate st) as [g|] eqn:E; [|reflexivity].
  pose proof (L2 g eq_refl) as Hg. unfold no_readers in H.
  pose proof (forallb_tget (fun p => negb (holds_snapR p)) (st_thr st) eq_refl H g) as Hr.
  cbn beta in Hr. destruct (tget (st_thr st) g); cbn in Hg, Hr; discriminate.
Qed.

Lemma view_of_cur : forall st p, cur st = p ->
  view_of st = mkV (hi_of (st_next st) p) (apply_entries (st_store st) (pend_of p)) (st_man st) (st_files st)
                   (st_snaps st) (st_fid st) (st_next st) (rot_of p) (st_active st).
Proof. intros; subst; reflexivity. Qed.

Ltac own I Lg Hp Hc t :=
  let Hg := fresh "Hg" in
  match type of I with Inv ?s =>
    destruct (cur_owner_before s t Lg) as [Hg Hc]; [stf; rewrite Hp; reflexivity|]; stf; rewrite Hp in Hc; subst
  end.
Ltac vsimp := cbn [v_hi v_tgt v_man v_files v_snaps v_fid v_next v_rot v_act hi_of pend_of rot_of] in *.

Definition distinct_ids (c : cfg) : Prop := forall n, c_clock c n = n.

Lemma tstep_inv : forall c st t st1 p1 ls, distinct_ids c ->
  Inv st -> tstep c st t (tget (st_thr st) t) = Some (st1, p1, ls) -> Inv (set_thr st1 t p1).
Proof.
  intros c st t st1 p1 ls Hclk I H.
  pose proof (inv_gate _ I) as Lg. pose proof (inv_mlock _ I) as Lm.
  pose proof (inv_gv _ I) as G. pose proof (inv_p _ I t) as Pt.
  destruct st as [nx sto slots cnt act bytes files snaps man fid gate mlock thr].
  stf.
  destruct (tget thr t) eqn:Hp; cbn [tstep] in H.
  - (* Idle *) discriminate.
  - (* WWant *) fin H.
    apply (assemble_same _ _ _ _ I); [keepl Hp|keepl Hp|reflexivity|view_no I Hp|exact Logic.I|left; reflexivity].
  - (* WSnapR *)
    destruct gate as [g|]; [discriminate|].
    destruct (is_ins c0 && (c_cap c <=? slots)).
    + fin H. apply (assemble_same _ _ _ _ I); [keepl Hp|keepl Hp|reflexivity|view_no I Hp|exact Logic.I|left; reflexivity].
    + destruct (preflight sto c0) as [|o ops] eqn:Epre.
      * fin H. apply (assemble_same _ _ _ _ I); [keepl Hp|keepl Hp|reflexivity|view_no I Hp|exact Logic.I|left; reflexivity].
      * fin H. apply (assemble_same _ _ _ _ I).
        -- stf. apply link_acq; [assumption|reflexivity].
        -- keepl Hp.
        -- reflexivity.
        -- rewrite view_of_set, cur_owner_after by reflexivity. reflexivity.
        -- exact Logic.I.
        -- left; reflexivity.
  - (* WFull *)
    destruct (negb retried && (0 <? tomb)).
    + destruct (no_readers _); [|discriminate].
      destruct (0 <? slots - size sto); fin H;
        (apply (assemble_same _ _ _ _ I); [keepl Hp|keepl Hp|reflexivity|view_no I Hp|exact Logic.I|left; reflexivity]).
    + fin H. apply (assemble_same _ _ _ _ I); [keepl Hp|keepl Hp|reflexivity|view_no I Hp|exact Logic.I|left; reflexivity].
  - (* WPre -> WAlloc *)
    fin H. own I Lg Hp Hc t.
    pose proof (T_alloc _ (N.of_nat (length ops)) G) as T. cbv zeta in T.
    rewrite (view_of_cur _ _ Hc) in T, G. vsimp. stf.
    destruct T as [G' St].
    eapply (assemble _ _ t _ I); stf.
    + reflexivity.
    + keepl Hp.
    + keepl Hp.
    + rewrite view_of_set, cur_owner_after by reflexivity. vsimp. stf. exact G'.
    + rewrite view_of_set, cur_owner_after by reflexivity. vsimp. stf. cbn [P]. vsimp.
      destruct G as [[Gn _] _ _ _ _ _ _ _ _ _]. vsimp. split; [exact Gn|]. split; [|apply mk_entries_sorted].
      intros e He. apply mk_entries_bounds in He. lia.
    + intros t' Hne. rewrite view_of_set, cur_owner_after by reflexivity. vsimp. stf.
      apply St. pose proof (inv_p _ I t') as Pt'. rewrite (view_of_cur _ _ Hc) in Pt'. vsimp. stf. exact Pt'.
    + intros f t' Hf. discriminate.
  - (* WAlloc -> WAppended *)
    fin H. own I Lg Hp Hc t.
    rewrite (view_of_cur _ _ Hc) in G, Pt. vsimp. stf.
    assert (Hes : forall e, In e es -> base <= e_seq e /\ e_seq e < nx).
    { cbn [P] in Pt. vsimp. destruct Pt as [_ [Pt _]]. exact Pt. }
    assert (Hss : StronglySorted N.lt (map e_seq es)).
    { cbn [P] in Pt. destruct Pt as [_ [_ Pt]]. exact Pt. }
    pose proof (T_append _ es G Hes Hss) as T. cbv zeta in T. vsimp. cbn [apply_entries fold_left] in T.
    destruct T as [G' St].
    eapply (assemble _ _ t _ I); stf.
    + reflexivity.
    + keepl Hp.
    + keepl Hp.
    + rewrite view_of_set, cur_owner_after by reflexivity. vsimp. stf. exact G'.
    + exact Logic.I.
    + intros t' Hne. rewrite view_of_set, cur_owner_after by reflexivity. vsimp. stf.
      apply St. pose proof (inv_p _ I t') as Pt'. rewrite (view_of_cur _ _ Hc) in Pt'. vsimp. stf. exact Pt'.
    + intros f t' Hf. discriminate.
  - (* WAppended *)
    destruct (negb (c_max_wal c =? 0) && (c_max_wal c <=? bytes)).
    + (* create the next segment file *)
      rewrite Hclk in H. fin H. own I Lg Hp Hc t.
      rewrite (view_of_cur _ _ Hc) in G. vsimp. stf.
      pose proof (T_rotcreate _ G) as T. cbv zeta in T. vsimp.
      destruct T as [G' St].
      eapply (assemble _ _ t _ I); stf.
      * reflexivity.
      * keepl Hp.
      * keepl Hp.
      * rewrite view_of_set, cur_owner_after by reflexivity. vsimp. stf. exact G'.
      * exact Logic.I.
      * intros t' Hne. rewrite view_of_set, cur_owner_after by reflexivity. vsimp. stf.
        apply St. pose proof (inv_p _ I t') as Pt'. rewrite (view_of_cur _ _ Hc) in Pt'. vsimp. stf. exact Pt'.
      * intros f t' Hf. discriminate.
    + fin H. own I Lg Hp Hc t.
      apply (assemble_same _ _ _ _ I); [keepl Hp|keepl Hp|reflexivity| |exact Logic.I|left; reflexivity].
      rewrite view_of_set, cur_owner_after by reflexivity. rewrite (view_of_cur _ _ Hc). reflexivity.
  - (* WRotFile -> WLogged *)
    destruct mlock as [m|]; [discriminate|].
    fin H. own I Lg Hp Hc t.
    rewrite (view_of_cur _ _ Hc) in G. vsimp. stf.
    pose proof (T_rotman _ nf G eq_refl) as T. cbv zeta in T. vsimp.
    destruct T as [G' St].
    eapply (assemble _ _ t _ I); stf.
    + reflexivity.
    + keepl Hp.
    + keepl Hp.
    + rewrite view_of_set, cur_owner_after by reflexivity. vsimp. stf. exact G'.
    + exact Logic.I.
    + intros t' Hne. rewrite view_of_set, cur_owner_after by reflexivity. vsimp. stf.
      apply St; [apply (link_none _ _ t' Lm)|].
      pose proof (inv_p _ I t') as Pt'. rewrite (view_of_cur _ _ Hc) in Pt'. vsimp. stf. exact Pt'.
    + intros f t' Hf. discriminate.
  - (* WLogged -> WHalf *)
    destruct (is_ins c0) eqn:Eins; fin H; own I Lg Hp Hc t;
      (apply (assemble_same _ _ _ _ I); [keepl Hp|keepl Hp|reflexivity| |exact Logic.I|left; reflexivity]);
      rewrite view_of_set, cur_owner_after by reflexivity; rewrite (view_of_cur _ _ Hc);
      cbn [pend_of hi_of rot_of]; stf; rewrite ?Eins; reflexivity.
  - (* WHalf -> WBoth *)
    destruct (is_ins c0) eqn:Eins; fin H; own I Lg Hp Hc t;
      (apply (assemble_same _ _ _ _ I); [keepl Hp|keepl Hp|reflexivity| |exact Logic.I|left; reflexivity]);
      rewrite view_of_set, cur_owner_after by reflexivity; rewrite (view_of_cur _ _ Hc);
      cbn [pend_of hi_of rot_of]; stf; rewrite ?Eins; reflexivity.
  - (* WBoth -> WGateRel *)
    fin H. own I Lg Hp Hc t.
    apply (assemble_same _ _ _ _ I).
    + stf. apply link_rel; [assumption|reflexivity].
    + keepl Hp.
    + reflexivity.
    + rewrite view_of_set, cur_free_after by reflexivity. rewrite (view_of_cur _ _ Hc). reflexivity.
    + exact Logic.I.
    + left; reflexivity.
  - (* WGateRel *)
    fin H. destruct due;
      (apply (assemble_same _ _ _ _ I); [keepl Hp|keepl Hp|reflexivity|view_no I Hp|exact Logic.I|left; reflexivity]).
  - (* SWant -> SCaptured *)
    destruct (no_readers _) eqn:Hnr; [|discriminate]. fin H.
    match type of I with Inv ?s => pose proof (no_readers_gate_free s Lg Hnr) as Hg0 end. stf. subst gate.
    assert (Hc : cur (mkSt nx sto slots cnt act bytes files snaps man fid None mlock thr) = Idle) by reflexivity.
    apply (assemble_same _ _ _ _ I); [keepl Hp|keepl Hp|reflexivity|view_no I Hp| |left; reflexivity].
    pose proof (T_capture _ G) as T. rewrite (view_of_cur _ _ Hc) in *. vsimp. stf.
    cbn [apply_entries fold_left] in *. apply T. reflexivity.
  - (* SCaptured -> SFile *)
    rewrite Hclk in H. fin H. pose proof (T_savefile _ last copy G Pt) as T. cbv zeta in T. destruct T as [G' [Pn St]].
    eapply (assemble _ _ t _ I); stf.
    + reflexivity.
    + keepl Hp.
    + keepl Hp.
    + rewrite view_of_set. cur_no I Hp. exact G'.
    + rewrite view_of_set. cur_no I Hp. exact Pn.
    + intros t' Hne. rewrite view_of_set. cur_no I Hp. apply St. apply (inv_p _ I t').
    + intros f t' Hf Hne Hf'. inversion Hf; subst f.
      destruct (St _ (inv_p _ I t')) as [_ Hd]. stf. apply (Hd _ Hf'). reflexivity.
  - (* SFile *)
    destruct mlock as [m|]; [discriminate|].
    destruct (last <? ptr_seq man) eqn:Est.
    + (* stale: the new file is removed *)
      fin H. cbn [P] in Pt. destruct Pt as [PC PF].
      pose proof (T_stale _ fid0 last copy G PF) as T. cbv zeta in T. destruct T as [G' St].
      eapply (assemble _ _ t _ I); stf.
      * reflexivity.
      * keepl Hp.
      * keepl Hp.
      * rewrite view_of_set. cur_no I Hp. exact G'.
      * exact Logic.I.
      * intros t' Hne. rewrite view_of_set. cur_no I Hp. apply St; [|apply (inv_p _ I t')].
        apply (dist_self _ t fid0 t' I); [stf; rewrite Hp; reflexivity|exact Hne].
      * intros f t' Hf. discriminate.
    + fin H. apply (assemble_same _ _ _ _ I).
      * keepl Hp.
      * stf. apply link_acq; [assumption|reflexivity].
      * reflexivity.
      * view_no I Hp.
      * cbn [P] in *. destruct Pt as [PC PF]. split; [exact PC|]. split; [exact PF|]. split; [reflexivity|].
        apply N.ltb_ge in Est. exact Est.
      * right. stf. rewrite Hp. reflexivity.
  - (* SLoaded -> SPtr *)
    fin H. assert (Hm : mlock = Some t) by (apply (proj1 Lm); rewrite Hp; reflexivity). subst mlock.
    pose proof (T_ptr _ last copy fid0 segs G Pt) as T. cbv zeta in T. destruct T as [G' [Pn [_ St]]].
    eapply (assemble _ _ t _ I); stf.
    + reflexivity.
    + keepl Hp.
    + keepl Hp.
    + rewrite view_of_set. cur_no I Hp. exact G'.
    + rewrite view_of_set. cur_no I Hp. exact Pn.
    + intros t' Hne. rewrite view_of_set. cur_no I Hp. apply St; [| |apply (inv_p _ I t')].
      * apply (dist_self _ t fid0 t' I); [stf; rewrite Hp; reflexivity|exact Hne].
      * apply (link_other _ _ _ t' Lm Hne).
    + intros f t' Hf. discriminate.
  - (* SPtr -> SCompacted *)
    destruct (compact files last segs) as [keep del] eqn:Ec. fin H.
    assert (Hm : mlock = Some t) by (apply (proj1 Lm); rewrite Hp; reflexivity). subst mlock.
    pose proof (T_compact _ last fid0 segs keep del G Pt Ec) as T. cbv zeta in T. destruct T as [G' [Pn [Hnil St]]].
    assert (Hman : match del with [] => man | _ :: _ => mkMan (Some (fid0, last)) keep end = mkMan (Some (fid0, last)) keep).
    { destruct del; [apply Hnil; reflexivity|reflexivity]. }
    rewrite Hman.
    eapply (assemble _ _ t _ I); stf.
    + reflexivity.
    + keepl Hp.
    + keepl Hp.
    + rewrite view_of_set. cur_no I Hp. exact G'.
    + rewrite view_of_set. cur_no I Hp. exact Pn.
    + intros t' Hne. rewrite view_of_set. cur_no I Hp. apply St; [|apply (inv_p _ I t')].
      apply (link_other _ _ _ t' Lm Hne).
    + intros f t' Hf. discriminate.
  - (* SCompacted -> SUnlinked *)
    fin H. assert (Hm : mlock = Some t) by (apply (proj1 Lm); rewrite Hp; reflexivity). subst mlock.
    pose proof (T_unlink _ last fid0 keep del G Pt) as T. cbv zeta in T. destruct T as [G' [Pn St]].
    eapply (assemble _ _ t _ I); stf.
    + reflexivity.
    + keepl Hp.
    + keepl Hp.
    + rewrite view_of_set. cur_no I Hp. exact G'.
    + rewrite view_of_set. cur_no I Hp. exact Pn.
    + intros t' Hne. rewrite view_of_set. cur_no I Hp. apply St; [|apply (inv_p _ I t')].
      apply (link_other _ _ _ t' Lm Hne).
    + intros f t' Hf. discriminate.
  - (* SUnlinked -> SSaved: the final save rewrites what is already there *)
    fin H. cbn [P] in Pt. destruct Pt as [Pp Ps].
    assert (Hman : mkMan (Some (fid0, last)) keep = man).
    { destruct man as [p s]. cbn in Pp, Ps. subst. reflexivity. }
    rewrite Hman.
    apply (assemble_same _ _ _ _ I); [keepl Hp|keepl Hp|reflexivity|view_no I Hp|exact Logic.I|left; reflexivity].
  - (* SSaved -> Idle *)
    fin H. assert (Hm : mlock = Some t) by (apply (proj1 Lm); rewrite Hp; reflexivity). subst mlock.
    apply (assemble_same _ _ _ _ I).
    + keepl Hp.
    + stf. apply link_rel; [assumption|reflexivity].
    + reflexivity.
    + view_no I Hp.
    + exact Logic.I.
    + left; reflexivity.
Qed.

Lemma start_inv : forall st t p1, Inv st -> is_idle (tget (st_thr st) t) = true ->
  holds_gate p1 = false -> holds_mlock p1 = false -> snapfid p1 = None -> P (view_of st) p1 ->
  Inv (set_thr st t p1).
Proof.
  intros st t p1 I Hid Hg Hm Hs Pn.
  assert (Hidle : tget (st_thr st) t = Idle) by (destruct (tget (st_thr st) t); try discriminate; reflexivity).
  apply (assemble_same _ _ _ _ I).
  - apply link_keep; [exact (inv_gate _ I)|rewrite Hidle, Hg; reflexivity].
  - apply link_keep; [exact (inv_mlock _ I)|rewrite Hidle, Hm; reflexivity].
  - reflexivity.
  - rewrite view_of_set. rewrite (cur_nonowner st) by (first [exact (inv_gate _ I)|rewrite Hidle; reflexivity|reflexivity]).
    reflexivity.
  - exact Pn.
  - left. exact Hs.
Qed.

Lemma step_inv : forall c st e st', distinct_ids c -> Inv st -> cstep c st e = Some st' -> Inv st'.
Proof.
  intros c st e st' Hclk I H. unfold cstep, cstep_l in H. destruct e as [t cl|t|t].
  - destruct (is_idle (tget (st_thr st) t)) eqn:Hid; [|discriminate]. inversion H; subst st'.
    apply start_inv; auto. exact Logic.I.
  - destruct (is_idle (tget (st_thr st) t)) eqn:Hid; [|discriminate]. inversion H; subst st'.
    apply start_inv; auto. exact Logic.I.
  - destruct (tstep c st t (tget (st_thr st) t)) as [[[st1 p1] ls]|] eqn:Hs; [|discriminate].
    inversion H; subst st'. eapply tstep_inv; eauto.
Qed.

Lemma run_inv : forall c sched st st', distinct_ids c -> Inv st -> crun c st sched = Some st' -> Inv st'.
Proof.
  intros c sched st st' Hclk. revert st st'.
  induction sched as [|e r IH]; intros st st' I H; cbn [crun] in H.
  - inversion H; subst; exact I.
  - destruct (cstep c st e) as [s1|] eqn:E; [|discriminate]. eapply IH; [eapply step_inv; eauto|exact H].
Qed.

Lemma init_inv : Inv init.
Proof.
  constructor.
  - split; intros t H; cbn in H; discriminate.
  - split; intros t H; cbn in H; discriminate.
  - constructor; unfold view_of, cur, init, listed; stf; vsimp; cbn [m_segs m_ptr].
    + lia.
    + constructor; [intros []|constructor].
    + intros f [Hf|[]]. subst f. split; [exists []; reflexivity|lia].
    + exists []. reflexivity.
    + intros f es e Hf He. cbn [fget] in Hf. destruct (1 =? f); [inversion Hf; subst; destruct He|discriminate].
    + intros pf ps Hp. discriminate.
    + intros _. reflexivity.
    + intros pf ps docs Hp. discriminate.
    + intros nf Hn. discriminate.
    + cbn. constructor.
  - intros t. cbn. exact Logic.I.
  - intros t1 t2 f _ H. cbn in H. discriminate.
Qed.

Definition reachable (c : cfg) (st : state) : Prop := exists sched, crun c init sched = Some st.

Lemma reachable_inv : forall c st, distinct_ids c -> reachable c st -> Inv st.
Proof. intros c st Hclk [sched H]. eapply run_inv; [exact Hclk|exact init_inv|exact H]. Qed.

(* what a restart yields at ANY moment: the store plus the entries appended but not yet applied *)
Definition in_flight (st : state) : list entry := pend_of (cur st).

Lemma recover_inv : forall st, Inv st ->
  recover (disk_of st) = Some (apply_entries (st_store st) (in_flight st)).
Proof.
  intros st I. destruct (inv_gv _ I) as [[Gn1 Gn2] Gnd Gl [pre Gla] Gb Gp Gb0 Gb1 Gr Gs].
  unfold view_of in *. vsimp. unfold listed in *. vsimp.
  unfold recover, disk_of. cbn [d_man d_snaps d_files].
  rewrite (read_segs_flat (st_files st) (m_segs (st_man st))) by (intros f Hf; apply Gl; exact Hf).
  destruct (m_ptr (st_man st)) as [[pf ps]|] eqn:Ep.
  - destruct (Gp pf ps eq_refl) as [_ [_ [docs Hd]]]. rewrite Hd.
    rewrite N.ltb_irrefl. cbn [andb]. f_equal. eapply Gb1; eauto.
  - cbn [andb N.ltb]. rewrite N.ltb_irrefl. cbn [andb]. f_equal. apply Gb0. reflexivity.
Qed.

Lemma all_done_idle : forall st, all_done st = true -> forall t, tget (st_thr st) t = Idle.
Proof.
  intros st H t. pose proof (forallb_tget is_idle (st_thr st) eq_refl H t) as Hi.
  destruct (tget (st_thr st) t); try discriminate; reflexivity.
Qed.

Lemma quiescent_no_flight : forall st, all_done st = true -> in_flight st = [].
Proof.
  intros st H. unfold in_flight, cur. destruct (st_gate st) as [g|]; [|reflexivity].
  rewrite (all_done_idle _ H g). reflexivity.
Qed.

Theorem quiescent_exact : forall c sched st, distinct_ids c ->
  crun c init sched = Some st -> all_done st = true -> recover (disk_of st) = Some (st_store st).
Proof.
  intros c sched st Hclk H Hd. rewrite (recover_inv st) by (eapply reachable_inv; [exact Hclk|exists sched; exact H]).
  rewrite (quiescent_no_flight _ Hd). reflexivity.
Qed.

(* at any moment, also with snapshots, rotations and compactions half done *)
Theorem recover_any_time : forall c sched st, distinct_ids c ->
  crun c init sched = Some st -> recover (disk_of st) = Some (apply_entries (st_store st) (in_flight st)).
Proof. intros c sched st Hclk H. apply recover_inv. eapply reachable_inv; [exact Hclk|]. exists sched. exact H. Qed.

(* ---------------------------------------------------------------------------------------------- *)
(* (ii) the manifest's snapshot pointer only grows                                                  *)
(* ---------------------------------------------------------------------------------------------- *)

Lemma tstep_ptr_mono : forall c st t st1 p1 ls, Inv st ->
  tstep c st t (tget (st_thr st) t) = Some (st1, p1, ls) -> ptr_seq (st_man st) <= ptr_seq (st_man st1).
Proof.
  intros c st t st1 p1 ls I H. pose proof (inv_p _ I t) as Pt.
  destruct st as [nx sto slots cnt act bytes files snaps man fid gate mlock thr]. stf.
  destruct (tget thr t) eqn:Hp; cbn [tstep] in H;
    repeat match type of H with
           | (if ?b then _ else _) = _ => destruct b eqn:?
           | match ?x with _ => _ end = _ => destruct x eqn:?
           | None = Some _ => discriminate
           end; try (fin H; stf; unfold ptr_seq; cbn [m_ptr]; lia).
  all: cbn [P] in Pt; unfold view_of in Pt; vsimp; stf.
  - fin H. stf. destruct Pt as [_ [_ [_ Hle]]]. unfold ptr_seq at 2. cbn [m_ptr]. exact Hle.
  - fin H. stf. destruct Pt as [Hptr _]. unfold ptr_seq. rewrite Hptr.
    match goal with |- context [match ?d with [] => _ | _ :: _ => _ end] => destruct d end; cbn; rewrite ?Hptr; lia.
  - fin H. stf. destruct Pt as [Hptr _]. unfold ptr_seq. rewrite Hptr. cbn. lia.
Qed.

Lemma step_ptr_mono : forall c st e st', Inv st -> cstep c st e = Some st' ->
  ptr_seq (st_man st) <= ptr_seq (st_man st').
Proof.
  intros c st e st' I H. unfold cstep, cstep_l in H. destruct e as [t cl|t|t].
  - destruct (is_idle _); [|discriminate]. inversion H; subst. cbn. lia.
  - destruct (is_idle _); [|discriminate]. inversion H; subst. cbn. lia.
  - destruct (tstep c st t (tget (st_thr st) t)) as [[[st1 p1] ls]|] eqn:Hs; [|discriminate].
    inversion H; subst. cbn [set_thr st_man]. eapply tstep_ptr_mono; eauto.
Qed.

Theorem stale_never_wins : forall c sched0 st sched st', distinct_ids c ->
  crun c init sched0 = Some st -> crun c st sched = Some st' ->
  ptr_seq (st_man st) <= ptr_seq (st_man st').
Proof.
  intros c sched0 st sched st' Hclk H0. assert (I : Inv st) by (eapply reachable_inv; [exact Hclk|exists sched0; exact H0]).
  clear H0. revert st I. induction sched as [|e r IH]; intros st I H; cbn [crun] in H.
  - inversion H; subst. lia.
  - destruct (cstep c st e) as [s1|] eqn:E; [|discriminate].
    pose proof (step_ptr_mono _ _ _ _ I E). pose proof (IH s1 (step_inv _ _ _ _ Hclk I E) H). lia.
Qed.

(* the stale branch itself: an older snapshot leaves the manifest alone and removes only its own file *)
Theorem stale_skips : forall c st t last copy f st',
  tget (st_thr st) t = SFile last copy f -> last < ptr_seq (st_man st) ->
  cstep c st (EvStep t) = Some st' ->
  st_man st' = st_man st /\ tget (st_thr st') t = Idle /\ st_files st' = st_files st.
Proof.
  intros c st t last copy f st' Hp Hlt H. unfold cstep, cstep_l in H. rewrite Hp in H.
  destruct st as [nx sto slots cnt act bytes files snaps man fid gate mlock thr]. stf. cbn [tstep] in H.
  destruct mlock; [discriminate|]. apply N.ltb_lt in Hlt. rewrite Hlt in H. inversion H; subst.
  cbn [set_thr st_man st_thr st_files]. rewrite tget_tset_same. auto.
Qed.

(* ---------------------------------------------------------------------------------------------- *)
(* replay visits every listed entry once, in order, and applies exactly the uncovered ones          *)
(* ---------------------------------------------------------------------------------------------- *)

Lemma replay_filter : forall last es d,
  replay last d es = apply_entries d (filter (fun e => negb (covered last e)) es).
Proof.
  induction es as [|e r IH]; intros d; [reflexivity|].
  unfold replay, apply_entries in *. cbn [fold_left filter]. unfold replay1 at 2.
  destruct (covered last e); cbn [negb]; [apply IH|cbn [fold_left]; apply IH].
Qed.

Theorem no_duplicate_effect : forall c sched st, distinct_ids c ->
  crun c init sched = Some st ->
  exists (last : N) (docs : store) (es : list entry),
    read_segs (st_files st) (m_segs (st_man st)) = Some es /\
    recover (disk_of st) = Some (apply_entries docs (filter (fun e => negb (covered last e)) es)) /\
    StronglySorted N.lt (map e_seq es).
Proof.
  intros c sched st Hclk H. assert (I : Inv st) by (eapply reachable_inv; [exact Hclk|exists sched; exact H]).
  destruct (inv_gv _ I) as [[Gn1 Gn2] Gnd Gl [pre Gla] Gb Gp Gb0 Gb1 Gr Gs].
  unfold view_of in *. vsimp. unfold listed in *. vsimp.
  assert (Hr : read_segs (st_files st) (m_segs (st_man st)) = Some (flat (st_files st) (m_segs (st_man st))))
    by (apply read_segs_flat; intros f Hf; apply Gl; exact Hf).
  unfold recover, disk_of. cbn [d_man d_snaps d_files]. rewrite Hr.
  destruct (m_ptr (st_man st)) as [[pf ps]|] eqn:Ep.
  - destruct (Gp pf ps eq_refl) as [_ [_ [docs Hd]]]. rewrite Hd. rewrite N.ltb_irrefl. cbn [andb].
    exists ps, docs, (flat (st_files st) (m_segs (st_man st))). split; [reflexivity|]. split; [|exact Gs].
    rewrite replay_filter. reflexivity.
  - rewrite N.ltb_irrefl. cbn [andb].
    exists 0, empty, (flat (st_files st) (m_segs (st_man st))). split; [reflexivity|]. split; [|exact Gs].
    rewrite replay_filter. reflexivity.
Qed.
