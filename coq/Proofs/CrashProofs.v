(* Proofs about Model/Crash.v (C01, process-kill model): every prefix of the effect list of every
   operation — and of start-up itself — leaves a directory from which the server's start-up succeeds
   with the collection as of the acknowledged operations, or that plus the in-flight operation. *)
From Coq Require Import List NArith ZArith Bool Lia.
From Kyro Require Import Model.Amap Model.Backend Model.Crash Proofs.AmapProofs Proofs.BackendProofs.
Import ListNotations.
Open Scope N_scope.
Arguments N.add : simpl never.
Arguments N.mul : simpl never.
Arguments N.max : simpl never.
Arguments N.pred : simpl never.
Arguments N.ltb : simpl never.
Arguments N.leb : simpl never.
Arguments N.eqb : simpl never.
Arguments N.of_nat : simpl never.

(* ------------------------------------------------------------------------------------------ *)
(* 1. Recoverable directories                                                                  *)
(* ------------------------------------------------------------------------------------------ *)

(* directory d, whose manifest is m, is read by strict recovery as the collection lst *)
Definition RecM (c : cfg) (lst : store) (d : dir) (m : manifest) : Prop :=
  exists sdocs sseq nx,
    dget d NManifest = Some (FManifest m) /\
    Forall is_wal (m_segments m) /\
    (forall nm, In nm (m_segments m) -> wal_readable d nm) /\
    snap_ok c d m sdocs sseq /\
    Forall (entry_ok c nx) (all_entries d (m_segments m)) /\
    replay_pure sseq sdocs (all_entries d (m_segments m)) = lst.

Definition Rec (c : cfg) (lst : store) (d : dir) : Prop := exists m, RecM c lst d m.

Lemma InvD_RecM : forall c lst d a nx, InvD c lst d a nx ->
  exists m, RecM c lst d m /\ dget d NManifest = Some (FManifest m).
Proof.
  intros c lst d a nx (m & sdocs & sseq & Hm & _ & _ & Hw & Hg & Hs & Hok & _ & Hrp).
  exists m. split; [|exact Hm]. exists sdocs, sseq, nx.
  split; [exact Hm|]. split; [exact Hw|]. split; [|split; [exact Hs|split; [exact Hok|exact Hrp]]].
  intros nm Hin. apply wal_good_readable. apply Hg. exact Hin.
Qed.

Lemma InvD_Rec : forall c lst d a nx, InvD c lst d a nx -> Rec c lst d.
Proof. intros c lst d a nx H. destruct (InvD_RecM _ _ _ _ _ H) as (m & R & _). exists m. exact R. Qed.

Lemma wal_readable_agree : forall d d' x, dget d' x = dget d x -> wal_readable d x -> wal_readable d' x.
Proof. intros d d' x H (es & t & He & Ht). exists es, t. rewrite H. auto. Qed.

Lemma RecM_agree : forall c lst d d' m, RecM c lst d m ->
  dget d' NManifest = dget d NManifest ->
  (forall x, In x (m_segments m) -> dget d' x = dget d x) ->
  (forall x, m_snapshot m = Some x -> dget d' x = dget d x) ->
  RecM c lst d' m.
Proof.
  intros c lst d d' m (sdocs & sseq & nx & Hm & Hw & Hg & Hs & Hok & Hrp) A B C.
  exists sdocs, sseq, nx. rewrite (all_entries_agree d d' _ B).
  split; [rewrite A; exact Hm|]. split; [exact Hw|]. split; [|split; [|split; [exact Hok|exact Hrp]]].
  - intros nm Hin. apply (wal_readable_agree d d'); [apply B; exact Hin|apply Hg; exact Hin].
  - apply (snap_ok_agree c d d'); [exact C|exact Hs].
Qed.

(* start-up on a recoverable directory *)
Lemma Rec_start : forall c lst d, wf_cfg c = true -> Rec c lst d -> docs_ok c lst ->
  size lst <= c_capacity c -> exists s, start c d = SOk s /\ st_store s = lst.
Proof.
  intros c lst d Hwf (m & sdocs & sseq & nx & Hm & Hw & Hg & Hs & Hok & Hrp) Hd Hsz.
  unfold start, has_manifest. rewrite Hm. unfold recover, recover_full.
  rewrite (recover_read_ok c d m sdocs sseq nx Hwf Hm Hs Hg Hok).
  rewrite Hrp, (rebuild_docs_ok c _ Hd).
  rewrite size_le_cap_ltb by lia. rewrite (accepts_all_ok c _ Hd). cbn [negb].
  eexists. split; reflexivity.
Qed.

(* ------------------------------------------------------------------------------------------ *)
(* 2. crash_kill algebra                                                                       *)
(* ------------------------------------------------------------------------------------------ *)

Lemma crash_app_lt : forall d e1 e2 k torn, (k < length e1)%nat ->
  crash_kill d (e1 ++ e2) k torn = crash_kill d e1 k torn.
Proof.
  intros d e1 e2 k torn H. unfold crash_kill.
  rewrite firstn_app. replace (k - length e1)%nat with 0%nat by lia. cbn [firstn]. rewrite app_nil_r.
  rewrite nth_error_app1 by exact H. reflexivity.
Qed.

Lemma crash_app_ge : forall d e1 e2 j torn,
  crash_kill d (e1 ++ e2) (length e1 + j) torn = crash_kill (apply_effs d e1) e2 j torn.
Proof.
  intros d e1 e2 j torn. unfold crash_kill.
  rewrite firstn_app_2, apply_effs_app. rewrite nth_error_app2 by lia.
  replace (length e1 + j - length e1)%nat with j by lia. reflexivity.
Qed.

Lemma crash_nil : forall d k torn, crash_kill d [] k torn = d.
Proof. intros d k torn. unfold crash_kill. rewrite firstn_nil. destruct torn; [destruct k|]; reflexivity. Qed.

Lemma crash_all : forall d effs k torn, (length effs <= k)%nat -> crash_kill d effs k torn = apply_effs d effs.
Proof.
  intros d effs k torn H. unfold crash_kill. rewrite firstn_all2 by exact H.
  destruct torn; [|reflexivity]. apply nth_error_None in H. rewrite H. reflexivity.
Qed.

Definition AllRec (c : cfg) (lst : store) (d : dir) (effs : list eff) : Prop :=
  forall k torn, (k <= length effs)%nat -> Rec c lst (crash_kill d effs k torn).

Lemma AllRec_app : forall c lst d e1 e2,
  AllRec c lst d e1 -> AllRec c lst (apply_effs d e1) e2 -> AllRec c lst d (e1 ++ e2).
Proof.
  intros c lst d e1 e2 A B k torn Hk. rewrite app_length in Hk.
  destruct (Nat.lt_ge_cases k (length e1)) as [L|G].
  - rewrite crash_app_lt by exact L. apply A. lia.
  - replace k with (length e1 + (k - length e1))%nat by lia. rewrite crash_app_ge. apply B. lia.
Qed.

Lemma AllRec_nil : forall c lst d, Rec c lst d -> AllRec c lst d [].
Proof. intros c lst d H k torn _. rewrite crash_nil. exact H. Qed.

Lemma AllRec_end : forall c lst d effs, AllRec c lst d effs -> Rec c lst (apply_effs d effs).
Proof. intros c lst d effs H. rewrite <- (crash_all d effs (length effs) false) by lia. apply H. lia. Qed.

(* names an effect can modify *)
Definition touches (e : eff) : list name :=
  match e with
  | ECreate f _ | EAppend f _ | ETrunc f _ | EWriteFile f _ | EUnlink f => [f]
  | ERename a b => [a; b]
  | EFsync _ | EFsyncData _ | EFsyncDir => []
  end.

Lemma apply_eff_other : forall d e x, ~ In x (touches e) -> dget (apply_eff d e) x = dget d x.
Proof.
  intros d e x H. destruct e as [f tr|f b|f n|f|f|a b|f| |f co]; cbn [touches] in H; cbn [apply_eff];
    try reflexivity.
  - assert (x <> f) by (intro; apply H; left; congruence).
    destruct (dget d f); [destruct tr|]; dsimp; reflexivity.
  - assert (x <> f) by (intro; apply H; left; congruence).
    destruct (dget d f) as [[| frs [| |] | | |]|]; destruct b; dsimp; reflexivity.
  - assert (x <> f) by (intro; apply H; left; congruence).
    destruct (dget d f) as [[| frs t | | |]|]; dsimp; reflexivity.
  - assert (x <> a) by (intro; apply H; left; congruence).
    assert (x <> b) by (intro; apply H; right; left; congruence).
    destruct (dget d a); dsimp; reflexivity.
  - assert (x <> f) by (intro; apply H; left; congruence). dsimp. reflexivity.
  - assert (x <> f) by (intro; apply H; left; congruence). dsimp. reflexivity.
Qed.

Lemma torn_eff_other : forall d e x, ~ In x (touches e) -> dget (torn_eff d e) x = dget d x.
Proof.
  intros d e x H. destruct e as [f tr|f b|f n|f|f|a b|f| |f co]; cbn [touches] in H; cbn [torn_eff];
    try reflexivity.
  - assert (x <> f) by (intro; apply H; left; congruence).
    destruct b; [reflexivity|]. destruct (dget d f) as [[| frs [| |] | | |]|]; dsimp; reflexivity.
  - assert (x <> f) by (intro; apply H; left; congruence). destruct (dget d f); dsimp; reflexivity.
Qed.

Lemma apply_effs_other : forall effs d x, (forall e, In e effs -> ~ In x (touches e)) ->
  dget (apply_effs d effs) x = dget d x.
Proof.
  induction effs as [|e r IH]; intros d x H; [reflexivity|].
  change (apply_effs d (e :: r)) with (apply_effs (apply_eff d e) r).
  rewrite IH by (intros e' He'; apply H; right; exact He').
  apply apply_eff_other. apply H. left. reflexivity.
Qed.

Lemma in_firstn : forall A (l : list A) n x, In x (firstn n l) -> In x l.
Proof.
  intros A l. induction l as [|y r IH]; intros n x H; destruct n; cbn in H; try contradiction.
  destruct H as [->|H]; [left; reflexivity|right; eapply IH; exact H].
Qed.

Lemma crash_other : forall effs d k torn x, (forall e, In e effs -> ~ In x (touches e)) ->
  dget (crash_kill d effs k torn) x = dget d x.
Proof.
  intros effs d k torn x H. unfold crash_kill.
  assert (A : dget (apply_effs d (firstn k effs)) x = dget d x).
  { apply apply_effs_other. intros e He. apply H. eapply in_firstn. exact He. }
  destruct torn; [|exact A]. destruct (nth_error effs k) as [e|] eqn:E; [|exact A].
  rewrite torn_eff_other; [exact A|]. apply H. eapply nth_error_In. exact E.
Qed.

(* a block of effects that touches nothing the manifest references *)
Lemma AllRec_untouched : forall c lst d m effs, RecM c lst d m ->
  (forall e x, In e effs -> In x (touches e) ->
     x <> NManifest /\ ~ In x (m_segments m) /\ m_snapshot m <> Some x) ->
  forall k torn, RecM c lst (crash_kill d effs k torn) m.
Proof.
  intros c lst d m effs R H k torn. apply (RecM_agree c lst d _ m R).
  - apply crash_other. intros e He Hin. destruct (H e _ He Hin) as (A & _). congruence.
  - intros x Hx. apply crash_other. intros e He Hin. destruct (H e _ He Hin) as (_ & B & _). contradiction.
  - intros x Hx. apply crash_other. intros e He Hin. destruct (H e _ He Hin) as (_ & _ & C). contradiction.
Qed.

Lemma RecM_refs : forall c lst d m, RecM c lst d m ->
  (forall x, In x (m_segments m) -> is_wal x /\ dget d x <> None) /\
  (forall x, m_snapshot m = Some x -> (exists k, x = NSnap k) /\ dget d x <> None) /\
  dget d NManifest <> None.
Proof.
  intros c lst d m (sdocs & sseq & nx & Hm & Hw & Hg & [_ Hs] & _). repeat split.
  - rewrite Forall_forall in Hw. apply Hw. exact H.
  - destruct (Hg x H) as (es & t & He & _). rewrite He. discriminate.
  - rewrite H in Hs. destruct Hs as (k & sn & E & _). exists k. exact E.
  - rewrite H in Hs. destruct Hs as (k & sn & E & Hf & _). rewrite Hf. discriminate.
  - rewrite Hm. discriminate.
Qed.

(* effects on names that do not exist yet, or on temp files *)
Lemma AllRec_fresh : forall c lst d effs, Rec c lst d ->
  (forall e x, In e effs -> In x (touches e) ->
     x = NManifestTmp \/ (exists k, x = NSnapTmp k) \/ dget d x = None) ->
  AllRec c lst d effs.
Proof.
  intros c lst d effs [m R] H k torn _. exists m. apply AllRec_untouched; [exact R|].
  intros e x He Hx. destruct (RecM_refs _ _ _ _ R) as (A & B & C).
  destruct (H e x He Hx) as [->|[[j ->]|Hn]].
  - split; [discriminate|]. split.
    + intro Hin. destruct (A _ Hin) as [[j E] _]. discriminate.
    + intro E. destruct (B _ E) as [[j E'] _]. discriminate.
  - split; [discriminate|]. split.
    + intro Hin. destruct (A _ Hin) as [[i E] _]. discriminate.
    + intro E. destruct (B _ E) as [[i E'] _]. discriminate.
  - split; [intro; subst; contradiction|]. split.
    + intro Hin. destruct (A _ Hin) as [_ N]. contradiction.
    + intro E. destruct (B _ E) as [_ N]. contradiction.
Qed.

Lemma AllRec_new_wal : forall c lst d f, Rec c lst d -> dget d f = None -> AllRec c lst d (new_wal_effs f).
Proof.
  intros c lst d f R Hf. apply AllRec_fresh; [exact R|]. intros e x He Hx. right. right.
  unfold new_wal_effs in He. destruct He as [<-|[<-|[<-|[]]]]; cbn in Hx; try contradiction;
    destruct Hx as [<-|[]]; exact Hf.
Qed.

Lemma AllRec_save_snapshot : forall c lst d k sn, Rec c lst d -> dget d (NSnap k) = None ->
  AllRec c lst d (save_snapshot_effs k sn).
Proof.
  intros c lst d k sn R Hf. apply AllRec_fresh; [exact R|]. intros e x He Hx.
  unfold save_snapshot_effs in He.
  destruct He as [<-|[<-|[<-|[<-|[<-|[]]]]]]; cbn in Hx; try contradiction.
  - destruct Hx as [<-|[]]. right. left. eexists. reflexivity.
  - destruct Hx as [<-|[]]. right. left. eexists. reflexivity.
  - destruct Hx as [<-|[<-|[]]]; [right; left; eexists; reflexivity|right; right; exact Hf].
Qed.

(* Manifest::save: the first three effects only touch MANIFEST.tmp; the rename publishes m' at once *)
Lemma AllRec_save_manifest : forall c lst d m', Rec c lst d ->
  Rec c lst (apply_effs d (save_manifest_effs m')) -> AllRec c lst d (save_manifest_effs m').
Proof.
  intros c lst d m' R R' k torn Hk.
  destruct (Nat.le_gt_cases 4 k) as [G|L].
  - (* rename done: the directory is the final one (the directory fsync changes nothing) *)
    assert (E : crash_kill d (save_manifest_effs m') k torn = apply_effs d (save_manifest_effs m')).
    { cbn [length save_manifest_effs] in Hk.
      assert (k = 4 \/ k = 5)%nat as [->| ->] by lia; destruct torn; reflexivity. }
    rewrite E. exact R'.
  - replace (crash_kill d (save_manifest_effs m') k torn)
      with (crash_kill d (firstn 3 (save_manifest_effs m')) k torn).
    + apply AllRec_fresh; [exact R| |cbn; lia].
      intros e x He Hx. left. cbn in He. destruct He as [<-|[<-|[<-|[]]]]; cbn in Hx; try contradiction;
        destruct Hx as [<-|[]]; reflexivity.
    + assert (k = 0 \/ k = 1 \/ k = 2 \/ k = 3)%nat as [->|[->|[->| ->]]] by lia; destruct torn; reflexivity.
Qed.

(* ------------------------------------------------------------------------------------------ *)
(* 3. Appending frames (one write each, then the fsync of the policy)                          *)
(* ------------------------------------------------------------------------------------------ *)

Lemma seqs_from_firstn : forall es b k, seqs_from b es -> seqs_from b (firstn k es).
Proof.
  induction es as [|e r IH]; intros b k H; destruct k; cbn; try exact I.
  destruct H as [E H]. split; [exact E|apply IH; exact H].
Qed.

Lemma forall_firstn : forall A (P : A -> Prop) l k, Forall P l -> Forall P (firstn k l).
Proof.
  intros A P l k H. apply Forall_forall. intros x Hx. rewrite Forall_forall in H. apply H.
  eapply in_firstn. exact Hx.
Qed.

Lemma crash_fsync_nop : forall c a d j torn, crash_kill d (fsync_effs c a) j torn = d.
Proof.
  intros c a d j torn. unfold fsync_effs. destruct (c_fsync c); destruct j as [|[|j]]; destruct torn; reflexivity.
Qed.

(* a torn frame at the end of the active segment is invisible to the reader *)
Lemma InvD_torn_Rec : forall c lst d a nx frs, InvD c lst d a nx ->
  dget d a = Some (FWal frs Clean) -> Rec c lst (dset d a (FWal frs Torn)).
Proof.
  intros c lst d a nx frs H Ha.
  pose proof H as (m & sdocs & sseq & Hm & [pre Hpre] & Hnd & Hw & Hg & Hs & Hok & Hmx & Hrp).
  assert (Hin : In a (m_segments m)) by (rewrite Hpre; apply in_or_app; right; left; reflexivity).
  assert (Hwa : is_wal a) by (rewrite Forall_forall in Hw; apply Hw; exact Hin).
  destruct (is_wal_neq _ Hwa) as (N1 & N2 & N3 & N4).
  set (d' := dset d a (FWal frs Torn)).
  assert (Hent : forall x, entries_of d' x = entries_of d x).
  { intros x. unfold entries_of, d'. destruct (name_eqb_spec x a) as [->|Hne].
    - rewrite dget_dset_same, Ha. reflexivity.
    - rewrite dget_dset_other by exact Hne. reflexivity. }
  assert (Hall : all_entries d' (m_segments m) = all_entries d (m_segments m)).
  { unfold all_entries. clear - Hent. induction (m_segments m) as [|x r IH]; cbn; [reflexivity|].
    rewrite Hent, IH. reflexivity. }
  exists m, sdocs, sseq, nx. rewrite Hall.
  split; [unfold d'; rewrite dget_dset_other by congruence; exact Hm|]. split; [exact Hw|].
  split; [|split; [|split; [exact Hok|exact Hrp]]].
  - intros nm Hi. destruct (name_eqb_spec nm a) as [->|Hne].
    + destruct (Hg a Hin) as [es He]. rewrite Ha in He. inversion He; subst.
      exists es, Torn. unfold d'. rewrite dget_dset_same. split; [reflexivity|discriminate].
    + apply wal_good_readable. apply (wal_good_agree d d'); [unfold d'; apply dget_dset_other; exact Hne|].
      apply Hg. exact Hi.
  - apply (snap_ok_agree c d d'); [|exact Hs]. intros nm E. unfold d'. apply dget_dset_other.
    destruct Hs as [_ Hs]. rewrite E in Hs. destruct Hs as (k & sn & -> & _). apply not_eq_sym. apply N3.
Qed.

Lemma append_effs_length : forall a es, length (append_effs a es) = length es.
Proof. intros. unfold append_effs. apply map_length. Qed.

Lemma append_effs_firstn : forall a es k, firstn k (append_effs a es) = append_effs a (firstn k es).
Proof. intros. unfold append_effs. apply firstn_map. Qed.

(* crash after k complete frames (k <= all), possibly with a torn next frame: the directory encodes the
   first k entries applied to lst *)
Lemma append_crash : forall c lst d a nx es k torn,
  InvD c lst d a nx -> seqs_from nx es ->
  Forall (fun e => e_op e = Ins -> len (e_vec e) = c_dim c) es ->
  Rec c (fold_left apply_entry (firstn k es) lst)
      (crash_kill d (append_effs a es ++ fsync_effs c a) k torn).
Proof.
  intros c lst d a nx es k torn H Hs Hd.
  pose proof (InvD_append c lst d a nx (firstn k es) H (seqs_from_firstn _ _ k Hs) (forall_firstn _ _ _ k Hd)) as HI.
  rewrite apply_effs_app, fsync_effs_nop in HI.
  destruct (Nat.lt_ge_cases k (length es)) as [L|G].
  - rewrite crash_app_lt by (rewrite append_effs_length; exact L).
    unfold crash_kill. rewrite append_effs_firstn.
    destruct torn; [|eapply InvD_Rec; exact HI].
    change (nth_error (append_effs a es) k) with (nth_error (map (fun e => EAppend a (BFrame (Good e))) es) k).
    rewrite nth_error_map.
    destruct (nth_error es k) as [e|] eqn:E; [|apply nth_error_None in E; lia].
    cbn [option_map torn_eff].
    pose proof HI as (m & sdocs & sseq & Hm & [pre Hpre] & _ & _ & Hg & _).
    destruct (Hg a) as [es0 He0]; [rewrite Hpre; apply in_or_app; right; left; reflexivity|].
    rewrite He0. eapply InvD_torn_Rec; [exact HI|exact He0].
  - assert (Ek : crash_kill d (append_effs a es ++ fsync_effs c a) k torn = apply_effs d (append_effs a es)).
    { replace k with (length (append_effs a es) + (k - length es))%nat by (rewrite append_effs_length; lia).
      rewrite crash_app_ge, crash_fsync_nop. reflexivity. }
    rewrite Ek. rewrite firstn_all2 in HI by lia. rewrite firstn_all2 by lia. eapply InvD_Rec. exact HI.
Qed.

(* ------------------------------------------------------------------------------------------ *)
(* 4. Rotation and recovery: a fresh segment is created, then listed                           *)
(* ------------------------------------------------------------------------------------------ *)

Lemma newseg_allrec : forall c lst d a nx m, InvD c lst d a nx ->
  dget d NManifest = Some (FManifest m) ->
  AllRec c lst d (new_wal_effs (NWal (fresh_id d)) ++
                  save_manifest_effs (mkManifest (m_snapshot m) (m_snapshot_seq m)
                                                 (m_segments m ++ [NWal (fresh_id d)]))).
Proof.
  intros c lst d a nx m H Hm.
  assert (Hf : dget d (NWal (fresh_id d)) = None) by (apply fresh_none; reflexivity).
  assert (A : AllRec c lst d (new_wal_effs (NWal (fresh_id d))))
    by (apply AllRec_new_wal; [eapply InvD_Rec; exact H|exact Hf]).
  apply AllRec_app; [exact A|].
  apply AllRec_save_manifest; [apply AllRec_end; exact A|].
  eapply InvD_Rec. exact (InvD_newseg c lst d a nx m H Hm).
Qed.

Lemma rotate_allrec : forall c lst s, InvDs c lst s ->
  AllRec c lst (st_disk s) (snd (rotate_if_needed c s)).
Proof.
  intros c lst s H. unfold rotate_if_needed.
  destruct ((c_max_wal c =? 0) || (st_bytes s <? c_max_wal c)).
  - cbn [snd]. apply AllRec_nil. eapply InvD_Rec. exact H.
  - pose proof H as (m & sdocs & sseq & Hm & _).
    assert (Hl : load_manifest (apply_effs (st_disk s) (new_wal_effs (NWal (fresh_id (st_disk s))))) = Some m).
    { unfold load_manifest. rewrite new_wal_other; [rewrite Hm; reflexivity|apply fresh_none; reflexivity|discriminate]. }
    rewrite Hl. cbn [snd]. exact (newseg_allrec c lst (st_disk s) (st_active s) (st_next_seq s) m H Hm).
Qed.

Lemma recover_allrec : forall c s s' effs, wf_cfg c = true -> Inv c s ->
  recover_full c Strict (st_disk s) = Ok (s', effs) -> AllRec c (st_store s) (st_disk s) effs.
Proof.
  intros c s s' effs Hwf [H (Mso & Mdo & Msz & Mcap)] E.
  pose proof H as (m & sdocs & sseq & Hm & Hpre & Hnd & Hw & Hg & Hs & Hok & Hmx & Hrp).
  unfold recover_full in E.
  rewrite (recover_read_ok c (st_disk s) m sdocs sseq (st_next_seq s) Hwf Hm Hs
             (fun nm Hin => wal_good_readable _ _ (Hg nm Hin)) Hok) in E.
  rewrite Hrp, (rebuild_docs_ok c _ Mdo) in E.
  rewrite size_le_cap_ltb in E by lia. rewrite (accepts_all_ok c _ Mdo) in E. cbn [negb] in E.
  inversion E; subst. exact (newseg_allrec c (st_store s) (st_disk s) (st_active s) (st_next_seq s) m H Hm).
Qed.

(* ------------------------------------------------------------------------------------------ *)
(* 5. create_snapshot: snapshot file, pointer, pruned list, unlinks, final save                *)
(* ------------------------------------------------------------------------------------------ *)

(* any directory whose manifest points at the new snapshot and lists a sub-list of the old segments,
   those segments being untouched, encodes the live store *)
Lemma RecM_snapshot : forall c d0 a nx st m0 d segs' k last,
  InvD c st d0 a nx -> sorted st -> docs_ok c st -> last + 1 = nx ->
  dget d0 NManifest = Some (FManifest m0) ->
  (forall x, In x segs' -> In x (m_segments m0)) ->
  dget d NManifest = Some (FManifest (mkManifest (Some (NSnap k)) (Some last) segs')) ->
  dget d (NSnap k) = Some (FSnap (mkSnap (store_dim st) (c_metric c) st last)) ->
  (forall x, In x segs' -> dget d x = dget d0 x) ->
  RecM c st d (mkManifest (Some (NSnap k)) (Some last) segs').
Proof.
  intros c d0 a nx st m0 d segs' k last
    (m & sdocs & sseq & Hm & Hpre & Hnd & Hw & Hg & Hs & Hok & Hmx & Hrp) Hso Hdo Hlast Hm0 Hsub Hmd Hsn Hag.
  rewrite Hm in Hm0. inversion Hm0; subst m0. clear Hm0.
  destruct (snap_valid_store c st (c_metric c) last Hso Hdo) as [Hv Hdim].
  assert (Hent : all_entries d segs' = all_entries d0 segs') by (apply all_entries_agree; exact Hag).
  assert (Hall : Forall (fun e => 1 <= e_seq e /\ e_seq e <= last) (all_entries d0 segs')).
  { apply Forall_forall. intros e He. apply (in_all_entries_sub d0 segs' (m_segments m) e Hsub) in He.
    rewrite Forall_forall in Hok. destruct (Hok _ He) as (A & B & _). lia. }
  exists st, last, nx. cbn [m_segments m_snapshot m_snapshot_seq]. rewrite Hent.
  split; [exact Hmd|]. split; [|split; [|split; [|split]]].
  - apply Forall_forall. intros x Hx. rewrite Forall_forall in Hw. apply Hw. apply Hsub. exact Hx.
  - intros nm Hin. apply wal_good_readable. apply (wal_good_agree d0 d); [apply Hag; exact Hin|].
    apply Hg. apply Hsub. exact Hin.
  - split; [reflexivity|]. exists k, (mkSnap (store_dim st) (c_metric c) st last).
    split; [reflexivity|]. split; [exact Hsn|]. split; [exact Hv|]. split; [reflexivity|].
    split; [reflexivity|]. split; [reflexivity|]. split; [exact Hdim|exact Hso].
  - apply Forall_forall. intros e He.
    apply (in_all_entries_sub d0 segs' (m_segments m) e Hsub) in He.
    rewrite Forall_forall in Hok. exact (Hok _ He).
  - unfold replay_pure. rewrite (filter_keep_none _ _ Hall). reflexivity.
Qed.

Lemma snapshot_allrec : forall c s,
  InvDs c (st_store s) s -> sorted (st_store s) -> docs_ok c (st_store s) ->
  AllRec c (st_store s) (st_disk s) (snd (create_snapshot c s)).
Proof.
  intros c s H Hso Hdo.
  pose proof H as (m & sdocs & sseq & Hm & [pre Hpre] & Hnd & Hw & Hg & Hs & Hok & Hmx & Hrp).
  unfold create_snapshot. fold (store_dim (st_store s)).
  set (last := N.pred (st_next_seq s)).
  set (sn := mkSnap (store_dim (st_store s)) (c_metric c) (st_store s) last).
  destruct (snap_valid_store c (st_store s) (c_metric c) last Hso Hdo) as [Hv Hdim].
  fold sn in Hv. rewrite Hv. cbn [negb].
  set (k := fresh_id (st_disk s)).
  set (d := st_disk s) in *.
  set (d1 := apply_effs d (save_snapshot_effs k sn)).
  assert (Hm1 : load_manifest d1 = Some m).
  { unfold load_manifest, d1. rewrite save_snapshot_other by discriminate. rewrite Hm. reflexivity. }
  rewrite Hm1.
  pose proof (maxseq_ge (all_entries d (m_segments m)) sseq) as Hge.
  assert (Hlast : last + 1 = st_next_seq s) by (unfold last; lia).
  destruct Hs as [Hq Hs]. rewrite Hq.
  replace (last <? sseq) with false by (symmetry; apply N.ltb_ge; lia).
  set (m1 := mkManifest (Some (NSnap k)) (Some last) (m_segments m)).
  set (d2 := apply_effs d1 (save_manifest_effs m1)).
  destruct (compact_segments d2 last (m_segments m)) as [keep del] eqn:EC.
  destruct (compact_props _ _ _ _ _ EC) as (C1 & C2 & C3 & C4).
  destruct (C3 Hnd) as [Cnd Cdis].
  set (m2 := mkManifest (Some (NSnap k)) (Some last) keep).
  cbn [snd].
  assert (Hwal : forall x, In x (m_segments m) -> is_wal x) by (rewrite Forall_forall in Hw; exact Hw).
  assert (R0 : Rec c (st_store s) d) by (eapply InvD_Rec; exact H).
  assert (A1 : AllRec c (st_store s) d (save_snapshot_effs k sn))
    by (apply AllRec_save_snapshot; [exact R0|apply fresh_none; reflexivity]).
  (* facts about d1, d2 *)
  assert (Hd1 : forall x, is_wal x -> dget d1 x = dget d x).
  { intros x Hx. destruct (is_wal_neq _ Hx) as (_ & _ & N3 & N4). unfold d1.
    apply save_snapshot_other; [apply N3|apply N4]. }
  assert (Hd2 : forall x, is_wal x -> dget d2 x = dget d x).
  { intros x Hx. destruct (is_wal_neq _ Hx) as (N1 & N2 & _). unfold d2.
    rewrite save_manifest_other by assumption. apply Hd1. exact Hx. }
  assert (Hd2s : dget d2 (NSnap k) = Some (FSnap sn)).
  { unfold d2. rewrite save_manifest_other by discriminate. unfold d1. apply save_snapshot_get. }
  assert (R2 : Rec c (st_store s) d2).
  { exists m1. apply (RecM_snapshot c d (st_active s) (st_next_seq s) (st_store s) m d2 (m_segments m) k last
                        H Hso Hdo Hlast Hm (fun x Hx => Hx)).
    - unfold d2. apply save_manifest_get.
    - exact Hd2s.
    - intros x Hx. apply Hd2. apply Hwal. exact Hx. }
  assert (A2 : AllRec c (st_store s) d1 (save_manifest_effs m1))
    by (apply AllRec_save_manifest; [apply AllRec_end; exact A1|exact R2]).
  (* pruned-manifest save + unlinks (only when something is deletable) *)
  set (e3 := (match del with [] => [] | _ :: _ => save_manifest_effs m2 end) ++ map EUnlink del).
  set (d4 := apply_effs d2 e3).
  assert (A3 : AllRec c (st_store s) d2 e3 /\
               (forall x, In x keep -> dget d4 x = dget d x) /\ dget d4 (NSnap k) = Some (FSnap sn)).
  { unfold d4, e3. destruct del as [|x0 dr] eqn:Edel.
    - cbn [map app]. split; [apply AllRec_nil; exact R2|]. split.
      + intros x Hx. apply Hd2. apply Hwal. apply C1. exact Hx.
      + exact Hd2s.
    - rewrite <- Edel in *. set (d3 := apply_effs d2 (save_manifest_effs m2)).
      assert (Hd3 : forall x, is_wal x -> dget d3 x = dget d x).
      { intros x Hx. destruct (is_wal_neq _ Hx) as (N1 & N2 & _). unfold d3.
        rewrite save_manifest_other by assumption. apply Hd2. exact Hx. }
      assert (Hd3s : dget d3 (NSnap k) = Some (FSnap sn)).
      { unfold d3. rewrite save_manifest_other by discriminate. exact Hd2s. }
      assert (RM3 : RecM c (st_store s) d3 m2).
      { apply (RecM_snapshot c d (st_active s) (st_next_seq s) (st_store s) m d3 keep k last
                 H Hso Hdo Hlast Hm C1).
        - unfold d3. apply save_manifest_get.
        - exact Hd3s.
        - intros x Hx. apply Hd3. apply Hwal. apply C1. exact Hx. }
      assert (A3a : AllRec c (st_store s) d2 (save_manifest_effs m2))
        by (apply AllRec_save_manifest; [exact R2|exists m2; exact RM3]).
      assert (A3u : AllRec c (st_store s) d3 (map EUnlink del)).
      { intros j torn _. exists m2. apply AllRec_untouched; [exact RM3|].
        intros e x He Hx. apply in_map_iff in He. destruct He as (y & <- & Hy). cbn in Hx.
        destruct Hx as [<-|[]]. destruct (Hwal _ (C2 _ Hy)) as [i Ei].
        split; [rewrite Ei; discriminate|]. split; [apply Cdis; exact Hy|].
        cbn [m_snapshot m2]. rewrite Ei. discriminate. }
      split; [apply AllRec_app; [exact A3a|exact A3u]|].
      rewrite apply_effs_app. fold d3. split.
      + intros x Hx. rewrite unlinks_other by (intro Hin; apply (Cdis _ Hin Hx)).
        apply Hd3. apply Hwal. apply C1. exact Hx.
      + rewrite unlinks_other; [exact Hd3s|]. intro Hin. destruct (Hwal _ (C2 _ Hin)) as [i Ei]. discriminate. }
  destruct A3 as (A3 & Hk4 & Hs4).
  assert (R5 : Rec c (st_store s) (apply_effs d4 (save_manifest_effs m2))).
  { exists m2. apply (RecM_snapshot c d (st_active s) (st_next_seq s) (st_store s) m _ keep k last
                        H Hso Hdo Hlast Hm C1).
    - apply save_manifest_get.
    - rewrite save_manifest_other by discriminate. exact Hs4.
    - intros x Hx. destruct (is_wal_neq _ (Hwal _ (C1 _ Hx))) as (N1 & N2 & _).
      rewrite save_manifest_other by assumption. apply Hk4. exact Hx. }
  assert (A4 : AllRec c (st_store s) d4 (save_manifest_effs m2))
    by (apply AllRec_save_manifest; [apply AllRec_end; exact A3|exact R5]).
  apply AllRec_app; [exact A1|]. fold d1.
  apply AllRec_app; [exact A2|]. fold d2.
  apply AllRec_app; [exact A3|]. fold d4. exact A4.
Qed.

Lemma maybe_snapshot_allrec : forall c s,
  InvDs c (st_store s) s -> sorted (st_store s) -> docs_ok c (st_store s) ->
  AllRec c (st_store s) (st_disk s) (snd (maybe_snapshot c s)).
Proof.
  intros c s H Hso Hdo. unfold maybe_snapshot.
  destruct ((0 <? c_snapshot_interval c) && (c_snapshot_interval c <=? st_since_snap s)).
  - pose proof (snapshot_allrec c s H Hso Hdo) as X.
    destruct (create_snapshot c s) as [[s' o] e]. exact X.
  - cbn [snd]. apply AllRec_nil. eapply InvD_Rec. exact H.
Qed.

(* ------------------------------------------------------------------------------------------ *)
(* 6. Every operation: every prefix of its effect list recovers to old-or-new                  *)
(* ------------------------------------------------------------------------------------------ *)

Definition dims_ok (c : cfg) (es : list entry) : Prop :=
  Forall (fun e => e_op e = Ins -> len (e_vec e) = c_dim c) es.

(* the common shape of insert / delete / batch_delete / update_metadata after their pre-checks:
   append es, rotate?, apply in memory, snapshot? *)
Lemma write_op_crash : forall c s es s1 e1 s2 e2 s3 s4 e4 k torn,
  Inv c s -> seqs_from (st_next_seq s) es -> dims_ok c es ->
  append_entries c s es = (s1, e1) -> rotate_if_needed c s1 = (s2, e2) ->
  st_disk s3 = st_disk s2 -> st_active s3 = st_active s2 -> st_next_seq s3 = st_next_seq s2 ->
  st_store s3 = fold_left apply_entry es (st_store s) -> InvM c s3 ->
  maybe_snapshot c s3 = (s4, e4) ->
  (k <= length (e1 ++ e2 ++ e4))%nat ->
  Rec c (fold_left apply_entry (firstn k es) (st_store s))
      (crash_kill (st_disk s) (e1 ++ e2 ++ e4) k torn) /\
  st_store s4 = fold_left apply_entry es (st_store s).
Proof.
  intros c s es s1 e1 s2 e2 s3 s4 e4 k torn [H M] Hsq Hdm E1 E2 D3 A3 N3 S3 M3 E4 Hk.
  pose proof (append_inv c (st_store s) s es H Hsq Hdm) as A. rewrite E1 in A. cbn [fst] in A.
  destruct A as (A1 & A2 & _).
  pose proof (rotate_inv c _ s1 A1) as R. rewrite E2 in R. cbn [fst] in R. destruct R as (R1 & _).
  assert (H3 : InvDs c (st_store s3) s3).
  { unfold InvDs in *. rewrite D3, A3, N3, S3. exact R1. }
  pose proof M3 as (So3 & Do3 & _).
  pose proof (maybe_snapshot_inv c s3 H3 So3 Do3) as Q. rewrite E4 in Q. cbn [fst] in Q.
  destruct Q as (_ & Q2 & _).
  split; [|rewrite Q2; exact S3].
  pose proof (append_disk _ _ _ _ _ E1) as Dk1.
  assert (Ee1 : e1 = append_effs (st_active s) es ++ fsync_effs c (st_active s))
    by (unfold append_entries in E1; inversion E1; reflexivity).
  destruct (Nat.lt_ge_cases k (length e1)) as [L|G].
  - rewrite crash_app_lt by exact L. rewrite Ee1. apply (append_crash c _ _ _ (st_next_seq s)); assumption.
  - replace k with (length e1 + (k - length e1))%nat by lia. rewrite crash_app_ge, <- Dk1.
    assert (Hlen : (length es <= length e1)%nat) by (rewrite Ee1, app_length, append_effs_length; lia).
    rewrite firstn_all2 by lia.
    assert (AR : AllRec c (fold_left apply_entry es (st_store s)) (st_disk s1) (e2 ++ e4)).
    { apply AllRec_app.
      - pose proof (rotate_allrec c _ s1 A1) as X. rewrite E2 in X. exact X.
      - rewrite <- (rotate_disk _ _ _ _ E2), <- D3, <- S3.
        pose proof (maybe_snapshot_allrec c s3 H3 So3 Do3) as X. rewrite E4 in X. exact X. }
    apply AR. rewrite !app_length in *. lia.
Qed.

Lemma number_dels_length : forall ids b, length (number_dels b ids) = length ids.
Proof. induction ids as [|i r IH]; intros b; cbn; [reflexivity|]. rewrite IH. reflexivity. Qed.

Theorem step_crash : forall c s o s' out effs k torn,
  wf_cfg c = true -> norm_ok c -> Inv c s ->
  step c s o = (s', out, effs) -> (k <= length effs)%nat -> known_op s o k = false ->
  Rec c (st_store s) (crash_kill (st_disk s) effs k torn) \/
  Rec c (st_store s') (crash_kill (st_disk s) effs k torn).
Proof.
  intros c s o s' out effs k torn Hwf Hn HI Hst Hk Hkn.
  pose proof HI as [H M].
  assert (Hold : Rec c (st_store s) (st_disk s)) by (eapply InvD_Rec; exact H).
  assert (Hnil : forall x, Rec c (st_store s) (crash_kill (st_disk s) [] x torn))
    by (intros x; rewrite crash_nil; exact Hold).
  destruct o as [id v m|id|ids|id m mg| |]; cbn [step] in Hst.
  - (* insert *)
    unfold do_insert in Hst.
    destruct (N.eqb_spec (len v) (c_dim c)) as [Hlen|Hlen]; cbn [negb] in Hst;
      [|inversion Hst; subst; left; apply Hnil].
    destruct (normalize_if_needed c v) as [w|] eqn:Hw; [|inversion Hst; subst; left; apply Hnil].
    destruct (c_accepts c w) eqn:Hacc; cbn [negb] in Hst; [|inversion Hst; subst; left; apply Hnil].
    destruct (normalize_doc_ok c v w (meta_canon m) Hn Hlen Hw Hacc) as [Hdoc Hlw].
    match type of Hst with context [if c_capacity c <=? st_slots ?x then _ else _] => set (s0 := x) in Hst end.
    assert (H0 : InvDs c (st_store s) s0 /\ InvM c s0 /\ st_store s0 = st_store s /\ st_disk s0 = st_disk s).
    { unfold s0. destruct ((c_capacity c <=? st_slots s) && (size (st_store s) <? st_slots s)); [|auto].
      split; [exact H|]. split; [|split; reflexivity]. destruct M as (A & B & C & D).
      unfold InvM. cbn [with_slots st_store st_slots]. repeat split; try assumption; lia. }
    clearbody s0. destruct H0 as (H0 & M0 & E0 & D0).
    destruct (N.leb_spec (c_capacity c) (st_slots s0)) as [Hfull|Hfull];
      [inversion Hst; subst; left; apply Hnil|].
    rewrite (InvDs_has_manifest _ _ _ H0) in Hst. cbn [negb] in Hst.
    destruct (append_entries c s0 _) as [s1 e1] eqn:E1.
    destruct (rotate_if_needed c s1) as [s2 e2] eqn:E2.
    match type of Hst with context [maybe_snapshot c ?x] => set (s3 := x) in Hst end.
    destruct (maybe_snapshot c s3) as [s4 e4] eqn:E4.
    inversion Hst; subst s' out effs. clear Hst.
    assert (Hdm0 : dims_ok c [mkEntry Ins id w (meta_canon m) (st_next_seq s0)])
      by (constructor; [intros _; exact Hlw|constructor]).
    pose proof (append_inv c (st_store s) s0 [mkEntry Ins id w (meta_canon m) (st_next_seq s0)] H0
                  (conj eq_refl I) Hdm0) as A.
    rewrite E1 in A. cbn [fst] in A. destruct A as (A1 & A2 & A3 & _).
    pose proof (rotate_inv c _ s1 A1) as R. rewrite E2 in R. cbn [fst] in R. destruct R as (R1 & R2 & R3 & _).
    assert (M3 : InvM c s3).
    { destruct M0 as (A & B & C & D). rewrite E0 in A, B, C.
      unfold s3, InvM. cbn [st_store st_slots]. rewrite R2, A2, E0, R3, A3.
      split; [apply sorted_set; exact A|]. split; [apply docs_ok_set; assumption|].
      pose proof (size_set_le (st_store s) id (mkDoc w (meta_canon m))). split; lia. }
    assert (HI0 : Inv c s0) by (split; [rewrite E0; exact H0|exact M0]).
    destruct (write_op_crash c s0 [mkEntry Ins id w (meta_canon m) (st_next_seq s0)]
                s1 e1 s2 e2 s3 s4 e4 k torn HI0 (conj eq_refl I) Hdm0 E1 E2 eq_refl eq_refl eq_refl
                ltac:(unfold s3; cbn [st_store fold_left apply_entry e_op e_id e_vec e_meta];
                      rewrite R2, A2; reflexivity) M3 E4 Hk) as [W W2].
    rewrite D0, E0 in W. rewrite E0 in W2.
    destruct k as [|k]; [left; exact W|right]. cbn [firstn] in W. rewrite firstn_nil in W.
    rewrite W2. exact W.
  - (* delete *)
    unfold do_delete in Hst.
    destruct (get (st_store s) id) as [d|] eqn:Hg; [|inversion Hst; subst; left; apply Hnil].
    rewrite (InvDs_has_manifest _ _ _ H) in Hst. cbn [negb] in Hst.
    destruct (append_entries c s _) as [s1 e1] eqn:E1.
    destruct (rotate_if_needed c s1) as [s2 e2] eqn:E2.
    match type of Hst with context [maybe_snapshot c ?x] => set (s3 := x) in Hst end.
    destruct (maybe_snapshot c s3) as [s4 e4] eqn:E4.
    inversion Hst; subst s' out effs. clear Hst.
    assert (Hdm : dims_ok c [mkEntry Del id [] [] (st_next_seq s)])
      by (constructor; [intros E; discriminate|constructor]).
    pose proof (append_inv c (st_store s) s [mkEntry Del id [] [] (st_next_seq s)] H (conj eq_refl I) Hdm) as A.
    rewrite E1 in A. cbn [fst] in A. destruct A as (A1 & A2 & A3 & _).
    pose proof (rotate_inv c _ s1 A1) as R. rewrite E2 in R. cbn [fst] in R. destruct R as (R1 & R2 & R3 & _).
    assert (M3 : InvM c s3).
    { destruct M as (A & B & C & D).
      unfold s3, InvM. cbn [with_since with_store st_store st_slots]. rewrite R2, A2, R3, A3.
      split; [apply sorted_remove; exact A|]. split; [apply docs_ok_remove; exact B|].
      pose proof (size_remove_le (st_store s) id). split; lia. }
    destruct (write_op_crash c s [mkEntry Del id [] [] (st_next_seq s)] s1 e1 s2 e2 s3 s4 e4 k torn HI
                (conj eq_refl I) Hdm E1 E2 eq_refl eq_refl eq_refl
                ltac:(unfold s3; cbn [with_since with_store st_store fold_left apply_entry e_op e_id];
                      rewrite R2, A2; reflexivity) M3 E4 Hk) as [W W2].
    destruct k as [|k]; [left; exact W|right]. cbn [firstn] in W. rewrite firstn_nil in W.
    rewrite W2. exact W.
  - (* batch delete *)
    unfold do_batch_delete in Hst. cbn [known_op] in Hkn.
    destruct (filter (mem (st_store s)) ids) as [|l0 lr]; [inversion Hst; subst; left; apply Hnil|].
    remember (l0 :: lr) as live eqn:Elive.
    assert (Hlive : (1 <= length live)%nat) by (subst live; cbn; lia).
    assert (Hst' : (if negb (has_manifest (st_disk s)) then (s, OErrIo, [])
                    else let '(s1, e1) := append_entries c s (number_dels (st_next_seq s) live) in
                         let '(s2, e2) := rotate_if_needed c s1 in
                         let '(m', cnt) := apply_batch (st_store s2) live 0 in
                         let s3 := with_since (with_store s2 m') (st_since_snap s2 + len live) in
                         let '(s4, e4) := maybe_snapshot c s3 in (s4, OCount cnt, e1 ++ e2 ++ e4))
                   = (s', out, effs)) by (subst live; exact Hst).
    clear Hst. rename Hst' into Hst. clear Elive l0 lr.
    rewrite (InvDs_has_manifest _ _ _ H) in Hst. cbn [negb] in Hst.
    destruct (append_entries c s _) as [s1 e1] eqn:E1.
    destruct (rotate_if_needed c s1) as [s2 e2] eqn:E2.
    pose proof (apply_batch_fst live (st_store s2) 0) as Eb.
    destruct (apply_batch (st_store s2) live 0) as [m' cnt]. cbn [fst] in Eb. subst m'.
    match type of Hst with context [maybe_snapshot c ?x] => set (s3 := x) in Hst end.
    destruct (maybe_snapshot c s3) as [s4 e4] eqn:E4.
    inversion Hst; subst s' out effs. clear Hst.
    pose proof (append_inv c (st_store s) s _ H (number_dels_seqs live (st_next_seq s))
                  (number_dels_dims c live (st_next_seq s))) as A.
    rewrite E1 in A. cbn [fst] in A. destruct A as (A1 & A2 & A3 & _).
    pose proof (rotate_inv c _ s1 A1) as R. rewrite E2 in R. cbn [fst] in R. destruct R as (R1 & R2 & R3 & _).
    destruct M as (A & B & C & D).
    destruct (remove_all_ok c live (st_store s) A B) as (X & Y & Z).
    assert (M3 : InvM c s3).
    { unfold s3, InvM. cbn [with_since with_store st_store st_slots]. rewrite R2, A2, R3, A3.
      repeat split; try assumption; lia. }
    destruct (write_op_crash c s _ s1 e1 s2 e2 s3 s4 e4 k torn HI (number_dels_seqs live (st_next_seq s))
                (number_dels_dims c live (st_next_seq s)) E1 E2 eq_refl eq_refl eq_refl
                ltac:(unfold s3; cbn [with_since with_store st_store]; rewrite R2, A2, fold_number_dels;
                      reflexivity) M3 E4 Hk) as [W W2].
    destruct k as [|k]; [left; exact W|].
    destruct (Nat.lt_ge_cases (S k) (length live)) as [L|G].
    + exfalso. assert (Hk2 : (2 <= length live)%nat) by lia.
      apply Nat.leb_le in Hk2. apply Nat.ltb_lt in L. rewrite Hk2, L in Hkn. discriminate.
    + right. rewrite firstn_all2 in W by (rewrite number_dels_length; exact G). rewrite W2. exact W.
  - (* update metadata *)
    unfold do_update in Hst.
    destruct (get (st_store s) id) as [d|] eqn:Hg; [|inversion Hst; subst; left; apply Hnil].
    set (upd := if mg then meta_merge (d_meta d) m else meta_canon m) in Hst. clearbody upd.
    rewrite (InvDs_has_manifest _ _ _ H) in Hst. cbn [negb] in Hst.
    destruct (append_entries c s _) as [s1 e1] eqn:E1.
    destruct (rotate_if_needed c s1) as [s2 e2] eqn:E2.
    match type of Hst with context [maybe_snapshot c ?x] => set (s3 := x) in Hst end.
    destruct (maybe_snapshot c s3) as [s4 e4] eqn:E4.
    inversion Hst; subst s' out effs. clear Hst.
    assert (Hdm : dims_ok c [mkEntry Upd id [] upd (st_next_seq s)])
      by (constructor; [intros E; discriminate|constructor]).
    pose proof (append_inv c (st_store s) s [mkEntry Upd id [] upd (st_next_seq s)] H (conj eq_refl I) Hdm) as A.
    rewrite E1 in A. cbn [fst] in A. destruct A as (A1 & A2 & A3 & _).
    pose proof (rotate_inv c _ s1 A1) as R. rewrite E2 in R. cbn [fst] in R. destruct R as (R1 & R2 & R3 & _).
    assert (M3 : InvM c s3).
    { destruct M as (A & B & C & D).
      unfold s3, InvM. cbn [with_since with_store st_store st_slots]. rewrite R2, A2, R3, A3.
      split; [apply sorted_set; exact A|]. split.
      - apply docs_ok_set; [exact B|]. exact (docs_ok_get c _ _ _ B Hg).
      - pose proof (length_set_present (st_store s) id (mkDoc (d_vec d) upd) d A Hg) as L.
        unfold size in *. rewrite L. split; lia. }
    destruct (write_op_crash c s [mkEntry Upd id [] upd (st_next_seq s)] s1 e1 s2 e2 s3 s4 e4 k torn HI
                (conj eq_refl I) Hdm E1 E2 eq_refl eq_refl eq_refl
                ltac:(unfold s3; cbn [with_since with_store st_store fold_left apply_entry e_op e_id e_meta];
                      unfold upd_meta; rewrite R2, A2, Hg; reflexivity) M3 E4 Hk) as [W W2].
    destruct k as [|k]; [left; exact W|right]. cbn [firstn] in W. rewrite firstn_nil in W.
    rewrite W2. exact W.
  - (* manual snapshot *)
    left. destruct M as (A & B & _). pose proof (snapshot_allrec c s H A B) as X.
    rewrite Hst in X. cbn [snd] in X. apply X. exact Hk.
  - (* restart *)
    destruct (recover_inv c s Hwf HI) as (r & ef & E & _).
    rewrite E in Hst. inversion Hst; subst. left.
    exact (recover_allrec c s s' effs Hwf HI E k torn Hk).
Qed.

(* ------------------------------------------------------------------------------------------ *)
(* 7. C01, process-kill model                                                                  *)
(* ------------------------------------------------------------------------------------------ *)

Lemma Inv_mem : forall c s, Inv c s -> docs_ok c (st_store s) /\ size (st_store s) <= c_capacity c.
Proof. intros c s [_ (A & B & C & D)]. split; [exact B|lia]. Qed.

(* crash inside (or right before / right after) one operation *)
Theorem kill_op : forall c s o s' out effs k torn,
  wf_cfg c = true -> norm_ok c -> Inv c s ->
  step c s o = (s', out, effs) -> (k <= length effs)%nat -> known_op s o k = false ->
  exists r, start c (crash_kill (st_disk s) effs k torn) = SOk r /\
            (st_store r = st_store s \/ st_store r = st_store s').
Proof.
  intros c s o s' out effs k torn Hwf Hn HI Hst Hk Hkn.
  assert (HI' : Inv c s').
  { pose proof (step_inv c s o Hwf Hn HI) as X. unfold step_state in X. rewrite Hst in X. exact X. }
  destruct (Inv_mem _ _ HI) as [D1 S1]. destruct (Inv_mem _ _ HI') as [D2 S2].
  destruct (step_crash c s o s' out effs k torn Hwf Hn HI Hst Hk Hkn) as [R|R].
  - destruct (Rec_start c _ _ Hwf R D1 S1) as (r & E & Es). exists r. auto.
  - destruct (Rec_start c _ _ Hwf R D2 S2) as (r & E & Es). exists r. auto.
Qed.

(* crash anywhere in a history run from an invariant state (global effect index) *)
Theorem kill_run : forall c ops s n torn,
  wf_cfg c = true -> norm_ok c -> Inv c s -> known_run c s ops n = false ->
  exists r, start c (cp_dir (crash_run c s ops n torn)) = SOk r /\
            (st_store r = cp_acked (crash_run c s ops n torn) \/
             st_store r = cp_inflight (crash_run c s ops n torn)).
Proof.
  intros c ops. induction ops as [|o rest IH]; intros s n torn Hwf Hn HI Hkn.
  - cbn [crash_run cp_dir cp_acked cp_inflight]. destruct (Inv_mem _ _ HI) as [D1 S1].
    destruct HI as [H _].
    destruct (Rec_start c _ _ Hwf (InvD_Rec _ _ _ _ _ H) D1 S1) as (r & E & Es). exists r. auto.
  - cbn [crash_run known_run] in *. destruct (step c s o) as [[s' out] effs] eqn:Hst.
    destruct (Nat.leb n (length effs)) eqn:Hle.
    + cbn [cp_dir cp_acked cp_inflight]. apply Nat.leb_le in Hle.
      exact (kill_op c s o s' out effs n torn Hwf Hn HI Hst Hle Hkn).
    + apply IH; try assumption.
      pose proof (step_inv c s o Hwf Hn HI) as X. unfold step_state in X. rewrite Hst in X. exact X.
Qed.

(* crash during the very first start-up on the empty directory *)
Lemma kill_init : forall c n torn, wf_cfg c = true -> (n <= length init_effs)%nat ->
  exists r, start c (crash_kill [] init_effs n torn) = SOk r /\ st_store r = empty.
Proof.
  intros c n torn Hwf Hn. cbn in Hn.
  destruct (Nat.le_gt_cases 7 n) as [G|L].
  - assert (E : crash_kill [] init_effs n torn = st_disk (init c)).
    { assert (n = 7 \/ n = 8)%nat as [->| ->] by lia; destruct torn; reflexivity. }
    rewrite E. pose proof (init_inv c Hwf) as HI. destruct (Inv_mem _ _ HI) as [D1 S1]. destruct HI as [H _].
    exact (Rec_start c _ _ Hwf (InvD_Rec _ _ _ _ _ H) D1 S1).
  - assert (n = 0 \/ n = 1 \/ n = 2 \/ n = 3 \/ n = 4 \/ n = 5 \/ n = 6)%nat
      as [->|[->|[->|[->|[->|[->| ->]]]]]] by lia;
      destruct torn; (eexists; split; [vm_compute; reflexivity|reflexivity]).
Qed.

Theorem kill_hist : forall c ops n torn,
  wf_cfg c = true -> norm_ok c -> known_c01 c ops n = false ->
  exists r, start c (cp_dir (crash_hist c ops n torn)) = SOk r /\
            (st_store r = cp_acked (crash_hist c ops n torn) \/
             st_store r = cp_inflight (crash_hist c ops n torn)).
Proof.
  intros c ops n torn Hwf Hn Hkn. unfold crash_hist, known_c01 in *.
  destruct (Nat.leb n (length init_effs)) eqn:Hle.
  - cbn [cp_dir cp_acked cp_inflight]. apply Nat.leb_le in Hle.
    destruct (kill_init c n torn Hwf Hle) as (r & E & Es). exists r. auto.
  - apply kill_run; try assumption. apply init_inv. exact Hwf.
Qed.

(* a crash at any prefix of start-up's own effects leaves a directory on which start-up yields the
   same collection *)
Theorem restart_idem : forall c ops k torn s' effs,
  wf_cfg c = true -> norm_ok c ->
  recover_full c Strict (st_disk (run c ops)) = Ok (s', effs) -> (k <= length effs)%nat ->
  exists r, start c (crash_kill (st_disk (run c ops)) effs k torn) = SOk r /\
            st_store r = st_store (run c ops) /\ st_store s' = st_store (run c ops).
Proof.
  intros c ops k torn s' effs Hwf Hn E Hk.
  pose proof (run_inv c ops Hwf Hn) as HI.
  destruct (Inv_mem _ _ HI) as [D1 S1].
  pose proof (recover_allrec c _ s' effs Hwf HI E k torn Hk) as R.
  destruct (Rec_start c _ _ Hwf R D1 S1) as (r & Er & Es). exists r. split; [exact Er|]. split; [exact Es|].
  destruct (recover_inv c _ Hwf HI) as (s2 & e2 & E2 & Es2 & _). rewrite E in E2. inversion E2; subst. exact Es2.
Qed.
