(* Proofs about Model/Crash.v (C01, process-kill model): every prefix of the effect list of every
   operation — and of start-up itself — leaves a directory from which the server's start-up succeeds
   with the collection as of the acknowledged operations, or that plus the in-flight operation. *)
From Coq Require Import List NArith ZArith Bool Lia.
From Kyro Require Import Model.Amap Model.Backend Model.Crash Proofs.AmapProofs Proofs.BackendProofs.
Import ListNotations.
Open Scope N_scope.
Arguments N.add : simpl never.
Arguments N.mul : simpl never.
Arguments N.max : simpl never.
Arguments N.pred : simpl never.
Arguments N.ltb : simpl never.
Arguments N.leb : simpl never.
Arguments N.eqb : simpl never.
Arguments N.of_nat : simpl never.

(* ------------------------------------------------------------------------------------------ *)
(* 1. Recoverable directories                                                                  *)
(* ------------------------------------------------------------------------------------------ *)

(* directory d, whose manifest is m, is read by strict recovery as the collection lst *)
Definition RecM (c : cfg) (lst : store) (d : dir) (m : manifest) : Prop :=
  exists sdocs sseq nx,
    dget d NManifest = Some (FManifest m) /\
    Forall is_wal (m_segments m) /\
    (forall nm, In nm (m_segments m) -> wal_readable d nm) /\
    snap_ok c d m sdocs sseq /\
    Forall (entry_ok c nx) (all_entries d (m_segments m)) /\
    replay_pure sseq sdocs (all_entries d (m_segments m)) = lst.

Definition Rec (c : cfg) (lst : store) (d : dir) : Prop := exists m, RecM c lst d m.

Lemma InvD_RecM : forall c lst d a nx, InvD c lst d a nx ->
  exists m, RecM c lst d m /\ dget d NManifest = Some (FManifest m).
Proof.
  intros c lst d a nx (m & sdocs & sseq & Hm & _ & _ & Hw & Hg & Hs & Hok & _ & Hrp).
  exists m. split; [|exact Hm]. exists sdocs, sseq, nx.
  split; [exact Hm|]. split; [exact Hw|]. split; [|split; [exact Hs|split; [exact Hok|exact Hrp]]].
  intros nm Hin. apply wal_good_readable. apply Hg. exact Hin.
Qed.

Lemma InvD_Rec : forall c lst d a nx, InvD c lst d a nx -> Rec c lst d.
Proof. intros c lst d a nx H. destruct (InvD_RecM _ _ _ _ _ H) as (m & R & _). exists m. exact R. Qed.

Lemma wal_readable_agree : forall d d' x, dget d' x = dget d x -> wal_readable d x -> wal_readable d' x.
Proof. intros d d' x H (es & t & He & Ht). exists es, t. rewrite H. auto. Qed.

Lemma RecM_agree : forall c lst d d' m, RecM c lst d m ->
  dget d' NManifest = dget d NManifest ->
  (forall x, In x (m_segments m) -> dget d' x = dget d x) ->
  (forall x, m_snapshot m = Some x -> dget d' x = dget d x) ->
  RecM c lst d' m.
Proof.
  intros c lst d d' m (sdocs & sseq & nx & Hm & Hw & Hg & Hs & Hok & Hrp) A B C.
  exists sdocs, sseq, nx. rewrite (all_entries_agree d d' _ B).
  split; [rewrite A; exact Hm|]. split; [exact Hw|]. split; [|split; [|split; [exact Hok|exact Hrp]]].
  - intros nm Hin. apply (wal_readable_agree d d'); [apply B; exact Hin|apply Hg; exact Hin].
  - apply (snap_ok_agree c d d'); [exact C|exact Hs].
Qed.

(* start-up on a recoverable directory *)
Lemma Rec_start : forall c lst d, wf_cfg c = true -> Rec c lst d -> docs_ok c lst ->
  size lst <= c_capacity c -> exists s, start c d = SOk s /\ st_store s = lst.
Proof.
  intros c lst d Hwf (m & sdocs & sseq & nx & Hm & Hw & Hg & Hs & Hok & Hrp) Hd Hsz.
  unfold start, has_manifest. rewrite Hm. unfold recover, recover_full.
  rewrite (recover_read_ok c d m sdocs sseq nx Hwf Hm Hs Hg Hok).
  rewrite Hrp, (rebuild_docs_ok c _ Hd).
  rewrite size_le_cap_ltb by lia. rewrite (accepts_all_ok c _ Hd). cbn [negb].
  eexists. split; reflexivity.
Qed.

(* ------------------------------------------------------------------------------------------ *)
(* 2. crash_kill algebra                                                                       *)
(* ------------------------------------------------------------------------------------------ *)

Lemma crash_app_lt : forall d e1 e2 k torn, (k < length e1)%nat ->
  crash_kill d (e1 ++ e2) k torn = crash_kill d e1 k torn.
Proof.
  intros d e1 e2 k torn H. unfold crash_kill.
  rewrite firstn_app. replace (k - length e1)%nat with 0%nat by lia. cbn [firstn]. rewrite app_nil_r.
  rewrite nth_error_app1 by exact H. reflexivity.
Qed.

Lemma crash_app_ge : forall d e1 e2 j torn,
  crash_kill d (e1 ++ e2) (length e1 + j) torn = crash_kill (apply_effs d e1) e2 j torn.
Proof.
  intros d e1 e2 j torn. unfold crash_kill.
  rewrite firstn_app_2, apply_effs_app. rewrite nth_error_app2 by lia.
  replace (length e1 + j - length e1)%nat with j by lia. reflexivity.
Qed.

Lemma crash_nil : forall d k torn, crash_kill d [] k torn = d.
Proof. intros d k torn. unfold crash_kill. rewrite firstn_nil. destruct torn; [destruct k|]; reflexivity. Qed.

Lemma crash_all : forall d effs k torn, (length effs <= k)%nat -> crash_kill d effs k torn = apply_effs d effs.
Proof.
  intros d effs k torn H. unfold crash_kill. rewrite firstn_all2 by exact H.
  destruct torn; [|reflexivity]. destruct (nth_error effs k) eqn:E; [|reflexivity].
  apply nth_error_Some in H. - contradiction. - rewrite E. discriminate.
Qed.

Definition AllRec (c : cfg) (lst : store) (d : dir) (effs : list eff) : Prop :=
  forall k torn, (k <= length effs)%nat -> Rec c lst (crash_kill d effs k torn).

Lemma AllRec_app : forall c lst d e1 e2,
  AllRec c lst d e1 -> AllRec c lst (apply_effs d e1) e2 -> AllRec c lst d (e1 ++ e2).
Proof.
  intros c lst d e1 e2 A B k torn Hk. rewrite app_length in Hk.
  destruct (Nat.lt_ge_cases k (length e1)) as [L|G].
  - rewrite crash_app_lt by exact L. apply A. lia.
  - replace k with (length e1 + (k - length e1))%nat by lia. rewrite crash_app_ge. apply B. lia.
Qed.

Lemma AllRec_nil : forall c lst d, Rec c lst d -> AllRec c lst d [].
Proof. intros c lst d H k torn _. rewrite crash_nil. exact H. Qed.

Lemma AllRec_end : forall c lst d effs, AllRec c lst d effs -> Rec c lst (apply_effs d effs).
Proof. intros c lst d effs H. rewrite <- (crash_all d effs (length effs) false) by lia. apply H. lia. Qed.

(* names an effect can modify *)
Definition touches (e : eff) : list name :=
  match e with
  | ECreate f _ | EAppend f _ | ETrunc f _ | EWriteFile f _ | EUnlink f => [f]
  | ERename a b => [a; b]
  | EFsync _ | EFsyncData _ | EFsyncDir => []
  end.

Lemma apply_eff_other : forall d e x, ~ In x (touches e) -> dget (apply_eff d e) x = dget d x.
Proof.
  intros d e x H. destruct e as [f tr|f b|f n|f|f|a b|f| |f co]; cbn [touches] in H; cbn [apply_eff];
    try reflexivity.
  - assert (x <> f) by (intro; apply H; left; congruence).
    destruct (dget d f); [destruct tr|]; dsimp; reflexivity.
  - assert (x <> f) by (intro; apply H; left; congruence).
    destruct (dget d f) as [[| frs [| |] | | |]|]; destruct b; dsimp; reflexivity.
  - assert (x <> f) by (intro; apply H; left; congruence).
    destruct (dget d f) as [[| frs t | | |]|]; dsimp; reflexivity.
  - assert (x <> a) by (intro; apply H; left; congruence).
    assert (x <> b) by (intro; apply H; right; left; congruence).
    destruct (dget d a); dsimp; reflexivity.
  - assert (x <> f) by (intro; apply H; left; congruence). dsimp. reflexivity.
  - assert (x <> f) by (intro; apply H; left; congruence). dsimp. reflexivity.
Qed.

Lemma torn_eff_other : forall d e x, ~ In x (touches e) -> dget (torn_eff d e) x = dget d x.
Proof.
  intros d e x H. destruct e as [f tr|f b|f n|f|f|a b|f| |f co]; cbn [touches] in H; cbn [torn_eff];
    try reflexivity.
  - assert (x <> f) by (intro; apply H; left; congruence).
    destruct b; [reflexivity|]. destruct (dget d f) as [[| frs [| |] | | |]|]; dsimp; reflexivity.
  - assert (x <> f) by (intro; apply H; left; congruence). destruct (dget d f); dsimp; reflexivity.
Qed.

Lemma apply_effs_other : forall effs d x, (forall e, In e effs -> ~ In x (touches e)) ->
  dget (apply_effs d effs) x = dget d x.
Proof.
  induction effs as [|e r IH]; intros d x H; [reflexivity|].
  change (apply_effs d (e :: r)) with (apply_effs (apply_eff d e) r).
  rewrite IH by (intros e' He'; apply H; right; exact He').
  apply apply_eff_other. apply H. left. reflexivity.
Qed.

Lemma crash_other : forall effs d k torn x, (forall e, In e effs -> ~ In x (touches e)) ->
  dget (crash_kill d effs k torn) x = dget d x.
Proof.
  intros effs d k torn x H. unfold crash_kill.
  assert (A : dget (apply_effs d (firstn k effs)) x = dget d x).
  { apply apply_effs_other. intros e He. apply H. eapply firstn_In. exact He. }
  destruct torn; [|exact A]. destruct (nth_error effs k) as [e|] eqn:E; [|exact A].
  rewrite torn_eff_other; [exact A|]. apply H. eapply nth_error_In. exact E.
Qed.

(* a block of effects that touches nothing the manifest references *)
Lemma AllRec_untouched : forall c lst d m effs, RecM c lst d m ->
  (forall e x, In e effs -> In x (touches e) ->
     x <> NManifest /\ ~ In x (m_segments m) /\ m_snapshot m <> Some x) ->
  forall k torn, RecM c lst (crash_kill d effs k torn) m.
Proof.
  intros c lst d m effs R H k torn. apply (RecM_agree c lst d _ m R).
  - apply crash_other. intros e He Hin. destruct (H e _ He Hin) as (A & _). congruence.
  - intros x Hx. apply crash_other. intros e He Hin. destruct (H e _ He Hin) as (_ & B & _). contradiction.
  - intros x Hx. apply crash_other. intros e He Hin. destruct (H e _ He Hin) as (_ & _ & C). contradiction.
Qed.

Lemma RecM_refs : forall c lst d m, RecM c lst d m ->
  (forall x, In x (m_segments m) -> is_wal x /\ dget d x <> None) /\
  (forall x, m_snapshot m = Some x -> (exists k, x = NSnap k) /\ dget d x <> None) /\
  dget d NManifest <> None.
Proof.
  intros c lst d m (sdocs & sseq & nx & Hm & Hw & Hg & [_ Hs] & _). repeat split.
  - rewrite Forall_forall in Hw. apply Hw. exact H.
  - destruct (Hg x H) as (es & t & He & _). rewrite He. discriminate.
  - rewrite H in Hs. destruct Hs as (k & sn & E & _). exists k. exact E.
  - rewrite H in Hs. destruct Hs as (k & sn & E & Hf & _). rewrite Hf. discriminate.
  - rewrite Hm. discriminate.
Qed.

(* effects on names that do not exist yet, or on temp files *)
Lemma AllRec_fresh : forall c lst d effs, Rec c lst d ->
  (forall e x, In e effs -> In x (touches e) ->
     x = NManifestTmp \/ (exists k, x = NSnapTmp k) \/ dget d x = None) ->
  AllRec c lst d effs.
Proof.
  intros c lst d effs [m R] H k torn _. exists m. apply AllRec_untouched; [exact R|].
  intros e x He Hx. destruct (RecM_refs _ _ _ _ R) as (A & B & C).
  destruct (H e x He Hx) as [->|[[j ->]|Hn]].
  - split; [discriminate|]. split.
    + intro Hin. destruct (A _ Hin) as [[j E] _]. discriminate.
    + intro E. destruct (B _ E) as [[j E'] _]. discriminate.
  - split; [discriminate|]. split.
    + intro Hin. destruct (A _ Hin) as [[i E] _]. discriminate.
    + intro E. destruct (B _ E) as [[i E'] _]. discriminate.
  - split; [intro; subst; contradiction|]. split.
    + intro Hin. destruct (A _ Hin) as [_ N]. contradiction.
    + intro E. destruct (B _ E) as [_ N]. contradiction.
Qed.

Lemma AllRec_new_wal : forall c lst d f, Rec c lst d -> dget d f = None -> AllRec c lst d (new_wal_effs f).
Proof.
  intros c lst d f R Hf. apply AllRec_fresh; [exact R|]. intros e x He Hx. right. right.
  unfold new_wal_effs in He. destruct He as [<-|[<-|[<-|[]]]]; cbn in Hx; try contradiction;
    destruct Hx as [<-|[]]; exact Hf.
Qed.

Lemma AllRec_save_snapshot : forall c lst d k sn, Rec c lst d -> dget d (NSnap k) = None ->
  AllRec c lst d (save_snapshot_effs k sn).
Proof.
  intros c lst d k sn R Hf. apply AllRec_fresh; [exact R|]. intros e x He Hx.
  unfold save_snapshot_effs in He.
  destruct He as [<-|[<-|[<-|[<-|[<-|[]]]]]]; cbn in Hx; try contradiction.
  - destruct Hx as [<-|[]]. right. left. eexists. reflexivity.
  - destruct Hx as [<-|[]]. right. left. eexists. reflexivity.
  - destruct Hx as [<-|[<-|[]]]; [right; left; eexists; reflexivity|right; right; exact Hf].
Qed.

(* Manifest::save: the first three effects only touch MANIFEST.tmp; the rename publishes m' at once *)
Lemma AllRec_save_manifest : forall c lst d m', Rec c lst d ->
  Rec c lst (apply_effs d (save_manifest_effs m')) -> AllRec c lst d (save_manifest_effs m').
Proof.
  intros c lst d m' R R' k torn Hk.
  destruct (Nat.le_gt_cases 4 k) as [G|L].
  - (* rename done: the directory is the final one (the directory fsync changes nothing) *)
    assert (E : crash_kill d (save_manifest_effs m') k torn = apply_effs d (save_manifest_effs m')).
    { cbn [length save_manifest_effs] in Hk.
      assert (k = 4 \/ k = 5)%nat as [->| ->] by lia; destruct torn; reflexivity. }
    rewrite E. exact R'.
  - replace (crash_kill d (save_manifest_effs m') k torn)
      with (crash_kill d (firstn 3 (save_manifest_effs m')) k torn).
    + apply AllRec_fresh; [exact R| |cbn; lia].
      intros e x He Hx. left. cbn in He. destruct He as [<-|[<-|[<-|[]]]]; cbn in Hx; try contradiction;
        destruct Hx as [<-|[]]; reflexivity.
    + assert (k = 0 \/ k = 1 \/ k = 2 \/ k = 3)%nat as [->|[->|[->| ->]]] by lia; destruct torn; reflexivity.
Qed.
