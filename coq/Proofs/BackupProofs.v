(* Proofs about Model/Backup.v (property C12). *)
From Coq Require Import List NArith Bool Lia Sorted Permutation PeanoNat.
From Kyro Require Import Model.Backup.
Import ListNotations.
Open Scope N_scope.

(* ------------------------------------------------------------------------------------------ *)
(* names and lookups                                                                           *)
(* ------------------------------------------------------------------------------------------ *)
Lemma fname_eqb_eq : forall a b, fname_eqb a b = true <-> a = b.
Proof.
  intros a b; destruct a, b; cbn; split; intro H; try congruence; try discriminate;
    try (apply N.eqb_eq in H; congruence); try (inversion H; apply N.eqb_refl).
Qed.

Lemma fname_eqb_refl : forall a, fname_eqb a a = true.
Proof. intro a; apply fname_eqb_eq; reflexivity. Qed.

Lemma fname_eqb_neq : forall a b, fname_eqb a b = false <-> a <> b.
Proof.
  intros a b; split; intro H.
  - intro E; subst; rewrite fname_eqb_refl in H; discriminate.
  - destruct (fname_eqb a b) eqn:E; auto. apply fname_eqb_eq in E; contradiction.
Qed.

Lemma fname_eqb_sym : forall a b, fname_eqb a b = fname_eqb b a.
Proof.
  intros a b; destruct (fname_eqb a b) eqn:E.
  - apply fname_eqb_eq in E; subst; symmetry; apply fname_eqb_refl.
  - symmetry; apply fname_eqb_neq; apply fname_eqb_neq in E; congruence.
Qed.

Lemma tget_tput_same : forall t n c, tget (tput t n c) n = Some c.
Proof.
  induction t as [|[k v] r IH]; intros n c; cbn.
  - rewrite fname_eqb_refl; reflexivity.
  - destruct (fname_eqb k n) eqn:E; cbn; rewrite E; auto.
Qed.

Lemma tget_tput_other : forall t n c n', n <> n' -> tget (tput t n c) n' = tget t n'.
Proof.
  induction t as [|[k v] r IH]; intros n c n' NE; cbn.
  - apply fname_eqb_neq in NE; rewrite NE; reflexivity.
  - destruct (fname_eqb k n) eqn:E; cbn.
    + apply fname_eqb_eq in E; subst k. apply fname_eqb_neq in NE; rewrite NE; reflexivity.
    + destruct (fname_eqb k n'); auto.
Qed.

Lemma tget_strip : forall d n, tget (strip d) n = option_map fst (sget d n).
Proof.
  induction d as [|[k [c mt]] r IH]; intros n; cbn; auto.
  destruct (fname_eqb k n); cbn; auto.
Qed.

Lemma tget_in : forall t n c, tget t n = Some c -> In (n, c) t.
Proof.
  induction t as [|[k v] r IH]; intros n c H; cbn in *; try discriminate.
  destruct (fname_eqb k n) eqn:E.
  - apply fname_eqb_eq in E; inversion H; subst; auto.
  - right; auto.
Qed.

Lemma in_tget_nodup : forall t n c, NoDup (map fst t) -> In (n, c) t -> tget t n = Some c.
Proof.
  induction t as [|[k v] r IH]; intros n c ND HI; cbn in *; [contradiction|].
  inversion ND as [|? ? NI ND']; subst.
  destruct HI as [E|HI].
  - inversion E; subst; rewrite fname_eqb_refl; reflexivity.
  - destruct (fname_eqb k n) eqn:E.
    + apply fname_eqb_eq in E; subst k. exfalso; apply NI. apply in_map_iff; exists (n, c); auto.
    + auto.
Qed.

Lemma sget_in : forall d n x, sget d n = Some x -> In (n, x) d.
Proof.
  induction d as [|[k v] r IH]; intros n x H; cbn in *; try discriminate.
  destruct (fname_eqb k n) eqn:E.
  - apply fname_eqb_eq in E; inversion H; subst; auto.
  - right; auto.
Qed.

Lemma in_sget_nodup : forall d n x, NoDup (map fst d) -> In (n, x) d -> sget d n = Some x.
Proof.
  induction d as [|[k v] r IH]; intros n x ND HI; cbn in *; [contradiction|].
  inversion ND as [|? ? NI ND']; subst.
  destruct HI as [E|HI].
  - inversion E; subst; rewrite fname_eqb_refl; reflexivity.
  - destruct (fname_eqb k n) eqn:E.
    + apply fname_eqb_eq in E; subst k. exfalso; apply NI. apply in_map_iff; exists (n, x); auto.
    + auto.
Qed.

(* writing a list of members: the last member of a name decides; untouched names keep their file *)
Definition put_all (t : tdir) (files : tdir) : tdir :=
  fold_left (fun acc e => tput acc (fst e) (snd e)) files t.

Lemma put_all_untouched : forall files t n,
  (forall c, ~ In (n, c) files) -> tget (put_all t files) n = tget t n.
Proof.
  induction files as [|[k v] r IH]; intros t n H; cbn; auto.
  unfold put_all in *; cbn. rewrite IH.
  - apply tget_tput_other. intro E; subst. apply (H v); left; reflexivity.
  - intros c HI; apply (H c); right; exact HI.
Qed.

Lemma content_eq_dec : forall a b : content, {a = b} + {a <> b}.
Proof.
  assert (HN : forall x y : N, {x = y} + {x <> y}) by apply N.eq_dec.
  assert (HO : forall x y : option N, {x = y} + {x <> y}) by (decide equality).
  assert (HL : forall x y : list N, {x = y} + {x <> y}) by (apply list_eq_dec; exact HN).
  assert (HM : forall x y : manifest, {x = y} + {x <> y}) by (decide equality).
  decide equality.
Qed.

Lemma content_eq_dec_opt : forall a b : option content, {a = b} + {a <> b}.
Proof. decide equality; apply content_eq_dec. Qed.

Lemma fname_eq_dec : forall a b : fname, {a = b} + {a <> b}.
Proof. decide equality; apply N.eq_dec. Qed.

Lemma member_dec : forall (n : fname) (r : tdir), (exists c, In (n, c) r) \/ (forall c, ~ In (n, c) r).
Proof.
  intros n r; induction r as [|[k v] r IH].
  - right; intros c H; exact H.
  - destruct (fname_eq_dec k n) as [E|NE].
    + left; exists v; left; subst; reflexivity.
    + destruct IH as [[c H]|H].
      * left; exists c; right; exact H.
      * right; intros c [E|HI]; [inversion E; congruence | exact (H c HI)].
Qed.

Lemma put_all_written : forall files t n c,
  In (n, c) files -> (forall c', In (n, c') files -> c' = c) -> tget (put_all t files) n = Some c.
Proof.
  induction files as [|[k v] r IH]; intros t n c HI HU; [contradiction|].
  unfold put_all in *; cbn.
  destruct (member_dec n r) as [[c' HR]|HR].
  - assert (c' = c) by (apply HU; right; exact HR); subst c'.
    apply IH; auto. intros c2 H2; apply HU; right; exact H2.
  - fold (put_all (tput t k v) r). rewrite put_all_untouched by exact HR.
    destruct HI as [E|HI]; [|exfalso; exact (HR c HI)].
    inversion E; subst. apply tget_tput_same.
Qed.

Lemma tput_fresh : forall t n c, ~ In n (map fst t) -> tput t n c = t ++ [(n, c)].
Proof.
  induction t as [|[k v] r IH]; intros n c H; cbn in *; auto.
  destruct (fname_eqb k n) eqn:E.
  - apply fname_eqb_eq in E; subst; exfalso; apply H; left; reflexivity.
  - f_equal; apply IH; intro HI; apply H; right; exact HI.
Qed.

Lemma put_all_nodup : forall files t,
  NoDup (map fst (t ++ files)) -> put_all t files = t ++ files.
Proof.
  induction files as [|[k v] r IH]; intros t ND; cbn.
  - rewrite app_nil_r; reflexivity.
  - unfold put_all in *; cbn.
    assert (NI : ~ In k (map fst t)).
    { rewrite map_app in ND. cbn in ND. apply NoDup_remove_2 in ND. intro HI; apply ND.
      apply in_or_app; left; exact HI. }
    rewrite tput_fresh by exact NI.
    rewrite IH; rewrite <- app_assoc; cbn; auto.
Qed.

(* ------------------------------------------------------------------------------------------ *)
(* refusals leave the target untouched                                                         *)
(* ------------------------------------------------------------------------------------------ *)
Lemma restore_chain_err_unchanged : forall ch t o e t',
  restore_chain ch t o = (Some e, t') -> t' = t.
Proof.
  intros ch t o e t'; unfold restore_chain.
  destruct (negb (forallb b_ok ch)); [intro H; inversion H; reflexivity|].
  destruct (clear_target t o) as [t1|e1]; [|intro H; inversion H; reflexivity].
  destruct (o_dry o); intro H; inversion H.
Qed.

Lemma restore_by_id_err_unchanged : forall st t id o e t',
  restore_by_id st t id o = (Some e, t') -> t' = t.
Proof.
  intros st t id o e t'; unfold restore_by_id.
  destruct (build_chain st id) as [ch|e1]; [apply restore_chain_err_unchanged|].
  intro H; inversion H; reflexivity.
Qed.

Lemma restore_pitr_err_unchanged : forall st t ts o e t',
  restore_pitr st t ts o = (Some e, t') -> t' = t.
Proof.
  intros st t ts o e t'; unfold restore_pitr.
  destruct (pitr_chain st ts) as [ch|e1]; [apply restore_chain_err_unchanged|].
  intro H; inversion H; reflexivity.
Qed.

Lemma forallb_false_of_in : forall (ch : list backup) b, In b ch -> b_ok b = false -> forallb b_ok ch = false.
Proof.
  induction ch as [|x r IH]; intros b HI HB; [contradiction|]; cbn.
  destruct HI as [E|HI]; [subst; rewrite HB; reflexivity|].
  rewrite (IH b HI HB); apply andb_false_r.
Qed.

Lemma tamper_chain : forall ch t o b, In b ch -> b_ok b = false -> restore_chain ch t o = (Some EVerify, t).
Proof.
  intros ch t o b HI HB; unfold restore_chain. rewrite (forallb_false_of_in ch b HI HB); reflexivity.
Qed.

Theorem tamper_rejected_before_clear : forall st t id o ch b,
  build_chain st id = Ok ch -> In b ch -> b_ok b = false ->
  restore_by_id st t id o = (Some EVerify, t).
Proof.
  intros st t id o ch b HC HI HB; unfold restore_by_id; rewrite HC. eapply tamper_chain; eauto.
Qed.

Theorem tamper_rejected_before_clear_pitr : forall st t ts o ch b,
  pitr_chain st ts = Ok ch -> In b ch -> b_ok b = false ->
  restore_pitr st t ts o = (Some EVerify, t).
Proof.
  intros st t ts o ch b HC HI HB; unfold restore_pitr; rewrite HC. eapply tamper_chain; eauto.
Qed.

Lemma restore_chain_no_confirm : forall ch t o r t',
  t <> [] -> o_allow o = false -> o_env o = false ->
  restore_chain ch t o = (r, t') -> t' = t /\ r <> None.
Proof.
  intros ch t o r t' NE HA HE; unfold restore_chain.
  destruct (negb (forallb b_ok ch)); [intro H; inversion H; split; [reflexivity|discriminate]|].
  unfold clear_target. destruct t as [|x t0]; [contradiction|]. rewrite HA, HE; cbn.
  intro H; inversion H; split; [reflexivity|discriminate].
Qed.

Lemma restore_chain_dry : forall ch t o r t', o_dry o = true -> restore_chain ch t o = (r, t') -> t' = t.
Proof.
  intros ch t o r t' HD; unfold restore_chain.
  destruct (negb (forallb b_ok ch)); [intro H; inversion H; reflexivity|].
  unfold clear_target. destruct t as [|x t0].
  - rewrite HD; intro H; inversion H; reflexivity.
  - destruct (negb (o_allow o) && negb (o_env o)); [intro H; inversion H; reflexivity|].
    rewrite HD; intro H; inversion H; reflexivity.
Qed.

Theorem no_clear_without_confirmation : forall st t o,
  t <> [] -> o_allow o = false -> o_env o = false ->
  (forall id r t', restore_by_id st t id o = (r, t') -> t' = t /\ r <> None) /\
  (forall ts r t', restore_pitr st t ts o = (r, t') -> t' = t /\ r <> None).
Proof.
  intros st t o NE HA HE; split.
  - intros id r t'; unfold restore_by_id. destruct (build_chain st id) as [ch|e].
    + apply restore_chain_no_confirm; auto.
    + intro H; inversion H; split; [reflexivity|discriminate].
  - intros ts r t'; unfold restore_pitr. destruct (pitr_chain st ts) as [ch|e].
    + apply restore_chain_no_confirm; auto.
    + intro H; inversion H; split; [reflexivity|discriminate].
Qed.

Theorem dry_run_never_modifies : forall st t o,
  o_dry o = true ->
  (forall id r t', restore_by_id st t id o = (r, t') -> t' = t) /\
  (forall ts r t', restore_pitr st t ts o = (r, t') -> t' = t).
Proof.
  intros st t o HD; split.
  - intros id r t'; unfold restore_by_id. destruct (build_chain st id) as [ch|e].
    + apply restore_chain_dry; auto.
    + intro H; inversion H; reflexivity.
  - intros ts r t'; unfold restore_pitr. destruct (pitr_chain st ts) as [ch|e].
    + apply restore_chain_dry; auto.
    + intro H; inversion H; reflexivity.
Qed.

(* ------------------------------------------------------------------------------------------ *)
(* prune: result is a duplicate-free subset of the input                                       *)
(* ------------------------------------------------------------------------------------------ *)
Lemma NoDup_map_filter : forall {A B} (f : A -> B) (p : A -> bool) (l : list A),
  NoDup (map f l) -> NoDup (map f (filter p l)).
Proof.
  induction l as [|x r IH]; intros ND; cbn in *; [constructor|].
  inversion ND as [|? ? NI ND']; subst.
  destruct (p x); cbn; auto.
  constructor; auto. intro HI; apply NI.
  apply in_map_iff in HI; destruct HI as [y [E HY]]. apply filter_In in HY.
  apply in_map_iff; exists y; tauto.
Qed.

Theorem prune_deleted_subset : forall now p l,
  incl (prune_deleted now p l) (map b_id l) /\
  (NoDup (map b_id l) -> NoDup (prune_deleted now p l)).
Proof.
  intros now p l; unfold prune_deleted; split.
  - intros x HI. apply in_map_iff in HI; destruct HI as [b [E HB]]. apply filter_In in HB.
    apply in_map_iff; exists b; tauto.
  - apply NoDup_map_filter.
Qed.

Theorem prune_store_subset : forall now p st,
  incl (prune_store now p st) st /\
  (NoDup (map b_id st) -> NoDup (map b_id (prune_store now p st))) /\
  (forall b, In b (prune_store now p st) -> ~ In (b_id b) (prune_deleted now p (list_backups st))).
Proof.
  intros now p st; unfold prune_store; repeat split.
  - intros x HI; apply filter_In in HI; tauto.
  - apply NoDup_map_filter.
  - intros b HI HD. apply filter_In in HI; destruct HI as [_ HN].
    assert (HM : memN (b_id b) (prune_deleted now p (list_backups st)) = true).
    { clear HN. induction (prune_deleted now p (list_backups st)) as [|y r IH]; [contradiction|]; cbn.
      destruct HD as [E|HD]; [subst; rewrite N.eqb_refl; reflexivity|]. rewrite (IH HD); apply orb_true_r. }
    rewrite HM in HN; discriminate.
Qed.

(* ------------------------------------------------------------------------------------------ *)
(* only id / parent / kind / archive / verification (and timestamp for PITR) matter            *)
(* ------------------------------------------------------------------------------------------ *)
Definition core (b : backup) := (b_id b, b_parent b, b_kind b, b_files b, b_ok b).
Definition same_core (b b' : backup) : Prop := core b = core b'.
Definition same_core_ts (b b' : backup) : Prop := core b = core b' /\ b_ts b = b_ts b'.

Definition opt_rel {A} (R : A -> A -> Prop) (x y : option A) : Prop :=
  match x, y with Some a, Some b => R a b | None, None => True | _, _ => False end.

Definition res_rel (R : backup -> backup -> Prop) (r r' : res (list backup)) : Prop :=
  match r, r' with Ok c, Ok c' => Forall2 R c c' | Err e, Err e' => e = e' | _, _ => False end.

Lemma sc_fields : forall b b', same_core b b' ->
  b_id b = b_id b' /\ b_parent b = b_parent b' /\ b_kind b = b_kind b' /\ b_files b = b_files b' /\ b_ok b = b_ok b'.
Proof. intros b b' H; unfold same_core, core in H; inversion H; auto. Qed.

Lemma find_rel : forall {A} (R : A -> A -> Prop) (p p' : A -> bool) l l',
  Forall2 R l l' -> (forall x x', R x x' -> p x = p' x') -> opt_rel R (find p l) (find p' l').
Proof.
  intros A R p p' l l' HF HP; induction HF as [|x x' r r' HR HF IH]; cbn; auto.
  rewrite (HP x x' HR). destruct (p' x'); cbn; auto.
Qed.

Lemma find_b_is_find : forall st id, find_b st id = find (fun b => b_id b =? id) st.
Proof. induction st as [|b r IH]; intros id; cbn; auto. destruct (b_id b =? id); auto. Qed.

Lemma find_b_rel : forall st st' id, Forall2 same_core st st' -> opt_rel same_core (find_b st id) (find_b st' id).
Proof.
  intros st st' id HF; rewrite !find_b_is_find. apply find_rel; auto.
  intros x x' HR; apply sc_fields in HR; destruct HR as [E _]; rewrite E; reflexivity.
Qed.

Lemma is_full_rel : forall b b', same_core b b' -> is_full b = is_full b'.
Proof. intros b b' H; apply sc_fields in H; unfold is_full; destruct H as (_ & _ & E & _); rewrite E; reflexivity. Qed.

Lemma Forall2_len : forall {A B} (R : A -> B -> Prop) l l', Forall2 R l l' -> length l = length l'.
Proof. intros A B R l l' H; induction H; cbn; auto. Qed.

Lemma chain_up_rel : forall fuel st st' cur cur' acc acc',
  Forall2 same_core st st' -> same_core cur cur' -> Forall2 same_core acc acc' ->
  res_rel same_core (chain_up fuel st cur acc) (chain_up fuel st' cur' acc').
Proof.
  induction fuel as [|f IH]; intros st st' cur cur' acc acc' HS HC HA.
  - cbn. destruct (sc_fields _ _ HC) as (_ & EP & _). rewrite <- EP.
    destruct (b_parent cur); cbn; auto.
  - cbn. destruct (sc_fields _ _ HC) as (_ & EP & _). rewrite <- EP.
    destruct (b_parent cur) as [pid|]; cbn; auto.
    pose proof (find_b_rel st st' pid HS) as HF.
    destruct (find_b st pid) as [p|], (find_b st' pid) as [p'|]; cbn in HF; try contradiction; cbn; auto.
    rewrite <- (is_full_rel p p' HF). destruct (is_full p); cbn.
    + constructor; auto.
    + apply IH; auto.
Qed.

Lemma build_chain_rel : forall st st' id, Forall2 same_core st st' ->
  res_rel same_core (build_chain st id) (build_chain st' id).
Proof.
  intros st st' id HS; unfold build_chain.
  pose proof (find_b_rel st st' id HS) as HF.
  destruct (find_b st id) as [b|], (find_b st' id) as [b'|]; cbn in HF; try contradiction; cbn; auto.
  rewrite <- (is_full_rel b b' HF). destruct (is_full b); cbn; [constructor; auto|].
  rewrite <- (Forall2_len _ _ _ HS).
  pose proof (chain_up_rel (length st) st st' b b' [b] [b'] HS HF (Forall2_cons _ _ HF (Forall2_nil _))) as HC.
  destruct (chain_up (length st) st b [b]) as [c|e], (chain_up (length st) st' b' [b']) as [c'|e'];
    cbn in HC; try contradiction; cbn; auto.
  destruct HC as [|h h' r r' HH HR]; cbn; auto.
  rewrite <- (is_full_rel h h' HH). destruct (is_full h); cbn; auto.
Qed.

Lemma restore_chain_rel : forall ch ch' t o, Forall2 same_core ch ch' -> restore_chain ch t o = restore_chain ch' t o.
Proof.
  intros ch ch' t o HF; unfold restore_chain.
  assert (E1 : forallb b_ok ch = forallb b_ok ch').
  { induction HF as [|x x' r r' HR HF IH]; cbn; auto.
    destruct (sc_fields _ _ HR) as (_ & _ & _ & _ & E); rewrite E, IH; reflexivity. }
  assert (E2 : forall t0, extract_chain t0 ch = extract_chain t0 ch').
  { clear E1. induction HF as [|x x' r r' HR HF IH]; intros t0; [reflexivity|].
    unfold extract_chain in *; cbn [fold_left].
    replace (extract t0 x') with (extract t0 x); [apply IH|].
    unfold extract. destruct (sc_fields _ _ HR) as (_ & _ & _ & E & _). rewrite E; reflexivity. }
  rewrite E1. destruct (negb (forallb b_ok ch')); auto.
  destruct (clear_target t o); auto. rewrite E2; reflexivity.
Qed.

Theorem metadata_irrelevant_by_id : forall st st' t id o,
  Forall2 same_core st st' -> restore_by_id st t id o = restore_by_id st' t id o.
Proof.
  intros st st' t id o HS; unfold restore_by_id.
  pose proof (build_chain_rel st st' id HS) as HC.
  destruct (build_chain st id) as [c|e], (build_chain st' id) as [c'|e']; cbn in HC; try contradiction.
  - apply restore_chain_rel; auto.
  - subst; reflexivity.
Qed.

Lemma sct_sc : forall b b', same_core_ts b b' -> same_core b b'.
Proof. intros b b' [H _]; exact H. Qed.

Lemma ins_desc_rel : forall x x' l l', same_core_ts x x' -> Forall2 same_core_ts l l' ->
  Forall2 same_core_ts (ins_desc x l) (ins_desc x' l').
Proof.
  intros x x' l l' HX HF; induction HF as [|y y' r r' HY HF IH]; cbn.
  - constructor; auto.
  - destruct HX as [HXc HXt], HY as [HYc HYt]. rewrite <- HXt, <- HYt.
    destruct (b_ts y <=? b_ts x).
    + constructor; [split; auto|]. constructor; [split; auto|auto].
    + constructor; [split; auto|]. apply IH.
Qed.

Lemma list_backups_rel : forall st st', Forall2 same_core_ts st st' ->
  Forall2 same_core_ts (list_backups st) (list_backups st').
Proof.
  intros st st' HF; unfold list_backups; induction HF as [|x x' r r' HX HF IH]; cbn; [constructor|].
  apply ins_desc_rel; auto.
Qed.

Lemma pitr_incr_rel : forall fuel l l' target cur, Forall2 same_core_ts l l' ->
  Forall2 same_core_ts (pitr_incrementals fuel l target cur) (pitr_incrementals fuel l' target cur).
Proof.
  induction fuel as [|f IH]; intros l l' target cur HF; cbn; [constructor|].
  pose proof (find_rel same_core_ts
    (fun b => optN_eqb (b_parent b) (Some cur) && (b_ts b <=? target) && bkind_eqb (b_kind b) Incremental)
    (fun b => optN_eqb (b_parent b) (Some cur) && (b_ts b <=? target) && bkind_eqb (b_kind b) Incremental)
    l l' HF) as HR.
  match type of HR with ?P -> _ => assert (HP : P) end.
  { intros x x' [HC HT]. destruct (sc_fields _ _ HC) as (_ & EP & EK & _). rewrite EP, EK, HT; reflexivity. }
  specialize (HR HP).
  destruct (find _ l) as [b|], (find _ l') as [b'|]; cbn in HR; try contradiction; [|constructor].
  constructor; auto.
  destruct HR as [HC _]. destruct (sc_fields _ _ HC) as (EI & _). rewrite <- EI. apply IH; auto.
Qed.

Lemma Forall2_sct_sc : forall l l', Forall2 same_core_ts l l' -> Forall2 same_core l l'.
Proof. intros l l' HF; induction HF; constructor; auto. apply sct_sc; auto. Qed.

Theorem metadata_irrelevant_pitr : forall st st' t ts o,
  Forall2 same_core_ts st st' -> restore_pitr st t ts o = restore_pitr st' t ts o.
Proof.
  intros st st' t ts o HS; unfold restore_pitr, pitr_chain.
  pose proof (list_backups_rel st st' HS) as HL.
  pose proof (find_rel same_core_ts (fun b => (b_ts b <=? ts) && is_full b) (fun b => (b_ts b <=? ts) && is_full b)
                _ _ HL) as HR.
  match type of HR with ?P -> _ => assert (HP : P) end.
  { intros x x' [HC HT]. rewrite HT, (is_full_rel x x' HC); reflexivity. }
  specialize (HR HP).
  destruct (find _ (list_backups st)) as [f|], (find _ (list_backups st')) as [f'|]; cbn in HR; try contradiction; auto.
  apply restore_chain_rel. constructor; [apply sct_sc; auto|].
  apply Forall2_sct_sc. rewrite <- (Forall2_len _ _ _ HL).
  destruct HR as [HC _]. destruct (sc_fields _ _ HC) as (EI & _). rewrite <- EI.
  apply pitr_incr_rel; auto.
Qed.

(* ------------------------------------------------------------------------------------------ *)
(* sorting / membership facts                                                                  *)
(* ------------------------------------------------------------------------------------------ *)
Lemma memN_In : forall x l, memN x l = true <-> In x l.
Proof.
  induction l as [|y r IH]; cbn; [split; [discriminate|contradiction]|].
  rewrite orb_true_iff, N.eqb_eq, IH. split; intros [H|H]; auto.
Qed.

Lemma ins_by_In : forall {A} (key : A -> N) x y l, In y (ins_by key x l) <-> y = x \/ In y l.
Proof.
  induction l as [|z r IH]; cbn; [intuition|].
  destruct (key x <? key z); cbn; [intuition|]. rewrite IH; intuition.
Qed.

Lemma sort_by_In : forall {A} (key : A -> N) y l, In y (sort_by key l) <-> In y l.
Proof.
  induction l as [|z r IH]; cbn; [tauto|].
  unfold sort_by in *; cbn. rewrite ins_by_In, IH. intuition.
Qed.

Lemma sort_by_sorted_id : forall l, StronglySorted N.lt l -> sort_by (fun s => s) l = l.
Proof.
  induction l as [|x r IH]; intros HS; [reflexivity|].
  inversion HS as [|? ? HS' HF]; subst. unfold sort_by in *; cbn. rewrite (IH HS').
  destruct r as [|y r']; [reflexivity|]. cbn.
  inversion HF as [|? ? HL _]; subst. apply N.ltb_lt in HL; rewrite HL; reflexivity.
Qed.

Lemma dedup_sorted_id : forall l, StronglySorted N.lt l -> dedup l = l.
Proof.
  induction l as [|x r IH]; intros HS; [reflexivity|].
  inversion HS as [|? ? HS' HF]; subst. cbn.
  destruct r as [|y r']; [reflexivity|].
  inversion HF as [|? ? HL _]; subst.
  assert (E : (x =? y) = false) by (apply N.eqb_neq; lia). rewrite E. f_equal. apply IH; exact HS'.
Qed.

Lemma filter_none : forall {A} (p : A -> bool) l, (forall x, In x l -> p x = false) -> filter p l = [].
Proof.
  induction l as [|x r IH]; intros H; cbn; [reflexivity|].
  rewrite (H x (or_introl eq_refl)). apply IH; intros y HY; apply H; right; exact HY.
Qed.

Lemma merge_segs_id : forall listed extra,
  StronglySorted N.lt listed -> (forall s, In s extra -> In s listed) -> merge_segs listed extra = listed.
Proof.
  intros listed extra HS HI; unfold merge_segs.
  rewrite filter_none.
  - rewrite app_nil_r, sort_by_sorted_id by exact HS. apply dedup_sorted_id; exact HS.
  - intros x HX. apply HI in HX. apply memN_In in HX. rewrite HX; reflexivity.
Qed.

Lemma sorted_lt_nodup : forall l, StronglySorted N.lt l -> NoDup l.
Proof.
  induction l as [|x r IH]; intros HS; [constructor|].
  inversion HS as [|? ? HS' HF]; subst. constructor; [|apply IH; exact HS'].
  intro HI. rewrite Forall_forall in HF. apply HF in HI. lia.
Qed.

Lemma wal_entries_In : forall d s x, In (s, x) (wal_entries d) <-> In (FWal s, x) d.
Proof.
  induction d as [|[k v] r IH]; intros s x; cbn; [tauto|].
  destruct k; cbn; rewrite IH; split; intros H.
  - right; exact H.
  - destruct H as [E|H]; [discriminate|exact H].
  - right; exact H.
  - destruct H as [E|H]; [discriminate|exact H].
  - destruct H as [E|H]; [left; inversion E; reflexivity|right; exact H].
  - destruct H as [E|H]; [left; inversion E; reflexivity|right; exact H].
  - right; exact H.
  - destruct H as [E|H]; [discriminate|exact H].
Qed.

Lemma wal_on_disk_In : forall d s x, In (s, x) (wal_on_disk d) <-> In (FWal s, x) d.
Proof. intros; unfold wal_on_disk; rewrite sort_by_In; apply wal_entries_In. Qed.

Lemma map_opt_ext_in : forall {A B} (f g : A -> option B) l,
  (forall x, In x l -> f x = g x) -> map_opt f l = map_opt g l.
Proof.
  induction l as [|x r IH]; intros H; cbn; [reflexivity|].
  rewrite (H x (or_introl eq_refl)), IH; [reflexivity|]. intros y HY; apply H; right; exact HY.
Qed.

Lemma map_opt_some : forall {A B} (f : A -> option B) l,
  (forall x, In x l -> f x <> None) -> map_opt f l <> None.
Proof.
  induction l as [|x r IH]; intros H; cbn; [discriminate|].
  destruct (f x) eqn:E; [|exfalso; apply (H x (or_introl eq_refl)); exact E].
  destruct (map_opt f r) eqn:E2; [discriminate|].
  exfalso; apply IH; [|reflexivity]. intros y HY; apply H; right; exact HY.
Qed.

(* ------------------------------------------------------------------------------------------ *)
(* well-formed source directories and the recovery-relevant files                              *)
(* ------------------------------------------------------------------------------------------ *)
(* A quiescent directory written by the engine: unique names; a parsable MANIFEST whose segment list
   is in increasing id order and names exactly the WAL files on disk; the snapshot it names exists. *)
Definition wf_sdir (d : sdir) (m : manifest) : Prop :=
  NoDup (map fst d) /\
  (exists mt, sget d FManifest = Some (CMan m, mt)) /\
  StronglySorted N.lt (m_segs m) /\
  (forall s, In s (m_segs m) <-> exists x, sget d (FWal s) = Some x) /\
  (forall s, m_snap m = Some s -> exists x, sget d (FSnap s) = Some x).

Definition snap_part (d : sdir) (m : manifest) : tdir :=
  match m_snap m with
  | None => []
  | Some s => match sget d (FSnap s) with Some (c, _) => [(FSnap s, c)] | None => [] end
  end.

Definition seg_part (d : sdir) (segs : list N) : tdir :=
  flat_map (fun s => match sget d (FWal s) with Some (c, _) => [(FWal s, c)] | None => [] end) segs.

(* exactly what recovery reads from d: the snapshot named by the manifest, the manifest, the listed segments *)
Definition view_files (d : sdir) (m : manifest) : tdir :=
  snap_part d m ++ (FManifest, CMan m) :: seg_part d (m_segs m).

Lemma set_segs_id : forall m, set_segs m (m_segs m) = m.
Proof. intros [a b c e]; reflexivity. Qed.

Lemma map_opt_wal_member : forall d segs,
  (forall s, In s segs -> exists x, sget d (FWal s) = Some x) ->
  map_opt (wal_member d) segs = Some (seg_part d segs) /\ map fst (seg_part d segs) = map FWal segs.
Proof.
  induction segs as [|s r IH]; intros H; cbn; [split; reflexivity|].
  destruct (H s (or_introl eq_refl)) as [[c mt] E].
  destruct IH as [IH1 IH2]; [intros y HY; apply H; right; exact HY|].
  unfold wal_member at 1. rewrite E, IH1. fold (seg_part d r). cbn [app map fst]. rewrite IH2. split; reflexivity.
Qed.

Lemma uniq_names_id : forall l seen,
  NoDup (map fst l) -> (forall n, In n seen -> ~ In n (map fst l)) -> uniq_names seen l = l.
Proof.
  induction l as [|[n c] r IH]; intros seen ND HS; cbn; [reflexivity|].
  cbn in ND; inversion ND as [|? ? NI ND']; subst.
  assert (E : existsb (fname_eqb n) seen = false).
  { destruct (existsb (fname_eqb n) seen) eqn:E; [|reflexivity].
    apply existsb_exists in E; destruct E as [x [HX HE]]. apply fname_eqb_eq in HE; subst x.
    exfalso; apply (HS n HX); left; reflexivity. }
  rewrite E. f_equal. apply IH; [exact ND'|].
  intros x [HX|HX] HI.
  - subst x; exact (NI HI).
  - apply (HS x HX); right; exact HI.
Qed.

Lemma NoDup_map_FWal : forall l, NoDup l -> NoDup (map FWal l).
Proof.
  induction l as [|x r IH]; intros ND; cbn; [constructor|].
  inversion ND as [|? ? NI ND']; subst. constructor; [|apply IH; exact ND'].
  intro HI; apply in_map_iff in HI; destruct HI as [y [E HY]]; inversion E; subst; exact (NI HY).
Qed.

Lemma view_files_nodup : forall d m, wf_sdir d m -> NoDup (map fst (view_files d m)).
Proof.
  intros d m (ND & _ & HS & HL & _). unfold view_files.
  destruct (map_opt_wal_member d (m_segs m)) as [_ EN]; [intros s HI; apply HL; exact HI|].
  rewrite map_app; cbn. rewrite EN.
  assert (NW : NoDup (map FWal (m_segs m))) by (apply NoDup_map_FWal, sorted_lt_nodup; exact HS).
  assert (NM : ~ In FManifest (map FWal (m_segs m))).
  { intro HI; apply in_map_iff in HI; destruct HI as [y [E _]]; discriminate. }
  unfold snap_part. destruct (m_snap m) as [s|]; cbn; [|constructor; auto].
  destruct (sget d (FSnap s)) as [[c mt]|]; cbn; [|constructor; auto].
  constructor; [|constructor; auto].
  intros [E|HI]; [discriminate|]. apply in_map_iff in HI; destruct HI as [y [E _]]; discriminate.
Qed.

Lemma create_full_files_wf : forall d m, wf_sdir d m ->
  create_full_files d = Ok (view_files d m, max_list (m_segs m), m_snap m).
Proof.
  intros d m WF. pose proof (view_files_nodup d m WF) as NDV.
  destruct WF as (ND & [mt EM] & HS & HL & HSN).
  unfold create_full_files. rewrite EM.
  assert (HD : forall s, In s (map fst (wal_on_disk d)) <-> In s (m_segs m)).
  { intros s; rewrite HL; split.
    - intros HI; apply in_map_iff in HI; destruct HI as [[s' x] [E HI]]; cbn in E; subst s'.
      apply wal_on_disk_In in HI. exists x. apply in_sget_nodup; auto.
    - intros [x HX]. apply in_map_iff; exists (s, x); split; [reflexivity|].
      apply wal_on_disk_In. apply sget_in; exact HX. }
  assert (E1 : forallb (fun s => memN s (map fst (wal_on_disk d))) (m_segs m) = true).
  { apply forallb_forall; intros s HI. apply memN_In, HD; exact HI. }
  rewrite E1; cbn [negb].
  rewrite merge_segs_id; [|exact HS|intros s HI; apply HD; exact HI].
  rewrite set_segs_id.
  destruct (map_opt_wal_member d (m_segs m)) as [EW _]; [intros s HI; apply HL; exact HI|].
  rewrite EW.
  assert (EV : (match m_snap m with
                | None => Ok []
                | Some s => match sget d (FSnap s) with
                            | Some (c, _) => Ok [(FSnap s, c)]
                            | None => Err ESnapshotMissing
                            end
                end) = Ok (snap_part d m)).
  { unfold snap_part. destruct (m_snap m) as [s|] eqn:ES; [|reflexivity].
    destruct (HSN s eq_refl) as [[c mt'] E]. rewrite E; reflexivity. }
  rewrite EV. fold (view_files d m).
  unfold finish_full. destruct (view_files d m) as [|e r] eqn:EVF.
  - unfold view_files in EVF. destruct (snap_part d m); discriminate.
  - rewrite <- EVF in NDV |- *. rewrite uniq_names_id; [reflexivity|exact NDV|intros n []].
Qed.

Lemma tget_view_manifest : forall d m, wf_sdir d m -> tget (view_files d m) FManifest = Some (CMan m).
Proof.
  intros d m WF. apply in_tget_nodup; [apply view_files_nodup; exact WF|].
  unfold view_files; apply in_or_app; right; left; reflexivity.
Qed.

Lemma tget_view_wal : forall d m s c mt, wf_sdir d m -> sget d (FWal s) = Some (c, mt) ->
  tget (view_files d m) (FWal s) = Some c.
Proof.
  intros d m s c mt WF E. apply in_tget_nodup; [apply view_files_nodup; exact WF|].
  destruct WF as (_ & _ & _ & HL & _).
  unfold view_files; apply in_or_app; right; right. unfold seg_part. apply in_flat_map.
  exists s; split; [apply HL; eexists; exact E|]. rewrite E; left; reflexivity.
Qed.

Lemma tget_view_snap : forall d m s c mt, wf_sdir d m -> m_snap m = Some s -> sget d (FSnap s) = Some (c, mt) ->
  tget (view_files d m) (FSnap s) = Some c.
Proof.
  intros d m s c mt WF ES E. apply in_tget_nodup; [apply view_files_nodup; exact WF|].
  unfold view_files; apply in_or_app; left. unfold snap_part. rewrite ES, E; left; reflexivity.
Qed.

(* the view of a directory that satisfies the three lookups of a well-formed source *)
Lemma recovery_view_matches : forall t d m, wf_sdir d m ->
  tget t FManifest = Some (CMan m) ->
  (forall s c mt, sget d (FWal s) = Some (c, mt) -> tget t (FWal s) = Some c) ->
  (forall s, m_snap m = Some s -> tget t (FSnap s) = option_map fst (sget d (FSnap s))) ->
  recovery_view t = recovery_view (strip d) /\ restorable t = true.
Proof.
  intros t d m WF HM HW HSN. pose proof WF as (ND & [mt EM] & HS & HL & HSE).
  assert (EQ : recovery_view t = recovery_view (strip d)).
  { unfold recovery_view. rewrite HM, tget_strip, EM; cbn [option_map fst].
    assert (E1 : (match m_snap m with
                  | None => Some None
                  | Some s => match tget t (FSnap s) with Some c => Some (Some c) | None => None end
                  end) =
                 (match m_snap m with
                  | None => Some None
                  | Some s => match tget (strip d) (FSnap s) with Some c => Some (Some c) | None => None end
                  end)).
    { destruct (m_snap m) as [s|] eqn:ES; [|reflexivity]. rewrite (HSN s eq_refl), tget_strip; reflexivity. }
    rewrite E1.
    rewrite (map_opt_ext_in (fun s => tget t (FWal s)) (fun s => tget (strip d) (FWal s)) (m_segs m)); [reflexivity|].
    intros s HI. apply HL in HI; destruct HI as [[c mt'] E]. rewrite (HW s c mt' E), tget_strip, E; reflexivity. }
  split; [exact EQ|]. unfold restorable. rewrite EQ.
  unfold recovery_view. rewrite tget_strip, EM; cbn [option_map fst].
  destruct (m_snap m) as [s|] eqn:ES.
  - destruct (HSE s eq_refl) as [[c mt'] E]. rewrite tget_strip, E; cbn [option_map fst].
    destruct (map_opt (fun s0 => tget (strip d) (FWal s0)) (m_segs m)) eqn:E2; [reflexivity|].
    exfalso; revert E2; apply map_opt_some. intros x HI. apply HL in HI; destruct HI as [[c' mt''] E3].
    rewrite tget_strip, E3; discriminate.
  - destruct (map_opt (fun s0 => tget (strip d) (FWal s0)) (m_segs m)) eqn:E2; [reflexivity|].
    exfalso; revert E2; apply map_opt_some. intros x HI. apply HL in HI; destruct HI as [[c' mt''] E3].
    rewrite tget_strip, E3; discriminate.
Qed.

Lemma extract_is_put_all : forall t b, extract t b = put_all t (b_files b).
Proof. reflexivity. Qed.

(* C12, full backups: restoring a verified full backup into an empty target yields exactly the
   recovery-relevant files of the source directory at backup time, nothing else. *)
Theorem full_restore_exact : forall d m id ts aux o,
  wf_sdir d m -> o_dry o = false ->
  exists b, create_full d id ts aux = Ok b /\
            b_files b = view_files d m /\
            restore_by_id [b] [] id o = (None, view_files d m) /\
            recovery_view (view_files d m) = recovery_view (strip d) /\
            restorable (view_files d m) = true.
Proof.
  intros d m id ts aux o WF HD.
  unfold create_full. rewrite (create_full_files_wf d m WF).
  eexists; split; [reflexivity|]. cbn [b_files]. split; [reflexivity|]. split.
  - unfold restore_by_id, build_chain. cbn [find_b b_id]. rewrite N.eqb_refl. cbn [is_full b_kind bkind_eqb].
    unfold restore_chain. cbn [forallb b_ok negb andb clear_target]. rewrite HD.
    unfold extract_chain; cbn [fold_left]. rewrite extract_is_put_all; cbn [b_files].
    rewrite put_all_nodup; [reflexivity|]. cbn [app]. apply view_files_nodup; exact WF.
  - apply recovery_view_matches with (m := m); auto.
    + apply tget_view_manifest; exact WF.
    + intros s c mt E; eapply tget_view_wal; eauto.
    + intros s ES. destruct WF as (A & B & C & D & HSE). destruct (HSE s ES) as [[c mt] E].
      rewrite E; cbn. eapply tget_view_snap; eauto. unfold wf_sdir; tauto.
Qed.

(* ------------------------------------------------------------------------------------------ *)
(* the boolean premises imply the Prop premises                                                *)
(* ------------------------------------------------------------------------------------------ *)
Lemma optN_eqb_eq : forall a b, optN_eqb a b = true -> a = b.
Proof. intros [x|] [y|]; cbn; intro H; try discriminate; auto. apply N.eqb_eq in H; subst; reflexivity. Qed.

Lemma listN_eqb_eq : forall a b, listN_eqb a b = true -> a = b.
Proof.
  induction a as [|x r IH]; intros [|y s]; cbn; intro H; try discriminate; auto.
  apply andb_true_iff in H; destruct H as [H1 H2]. apply N.eqb_eq in H1; subst. f_equal; auto.
Qed.

Lemma manifest_eqb_eq : forall a b, manifest_eqb a b = true -> a = b.
Proof.
  intros [a1 a2 a3 a4] [b1 b2 b3 b4]; unfold manifest_eqb; cbn. intro H.
  repeat (apply andb_true_iff in H; destruct H as [H ?]).
  apply optN_eqb_eq in H. apply optN_eqb_eq in H2. apply listN_eqb_eq in H1. apply N.eqb_eq in H0.
  subst; reflexivity.
Qed.

Lemma content_eqb_eq : forall a b, content_eqb a b = true -> a = b.
Proof.
  intros [x|x] [y|y]; cbn; intro H; try discriminate.
  - apply manifest_eqb_eq in H; subst; reflexivity.
  - apply N.eqb_eq in H; subst; reflexivity.
Qed.

Lemma nodup_names_ok : forall l, nodup_names l = true -> NoDup l.
Proof.
  induction l as [|x r IH]; cbn; intro H; [constructor|].
  apply andb_true_iff in H; destruct H as [H1 H2]. constructor; [|auto].
  intro HI. apply negb_true_iff in H1.
  assert (E : existsb (fname_eqb x) r = true) by (apply existsb_exists; exists x; split; [exact HI|apply fname_eqb_refl]).
  congruence.
Qed.

Lemma sorted_lt_ok : forall l, sorted_lt l = true -> StronglySorted N.lt l.
Proof.
  intros l H. apply Sorted_StronglySorted; [intros a b c; apply N.lt_trans|].
  induction l as [|x r IH]; [constructor|].
  cbn in H. destruct r as [|y r'].
  - constructor; constructor.
  - apply andb_true_iff in H; destruct H as [H1 H2]. constructor; [apply IH; exact H2|].
    constructor. apply N.ltb_lt; exact H1.
Qed.

Lemma is_some_ex : forall {A} (o : option A), is_some o = true -> exists x, o = Some x.
Proof. intros A [x|]; cbn; intro H; [eexists; reflexivity|discriminate]. Qed.

Lemma wf_sdirb_ok : forall d m, wf_sdirb d m = true -> wf_sdir d m.
Proof.
  intros d m H; unfold wf_sdirb in H.
  repeat (apply andb_true_iff in H; destruct H as [H ?]).
  rename H into H1, H4 into H2, H3 into H3, H2 into H4, H1 into H5, H0 into H6.
  assert (ND : NoDup (map fst d)) by (apply nodup_names_ok; exact H1).
  repeat split.
  - exact ND.
  - destruct (sget d FManifest) as [[[m'|c] mt]|]; try discriminate.
    apply manifest_eqb_eq in H2; subst; eexists; reflexivity.
  - apply sorted_lt_ok; exact H3.
  - intros HI. rewrite forallb_forall in H4. apply is_some_ex; apply H4; exact HI.
  - intros [x HX]. rewrite forallb_forall in H5.
    apply memN_In. apply (H5 (s, x)). apply wal_entries_In. apply sget_in; exact HX.
  - intros s ES. rewrite ES in H6. apply is_some_ex; exact H6.
Qed.


(* ------------------------------------------------------------------------------------------ *)
(* chains: full backup followed by incrementals                                                *)
(* ------------------------------------------------------------------------------------------ *)
(* Premise about how the engine's directory evolves between two backups: a WAL segment that the
   incremental does NOT select (id below the parent's recorded maximum, or equal to it with an
   mtime older than the parent's timestamp) is unchanged since the parent's directory state.
   (Closed segments are immutable; appending to the active one moves its mtime forward.) *)
Definition evolves (dp : sdir) (bp : backup) (d : sdir) : Prop :=
  forall s c mt, sget d (FWal s) = Some (c, mt) ->
    incr_selected (b_ts bp) (b_max_wal bp) (s, (c, mt)) = false ->
    exists mt0, sget dp (FWal s) = Some (c, mt0).

(* Premise: a snapshot name denotes one content (snapshots are written once under a fresh id). *)
Definition snaps_agree (sc : N -> content) (d : sdir) : Prop :=
  forall s c mt, sget d (FSnap s) = Some (c, mt) -> c = sc s.

Lemma evolvesb_ok : forall dp bp d, NoDup (map fst d) ->
  evolvesb dp (b_ts bp) (b_max_wal bp) d = true -> evolves dp bp d.
Proof.
  intros dp bp d ND H s c mt E HSel. unfold evolvesb in H. rewrite forallb_forall in H.
  specialize (H (s, (c, mt))). cbn [fst snd] in H.
  rewrite HSel in H; cbn [orb] in H.
  assert (HI : In (s, (c, mt)) (wal_entries d)) by (apply wal_entries_In, sget_in; exact E).
  specialize (H HI). destruct (sget dp (FWal s)) as [[c0 mt0]|]; [|discriminate].
  apply content_eqb_eq in H; subst; eexists; reflexivity.
Qed.

Definition snaps_agreeb (sc : N -> content) (d : sdir) : bool :=
  forallb (fun e => match fst e with FSnap s => content_eqb (fst (snd e)) (sc s) | _ => true end) d.

Lemma snaps_agreeb_ok : forall sc d, snaps_agreeb sc d = true -> snaps_agree sc d.
Proof.
  intros sc d H s c mt E. unfold snaps_agreeb in H. rewrite forallb_forall in H.
  specialize (H (FSnap s, (c, mt)) (sget_in _ _ _ E)). cbn in H. apply content_eqb_eq; exact H.
Qed.

(* the store holds these records unaltered, or not at all *)
Definition store_sub (st : store) (rch : list backup) : Prop :=
  forall b, In b rch -> find_b st (b_id b) = Some b \/ find_b st (b_id b) = None.

(* chain_ok sc rch d m: rch (newest first) is a full backup followed by incrementals, each taken by the
   modelled code from a well-formed directory that evolved from its parent's, with a backup directory
   that held the parent's metadata and held the older ancestors' metadata unaltered or not at all;
   d, m are the directory and manifest of the newest one. *)
Inductive chain_ok (sc : N -> content) : list backup -> sdir -> manifest -> Prop :=
| co_full : forall d m b id ts aux,
    wf_sdir d m -> snaps_agree sc d -> create_full d id ts aux = Ok b -> chain_ok sc [b] d m
| co_incr : forall rch dp mp bp d m b st id ts aux,
    chain_ok sc (bp :: rch) dp mp -> wf_sdir d m -> snaps_agree sc d -> evolves dp bp d ->
    find_b st (b_id bp) = Some bp -> store_sub st rch ->
    create_incremental st d (b_id bp) id ts aux = Ok b ->
    chain_ok sc (b :: bp :: rch) d m.

Inductive linked : list backup -> Prop :=
| ln_full : forall b, b_kind b = Full -> b_parent b = None -> linked [b]
| ln_incr : forall b bp r, b_kind b = Incremental -> b_parent b = Some (b_id bp) ->
    linked (bp :: r) -> linked (b :: bp :: r).

Definition covers (t : tdir) (d : sdir) : Prop :=
  forall s c mt, sget d (FWal s) = Some (c, mt) -> tget t (FWal s) = Some c.

(* newest snapshot recorded (= shipped) by a member of the chain *)
Fixpoint carried (rch : list backup) : option N :=
  match rch with
  | [] => None
  | b :: r => match b_snapfile b with Some s => Some s | None => carried r end
  end.

Lemma create_full_inv : forall d m id ts aux b, wf_sdir d m -> create_full d id ts aux = Ok b ->
  b = mkBackup id None Full ts (view_files d m) true (max_list (m_segs m)) (m_snap m) aux.
Proof.
  intros d m id ts aux b WF H. unfold create_full in H. rewrite (create_full_files_wf d m WF) in H.
  inversion H; reflexivity.
Qed.

Definition incr_wals (d : sdir) (pts : N) (pmax : option N) : tdir :=
  map (fun e => (FWal (fst e), fst (snd e))) (filter (incr_selected pts pmax) (wal_on_disk d)).

Lemma create_incr_files_wf : forall d m pts pmax csnap files mx sf, wf_sdir d m ->
  create_incr_files d pts pmax csnap = Ok (files, mx, sf) ->
  (files = (FManifest, CMan m) :: incr_wals d pts pmax /\ sf = None /\
   (m_snap m = None \/ exists s, m_snap m = Some s /\ csnap = Some s)) \/
  (exists s c mt, m_snap m = Some s /\ sget d (FSnap s) = Some (c, mt) /\ sf = Some s /\
                  files = (FSnap s, c) :: (FManifest, CMan m) :: incr_wals d pts pmax).
Proof.
  intros d m pts pmax csnap files mx sf WF H. destruct WF as (ND & [mt EM] & HS & HL & _).
  unfold create_incr_files in H. rewrite EM in H. unfold incr_wals.
  destruct (filter (incr_selected pts pmax) (wal_on_disk d)) as [|e r] eqn:ES; [discriminate|].
  rewrite merge_segs_id in H.
  - rewrite set_segs_id in H.
    destruct (m_snap m) as [s|] eqn:EMS.
    + destruct (optN_eqb csnap (Some s)) eqn:EO.
      * apply optN_eqb_eq in EO. inversion H; subst. left; split; [reflexivity|]. split; [reflexivity|].
        right; exists s; auto.
      * destruct (sget d (FSnap s)) as [[c mt']|] eqn:EG; [|discriminate].
        inversion H; subst. right. exists s, c, mt'. auto.
    + inversion H; subst. left; auto.
  - exact HS.
  - intros s HI. apply HL. apply in_map_iff in HI; destruct HI as [[s' x] [E HI]]; cbn in E; subst s'.
    rewrite <- ES in HI. apply filter_In in HI; destruct HI as [HI _].
    apply wal_on_disk_In in HI. exists x. apply in_sget_nodup; auto.
Qed.

Lemma chain_linked : forall sc rch d m, chain_ok sc rch d m ->
  linked rch /\ Forall (fun b => b_ok b = true) rch.
Proof.
  intros sc rch d m H;
    induction H as [d m b id ts aux WF HSA HC | rch dp mp bp d m b st id ts aux HP IH WF HSA HE HF HSub HC].
  - rewrite (create_full_inv _ _ _ _ _ _ WF HC). split; [constructor; reflexivity|constructor; auto].
  - destruct IH as [IL IO]. unfold create_incremental in HC. rewrite HF in HC.
    destruct (create_incr_files d (b_ts bp) (b_max_wal bp) _) as [[[files mx] sf]|e]; [|discriminate].
    inversion HC; subst b. split; [constructor; auto|constructor; auto].
Qed.

Lemma chain_snapshot_some : forall fuel st s anc, chain_snapshot fuel st (Some s) anc = Some s.
Proof. intros [|f] st s anc; reflexivity. Qed.

Lemma chain_snapshot_none : forall fuel st, chain_snapshot fuel st None None = None.
Proof. intros [|f] st; reflexivity. Qed.

(* the walk over the ancestors' metadata can only report a snapshot that the chain really carries *)
Lemma walk_carried : forall st r x fuel s,
  linked (x :: r) -> store_sub st r ->
  chain_snapshot fuel st (b_snapfile x) (b_parent x) = Some s -> carried (x :: r) = Some s.
Proof.
  intros st r; induction r as [|y r' IH]; intros x fuel s HL HSub HW; cbn [carried].
  - destruct (b_snapfile x) as [s0|]; [rewrite chain_snapshot_some in HW; exact HW|].
    inversion HL as [? ? HP|]; subst. rewrite HP, chain_snapshot_none in HW; discriminate.
  - destruct (b_snapfile x) as [s0|]; [rewrite chain_snapshot_some in HW; exact HW|].
    inversion HL as [|? ? ? HK HP HL']; subst. rewrite HP in HW.
    destruct fuel as [|f]; [discriminate|]. cbn [chain_snapshot] in HW.
    destruct (HSub y (or_introl eq_refl)) as [E|E]; rewrite E in HW; [|discriminate].
    apply (IH y f s HL'); [|exact HW].
    intros b HI; apply HSub; right; exact HI.
Qed.

Lemma extract_chain_snoc : forall t l b, extract_chain t (l ++ [b]) = extract (extract_chain t l) b.
Proof. intros; unfold extract_chain; rewrite fold_left_app; reflexivity. Qed.

(* the invariant carried along a chain *)
Lemma chain_invariant : forall sc rch d m, chain_ok sc rch d m ->
  let t := extract_chain [] (rev rch) in
  covers t d /\ tget t FManifest = Some (CMan m) /\
  (forall s, m_snap m = Some s -> tget t (FSnap s) = Some (sc s)) /\
  (forall s, carried rch = Some s -> tget t (FSnap s) = Some (sc s)).
Proof.
  intros sc rch d m H;
    induction H as [d m b id ts aux WF HSA HC | rch dp mp bp d m b st id ts aux HP IH WF HSA HE HF HSub HC].
  - rewrite (create_full_inv _ _ _ _ _ _ WF HC). cbn [rev app]. unfold extract_chain; cbn [fold_left].
    rewrite extract_is_put_all; cbn [b_files]. rewrite put_all_nodup by (cbn [app]; apply view_files_nodup; exact WF).
    cbn [app].
    assert (HS : forall s, m_snap m = Some s -> tget (view_files d m) (FSnap s) = Some (sc s)).
    { intros s ES. pose proof WF as (_ & _ & _ & _ & HSE). destruct (HSE s ES) as [[c mt] E].
      rewrite (tget_view_snap d m s c mt WF ES E). rewrite (HSA s c mt E); reflexivity. }
    repeat split.
    + intros s c mt E; eapply tget_view_wal; eauto.
    + apply tget_view_manifest; exact WF.
    + exact HS.
    + intros s HCar. cbn [carried b_snapfile] in HCar. apply HS.
      destruct (m_snap m); [exact HCar|discriminate].
  - cbn zeta in IH. destruct IH as (IC & IM & IS & ICar).
    destruct (chain_linked _ _ _ _ HP) as [HLk _].
    unfold create_incremental in HC. rewrite HF in HC.
    set (csnap := chain_snapshot (length st) st (b_snapfile bp) (b_parent bp)) in HC.
    destruct (create_incr_files d (b_ts bp) (b_max_wal bp) csnap) as [[[files mx] sf]|e] eqn:EC; [|discriminate].
    pose proof (create_incr_files_wf _ _ _ _ _ _ _ _ WF EC) as EF.
    inversion HC; subst b; clear HC.
    cbn zeta. change (rev (mkBackup id (Some (b_id bp)) Incremental ts files true mx sf aux :: bp :: rch))
      with (rev (bp :: rch) ++ [mkBackup id (Some (b_id bp)) Incremental ts files true mx sf aux]).
    rewrite extract_chain_snoc, extract_is_put_all; cbn [b_files].
    set (t := extract_chain [] (rev (bp :: rch))) in *.
    pose proof WF as (ND & [mtm EM] & HS & HL & HSN).
    (* shape of the archive: optional snapshot, manifest, selected segments *)
    assert (HShape : exists pre, files = pre ++ (FManifest, CMan m) :: incr_wals d (b_ts bp) (b_max_wal bp) /\
                                 (forall n c, In (n, c) pre -> exists s, n = FSnap s)).
    { destruct EF as [(E & _)|(s & c & mt & _ & _ & _ & E)].
      - exists []; split; [exact E|intros n c []].
      - exists [(FSnap s, c)]; split; [exact E|]. intros n c0 [E0|[]]; inversion E0; eauto. }
    destruct HShape as (pre & EFiles & HPre).
    assert (HWalMem : forall s c', In (FWal s, c') files -> In (FWal s, c') (incr_wals d (b_ts bp) (b_max_wal bp))).
    { intros s c' HI. rewrite EFiles in HI. apply in_app_or in HI. destruct HI as [HI|[HI|HI]].
      - destruct (HPre _ _ HI) as [s0 E0]; discriminate.
      - discriminate.
      - exact HI. }
    assert (HMem : forall s c', In (FWal s, c') files -> exists mt', sget d (FWal s) = Some (c', mt') /\
                                  incr_selected (b_ts bp) (b_max_wal bp) (s, (c', mt')) = true).
    { intros s c' HI. apply HWalMem in HI. unfold incr_wals in HI.
      apply in_map_iff in HI; destruct HI as [[s' [c2 mt2]] [E HI]]; cbn in E; inversion E; subst s' c2.
      apply filter_In in HI; destruct HI as [HI HSel]. apply wal_on_disk_In in HI.
      exists mt2; split; [apply in_sget_nodup; auto|exact HSel]. }
    assert (HSnapMem : forall s c', In (FSnap s, c') files -> In (FSnap s, c') pre).
    { intros s c' HI. rewrite EFiles in HI. apply in_app_or in HI. destruct HI as [HI|[HI|HI]]; [exact HI|discriminate|].
      unfold incr_wals in HI. apply in_map_iff in HI; destruct HI as [x [E _]]; discriminate. }
    assert (HCov : covers (put_all t files) d).
    { intros s c mt E.
      destruct (incr_selected (b_ts bp) (b_max_wal bp) (s, (c, mt))) eqn:ESel.
      * apply put_all_written.
        -- rewrite EFiles; apply in_or_app; right; right. unfold incr_wals.
           apply in_map_iff; exists (s, (c, mt)); split; [reflexivity|].
           apply filter_In; split; [|exact ESel]. apply wal_on_disk_In. apply sget_in; exact E.
        -- intros c' HI. destruct (HMem s c' HI) as [mt' [E' _]]. rewrite E in E'; inversion E'; reflexivity.
      * rewrite put_all_untouched.
        -- destruct (HE s c mt E ESel) as [mt0 E0]. exact (IC s c mt0 E0).
        -- intros c' HI. destruct (HMem s c' HI) as [mt' [E' HSel]]. rewrite E in E'; inversion E'; subst c' mt'.
           rewrite ESel in HSel; discriminate. }
    assert (HMan : tget (put_all t files) FManifest = Some (CMan m)).
    { apply put_all_written.
      * rewrite EFiles; apply in_or_app; right; left; reflexivity.
      * intros c' HI. rewrite EFiles in HI. apply in_app_or in HI. destruct HI as [HI|[HI|HI]].
        -- destruct (HPre _ _ HI) as [s0 E0]; discriminate.
        -- inversion HI; reflexivity.
        -- unfold incr_wals in HI. apply in_map_iff in HI; destruct HI as [x [E _]]; discriminate. }
    split; [exact HCov|]. split; [exact HMan|].
    destruct EF as [(E & ESf & HNo)|(s0 & c0 & mt0 & ES0 & EG0 & ESf & E)].
    + (* nothing shipped: no snapshot member at all *)
      assert (HNoSnap : forall s c', ~ In (FSnap s, c') files).
      { intros s c' HI. rewrite E in HI. destruct HI as [HI|HI]; [discriminate|].
        unfold incr_wals in HI. apply in_map_iff in HI; destruct HI as [x [E0 _]]; discriminate. }
      split.
      * intros s ES. rewrite put_all_untouched by (apply HNoSnap).
        destruct HNo as [EN|(s1 & ES1 & ECs)]; [congruence|].
        rewrite ES in ES1; inversion ES1; subst s1.
        apply ICar. apply (walk_carried st rch bp (length st) s HLk HSub). exact ECs.
      * intros s HCar. cbn [carried b_snapfile] in HCar. rewrite ESf in HCar.
        rewrite put_all_untouched by (apply HNoSnap). apply ICar. exact HCar.
    + (* the snapshot named by the manifest is shipped *)
      assert (HShip : tget (put_all t files) (FSnap s0) = Some (sc s0)).
      { rewrite <- (HSA s0 c0 mt0 EG0). apply put_all_written.
        - rewrite E; left; reflexivity.
        - intros c' HI. rewrite E in HI. destruct HI as [HI|[HI|HI]]; [inversion HI; reflexivity|discriminate|].
          unfold incr_wals in HI. apply in_map_iff in HI; destruct HI as [x [E0 _]]; discriminate. }
      split.
      * intros s ES. rewrite ES0 in ES; inversion ES; subst s. exact HShip.
      * intros s HCar. cbn [carried b_snapfile] in HCar. rewrite ESf in HCar. inversion HCar; subst s. exact HShip.
Qed.

(* The chain up to any backup contains the snapshot that backup's manifest names, with the content it
   has in the source directory (impossible before /repo 0a20737: see old_incremental_after_snapshot). *)
Lemma put_all_source : forall files t n c, tget (put_all t files) n = Some c -> tget t n = Some c \/ In (n, c) files.
Proof.
  induction files as [|[k v] r IH]; intros t n c H; [left; exact H|].
  unfold put_all in *; cbn in H. apply IH in H. destruct H as [H|H]; [|right; right; exact H].
  destruct (fname_eq_dec k n) as [E|NE].
  - subst. rewrite tget_tput_same in H. inversion H; subst. right; left; reflexivity.
  - rewrite tget_tput_other in H by exact NE. left; exact H.
Qed.

Lemma extract_chain_source : forall l t n c, tget (extract_chain t l) n = Some c ->
  tget t n = Some c \/ exists b, In b l /\ In (n, c) (b_files b).
Proof.
  induction l as [|b r IH]; intros t n c H; [left; exact H|].
  unfold extract_chain in *; cbn [fold_left] in H. apply IH in H. destruct H as [H|[b' [HI HM]]].
  - rewrite extract_is_put_all in H. apply put_all_source in H. destruct H as [H|H]; [left; exact H|].
    right; exists b; split; [left; reflexivity|exact H].
  - right; exists b'; split; [right; exact HI|exact HM].
Qed.

Theorem chain_contains_manifest_snapshot : forall sc rch d m s,
  chain_ok sc rch d m -> m_snap m = Some s ->
  tget (extract_chain [] (rev rch)) (FSnap s) = option_map fst (sget d (FSnap s)) /\
  (exists c mt, sget d (FSnap s) = Some (c, mt) /\ exists b, In b rch /\ In (FSnap s, c) (b_files b)).
Proof.
  intros sc rch d m s HC ES.
  destruct (chain_invariant _ _ _ _ HC) as (_ & _ & IS & _).
  assert (WF : wf_sdir d m) by (inversion HC; auto).
  assert (HSA : snaps_agree sc d) by (inversion HC; auto).
  pose proof WF as (_ & _ & _ & _ & HSE). destruct (HSE s ES) as [[c mt] E].
  pose proof (IS s ES) as HT. rewrite <- (HSA s c mt E) in HT.
  split; [rewrite E; exact HT|].
  exists c, mt; split; [exact E|].
  apply extract_chain_source in HT. destruct HT as [HT|[b [HI HM]]]; [discriminate|].
  exists b; split; [apply in_rev; exact HI|exact HM].
Qed.

(* build_chain finds exactly the chain when every member's metadata is present in the store *)
Lemma find_b_In : forall st id b, find_b st id = Some b -> In b st /\ b_id b = id.
Proof.
  induction st as [|x r IH]; intros id b H; cbn in H; [discriminate|].
  destruct (b_id x =? id) eqn:E.
  - inversion H; subst; split; [left; reflexivity|apply N.eqb_eq; exact E].
  - destruct (IH id b H); split; [right|]; auto.
Qed.

Lemma linked_last : forall rch, linked rch -> exists r0 bf, rch = r0 ++ [bf] /\ b_kind bf = Full.
Proof.
  intros rch H; induction H as [b HK HP | b bp r HK HP HL IH].
  - exists [], b; split; auto.
  - destruct IH as [r0 [bf [E HF]]]. exists (b :: r0), bf; split; [cbn; rewrite E; reflexivity|exact HF].
Qed.

Lemma chain_up_linked : forall st r cur acc fuel,
  linked (cur :: r) -> b_kind cur = Incremental ->
  (forall b, In b (cur :: r) -> find_b st (b_id b) = Some b) ->
  (length r <= fuel)%nat ->
  chain_up fuel st cur acc = Ok (rev r ++ acc).
Proof.
  intros st r; induction r as [|bp r' IH]; intros cur acc fuel HL HK HF HLen.
  - inversion HL; subst. congruence.
  - inversion HL as [|? ? ? HKc HPc HL']; subst.
    destruct fuel as [|f]; [cbn in HLen; lia|]. cbn [chain_up]. rewrite HPc.
    rewrite (HF bp (or_intror (or_introl eq_refl))).
    unfold is_full. destruct (b_kind bp) eqn:EK; cbn [bkind_eqb].
    + inversion HL'; subst; [reflexivity|congruence].
    + rewrite (IH bp (bp :: acc) f HL' EK).
      * cbn [rev]. rewrite <- app_assoc; reflexivity.
      * intros b HI; apply HF; right; exact HI.
      * cbn in HLen; lia.
Qed.

Lemma build_chain_linked : forall st rch tip,
  linked rch -> hd_error rch = Some tip ->
  (forall b, In b rch -> find_b st (b_id b) = Some b) ->
  NoDup (map b_id rch) ->
  build_chain st (b_id tip) = Ok (rev rch).
Proof.
  intros st rch tip HL HH HF ND.
  destruct rch as [|cur r]; [discriminate|]. cbn in HH; inversion HH; subst cur.
  unfold build_chain. rewrite (HF tip (or_introl eq_refl)).
  unfold is_full. destruct (b_kind tip) eqn:EK; cbn [bkind_eqb].
  - inversion HL; subst; [reflexivity|congruence].
  - assert (HLen : (length r <= length st)%nat).
    { assert (HN : NoDup (tip :: r)) by (eapply NoDup_map_inv; exact ND).
      assert (HI : incl (tip :: r) st).
      { intros b HB. apply HF in HB. apply find_b_In in HB; tauto. }
      pose proof (NoDup_incl_length HN HI) as HLe. cbn in HLe; lia. }
    rewrite (chain_up_linked st r tip [tip] (length st) HL EK HF HLen).
    destruct (linked_last _ HL) as [r0 [bf [E HFull]]].
    change (rev r ++ [tip]) with (rev (tip :: r)). rewrite E, rev_app_distr. cbn [rev app].
    unfold is_full; rewrite HFull; reflexivity.
Qed.

(* The only class left: the metadata of a member of the chain is missing from the store the restore
   runs on (outside interference; prune can no longer cause it, see prune_keeps_parents). *)
Definition ancestor_missing (st : store) (rch : list backup) : Prop :=
  exists b, In b rch /\ find_b st (b_id b) = None.

Definition KnownC12 (st : store) (rch : list backup) : Prop := ancestor_missing st rch.

Theorem chain_restore_exact_present : forall sc st rch tip d m o,
  chain_ok sc rch d m -> hd_error rch = Some tip -> NoDup (map b_id rch) ->
  (forall b, In b rch -> find_b st (b_id b) = Some b) -> o_dry o = false ->
  exists t', restore_by_id st [] (b_id tip) o = (None, t') /\
             recovery_view t' = recovery_view (strip d) /\ restorable t' = true.
Proof.
  intros sc st rch tip d m o HC HH ND HF HD.
  destruct (chain_linked _ _ _ _ HC) as [HL HOk].
  exists (extract_chain [] (rev rch)). split.
  - unfold restore_by_id. rewrite (build_chain_linked st rch tip HL HH HF ND).
    unfold restore_chain.
    assert (E : forallb b_ok (rev rch) = true).
    { apply forallb_forall. intros b HI. apply in_rev in HI. rewrite Forall_forall in HOk; auto. }
    rewrite E; cbn [negb clear_target]. rewrite HD; reflexivity.
  - destruct (chain_invariant _ _ _ _ HC) as (IC & IM & IS & _).
    assert (WF : wf_sdir d m) by (inversion HC; auto).
    assert (HSA : snaps_agree sc d) by (inversion HC; auto).
    apply recovery_view_matches with (m := m); auto.
    intros s ES. rewrite (IS s ES).
    pose proof WF as (_ & _ & _ & _ & HSE). destruct (HSE s ES) as [[c mt] E].
    rewrite E; cbn. rewrite (HSA s c mt E); reflexivity.
Qed.

Theorem chain_restore_exact : forall sc st rch tip d m o,
  chain_ok sc rch d m -> hd_error rch = Some tip ->
  NoDup (map b_id rch) -> store_sub st rch -> o_dry o = false ->
  ~ KnownC12 st rch ->
  exists t', restore_by_id st [] (b_id tip) o = (None, t') /\
             recovery_view t' = recovery_view (strip d) /\ restorable t' = true.
Proof.
  intros sc st rch tip d m o HC HH ND HSub HD HK.
  eapply chain_restore_exact_present; eauto.
  intros b HI. destruct (HSub b HI) as [E|E]; [exact E|].
  exfalso; apply HK; exists b; auto.
Qed.
(* pruning a store never alters metadata: a chain member is afterwards either intact or absent *)
Lemma find_b_filter_none : forall (q : backup -> bool) st id,
  (forall y, In y st -> b_id y <> id) -> find_b (filter q st) id = None.
Proof.
  induction st as [|x r IH]; intros id H; cbn; [reflexivity|].
  destruct (q x); cbn.
  - assert (E : (b_id x =? id) = false) by (apply N.eqb_neq; apply H; left; reflexivity).
    rewrite E. apply IH; intros y HY; apply H; right; exact HY.
  - apply IH; intros y HY; apply H; right; exact HY.
Qed.

Lemma find_b_filter : forall (q : backup -> bool) st id b, NoDup (map b_id st) ->
  find_b st id = Some b -> find_b (filter q st) id = if q b then Some b else None.
Proof.
  induction st as [|x r IH]; intros id b ND H; cbn in *; [discriminate|].
  inversion ND as [|? ? NI ND']; subst.
  destruct (b_id x =? id) eqn:E.
  - inversion H; subst x. apply N.eqb_eq in E.
    destruct (q b); cbn.
    + rewrite E, N.eqb_refl; reflexivity.
    + apply find_b_filter_none. intros y HY HE. apply NI. apply in_map_iff; exists y; split; congruence.
  - destruct (q x); cbn; [rewrite E|]; apply IH; auto.
Qed.

(* ------------------------------------------------------------------------------------------ *)
(* prune: the keep set is closed under parent links (since /repo b41f57f)                       *)
(* ------------------------------------------------------------------------------------------ *)
Lemma NoDup_app_snoc : forall {A} (l : list A) x, NoDup l -> ~ In x l -> NoDup (l ++ [x]).
Proof.
  induction l as [|y r IH]; intros x ND HN; cbn; [constructor; auto; constructor|].
  inversion ND as [|? ? NI ND']; subst. constructor.
  - intro HI. apply in_app_or in HI. destruct HI as [HI|[E|[]]]; [exact (NI HI)|]. subst; apply HN; left; reflexivity.
  - apply IH; auto. intro HI; apply HN; right; exact HI.
Qed.

Section KeepClosure.
Variables (now : N) (p : policy).

Definition retained_in (keep : list N) (b : backup) : bool := memN (b_id b) keep || young now p b.

Lemma keep_step_cases : forall keep b,
  keep_step now p keep b = keep \/
  exists pid, b_parent b = Some pid /\ retained_in keep b = true /\ ~ In pid keep /\ keep_step now p keep b = keep ++ [pid].
Proof.
  intros keep b; unfold keep_step. fold (retained_in keep b).
  destruct (retained_in keep b) eqn:ER; [|left; reflexivity].
  destruct (b_parent b) as [pid|]; [|left; reflexivity].
  destruct (memN pid keep) eqn:EM; [left; reflexivity|].
  right; exists pid; repeat split; auto. intro HI; apply memN_In in HI; congruence.
Qed.

Lemma keep_step_len : forall keep b, (length keep <= length (keep_step now p keep b))%nat.
Proof.
  intros keep b; destruct (keep_step_cases keep b) as [E|(pid & _ & _ & _ & E)]; rewrite E; [lia|].
  rewrite app_length; cbn; lia.
Qed.

Lemma keep_pass_len : forall l keep, (length keep <= length (keep_pass now p l keep))%nat.
Proof.
  induction l as [|b r IH]; intros keep; cbn; [lia|].
  unfold keep_pass in *; cbn. specialize (IH (keep_step now p keep b)). pose proof (keep_step_len keep b). lia.
Qed.

Lemma keep_pass_incl : forall l keep, incl keep (keep_pass now p l keep).
Proof.
  induction l as [|b r IH]; intros keep x HI; cbn; [exact HI|].
  unfold keep_pass in *; cbn. apply IH.
  destruct (keep_step_cases keep b) as [E|(pid & _ & _ & _ & E)]; rewrite E; [exact HI|].
  apply in_or_app; left; exact HI.
Qed.

(* a pass that adds nothing certifies closure *)
Lemma keep_pass_stable : forall l keep,
  length (keep_pass now p l keep) = length keep ->
  forall b pid, In b l -> retained_in keep b = true -> b_parent b = Some pid -> In pid keep.
Proof.
  induction l as [|b0 r IH]; intros keep HLen b pid HI HR HP; [contradiction|].
  unfold keep_pass in *; cbn [fold_left] in HLen.
  pose proof (keep_pass_len r (keep_step now p keep b0)) as H1. unfold keep_pass in H1.
  pose proof (keep_step_len keep b0) as H2.
  assert (ES : keep_step now p keep b0 = keep).
  { destruct (keep_step_cases keep b0) as [E|(q & _ & _ & _ & E)]; [exact E|].
    rewrite E, app_length in *; cbn in *; lia. }
  rewrite ES in HLen.
  destruct HI as [E|HI].
  - subst b0. destruct (keep_step_cases keep b) as [_|(q & HQ & _ & _ & E)].
    + unfold keep_step in ES. fold (retained_in keep b) in ES. rewrite HR, HP in ES.
      destruct (memN pid keep) eqn:EM; [apply memN_In; exact EM|].
      exfalso. assert (HL : length (keep ++ [pid]) = length keep) by (rewrite ES; reflexivity).
      rewrite app_length in HL; cbn in HL; lia.
    + rewrite ES in E. exfalso. assert (HL : length keep = length (keep ++ [q])) by (rewrite <- E; reflexivity).
      rewrite app_length in HL; cbn in HL; lia.
  - apply (IH keep HLen b pid HI HR HP).
Qed.

Definition universe (l : list backup) : list N :=
  map b_id l ++ flat_map (fun b => match b_parent b with Some q => [q] | None => [] end) l.

Lemma universe_len : forall l, (length (universe l) <= length l + length l)%nat.
Proof.
  intros l; unfold universe; rewrite app_length, map_length.
  assert (length (flat_map (fun b => match b_parent b with Some q => [q] | None => [] end) l) <= length l)%nat.
  { induction l as [|b r IH]; cbn; [lia|]. rewrite app_length. destruct (b_parent b); cbn; lia. }
  lia.
Qed.

Lemma keep_pass_inv : forall l0 l keep, incl l l0 -> NoDup keep -> incl keep (universe l0) ->
  NoDup (keep_pass now p l keep) /\ incl (keep_pass now p l keep) (universe l0).
Proof.
  intros l0; induction l as [|b r IH]; intros keep HL ND HU; cbn; [split; auto|].
  unfold keep_pass in *; cbn [fold_left]. apply IH.
  - intros x HX; apply HL; right; exact HX.
  - destruct (keep_step_cases keep b) as [E|(q & _ & _ & HN & E)]; rewrite E; [exact ND|].
    apply NoDup_app_snoc; auto.
  - destruct (keep_step_cases keep b) as [E|(q & HQ & _ & _ & E)]; rewrite E; [exact HU|].
    intros x HX. apply in_app_or in HX. destruct HX as [HX|[HX|[]]]; [apply HU; exact HX|]. subst x.
    unfold universe; apply in_or_app; right. apply in_flat_map. exists b; split; [apply HL; left; reflexivity|].
    rewrite HQ; left; reflexivity.
Qed.

Definition closed (l : list backup) (keep : list N) : Prop :=
  forall b pid, In b l -> retained_in keep b = true -> b_parent b = Some pid -> In pid keep.

Lemma keep_close_closed : forall l fuel keep, NoDup keep -> incl keep (universe l) ->
  (length (universe l) - length keep < fuel)%nat ->
  closed l (keep_close fuel now p l keep) /\ incl keep (keep_close fuel now p l keep).
Proof.
  intros l; induction fuel as [|f IH]; intros keep ND HU HF; [lia|].
  cbn [keep_close]. destruct (Nat.eqb (length (keep_pass now p l keep)) (length keep)) eqn:EL.
  - apply Nat.eqb_eq in EL. split; [|apply incl_refl].
    intros b pid HI HR HP. eapply keep_pass_stable; eauto.
  - apply Nat.eqb_neq in EL.
    destruct (keep_pass_inv l l keep (incl_refl _) ND HU) as [ND' HU'].
    pose proof (keep_pass_len l keep) as HLen.
    pose proof (NoDup_incl_length ND' HU') as HB.
    destruct (IH (keep_pass now p l keep) ND' HU') as [HC HI]; [lia|].
    split; [exact HC|]. intros x HX. apply HI. apply keep_pass_incl; exact HX.
Qed.

Lemma keep_set_closed : forall l, NoDup (map b_id l) -> closed l (keep_set now p l).
Proof.
  intros l ND. unfold keep_set.
  apply keep_close_closed.
  - apply NoDup_map_filter; exact ND.
  - intros x HX. unfold universe; apply in_or_app; left.
    apply in_map_iff in HX; destruct HX as [b [E HB]]. apply filter_In in HB.
    apply in_map_iff; exists b; tauto.
  - pose proof (universe_len l). lia.
Qed.

End KeepClosure.

Lemma ins_desc_In : forall x y l, In y (ins_desc x l) <-> y = x \/ In y l.
Proof.
  induction l as [|z r IH]; cbn; [intuition|].
  destruct (b_ts z <=? b_ts x); cbn; [intuition|]. rewrite IH; intuition.
Qed.

Lemma list_backups_In : forall st y, In y (list_backups st) <-> In y st.
Proof.
  induction st as [|x r IH]; intros y; cbn; [tauto|].
  unfold list_backups in *; cbn. rewrite ins_desc_In, IH. intuition.
Qed.

Lemma ins_desc_ids : forall x l, Permutation (map b_id (ins_desc x l)) (b_id x :: map b_id l).
Proof.
  induction l as [|z r IH]; cbn; [apply Permutation_refl|].
  destruct (b_ts z <=? b_ts x); cbn; [apply Permutation_refl|].
  eapply Permutation_trans; [apply perm_skip; exact IH|apply perm_swap].
Qed.

Lemma list_backups_ids : forall st, Permutation (map b_id (list_backups st)) (map b_id st).
Proof.
  induction st as [|x r IH]; cbn; [apply Permutation_refl|].
  unfold list_backups in *; cbn. eapply Permutation_trans; [apply ins_desc_ids|apply perm_skip; exact IH].
Qed.

Lemma memN_false : forall x l, memN x l = false <-> ~ In x l.
Proof.
  intros x l; split; intro H.
  - intro HI; apply memN_In in HI; congruence.
  - destruct (memN x l) eqn:E; auto. apply memN_In in E; contradiction.
Qed.

Lemma same_id_same_backup : forall st x y, NoDup (map b_id st) -> In x st -> In y st -> b_id x = b_id y -> x = y.
Proof.
  induction st as [|z r IH]; intros x y ND HX HY E; [contradiction|].
  cbn in ND; inversion ND as [|? ? NI ND']; subst.
  destruct HX as [EX|HX], HY as [EY|HY]; subst; auto.
  - exfalso; apply NI. rewrite E. apply in_map; exact HY.
  - exfalso; apply NI. rewrite <- E. apply in_map; exact HX.
Qed.

(* retained <-> the prune condition is false *)
Lemma prune_store_In : forall now p st b, NoDup (map b_id st) ->
  (In b (prune_store now p st) <-> In b st /\ prune_deletes now p (list_backups st) b = false).
Proof.
  intros now p st b ND; unfold prune_store. rewrite filter_In. split; intros [HI H]; split; auto.
  - apply negb_true_iff, memN_false in H.
    destruct (prune_deletes now p (list_backups st) b) eqn:E; auto.
    exfalso; apply H. unfold prune_deleted. apply in_map_iff; exists b; split; auto.
    apply filter_In; split; [apply list_backups_In; exact HI|exact E].
  - apply negb_true_iff, memN_false. intro HD. unfold prune_deleted in HD.
    apply in_map_iff in HD; destruct HD as [z [EZ HZ]]. apply filter_In in HZ; destruct HZ as [HZI HZ].
    apply (proj1 (list_backups_In st z)) in HZI.
    rewrite (same_id_same_backup st z b ND HZI HI EZ) in HZ. congruence.
Qed.

(* C12: pruning never removes a backup that a retained backup depends on. *)
Theorem prune_keeps_parents : forall now p st b pid y,
  NoDup (map b_id st) -> In b (prune_store now p st) -> b_parent b = Some pid ->
  In y st -> b_id y = pid -> In y (prune_store now p st).
Proof.
  intros now p st b pid y ND HB HP HY EY.
  apply prune_store_In in HB; [|exact ND]. destruct HB as [HBI HBD]. apply prune_store_In; [exact ND|]. split; [exact HY|].
  assert (NDL : NoDup (map b_id (list_backups st))).
  { eapply Permutation_NoDup; [apply Permutation_sym, list_backups_ids|exact ND]. }
  pose proof (keep_set_closed now p (list_backups st) NDL) as HC.
  assert (HR : retained_in now p (keep_set now p (list_backups st)) b = true).
  { unfold prune_deletes in HBD. unfold retained_in.
    destruct (memN (b_id b) (keep_set now p (list_backups st))); cbn in *; [reflexivity|].
    destruct (young now p b); cbn in *; [reflexivity|discriminate]. }
  pose proof (HC b pid (proj2 (list_backups_In st b) HBI) HR HP) as HK.
  unfold prune_deletes. rewrite EY. apply memN_In in HK. rewrite HK; reflexivity.
Qed.

(* hence a retained backup keeps its whole chain *)
Lemma prune_keeps_chain : forall now p st rch,
  NoDup (map b_id st) -> linked rch -> (forall b, In b rch -> find_b st (b_id b) = Some b) ->
  forall tip, hd_error rch = Some tip -> In tip (prune_store now p st) ->
  forall b, In b rch -> find_b (prune_store now p st) (b_id b) = Some b.
Proof.
  intros now p st rch ND HL; induction HL as [x HK HP | x bp r HK HP HL IH]; intros HF tip HH HT b HI.
  - cbn in HH; inversion HH; subst tip. destruct HI as [E|[]]; subst b.
    unfold prune_store in *. rewrite (find_b_filter _ st (b_id x) x ND (HF x (or_introl eq_refl))).
    apply filter_In in HT; destruct HT as [_ HT]; rewrite HT; reflexivity.
  - cbn in HH; inversion HH; subst tip.
    assert (HBP : In bp (prune_store now p st)).
    { apply (prune_keeps_parents now p st x (b_id bp) bp ND HT HP); [|reflexivity].
      apply (find_b_In st (b_id bp) bp). apply HF; right; left; reflexivity. }
    destruct HI as [E|HI].
    + subst b. unfold prune_store in *. rewrite (find_b_filter _ st (b_id x) x ND (HF x (or_introl eq_refl))).
      apply filter_In in HT; destruct HT as [_ HT]; rewrite HT; reflexivity.
    + apply (IH (fun b0 H0 => HF b0 (or_intror H0)) bp eq_refl HBP b HI).
Qed.

(* After ANY prune of a store holding a chain, every retained member of the chain restores exactly. *)
Theorem chain_restore_exact_after_prune : forall sc now p st rch tip d m o,
  chain_ok sc rch d m -> hd_error rch = Some tip -> NoDup (map b_id rch) -> NoDup (map b_id st) ->
  (forall b, In b rch -> find_b st (b_id b) = Some b) -> o_dry o = false ->
  In tip (prune_store now p st) ->
  exists t', restore_by_id (prune_store now p st) [] (b_id tip) o = (None, t') /\
             recovery_view t' = recovery_view (strip d) /\ restorable t' = true.
Proof.
  intros sc now p st rch tip d m o HC HH NDR NDS HF HD HT.
  eapply chain_restore_exact_present; eauto.
  destruct (chain_linked _ _ _ _ HC) as [HL _].
  eapply prune_keeps_chain; eauto.
Qed.

(* ------------------------------------------------------------------------------------------ *)
(* examples                                                                                    *)
(* ------------------------------------------------------------------------------------------ *)
Definition opts_plain := mkOpts false false false.
Definition default_policy := mkPolicy 24 7 4 12 0.

(* ---- the two defects repaired in /repo (0a20737, b41f57f), kept as witnesses on local copies of the
        OLD functions; the same inputs are then run through the current model. *)
Definition create_incr_files_old (d : sdir) (pts : N) (pmax : option N) : res created :=
  match sget d FManifest with
  | Some (CBlob _, _) => Err EBadManifest
  | ml =>
      let sel := filter (incr_selected pts pmax) (wal_on_disk d) in
      match sel with
      | [] => Err ENoNewWal
      | _ =>
          match ml with
          | Some (CMan m, _) =>
              let segs := merge_segs (m_segs m) (map fst sel) in
              Ok ((FManifest, CMan (set_segs m segs)) :: map (fun e => (FWal (fst e), fst (snd e))) sel,
                  max_list (map fst sel), None)
          | _ => Err ENoManifest
          end
      end
  end.

Definition prune_store_old (now : N) (p : policy) (st : store) : store :=
  let listing := list_backups st in
  let del := map b_id (filter (fun b => negb (kept now p listing b) && negb (young now p b)) listing) in
  filter (fun b => negb (memN (b_id b) del)) st.

(* directory when the full backup is taken: no snapshot yet, one segment *)
Definition w_d0 : sdir :=
  [(FManifest, (CMan (mkMan None None [10] 1), 50)); (FWal 10, (CBlob 100, 50))].
(* later: more appends to the same segment, then a snapshot (manifest now names snapshot 70) *)
Definition w_m1 := mkMan (Some 70) (Some 3) [10] 1.
Definition w_d1 : sdir :=
  [(FManifest, (CMan w_m1, 70)); (FSnap 70, (CBlob 200, 70)); (FWal 10, (CBlob 101, 65))].
Definition w_sc (s : N) : content := CBlob 200.

Definition w_b1 := mkBackup 1 None Full 60 [(FManifest, CMan (mkMan None None [10] 1)); (FWal 10, CBlob 100)] true (Some 10) None 0.
Definition w_b2_old := mkBackup 2 (Some 1) Incremental 80 [(FManifest, CMan w_m1); (FWal 10, CBlob 101)] true (Some 10) None 0.
Definition w_b2 := mkBackup 2 (Some 1) Incremental 80
  [(FSnap 70, CBlob 200); (FManifest, CMan w_m1); (FWal 10, CBlob 101)] true (Some 10) (Some 70) 0.

(* OLD behaviour: the incremental after a snapshot shipped no snapshot; the restore of the verified
   chain succeeded and was not recoverable. *)
Example old_incremental_after_snapshot :
  create_full w_d0 1 60 0 = Ok w_b1 /\
  create_incr_files_old w_d1 60 (Some 10) = Ok (b_files w_b2_old, Some 10, None) /\
  exists t', restore_by_id [w_b1; w_b2_old] [] 2 opts_plain = (None, t') /\
             restorable t' = false /\ recovery_view t' <> recovery_view (strip w_d1).
Proof.
  split; [vm_compute; reflexivity|]. split; [vm_compute; reflexivity|].
  eexists; split; [vm_compute; reflexivity|]. split; [vm_compute; reflexivity|vm_compute; discriminate].
Qed.

Lemma w_chain_ok : chain_ok w_sc [w_b2; w_b1] w_d1 w_m1.
Proof.
  eapply (co_incr w_sc [] w_d0 (mkMan None None [10] 1) w_b1 w_d1 w_m1 w_b2 [w_b1] 2 80 0).
  - eapply (co_full w_sc w_d0 _ w_b1 1 60 0);
      [apply wf_sdirb_ok; vm_compute; reflexivity|apply snaps_agreeb_ok; vm_compute; reflexivity|vm_compute; reflexivity].
  - apply wf_sdirb_ok; vm_compute; reflexivity.
  - apply snaps_agreeb_ok; vm_compute; reflexivity.
  - apply evolvesb_ok; [apply nodup_names_ok; vm_compute; reflexivity|vm_compute; reflexivity].
  - vm_compute; reflexivity.
  - intros b [].
  - vm_compute; reflexivity.
Qed.

(* CURRENT behaviour on the same input: the snapshot is shipped and the chain restores exactly. *)
Example incremental_after_snapshot_now_exact :
  create_incremental [w_b1] w_d1 1 2 80 0 = Ok w_b2 /\
  restore_by_id [w_b1; w_b2] [] 2 opts_plain =
    (None, [(FManifest, CMan w_m1); (FWal 10, CBlob 101); (FSnap 70, CBlob 200)]) /\
  recovery_view (snd (restore_by_id [w_b1; w_b2] [] 2 opts_plain)) = recovery_view (strip w_d1) /\
  recovery_view (strip w_d1) = Some (w_m1, Some (CBlob 200), [CBlob 101]).
Proof. repeat split; vm_compute; reflexivity. Qed.

(* OLD prune (default policy): full backup and its incremental in one hourly bucket; the newest was kept
   and its parent deleted, so the kept backup could not be restored.  CURRENT prune keeps both. *)
Example old_prune_deleted_parent :
  prune_store_old 1000 default_policy [w_b2; w_b1] = [w_b2] /\
  restore_by_id (prune_store_old 1000 default_policy [w_b2; w_b1]) [] 2 opts_plain = (Some EParentNotFound, []) /\
  prune_store 1000 default_policy [w_b2; w_b1] = [w_b2; w_b1] /\
  fst (restore_by_id (prune_store 1000 default_policy [w_b2; w_b1]) [] 2 opts_plain) = None.
Proof. repeat split; vm_compute; reflexivity. Qed.

(* the remaining class: an ancestor's metadata removed from the backup directory by hand *)
Example ancestor_removed_by_hand :
  KnownC12 [w_b2] [w_b2; w_b1] /\ restore_by_id [w_b2] [] 2 opts_plain = (Some EParentNotFound, []).
Proof.
  split; [exists w_b1; split; [right; left; reflexivity|vm_compute; reflexivity]|vm_compute; reflexivity].
Qed.

(* prune still deletes what no survivor needs: here the older chain (ids 1,2) goes, the newer full stays *)
Definition p_b3 := mkBackup 3 None Full 100 [(FManifest, CMan w_m1)] true None None 0.
Example prune_still_prunes :
  prune_deleted 1000 default_policy (list_backups [w_b1; w_b2; p_b3]) = [2; 1].
Proof. vm_compute; reflexivity. Qed.

(* Non-vacuity: a four-member chain — full (snapshot 5), incremental after appends, incremental after a
   NEW snapshot 7 and a rotation (ships snapshot 7), incremental after further appends (ships nothing:
   the walk over the ancestors' metadata finds snapshot 7 two levels up) — satisfies every premise of
   chain_restore_exact and restores to the source's view. *)
Definition n_sc (s : N) : content := if s =? 5 then CBlob 300 else CBlob 301.
Definition n_m0 := mkMan (Some 5) (Some 2) [10] 1.
Definition n_d0 : sdir :=
  [(FManifest, (CMan n_m0, 40)); (FSnap 5, (CBlob 300, 30)); (FWal 10, (CBlob 100, 50))].
Definition n_d1 : sdir :=
  [(FManifest, (CMan n_m0, 40)); (FSnap 5, (CBlob 300, 30)); (FWal 10, (CBlob 101, 65))].
Definition n_m2 := mkMan (Some 7) (Some 9) [10; 20] 2.
Definition n_d2 : sdir :=
  [(FManifest, (CMan n_m2, 90)); (FSnap 5, (CBlob 300, 30)); (FSnap 7, (CBlob 301, 88));
   (FWal 10, (CBlob 102, 85)); (FWal 20, (CBlob 400, 95))].
Definition n_d3 : sdir :=
  [(FManifest, (CMan n_m2, 90)); (FSnap 7, (CBlob 301, 88)); (FWal 10, (CBlob 102, 85)); (FWal 20, (CBlob 401, 115))].
Definition n_b1 := mkBackup 1 None Full 60
  [(FSnap 5, CBlob 300); (FManifest, CMan n_m0); (FWal 10, CBlob 100)] true (Some 10) (Some 5) 0.
Definition n_b2 := mkBackup 2 (Some 1) Incremental 80 [(FManifest, CMan n_m0); (FWal 10, CBlob 101)] true (Some 10) None 0.
Definition n_b3 := mkBackup 3 (Some 2) Incremental 100
  [(FSnap 7, CBlob 301); (FManifest, CMan n_m2); (FWal 10, CBlob 102); (FWal 20, CBlob 400)] true (Some 20) (Some 7) 0.
Definition n_b4 := mkBackup 4 (Some 3) Incremental 120 [(FManifest, CMan n_m2); (FWal 20, CBlob 401)] true (Some 20) None 0.

Ltac premises :=
  first [ apply wf_sdirb_ok; vm_compute; reflexivity
        | apply snaps_agreeb_ok; vm_compute; reflexivity
        | apply evolvesb_ok; [apply nodup_names_ok; vm_compute; reflexivity|vm_compute; reflexivity]
        | vm_compute; reflexivity ].

Lemma n_chain_ok : chain_ok n_sc [n_b4; n_b3; n_b2; n_b1] n_d3 n_m2.
Proof.
  eapply (co_incr n_sc [n_b2; n_b1] n_d2 n_m2 n_b3 n_d3 n_m2 n_b4 [n_b1; n_b2; n_b3] 4 120 0).
  - eapply (co_incr n_sc [n_b1] n_d1 n_m0 n_b2 n_d2 n_m2 n_b3 [n_b1; n_b2] 3 100 0).
    + eapply (co_incr n_sc [] n_d0 n_m0 n_b1 n_d1 n_m0 n_b2 [n_b1] 2 80 0).
      * eapply (co_full n_sc n_d0 _ n_b1 1 60 0); premises.
      * premises.
      * premises.
      * premises.
      * premises.
      * intros b [].
      * premises.
    + premises.
    + premises.
    + premises.
    + premises.
    + intros b [E|[]]; subst; left; vm_compute; reflexivity.
    + premises.
  - premises.
  - premises.
  - premises.
  - premises.
  - intros b [E|[E|[]]]; subst; left; vm_compute; reflexivity.
  - premises.
Qed.

Theorem chain_nonvacuous :
  let st := [n_b1; n_b2; n_b3; n_b4] in let rch := [n_b4; n_b3; n_b2; n_b1] in
  chain_ok n_sc rch n_d3 n_m2 /\ NoDup (map b_id rch) /\ store_sub st rch /\ ~ KnownC12 st rch /\
  restore_by_id st [] 4 opts_plain =
    (None, [(FSnap 5, CBlob 300); (FManifest, CMan n_m2); (FWal 10, CBlob 102); (FSnap 7, CBlob 301); (FWal 20, CBlob 401)]) /\
  recovery_view (snd (restore_by_id st [] 4 opts_plain)) = recovery_view (strip n_d3) /\
  recovery_view (strip n_d3) = Some (n_m2, Some (CBlob 301), [CBlob 102; CBlob 401]) /\
  In n_b4 (prune_store 1000 default_policy st) /\ prune_store 1000 default_policy st = st.
Proof.
  cbn zeta. split; [exact n_chain_ok|].
  split; [vm_compute; repeat constructor; cbn; intuition discriminate|].
  split; [intros b [E|[E|[E|[E|[]]]]]; subst; left; vm_compute; reflexivity|].
  split.
  - intros [b [[E|[E|[E|[E|[]]]]] HN]]; subst; vm_compute in HN; discriminate.
  - repeat split; try (vm_compute; reflexivity). vm_compute; auto.
Qed.
