(* The TokenBucket functions REGENERATED from /repo/engine/src/rate_limiter.rs (gen/Bucket_gen.v, rewritten by
   harness/p/translator on every run) compute exactly the hand-written model Model/RateLimit.v, on which the
   C19 theorems are proved.  The generated record keeps `capacity` as the u32 it is in Rust; `to_model` reads it
   as the rational the model stores.  Proofs are by unfolding and case analysis on the conditions only, so a
   semantic edit of the Rust code (a different comparison, a dropped `min`, a different field update) breaks them. *)
From Coq Require Import QArith Qminmax NArith ZArith Bool.
From Kyro Require Import Model.RateLimit gen.Bucket_gen.
Open Scope Q_scope.

Definition to_model (g : token_bucket) : bucket :=
  mkBucket (inject_Z (Z.of_N (tb_capacity g))) (tb_refill_rate g) (tb_tokens g) (tb_last_refill g).

Ltac proj_cbn :=
  cbn [tb_capacity tb_tokens tb_refill_rate tb_last_refill b_cap b_rate b_tokens b_last fst snd to_model].

(* case analysis on an `if` condition that contains no other `if` *)
Ltac innermost_if :=
  match goal with
  | |- context [if ?c then _ else _] =>
      lazymatch c with
      | context [if _ then _ else _] => fail
      | _ => destruct c
      end
  end.

Ltac gen_eq :=
  intros;
  repeat match goal with g : token_bucket |- _ => destruct g end;
  unfold Bucket_gen.try_consume, Bucket_gen.available_tokens, Bucket_gen.refund_one, Bucket_gen.refill, Bucket_gen.new,
         RateLimit.try_consume, RateLimit.available, RateLimit.refund_one, RateLimit.refill, RateLimit.bucket_new;
  proj_cbn;
  repeat (innermost_if; proj_cbn);
  reflexivity.

Lemma gen_new : forall (qps : N) (now : Q),
  to_model (Bucket_gen.new qps now) = RateLimit.bucket_new qps now.
Proof. gen_eq. Qed.

Lemma gen_refill : forall (g : token_bucket) (now : Q),
  to_model (Bucket_gen.refill g now) = RateLimit.refill (to_model g) now.
Proof. gen_eq. Qed.

Lemma gen_try_consume : forall (g : token_bucket) (now : Q),
  (to_model (fst (Bucket_gen.try_consume g now)), snd (Bucket_gen.try_consume g now))
  = RateLimit.try_consume (to_model g) now.
Proof. gen_eq. Qed.

Lemma gen_refund_one : forall (g : token_bucket),
  to_model (Bucket_gen.refund_one g) = RateLimit.refund_one (to_model g).
Proof. gen_eq. Qed.

Lemma gen_available : forall (g : token_bucket) (now : Q),
  (to_model (fst (Bucket_gen.available_tokens g now)), snd (Bucket_gen.available_tokens g now))
  = RateLimit.available (to_model g) now.
Proof. gen_eq. Qed.

(* the generated code never changes the capacity or the rate (so `to_model` loses nothing) *)
Lemma gen_capacity_constant : forall (g : token_bucket) (now : Q),
  tb_capacity (Bucket_gen.refill g now) = tb_capacity g /\
  tb_capacity (fst (Bucket_gen.try_consume g now)) = tb_capacity g /\
  tb_capacity (Bucket_gen.refund_one g) = tb_capacity g.
Proof.
  intros g now. destruct g.
  unfold Bucket_gen.try_consume, Bucket_gen.refund_one, Bucket_gen.refill. proj_cbn.
  repeat (innermost_if; proj_cbn).
  all: repeat split; reflexivity.
Qed.
